(* C08: clause 4 for a tail segment that carries its own demarcation
   ([0], [1:2], [&a], [a=b], [max(x)], (collector)).  append() writes a
   separator in front of ANY segment text, so the text after append is not one
   the reference writer produces: "x.[0]", "/x/[a=b]", "(a).+(b)".  This file
   characterises that text, its parse, and what pop() does with it.

   What the parse of "<path><separator><tail>" is: the segments of the path
   followed by the tail -- except that the intersection operator of a
   collector, "&", is taken for the anchor mark right after a separator
   (seeking_anchor_mark is set), so "(a).&(b)" reads as (a) followed by the
   plain collector (b) [tail_eff].  pop() then cuts the text when the tail is in
   canonical form, rebuilds the path from the remaining segments when no suffix
   test matches, and in the "&(b)" case cuts "(b)" and leaves "<path>.&", which
   still parses to the segments of the path. *)
From Coq Require Import List Ascii String ZArith Bool Arith Lia.
From YP Require Import Outcome PyStr Generated PathParser PathPrinter C08Spec RtStep RtSeg RtInt RtRender RtTables RtCanon RtClauses RtPop.
Import ListNotations.
Open Scope string_scope.
Open Scope nat_scope.

(* is the last segment written a collector? *)
Fixpoint last_coll (prev : bool) (l : list sseg) : bool :=
  match l with [] => prev | x :: r => last_coll (is_collector x) r end.

Lemma inv_finish prev done st : Inv prev done st -> finish st = Ok done.
Proof.
  intros (S & ty0 & A & acc & sa & sc & p & -> & Hp & <- & _). rewrite finish_top, Hp. reflexivity.
Qed.

(* what the parse makes of the tail: the intersection operator is lost *)
Definition tail_eff (x : sseg) : sseg :=
  match x with
  | ((Some TCollector, ACollector CAnd e), st) => ((Some TCollector, ACollector CNone e), st)
  | _ => x
  end.

Definition and_collector (x : sseg) : bool :=
  match x with ((Some TCollector, ACollector CAnd _), _) => true | _ => false end.

Lemma tail_eff_id x : and_collector x = false -> tail_eff x = x.
Proof.
  destruct x as [[ty at_] st]. destruct ty as [[]|]; try reflexivity. destruct at_; try reflexivity.
  destruct op; try reflexivity. discriminate.
Qed.

Section Walk.
Variable sp : sep.
Variable strip : bool.
Notation sepc := (sep_char sp).
Notation R := (run strip sepc).

(* the writer's text leaves the parser in a state "between two segments" *)
Lemma render_go_inv : forall l first prev_coll done st,
  Inv prev_coll done st -> wf_go prev_coll (map fst l) = true ->
  (first = true -> exists S A sa, st = Top S None A "" sa false /\ done = S /\ prev_coll = false /\
                     match l with y :: _ => bare_anchor (fst y) = true -> sa = true | [] => True end) ->
  exists st', R st (render_go_x sepc first l) = Ok st'
              /\ Inv (last_coll prev_coll (map fst l)) (done ++ ksegs sp strip l)%list st'.
Proof.
  induction l as [|y r IH]; intros first prev_coll done st HI Hwf Hfirst.
  - exists st. split; [reflexivity|]. cbn. rewrite app_nil_r. exact HI.
  - cbn [map wf_go] in Hwf. apply andb_true_iff in Hwf. destruct Hwf as [Hx Hr].
    cbn [render_go_x ksegs map last_coll].
    assert (Hfin : forall st1, Inv (is_collector (fst y)) (done ++ [kseg strip sepc y])%list st1 ->
                   exists st', R st1 (render_go_x sepc false r) = Ok st'
                               /\ Inv (last_coll (is_collector (fst y)) (map fst r))
                                      (done ++ kseg strip sepc y :: map (kseg strip sepc) r)%list st').
    { intros st1 HI1. destruct (IH false _ _ st1 HI1 Hr) as (st' & H1 & H2); [discriminate|].
      exists st'. split; [exact H1|]. unfold ksegs in H2. rewrite <- app_assoc in H2. exact H2. }
    destruct (needs_sep (fst y)) eqn:Ens.
    + destruct first.
      * cbn [negb andb]. change ("" ++ ?z) with z.
        destruct (Hfirst eq_refl) as (S & A & sa & -> & -> & -> & Hba).
        destruct (seg_core sp strip y S A sa false false (render_go_x sepc false r) Hx Ens) as (st1 & H1 & HI1);
          [discriminate | exact Hba |].
        destruct (Hfin st1 HI1) as (st' & H2 & H3). exists st'. split; [rewrite H1; exact H2 | exact H3].
      * cbn [negb andb]. change (c1 sepc ++ ?z) with (String sepc z).
        pose proof HI as HI0.
        destruct HI as (S & ty0 & A & acc & sa & sc & p & -> & Hp & <- & Hc1 & Hc2).
        cbn [run]. rewrite sep_step_top, Hp. cbn [bind].
        destruct (seg_core sp strip y (S ++ p)%list A true sc prev_coll (render_go_x sepc false r) Hx Ens) as (st1 & H1 & HI1);
          [intros Hsc; eapply inv_sc; eassumption | reflexivity |].
        destruct (Hfin st1 HI1) as (st' & H2 & H3). exists st'. split; [rewrite H1; exact H2 | exact H3].
    + cbn [andb]. change ("" ++ ?z) with z.
      destruct (seg_self sp strip y prev_coll done st (render_go_x sepc false r) HI Hx Ens) as (st1 & H1 & HI1).
      destruct (Hfin st1 HI1) as (st' & H2 & H3). exists st'. split; [rewrite H1; exact H2 | exact H3].
Qed.

(* a collector's operator and parenthesis right after a separator that
   follows a collector: "&" is the anchor mark there *)
Lemma coll_op_open_sep S A op rest :
  R (Top S None A "" true true) (cop_text op ++ String "("%char rest)
  = R (Cst S A (match op with CAnd => CNone | o => o end) 0 ""
           (match op with CAnd => false | _ => true end) false) rest.
Proof. destruct op; reflexivity. Qed.

(* a tail with its own demarcation, from the state right after a separator *)
Lemma tail_after_sep x S A sc prev_coll rest :
  wf_seg prev_coll x = true -> needs_sep x = false -> (prev_coll = true -> sc = true) ->
  exists st', R (Top S None A "" true sc) (body sepc x ++ rest) = R st' rest
              /\ Inv (is_collector x) (S ++ [kseg strip sepc (plain_x (tail_eff x))])%list st'.
Proof.
  intros Hwf Hns Hsc.
  destruct (op_collector x) eqn:Eop.
  - destruct x as [[ty at_] st]. destruct ty as [[]|]; try discriminate Eop. destruct at_; try discriminate Eop.
    cbn [wf_seg] in Hwf. apply andb_true_iff in Hwf. destruct Hwf as [He Hop].
    assert (Hpc : prev_coll = true) by (destruct op; [discriminate Eop | exact Hop | exact Hop | exact Hop]).
    rewrite (Hsc Hpc).
    unfold wf_expr in He. apply andb_true_iff in He. destruct He as [He H4].
    apply andb_true_iff in He. destruct He as [He H3]. apply andb_true_iff in He. destruct He as [H1 H2].
    destruct expr as [|e0 er]; [discriminate H1|].
    cbn [body is_collector]. rewrite !app_assoc_s. change ("(" ++ ?z) with (String "("%char z).
    rewrite coll_op_open_sep.
    eexists. split.
    + rewrite (run_app strip sepc (String e0 er)).
      pose proof (coll_expr strip sepc S A (match op with CAnd => CNone | o => o end) (String e0 er) 0 0 ""
                    (match op with CAnd => false | _ => true end) H2 H3 (fun _ => H4)) as Hx.
      cbn [Nat.add] in Hx. rewrite Hx. cbn [bind append aft].
      change (")" ++ rest) with (String ")"%char rest). cbn [run]. rewrite coll_close. reflexivity.
    + exists (S ++ [(Some TCollector, ACollector (match op with CAnd => CNone | o => o end) (String e0 er))])%list,
             None, A, "", false, true, [].
      repeat split; try discriminate. rewrite app_nil_r. destruct op; reflexivity.
  - assert (Ea : and_collector x = false).
    { destruct x as [[ty at_] st]. destruct ty as [[]|]; try reflexivity. destruct at_; try reflexivity.
      destruct op; try reflexivity. discriminate Eop. }
    rewrite (tail_eff_id x Ea).
    destruct (seg_self_gen sp strip (plain_x x) prev_coll S None A "" true sc [] rest) as (st' & H1 & H2);
      try assumption; [reflexivity | cbn [plain_x fst]; rewrite Eop; discriminate |].
    rewrite body_x_plain in H1. exists st'. split; [exact H1|].
    cbn [plain_x fst] in H2. rewrite app_nil_r in H2. exact H2.
Qed.
End Walk.

(* ---- well-formedness of the path with the tail ---- *)
Lemma wf_go_tail : forall l prev x,
  wf_go prev (l ++ [x]) = true -> wf_go prev l = true /\ wf_seg (last_coll prev l) x = true.
Proof.
  induction l as [|y r IH]; intros prev x H.
  - cbn in H. rewrite andb_true_r in H. split; [reflexivity | exact H].
  - cbn [app wf_go] in H. apply andb_true_iff in H. destruct H as [H1 H2].
    destruct (IH _ _ H2) as [H3 H4]. split; [cbn [wf_go]; rewrite H1, H3; reflexivity | exact H4].
Qed.

(* ---- the parse of the writer's text followed by any rest ---- *)
Lemma parse_then sp strip l rest out :
  l <> [] -> wf sp l = true ->
  (forall st1, Inv (last_coll false l) (ksegs sp strip (map plain_x l)) st1 ->
     exists st2, run strip (sep_char sp) st1 rest = Ok st2 /\ finish st2 = Ok out) ->
  parse (Forced sp) strip (render_ref sp l ++ rest) = Ok out.
Proof.
  intros Hne Hwf Htail.
  destruct (wf_split _ _ Hwf) as [Hgo _].
  pose proof (wf_nonblank sp l Hne Hwf) as Hb.
  assert (Hb2 : nonblank (render_ref sp l ++ rest) = true) by (apply nonblank_app; exact Hb).
  unfold parse. rewrite (normalize_nonblank _ Hb2). cbn [effective_sep].
  rewrite <- render_x_plain in *. set (L := map plain_x l) in *.
  assert (HgoL : wf_go false (map fst L) = true) by (unfold L; rewrite map_fst_plain; exact Hgo).
  assert (Hlc : last_coll false (map fst L) = last_coll false l) by (unfold L; rewrite map_fst_plain; reflexivity).
  assert (HL : exists y r, L = y :: r).
  { unfold L. destruct l as [|a b]; [congruence|]. cbn. eauto. }
  destruct HL as (y & r & EL).
  destruct (render_x sp L ++ rest) as [|c0 t] eqn:Et; [discriminate Hb2|].
  destruct sp.
  - (* dot *)
    cbn [nth_char String.get]. cbv beta iota.
    unfold render_x in Et. change ("" ++ ?z) with z in Et.
    destruct (render_go_inv Dot strip L true false [] (Top [] None "" "" (Ascii.eqb c0 "&"%char) false)
                (inv_init _) HgoL) as (st1 & H1 & H2).
    { intros _. exists [], "", (Ascii.eqb c0 "&"%char). repeat split. rewrite EL.
      intros Hba. rewrite EL in HgoL. cbn [map wf_go] in HgoL. apply andb_true_iff in HgoL. destruct HgoL as [Hy _].
      rewrite EL in Et.
      destruct (render_go_x (sep_char Dot) true (y :: r)) as [|d0 t0] eqn:Eg.
      - exfalso. destruct y as [[[[[]|] at_] st] X]; try discriminate Hba. cbn in Hba. apply negb_true_iff in Hba.
        destruct at_; try discriminate Hy. cbn in Eg. rewrite Hba in Eg. discriminate Eg.
      - cbn in Et. injection Et as <- _.
        rewrite (bare_anchor_head _ y r d0 t0 Hba Hy (eq_sym Eg)). reflexivity. }
    cbn [app] in H2. rewrite Hlc in H2. destruct (Htail st1 H2) as (st2 & H3 & H4).
    rewrite init_is_top. cbn [sepc_of]. rewrite <- Et, run_app. cbn [sep_char] in H1, H3 |- *. rewrite H1. cbn [bind].
    rewrite H3. cbn [bind]. exact H4.
  - (* slash *)
    unfold render_x in Et. change ("/" ++ ?z) with (String "/"%char z) in Et. cbn [append] in Et. injection Et as <- <-.
    destruct (render_go_inv Slash strip L true false [] (Top [] None "" "" true false)
                (inv_init _) HgoL) as (st1 & H1 & H2).
    { intros _. exists [], "", true. repeat split. destruct L; [exact I | reflexivity]. }
    cbn [app] in H2. rewrite Hlc in H2. destruct (Htail st1 H2) as (st2 & H3 & H4).
    destruct (nth_char _ _) as [c1'|] eqn:En.
    + rewrite init_is_top. cbn [sepc_of run]. rewrite (sep_step_top strip Slash). cbn [pend nonempty bind app].
      rewrite run_app. cbn [sep_char] in H1, H3 |- *. rewrite H1. cbn [bind]. rewrite H3. cbn [bind]. exact H4.
    + exfalso. eapply nth_slash. exact En.
Qed.

(* ---- the parse of "<path><separator><tail>" ---- *)
Theorem parse_appended sp strip l x :
  l <> [] -> wf sp l = true -> wf_go false (l ++ [x]) = true -> needs_sep x = false ->
  parse (Forced sp) strip (render_ref sp l ++ c1 (sep_char sp) ++ body (sep_char sp) x)
  = Ok (map (kseg strip (sep_char sp)) (map plain_x l) ++ [kseg strip (sep_char sp) (plain_x (tail_eff x))])%list.
Proof.
  intros Hne Hwf Hgo2 Hns.
  destruct (wf_go_tail _ _ _ Hgo2) as [Hgo Hx].
  apply parse_then; [exact Hne | exact Hwf |].
  intros st1 (S & ty0 & A & acc & sa & sc & p & -> & Hp & E & Hc1 & Hc2).
  change (c1 (sep_char sp) ++ ?z) with (String (sep_char sp) z). cbn [run].
  rewrite sep_step_top, Hp. cbn [bind].
  destruct (tail_after_sep sp strip x (S ++ p)%list A sc (last_coll false l) "" Hx Hns) as (st2 & H1 & H2).
  { intros Hl. destruct (Hc1 Hl) as (_ & _ & ->). reflexivity. }
  rewrite app_nil_r_s in H1. cbn [run] in H1. exists st2. split; [exact H1|].
  rewrite (inv_finish _ _ _ H2), E. reflexivity.
Qed.

(* ---- the parse of "<path><separator>&": the mark alone adds no segment ---- *)
Theorem parse_amp_tail sp strip l :
  l <> [] -> wf sp l = true ->
  parse (Forced sp) strip (render_ref sp l ++ c1 (sep_char sp) ++ "&")
  = Ok (map (kseg strip (sep_char sp)) (map plain_x l)).
Proof.
  intros Hne Hwf. apply parse_then; [exact Hne | exact Hwf |].
  intros st1 (S & ty0 & A & acc & sa & sc & p & -> & Hp & E & Hc1 & Hc2).
  change (c1 (sep_char sp) ++ "&") with (String (sep_char sp) (String "&"%char "")). cbn [run].
  rewrite sep_step_top, Hp. cbn [bind]. rewrite amp_top. cbn [bind].
  eexists. split; [reflexivity|]. rewrite finish_top. cbn [pend nonempty bind]. rewrite app_nil_r. rewrite E. reflexivity.
Qed.

(* ====================================================================== *)
(* pop() *)

(* two strings that differ at some position both have *)
Fixpoint clash (a b : string) : bool :=
  match a, b with
  | String c a', String d b' => if Ascii.eqb c d then clash a' b' else true
  | _, _ => false
  end.

Lemma clash_starts : forall a b u v, clash a b = true -> starts_with (a ++ u) (b ++ v) = false.
Proof.
  induction a as [|c a IH]; intros b u v H; [discriminate H|]. destruct b as [|d b]; [discriminate H|].
  cbn in *. destruct (Ascii.eqb c d); [apply IH; exact H | reflexivity].
Qed.

(* no text that ends with X is a suffix of a text that ends with B *)
Lemma clash_no_suffix X B u t :
  clash (rev_str X) (rev_str B) = true -> ends_with (u ++ X) (t ++ B) = false.
Proof. intros H. unfold ends_with. rewrite !rev_str_app. apply clash_starts. exact H. Qed.

Lemma rev_str_length s : String.length (rev_str s) = String.length s.
Proof.
  induction s as [|c r IH]; [reflexivity|].
  change (String c r) with (String c "" ++ r). rewrite rev_str_app, !length_app_s, IH. cbn. lia.
Qed.

Lemma rev_str_involutive s : rev_str (rev_str s) = s.
Proof.
  induction s as [|c r IH]; [reflexivity|].
  change (String c r) with (String c "" ++ r). rewrite rev_str_app, rev_str_app, IH. reflexivity.
Qed.

Lemma same_len_clash : forall a b, String.length a = String.length b -> a = b \/ clash a b = true.
Proof.
  induction a as [|c a IH]; intros [|d b] H; try discriminate H; [left; reflexivity|].
  cbn in H. injection H as H. cbn. destruct (Ascii.eqb c d) eqn:E; [|right; reflexivity].
  apply Ascii.eqb_eq in E. subst d. destruct (IH b H) as [->|Hc]; [left; reflexivity | right; exact Hc].
Qed.

Lemma same_len_rev_clash X B :
  String.length X = String.length B -> X = B \/ clash (rev_str X) (rev_str B) = true.
Proof.
  intros H. destruct (same_len_clash (rev_str X) (rev_str B)) as [E|E]; [rewrite !rev_str_length; exact H | |right; exact E].
  left. rewrite <- (rev_str_involutive X), E. apply rev_str_involutive.
Qed.

Definition slash_pre (sp : sep) : string := match sp with Slash => "/" | Dot => "" end.

(* str() of any popped segment alone (it stands in first position) *)
Lemma removable_any sp prev x :
  wf_seg prev x = true -> wfc_seg x = true ->
  stringify (Some sp) [kseg false (sep_char sp) (plain_x x)] = slash_pre sp ++ tail_canon sp x.
Proof.
  intros Hw Hc. unfold stringify. cbn [sepc_of stringify_go].
  pose proof (stringify_seg_x sp sp true prev (plain_x x) Hw Hc) as H. cbn [negb] in H. rewrite H.
  rewrite andb_false_r, app_nil_r_s. unfold tail_canon. destruct sp; reflexivity.
Qed.

(* pop() up to the choice of branch, for any text whose parse ends with [kx] *)
Lemma pop_unfold_gen sp NOW segs0 kx X :
  infer_sep NOW = Some sp ->
  parse_es (Some sp) false NOW = Ok (segs0 ++ [kx])%list ->
  stringify (Some sp) [kx] = slash_pre sp ++ X ->
  y_pop (mkyp NOW None [] [] "")
  = (Ok kx,
     let p2 := mkyp NOW (Some sp) (segs0 ++ [kx])%list [] "" in
     if ends_with (c1 (sep_char sp) ++ X) NOW
     then y_set_original (take (str_len NOW - str_len (c1 (sep_char sp) ++ X)) NOW) p2
     else if ends_with (slash_pre sp ++ X) NOW
     then y_set_original (take (str_len NOW - str_len (slash_pre sp ++ X)) NOW) p2
     else if sepopt_eqb (Some sp) (Some Slash) && ends_with (drop 1 (slash_pre sp ++ X)) NOW
     then y_set_original (take (str_len NOW - str_len (slash_pre sp ++ X) + 1) NOW) p2
     else y_set_original (stringify (Some sp) segs0) p2).
Proof.
  intros Hinf Hp Hr.
  unfold y_pop, y_unescaped. cbn [y_unesc seglist_nonempty]. unfold y_separator. cbn [y_sep y_orig y_unesc y_esc y_strd].
  rewrite Hinf, Hp. cbn [y_sep y_orig y_unesc y_esc y_strd].
  rewrite rev_app_distr. cbn [rev app]. rewrite Hr, removelast_last.
  assert (Hx : (if sepopt_eqb (Some sp) (Some Slash) then slash_pre sp ++ X else str1 (sepc_of (Some sp)) ++ slash_pre sp ++ X)
               = c1 (sep_char sp) ++ X) by (destruct sp; reflexivity).
  rewrite Hx. reflexivity.
Qed.

(* the escaped parse of the two texts pop() can leave *)
Lemma escaped_text sp l p2 :
  l <> [] -> wf sp l = true -> dot_text_ok sp (render_ref sp l) = true ->
  fst (y_escaped (y_set_original (render_ref sp l) p2)) = Ok (segs_of l).
Proof.
  intros Hne Hwf Hdot. pose proof (wf_nonblank sp l Hne Hwf) as Hb.
  unfold y_set_original. rewrite (normalize_nonblank _ Hb).
  unfold y_escaped. cbn [y_esc seglist_nonempty]. unfold y_separator. cbn [y_sep y_orig y_unesc y_esc y_strd].
  rewrite (infer_sep_text sp _ Hb Hdot) by (intros ->; eexists; reflexivity).
  rewrite <- parse_forced_es by (apply normalize_nonblank; exact Hb).
  rewrite (parse_render sp l Hwf). reflexivity.
Qed.

Lemma escaped_canon sp l p2 :
  wfc sp l = true -> dot_text_ok sp (render_ref sp l) = true ->
  dot_text_ok sp (canon_of sp sp l) = true -> (sp = Dot -> nonblank (canon_of sp sp l) = true) ->
  fst (y_escaped (y_set_original (canon_of sp sp l) p2)) = Ok (segs_of l).
Proof.
  intros Hwfc Hdot Hd Hnb.
  assert (Hnb' : nonblank (canon_of sp sp l) = true).
  { destruct sp eqn:Es; [apply Hnb; reflexivity | apply nonblank_slash]. }
  unfold y_set_original. rewrite (normalize_nonblank _ Hnb').
  unfold y_escaped. cbn [y_esc seglist_nonempty]. unfold y_separator. cbn [y_sep y_orig y_unesc y_esc y_strd].
  pose proof (canonical_auto sp sp l _ Hwfc Hdot (canon_is sp sp l Hwfc Hdot)) as Hp.
  rewrite parse_auto_es, (normalize_nonblank _ Hnb') in Hp. rewrite Hp; [reflexivity | | exact Hd].
  intros _. rewrite Hnb'. apply orb_true_r.
Qed.

Lemma stringify_usegs sp l :
  wfc sp l = true -> stringify (Some sp) (usegs sp l) = canon_of sp sp l.
Proof.
  intros Hwfc. destruct (wfc_split _ _ Hwfc) as [Hwf Hc]. destruct (wf_split _ _ Hwf) as [Hgo _].
  unfold usegs, canon_of. apply canon_text; rewrite map_fst_plain; assumption.
Qed.

Section PopSelf.
Variables (sp : sep) (l : list sseg) (x : sseg).
Notation sepc := (sep_char sp).
Hypothesis Hne : l <> [].
Hypothesis Hwfc1 : wfc sp l = true.
Hypothesis Hwfc : wfc sp (l ++ [x]) = true.
Hypothesis Hdot : dot_text_ok sp (render_ref sp l) = true.
Hypothesis Hsep : needs_sep x = false.

Let T := render_ref sp l.
Let B := body sepc x.
Let NOW := T ++ c1 sepc ++ B.
Let kx := kseg false sepc (plain_x (tail_eff x)).
Let X := tail_canon sp (tail_eff x).

Lemma self_wf : wf sp l = true.
Proof. destruct (wfc_split _ _ Hwfc1) as [H _]. exact H. Qed.

Lemma self_T_nonblank : nonblank T = true.
Proof. apply wf_nonblank; [exact Hne | exact self_wf]. Qed.

Lemma self_appended : y_append B (y_new T) = mkyp NOW None [] [] "".
Proof.
  pose proof self_T_nonblank as Hb.
  unfold y_new, y_set_original. rewrite (normalize_nonblank _ Hb).
  unfold y_append, y_separator. cbn [y_sep y_orig y_unesc y_esc y_strd].
  rewrite (infer_sep_text sp T Hb Hdot) by (intros ->; eexists; reflexivity).
  assert (String.length T <? 1 = false) as ->.
  { destruct T; [discriminate Hb | reflexivity]. }
  unfold y_set_original. change (str1 sepc) with (c1 sepc). fold NOW.
  rewrite (normalize_nonblank NOW) by (apply nonblank_app; exact Hb). reflexivity.
Qed.

Lemma self_NOW_nonblank : nonblank NOW = true.
Proof. apply nonblank_app. exact self_T_nonblank. Qed.

Lemma self_infer : infer_sep NOW = Some sp.
Proof.
  apply infer_sep_text; [exact self_NOW_nonblank | apply dot_ok_app; [exact self_T_nonblank | exact Hdot] |].
  intros ->. eexists. reflexivity.
Qed.

Lemma self_x_wf : wf_seg (last_coll false l) x = true /\ wfc_seg x = true.
Proof.
  destruct (wfc_split _ _ Hwfc) as [Hw Hc]. destruct (wf_split _ _ Hw) as [Hgo _].
  destruct (wf_go_tail _ _ _ Hgo) as [_ Hx]. destruct (forallb_snoc _ _ _ Hc) as [_ Hcx]. split; assumption.
Qed.

Lemma self_eff_wf : wf_seg (last_coll false l) (tail_eff x) = true /\ wfc_seg (tail_eff x) = true.
Proof.
  destruct self_x_wf as [H1 H2]. destruct x as [[ty at_] st]. destruct ty as [[]|]; try (split; assumption).
  destruct at_; try (split; assumption). destruct op; try (split; assumption).
  cbn [tail_eff]. split; [|reflexivity]. cbn [wf_seg] in *. apply andb_true_iff in H1. destruct H1 as [H1 _].
  rewrite H1. reflexivity.
Qed.

Lemma self_NOW_parse : parse_es (Some sp) false NOW = Ok (usegs sp l ++ [kx])%list.
Proof.
  destruct (wfc_split _ _ Hwfc) as [Hw _]. destruct (wf_split _ _ Hw) as [Hgo _].
  rewrite <- parse_forced_es by (apply normalize_nonblank; exact self_NOW_nonblank).
  unfold NOW, T, B. rewrite (parse_appended sp false l x Hne self_wf Hgo Hsep). reflexivity.
Qed.

Lemma self_pop_unfold :
  y_pop (y_append B (y_new T))
  = (Ok kx,
     let p2 := mkyp NOW (Some sp) (usegs sp l ++ [kx])%list [] "" in
     if ends_with (c1 sepc ++ X) NOW
     then y_set_original (take (str_len NOW - str_len (c1 sepc ++ X)) NOW) p2
     else if ends_with (slash_pre sp ++ X) NOW
     then y_set_original (take (str_len NOW - str_len (slash_pre sp ++ X)) NOW) p2
     else if sepopt_eqb (Some sp) (Some Slash) && ends_with (drop 1 (slash_pre sp ++ X)) NOW
     then y_set_original (take (str_len NOW - str_len (slash_pre sp ++ X) + 1) NOW) p2
     else y_set_original (canon_of sp sp l) p2).
Proof.
  rewrite self_appended. destruct self_eff_wf as [H1 H2].
  rewrite (pop_unfold_gen sp NOW (usegs sp l) kx X self_infer self_NOW_parse (removable_any sp _ _ H1 H2)).
  rewrite (stringify_usegs sp l Hwfc1). reflexivity.
Qed.

(* (1) the tail is written in canonical form: the text is cut *)
Lemma self_pop_cut :
  B = X ->
  exists p', y_pop (y_append B (y_new T)) = (Ok kx, p') /\ y_orig p' = T /\ fst (y_escaped p') = Ok (segs_of l).
Proof.
  intros Hb. rewrite self_pop_unfold. cbv zeta.
  assert (Hn : NOW = T ++ (c1 sepc ++ X)) by (unfold NOW; rewrite Hb; reflexivity).
  assert (He : ends_with (c1 sepc ++ X) NOW = true) by (rewrite Hn; apply ends_with_app).
  assert (Hcut : take (str_len NOW - str_len (c1 sepc ++ X)) NOW = T) by (rewrite Hn; apply cut_suffix).
  rewrite He, Hcut. eexists. split; [reflexivity|]. split.
  - unfold y_set_original. cbn [y_orig]. apply normalize_nonblank. exact self_T_nonblank.
  - apply escaped_text; [exact Hne | exact self_wf | exact Hdot].
Qed.

(* (2) the written tail and its canonical form differ somewhere counted from
   the end: no suffix test matches, the path is rebuilt *)
Lemma self_pop_rebuild :
  clash (rev_str X) (rev_str B) = true ->
  dot_text_ok sp (canon_of sp sp l) = true -> (sp = Dot -> nonblank (canon_of sp sp l) = true) ->
  exists p', y_pop (y_append B (y_new T)) = (Ok kx, p') /\ y_orig p' = canon_of sp sp l
             /\ fst (y_escaped p') = Ok (segs_of l).
Proof.
  intros Hcl Hd Hnb. rewrite self_pop_unfold. cbv zeta.
  assert (E1 : ends_with (c1 sepc ++ X) NOW = false) by (unfold NOW; rewrite <- app_assoc_s; apply clash_no_suffix; exact Hcl).
  assert (E2 : ends_with (slash_pre sp ++ X) NOW = false) by (unfold NOW; rewrite <- app_assoc_s; apply clash_no_suffix; exact Hcl).
  assert (E3 : (sepopt_eqb (Some sp) (Some Slash) && ends_with (drop 1 (slash_pre sp ++ X)) NOW) = false).
  { destruct sp eqn:Es; [reflexivity|]. cbn [sepopt_eqb andb slash_pre]. change (drop 1 ("/" ++ X)) with ("" ++ X).
    unfold NOW. rewrite <- app_assoc_s. apply clash_no_suffix. exact Hcl. }
  rewrite E1, E2, E3. eexists. split; [reflexivity|]. split.
  - unfold y_set_original. cbn [y_orig]. apply normalize_nonblank.
    destruct sp eqn:Es; [apply Hnb; reflexivity | apply nonblank_slash].
  - apply escaped_canon; assumption.
Qed.
End PopSelf.

(* ====================================================================== *)
(* a tail with its own demarcation is either written in canonical form or
   differs from its canonical form somewhere counted from the end *)

Lemma rev_snoc a c : rev_str (a ++ String c "") = String c (rev_str a).
Proof. rewrite rev_str_app. reflexivity. Qed.

Lemma clash_last1 (U V : string) a b :
  Ascii.eqb a b = false -> clash (rev_str (U ++ String a "]")) (rev_str (V ++ String b "]")) = true.
Proof.
  intros H. change (String a "]") with (String a "" ++ "]"). change (String b "]") with (String b "" ++ "]").
  rewrite <- !app_assoc_s, !rev_snoc. cbn. rewrite H. reflexivity.
Qed.

Lemma clash_last2 (U V : string) a b q :
  Ascii.eqb a b = false ->
  clash (rev_str (U ++ String a (String q "]"))) (rev_str (V ++ String b (String q "]"))) = true.
Proof.
  intros H. change (String a (String q "]")) with (String a "" ++ String q "" ++ "]").
  change (String b (String q "]")) with (String b "" ++ String q "" ++ "]").
  rewrite <- !app_assoc_s, !rev_snoc. cbn. rewrite Ascii.eqb_refl, H. reflexivity.
Qed.

Ltac str_norm := unfold c1; repeat first [rewrite !app_assoc_s | progress (cbn [append])]; reflexivity.

Lemma snoc_cases : forall s : string, s = "" \/ exists s' c, s = s' ++ String c "".
Proof.
  induction s as [|c r IH]; [left; reflexivity|]. right.
  destruct IH as [->|(s' & d & ->)]; [exists "", c; reflexivity | exists (String c s'), d; reflexivity].
Qed.

Lemma all_chars_snoc p s c : all_chars p (s ++ String c "") = true -> p c = true.
Proof.
  induction s as [|d r IH]; cbn; intros H.
  - rewrite andb_true_r in H. exact H.
  - apply andb_true_iff in H. apply IH. apply H.
Qed.

Lemma esc_with_snoc S : forall t c,
  esc_with S (t ++ String c "")
  = esc_with S t ++ (if mem_ascii c S then String "\"%char (String c "") else String c "").
Proof.
  induction t as [|d r IH]; intros c; [cbn; destruct (mem_ascii c S); reflexivity|].
  cbn [append esc_with]. rewrite IH. destruct (mem_ascii d S); reflexivity.
Qed.

Lemma name_char_not_close c : is_name_char c = true -> Ascii.eqb c "]"%char = false.
Proof. intros H. all_ascii c; vm_compute in H; try discriminate H; reflexivity. Qed.

Lemma op_last m :
  m <> MRegex ->
  exists o c0, op_text m = o ++ String c0 "" /\ Ascii.eqb c0 "'"%char = false /\ Ascii.eqb c0 """"%char = false.
Proof.
  intros H. destruct m; try congruence;
    first [ exists "", "%"%char; repeat split; reflexivity | exists "", "$"%char; repeat split; reflexivity
          | exists "", "="%char; repeat split; reflexivity | exists "", "^"%char; repeat split; reflexivity
          | exists "", ">"%char; repeat split; reflexivity | exists "", "<"%char; repeat split; reflexivity
          | exists ">", "="%char; repeat split; reflexivity | exists "<", "="%char; repeat split; reflexivity ].
Qed.

Lemma quote_in_term_sets q st :
  st_quote st = Some q -> mem_ascii (qchar q) (term_specials st) = true /\ mem_ascii (qchar q) operand_specials = true.
Proof. intros H. unfold term_specials. rewrite H. destruct q, (st_nest st); split; reflexivity. Qed.

(* a search whose term is demarcated by quotes never ends like its canonical form *)
Lemma quoted_term_clash q Q (PX P term : string) c0 :
  mem_ascii (qchar q) Q = true ->
  Ascii.eqb c0 (qchar q) = false ->
  clash (rev_str ((PX ++ String c0 "") ++ esc_with operand_specials term ++ "]"))
        (rev_str (P ++ (c1 (qchar q) ++ esc_with Q term ++ c1 (qchar q)) ++ "]")) = true.
Proof.
  intros HQ Hc0.
  assert (HO : mem_ascii (qchar q) operand_specials = true) by (destruct q; reflexivity).
  destruct (snoc_cases term) as [->|(t' & c & ->)].
  - cbn [esc_with append].
    replace ((PX ++ String c0 "") ++ "]") with (PX ++ String c0 "]") by str_norm.
    replace (P ++ (c1 (qchar q) ++ c1 (qchar q)) ++ "]") with ((P ++ c1 (qchar q)) ++ String (qchar q) "]")
      by str_norm.
    apply clash_last1. exact Hc0.
  - rewrite !esc_with_snoc.
    destruct (Ascii.eqb c (qchar q)) eqn:Ec.
    + apply Ascii.eqb_eq in Ec. subst c. rewrite HQ, HO.
      replace ((PX ++ String c0 "") ++ (esc_with operand_specials t' ++ String "\"%char (String (qchar q) "")) ++ "]")
        with (((PX ++ String c0 "") ++ esc_with operand_specials t') ++ String "\"%char (String (qchar q) "]"))
        by str_norm.
      replace (P ++ (c1 (qchar q) ++ (esc_with Q t' ++ String "\"%char (String (qchar q) "")) ++ c1 (qchar q)) ++ "]")
        with ((P ++ c1 (qchar q) ++ esc_with Q t' ++ String "\"%char "") ++ String (qchar q) (String (qchar q) "]"))
        by str_norm.
      apply clash_last2. destruct q; reflexivity.
    + set (wO := if mem_ascii c operand_specials then String "\"%char (String c "") else String c "").
      set (wQ := if mem_ascii c Q then String "\"%char (String c "") else String c "").
      assert (HwO : exists u, wO = u ++ String c "").
      { unfold wO. destruct (mem_ascii c operand_specials); [exists (String "\"%char "") | exists ""]; reflexivity. }
      destruct HwO as (u & ->).
      replace ((PX ++ String c0 "") ++ (esc_with operand_specials t' ++ u ++ String c "") ++ "]")
        with (((PX ++ String c0 "") ++ esc_with operand_specials t' ++ u) ++ String c "]")
        by str_norm.
      replace (P ++ (c1 (qchar q) ++ (esc_with Q t' ++ wQ) ++ c1 (qchar q)) ++ "]")
        with ((P ++ c1 (qchar q) ++ esc_with Q t' ++ wQ) ++ String (qchar q) "]")
        by str_norm.
      apply clash_last1. exact Ec.
Qed.

Lemma same_len_rev_clash_or (X B : string) :
  String.length B = String.length X -> B = X \/ clash (rev_str X) (rev_str B) = true.
Proof.
  intros H. destruct (same_len_rev_clash X B (eq_sym H)) as [E|E]; [left; symmetry; exact E | right; exact E].
Qed.

Theorem self_tail_cases sp prev x :
  needs_sep x = false -> wf_seg prev x = true -> wfc_seg x = true ->
  body (sep_char sp) x = tail_canon sp x
  \/ clash (rev_str (tail_canon sp x)) (rev_str (body (sep_char sp) x)) = true.
Proof.
  intros Hns Hwf Hc. unfold tail_canon.
  destruct x as [[ty at_] st]. destruct ty as [[]|]; try discriminate Hns; destruct at_; try discriminate Hwf.
  - (* [&anchor] : the canonical form of a popped anchor is &anchor *)
    cbn in Hns. apply negb_false_iff in Hns. right.
    cbn [wf_seg] in Hwf. rewrite Hns in Hwf. cbn [orb] in Hwf. rewrite andb_true_r in Hwf.
    apply andb_true_iff in Hwf. destruct Hwf as [H1 H2].
    cbn [restyle plain_x fst snd body_x body st_bracket negb]. rewrite Hns.
    destruct (snoc_cases s) as [->|(n' & c & ->)]; [discriminate H1|].
    pose proof (name_char_not_close c (all_chars_snoc _ _ _ H2)) as Hcl.
    replace ("&" ++ n' ++ String c "") with (("&" ++ n') ++ String c "") by str_norm.
    replace ("[&" ++ (n' ++ String c "") ++ "]") with (("[&" ++ n') ++ String c "]") by str_norm.
    rewrite rev_snoc.
    change (String c "]") with (String c "" ++ "]"). rewrite <- app_assoc_s, !rev_snoc. cbn.
    rewrite Hcl. reflexivity.
  - (* collector *) left. destruct op; reflexivity.
  - (* slice *) left. reflexivity.
  - (* index *) left. reflexivity.
  - (* search *)
    cbn [restyle plain_x fst snd body_x body st_quote st_prefix st_delim st_nest seg_term andb negb].
    rewrite andb_false_r, andb_true_r. change ("" ++ ?z) with z.
    destruct m.
    9: { apply same_len_rev_clash_or.
         destruct inv, (st_prefix st); cbn [andb negb]; unfold c1; rewrite ?length_app_s; cbn [String.length]; lia. }
    all: destruct (st_quote st) as [q|] eqn:Eq;
      [ right;
        match goal with |- context [op_text ?m] =>
          destruct (op_last m) as (o & c0 & Eo & N1 & N2); [discriminate|] end;
        destruct (quote_in_term_sets q st Eq) as [HQ _];
        match goal with
        | |- clash (rev_str ("[" ++ ?A ++ ?i ++ ?op ++ ?E ++ "]")) (rev_str ("[" ++ ?pre ++ ?A ++ ?post ++ ?op ++ ?W ++ "]")) = true =>
            replace ("[" ++ A ++ i ++ op ++ E ++ "]") with ((("[" ++ A ++ i ++ o) ++ String c0 "") ++ E ++ "]")
              by (rewrite Eo; str_norm);
            replace ("[" ++ pre ++ A ++ post ++ op ++ W ++ "]") with (("[" ++ pre ++ A ++ post ++ op) ++ W ++ "]")
              by str_norm
        end;
        apply quoted_term_clash; [exact HQ | destruct q; assumption]
      | unfold term_specials; rewrite Eq; cbn [st_quote]; apply same_len_rev_clash_or;
        destruct inv, (st_prefix st); cbn [andb negb]; rewrite ?length_app_s; cbn [String.length]; lia ].
  - (* keyword *) left. reflexivity.
Qed.

(* ====================================================================== *)
(* (3) the intersection collector "&(e)": read as the plain collector (e);
   pop() cuts "(e)" and leaves "<path><separator>&" *)
Lemma starts_with_app_same u : forall v w, starts_with (u ++ v) (u ++ w) = starts_with v w.
Proof. induction u as [|c u IH]; intros v w; [reflexivity|]. cbn. rewrite Ascii.eqb_refl. apply IH. Qed.

Lemma ends_with_app_same a t s : ends_with (a ++ s) (t ++ s) = ends_with a t.
Proof. unfold ends_with. rewrite !rev_str_app. apply starts_with_app_same. Qed.

Lemma escaped_amp sp l p2 :
  l <> [] -> wf sp l = true -> dot_text_ok sp (render_ref sp l) = true ->
  fst (y_escaped (y_set_original (render_ref sp l ++ c1 (sep_char sp) ++ "&") p2)) = Ok (segs_of l).
Proof.
  intros Hne Hwf Hdot. pose proof (wf_nonblank sp l Hne Hwf) as Hb.
  assert (Hb2 : nonblank (render_ref sp l ++ c1 (sep_char sp) ++ "&") = true) by (apply nonblank_app; exact Hb).
  unfold y_set_original. rewrite (normalize_nonblank _ Hb2).
  unfold y_escaped. cbn [y_esc seglist_nonempty]. unfold y_separator. cbn [y_sep y_orig y_unesc y_esc y_strd].
  rewrite (infer_sep_text sp _ Hb2 (dot_ok_app sp _ _ Hb Hdot)) by (intros ->; eexists; reflexivity).
  rewrite <- parse_forced_es by (apply normalize_nonblank; exact Hb2).
  rewrite (parse_amp_tail sp true l Hne Hwf), map_kseg_true. reflexivity.
Qed.

Lemma self_pop_and sp l e st :
  let x := ((Some TCollector, ACollector CAnd e), st) in
  l <> [] -> wfc sp l = true -> wfc sp (l ++ [x]) = true -> dot_text_ok sp (render_ref sp l) = true ->
  exists p', y_pop (y_append (body (sep_char sp) x) (y_new (render_ref sp l)))
             = (Ok (Some TCollector, ACollector CNone e), p')
             /\ y_orig p' = render_ref sp l ++ c1 (sep_char sp) ++ "&"
             /\ fst (y_escaped p') = Ok (segs_of l).
Proof.
  intros x Hne Hwfc1 Hwfc Hdot.
  pose proof (self_pop_unfold sp l x Hne Hwfc1 Hwfc Hdot eq_refl) as Hu. cbv zeta in Hu.
  destruct (wfc_split _ _ Hwfc1) as [Hwf _]. pose proof (wf_nonblank sp l Hne Hwf) as Hb.
  set (T := render_ref sp l) in *. set (X := "(" ++ e ++ ")").
  change (tail_canon sp (tail_eff x)) with X in Hu.
  change (body (sep_char sp) x) with (String "&"%char X) in *.
  change (kseg false (sep_char sp) (plain_x (tail_eff x))) with (Some TCollector, ACollector CNone e) in Hu.
  set (T' := T ++ c1 (sep_char sp) ++ "&").
  assert (EN : T ++ c1 (sep_char sp) ++ String "&"%char X = T' ++ X) by (unfold T'; str_norm).
  rewrite EN in Hu.
  assert (E1 : ends_with (c1 (sep_char sp) ++ X) (T' ++ X) = false).
  { rewrite ends_with_app_same. unfold T'.
    replace (T ++ c1 (sep_char sp) ++ "&") with ((T ++ c1 (sep_char sp)) ++ String "&"%char "") by str_norm.
    unfold ends_with. rewrite rev_snoc. destruct sp; reflexivity. }
  assert (E2 : ends_with X (T' ++ X) = true) by apply ends_with_app.
  assert (Ecut : take (str_len (T' ++ X) - str_len X) (T' ++ X) = T') by apply cut_suffix.
  assert (Hfin : forall p2, fst (y_escaped (y_set_original T' p2)) = Ok (segs_of l)).
  { intros p2. apply escaped_amp; assumption. }
  assert (Horig : forall p2, y_orig (y_set_original T' p2) = T').
  { intros p2. unfold y_set_original. cbn [y_orig]. apply normalize_nonblank. unfold T'. apply nonblank_app. exact Hb. }
  rewrite Hu, E1. destruct sp.
  - (* dot: the second test matches *)
    cbn [slash_pre]. change ("" ++ X) with X. rewrite E2, Ecut.
    eexists. split; [reflexivity|]. split; [apply Horig | apply Hfin].
  - (* slash: the third test matches *)
    cbn [slash_pre]. change (c1 (sep_char Slash)) with "/" in E1. rewrite E1.
    cbn [sepopt_eqb andb]. change (drop 1 ("/" ++ X)) with X. rewrite E2.
    assert (Ea : str_len (T' ++ X) - str_len ("/" ++ X) + 1 = str_len (T' ++ X) - str_len X).
    { unfold str_len, T', c1. rewrite !length_app_s. cbn [String.length]. lia. }
    rewrite Ea, Ecut. eexists. split; [reflexivity|]. split; [apply Horig | apply Hfin].
Qed.

(* ---- clause 4 for every tail that carries its own demarcation ---- *)
Theorem append_pop_self_cut sp l x :
  l <> [] -> wfc sp l = true -> wfc sp (l ++ [x]) = true ->
  dot_text_ok sp (render_ref sp l) = true -> needs_sep x = false ->
  String.eqb (body (sep_char sp) x) (tail_canon sp (tail_eff x)) = true ->
  exists p', y_pop (y_append (body (sep_char sp) x) (y_new (render_ref sp l)))
             = (Ok (kseg false (sep_char sp) (plain_x (tail_eff x))), p')
             /\ y_orig p' = render_ref sp l /\ fst (y_escaped p') = Ok (segs_of l).
Proof.
  intros Hne H1 H2 Hd Hs Hb. apply String.eqb_eq in Hb. apply self_pop_cut; assumption.
Qed.

Theorem append_pop_self sp l x :
  l <> [] -> wfc sp l = true -> wfc sp (l ++ [x]) = true ->
  dot_text_ok sp (render_ref sp l) = true -> needs_sep x = false ->
  dot_text_ok sp (canon_of sp sp l) = true -> (sp = Dot -> nonblank (canon_of sp sp l) = true) ->
  exists p', y_pop (y_append (body (sep_char sp) x) (y_new (render_ref sp l)))
             = (Ok (kseg false (sep_char sp) (plain_x (tail_eff x))), p')
             /\ fst (y_escaped p') = Ok (segs_of l).
Proof.
  intros Hne Hwfc1 Hwfc Hd Hs Hd2 Hnb.
  destruct (and_collector x) eqn:Ea.
  - destruct x as [[ty at_] st]. destruct ty as [[]|]; try discriminate Ea. destruct at_; try discriminate Ea.
    destruct op; try discriminate Ea.
    destruct (self_pop_and sp l expr st Hne Hwfc1 Hwfc Hd) as (p' & H1 & _ & H3). exists p'. split; [exact H1 | exact H3].
  - destruct (self_x_wf sp l x Hwfc) as [Hx Hcx].
    rewrite (tail_eff_id x Ea).
    destruct (self_tail_cases sp _ x Hs Hx Hcx) as [Hb|Hcl].
    + destruct (self_pop_cut sp l x Hne Hwfc1 Hwfc Hd Hs) as (p' & H1 & _ & H3); [rewrite (tail_eff_id x Ea); exact Hb|].
      rewrite (tail_eff_id x Ea) in H1. exists p'. split; [exact H1 | exact H3].
    + destruct (self_pop_rebuild sp l x Hne Hwfc1 Hwfc Hd Hs) as (p' & H1 & _ & H3);
        [rewrite (tail_eff_id x Ea); exact Hcl | exact Hd2 | exact Hnb |].
      rewrite (tail_eff_id x Ea) in H1. exists p'. split; [exact H1 | exact H3].
Qed.

(* ====================================================================== *)
(* the tails written after a separator (key, "*", "**", bare anchor): the
   guard "canonical tail or no suffix match" of RtPop.append_pop always holds *)
Lemma clash_end1 (U V : string) a b :
  Ascii.eqb a b = false -> clash (rev_str (U ++ String a "")) (rev_str (V ++ String b "")) = true.
Proof. intros H. rewrite !rev_snoc. cbn. rewrite H. reflexivity. Qed.

Lemma clash_end2 (U V : string) a b q :
  Ascii.eqb a b = false ->
  clash (rev_str (U ++ String a (String q ""))) (rev_str (V ++ String b (String q ""))) = true.
Proof.
  intros H. change (String a (String q "")) with (String a "" ++ String q "").
  change (String b (String q "")) with (String b "" ++ String q "").
  rewrite <- !app_assoc_s, !rev_snoc. cbn. rewrite Ascii.eqb_refl, H. reflexivity.
Qed.

Lemma quoted_key_clash q E k :
  nonempty k = true -> mem_ascii (qchar q) E = true ->
  clash (rev_str (esc_with E k)) (rev_str (c1 (qchar q) ++ esc_with quoted_specials k ++ c1 (qchar q))) = true.
Proof.
  intros Hk HE.
  assert (HQ : mem_ascii (qchar q) quoted_specials = true) by (destruct q; reflexivity).
  destruct (snoc_cases k) as [->|(k' & c & ->)]; [discriminate Hk|].
  rewrite !esc_with_snoc. destruct (Ascii.eqb c (qchar q)) eqn:Ec.
  - apply Ascii.eqb_eq in Ec. subst c. rewrite HQ, HE.
    replace (c1 (qchar q) ++ (esc_with quoted_specials k' ++ String "\"%char (String (qchar q) "")) ++ c1 (qchar q))
      with ((c1 (qchar q) ++ esc_with quoted_specials k' ++ String "\"%char "") ++ String (qchar q) (String (qchar q) ""))
      by str_norm.
    apply clash_end2. destruct q; reflexivity.
  - set (wE := if mem_ascii c E then String "\"%char (String c "") else String c "").
    assert (HwE : exists u, wE = u ++ String c "").
    { unfold wE. destruct (mem_ascii c E); [exists (String "\"%char "") | exists ""]; reflexivity. }
    destruct HwE as (u & ->).
    replace (esc_with E k' ++ u ++ String c "") with ((esc_with E k' ++ u) ++ String c "") by str_norm.
    match goal with |- context [esc_with quoted_specials k' ++ ?w] => set (wQ := w) end.
    replace (c1 (qchar q) ++ (esc_with quoted_specials k' ++ wQ) ++ c1 (qchar q))
      with ((c1 (qchar q) ++ esc_with quoted_specials k' ++ wQ) ++ String (qchar q) "") by str_norm.
    apply clash_end1. exact Ec.
Qed.

Theorem sep_tail_cases sp prev x :
  needs_sep x = true -> wf_seg prev x = true ->
  body (sep_char sp) x = tail_canon sp x
  \/ clash (rev_str (tail_canon sp x)) (rev_str (body (sep_char sp) x)) = true.
Proof.
  intros Hns Hwf. unfold tail_canon.
  destruct x as [[ty at_] st]. destruct ty as [[]|]; try discriminate Hns; destruct at_; try discriminate Hwf.
  - (* bare anchor *) left. cbn in Hns. apply negb_true_iff in Hns. cbn. rewrite Hns. reflexivity.
  - (* key *)
    cbn [restyle plain_x fst snd body_x body st_quote]. unfold key_set. cbn [plain_x fst snd].
    destruct (st_quote st) as [q|] eqn:Eq.
    + right. cbn [wf_seg] in Hwf. apply andb_true_iff in Hwf. destruct Hwf as [Hwf _].
      apply andb_true_iff in Hwf. destruct Hwf as [Hwf _]. apply andb_true_iff in Hwf. destruct Hwf as [H1 _].
      apply quoted_key_clash; [exact H1|]. rewrite mem_app. destruct q; reflexivity.
    + left. apply esc_with_ext. intros c. rewrite !mem_app. cbn [mem_ascii orb].
      destruct (mem_ascii c (key_specials (sep_char sp))); reflexivity.
  - (* ** *) left. reflexivity.
  - (* * *) left. reflexivity.
Qed.

Lemma clash_no_suffix_match sp l x :
  clash (rev_str (tail_canon sp x)) (rev_str (body (sep_char sp) x)) = true -> no_suffix_match sp l x = true.
Proof.
  intros Hcl. unfold no_suffix_match, prefixed_text, removable_text.
  rewrite <- !app_assoc_s.
  rewrite (clash_no_suffix _ _ (c1 (sep_char sp)) _ Hcl).
  rewrite (clash_no_suffix _ _ (match sp with Slash => "/" | Dot => "" end) _ Hcl).
  destruct sp; [reflexivity|]. cbn [sepopt_eqb andb negb]. change (drop 1 ("/" ++ ?z)) with ("" ++ z).
  rewrite (clash_no_suffix _ _ "" _ Hcl). reflexivity.
Qed.

(* ---- clause 4, every kind of tail ---- *)
Theorem append_pop_all sp l x :
  l <> [] -> wfc sp l = true -> wfc sp (l ++ [x]) = true ->
  dot_text_ok sp (render_ref sp l) = true ->
  dot_text_ok sp (canon_of sp sp l) = true -> (sp = Dot -> nonblank (canon_of sp sp l) = true) ->
  exists sg p', y_pop (y_append (body (sep_char sp) x) (y_new (render_ref sp l))) = (Ok sg, p')
                /\ sg = kseg false (sep_char sp) (plain_x (tail_eff x))
                /\ fst (y_escaped p') = Ok (segs_of l).
Proof.
  intros Hne Hwfc1 Hwfc Hd Hd2 Hnb.
  destruct (needs_sep x) eqn:Hs.
  - assert (Ee : tail_eff x = x).
    { apply tail_eff_id. destruct x as [[ty at_] st]. destruct ty as [[]|]; try reflexivity; discriminate Hs. }
    rewrite Ee. apply append_pop; try assumption.
    destruct (wfc_split _ _ Hwfc) as [Hw _]. destruct (wf_split _ _ Hw) as [Hgo _].
    destruct (wf_go_tail _ _ _ Hgo) as [_ Hx].
    destruct (sep_tail_cases sp _ x Hs Hx) as [Hb|Hcl].
    + unfold tail_canonical. rewrite Hb, String.eqb_refl. reflexivity.
    + rewrite (clash_no_suffix_match sp l x Hcl). apply orb_true_r.
  - destruct (append_pop_self sp l x Hne Hwfc1 Hwfc Hd Hs Hd2 Hnb) as (p' & H1 & H2).
    eexists _, p'. split; [exact H1|]. split; [reflexivity | exact H2].
Qed.

(* when the tail is in canonical form the path TEXT is restored, and the
   rebuilt text plays no part: no guard on the canonical text of the path *)
Theorem append_pop_text sp l x :
  l <> [] -> wfc sp l = true -> wfc sp (l ++ [x]) = true ->
  dot_text_ok sp (render_ref sp l) = true ->
  String.eqb (body (sep_char sp) x) (tail_canon sp (tail_eff x)) = true ->
  exists p', y_pop (y_append (body (sep_char sp) x) (y_new (render_ref sp l)))
             = (Ok (kseg false (sep_char sp) (plain_x (tail_eff x))), p')
             /\ y_orig p' = render_ref sp l /\ fst (y_escaped p') = Ok (segs_of l).
Proof.
  intros Hne Hwfc1 Hwfc Hd Hb.
  destruct (needs_sep x) eqn:Hs.
  - assert (Ee : tail_eff x = x).
    { apply tail_eff_id. destruct x as [[ty at_] st]. destruct ty as [[]|]; try reflexivity; discriminate Hs. }
    rewrite Ee in *. destruct (wfc_split _ _ Hwfc1) as [Hwf _].
    apply append_pop_cut; assumption.
  - apply append_pop_self_cut; assumption.
Qed.
