(* C07, alias-exclusion modes: the document-level theorems assembled from
   Proofs/PathsAlias.v. *)
From Coq Require Import List Ascii String ZArith NArith Bool Arith Lia.
From YP Require Import Outcome PyStr PyVal Doc Generated PathParser PathPrinter Searches PathsSearch
     SpecC07 PathsEnum PathsSpec PathsMain PathsAlias.
Import ListNotations.

Section AliasMain.
Variable lit : string -> outcome litres.
Variable re_search : string -> string -> outcome reres.
Variable mt : mtable.
Variable tm : terms.
Variable sp : sep.
Variable o : opts.

Lemma agree_nil : agree [] [].
Proof. intros a []. Qed.
Lemma covers_nil : covers [] [].
Proof. intros y a []. Qed.

Lemma vwanted_vlocal d l :
  is_container d = true ->
  vwanted lit re_search tm mt o d l ->
  exists k l0 r0 pre tgt, l = (l0 ++ [r0])%list /\ vreach mt o [] d l0 pre tgt /\
                          vlocal lit re_search mt tm o pre tgt r0 k.
Proof.
  intros Hc [[Hv [s [[[l0 [r0 [pre [tgt [-> [R P]]]]]]|Hr] [Hl Hs]]]]|[[Hk [kn [[l0 [r0 [pre [tgt [-> [R P]]]]]] Hs]]]
                                                          |[m [[l0 [r0 [pre [tgt [-> [R P]]]]]] Hs]]]].
  - exists HValue, l0, r0, pre, tgt. split; auto. split; auto. simpl. split; auto. exists s. split; auto. split; auto.
    apply satb_of; auto.
  - exfalso. eapply container_not_root; eauto.
  - exists HKey, l0, r0, pre, tgt. split; auto. split; auto. simpl. split; auto. exists kn. split; auto. apply satb_of; auto.
  - exists HMember, l0, r0, pre, tgt. split; auto. split; auto. simpl. exists m. split; auto. apply satb_of; auto.
Qed.

Lemma vreach_leaf0 i v pre l pre' m : vreach mt o pre (NLeaf i v) l pre' m -> l = [] /\ m = NLeaf i v.
Proof. intros H. inversion H; subst. auto. Qed.

(* on a lone-scalar document only the root can be wanted *)
Lemma vwanted_leaf i v l :
  vwanted lit re_search tm mt o (NLeaf i v) l ->
  l = [] /\ o_values o = true /\ null_doc (NLeaf i v) = false /\ satb lit re_search tm (NLeaf i v) = true.
Proof.
  intros [[Hv [s [[[l0 [r0 [pre [tgt [-> [R P]]]]]]|[-> [-> [_ Hn]]]] [Hl Hs]]]]|[[Hk [kn [[l0 [r0 [pre [tgt [-> [R P]]]]]] Hs]]]
                                                          |[m [[l0 [r0 [pre [tgt [-> [R P]]]]]] Hs]]]].
  - destruct (vreach_leaf0 _ _ _ _ _ _ R) as [_ ->].
    destruct P as [[i0 [els [idx [H _]]]]|[i0 [kvs [pos [k [H _]]]]]]; discriminate.
  - repeat split; auto. apply satb_of; auto.
  - destruct (vreach_leaf0 _ _ _ _ _ _ R) as [_ ->]. destruct P as [i0 [kvs [pos [v0 [H _]]]]]. discriminate.
  - destruct (vreach_leaf0 _ _ _ _ _ _ R) as [_ ->]. destruct P as [i0 [els [j [H _]]]]. discriminate.
Qed.

(* every visible satisfying place is reported, or lies beneath a reported matching key *)
Theorem alias_complete d res :
  o_anchors o = false -> o_expand o = false -> names_consistent (anc_occs d) = true ->
  search_doc lit re_search mt tm sp o d = Ok res ->
  forall l, vwanted lit re_search tm mt o d l ->
  exists h, In h res /\ prefix (h_loc h) l /\ (h_loc h = l \/ (h_kind h = HKey /\ o_keys o = true)).
Proof.
  intros Ha Hx Hc E l W. destruct (is_container d) eqn:Ec.
  - unfold search_doc in E.
    destruct (search_for_paths lit re_search mt (scan_for_anchors d []) tm sp o d "" [] []) as [r| |] eqn:Es;
      simpl in E; try discriminate. inversion E; subst; clear E.
    destruct (vwanted_vlocal _ _ Ec W) as [k [l0 [r0 [pre [tgt [-> [R L]]]]]]].
    destruct (vreach_complete lit re_search mt _ tm sp o Ha Hx (anc_occs d) Hc _ _ _ _ _ R r0 k L "" [] [] r
                              (incl_refl _) agree_nil Es) as [h [p [Hin [El [Hp Hd]]]]].
    simpl in El. exists h. split; auto. rewrite El. split; auto.
    destruct Hd as [[-> _]|Hd]; auto.
  - destruct (not_container_leaf' _ Ec) as [i [v ->]].
    destruct (vwanted_leaf _ _ _ W) as [-> [Hv [Hn Hs]]].
    exists (mkhit (root_slash sp "") [] HValue). rewrite (search_doc_leaf _ _ _ _ _ _ _ _ _ E), Hn, Hv, Hs. cbn.
    split; [left; reflexivity|]. split; [exists []; reflexivity|]. left; reflexivity.
Qed.

Lemma vlocal_vjustified d h l0 r0 pre tgt :
  h_loc h = (l0 ++ [r0])%list -> vreach mt o [] d l0 pre tgt ->
  vlocal lit re_search mt tm o pre tgt r0 (h_kind h) -> vjustified lit re_search tm mt o d h.
Proof.
  intros El R L. unfold vjustified. destruct (h_kind h); simpl in L; try contradiction.
  - destruct L as [Hk [kn [P Hs]]]. split; auto. exists kn. split; [|apply satb_inv; auto].
    exists l0, r0, pre, tgt. auto.
  - destruct L as [Hv [s [P [Hl Hs]]]]. split; auto. exists s. split; [|split; [auto|apply satb_inv; auto]].
    left. exists l0, r0, pre, tgt. auto.
  - destruct L as [m [P Hs]]. exists m. split; [|apply satb_inv; auto]. exists l0, r0, pre, tgt. auto.
Qed.

(* no report for an excluded aliased repeat, a merged-in key, or anything beneath them *)
Theorem alias_excluded d res :
  o_anchors o = false -> o_expand o = false -> names_consistent (anc_occs d) = true ->
  shared_closed mt o d [] = true ->
  search_doc lit re_search mt tm sp o d = Ok res ->
  forall h, In h res -> vjustified lit re_search tm mt o d h.
Proof.
  intros Ha Hx Hc G E h Hin. destruct (is_container d) eqn:Ec.
  - unfold search_doc in E.
    destruct (search_for_paths lit re_search mt (scan_for_anchors d []) tm sp o d "" [] []) as [r| |] eqn:Es;
      simpl in E; try discriminate. inversion E; subst; clear E.
    destruct (sfp_visible lit re_search mt _ tm sp o Ha Hx (anc_occs d) Hc d [] "" [] [] r Ec
                          (incl_refl _) agree_nil covers_nil G Es) as [_ Hv].
    destruct (Hv h Hin) as [l0 [r0 [pre' [tgt [El [R L]]]]]]. simpl in El.
    eapply vlocal_vjustified; eauto.
  - destruct (not_container_leaf' _ Ec) as [i [v ->]].
    destruct (leaf_hit_justified _ _ _ _ _ _ _ _ _ _ E Hin) as [-> [Hv [Hn Hs]]]. unfold vjustified. cbn [h_kind h_loc].
    split; auto. exists (NLeaf i v). split; [right; repeat split; auto|]. split; [reflexivity|apply satb_inv; auto].
Qed.

(* a visible place is a place: vjustified implies justified *)
Lemma vreach_reach pre n l pre' m : vreach mt o pre n l pre' m -> reach n l m.
Proof.
  induction 1.
  - constructor.
  - econstructor; eauto. constructor; auto.
  - econstructor; eauto. constructor. eapply nth_error_In; eauto.
Qed.

Theorem vjustified_justified d h : vjustified lit re_search tm mt o d h -> justified lit re_search tm o d h.
Proof.
  unfold vjustified, justified. destruct (h_kind h); auto.
  - intros [Hk [kn [[l0 [r0 [pre [tgt [El [R [i [kvs [pos [v [-> [-> [Hn _]]]]]]]]]]]]] Hs]]]. split; auto.
    exists kn. split; auto. exists l0, i, kvs, v. split; auto. split; [eapply vreach_reach; eauto|].
    eapply nth_error_In; eauto.
  - intros [Hv [s [[[l0 [r0 [pre [tgt [El [R P]]]]]]|Hr] [Hl Hs]]]]; split; auto.
    + exists s. split; auto. left. exists l0, tgt, r0. split; auto. split; [eapply vreach_reach; eauto|]. split; auto.
      destruct P as [[i [els [idx [-> [-> [Hn _]]]]]]|[i [kvs [pos [k [-> [-> [Hn _]]]]]]]].
      * constructor; auto.
      * constructor. eapply nth_error_In; eauto.
    + exists s. split; auto. right. exact Hr.
  - intros [m [[l0 [r0 [pre [tgt [El [R [i [els [j [-> [-> [Hn _]]]]]]]]]]]] Hs]].
    exists m. split; auto. exists l0, i, els. split; auto. split; [eapply vreach_reach; eauto|].
    eapply nth_error_In; eauto.
Qed.

End AliasMain.
