(* C15 for the joined evaluator: the entry points (get_nodes required /
   optional, exists) under the collector guard, and -- as its collector-free
   instance -- for the fragment with keyword segments. *)
From Coq Require Import List Ascii String ZArith NArith Bool Arith Lia.
From YP Require Import Outcome PyStr PyVal Doc Generated PathParser PathPrinter Searches Eval Keywords EvalKw
     SpecC15 SpecC09 SpecC15kw EvalGood EvalHandlers EvalTotal EvalPure EvalC15 EvalKwClean EvalKwTotal EvalKwColl.
Import ListNotations.
Open Scope nat_scope.

Section KwC15.
Variable lit : string -> outcome litres.
Variable re_search : string -> string -> outcome reres.
Variable nstr : node -> string.
Variable vstr : list rval -> string.
Hypothesis lit_total : forall s, exists r, lit s = Ok r /\ (forall c, r <> LCrash c).
Hypothesis re_total : forall p s, exists r, re_search p s = Ok r.

(* every keyword handler stream ends Done or Err (YPE _), for all inputs *)
Theorem kw_handler_clean inv kw params v c :
  clean_stop (snd (ek_kw_handler lit re_search nstr vstr inv kw params v c))
  /\ Forall (fun x => is_coords x = true) (fst (ek_kw_handler lit re_search nstr vstr inv kw params v c)).
Proof.
  destruct (ek_kw_handler_res lit re_search nstr vstr lit_total inv kw params v c) as [Hg Hf].
  split; [|exact Hf].
  apply clean_of; [apply okstop_clean; exact Hg | apply ek_kw_handler_pure].
Qed.

Lemma top_kc md segs d :
  md <> MSeg -> kc_guard lit re_search nstr vstr (fuel_for (PPath segs)) segs d = true ->
  res2 md (ev lit re_search nstr vstr (ek_kw_handler lit re_search nstr vstr) ek_creator
              (fuel_for (PPath segs)) md segs 0 (RNode d) root_ctx).
Proof.
  intros Hmd H. apply ev_kc; auto. unfold fuel_for. rewrite pweight_ppath. lia.
Qed.

Theorem required_kc p d :
  kc_fragment lit re_search nstr vstr p d = true ->
  clean_stop (snd (ek_required lit re_search nstr vstr p d)).
Proof.
  intros H. unfold ek_required, get_required.
  apply (null_doc_case d _ _ (fun g => clean_stop (snd g))); [exact I|].
  destruct p as [segs|e]; [|cbn in H; destruct e; try discriminate; exact I].
  cbn [kc_fragment] in H.
  destruct (top_kc MReq segs d) as [[Hg _] Hm]; [discriminate | exact H |].
  specialize (Hm ltac:(discriminate)).
  unfold good, nomut in *.
  destruct (ev _ _ _ _ _ _ _ _ _ _ _ _) as [[|x l] [|[]| |]]; cbn in *; auto.
Qed.

Theorem exists_kc p d :
  kc_fragment lit re_search nstr vstr p d = true ->
  clean_stop (snd (ek_exists lit re_search nstr vstr p d)).
Proof.
  intros H. unfold ek_exists, exists_.
  apply (null_doc_case d _ _ (fun g => clean_stop (snd g))); [exact I|].
  destruct p as [segs|e]; [|cbn in H; destruct e; try discriminate; exact I].
  cbn [kc_fragment] in H.
  destruct (top_kc MReq segs d) as [[Hg _] Hm]; [discriminate | exact H |].
  specialize (Hm ltac:(discriminate)).
  unfold good, nomut in *.
  destruct (ev _ _ _ _ _ _ _ _ _ _ _ _) as [l [|[]| |]]; cbn in *; auto.
Qed.

Theorem optional_kc p d :
  kc_fragment lit re_search nstr vstr p d = true ->
  clean_or_mut (snd (ek_optional lit re_search nstr vstr p d)).
Proof.
  intros H. apply okstop_clean. unfold ek_optional, get_optional.
  apply (null_doc_case d _ _ (fun g => okstop (snd g))); [exact I|].
  destruct p as [segs|e]; [|cbn in H; destruct e; try discriminate; exact I].
  cbn [kc_fragment] in H.
  destruct (top_kc MOpt segs d) as [[Hg _] _]; [discriminate | exact H |]. exact Hg.
Qed.

(* the collector-free fragment with keyword segments satisfies the guard on every document *)
Lemma frag_kw_kc p d : in_fragment_kw p = true -> kc_fragment lit re_search nstr vstr p d = true.
Proof.
  destruct p as [segs|e]; [|auto]. intros H. cbn [kc_fragment]. unfold fuel_for. cbn [kc_guard].
  rewrite in_fragment_kw_ppath in H.
  destruct segs as [|[es us s s2] r]; [reflexivity|].
  destruct (is_coll_seg true es us) eqn:E; [|exact H].
  destruct (coll_seg_inv _ _ _ E) as (op & e & op' & e' & -> & -> & _).
  cbn in H. discriminate.
Qed.

Theorem required_only_ype_kw p d :
  in_fragment_kw p = true -> clean_stop (snd (ek_required lit re_search nstr vstr p d)).
Proof. intros H. apply required_kc. apply frag_kw_kc. exact H. Qed.

Theorem exists_only_ype_kw p d :
  in_fragment_kw p = true -> clean_stop (snd (ek_exists lit re_search nstr vstr p d)).
Proof. intros H. apply exists_kc. apply frag_kw_kc. exact H. Qed.

Theorem optional_only_ype_kw p d :
  in_fragment_kw p = true -> clean_or_mut (snd (ek_optional lit re_search nstr vstr p d)).
Proof. intros H. apply optional_kc. apply frag_kw_kc. exact H. Qed.

End KwC15.
