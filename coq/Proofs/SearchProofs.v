(* Proofs for C12: Searches.search_matches against Spec/C12.v, for all values,
   all terms and all oracles; the candidate loops of SearchLoops.v. *)
From Coq Require Import List Ascii String ZArith QArith Bool Arith Lia.
From YP Require Import Outcome PyStr PyVal PathParser Searches SearchLoops SpecC12.
Import ListNotations.
Open Scope string_scope.

Section WithOracles.
Variable lit : string -> outcome litres.
Variable re_search : string -> string -> outcome reres.

Notation typed_value := (typed_value lit).
Notation typed_haystack := (typed_haystack lit).
Notation smh := (search_matches_h lit re_search).

(* ---------- the operators ---------- *)

Lemma sm_unfold : forall m needle h th tn,
  typed_haystack h = Ok th -> typed_value (PStr needle) = Ok tn ->
  smh m needle h =
  match m with
  | MEquals =>
      if is_bool_inst th && type_is_bool tn then Ok (py_eq th tn)
      else if is_int_inst th && type_is_int tn then Ok (py_eq th tn)
      else if is_float_inst th && type_is_float tn then Ok (py_eq th tn)
      else Ok (String.eqb (py_str th) needle)
  | MStartsWith => Ok (starts_with needle (py_str th))
  | MEndsWith => Ok (ends_with needle (py_str th))
  | MContains => Ok (str_contains needle (py_str th))
  | MGt => ordered py_gt (fun a b => str_ltb b a) th tn needle
  | MLt => ordered py_lt str_ltb th tn needle
  | MGe => ordered py_ge (fun a b => str_leb b a) th tn needle
  | MLe => ordered py_le str_leb th tn needle
  | MRegex =>
      do r <- re_search needle (py_str th);
      match r with
      | RMatch b => Ok b
      | RError => Raise (YPE Generic)
      end
  end.
Proof.
  intros m needle h th tn Hh Hn. unfold search_matches_h, search_matches_g.
  rewrite Hh. cbn [bind]. rewrite Hn. cbn [bind]. destruct m; reflexivity.
Qed.

Lemma sm_equals : forall needle h th tn,
  typed_haystack h = Ok th -> typed_value (PStr needle) = Ok tn ->
  smh MEquals needle h = Ok (spec_equals th tn needle).
Proof.
  intros needle h th tn Hh Hn. rewrite (sm_unfold MEquals _ _ _ _ Hh Hn).
  unfold spec_equals, num_eq.
  destruct th, tn; simpl; try reflexivity.
Qed.

Lemma sm_prefix : forall needle h th tn,
  typed_haystack h = Ok th -> typed_value (PStr needle) = Ok tn ->
  smh MStartsWith needle h = Ok (spec_prefix th needle).
Proof. intros. rewrite (sm_unfold MStartsWith _ _ _ _ H H0). reflexivity. Qed.

Lemma sm_suffix : forall needle h th tn,
  typed_haystack h = Ok th -> typed_value (PStr needle) = Ok tn ->
  smh MEndsWith needle h = Ok (spec_suffix th needle).
Proof. intros. rewrite (sm_unfold MEndsWith _ _ _ _ H H0). reflexivity. Qed.

Lemma sm_substring : forall needle h th tn,
  typed_haystack h = Ok th -> typed_value (PStr needle) = Ok tn ->
  smh MContains needle h = Ok (spec_substring th needle).
Proof. intros. rewrite (sm_unfold MContains _ _ _ _ H H0). reflexivity. Qed.

Lemma sm_prefix_suffix_contains : forall needle h th tn,
  typed_haystack h = Ok th -> typed_value (PStr needle) = Ok tn ->
  smh MStartsWith needle h = Ok (starts_with needle (py_str th)) /\
  smh MEndsWith needle h = Ok (ends_with needle (py_str th)) /\
  smh MContains needle h = Ok (str_contains needle (py_str th)).
Proof.
  intros needle h th tn Hh Hn.
  exact (conj (sm_prefix needle h th tn Hh Hn)
          (conj (sm_suffix needle h th tn Hh Hn) (sm_substring needle h th tn Hh Hn))).
Qed.

Lemma sm_order : forall o needle h th tn,
  typed_haystack h = Ok th -> typed_value (PStr needle) = Ok tn ->
  smh (method_of_ordop o) needle h = Ok (spec_order o th tn needle).
Proof.
  intros o needle h th tn Hh Hn.
  rewrite (sm_unfold (method_of_ordop o) _ _ _ _ Hh Hn).
  unfold spec_order, ordered, is_num_inst, py_gt, py_ge, py_lt, py_le.
  destruct o; destruct th, tn; simpl; reflexivity.
Qed.

(* numeric value against a non-numeric term: false; against a numeric term: the numeric relation *)
Lemma sm_order_numeric : forall o needle h th tn a,
  typed_haystack h = Ok th -> typed_value (PStr needle) = Ok tn ->
  num_of th = Some a ->
  smh (method_of_ordop o) needle h =
    Ok (match num_of tn with Some b => num_rel o a b | None => false end).
Proof.
  intros. rewrite (sm_order o _ _ _ _ H H0). unfold spec_order. rewrite H1. reflexivity.
Qed.

Lemma sm_order_text : forall o needle h th tn,
  typed_haystack h = Ok th -> typed_value (PStr needle) = Ok tn ->
  num_of th = None ->
  smh (method_of_ordop o) needle h = Ok (text_rel o (py_str th) needle).
Proof.
  intros. rewrite (sm_order o _ _ _ _ H H0). unfold spec_order. rewrite H1. reflexivity.
Qed.

Lemma sm_regex : forall needle h th tn,
  typed_haystack h = Ok th -> typed_value (PStr needle) = Ok tn ->
  smh MRegex needle h =
    (do r <- re_search needle (py_str th);
     match r with RMatch b => Ok b | RError => Raise (YPE Generic) end).
Proof. intros. rewrite (sm_unfold MRegex _ _ _ _ H H0). reflexivity. Qed.

(* all nine at once *)
Lemma sm_table : forall m needle h th tn,
  typed_haystack h = Ok th -> typed_value (PStr needle) = Ok tn ->
  match spec_answer m th tn needle with
  | SBool b => smh m needle h = Ok b
  | SRegex =>
      smh m needle h =
        (do r <- re_search needle (py_str th);
         match r with RMatch b => Ok b | RError => Raise (YPE Generic) end)
  end.
Proof.
  intros m needle h th tn Hh Hn. destruct m; simpl.
  - apply sm_substring with tn; assumption.
  - apply sm_suffix with tn; assumption.
  - apply sm_equals; assumption.
  - apply sm_prefix with tn; assumption.
  - apply (sm_order OGt); assumption.
  - apply (sm_order OLt); assumption.
  - apply (sm_order OGe); assumption.
  - apply (sm_order OLe); assumption.
  - apply sm_regex with tn; assumption.
Qed.

(* ---------- totality ---------- *)

(* the literal_eval oracle answers, and what it raises is one of the classes
   typed_value catches *)
Definition lit_answers (s : string) : Prop :=
  match lit s with
  | Ok (LVal _) | Ok LFail => True
  | Ok (LCrash c) => lit_crash_caught c = true
  | _ => False
  end.

Lemma typed_value_total : forall v,
  (forall s, lit_answers s) -> exists t, typed_value v = Ok t.
Proof.
  intros v Hl. unfold Searches.typed_value.
  destruct v; try (eexists; reflexivity);
  match goal with
  | |- context [match ?c with Some _ => _ | None => _ end] => destruct c as [text|]
  end; try (eexists; reflexivity);
  (specialize (Hl text); unfold lit_answers in Hl;
   destruct (lit text) as [[w| |c]|e|]; simpl; try contradiction;
   try (eexists; reflexivity); rewrite Hl; eexists; reflexivity).
Qed.

Lemma typed_haystack_total : forall h,
  (forall s, lit_answers s) -> exists t, typed_haystack h = Ok t.
Proof.
  intros h Hl. unfold Searches.typed_haystack.
  destruct (typed_value_total (hay_pyval h) Hl) as [t Ht]. rewrite Ht. simpl.
  destruct h; eexists; reflexivity.
Qed.

Lemma ordered_total : forall cmp strcmp th tn needle,
  (forall a b, num_of a <> None -> num_of b <> None -> exists r, cmp a b = Ok r) ->
  exists r, ordered cmp strcmp th tn needle = Ok r.
Proof.
  intros cmp strcmp th tn needle Hc. unfold ordered, is_num_inst.
  destruct th, tn; simpl; try (eexists; reflexivity); apply Hc; simpl; discriminate.
Qed.

Lemma py_lt_num_total : forall a b, num_of a <> None -> num_of b <> None -> exists r, py_lt a b = Ok r.
Proof.
  intros a b Ha Hb. unfold py_lt.
  destruct (num_of a); [|congruence]. destruct (num_of b); [|congruence]. eexists; reflexivity.
Qed.
Lemma py_le_num_total : forall a b, num_of a <> None -> num_of b <> None -> exists r, py_le a b = Ok r.
Proof.
  intros a b Ha Hb. unfold py_le.
  destruct (num_of a); [|congruence]. destruct (num_of b); [|congruence]. eexists; reflexivity.
Qed.

Lemma sm_never_raises : forall m needle h,
  (forall s, lit_answers s) ->
  (m = MRegex -> forall text, exists b, re_search needle text = Ok (RMatch b)) ->
  exists b, smh m needle h = Ok b.
Proof.
  intros m needle h Hl Hre.
  destruct (typed_haystack_total h Hl) as [th Hh].
  destruct (typed_value_total (PStr needle) Hl) as [tn Hn].
  rewrite (sm_unfold m _ _ _ _ Hh Hn).
  destruct m.
  - eexists; reflexivity.
  - eexists; reflexivity.
  - destruct (is_bool_inst th && type_is_bool tn); [eexists; reflexivity|].
    destruct (is_int_inst th && type_is_int tn); [eexists; reflexivity|].
    destruct (is_float_inst th && type_is_float tn); eexists; reflexivity.
  - eexists; reflexivity.
  - apply ordered_total. intros; unfold py_gt; apply py_lt_num_total; assumption.
  - apply ordered_total. intros; apply py_lt_num_total; assumption.
  - apply ordered_total. intros; unfold py_ge; apply py_le_num_total; assumption.
  - apply ordered_total. intros; apply py_le_num_total; assumption.
  - destruct (Hre eq_refl (py_str th)) as [b Hb]. rewrite Hb. simpl. eexists; reflexivity.
Qed.

(* ---------- booleans and their spellings ---------- *)

Lemma typed_value_spelling : forall needle b,
  lit "True" = Ok (LVal (PBool true)) -> lit "False" = Ok (LVal (PBool false)) ->
  bool_spelling needle = Some b ->
  typed_value (PStr needle) = Ok (PBool b).
Proof.
  intros needle b HT HF Hs. unfold bool_spelling in Hs. unfold Searches.typed_value.
  simpl py_str.
  destruct (String.eqb (lower_str needle) "true") eqn:E1.
  - inversion Hs; subst. rewrite HT. reflexivity.
  - destruct (String.eqb (lower_str needle) "false") eqn:E2; [|discriminate].
    inversion Hs; subst. rewrite HF. reflexivity.
Qed.

Lemma typed_haystack_bool : forall hb,
  lit "True" = Ok (LVal (PBool true)) -> lit "False" = Ok (LVal (PBool false)) ->
  typed_haystack (HVal (PBool hb)) = Ok (PBool hb) /\ typed_haystack (HSBool hb) = Ok (PBool hb).
Proof.
  intros hb HT HF. unfold Searches.typed_haystack, Searches.typed_value.
  destruct hb; simpl; rewrite ?HT, ?HF; simpl; split; reflexivity.
Qed.

Lemma sm_bool_spellings : forall needle b hb h,
  lit "True" = Ok (LVal (PBool true)) -> lit "False" = Ok (LVal (PBool false)) ->
  bool_spelling needle = Some b ->
  h = HVal (PBool hb) \/ h = HSBool hb ->
  smh MEquals needle h = Ok (Bool.eqb hb b).
Proof.
  intros needle b hb h HT HF Hs Hh.
  pose proof (typed_value_spelling needle b HT HF Hs) as Hn.
  destruct (typed_haystack_bool hb HT HF) as [H1 H2].
  assert (Hth : typed_haystack h = Ok (PBool hb)) by (destruct Hh; subst; assumption).
  rewrite (sm_equals _ _ _ _ Hth Hn).
  destruct hb, b; reflexivity.
Qed.

(* ---------- the candidate loops ---------- *)

Lemma verdict_false : forall b, verdict false b = b.
Proof. destruct b; reflexivity. Qed.
Lemma verdict_true : forall b, verdict true b = negb b.
Proof. destruct b; reflexivity. Qed.

(* a generic "for each candidate: compare, yield on verdict" loop *)
Section Gen.
Variable X : Type.
Variable f : X -> outcome bool.

Fixpoint gen_loop (invert : bool) (cs : list X) (idx : nat) : outcome (list nat) :=
  match cs with
  | [] => Ok []
  | c :: r =>
      do mt <- f c;
      do rest <- gen_loop invert r (S idx);
      Ok (if verdict invert mt then idx :: rest else rest)
  end.

Lemma gen_loop_pointwise : forall invert cs idx res,
  gen_loop invert cs idx = Ok res ->
  (forall i, In i res -> idx <= i < idx + List.length cs) /\
  (forall k c, nth_error cs k = Some c ->
     exists mt, f c = Ok mt /\ (In (idx + k) res <-> verdict invert mt = true)).
Proof.
  intros invert cs. induction cs as [|c r IH]; intros idx res H; simpl in H.
  - inversion H; subst. split.
    + intros i [].
    + intros k c Hk. destruct k; discriminate.
  - destruct (f c) as [mt| |] eqn:Ef; simpl in H; try discriminate.
    destruct (gen_loop invert r (S idx)) as [rest| |] eqn:Er; simpl in H; try discriminate.
    inversion H; subst res; clear H.
    destruct (IH _ _ Er) as [Hb Hp].
    split.
    + intros i Hi. simpl.
      destruct (verdict invert mt).
      * destruct Hi as [Hi|Hi]; [subst; lia|]. apply Hb in Hi. lia.
      * apply Hb in Hi. lia.
    + intros k c' Hk. destruct k as [|k]; simpl in Hk.
      * inversion Hk; subst c'. exists mt. split; [assumption|].
        rewrite Nat.add_0_r.
        destruct (verdict invert mt) eqn:Ev.
        -- split; [reflexivity|]. intros _. left; reflexivity.
        -- split; [|discriminate]. intros Hi. apply Hb in Hi. lia.
      * destruct (Hp k c' Hk) as [mt' [Hf Hiff]]. exists mt'. split; [assumption|].
        replace (idx + S k) with (S idx + k) by lia.
        destruct (verdict invert mt).
        -- rewrite <- Hiff. split.
           ++ intros [Hi|Hi]; [lia|assumption].
           ++ intros Hi; right; assumption.
        -- assumption.
Qed.

Lemma gen_loop_complement : forall cs idx plain inv,
  gen_loop false cs idx = Ok plain -> gen_loop true cs idx = Ok inv ->
  forall i, idx <= i < idx + List.length cs -> (In i inv <-> ~ In i plain).
Proof.
  intros cs idx plain inv Hp Hi i Hr.
  destruct (gen_loop_pointwise _ _ _ _ Hp) as [_ Pp].
  destruct (gen_loop_pointwise _ _ _ _ Hi) as [_ Pi].
  assert (Hk : exists k, i = idx + k /\ k < List.length cs) by (exists (i - idx); lia).
  destruct Hk as [k [-> Hlt]].
  destruct (nth_error cs k) as [c|] eqn:Ec.
  2:{ apply nth_error_None in Ec. lia. }
  destruct (Pp k c Ec) as [m1 [F1 I1]]. destruct (Pi k c Ec) as [m2 [F2 I2]].
  rewrite F1 in F2; inversion F2; subst m2.
  rewrite I1, I2, verdict_false, verdict_true. destruct m1; simpl; split; congruence.
Qed.
End Gen.

(* plain match of one list element, as the code since the fix computes it:
   an element in which the descendant search finds nothing is not a match *)
Definition lcand_match (m : smethod) (term : string) (c : lcand) : outcome bool :=
  list_elem_matches lit re_search true m term false c.

Lemma list_elem_matches_reset : forall m term prev c,
  list_elem_matches lit re_search true m term prev c = lcand_match m term c.
Proof. intros. destruct c as [[b|] v|v|[|d r]]; reflexivity. Qed.

Lemma list_loop_from_gen : forall invert m term cs idx prev,
  list_loop_from lit re_search true invert m term cs idx prev =
  gen_loop lcand (lcand_match m term) invert cs idx.
Proof.
  intros invert m term cs. induction cs as [|c r IH]; intros idx prev; simpl; [reflexivity|].
  rewrite list_elem_matches_reset.
  destruct (lcand_match m term c) as [mt| |]; simpl; try reflexivity.
  rewrite IH. reflexivity.
Qed.

Lemma each_loop_from_gen : forall invert m term vs idx,
  each_loop_from lit re_search invert m term vs idx =
  gen_loop hay (sm lit re_search m term) invert vs idx.
Proof.
  intros invert m term vs. induction vs as [|v r IH]; intros idx; simpl; [reflexivity|].
  destruct (sm lit re_search m term v) as [mt| |]; simpl; try reflexivity.
  rewrite IH. reflexivity.
Qed.

(* which candidates a list search yields: candidate by candidate, never
   depending on its neighbours *)
Lemma list_loop_pointwise : forall invert m term cs res,
  list_loop lit re_search invert m term cs = Ok res ->
  (forall i, In i res -> i < List.length cs) /\
  forall i c, nth_error cs i = Some c ->
    exists mt, lcand_match m term c = Ok mt /\ (In i res <-> verdict invert mt = true).
Proof.
  intros invert m term cs res H. unfold list_loop in H. rewrite list_loop_from_gen in H.
  destruct (gen_loop_pointwise _ _ _ _ _ _ H) as [Hb Hp]. split.
  - intros i Hi. apply Hb in Hi. lia.
  - intros i c Hc. apply (Hp i c Hc).
Qed.

Lemma list_loop_complement : forall m term cs plain inv,
  list_loop lit re_search false m term cs = Ok plain ->
  list_loop lit re_search true m term cs = Ok inv ->
  complement (List.length cs) plain inv.
Proof.
  intros m term cs plain inv Hp Hi i Hlt. unfold list_loop in *.
  rewrite list_loop_from_gen in Hp, Hi.
  apply (gen_loop_complement _ _ cs 0 plain inv Hp Hi). lia.
Qed.

Lemma each_loop_complement : forall m term vs plain inv,
  each_loop_from lit re_search false m term vs 0 = Ok plain ->
  each_loop_from lit re_search true m term vs 0 = Ok inv ->
  complement (List.length vs) plain inv.
Proof.
  intros m term vs plain inv Hp Hi i Hlt.
  rewrite each_loop_from_gen in Hp, Hi.
  apply (gen_loop_complement _ _ vs 0 plain inv Hp Hi). lia.
Qed.

Lemma each_loop_pointwise : forall invert m term vs res,
  each_loop_from lit re_search invert m term vs 0 = Ok res ->
  forall i v, nth_error vs i = Some v ->
    exists mt, smh m term v = Ok mt /\ (In i res <-> verdict invert mt = true).
Proof.
  intros invert m term vs res H i v Hv. rewrite each_loop_from_gen in H.
  destruct (gen_loop_pointwise _ _ _ _ _ _ H) as [_ Hp]. apply (Hp i v Hv).
Qed.

Lemma single_site_complement : forall m term v plain inv,
  single_site lit re_search false m term v = Ok plain ->
  single_site lit re_search true m term v = Ok inv ->
  complement 1 plain inv.
Proof.
  intros m term v plain inv Hp Hi i Hlt. unfold single_site in *.
  destruct (sm lit re_search m term v) as [mt| |]; simpl in *; try discriminate.
  inversion Hp; inversion Hi; subst. assert (i = 0) by lia; subst.
  destruct mt; simpl; split; intros H; try tauto; try (intros [H'|[]]; discriminate);
    try (exfalso; apply H; left; reflexivity); try (left; reflexivity).
Qed.

Lemma desc_site_complement : forall m term ds plain inv,
  List.length ds <= 1 ->
  desc_site lit re_search false m term ds = Ok plain ->
  desc_site lit re_search true m term ds = Ok inv ->
  complement 1 plain inv.
Proof.
  intros m term ds plain inv Hlen Hp Hi i Hlt. unfold desc_site in *.
  assert (i = 0) by lia; subst.
  destruct ds as [|d [|d' r]]; simpl in Hlen; try lia.
  - simpl in *. inversion Hp; inversion Hi; subst. simpl. split; [intros _ []|]. intros _. left; reflexivity.
  - simpl in *. destruct (sm lit re_search m term d) as [mt| |]; simpl in *; try discriminate.
    destruct mt; simpl in *; inversion Hp; inversion Hi; subst; simpl;
      split; intros H; try tauto; try (intros [H'|[]]; discriminate);
      try (exfalso; apply H; left; reflexivity); try (left; reflexivity).
Qed.

End WithOracles.

(* ---------- refutations (concrete oracles) ---------- *)

Definition demo_lit := lit_of_table [("1", LVal (PInt 1)); ("True", LVal (PBool true)); ("False", LVal (PBool false))].
Definition demo_re := re_of_table [].

(* a hash whose attribute path reaches two nodes, one equal to the term and one
   not: the plain and the inverted search both yield the hash *)
Lemma desc_site_complement_refuted :
  exists m term ds plain inv,
    desc_site demo_lit demo_re false m term ds = Ok plain /\
    desc_site demo_lit demo_re true m term ds = Ok inv /\
    ~ complement 1 plain inv.
Proof.
  exists MEquals, "1", [HVal (PInt 1); HVal (PInt 2)], [0], [0].
  split; [vm_compute; reflexivity|]. split; [vm_compute; reflexivity|].
  intros H. specialize (H 0 (Nat.lt_0_succ 0)). destruct H as [H _].
  apply H; left; reflexivity.
Qed.

(* before the fix: an element in which nothing was compared is reported as a
   match because its predecessor matched *)
Lemma list_loop_before_fix_stale :
  exists m term cs res,
    list_loop_before_fix demo_lit demo_re false m term cs = Ok res /\
    nth_error cs 1 = Some (LDesc []) /\ In 1 res.
Proof.
  exists MEquals, "1", [LAttr (HVal (PInt 1)); LDesc []], [0; 1].
  split; [vm_compute; reflexivity|]. split; [reflexivity|]. right; left; reflexivity.
Qed.
