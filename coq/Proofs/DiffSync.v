(* The two synchronisers account for every element exactly once: the left
   components of the produced tuples are the left list in order, the right
   components are a permutation of the right list. *)
From Coq Require Import List Ascii String ZArith NArith Bool Arith Lia Permutation.
From YP Require Import Outcome PyStr PyVal Doc Diff C06Spec DiffBase.
Import ListNotations.
Open Scope nat_scope.

Definition pair_left (p : spair) : option (nat * node) :=
  let '(li, le, _, _) := p in match li with Some i => Some (i, le) | None => None end.
Definition pair_right (p : spair) : option (nat * node) :=
  let '(_, _, ri, re) := p in match ri with Some i => Some (i, re) | None => None end.

Fixpoint somes {A} (l : list (option A)) : list A :=
  match l with
  | [] => []
  | Some x :: r => x :: somes r
  | None :: r => somes r
  end.

Definition lefts (ps : list spair) : list (nat * node) := somes (map pair_left ps).
Definition rights (ps : list spair) : list (nat * node) := somes (map pair_right ps).

Lemma extract_first_perm {A} (f : A -> bool) : forall l x r,
  extract_first f l = Some (x, r) -> Permutation l (x :: r) /\ f x = true.
Proof.
  induction l as [|y t IH]; simpl; intros x r H; [discriminate|].
  destruct (f y) eqn:E.
  - inversion H; subst. split; auto.
  - destruct (extract_first f t) as [[z t']|] eqn:E2; try discriminate.
    inversion H; subst. destruct (IH _ _ eq_refl) as [P Fx]. split; auto.
    eapply perm_trans; [apply perm_skip; exact P | apply perm_swap].
Qed.

Lemma leftover_lefts : forall red, lefts (leftover red) = [].
Proof. induction red as [|[i x] r IH]; simpl; auto. Qed.
Lemma leftover_rights : forall red, rights (leftover red) = red.
Proof. induction red as [|[i x] r IH]; simpl; auto. unfold rights in *. simpl. f_equal. exact IH. Qed.

Lemma sync_value_go_acc : forall lhs red,
  lefts (sync_value_go lhs red) = lhs /\ Permutation (rights (sync_value_go lhs red)) red.
Proof.
  induction lhs as [|[li le] rest IH]; simpl; intros red.
  - split; [apply leftover_lefts | rewrite leftover_rights; apply Permutation_refl].
  - destruct (extract_first (fun p => val_eq (snd p) le) red) as [[[ri re] red']|] eqn:E.
    + destruct (IH red') as [H1 H2]. destruct (extract_first_perm _ _ _ _ E) as [P _].
      unfold lefts, rights in *. simpl. split; [f_equal; exact H1|].
      eapply perm_trans; [apply perm_skip; exact H2 | apply Permutation_sym; exact P].
    + destruct (IH red) as [H1 H2]. unfold lefts, rights in *. simpl. split; [f_equal; exact H1 | exact H2].
Qed.

Lemma sync_key_go_acc : forall c r ka lhs red,
  lefts (sync_key_go c r ka lhs red) = lhs /\ Permutation (rights (sync_key_go c r ka lhs red)) red.
Proof.
  intros c r ka. induction lhs as [|[li le] rest IH]; simpl; intros red.
  - split; [apply leftover_lefts | rewrite leftover_rights; apply Permutation_refl].
  - destruct (negb _).
    + destruct (IH red) as [H1 H2]. unfold lefts, rights in *. simpl. split; [f_equal; exact H1 | exact H2].
    + destruct (extract_first (key_match c r ka le) red) as [[[ri re] red']|] eqn:E.
      * destruct (IH red') as [H1 H2]. destruct (extract_first_perm _ _ _ _ E) as [P _].
        unfold lefts, rights in *. simpl. split; [f_equal; exact H1|].
        eapply perm_trans; [apply perm_skip; exact H2 | apply Permutation_sym; exact P].
      * destruct (IH red) as [H1 H2]. unfold lefts, rights in *. simpl. split; [f_equal; exact H1 | exact H2].
Qed.

Theorem sync_value_accounting : forall lels rels,
  lefts (sync_value lels rels) = enumerate lels /\
  Permutation (rights (sync_value lels rels)) (enumerate rels).
Proof. intros. apply sync_value_go_acc. Qed.

Theorem sync_key_accounting : forall c r lels rels,
  lefts (sync_key c r lels rels) = enumerate lels /\
  Permutation (rights (sync_key c r lels rels)) (enumerate rels).
Proof. intros. unfold sync_key. apply sync_key_go_acc. Qed.

(* a matched pair of the value synchroniser holds equal elements (Python ==) *)
Lemma sync_value_go_matched : forall lhs red li le ri re,
  In (Some li, le, Some ri, re) (sync_value_go lhs red) -> val_eq re le = true.
Proof.
  induction lhs as [|[i x] rest IH]; simpl; intros red li le ri re H.
  - unfold leftover in H. apply in_map_iff in H. destruct H as [[n y] [E _]]. discriminate.
  - destruct (extract_first (fun p => val_eq (snd p) x) red) as [[[rj ry] red']|] eqn:E.
    + destruct H as [H|H].
      * inversion H; subst. destruct (extract_first_perm _ _ _ _ E) as [_ F]. exact F.
      * eapply IH; eauto.
    + destruct H as [H|H]; [discriminate | eapply IH; eauto].
Qed.

(* exit state of yaml-diff: 1 exactly when the report shows a difference *)
Lemma exit_state_spec : forall es, exit_state es = 1 <-> shows_difference es = true.
Proof.
  intros es. unfold exit_state, changes_found, shows_difference.
  assert (E : existsb is_different es = existsb (fun e => match e_action e with ASame => false | _ => true end) es).
  { induction es as [|e r IH]; simpl; auto. rewrite IH. f_equal.
    unfold is_different. destruct (e_action e); reflexivity. }
  rewrite E; clear E. destruct (existsb _ es); simpl; split; intros H; try reflexivity; try discriminate H.
Qed.

Lemma printed_default_are_differences : forall es e,
  In e (printed_entries false false false es) -> is_different e = true.
Proof.
  intros es e H. unfold printed_entries in H. apply filter_In in H. destruct H as [_ H].
  simpl in H. rewrite andb_true_r, orb_false_r, orb_false_r in H. exact H.
Qed.
