(* C08: side conditions that tie the documented symbol sets of Spec/C08Spec.v
   to the symbol lists of the Python source (Gen/Generated.v, regenerated on
   every run), and small facts about separator inference. *)
From Coq Require Import List Ascii String ZArith Bool Arith Lia.
From YP Require Import Outcome PyStr Generated PathParser PathPrinter C08Spec RtStep RtSeg RtRender.
Import ListNotations.
Open Scope string_scope.
Open Scope nat_scope.

Definition sym_chars (l : list (option ascii)) (sepc : ascii) : list ascii :=
  map (fun o => match o with Some c => c | None => sepc end) l.

(* every documented special symbol of a key is escaped by escape_path_section,
   and nothing else is *)
Definition section_syms_ok : bool :=
  forallb (fun sepc =>
    forallb (fun c => mem_ascii c (sym_chars g_section_escape_syms sepc)) (key_specials sepc)
    && forallb (fun c => mem_ascii c (key_specials sepc)) (sym_chars g_section_escape_syms sepc))
    ["."; "/"]%char.
Lemma section_syms_ok_true : section_syms_ok = true.
Proof. vm_compute. reflexivity. Qed.

(* the printer's list for keys is the same set without the back-slash *)
Definition key_syms_ok : bool :=
  forallb (fun sepc =>
    forallb (fun c => Ascii.eqb c "\"%char || mem_ascii c (sym_chars g_key_escape_syms sepc)) (key_specials sepc)
    && forallb (fun c => mem_ascii c (key_specials sepc)) (sym_chars g_key_escape_syms sepc))
    ["."; "/"]%char.
Lemma key_syms_ok_true : key_syms_ok = true.
Proof. vm_compute. reflexivity. Qed.

(* the documented operator, keyword and collector spellings are the enums' *)
Definition spellings_ok : bool :=
  forallb (fun m => String.eqb (op_text m) (method_str m)) all_methods
  && forallb (fun k => String.eqb (kw_text k) (kw_str k)) all_keywords
  && forallb (fun c => String.eqb (cop_text c) (cop_str c)) [CNone; CAdd; CSub; CAnd].
Lemma spellings_ok_true : spellings_ok = true.
Proof. vm_compute. reflexivity. Qed.

(* every character the parser treats specially while a key is accumulated is
   one of the documented specials (all 256 characters) *)
Lemma key_specials_cover sp c :
  mem_ascii c (key_specials (sep_char sp)) = false -> top_plain (sep_char sp) c = true.
Proof. intros H. destruct sp; all_ascii c; vm_compute in H; try discriminate H; reflexivity. Qed.

(* separator inference *)
Lemma parse_auto strip text c r :
  normalize_original text = String c r ->
  parse Auto strip text = parse (Forced (if Ascii.eqb c "/"%char then Slash else Dot)) strip text.
Proof. intros H. unfold parse. rewrite H. reflexivity. Qed.

Theorem parse_render_nosearch_auto sp l :
  wf sp l = true -> forallb idx_guard l = true -> forallb not_search l = true ->
  (sp = Dot -> first_not_in ["/"%char] (render_ref sp l) = true) ->
  parse Auto true (render_ref sp l) = Ok (segs_of l).
Proof.
  intros Hwf Hidx Hns Hd.
  destruct (normalize_original (render_ref sp l)) as [|c r] eqn:En.
  - rewrite <- (parse_render_nosearch sp l Hwf Hidx Hns). unfold parse. rewrite En. reflexivity.
  - rewrite (parse_auto _ _ _ _ En). rewrite <- (parse_render_nosearch sp l Hwf Hidx Hns).
    assert (Hn : render_ref sp l = String c r).
    { unfold normalize_original in En. destruct (strip_py (render_ref sp l)); [discriminate En | exact En]. }
    destruct sp.
    + specialize (Hd eq_refl). rewrite Hn in Hd. cbn in Hd. destruct (Ascii.eqb c "/"%char); [discriminate Hd | reflexivity].
    + unfold render_ref in Hn. cbn in Hn. injection Hn as <- _. reflexivity.
Qed.

(* ---- witnesses of the known findings ---- *)
Lemma F21_witness :
  exists (sp : sep) (l : list sseg),
    l = [((Some TSearch, ASearch false MEquals "a" "'"), plain_style)]
    /\ render_ref sp l = "[a=\']"
    /\ parse (Forced sp) true (render_ref sp l) = Ok [(Some TSearch, ASearch false MEquals "a" "")]
    /\ parse (Forced sp) true (render_ref sp l) <> Ok (segs_of l).
Proof.
  exists Dot, [((Some TSearch, ASearch false MEquals "a" "'"), plain_style)].
  split; [reflexivity|]. split; [vm_compute; reflexivity|]. split; [vm_compute; reflexivity|].
  vm_compute. discriminate.
Qed.

Lemma F23_witness :
  exists (l : list sseg),
    wfc Dot l = true /\ wfc Slash l = true
    /\ parse Auto true (render_ref Dot l) = parse Auto true (render_ref Slash l)
    /\ y_eq (y_new (render_ref Dot l)) (render_ref Slash l) = Ok false.
Proof.
  exists [((Some TKey, AStr "a.b"), plain_style)].
  split; [vm_compute; reflexivity|]. split; [vm_compute; reflexivity|]. split; vm_compute; reflexivity.
Qed.
