(* C08: side conditions that tie the documented symbol sets of Spec/C08Spec.v
   to the symbol lists of the Python source (Gen/Generated.v, regenerated on
   every run), and small facts about separator inference. *)
From Coq Require Import List Ascii String ZArith Bool Arith Lia.
From YP Require Import Outcome PyStr Generated PathParser PathPrinter C08Spec RtStep RtSeg RtRender.
Import ListNotations.
Open Scope string_scope.
Open Scope nat_scope.

Definition sym_chars (l : list (option ascii)) (sepc : ascii) : list ascii :=
  map (fun o => match o with Some c => c | None => sepc end) l.

(* every documented special symbol of a key is escaped by escape_path_section,
   and nothing else is *)
Definition section_syms_ok : bool :=
  forallb (fun sepc =>
    forallb (fun c => mem_ascii c (sym_chars g_section_escape_syms sepc)) (key_specials sepc)
    && forallb (fun c => mem_ascii c (key_specials sepc)) (sym_chars g_section_escape_syms sepc))
    ["."; "/"]%char.
Lemma section_syms_ok_true : section_syms_ok = true.
Proof. vm_compute. reflexivity. Qed.

(* the printer's list for keys is the same set without the back-slash *)
Definition key_syms_ok : bool :=
  forallb (fun sepc =>
    forallb (fun c => Ascii.eqb c "\"%char || mem_ascii c (sym_chars g_key_escape_syms sepc)) (key_specials sepc)
    && forallb (fun c => mem_ascii c (key_specials sepc)) (sym_chars g_key_escape_syms sepc))
    ["."; "/"]%char.
Lemma key_syms_ok_true : key_syms_ok = true.
Proof. vm_compute. reflexivity. Qed.

(* the documented operator, keyword and collector spellings are the enums' *)
Definition spellings_ok : bool :=
  forallb (fun m => String.eqb (op_text m) (method_str m)) all_methods
  && forallb (fun k => String.eqb (kw_text k) (kw_str k)) all_keywords
  && forallb (fun c => String.eqb (cop_text c) (cop_str c)) [CNone; CAdd; CSub; CAnd].
Lemma spellings_ok_true : spellings_ok = true.
Proof. vm_compute. reflexivity. Qed.

(* every character the parser treats specially while a key is accumulated is
   one of the documented specials (all 256 characters) *)
Lemma key_specials_cover sp c :
  mem_ascii c (key_specials (sep_char sp)) = false -> top_plain (sep_char sp) c = true.
Proof. intros H. destruct sp; all_ascii c; vm_compute in H; try discriminate H; reflexivity. Qed.

(* separator inference *)
Lemma parse_auto strip text c r :
  normalize_original text = String c r ->
  parse Auto strip text = parse (Forced (if Ascii.eqb c "/"%char then Slash else Dot)) strip text.
Proof. intros H. unfold parse. rewrite H. reflexivity. Qed.

(* separator inference picks the notation the text was written in, unless a
   dot-notation text starts with "/" (the property's own exclusion) *)
Lemma parse_auto_forced sp strip text :
  (sp = Dot -> first_not_in ["/"%char] text = true) ->
  (sp = Slash -> exists r, text = String "/"%char r) ->
  parse Auto strip text = parse (Forced sp) strip text.
Proof.
  intros Hd Hs.
  destruct (normalize_original text) as [|c r] eqn:En.
  - unfold parse. rewrite En. reflexivity.
  - rewrite (parse_auto _ _ _ _ En).
    assert (Hn : text = String c r).
    { unfold normalize_original in En. destruct (strip_py text); [discriminate En | exact En]. }
    destruct sp.
    + specialize (Hd eq_refl). rewrite Hn in Hd. cbn in Hd. destruct (Ascii.eqb c "/"%char); [discriminate Hd | reflexivity].
    + destruct (Hs eq_refl) as (r' & Er). rewrite Hn in Er. injection Er as -> _. reflexivity.
Qed.

Theorem parse_render_auto sp l :
  wf sp l = true ->
  (sp = Dot -> first_not_in ["/"%char] (render_ref sp l) = true) ->
  parse Auto true (render_ref sp l) = Ok (segs_of l).
Proof.
  intros Hwf Hd. rewrite (parse_auto_forced sp); [apply parse_render; exact Hwf | exact Hd |].
  intros ->. eexists. reflexivity.
Qed.
