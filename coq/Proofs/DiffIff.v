(* C06: the diff contains a non-SAME entry exactly when the two documents
   differ as data -- sequence order disregarded in the value-synchronised
   mode -- for every uniform pair of options --arrays position|value x
   --aoh position|dpos|value, all document pairs (tags included, since the
   repair of finding F1), any YAMLPath.__eq__ in the pop step. *)
From Coq Require Import List Ascii String ZArith NArith Bool Arith Lia Permutation.
From YP Require Import Outcome PyStr PyVal Doc Diff C06Spec DiffBase DiffEq DiffKeys DiffSync DiffSym DiffAcct DiffKSync DiffCover.
Import ListNotations.
Open Scope nat_scope.

Notation SD := shows_difference.

Definition nonsame (e : entry) : bool := match e_action e with ASame => false | _ => true end.
Definition nonempty {A} (l : list A) : bool := match l with [] => false | _ => true end.

Lemma SD_cons : forall e a, SD (e :: a) = nonsame e || SD a.
Proof. reflexivity. Qed.
Lemma SD_app : forall x y, SD (x ++ y) = SD x || SD y.
Proof. intros. unfold shows_difference. apply existsb_app. Qed.
Lemma SD_rev : forall x, SD (rev x) = SD x.
Proof.
  induction x as [|e r IH]; simpl; auto. rewrite SD_app, IH. simpl. rewrite orb_false_r. apply orb_comm.
Qed.
Lemma SD_all : forall es, Forall (fun e => nonsame e = true) es -> SD es = nonempty es.
Proof. intros es H. destruct es as [|e r]; auto. inversion H; subst. simpl. unfold nonsame in H2. rewrite H2. reflexivity. Qed.
Lemma SD_news {X} (f : X -> entry) : forall xs acc,
  (forall x, nonsame (f x) = true) -> SD (rev (map f xs) ++ acc) = nonempty xs || SD acc.
Proof.
  intros xs acc H. rewrite SD_app, SD_rev. f_equal.
  destruct xs as [|x r]; auto. simpl. fold (nonsame (f x)). rewrite H. reflexivity.
Qed.

(* ---- well-formed, inherited by children ---- *)
Definition okd (n : node) : Prop := wf_doc n = true.

Lemma okd_child : forall n c, okd n -> In c (children n) -> okd c.
Proof. intros n c Hw Hin. eapply wf_children; eauto. Qed.

Lemma okd_eq : forall a b, okd a -> okd b -> val_eq a b = data_eq a b.
Proof. intros a b A1 B1. apply val_eq_data_eq; auto. Qed.

(* a fold whose steps each add a known contribution to "shows a difference" *)
Lemma fold_SD {X} (f : list entry -> X -> outcome (list entry)) (g : X -> bool) : forall xs a a',
  (forall b x b', In x xs -> f b x = Ok b' -> SD b' = SD b || g x) ->
  foldM f xs a = Ok a' -> SD a' = SD a || existsb g xs.
Proof.
  induction xs as [|x r IH]; simpl; intros a a' Hf H.
  - inversion H; subst. rewrite orb_false_r. reflexivity.
  - destruct (f a x) as [b| |] eqn:E; simpl in H; try discriminate.
    rewrite (IH b a' (fun b0 y b' Hy => Hf b0 y b' (or_intror Hy)) H).
    rewrite (Hf a x b (or_introl eq_refl) E). rewrite orb_assoc. reflexivity.
Qed.

Lemma purge_nonsame : forall path q l root, Forall (fun e => nonsame e = true) (purge path q l root []).
Proof.
  intros path q l root. destruct l as [i v| | |]; simpl; try rewrite app_nil_r.
  - destruct v, root; simpl; repeat constructor.
  - apply Forall_forall. intros e He. apply in_rev in He. apply in_map_iff in He. destruct He as [x [<- _]]. reflexivity.
  - apply Forall_forall. intros e He. apply in_rev in He. apply in_map_iff in He. destruct He as [x [<- _]]. reflexivity.
  - apply Forall_forall. intros e He. apply in_rev in He. apply in_map_iff in He. destruct He as [x [<- _]]. reflexivity.
Qed.
Lemma add_nonsame : forall path q l root, Forall (fun e => nonsame e = true) (add_everything path q l root []).
Proof.
  intros path q l root. destruct l as [i v| | |]; simpl; try rewrite app_nil_r.
  - destruct v, root; simpl; repeat constructor.
  - apply Forall_forall. intros e He. apply in_rev in He. apply in_map_iff in He. destruct He as [x [<- _]]. reflexivity.
  - apply Forall_forall. intros e He. apply in_rev in He. apply in_map_iff in He. destruct He as [x [<- _]]. reflexivity.
  - apply Forall_forall. intros e He. apply in_rev in He. apply in_map_iff in He. destruct He as [x [<- _]]. reflexivity.
Qed.

(* the type-clash branch always shows a difference *)
Lemma clash_SD : forall path q l r root a a',
  (let a1 := add_everything path q r root (purge path q l root a) in
   if Nat.eqb (List.length a1) (List.length a)
   then Ok (mkentry AChange path q l r :: a1) else Ok a1) = Ok a' ->
  SD a' = true.
Proof.
  intros path q l r root a a' H. cbv zeta in H.
  rewrite add_everything_app, purge_app in H.
  set (pl := purge path q l root []) in *. set (ar := add_everything path q r root []) in *.
  rewrite !app_length in H.
  destruct (Nat.eqb (List.length ar + (List.length pl + List.length a)) (List.length a)) eqn:El;
    inversion H; subst; clear H.
  - reflexivity.
  - apply Nat.eqb_neq in El. rewrite !SD_app.
    assert (Sa : SD ar = nonempty ar) by (apply SD_all; apply add_nonsame).
    assert (Sp : SD pl = nonempty pl) by (apply SD_all; apply purge_nonsame).
    rewrite Sa, Sp. destruct ar; simpl; auto. destruct pl; simpl; auto; simpl in El; exfalso; lia.
Qed.

(* ---- the value synchroniser decides bag equality ---- *)
Definition matched (p : spair) : bool :=
  match p with (Some _, _, Some _, _) => true | _ => false end.

Lemma extract_remove {A B} (pi : A -> B) (f g : B -> bool) : forall red,
  (forall p, In p red -> f (pi p) = g (pi p)) ->
  match extract_first (fun p => f (pi p)) red with
  | Some (_, red') => remove_first g (map pi red) = Some (map pi red')
  | None => remove_first g (map pi red) = None
  end.
Proof.
  induction red as [|p r IH]; simpl; intros H; auto.
  rewrite <- (H p (or_introl eq_refl)).
  destruct (f (pi p)); auto.
  specialize (IH (fun p0 Hp0 => H p0 (or_intror Hp0))).
  destruct (extract_first (fun p0 => f (pi p0)) r) as [[y r']|]; rewrite IH; reflexivity.
Qed.

Lemma sync_bag : forall lhs red,
  (forall x y, In x (map snd lhs) -> In y (map snd red) -> val_eq y x = data_eq y x) ->
  forallb matched (sync_value_go lhs red) = bag_eqb data_eq (map snd lhs) (map snd red).
Proof.
  induction lhs as [|[li le] rest IH]; simpl; intros red H.
  - destruct red as [|[ri re] r]; reflexivity.
  - pose proof (extract_remove (@snd nat node) (fun y => val_eq y le) (fun y => data_eq y le) red) as X.
    simpl in X.
    destruct (extract_first (fun p => val_eq (snd p) le) red) as [[[ri re] red']|] eqn:Ex.
    + rewrite X; [|intros p Hp; apply H; [left; reflexivity | apply in_map; exact Hp]].
      simpl. apply IH. intros x y Hx Hy. apply H; [right; exact Hx|].
      destruct (extract_first_perm _ _ _ _ Ex) as [P _].
      apply in_map_iff in Hy. destruct Hy as [p [<- Hp]]. apply in_map.
      eapply Permutation_in; [apply Permutation_sym; exact P | right; exact Hp].
    + rewrite X; [|intros p Hp; apply H; [left; reflexivity | apply in_map; exact Hp]].
      reflexivity.
Qed.

Lemma existsb_false_in {A} (f : A -> bool) : forall l, existsb f l = false -> forall x, In x l -> f x = false.
Proof.
  induction l as [|a r IH]; simpl; intros H x Hx; [contradiction|].
  apply orb_false_iff in H. destruct H as [H1 H2]. destruct Hx as [<-|Hx]; auto.
Qed.

(* the loop of _diff_arrays_of_hashes in the identity-key modes *)
Definition key_fold (rec : rec_t) (d : bool) (path : string) (q : loc) (r0 : node)
           (a : list entry) (p : spair) : outcome (list entry) :=
  let '(lidx, lele, ridx, rele) := p in
  match lidx with
  | None => Ok (add_entry (path_add_idx path ridx) (q ++ [idx_ref ridx]) rele :: a)
  | Some li =>
      match ridx with
      | None => Ok (del_entry (path_add_idx path lidx) (q ++ [RIdx li]) lele :: a)
      | Some ri =>
          if d then rec (path_add_idx path ridx) (q ++ [RIdx ri]) lele rele (Some r0) (PInt (Z.of_nat ri)) a
          else Ok (cmp_entry (path_add_idx path lidx) (q ++ [RIdx li]) lele rele :: a)
      end
  end.

(* which comparer _diff_lists runs under a uniform pair of options *)
Lemma lists_dispatch : forall path_eq cfg am hm rec path q l r lels rels par pref a,
  uniform cfg am hm ->
  opt_str_eqb (tag (node_info l)) (tag (node_info r)) = true ->
  diff_lists path_eq cfg rec path q l r lels rels par pref a =
  match list_mode am hm rels with
  | LPos d => zip_go rec d path q r 0 lels rels a
  | LValue => diff_synced path_eq rec path q r lels rels a
  | LKey d => foldM (key_fold rec d path q r) (sync_key cfg r lels rels) a
  end.
Proof.
  intros path_eq cfg am hm rec path q l r lels rels par pref a [Ha Hh] Ht.
  unfold diff_lists. rewrite Ht. cbn [negb]. unfold diff_aoh, diff_arrays, list_mode.
  destruct rels as [|[ | | | ] rr]; rewrite ?Hh, ?Ha; simpl; rewrite ?Ha; simpl;
    destruct am, hm; reflexivity.
Qed.

Lemma in_lefts_inv : forall ps li le, In (li, le) (lefts ps) -> exists ri re, In (Some li, le, ri, re) ps.
Proof.
  induction ps as [|p r IH]; intros li le H; [contradiction|].
  unfold lefts in H. simpl in H. destruct p as [[[l0 x0] r0] y0]. simpl in H.
  destruct l0 as [n|].
  - destruct H as [H|H].
    + inversion H; subst. exists r0, y0. left; reflexivity.
    + destruct (IH _ _ H) as [ri [re Hin]]. exists ri, re. right; exact Hin.
  - destruct (IH _ _ H) as [ri [re Hin]]. exists ri, re. right; exact Hin.
Qed.

Lemma matched_lengths : forall ps, (forall p, In p ps -> matched p = true) ->
  List.length (lefts ps) = List.length ps /\ List.length (rights ps) = List.length ps.
Proof.
  induction ps as [|p r IH]; intros H; [split; reflexivity|].
  destruct (IH (fun p0 Hp0 => H p0 (or_intror Hp0))) as [I1 I2].
  pose proof (H p (or_introl eq_refl)) as M. destruct p as [[[[n|] x] [m|]] y]; try discriminate M.
  unfold lefts, rights in *. simpl. split; congruence.
Qed.

Lemma in_enumerate {A} : forall (l : list A) x, In x l -> exists n, In (n, x) (enumerate l).
Proof.
  intros l x H. apply In_nth_error in H. destruct H as [n Hn]. exists n.
  pose proof (enumerate_from_in l 0 n x Hn) as E. simpl in E. exact E.
Qed.

Lemma map_ida_enumerate : forall (idf : node -> pyval) (l : list node),
  map (ida idf) (enumerate l) = map idf l.
Proof.
  intros idf l. unfold ida, enumerate. rewrite <- (map_map snd idf), enumerate_from_map_snd. reflexivity.
Qed.

Section Iff.
  Variable path_eq : string -> string -> outcome bool.
  Variable cfg : dcfg.
  Variable am : arr_opt.
  Variable hm : aoh_opt.
  Hypothesis Hu : uniform cfg am hm.

  (* the guard carried through the recursion (trivial for the position / value
     modes, the well-keyedness guard of finding F4 for the identity-key modes)
     and what it must provide at each kind of node *)
  Variable Guard : node -> node -> Prop.
  Hypothesis G_map : forall i lkvs j rkvs k rv lv,
    okd (NMap i lkvs) -> okd (NMap j rkvs) -> Guard (NMap i lkvs) (NMap j rkvs) ->
    In (k, rv) rkvs -> map_get k lkvs = Some lv -> Guard lv rv.
  Hypothesis G_leaf : forall a b, plain_leaf a = true -> plain_leaf b = true -> Guard a b.
  Hypothesis G_zip : forall i lels j rels, Guard (NSeq i lels) (NSeq j rels) ->
    list_mode am hm rels = LPos true -> forall x y, In (x, y) (combine lels rels) -> Guard x y.
  Hypothesis G_value : forall i lels j rels, Guard (NSeq i lels) (NSeq j rels) ->
    list_mode am hm rels = LValue ->
    forall x y, In x lels -> In y rels -> data_eq x y = true -> Guard x y.
  (* under the guard, exact equality implies the equivalence *)
  Hypothesis G_equal : forall x y, okd x -> okd y -> Guard x y -> data_eq x y = true ->
    equiv am hm x y = true.
  Hypothesis G_key : forall i lels j rels d,
    okd (NSeq i lels) -> okd (NSeq j rels) -> Guard (NSeq i lels) (NSeq j rels) ->
    list_mode am hm rels = LKey d ->
    c_keys cfg = [] /\ exists K, first_key rels = Some K /\ keyed_list K lels = true /\ keyed_list K rels = true /\
      (d = true -> forall x y, In x lels -> In y rels -> same_id K x y = true -> Guard x y).

  Notation E := (equiv am hm).

  Definition rec_iff (rec : rec_t) : Prop :=
    forall path q l r par pref a a',
      okd l -> okd r -> Guard l r -> rec path q l r par pref a = Ok a' -> SD a' = SD a || negb (E l r).

  (* ---- mappings ---- *)
  Definition gshared (lkvs : list (node * node)) (kv' : node * node) : bool :=
    match map_get (fst kv') lkvs with Some lv => negb (E lv (snd kv')) | None => false end.

  Lemma dict_equiv_iff : forall i lkvs j rkvs,
    okd (NMap i lkvs) -> okd (NMap j rkvs) ->
    let adds := filter (fun kv => negb (map_has (fst kv) lkvs)) rkvs in
    let dels := filter (fun kv => negb (map_has (fst kv) rkvs)) lkvs in
    E (NMap i lkvs) (NMap j rkvs) =
    tag_eqb (tag i) (tag j) && negb (nonempty adds || nonempty dels || existsb (gshared lkvs) rkvs).
  Proof.
    intros i lkvs j rkvs HwL HwR adds dels.
    destruct (wf_map_inv _ _ HwL) as [Lp [Ln Lw]].
    destruct (wf_map_inv _ _ HwR) as [Rp [Rn Rw]].
    assert (Ed : dels = dels_of kkey kkey lkvs rkvs).
    { unfold dels, dels_of. apply filter_ext_in. intros [k v] Hin. simpl.
      assert (Pk : plain_leaf k = true) by (rewrite forallb_forall in Lp; apply (Lp (k, v) Hin)).
      rewrite (map_has_hask _ _ Rp Pk). reflexivity. }
    assert (Ea : adds = filter (fun b => negb (hask kkey (kkey b) lkvs)) rkvs).
    { unfold adds. apply filter_ext_in. intros [k v] Hin. simpl.
      assert (Pk : plain_leaf k = true) by (rewrite forallb_forall in Rp; apply (Rp (k, v) Hin)).
      rewrite (map_has_hask _ _ Lp Pk). reflexivity. }
    pose proof (join_lengths kkey kkey lkvs rkvs Ln Rn) as J. rewrite <- Ed, <- Ea in J.
    (* the left partner of a right-hand item *)
    assert (Partner : forall k' rv lv, In (k', rv) rkvs -> map_get k' lkvs = Some lv ->
              exists kn, In (kn, lv) lkvs /\ py_eq (key_val kn) (key_val k') = true).
    { intros k' rv lv Hin Eg.
      assert (Pk : plain_leaf k' = true) by (rewrite forallb_forall in Rp; apply (Rp (k', rv) Hin)).
      rewrite (map_get_findk _ _ Lp Pk) in Eg.
      destruct (findk kkey (key_val k') lkvs) as [[kn w]|] eqn:F; simpl in Eg; try discriminate.
      inversion Eg; subst. apply findk_some in F. exists kn. exact F. }
    rewrite equiv_map, <- andb_assoc. f_equal.
    match goal with |- ?X = _ => destruct X eqn:EE end; symmetry.
    - (* equivalent: nothing added, nothing deleted, every shared pair equivalent *)
      apply andb_true_iff in EE. destruct EE as [Len F]. apply Nat.eqb_eq in Len.
      rewrite forallb_forall in F.
      assert (D0 : dels = []).
      { unfold dels. apply filter_nil_iff. intros [k v] Hin. simpl. apply negb_false_iff.
        assert (Pk : plain_leaf k = true) by (rewrite forallb_forall in Lp; apply (Lp (k, v) Hin)).
        rewrite (map_has_hask _ _ Rp Pk).
        specialize (F (k, v) Hin). apply existsb_exists in F. destruct F as [kv' [Hkv' X]].
        apply andb_true_iff in X. destruct X as [X _]. simpl in X.
        unfold hask. apply existsb_exists. exists kv'. split; auto. apply py_eq_sym. exact X. }
      assert (A0 : adds = []).
      { rewrite D0 in J. simpl in J. destruct adds; auto. simpl in J. lia. }
      rewrite D0, A0. simpl. apply negb_true_iff.
      apply not_true_is_false. intros Hex. apply existsb_exists in Hex. destruct Hex as [[k' rv] [Hin G]].
      unfold gshared in G. simpl in G.
      destruct (map_get k' lkvs) as [lv|] eqn:Eg; try discriminate.
      destruct (Partner _ _ _ Hin Eg) as [kn [Hkn Ekn]].
      specialize (F (kn, lv) Hkn). apply existsb_exists in F. destruct F as [kv2 [Hkv2 X]].
      apply andb_true_iff in X. destruct X as [X1 X2]. simpl in X1, X2.
      assert (kv2 = (k', rv)).
      { apply (keyed_uniq kkey rkvs kv2 (k', rv) Rn Hkv2 Hin). unfold kkey. simpl.
        eapply py_eq_trans; [apply py_eq_sym; exact X1 | exact Ekn]. }
      subst kv2. simpl in X2. rewrite X2 in G. discriminate.
    - (* not equivalent: otherwise the three conditions rebuild the equivalence *)
      apply negb_false_iff.
      destruct (nonempty adds || nonempty dels || existsb (gshared lkvs) rkvs) eqn:X; auto.
      exfalso. apply orb_false_iff in X. destruct X as [X G]. apply orb_false_iff in X. destruct X as [A0 D0].
      assert (A1 : adds = []) by (destruct adds; auto; discriminate).
      assert (D1 : dels = []) by (destruct dels; auto; discriminate).
      rewrite A1, D1 in J. simpl in J.
      assert (T : Nat.eqb (List.length lkvs) (List.length rkvs) &&
                  forallb (fun kv => existsb (fun kv' => py_eq (leaf_value (fst kv)) (leaf_value (fst kv'))
                                                        && E (snd kv) (snd kv')) rkvs) lkvs = true).
      { apply andb_true_iff. split; [apply Nat.eqb_eq; lia|].
        apply forallb_forall. intros [k v] Hin.
        assert (Pk : plain_leaf k = true) by (rewrite forallb_forall in Lp; apply (Lp (k, v) Hin)).
        pose proof (proj1 (filter_nil_iff _ lkvs) D1 (k, v) Hin) as Hh. simpl in Hh. apply negb_false_iff in Hh.
        rewrite (map_has_hask _ _ Rp Pk), hask_findk in Hh.
        destruct (findk kkey (key_val k) rkvs) as [[k' rv]|] eqn:F; try discriminate.
        apply findk_some in F. destruct F as [Hin' E']. unfold kkey in E'. simpl in E'.
        assert (Pk' : plain_leaf k' = true) by (rewrite forallb_forall in Rp; apply (Rp (k', rv) Hin')).
        assert (Eg : map_get k' lkvs = Some v).
        { rewrite (map_get_findk _ _ Lp Pk'), (findk_congr kkey _ _ lkvs E').
          change (key_val k) with (kkey (k, v)). rewrite (findk_in kkey lkvs (k, v) Ln Hin). reflexivity. }
        pose proof (existsb_false_in _ _ G (k', rv) Hin') as G1.
        apply existsb_exists. exists (k', rv). split; auto. simpl.
        unfold gshared in G1. simpl in G1. rewrite Eg in G1. apply negb_false_iff in G1.
        rewrite G1, andb_true_r. apply py_eq_sym. exact E'. }
      congruence.
  Qed.

  Lemma dicts_iff : forall rec path q i lkvs j rkvs a a',
    rec_iff rec -> okd (NMap i lkvs) -> okd (NMap j rkvs) -> Guard (NMap i lkvs) (NMap j rkvs) ->
    diff_dicts rec path q (NMap i lkvs) (NMap j rkvs) lkvs rkvs a = Ok a' ->
    SD a' = SD a || negb (E (NMap i lkvs) (NMap j rkvs)).
  Proof.
    intros rec path q i lkvs j rkvs a a' Hrec OL OR HG H.
    rewrite (dict_equiv_iff _ _ _ _ OL OR). cbv zeta.
    pose proof OL as OL0. pose proof OR as OR0.
    pose proof OL as HwL. pose proof OR as HwR.
    destruct (wf_map_inv _ _ HwL) as [Lp [Ln Lw]].
    destruct (wf_map_inv _ _ HwR) as [Rp [Rn Rw]].
    unfold diff_dicts in H. simpl in H. rewrite opt_str_tag_eqb in H.
    destruct (tag_eqb (tag i) (tag j)); simpl in H.
    2:{ inversion H; subst. rewrite !SD_cons. simpl. rewrite orb_true_r. reflexivity. }
    rewrite andb_true_l, negb_involutive.
    match type of H with (bind ?F _ = _) => destruct F as [acc1| |] eqn:EF end; simpl in H; try discriminate.
    inversion H; subst; clear H.
    assert (FS := fun Hs => fold_SD _ (gshared lkvs) rkvs a acc1 Hs EF).
    rewrite SD_news by (intros; reflexivity). rewrite SD_news by (intros; reflexivity).
    rewrite FS.
    - destruct (SD a), (nonempty (filter (fun kv => negb (map_has (fst kv) lkvs)) rkvs)),
               (nonempty (filter (fun kv => negb (map_has (fst kv) rkvs)) lkvs)),
               (existsb (gshared lkvs) rkvs); reflexivity.
    - intros b [k rv] b' Hin Hstep. simpl in Hstep. unfold gshared. simpl.
      assert (Pk : plain_leaf k = true) by (rewrite forallb_forall in Rp; apply (Rp (k, rv) Hin)).
      assert (Hhas : map_has k rkvs = true).
      { rewrite (map_has_hask _ _ Rp Pk). apply (hask_in kkey rkvs (k, rv) Hin). }
      destruct (map_get k lkvs) as [lv|] eqn:Eg.
      + rewrite Hhas in Hstep. destruct (map_get_in _ _ _ Eg) as [kn Hkn].
        eapply Hrec; [ | | | exact Hstep].
        * apply (okd_child (NMap i lkvs)); [auto|]. simpl. apply in_map_iff. exists (kn, lv). auto.
        * apply (okd_child (NMap j rkvs)); [auto|]. simpl. apply in_map_iff. exists (k, rv). auto.
        * eapply (G_map i lkvs j rkvs k rv lv); eauto.
      + inversion Hstep; subst. rewrite orb_false_r. reflexivity.
  Qed.

  (* ---- sets ---- *)
  Lemma set_equiv_iff : forall i lels j rels,
    okd (NSet i lels) -> okd (NSet j rels) ->
    let adds := filter (fun k => negb (set_has k lels)) rels in
    let dels := filter (fun k => negb (set_has k rels)) lels in
    E (NSet i lels) (NSet j rels) = negb (nonempty adds || nonempty dels).
  Proof.
    intros i lels j rels HwL HwR adds dels.
    destruct (wf_set_inv _ _ HwL) as [Lp Ln]. destruct (wf_set_inv _ _ HwR) as [Rp Rn].
    pose proof (wf_set_tag _ _ HwL) as Ti. pose proof (wf_set_tag _ _ HwR) as Tj.
    assert (Ed : dels = dels_of key_val key_val lels rels).
    { unfold dels, dels_of. apply filter_ext_in. intros k Hin.
      assert (Pk : plain_leaf k = true) by (rewrite forallb_forall in Lp; auto).
      rewrite (set_has_hask _ _ Rp Pk). reflexivity. }
    assert (Ea : adds = filter (fun b => negb (hask key_val (key_val b) lels)) rels).
    { unfold adds. apply filter_ext_in. intros k Hin.
      assert (Pk : plain_leaf k = true) by (rewrite forallb_forall in Rp; auto).
      rewrite (set_has_hask _ _ Lp Pk). reflexivity. }
    pose proof (join_lengths key_val key_val lels rels Ln Rn) as J. rewrite <- Ed, <- Ea in J.
    change (E (NSet i lels) (NSet j rels)) with (data_eq (NSet i lels) (NSet j rels)).
    rewrite data_eq_set, Ti, Tj. change (tag_eqb None None) with true. rewrite andb_true_l.
    match goal with |- ?X = _ => destruct X eqn:EE end; symmetry.
    - apply andb_true_iff in EE. destruct EE as [Len F]. apply Nat.eqb_eq in Len. rewrite forallb_forall in F.
      assert (D0 : dels = []).
      { unfold dels. apply filter_nil_iff. intros k Hin. apply negb_false_iff.
        assert (Pk : plain_leaf k = true) by (rewrite forallb_forall in Lp; auto).
        rewrite (set_has_hask _ _ Rp Pk).
        specialize (F k Hin). apply existsb_exists in F. destruct F as [y [Hy X]].
        unfold hask. apply existsb_exists. exists y. split; auto. apply py_eq_sym. exact X. }
      assert (A0 : adds = []).
      { rewrite D0 in J. simpl in J. destruct adds; auto. simpl in J. lia. }
      rewrite D0, A0. reflexivity.
    - apply negb_false_iff.
      destruct (nonempty adds || nonempty dels) eqn:X; auto.
      exfalso. apply orb_false_iff in X. destruct X as [A0 D0].
      assert (A1 : adds = []) by (destruct adds; auto; discriminate).
      assert (D1 : dels = []) by (destruct dels; auto; discriminate).
      rewrite A1, D1 in J. simpl in J.
      assert (T : Nat.eqb (List.length lels) (List.length rels) &&
                  forallb (fun x => existsb (fun y => py_eq (leaf_value x) (leaf_value y)) rels) lels = true).
      { apply andb_true_iff. split; [apply Nat.eqb_eq; lia|].
        apply forallb_forall. intros k Hin.
        assert (Pk : plain_leaf k = true) by (rewrite forallb_forall in Lp; auto).
        pose proof (proj1 (filter_nil_iff _ lels) D1 k Hin) as Hh. apply negb_false_iff in Hh.
        rewrite (set_has_hask _ _ Rp Pk) in Hh. unfold hask in Hh.
        apply existsb_exists in Hh. destruct Hh as [y [Hy X]].
        apply existsb_exists. exists y. split; auto. apply py_eq_sym. exact X. }
      congruence.
  Qed.

  Lemma leaves_equiv : forall a b, plain_leaf a = true -> plain_leaf b = true ->
    py_eq (key_val a) (key_val b) = true -> E a b = true.
  Proof.
    intros a b Pa Pb H.
    destruct (plain_leaf_inv _ Pa) as [i [v [-> Ti]]]. destruct (plain_leaf_inv _ Pb) as [j [w [-> Tj]]].
    simpl in *. rewrite Ti, Tj. simpl. exact H.
  Qed.

  Lemma plain_okd : forall n, plain_leaf n = true -> okd n.
  Proof.
    intros n H. apply wf_plain_leaf; auto.
  Qed.

  Lemma sets_iff : forall rec path q i lels j rels a a',
    rec_iff rec -> okd (NSet i lels) -> okd (NSet j rels) ->
    diff_sets rec path q (NSet i lels) (NSet j rels) lels rels a = Ok a' ->
    SD a' = SD a || negb (E (NSet i lels) (NSet j rels)).
  Proof.
    intros rec path q i lels j rels a a' Hrec OL OR H.
    rewrite (set_equiv_iff _ _ _ _ OL OR). cbv zeta. rewrite negb_involutive.
    pose proof OL as HwL. pose proof OR as HwR.
    destruct (wf_set_inv _ _ HwL) as [Lp Ln]. destruct (wf_set_inv _ _ HwR) as [Rp Rn].
    unfold diff_sets in H.
    match type of H with (bind ?F _ = _) => destruct F as [acc1| |] eqn:EF end; simpl in H; try discriminate.
    inversion H; subst; clear H.
    assert (FS := fun Hs => fold_SD _ (fun _ : node => false) rels a acc1 Hs EF).
    rewrite SD_news by (intros; reflexivity). rewrite SD_news by (intros; reflexivity).
    rewrite FS.
    - assert (Z : existsb (fun _ : node => false) rels = false) by (clear; induction rels; simpl; auto).
      rewrite Z, orb_false_r.
      destruct (SD a), (nonempty (filter (fun k => negb (set_has k lels)) rels)),
               (nonempty (filter (fun k => negb (set_has k rels)) lels)); reflexivity.
    - intros b k b' Hin Hstep. simpl in Hstep. rewrite orb_false_r.
      assert (Pk : plain_leaf k = true) by (rewrite forallb_forall in Rp; auto).
      assert (Hself : set_find k rels = k).
      { rewrite (set_find_findk _ _ Rp Pk), (findk_in key_val rels k Rn Hin). reflexivity. }
      destruct (set_has k lels) eqn:E1; simpl in Hstep.
      + destruct (set_has k rels); simpl in Hstep; [|inversion Hstep; reflexivity].
        rewrite Hself in Hstep.
        pose proof (set_find_in _ _ E1) as Hm.
        assert (Pm : plain_leaf (set_find k lels) = true) by (rewrite forallb_forall in Lp; auto).
        rewrite (Hrec _ _ _ _ _ _ _ _ (plain_okd _ Pm) (plain_okd _ Pk) (G_leaf _ _ Pm Pk) Hstep).
        rewrite leaves_equiv; auto; [rewrite orb_false_r; reflexivity|].
        rewrite (set_find_findk _ _ Lp Pk).
        rewrite (set_has_hask _ _ Lp Pk), hask_findk in E1.
        destruct (findk key_val (key_val k) lels) as [m|] eqn:F; try discriminate.
        apply findk_some in F. tauto.
      + inversion Hstep; reflexivity.
  Qed.

  (* ---- sequences: the positional loop ---- *)
  Lemma zip_iff : forall rec deep path q r0,
    rec_iff rec ->
    forall lels idx rels a a',
      (forall x, In x lels -> okd x) -> (forall y, In y rels -> okd y) ->
      (deep = true -> forall x y, In (x, y) (combine lels rels) -> Guard x y) ->
      zip_go rec deep path q r0 idx lels rels a = Ok a' ->
      SD a' = SD a || negb (forall2b (if deep then E else data_eq) lels rels).
  Proof.
    intros rec deep path q r0 Hrec.
    induction lels as [|le lr IH]; simpl; intros idx rels a a' OL OR HG H.
    - inversion H; subst. rewrite SD_news by (intros; reflexivity).
      destruct rels; simpl; [rewrite orb_false_r; reflexivity | rewrite orb_true_r; reflexivity].
    - destruct rels as [|re rr].
      + assert (HG0 : deep = true -> forall x y, In (x, y) (combine lr []) -> Guard x y).
        { intros _ x y Hxy. rewrite combine_nil in Hxy. contradiction. }
        rewrite (IH (S idx) [] _ _ (fun x Hx => OL x (or_intror Hx)) OR HG0 H).
        rewrite SD_cons. simpl. rewrite orb_true_r. reflexivity.
      + match type of H with (bind ?F _ = _) => destruct F as [a1| |] eqn:EF end; simpl in H; try discriminate.
        rewrite (IH (S idx) rr _ _ (fun x Hx => OL x (or_intror Hx)) (fun x Hx => OR x (or_intror Hx))
                    (fun Hd x y Hxy => HG Hd x y (or_intror Hxy)) H).
        assert (St : SD a1 = SD a || negb ((if deep then E else data_eq) le re)).
        { destruct deep.
          - eapply Hrec; [ | | | exact EF]; [apply OL; left; reflexivity | apply OR; left; reflexivity |].
            apply (HG eq_refl). left; reflexivity.
          - inversion EF; subst. rewrite SD_cons. unfold cmp_entry, nonsame. simpl.
            rewrite <- (okd_eq le re (OL le (or_introl eq_refl)) (OR re (or_introl eq_refl))).
            destruct (val_eq le re); simpl; rewrite ?orb_false_r, ?orb_true_r; reflexivity. }
        rewrite St, negb_andb, orb_assoc. reflexivity.
  Qed.

  (* ---- sequences: the value-synchronised comparer ---- *)
  Lemma synced_iff : forall rec path q r0 lels rels a a',
    rec_iff rec ->
    (forall x, In x lels -> okd x) -> (forall y, In y rels -> okd y) ->
    (forall x y, In x lels -> In y rels -> data_eq x y = true -> Guard x y) ->
    diff_synced path_eq rec path q r0 lels rels a = Ok a' ->
    SD a' = SD a || negb (bag_eqb data_eq lels rels).
  Proof.
    intros rec path q r0 lels rels a a' Hrec OL OR HG H. unfold diff_synced in H.
    destruct (sync_value_accounting lels rels) as [El Pr].
    assert (FS := fun Hs => fold_SD _ (fun p => negb (matched p)) (sync_value lels rels) a a' Hs H).
    rewrite FS; clear FS.
    - f_equal.
      assert (X : existsb (fun p => negb (matched p)) (sync_value lels rels) = negb (forallb matched (sync_value lels rels))).
      { generalize (sync_value lels rels). induction l as [|p r IHl]; simpl; auto. rewrite IHl, negb_andb. reflexivity. }
      rewrite X. f_equal. unfold sync_value. rewrite sync_bag.
      + unfold enumerate. rewrite !enumerate_from_map_snd. reflexivity.
      + unfold enumerate. rewrite !enumerate_from_map_snd. intros x y Hx Hy. apply okd_eq; auto.
    - intros b p b' Hin Hstep.
      destruct p as [[[lidx lele] ridx] rele]. simpl in Hstep.
      destruct lidx as [li|].
      + destruct ridx as [ri|].
        * destruct (pair_elems _ _ _ _ _ _ _ El Pr Hin) as [I1 I2].
          pose proof (sync_value_go_matched _ _ _ _ _ _ Hin) as M.
          rewrite (okd_eq _ _ (OR _ I2) (OL _ I1)) in M.
          pose proof (OL _ I1) as W1. pose proof (OR _ I2) as W2.
          pose proof (data_eq_sym _ _ W2 W1 M) as D.
          pose proof (HG _ _ I1 I2 D) as Gp.
          rewrite (Hrec _ _ _ _ _ _ _ _ (OL _ I1) (OR _ I2) Gp Hstep). simpl.
          rewrite (G_equal _ _ (OL _ I1) (OR _ I2) Gp D). reflexivity.
        * inversion Hstep; subst. rewrite SD_cons. simpl. rewrite ?orb_true_r. reflexivity.
      + destruct (find_delete path_eq (path_add_idx path ridx) b) as [[[d b'']|]| |] eqn:F;
          simpl in Hstep; try discriminate; inversion Hstep; subst; clear Hstep.
        * rewrite SD_cons. simpl. rewrite orb_true_r. reflexivity.
        * rewrite SD_cons. simpl. rewrite orb_true_r. reflexivity.
  Qed.

  (* ---- sequences: the identity-key comparer ---- *)
  Definition kbad (d : bool) (p : spair) : bool :=
    match p with
    | (Some _, le, Some _, re) => negb (if d then E le re else data_eq le re)
    | _ => true
    end.

  Lemma keyed_iff : forall rec d path q i lels j rels a a',
    rec_iff rec -> okd (NSeq i lels) -> okd (NSeq j rels) -> Guard (NSeq i lels) (NSeq j rels) ->
    list_mode am hm rels = LKey d ->
    foldM (key_fold rec d path q (NSeq j rels)) (sync_key cfg (NSeq j rels) lels rels) a = Ok a' ->
    SD a' = SD a || negb (keyed_eqb am hm d lels rels).
  Proof.
    intros rec d path q i lels j rels a a' Hrec OL OR HG HM H.
    assert (CL : forall x, In x lels -> okd x) by (intros x Hx; apply (okd_child _ _ OL); exact Hx).
    assert (CR : forall y, In y rels -> okd y) by (intros y Hy; apply (okd_child _ _ OR); exact Hy).
    destruct (G_key _ _ _ _ _ OL OR HG HM) as [Hc [K [FK [KL [KR GD]]]]].
    set (idf := id_or_none K).
    apply andb_true_iff in KL. destruct KL as [KLs KLn]. apply andb_true_iff in KR. destruct KR as [KRs KRn].
    assert (IdL : forall x, In x lels -> id_val K x = Some (idf x)).
    { intros x Hx. rewrite forallb_forall in KLs. specialize (KLs x Hx). unfold idf, id_or_none.
      destruct (id_val K x); [reflexivity | discriminate]. }
    assert (IdR : forall y, In y rels -> id_val K y = Some (idf y)).
    { intros y Hy. rewrite forallb_forall in KRs. specialize (KRs y Hy). unfold idf, id_or_none.
      destruct (id_val K y); [reflexivity | discriminate]. }
    assert (SI : forall x y, In x lels -> In y rels -> same_id K x y = py_eq (idf x) (idf y)).
    { intros x y Hx Hy. unfold same_id. rewrite (IdL x Hx), (IdR y Hy). reflexivity. }
    (* the synchroniser is the plain match-by-identity *)
    destruct (sync_key_accounting cfg (NSeq j rels) lels rels) as [El Pr].
    assert (Hps : sync_key cfg (NSeq j rels) lels rels = ksync idf (enumerate lels) (enumerate rels)).
    { unfold first_key in FK. destruct rels as [|[|i0 [|[k0 v0] kvs0]| |] rr]; try discriminate FK.
      inversion FK; subst K.
      assert (Pk0 : plain_leaf k0 = true).
      { pose proof (CR (NMap i0 ((k0, v0) :: kvs0)) (or_introl eq_refl)) as W.
        destruct (wf_map_inv _ _ W) as [Kp _]. simpl in Kp. apply andb_true_iff in Kp. tauto. }
      unfold sync_key. rewrite (aoh_diff_key_nokeys _ _ _ _ Hc). simpl fst.
      apply sync_key_go_ksync; auto.
      - intros p Hp. destruct p as [n x]. apply enumerate_nth in Hp. apply nth_error_In in Hp. simpl.
        pose proof (CL x Hp) as W. split; auto.
      - intros p Hp. destruct p as [n y]. apply enumerate_nth in Hp. apply nth_error_In in Hp. simpl.
        pose proof (CR y Hp) as W. split; auto. }
    rewrite Hps in H, El, Pr.
    set (ps := ksync idf (enumerate lels) (enumerate rels)) in *.
    assert (Sh : forall p, In p ps -> shape idf (enumerate lels) (enumerate rels) p).
    { apply ksync_shape; rewrite map_ida_enumerate; assumption. }
    rewrite (fold_SD (key_fold rec d path q (NSeq j rels)) (kbad d) ps a a'); [ | | exact H].
    - f_equal. unfold keyed_eqb. rewrite FK.
      match goal with |- _ = negb ?X => destruct X eqn:EE end; cbn [negb].
      + (* equivalent: every tuple is a matched, equivalent pair *)
        apply andb_true_iff in EE. destruct EE as [Len F]. apply Nat.eqb_eq in Len. rewrite forallb_forall in F.
        assert (Part : forall x, In x lels -> exists y, In y rels /\ py_eq (idf x) (idf y) = true /\
                        (if d then E x y else data_eq x y) = true).
        { intros x Hx. specialize (F x Hx). apply existsb_exists in F. destruct F as [y [Hy X]].
          apply andb_true_iff in X. destruct X as [X1 X2]. rewrite (SI x y Hx Hy) in X1. exists y. auto. }
        apply not_true_is_false. intros Hex. apply existsb_exists in Hex. destruct Hex as [p [Hp Bp]].
        destruct (Sh p Hp) as [li le ri re H1 H2 H3|li le H1 H2|ri re H1 H2].
        * apply enumerate_nth in H1. apply nth_error_In in H1.
          pose proof H2 as H2'. apply enumerate_nth in H2'. apply nth_error_In in H2'.
          destruct (Part le H1) as [y [Hy [Ey Oy]]].
          assert (y = re).
          { apply (keyed_uniq idf rels y re KRn Hy H2').
            eapply py_eq_trans; [apply py_eq_sym; exact Ey | apply py_eq_sym; exact H3]. }
          subst y. simpl in Bp. rewrite Oy in Bp. discriminate.
        * apply enumerate_nth in H1. apply nth_error_In in H1.
          destruct (Part le H1) as [y [Hy [Ey _]]]. destruct (in_enumerate _ _ Hy) as [n Hn].
          assert (hask (ida idf) (idf le) (enumerate rels) = true).
          { unfold hask. apply existsb_exists. exists (n, y). split; auto. unfold ida. simpl. apply py_eq_sym; exact Ey. }
          congruence.
        * pose proof H1 as H1'. apply enumerate_nth in H1'. apply nth_error_In in H1'.
          destruct (keyed_sym idf idf (fun _ _ => True) lels rels KLn KRn Len) with (b := re) as [x [Hx [Ex _]]]; auto.
          { intros x Hx. destruct (Part x Hx) as [y [Hy [Ey _]]]. exists y. auto. }
          destruct (in_enumerate _ _ Hx) as [n Hn].
          assert (hask (ida idf) (idf re) (enumerate lels) = true).
          { unfold hask. apply existsb_exists. exists (n, x). split; auto. }
          congruence.
      + (* not equivalent: otherwise the tuples rebuild the equivalence *)
        destruct (existsb (kbad d) ps) eqn:X; auto. exfalso.
        pose proof (existsb_false_in _ _ X) as Gd.
        assert (Mt : forall p, In p ps -> matched p = true).
        { intros p Hp. specialize (Gd p Hp). destruct p as [[[[n|] x] [m|]] y]; simpl in Gd; try discriminate; reflexivity. }
        destruct (matched_lengths ps Mt) as [L1 L2].
        assert (Len : List.length lels = List.length rels).
        { rewrite El in L1. pose proof (Permutation_length Pr) as L3.
          unfold enumerate in L1, L3. rewrite enumerate_from_length in L1, L3. lia. }
        assert (T : Nat.eqb (List.length lels) (List.length rels) &&
                    forallb (fun x => existsb (fun y => same_id K x y && (if d then E x y else data_eq x y)) rels) lels = true).
        { apply andb_true_iff. split; [apply Nat.eqb_eq; exact Len|].
          apply forallb_forall. intros x Hx. destruct (in_enumerate _ _ Hx) as [n Hn].
          rewrite <- El in Hn. destruct (in_lefts_inv _ _ _ Hn) as [ri [re Hp]].
          pose proof (Gd _ Hp) as Bp. pose proof (Mt _ Hp) as Mp.
          destruct ri as [m|]; try discriminate Mp. simpl in Bp. apply negb_false_iff in Bp.
          pose proof (Sh _ Hp) as S1. inversion S1; subst; clear S1.
          match goal with H2 : In (m, re) (enumerate rels), H3 : py_eq (idf re) (idf x) = true |- _ =>
            apply enumerate_nth in H2; apply nth_error_In in H2;
            apply existsb_exists; exists re; split; auto;
            rewrite (SI x re Hx H2), Bp, andb_true_r; apply py_eq_sym; exact H3 end. }
        congruence.
    - intros b p b' Hin Hstep. pose proof (Sh p Hin) as S0.
      destruct S0 as [li le ri re H1 H2 H3|li le H1 H2|ri re H1 H2]; simpl in Hstep; unfold kbad.
      + apply enumerate_nth in H1. apply nth_error_In in H1. apply enumerate_nth in H2. apply nth_error_In in H2.
        destruct d.
        * eapply Hrec; [apply CL; exact H1 | apply CR; exact H2 | | exact Hstep].
          apply (GD eq_refl); auto. rewrite (SI le re H1 H2). apply py_eq_sym. exact H3.
        * inversion Hstep; subst. rewrite SD_cons. unfold cmp_entry, nonsame. cbn [e_action].
          rewrite <- (okd_eq le re (CL _ H1) (CR _ H2)).
          destruct (val_eq le re); cbn [negb orb]; rewrite ?orb_false_r, ?orb_true_r; reflexivity.
      + inversion Hstep; subst. rewrite SD_cons. simpl. rewrite orb_true_r. reflexivity.
      + inversion Hstep; subst. rewrite SD_cons. simpl. rewrite orb_true_r. reflexivity.
  Qed.

  Lemma lists_iff : forall rec path q i lels j rels par pref a a',
    rec_iff rec -> okd (NSeq i lels) -> okd (NSeq j rels) -> Guard (NSeq i lels) (NSeq j rels) ->
    diff_lists path_eq cfg rec path q (NSeq i lels) (NSeq j rels) lels rels par pref a = Ok a' ->
    SD a' = SD a || negb (E (NSeq i lels) (NSeq j rels)).
  Proof.
    intros rec path q i lels j rels par pref a a' Hrec OL OR HG H.
    assert (CL : forall x, In x lels -> okd x) by (intros x Hx; apply (okd_child _ _ OL); exact Hx).
    assert (CR : forall y, In y rels -> okd y) by (intros y Hy; apply (okd_child _ _ OR); exact Hy).
    rewrite equiv_seq.
    destruct (tag_eqb (tag i) (tag j)) eqn:Tg.
    2:{ unfold diff_lists in H. simpl in H. rewrite opt_str_tag_eqb, Tg in H. simpl in H.
        inversion H; subst. rewrite !SD_cons. simpl. rewrite orb_true_r. reflexivity. }
    rewrite andb_true_l.
    rewrite (lists_dispatch _ _ _ _ _ _ _ (NSeq i lels) _ _ _ _ _ _ Hu) in H
      by (simpl; rewrite opt_str_tag_eqb; exact Tg).
    destruct (list_mode am hm rels) as [[|]| |d] eqn:M.
    - eapply (zip_iff rec true); try eassumption. intros _. eapply G_zip; eauto.
    - eapply (zip_iff rec false); try eassumption. intros X; discriminate X.
    - eapply synced_iff; try eassumption. eapply G_value; eauto.
    - eapply keyed_iff; eassumption.
  Qed.

  Lemma body_iff : forall rec, rec_iff rec -> rec_iff (diff_body path_eq cfg rec).
  Proof.
    intros rec Hrec path q l r par pref a a' OL OR HG H.
    destruct l as [i v|i lkvs|i lels|i lels], r as [j w|j rkvs|j rels|j rels];
      try (match type of H with diff_body _ _ _ _ _ ?l ?r _ _ _ = Ok _ =>
             rewrite (clash_SD path q l r _ a a' H) end; simpl; rewrite orb_true_r; reflexivity);
      simpl in H.
    - inversion H; subst. unfold diff_scalars. rewrite SD_cons.
      change (E (NLeaf i v) (NLeaf j w)) with (data_eq (NLeaf i v) (NLeaf j w)).
      rewrite <- (okd_eq _ _ OL OR). unfold cmp_entry, nonsame. cbn [e_action].
      destruct (val_eq (NLeaf i v) (NLeaf j w)); cbn [negb orb]; rewrite ?orb_false_r, ?orb_true_r; reflexivity.
    - eapply dicts_iff; eauto.
    - eapply lists_iff; eauto.
    - eapply sets_iff; eauto.
  Qed.

  Lemma between_iff : forall fuel, rec_iff (diff_between path_eq cfg fuel).
  Proof.
    induction fuel as [|f IH].
    - intros path q l r par pref a a' _ _ _ H. simpl in H. discriminate.
    - intros path q l r par pref a a' OL OR HG H. simpl in H. eapply body_iff; eauto.
  Qed.

  Theorem compare_to_iff_G : forall L R es,
    wf_doc L = true -> wf_doc R = true -> Guard L R ->
    compare_to path_eq cfg L R = Ok es -> shows_difference es = negb (equiv am hm L R).
  Proof.
    intros L R es HwL HwR HG H. unfold compare_to in H.
    match type of H with (bind ?F _ = _) => destruct F as [acc| |] eqn:EF end; simpl in H; try discriminate.
    inversion H; subst. rewrite SD_rev.
    rewrite (between_iff _ _ _ _ _ _ _ _ _ HwL HwR HG EF). reflexivity.
  Qed.
End Iff.

(* ---- the position / value modes: no guard ---- *)
Theorem compare_to_iff : forall path_eq cfg am hm,
  uniform cfg am hm -> unkeyed hm = true ->
  forall L R es,
    wf_doc L = true -> wf_doc R = true ->
    compare_to path_eq cfg L R = Ok es -> shows_difference es = negb (equiv am hm L R).
Proof.
  intros path_eq cfg am hm Hu Hk L R es HwL HwR H.
  apply (compare_to_iff_G path_eq cfg am hm Hu (fun _ _ => True)); auto.
  - intros x y W1 W2 _ D. apply data_eq_equiv; auto.
  - intros i lels j rels d _ _ _ M. exfalso. exact (list_mode_unkeyed _ _ _ _ Hk M).
Qed.


(* ---- data equality is reflexive (no hypothesis needed) ---- *)
Lemma tag_eqb_refl : forall t, tag_eqb t t = true.
Proof. destruct t; simpl; auto. apply String.eqb_refl. Qed.

Lemma data_eq_refl : forall a, data_eq a a = true.
Proof.
  induction a as [i v|i kvs IH|i els IH|i els IH] using node_ind'.
  - simpl. rewrite tag_eqb_refl, py_eq_refl. reflexivity.
  - rewrite data_eq_map, tag_eqb_refl, Nat.eqb_refl. simpl.
    apply forallb_forall. intros kv Hkv. apply existsb_exists. exists kv. split; auto.
    rewrite py_eq_refl. simpl. rewrite Forall_forall in IH. apply (IH kv Hkv).
  - rewrite data_eq_seq, tag_eqb_refl. simpl.
    induction els as [|x r IHr]; simpl; auto. inversion IH; subst. rewrite H1. simpl. apply IHr; auto.
  - rewrite data_eq_set, tag_eqb_refl, Nat.eqb_refl. simpl.
    apply forallb_forall. intros x Hx. apply existsb_exists. exists x. split; auto. apply py_eq_refl.
Qed.

(* ---- the statements used by Properties/C06.v ---- *)
Lemma nonsame_iff_differ :
  forall path_eq cfg am hm L R es,
    uniform cfg am hm -> unkeyed hm = true ->
    wf_doc L = true -> wf_doc R = true ->
    compare_to path_eq cfg L R = Ok es ->
    shows_difference es = negb (equiv am hm L R).
Proof. intros. eapply compare_to_iff; eauto. Qed.

Lemma nonsame_iff_differ_positional :
  forall path_eq cfg hm L R es,
    uniform cfg ArrPosition hm -> hm = AohPosition \/ hm = AohDpos ->
    wf_doc L = true -> wf_doc R = true ->
    compare_to path_eq cfg L R = Ok es ->
    shows_difference es = negb (data_eq L R).
Proof.
  intros path_eq cfg hm L R es Hu Hm HwL HwR H.
  rewrite <- (equiv_positional hm Hm). eapply compare_to_iff; eauto.
  destruct Hm as [-> | ->]; reflexivity.
Qed.

(* equal documents (one object, or two loads of one text) show no difference *)
Lemma equal_no_difference :
  forall path_eq cfg am hm L R es,
    uniform cfg am hm -> unkeyed hm = true ->
    wf_doc L = true -> wf_doc R = true ->
    data_eq L R = true ->
    compare_to path_eq cfg L R = Ok es -> shows_difference es = false.
Proof.
  intros path_eq cfg am hm L R es Hu Hk HwL HwR He H.
  rewrite (compare_to_iff path_eq cfg am hm Hu Hk L R es HwL HwR H).
  rewrite (data_eq_equiv am hm Hk L R HwL HwR He). reflexivity.
Qed.

Lemma reflexive_no_difference :
  forall path_eq cfg am hm L es,
    uniform cfg am hm -> unkeyed hm = true -> wf_doc L = true ->
    compare_to path_eq cfg L L = Ok es -> shows_difference es = false.
Proof. intros. eapply equal_no_difference; eauto. apply data_eq_refl. Qed.

(* ---- refutation witness ---- *)
(* F4: --aoh key, a record without the identity key: the document differs from itself *)
Definition key_cfg : dcfg := mkdcfg false [] [] (Some "position"%string) (Some "key"%string) None None.
Definition pl_leaf (o : N) (v : pyval) : node := NLeaf (mkinfo o None false None) v.
Definition keyless_doc : node :=
  NSeq (mkinfo 0 None true None)
    [NMap (mkinfo 1 None true None) [(pl_leaf 2 (PStr "a"), pl_leaf 3 (PInt 1))];
     NMap (mkinfo 4 None true None) [(pl_leaf 5 (PStr "b"), pl_leaf 6 (PInt 2))]].

Lemma reflexive_refuted_witness :
  exists cfg d es, uniform cfg ArrPosition AohKey /\ wf_doc d = true /\
    compare_to path_eq_real cfg d d = Ok es /\ shows_difference es = true.
Proof.
  exists key_cfg, keyless_doc.
  eexists. split; [split; intros nc; reflexivity|].
  repeat split; vm_compute; reflexivity.
Qed.
