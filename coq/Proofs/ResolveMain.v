(* Resolve, step 4: assembly.  The text a tool reports for a location, fed back
   into a required query on the same document, yields exactly the node at that
   location:
     resolve_query        the text str() shows / yaml-paths builds, either notation
     resolve_query_orig   the `.original` text Processor and Differ build by append
     resolve_query_canon  str() of that text after the separator was set (what a
                          caller sees who converts the reported path to a notation)
   and the single result reports the append-form text again (closed loop). *)
From Coq Require Import List Ascii String ZArith NArith Bool Arith Lia.
From YP Require Import Outcome PyStr PyVal Doc Generated PathParser PathPrinter Searches Eval C08Spec
     RtStep RtSeg RtInt RtRender RtTables RtCanon PathBuild ResolveWr ResolveText ResolveEval.
Import ListNotations.
Open Scope string_scope.
Open Scope nat_scope.

(* ---- the append form is the generic text with a separator before "[index]" ---- *)
Lemma pb_sepc_first tp : pb_first_not "/"%char tp = true -> pb_sepc tp = "."%char.
Proof. destruct tp as [|c r]; [reflexivity|]. cbn. destruct (Ascii.eqb c "/"%char); [discriminate | reflexivity]. Qed.

Lemma pb_add_nonblank tp sg :
  nonempty tp = true -> has_ns tp = true -> pb_add tp sg = tp ++ String (pb_sepc tp) "" ++ sg.
Proof.
  intros Hn Hh. unfold pb_add. destruct tp as [|c r]; [discriminate Hn|].
  apply normalize_nonblank. apply has_ns_nonblank. rewrite has_ns_app, Hh. reflexivity.
Qed.

Lemma pb_append_pg : forall rest tp,
  nonempty tp = true -> has_ns tp = true -> pb_first_not "/"%char tp = true ->
  forallb (gsafe "."%char) (map gs_of_ref rest) = true ->
  pb_append tp rest = tp ++ pg_go (sec_set Dot) true "."%char false (map gs_of_ref rest).
Proof.
  induction rest as [|r rest IH]; intros tp Hn Hh Hf Hs; [cbn; rewrite app_nil_r_s; reflexivity|].
  cbn [map forallb] in Hs. apply andb_true_iff in Hs. destruct Hs as [Hr Hs].
  cbn [pb_append map pg_go]. rewrite (pb_add_nonblank _ _ Hn Hh), (pb_sepc_first _ Hf).
  rewrite IH; try assumption.
  - rewrite !app_assoc_s. f_equal. cbn [append]. f_equal.
    destruct r as [k|i|k]; cbn [pb_ref_seg gs_of_ref pg_seg gsafe andb negb] in *; try reflexivity;
      rewrite (pb_sepc_first _ Hf); unfold pb_sec; change "."%char with (sep_char Dot);
      rewrite (escape_section_wr Dot _ (safe_key_okbs _ _ Hr)); reflexivity.
  - destruct tp; [discriminate Hn | reflexivity].
  - rewrite has_ns_app, Hh. reflexivity.
  - destruct tp; [discriminate Hn | exact Hf].
Qed.

Theorem build_orig_pg d l :
  pb_safe Dot d l = true ->
  build_orig l = pg_text (sec_set Dot) true Dot (map gs_of_ref l).
Proof.
  intros Hs. pose proof Hs as Hs0. unfold pb_safe in Hs. apply andb_true_iff in Hs. destruct Hs as [Hs H3].
  apply andb_true_iff in Hs. destruct Hs as [_ H2].
  pose proof (safe_go_gsafe _ _ _ H2) as Hg.
  destruct l as [|r rest]; [reflexivity|].
  unfold build_orig, pg_text. change ("" ++ ?x) with x. cbn [pb_append map pg_go].
  cbn [map forallb] in Hg. apply andb_true_iff in Hg. destruct Hg as [Hr Hg].
  assert (Hseg : pb_ref_seg "" r = pg_seg (sec_set Dot) true "."%char true (gs_of_ref r)
                 /\ nonempty (pb_ref_seg "" r) = true /\ has_ns (pb_ref_seg "" r) = true
                 /\ pb_first_not "/"%char (pb_ref_seg "" r) = true).
  { destruct r as [k|i|k]; cbn [pb_ref_seg gs_of_ref pg_seg gsafe pb_sepc pb_first_ok andb negb] in *.
    - apply andb_true_iff in H3. destruct H3 as [F1 F2]. rewrite has_ns_pb in F2. unfold pb_sec in *.
      change "."%char with (sep_char Dot) in F2 |- *.
      rewrite (escape_section_wr Dot _ (safe_key_okbs _ _ Hr)) in F2 |- *.
      repeat split; [| exact F2 | apply wr_first_not; [reflexivity | exact F1]].
      apply wr_nonempty. destruct (safe_key_parts Dot _ Hr) as (N & _). exact N.
    - repeat split.
    - apply andb_true_iff in H3. destruct H3 as [F1 F2]. rewrite has_ns_pb in F2. unfold pb_sec in *.
      change "."%char with (sep_char Dot) in F2 |- *.
      rewrite (escape_section_wr Dot _ (safe_key_okbs _ _ Hr)) in F2 |- *.
      repeat split; [| exact F2 | apply wr_first_not; [reflexivity | exact F1]].
      apply wr_nonempty. destruct (safe_key_parts Dot _ Hr) as (N & _). exact N. }
  destruct Hseg as (E1 & E2 & E3 & E4).
  assert (Ea : pb_add "" (pb_ref_seg "" r) = pb_ref_seg "" r).
  { unfold pb_add. apply normalize_nonblank. apply has_ns_nonblank. exact E3. }
  rewrite Ea, (pb_append_pg rest _ E2 E3 E4 Hg), E1. reflexivity.
Qed.

(* ---- str() of the unescaped parse, with the separator set ---- *)
Lemma T_ks_hard sp' c : mem_ascii c (pb_hard (sep_char sp')) = true -> mem_ascii c (ks sp') = true.
Proof. intros H. destruct sp'; all_ascii c; vm_compute in H; try discriminate H; reflexivity. Qed.

Lemma T_ks_sec c : mem_ascii c (ks Dot) = true -> mem_ascii c (sec_set Dot) = true.
Proof. intros H. all_ascii c; vm_compute in H; try discriminate H; reflexivity. Qed.

Definition canon_set (sp' : sep) (S : list ascii) : list ascii := (rev (ks sp') ++ S)%list.

Lemma stringify_go_pg S sp' : forall l add_sep,
  forallb (fun g => match g with GK k => okb [bs] false k | GI _ => true end) l = true ->
  stringify_go (sep_char sp') add_sep (map (gseg_seg S false) l)
  = pg_go (canon_set sp' S) false (sep_char sp') (negb add_sep) l.
Proof.
  induction l as [|g r IH]; intros add_sep H; [reflexivity|].
  cbn [forallb] in H. apply andb_true_iff in H. destruct H as [Hg Hr].
  cbn [map stringify_go pg_go]. rewrite (IH true Hr). cbn [negb]. f_equal.
  destruct g as [k|z]; cbn [gseg_seg stringify_seg pg_seg keptw attrs_str andb].
  - rewrite T_key_syms. rewrite ensure_wr by (try apply T_key_nobs; exact Hg).
    unfold canon_set. destruct add_sep; reflexivity.
  - reflexivity.
Qed.

Lemma gsafe_okbs sepc l :
  forallb (gsafe sepc) l = true ->
  forallb (fun g => match g with GK k => okb [bs] false k | GI _ => true end) l = true.
Proof.
  intros H. rewrite forallb_forall in *. intros g Hin. specialize (H g Hin).
  destruct g; [eapply safe_key_okbs; exact H | reflexivity].
Qed.

Theorem canon_pg S sepidx sp sp' d l :
  (forall c, mem_ascii c (pb_hard (sep_char sp)) = true -> mem_ascii c S = true) ->
  pb_safe sp d l = true ->
  canon sp' (pg_text S sepidx sp (map gs_of_ref l)) = Ok (pg_text (canon_set sp' S) false sp' (map gs_of_ref l)).
Proof.
  intros Hcov Hs. unfold canon.
  assert (Hg : forallb (gsafe (sep_char sp)) (map gs_of_ref l) = true).
  { unfold pb_safe in Hs. apply andb_true_iff in Hs. destruct Hs as [Hs0 _].
    apply andb_true_iff in Hs0. destruct Hs0 as [_ Hs0]. eapply safe_go_gsafe. exact Hs0. }
  assert (Ha : parse Auto false (pg_text S sepidx sp (map gs_of_ref l)) = Ok (map (gseg_seg S false) (map gs_of_ref l))).
  { rewrite (parse_auto_forced sp).
    - apply pg_parse; [exact Hcov | exact Hg |].
      destruct sp; [apply (pg_first_conditions S sepidx d l Hcov Hs) | apply nonblank_slash_text].
    - intros ->. apply (pg_first_conditions S sepidx d l Hcov Hs).
    - intros ->. eexists. reflexivity. }
  rewrite Ha. cbn [bind]. f_equal. unfold stringify, pg_text. cbn [sepc_of].
  rewrite (stringify_go_pg S sp' _ false (gsafe_okbs _ _ Hg)). destruct sp'; reflexivity.
Qed.

Lemma pg_text_ext S S' sepidx sp l :
  (forall c, mem_ascii c S = mem_ascii c S') -> pg_text S sepidx sp l = pg_text S' sepidx sp l.
Proof.
  intros H. unfold pg_text. f_equal. generalize true as first.
  induction l as [|g r IH]; intros first; [reflexivity|]. cbn [pg_go]. rewrite IH. f_equal.
  destruct g; cbn [pg_seg]; [rewrite (wr_ext S S' H) | ]; reflexivity.
Qed.

(* in dot notation, str() of the reported path IS build_path *)
Theorem canon_orig_dot d l :
  pb_safe Dot d l = true -> canon Dot (build_orig l) = Ok (build_path Dot l).
Proof.
  intros Hs. rewrite (build_orig_pg d l Hs).
  rewrite (canon_pg _ true Dot Dot d l (sec_set_hard Dot) Hs). f_equal.
  assert (Hg : forallb (gsafe (sep_char Dot)) (map gs_of_ref l) = true).
  { unfold pb_safe in Hs. apply andb_true_iff in Hs. destruct Hs as [Hs0 _].
    apply andb_true_iff in Hs0. destruct Hs0 as [_ Hs0]. eapply safe_go_gsafe. exact Hs0. }
  rewrite (build_path_pg Dot l Hg). apply pg_text_ext.
  intros c. unfold canon_set. rewrite mem_app, mem_rev.
  destruct (mem_ascii c (ks Dot)) eqn:E; [rewrite (T_ks_sec c E); reflexivity | reflexivity].
Qed.

Section Query.
Variable lit : string -> outcome litres.
Variable re_search : string -> string -> outcome reres.
Variable nstr : node -> string.
Variable vstr : list rval -> string.
Variable kw_handler : bool -> keyword -> string -> rval -> ctx -> gen rval.
Variable creator : list pseg -> nat -> rval -> ctx -> gen rval.
Notation GR := (get_required lit re_search nstr vstr kw_handler creator).

Lemma safe_parts sp d l :
  pb_safe sp d l = true -> pb_doc_ok d = true /\ ev_ok d l = true.
Proof.
  unfold pb_safe. intros H. apply andb_true_iff in H. destruct H as [H _].
  apply andb_true_iff in H. destruct H as [H1 H2]. split; [exact H1 | eapply safe_go_ev; exact H2].
Qed.

(* the generic form: ANY text of the family resolves *)
Theorem resolve_query_pg S sepidx sp d l n f :
  (forall c, mem_ascii c (pb_hard (sep_char sp)) = true -> mem_ascii c S = true) ->
  lookup d l = Some n -> pb_safe sp d l = true ->
  exists p, prepare (Datatypes.S f) (pg_text S sepidx sp (map gs_of_ref l)) = Ok p
            /\ GR p d = gone (pb_coords d l n).
Proof.
  intros Hcov Hl Hs. destruct (safe_parts sp d l Hs) as [Hd Hok].
  eexists. split; [apply (pg_prepare_safe S sepidx sp d l f Hcov Hs)|].
  apply resolve_eval_psegs; assumption.
Qed.

Theorem resolve_query sp d l n f :
  lookup d l = Some n -> pb_safe sp d l = true ->
  exists p, prepare (Datatypes.S f) (build_path sp l) = Ok p /\ GR p d = gone (pb_coords d l n).
Proof.
  intros Hl Hs. destruct (safe_parts sp d l Hs) as [Hd Hok].
  eexists. split; [apply (resolve_text sp d l f Hs)|]. apply resolve_eval_psegs; assumption.
Qed.

Theorem resolve_query_orig d l n f :
  lookup d l = Some n -> pb_safe Dot d l = true ->
  exists p, prepare (Datatypes.S f) (build_orig l) = Ok p /\ GR p d = gone (pb_coords d l n).
Proof.
  intros Hl Hs. rewrite (build_orig_pg d l Hs).
  apply (resolve_query_pg _ true Dot d l n f (sec_set_hard Dot) Hl Hs).
Qed.

Theorem resolve_query_canon sp' d l n f :
  lookup d l = Some n -> pb_safe Dot d l = true -> pb_safe sp' d l = true ->
  exists t p, canon sp' (build_orig l) = Ok t /\ prepare (Datatypes.S f) t = Ok p
              /\ GR p d = gone (pb_coords d l n).
Proof.
  intros Hl Hs Hs'. rewrite (build_orig_pg d l Hs).
  rewrite (canon_pg _ true Dot sp' d l (sec_set_hard Dot) Hs).
  eexists.
  destruct (resolve_query_pg (canon_set sp' (sec_set Dot)) false sp' d l n f) as (p & H1 & H2); try assumption.
  - intros c Hc. unfold canon_set. rewrite mem_app, mem_rev, (T_ks_hard sp' c Hc). reflexivity.
  - exists p. split; [reflexivity|]. split; assumption.
Qed.

Theorem reported_path_loop d l n f :
  lookup d l = Some n -> pb_safe Dot d l = true ->
  match pb_coords d l n with RCoords _ _ _ path _ => path | _ => "" end = build_orig l
  /\ exists p, prepare (Datatypes.S f) (build_orig l) = Ok p /\ GR p d = gone (pb_coords d l n).
Proof. intros Hl Hs. split; [apply pb_coords_path; exact Hl | apply resolve_query_orig; assumption]. Qed.

Theorem any_result_resolves d l n f (x : rval) par rf path anc :
  x = RCoords (RNode n) par rf path anc -> path = build_orig l ->
  lookup d l = Some n -> pb_safe Dot d l = true ->
  exists p, prepare (Datatypes.S f) path = Ok p /\ GR p d = gone (pb_coords d l n).
Proof. intros _ -> Hl Hs. apply resolve_query_orig; assumption. Qed.
End Query.
