(* C04: the order in which the repaired Processor._delete_nodes (fix 17f9ea8)
   processes the gathered places ALWAYS satisfies the invariant of the loop
   (C04delete.ordered_from): every place once, the positions of one sequence
   strictly decreasing and not negative.  Hence the full theorem: whatever was
   gathered, however often and in whatever order, exactly the located nodes
   are removed. *)
From Coq Require Import List ZArith NArith QArith Bool Lia Arith Sorted.
From YP Require Import Outcome PyStr PyVal Doc Searches Mutate C04spec C04lists C04delete PyValOrder.
Import ListNotations.

(* ---- a well-formed document holds every container identity at most once ---- *)
Lemma objs_in_coids : forall o d n, In n (objs o d) -> In o (coids d).
Proof.
  intros o d. induction d using node_ind'; intros n Hn; simpl in Hn.
  - contradiction.
  - apply in_app_or in Hn. destruct Hn as [Hn|Hn].
    + destruct (N.eqb (oid i) o) eqn:E; [|contradiction]. apply N.eqb_eq in E. simpl. auto.
    + apply in_flat_map in Hn. destruct Hn as [kv [Hkv Hn]]. simpl. right.
      apply in_flat_map. exists kv. split; auto.
      rewrite Forall_forall in H. eapply (proj2 (H kv Hkv)); eauto.
  - apply in_app_or in Hn. destruct Hn as [Hn|Hn].
    + destruct (N.eqb (oid i) o) eqn:E; [|contradiction]. apply N.eqb_eq in E. simpl. auto.
    + apply in_flat_map in Hn. destruct Hn as [c [Hc Hn]]. simpl. right.
      apply in_flat_map. exists c. split; auto.
      rewrite Forall_forall in H. eapply (H c Hc); eauto.
  - destruct (N.eqb (oid i) o) eqn:E; [|contradiction]. apply N.eqb_eq in E. simpl. auto.
Qed.

Lemma NoDup_app_disj : forall A (l1 l2 : list A) x, NoDup (l1 ++ l2) -> In x l1 -> In x l2 -> False.
Proof.
  induction l1 as [|y r IH]; intros l2 x H H1 H2; simpl in *; [contradiction|].
  inversion H; subst. destruct H1 as [->|H1].
  - apply H4. apply in_or_app. auto.
  - eapply IH; eauto.
Qed.

Lemma objs_flat_le1 : forall A (f : A -> node) o l,
  Forall (fun x => NoDup (coids (f x)) -> (length (objs o (f x)) <= 1)%nat) l ->
  NoDup (flat_map (fun x => coids (f x)) l) ->
  (length (flat_map (fun x => objs o (f x)) l) <= 1)%nat.
Proof.
  intros A f o l. induction l as [|x r IH]; intros HF Hnd; simpl; [lia|].
  inversion HF; subst. simpl in Hnd.
  pose proof (NoDup_app_l _ _ _ Hnd) as Hx. pose proof (NoDup_app_r _ _ _ Hnd) as Hr.
  specialize (H1 Hx). specialize (IH H2 Hr).
  rewrite app_length.
  destruct (objs o (f x)) as [|n0 t0] eqn:E0; simpl in *; [lia|].
  destruct (flat_map (fun x0 => objs o (f x0)) r) as [|n1 t1] eqn:E1; simpl in *; [lia|].
  exfalso. eapply (NoDup_app_disj _ _ _ o Hnd).
  - eapply objs_in_coids. rewrite E0. left; reflexivity.
  - assert (Hin : In n1 (flat_map (fun x0 => objs o (f x0)) r)) by (rewrite E1; left; reflexivity).
    apply in_flat_map in Hin. destruct Hin as [y [Hy Hn1]].
    apply in_flat_map. exists y. split; auto. eapply objs_in_coids; eauto.
Qed.

Lemma objs_le1 : forall o d, wf_doc d -> (length (objs o d) <= 1)%nat.
Proof.
  unfold wf_doc. intros o d. induction d using node_ind'; intros Hwf; simpl.
  - lia.
  - simpl in Hwf. inversion Hwf; subst.
    assert (Hrest : (length (flat_map (fun kv => objs o (snd kv)) kvs) <= 1)%nat).
    { apply (objs_flat_le1 _ (fun kv : node * node => snd kv)); auto.
      rewrite Forall_forall in *. intros kv Hkv. apply (proj2 (H kv Hkv)). }
    rewrite app_length. destruct (N.eqb (oid i) o) eqn:E; simpl; [|exact Hrest].
    apply N.eqb_eq in E. subst o.
    destruct (flat_map (fun kv => objs (oid i) (snd kv)) kvs) as [|n1 t1] eqn:E1; simpl; [lia|].
    exfalso. apply H2.
    assert (Hin : In n1 (flat_map (fun kv => objs (oid i) (snd kv)) kvs)) by (rewrite E1; left; reflexivity).
    apply in_flat_map in Hin. destruct Hin as [y [Hy Hn1]].
    apply in_flat_map. exists y. split; auto. eapply objs_in_coids; eauto.
  - simpl in Hwf. inversion Hwf; subst.
    assert (Hrest : (length (flat_map (objs o) els) <= 1)%nat).
    { apply (objs_flat_le1 _ (fun x : node => x)); auto. }
    rewrite app_length. destruct (N.eqb (oid i) o) eqn:E; simpl; [|exact Hrest].
    apply N.eqb_eq in E. subst o.
    destruct (flat_map (objs (oid i)) els) as [|n1 t1] eqn:E1; simpl; [lia|].
    exfalso. apply H2.
    assert (Hin : In n1 (flat_map (objs (oid i)) els)) by (rewrite E1; left; reflexivity).
    apply in_flat_map in Hin. destruct Hin as [y [Hy Hn1]].
    apply in_flat_map. exists y. split; auto. eapply objs_in_coids; eauto.
  - destruct (N.eqb (oid i) o); simpl; lia.
Qed.

(* ---- membership in the targets of a list of coordinates ---- *)
Lemma inT_targets : forall d ps o k,
  inT (targets d ps) o k = true ->
  exists q, In q ps /\ target_of d (fst q) (snd q) = Some (o, k).
Proof.
  intros d ps. induction ps as [|[po r] rest IH]; intros o k H; simpl in H.
  - discriminate.
  - destruct (target_of d po r) as [[o1 i1]|] eqn:E.
    + unfold inT in H. simpl in H. apply orb_true_iff in H. destruct H as [H|H].
      * apply andb_true_iff in H. destruct H as [H1 H2].
        apply N.eqb_eq in H1. apply Nat.eqb_eq in H2. simpl in *. subst.
        exists (po, r). split; [left; reflexivity|exact E].
      * destruct (IH o k H) as [q [Hq1 Hq2]]. exists q. split; [right|]; auto.
    + destruct (IH o k H) as [q [Hq1 Hq2]]. exists q. split; [right|]; auto.
Qed.

Lemma targets_inT : forall d ps q o k,
  In q ps -> target_of d (fst q) (snd q) = Some (o, k) -> inT (targets d ps) o k = true.
Proof.
  intros d ps. induction ps as [|[po r] rest IH]; intros q o k Hin Ht; simpl in *; [contradiction|].
  destruct Hin as [<-|Hin].
  - simpl in Ht. rewrite Ht. unfold inT. simpl. rewrite N.eqb_refl, Nat.eqb_refl. reflexivity.
  - destruct (target_of d po r) as [[o1 i1]|].
    + unfold inT. simpl. apply orb_true_iff. right. apply (IH q o k Hin Ht).
    + apply (IH q o k Hin Ht).
Qed.

(* ---- find_obj is the head of objs ---- *)
Lemma hd_error_app : forall A (a b : list A),
  hd_error (a ++ b) = match hd_error a with Some x => Some x | None => hd_error b end.
Proof. intros A [|x a] b; reflexivity. Qed.

Lemma find_obj_hd : forall o d, find_obj o d = hd_error (objs o d).
Proof.
  intros o d. induction d using node_ind'.
  - reflexivity.
  - simpl. unfold is_obj. simpl. destruct (N.eqb (oid i) o) eqn:E; [reflexivity|]. simpl.
    induction kvs as [|kv r IHr]; simpl; [reflexivity|].
    inversion H; subst. rewrite hd_error_app. rewrite <- (proj2 H2).
    destruct (find_obj o (snd kv)); [reflexivity|]. apply IHr; assumption.
  - simpl. unfold is_obj. simpl. destruct (N.eqb (oid i) o) eqn:E; [reflexivity|]. simpl.
    induction els as [|x r IHr]; simpl; [reflexivity|].
    inversion H; subst. rewrite hd_error_app. rewrite <- H2.
    destruct (find_obj o x); [reflexivity|]. apply IHr; assumption.
  - simpl. unfold is_obj. simpl. destruct (N.eqb (oid i) o); reflexivity.
Qed.

(* ---- a resolved place ---- *)
Definition tgt (d : node) (p : pcoord) : option target := target_of d (pc_parent p) (pc_ref p).

(* the entry (position, place) names child i of the one container n0 with identity o;
   in a sequence the position IS the child's index and the parentref its plain spelling *)
Definition good (d : node) (e : Z * pcoord) : Prop :=
  exists o n0 i,
    pc_parent (snd e) = Some o /\ objs o d = [n0] /\ child_index (pc_ref (snd e)) n0 = Some i /\
    (forall inf els, n0 = NSeq inf els -> fst e = Z.of_nat i /\ pc_ref (snd e) = PInt (Z.of_nat i)).

Lemma good_tgt : forall d (e : Z * pcoord) o n0 i,
  pc_parent (snd e) = Some o -> objs o d = [n0] -> child_index (pc_ref (snd e)) n0 = Some i ->
  tgt d (snd e) = Some (o, i).
Proof. intros d e o n0 i H1 H2 H3. unfold tgt, target_of. rewrite H1, H2, H3. reflexivity. Qed.

Lemma del_place_good : forall d p,
  wf_doc d -> del_located d (pc_pair p) = true ->
  good d (del_place d p) /\ tgt d (snd (del_place d p)) = tgt d p.
Proof.
  intros d [po r] Hwf Hl. unfold del_located, pc_pair in Hl. simpl in Hl.
  unfold target_of in Hl. destruct po as [o|]; [|discriminate].
  pose proof (objs_le1 o d Hwf) as Hle.
  destruct (objs o d) as [|n0 [|n1 t]] eqn:Eo; [discriminate| |simpl in Hle; lia].
  destruct (child_index r n0) as [i|] eqn:Eci; [|discriminate]. clear Hl.
  assert (Hf : find_obj o d = Some n0) by (rewrite find_obj_hd, Eo; reflexivity).
  unfold del_place. cbn [pc_parent pc_ref]. rewrite Hf.
  destruct n0 as [inf v|inf kvs|inf els|inf els].
  - discriminate.
  - cbn iota. split; [|reflexivity].
    exists o, (NMap inf kvs), i. simpl. repeat split; auto; intros; discriminate.
  - simpl in Eci. destruct r as [| |z| | |]; try discriminate. simpl as_index. cbv iota.
    destruct ((0 <=? z)%Z && (z <? Z.of_nat (length els))%Z) eqn:E1.
    + apply andb_true_iff in E1. destruct E1 as [E1 E2]. apply Z.leb_le in E1. apply Z.ltb_lt in E2.
      inversion Eci; subst i.
      replace (z <? 0)%Z with false by (symmetry; apply Z.ltb_ge; lia).
      split.
      * exists o, (NSeq inf els), (Z.to_nat z). simpl. repeat split; auto.
        -- replace ((0 <=? z)%Z && (z <? Z.of_nat (length els))%Z) with true; [reflexivity|].
           symmetry. apply andb_true_iff. split; [apply Z.leb_le|apply Z.ltb_lt]; lia.
        -- rewrite Z2Nat.id by lia. reflexivity.
        -- rewrite Z2Nat.id by lia. reflexivity.
      * reflexivity.
    + destruct ((z <? 0)%Z && (0 <=? z + Z.of_nat (length els))%Z) eqn:E2; [|discriminate].
      apply andb_true_iff in E2. destruct E2 as [E2 E3]. rewrite E2.
      apply Z.ltb_lt in E2. apply Z.leb_le in E3. inversion Eci; subst i.
      set (z' := (z + Z.of_nat (length els))%Z) in *.
      assert (Hc : child_index (PInt z') (NSeq inf els) = Some (Z.to_nat z')).
      { simpl. replace ((0 <=? z')%Z && (z' <? Z.of_nat (length els))%Z) with true; [reflexivity|].
        symmetry. apply andb_true_iff. split; [apply Z.leb_le|apply Z.ltb_lt]; unfold z'; lia. }
      split.
      * exists o, (NSeq inf els), (Z.to_nat z'). cbn [snd fst pc_parent pc_ref]. repeat split; auto;
          rewrite Z2Nat.id by lia; reflexivity.
      * unfold tgt, target_of. cbn [snd pc_parent pc_ref]. rewrite Eo. rewrite Hc.
        simpl. rewrite E1.
        replace ((z <? 0)%Z && (0 <=? z + Z.of_nat (length els))%Z) with true; [reflexivity|].
        symmetry. apply andb_true_iff. split; [apply Z.ltb_lt|apply Z.leb_le]; lia.
  - cbn iota. split; [|reflexivity].
    exists o, (NSet inf els), i. simpl. repeat split; auto; intros; discriminate.
Qed.

(* ---- first_idx ---- *)
Lemma first_idx_ext : forall A (P Q : A -> bool) l, (forall x, P x = Q x) -> first_idx P l = first_idx Q l.
Proof. induction l as [|x r IH]; intros H; simpl; auto. rewrite H, IH; auto. Qed.

Lemma first_idx_sat : forall A (P : A -> bool) l i,
  first_idx P l = Some i -> exists x, nth_error l i = Some x /\ P x = true.
Proof.
  induction l as [|x r IH]; intros i H; simpl in H; [discriminate|].
  destruct (P x) eqn:E.
  - inversion H; subst. exists x. auto.
  - destruct (first_idx P r) as [j|] eqn:Ej; [|discriminate]. inversion H; subst.
    destruct (IH j eq_refl) as [y [Hy1 Hy2]]. exists y. auto.
Qed.

Lemma leaf_eq_congr : forall r r' n, py_eq r r' = true -> leaf_eq r n = leaf_eq r' n.
Proof.
  intros r r' [inf v| | |] H; simpl; auto.
  destruct (py_eq v r) eqn:E.
  - symmetry. eapply py_eq_trans; eauto.
  - destruct (py_eq v r') eqn:E'; auto.
    rewrite (py_eq_sym r r') in H. rewrite (py_eq_trans _ _ _ E' H) in E. discriminate.
Qed.

Lemma leaf_eq_both : forall r r' n, leaf_eq r n = true -> leaf_eq r' n = true -> py_eq r r' = true.
Proof.
  intros r r' [inf v| | |] H1 H2; simpl in *; try discriminate.
  rewrite (py_eq_sym v r) in H1. eapply py_eq_trans; eauto.
Qed.

Lemma py_eq_int : forall a b, py_eq (PInt a) (PInt b) = true -> a = b.
Proof.
  intros a b H. unfold py_eq in H. simpl in H. apply Qeq_bool_iff in H.
  unfold Qeq in H. simpl in H. lia.
Qed.

(* ---- same place <-> same target, for good entries ---- *)
Definition psame (a b : Z * pcoord) : bool := del_same_place (snd a) (snd b).

Lemma psame_sym : forall a b, psame a b = psame b a.
Proof.
  intros [za [pa ra]] [zb [pb rb]]. unfold psame, del_same_place. simpl.
  rewrite (py_eq_sym ra rb). destruct pa, pb; auto. rewrite N.eqb_sym. reflexivity.
Qed.

Lemma psame_refl : forall a, psame a a = true.
Proof.
  intros [za [pa ra]]. unfold psame, del_same_place. simpl. rewrite py_eq_refl.
  destruct pa; auto. rewrite N.eqb_refl. reflexivity.
Qed.

Lemma psame_tgt : forall d a b, good d a -> good d b -> psame a b = true -> tgt d (snd a) = tgt d (snd b).
Proof.
  intros d a b (o & n0 & i & A1 & A2 & A3 & A4) (o' & n0' & i' & B1 & B2 & B3 & B4) H.
  unfold psame, del_same_place in H. rewrite A1, B1 in H. apply andb_true_iff in H. destruct H as [H1 H2].
  apply N.eqb_eq in H1. subst o'. rewrite A2 in B2. inversion B2; subst n0'.
  rewrite (good_tgt d a o n0 i), (good_tgt d b o n0 i'); auto. f_equal. f_equal.
  destruct n0 as [inf v|inf kvs|inf els|inf els].
  - discriminate.
  - simpl in A3, B3.
    rewrite (first_idx_ext _ _ (fun kv => leaf_eq (pc_ref (snd b)) (fst kv))) in A3
      by (intros; apply leaf_eq_congr; exact H2).
    congruence.
  - destruct (A4 inf els eq_refl) as [_ Ea]. destruct (B4 inf els eq_refl) as [_ Eb].
    rewrite Ea, Eb in H2. apply py_eq_int in H2. lia.
  - simpl in A3, B3.
    rewrite (first_idx_ext _ _ (leaf_eq (pc_ref (snd b)))) in A3 by (intros; apply leaf_eq_congr; exact H2).
    congruence.
Qed.

(* two good entries with different places in one non-sequence parent name different children;
   in a sequence, different positions *)
Lemma psame_false_idx : forall d a b o n0 i i',
  pc_parent (snd a) = Some o -> pc_parent (snd b) = Some o -> objs o d = [n0] ->
  child_index (pc_ref (snd a)) n0 = Some i -> child_index (pc_ref (snd b)) n0 = Some i' ->
  (forall inf els, n0 = NSeq inf els -> pc_ref (snd a) = PInt (Z.of_nat i)) ->
  (forall inf els, n0 = NSeq inf els -> pc_ref (snd b) = PInt (Z.of_nat i')) ->
  psame a b = false -> i <> i'.
Proof.
  intros d a b o n0 i i' A1 B1 Ho A3 B3 A4 B4 H Heq. subst i'.
  unfold psame, del_same_place in H. rewrite A1, B1, N.eqb_refl in H. simpl in H.
  destruct n0 as [inf v|inf kvs|inf els|inf els].
  - discriminate.
  - simpl in A3, B3.
    destruct (first_idx_sat _ _ _ _ A3) as [x [Hx1 Hx2]]. destruct (first_idx_sat _ _ _ _ B3) as [y [Hy1 Hy2]].
    rewrite Hx1 in Hy1. inversion Hy1; subst y.
    rewrite (leaf_eq_both _ _ _ Hx2 Hy2) in H. discriminate.
  - rewrite (A4 inf els eq_refl), (B4 inf els eq_refl), py_eq_refl in H. discriminate.
  - simpl in A3, B3.
    destruct (first_idx_sat _ _ _ _ A3) as [x [Hx1 Hx2]]. destruct (first_idx_sat _ _ _ _ B3) as [y [Hy1 Hy2]].
    rewrite Hx1 in Hy1. inversion Hy1; subst y.
    rewrite (leaf_eq_both _ _ _ Hx2 Hy2) in H. discriminate.
Qed.

(* ---- uniq_places ---- *)
Definition pdiff (a b : Z * pcoord) : Prop := psame a b = false.

Lemma pdiff_sym : forall a b, pdiff a b -> pdiff b a.
Proof. unfold pdiff. intros a b H. rewrite psame_sym. exact H. Qed.

Lemma uniq_incl : forall l seen e, In e (uniq_places seen l) -> In e l.
Proof.
  induction l as [|x r IH]; intros seen e H; simpl in *; [contradiction|].
  destruct (existsb (del_same_place (snd x)) seen).
  - right. eapply IH; eauto.
  - destruct H as [->|H]; [left; reflexivity|right; eapply IH; eauto].
Qed.

Lemma uniq_fresh : forall l seen e s,
  In e (uniq_places seen l) -> In s seen -> del_same_place (snd e) s = false.
Proof.
  induction l as [|x r IH]; intros seen e s H Hs; simpl in *; [contradiction|].
  destruct (existsb (del_same_place (snd x)) seen) eqn:E.
  - eapply IH; eauto.
  - destruct H as [<-|H].
    + destruct (del_same_place (snd x) s) eqn:F; auto.
      assert (existsb (del_same_place (snd x)) seen = true) by (apply existsb_exists; exists s; auto).
      congruence.
    + eapply IH; eauto. right. exact Hs.
Qed.

Lemma uniq_sorted : forall l seen, StronglySorted pdiff (uniq_places seen l).
Proof.
  induction l as [|x r IH]; intros seen; simpl; [constructor|].
  destruct (existsb (del_same_place (snd x)) seen); [apply IH|].
  constructor; [apply IH|].
  apply Forall_forall. intros y Hy. apply pdiff_sym. unfold pdiff, psame.
  eapply uniq_fresh; eauto. left; reflexivity.
Qed.

Lemma uniq_cover : forall l seen e,
  In e l ->
  (exists s, In s seen /\ del_same_place (snd e) s = true) \/
  (exists e', In e' (uniq_places seen l) /\ psame e e' = true).
Proof.
  induction l as [|x r IH]; intros seen e H; simpl in *; [contradiction|].
  destruct (existsb (del_same_place (snd x)) seen) eqn:E.
  - destruct H as [->|H]; [|apply IH; auto].
    left. apply existsb_exists in E. exact E.
  - destruct H as [->|H].
    + right. exists e. split; [left; reflexivity|apply psame_refl].
    + destruct (IH (snd x :: seen) e H) as [[s [[<-|Hs] Hs2]]|[e' [He1 He2]]].
      * right. exists x. split; [left; reflexivity|exact Hs2].
      * left. exists s. auto.
      * right. exists e'. split; [right|]; auto.
Qed.

(* ---- the stable sort ---- *)
Lemma ins_In : forall x l e, In e (ins_place x l) <-> e = x \/ In e l.
Proof.
  induction l as [|y r IH]; intros e; simpl.
  - split; intros [H|H]; auto; contradiction.
  - destruct (fst x <? fst y)%Z; simpl; [rewrite IH|]; intuition.
Qed.

Lemma sort_In : forall l e, In e (sort_places l) <-> In e l.
Proof.
  induction l as [|x r IH]; intros e; simpl; [reflexivity|].
  rewrite ins_In, IH. intuition.
Qed.

Definition pge (a b : Z * pcoord) : Prop := (fst b <= fst a)%Z.

Lemma ins_sorted : forall x l, StronglySorted pge l -> StronglySorted pge (ins_place x l).
Proof.
  induction l as [|y r IH]; intros H; simpl.
  - constructor; constructor.
  - inversion H; subst. destruct (fst x <? fst y)%Z eqn:E.
    + apply Z.ltb_lt in E. constructor; [apply IH; assumption|].
      apply Forall_forall. intros e He. apply ins_In in He. destruct He as [->|He].
      * unfold pge. lia.
      * rewrite Forall_forall in H3. apply H3; assumption.
    + apply Z.ltb_ge in E. constructor; [assumption|].
      constructor; [exact E|]. rewrite Forall_forall in *. intros e He.
      specialize (H3 e He). unfold pge in *. lia.
Qed.

Lemma sort_sorted : forall l, StronglySorted pge (sort_places l).
Proof. induction l as [|x r IH]; simpl; [constructor|apply ins_sorted; exact IH]. Qed.

Lemma ins_pdiff : forall x l, StronglySorted pdiff l -> Forall (pdiff x) l -> StronglySorted pdiff (ins_place x l).
Proof.
  induction l as [|y r IH]; intros H HF; simpl.
  - constructor; constructor.
  - inversion H; subst. inversion HF; subst. destruct (fst x <? fst y)%Z.
    + constructor; [apply IH; assumption|].
      apply Forall_forall. intros e He. apply ins_In in He. destruct He as [->|He].
      * apply pdiff_sym. assumption.
      * rewrite Forall_forall in H3. apply H3; assumption.
    + constructor; assumption.
Qed.

Lemma sort_pdiff : forall l, StronglySorted pdiff l -> StronglySorted pdiff (sort_places l).
Proof.
  induction l as [|x r IH]; intros H; simpl; [constructor|].
  inversion H; subst. apply ins_pdiff; [apply IH; assumption|].
  rewrite Forall_forall in *. intros e He. apply (proj1 (sort_In _ _)) in He. apply H3; assumption.
Qed.

Lemma snoc_pdiff : forall l x, StronglySorted pdiff l -> Forall (pdiff x) l -> StronglySorted pdiff (l ++ [x]).
Proof.
  induction l as [|y r IH]; intros x H HF; simpl.
  - constructor; constructor.
  - inversion H; subst. inversion HF; subst. constructor; [apply IH; assumption|].
    apply Forall_forall. intros e He. apply in_app_or in He. destruct He as [He|[<-|[]]].
    + rewrite Forall_forall in H3. apply H3; assumption.
    + apply pdiff_sym. assumption.
Qed.

Lemma rev_pdiff : forall l, StronglySorted pdiff l -> StronglySorted pdiff (rev l).
Proof.
  induction l as [|x r IH]; intros H; simpl; [constructor|].
  inversion H; subst. apply snoc_pdiff; [apply IH; assumption|].
  rewrite Forall_forall in *. intros e He. apply in_rev in He. apply H3; assumption.
Qed.

(* ---- from "sorted by position, places pairwise different, all good" to the loop invariant ---- *)
Definition tcompat (d : node) (T : list target) (e : Z * pcoord) : Prop :=
  forall o n0 i, pc_parent (snd e) = Some o -> objs o d = [n0] -> child_index (pc_ref (snd e)) n0 = Some i ->
  forall k, inT T o k = true -> match n0 with NSeq _ _ => (i < k)%nat | _ => k <> i end.

Lemma ordered_from_sorted : forall d l T,
  Forall (good d) l -> StronglySorted pge l -> StronglySorted pdiff l ->
  Forall (tcompat d T) l ->
  ordered_from d T (map pc_pair (map snd l)) = true.
Proof.
  intros d l. induction l as [|e r IH]; intros T Hg Hs Hd Hc; simpl; [reflexivity|].
  inversion Hg as [|? ? Hge Hgr]; subst. inversion Hs as [|? ? Hsr Hse]; subst.
  inversion Hd as [|? ? Hdr Hde]; subst. inversion Hc as [|? ? Hce Hcr]; subst.
  destruct Hge as (o & n0 & i & A1 & A2 & A3 & A4).
  unfold pc_pair at 1. rewrite A1. apply andb_true_iff. split.
  - (* the step *)
    unfold step_ok. rewrite A2.
    specialize (Hce o n0 i A1 A2 A3).
    destruct n0 as [inf v|inf kvs|inf els|inf els].
    + discriminate.
    + rewrite A3. apply negb_true_iff. destruct (inT T o i) eqn:E; auto.
      exfalso. apply (Hce i E). reflexivity.
    + rewrite A3. destruct (A4 inf els eq_refl) as [_ Er]. rewrite Er. apply andb_true_iff. split.
      * simpl. apply negb_true_iff. apply Z.ltb_ge. lia.
      * apply forallb_forall. intros k Hk. apply in_seq in Hk. apply negb_true_iff.
        destruct (inT T o k) eqn:E; auto. specialize (Hce k E). simpl in Hce. lia.
    + rewrite A3. apply negb_true_iff. destruct (inT T o i) eqn:E; auto.
      exfalso. apply (Hce i E). reflexivity.
  - (* the rest, with the new target *)
    assert (Ht : target_of d (Some o) (pc_ref (snd e)) = Some (o, i)).
    { unfold target_of. rewrite A2, A3. reflexivity. }
    rewrite Ht. apply IH; auto.
    apply Forall_forall. intros e' He'.
    rewrite Forall_forall in Hcr, Hse, Hde, Hgr.
    intros o' n0' i' B1 B2 B3 k Hk.
    rewrite inT_cons in Hk. unfold addT in Hk. apply orb_true_iff in Hk. destruct Hk as [Hk|Hk].
    + apply andb_true_iff in Hk. destruct Hk as [K1 K2]. apply N.eqb_eq in K1. apply Nat.eqb_eq in K2. subst o' k.
      rewrite A2 in B2. inversion B2; subst n0'.
      destruct (Hgr e' He') as (o2 & n2 & i2 & C1 & C2 & C3 & C4).
      rewrite B1 in C1. inversion C1; subst o2. rewrite A2 in C2. inversion C2; subst n2.
      rewrite B3 in C3. inversion C3; subst i2.
      assert (Hne : i <> i').
      { eapply (psame_false_idx d e e' o n0 i i'); eauto.
        - intros inf els En. apply (A4 inf els En).
        - intros inf els En. apply (C4 inf els En).
        - apply Hde. exact He'. }
      destruct n0 as [inf v|inf kvs|inf els|inf els]; auto.
      destruct (A4 inf els eq_refl) as [Ea _]. destruct (C4 inf els eq_refl) as [Ec _].
      specialize (Hse e' He'). unfold pge in Hse. lia.
    + apply (Hcr e' He' o' n0' i' B1 B2 B3 k Hk).
Qed.

(* ---- the plan of the repaired code ---- *)
Definition plan_entries (d : node) (ps : list pcoord) : list (Z * pcoord) :=
  sort_places (rev (uniq_places [] (map (del_place d) ps))).

Lemma del_plan_entries : forall d cs, del_plan d cs = map snd (plan_entries d (leaf_coords cs)).
Proof. reflexivity. Qed.

Lemma located_in : forall d ps p, del_all_located d (map pc_pair ps) = true -> In p ps -> del_located d (pc_pair p) = true.
Proof.
  intros d ps p H Hin. unfold del_all_located in H. rewrite forallb_forall in H. apply H.
  apply in_map. exact Hin.
Qed.

Lemma plan_entry_origin : forall d ps e,
  In e (plan_entries d ps) -> exists p, In p ps /\ e = del_place d p.
Proof.
  intros d ps e H. unfold plan_entries in H. apply (proj1 (sort_In _ _)) in H. apply in_rev in H.
  apply uniq_incl in H. apply in_map_iff in H. destruct H as [p [Hp1 Hp2]]. exists p. auto.
Qed.

Lemma plan_good : forall d ps,
  wf_doc d -> del_all_located d (map pc_pair ps) = true -> Forall (good d) (plan_entries d ps).
Proof.
  intros d ps Hwf Hl. apply Forall_forall. intros e He.
  destruct (plan_entry_origin _ _ _ He) as [p [Hp ->]].
  apply del_place_good; auto. eapply located_in; eauto.
Qed.

Theorem plan_ordered : forall d ps,
  wf_doc d -> del_all_located d (map pc_pair ps) = true ->
  ordered_from d [] (map pc_pair (map snd (plan_entries d ps))) = true.
Proof.
  intros d ps Hwf Hl. apply ordered_from_sorted.
  - apply plan_good; assumption.
  - apply sort_sorted.
  - apply sort_pdiff. apply rev_pdiff. apply uniq_sorted.
  - apply Forall_forall. intros e _ o n0 i _ _ _ k Hk. discriminate.
Qed.

Theorem plan_targets : forall d ps o k,
  wf_doc d -> del_all_located d (map pc_pair ps) = true ->
  inT (targets d (map pc_pair (map snd (plan_entries d ps)))) o k = inT (targets d (map pc_pair ps)) o k.
Proof.
  intros d ps o k Hwf Hl. apply eq_true_iff_eq. split; intros H.
  - destruct (inT_targets _ _ _ _ H) as [q [Hq1 Hq2]].
    apply in_map_iff in Hq1. destruct Hq1 as [pc [<- Hpc]].
    apply in_map_iff in Hpc. destruct Hpc as [e [<- He]].
    destruct (plan_entry_origin _ _ _ He) as [p [Hp ->]].
    destruct (del_place_good d p Hwf (located_in _ _ _ Hl Hp)) as [_ Ht].
    unfold tgt in Ht. unfold pc_pair in Hq2. simpl in Hq2. rewrite Ht in Hq2.
    eapply (targets_inT d _ (pc_pair p)); [apply in_map; exact Hp|exact Hq2].
  - destruct (inT_targets _ _ _ _ H) as [q [Hq1 Hq2]].
    apply in_map_iff in Hq1. destruct Hq1 as [p [<- Hp]].
    destruct (del_place_good d p Hwf (located_in _ _ _ Hl Hp)) as [Hg Ht].
    destruct (uniq_cover (map (del_place d) ps) [] (del_place d p) (in_map _ _ _ Hp))
      as [[s [[] _]]|[e' [He1 He2]]].
    assert (Hin : In e' (plan_entries d ps)).
    { unfold plan_entries. apply sort_In. apply in_rev. rewrite rev_involutive. exact He1. }
    assert (Hg' : good d e').
    { pose proof (plan_good d ps Hwf Hl) as G. rewrite Forall_forall in G. apply G. exact Hin. }
    pose proof (psame_tgt d _ _ Hg Hg' He2) as Hs.
    eapply (targets_inT d _ (pc_pair (snd e'))).
    + apply in_map. apply in_map. exact Hin.
    + unfold pc_pair. simpl. unfold tgt in Hs, Ht. rewrite <- Hs, Ht. exact Hq2.
Qed.

(* a root coordinate locates nothing *)
Lemma located_no_root : forall d ps, del_all_located d (map pc_pair ps) = true -> has_root_coord ps = false.
Proof.
  intros d ps H. unfold has_root_coord. destruct (existsb _ ps) eqn:E; [|reflexivity].
  apply existsb_exists in E. destruct E as [p [Hin Hp]].
  pose proof (located_in d ps p H Hin) as Hl. unfold del_located, pc_pair in Hl. simpl in Hl.
  destruct (pc_parent p); [discriminate|]. simpl in Hl. discriminate.
Qed.

(* THE FULL THEOREM: whatever was gathered - Collector nesting, the same node
   any number of times, any order - if every gathered coordinate locates a
   node, exactly the located nodes are removed and nothing else changes. *)
Theorem delete_exact : forall d cs,
  wf_doc d ->
  del_all_located d (map pc_pair (leaf_coords cs)) = true ->
  delete_nodes cs d = MDone (delete_spec d (map pc_pair (leaf_coords cs))).
Proof.
  intros d cs Hwf Hl. unfold delete_nodes. rewrite (located_no_root d _ Hl). rewrite del_plan_entries.
  rewrite run_del_exact; auto.
  - f_equal. unfold delete_spec. apply prune_ext. intros o _ k. apply plan_targets; assumption.
  - apply plan_ordered; assumption.
Qed.

(* the plain coordinates of a single path without Collectors *)
Lemma leaf_coords_plain : forall ps, leaf_coords (map (fun p => CNode p false) ps) = ps.
Proof. induction ps as [|p r IH]; simpl; auto. unfold leaf_coords in *. simpl. rewrite IH. reflexivity. Qed.

Theorem delete_exact_plain : forall d ps,
  wf_doc d ->
  del_all_located d (map pc_pair ps) = true ->
  delete_nodes (map (fun p => CNode p false) ps) d = MDone (delete_spec d (map pc_pair ps)).
Proof.
  intros d ps Hwf H. pose proof (delete_exact d (map (fun p => CNode p false) ps) Hwf) as G.
  rewrite leaf_coords_plain in G. auto.
Qed.
