(* C01: segment handlers of the model against the declarative segment
   semantics of Spec/SpecC01.v, and exists() against the required query. *)
From Coq Require Import List Ascii String ZArith NArith Bool Arith Lia.
From YP Require Import Outcome PyStr PyVal Doc Generated PathParser PathPrinter Searches Eval SpecC01.
Import ListNotations.
Open Scope string_scope.

(* the document nodes a stream of NodeCoords designates *)
Definition nodes_of (l : list rval) : list node :=
  flat_map (fun x => match x with RCoords (RNode n) _ _ _ _ => [n] | _ => [] end) l.

Lemma nodes_of_app a b : nodes_of (a ++ b) = (nodes_of a ++ nodes_of b)%list.
Proof. unfold nodes_of. apply flat_map_app. Qed.

Lemma gapp_done {A} (l1 l2 : list A) (b : unit -> gen A) :
  b tt = (l2, Done) -> gapp (l1, Done) b = ((l1 ++ l2)%list, Done).
Proof. intros H. unfold gapp. rewrite H. reflexivity. Qed.

Lemma gfor_nodes {A} (l : list A) (f : A -> gen rval) (sel : A -> list node) :
  (forall x, snd (f x) = Done /\ nodes_of (fst (f x)) = sel x) ->
  snd (gfor l f) = Done /\ nodes_of (fst (gfor l f)) = flat_map sel l.
Proof.
  intros H. induction l as [|x r IH]; [split; reflexivity|].
  cbn [gfor flat_map].
  destruct (H x) as [Hs Hn]. destruct (f x) as [lx sx]. simpl snd in Hs. simpl fst in Hn. subst sx.
  destruct IH as [IH1 IH2]. destruct (gfor r f) as [lr sr] eqn:Er. simpl snd in IH1. simpl fst in IH2. subst sr.
  rewrite (gapp_done lx lr) by reflexivity.
  split; [reflexivity|]. simpl fst. rewrite nodes_of_app, Hn, IH2. reflexivity.
Qed.

Lemma flat_map_single {A} (l : list A) : flat_map (fun e => [e]) l = l.
Proof. induction l as [|e r IH]; cbn; [reflexivity | rewrite IH; reflexivity]. Qed.

Lemma flat_map_filter {A} (p : A -> bool) (l : list A) :
  flat_map (fun e => if p e then [e] else []) l = filter p l.
Proof. induction l as [|e r IH]; cbn; [reflexivity | rewrite IH; destruct (p e); reflexivity]. Qed.

(* `[#]` on an array *)
Lemma py_nth_sel (els : list node) (i : Z) :
  ((- Z.of_nat (List.length els) <=? i)%Z && (i <? Z.of_nat (List.length els))%Z)%bool = true ->
  exists e, py_nth (map RNode els) i = Ok (RNode e) /\ sel_element els i = [e].
Proof.
  intros Hb. unfold py_nth, sel_element. rewrite map_length. rewrite Hb.
  apply andb_prop in Hb. destruct Hb as [H1 H2]. apply Z.leb_le in H1. apply Z.ltb_lt in H2.
  set (n := Z.of_nat (List.length els)) in *.
  set (j := if (i <? 0)%Z then (i + n)%Z else i).
  assert (Hj : (0 <= j < n)%Z).
  { unfold j. destruct (i <? 0)%Z eqn:E; [apply Z.ltb_lt in E | apply Z.ltb_ge in E]; lia. }
  assert (E1 : (0 <=? j)%Z = true) by (apply Z.leb_le; lia).
  assert (E2 : (j <? n)%Z = true) by (apply Z.ltb_lt; lia).
  rewrite E1, E2. cbn [andb].
  rewrite nth_error_map.
  destruct (nth_error els (Z.to_nat j)) as [e|] eqn:En; cbn.
  - exists e. split; reflexivity.
  - apply nth_error_None in En. unfold n in Hj. lia.
Qed.

Theorem match_all_children v c (n : node) :
  v = RNode n ->
  let g := match_all_unfiltered v c in
  snd g = Done /\ nodes_of (fst g) = sel_children n.
Proof.
  intros ->. cbn zeta. unfold match_all_unfiltered. destruct n as [i x|i kvs|i els|i els]; cbn [sel_children].
  - split; reflexivity.
  - replace (map snd kvs) with (flat_map (fun kv : node * node => [snd kv]) kvs)
      by (induction kvs as [|kv r IH]; cbn; [reflexivity | rewrite IH; reflexivity]).
    apply gfor_nodes. intros kv. split; reflexivity.
  - unfold elems.
    assert (H : forall k, let g := gfor (enumerate_from k (map RNode els))
                  (fun ie : nat * rval => let '(i0, e) := ie in
                     gone (ncoords e (Some (RNode (NSeq i els))) (Some (PInt (Z.of_nat i0)))
                             (tp_add (x_tp c) (idx_text (Z.of_nat i0)))
                             (x_anc c ++ [(RNode (NSeq i els), PInt (Z.of_nat i0))]))) in
                snd g = Done /\ nodes_of (fst g) = els).
    { generalize (RNode (NSeq i els)) as par. intros par.
      induction els as [|e r IH]; intros k; cbn; [split; reflexivity|].
      specialize (IH (S k)). cbn zeta in IH. destruct IH as [I1 I2].
      destruct (gfor _ _) as [lr sr]. cbn in *. subst sr. split; [reflexivity|]. rewrite I2. reflexivity. }
    apply (H 0).
  - rewrite <- (flat_map_single els) at 3.
    apply gfor_nodes. intros e. split; reflexivity.
Qed.

Theorem by_key_map self k i kvs c :
  let g := by_key self (AStr k) (RNode (NMap i kvs)) c in
  snd g = Done /\ nodes_of (fst g) = sel_key_map k kvs.
Proof.
  cbn zeta. unfold by_key, sel_key_map. cbv zeta. cbn [attrs_str attr_val].
  destruct (assoc_key (PStr k) kvs); [split; reflexivity|].
  destruct (py_int k); [|split; reflexivity].
  destruct (assoc_key (PInt z) kvs); split; reflexivity.
Qed.

Theorem by_anchor_node a v c (n : node) :
  v = RNode n ->
  let g := by_anchor (AStr a) v c in
  snd g = Done /\ nodes_of (fst g) = sel_anchor a n.
Proof.
  intros ->. cbn zeta. unfold by_anchor. cbn [attrs_str].
  destruct n as [i x|i kvs|i els|i els]; cbn [sel_anchor].
  - split; reflexivity.
  - replace (map snd (filter (fun kv => has_anchor a (fst kv) || has_anchor a (snd kv)) kvs))
      with (flat_map (fun kv : node * node => if has_anchor a (fst kv) || has_anchor a (snd kv) then [snd kv] else []) kvs)
      by (induction kvs as [|kv r IH]; cbn; [reflexivity | rewrite IH; destruct (_ || _); reflexivity]).
    apply gfor_nodes. intros kv. unfold node_anchor_is, has_anchor.
    destruct (_ || _); split; reflexivity.
  - unfold elems.
    assert (H : forall k par, let g := gfor (enumerate_from k (map RNode els))
                  (fun ie : nat * rval => let '(i0, e) := ie in
                     if anchor_is a e
                     then gone (ncoords e (Some par) (Some (PInt (Z.of_nat i0)))
                             (tp_add (x_tp c) ("[&" ++ esc_sec a (x_tp c) ++ "]"))
                             (x_anc c ++ [(par, PInt (Z.of_nat i0))]))
                     else gnil) in
                snd g = Done /\ nodes_of (fst g) = filter (has_anchor a) els).
    { induction els as [|e r IH]; intros k par; cbn; [split; reflexivity|].
      specialize (IH (S k) par). cbn zeta in IH. destruct IH as [I1 I2].
      unfold node_anchor_is, has_anchor in *.
      destruct (has_anchor_attr (node_info e) && _); cbn;
        destruct (gfor _ _) as [lr sr]; cbn in *; subst sr; (split; [reflexivity|]); rewrite I2; reflexivity. }
    apply (H 0).
  - rewrite <- (flat_map_filter (has_anchor a) els).
    apply gfor_nodes. intros e. unfold node_anchor_is, has_anchor. destruct (_ && _); split; reflexivity.
Qed.

(* exists(path) answers exactly whether the required query yields a node *)
Section Exists.
Variable lit : string -> outcome litres.
Variable re_search : string -> string -> outcome reres.
Variable nstr : node -> string.
Variable vstr : list rval -> string.
Variable kw_handler : bool -> keyword -> string -> rval -> ctx -> gen rval.
Variable creator : list pseg -> nat -> rval -> ctx -> gen rval.

Theorem exists_iff_required p d b :
  exists_ lit re_search nstr vstr kw_handler creator p d = ([b], Done) ->
  (b = true <-> fst (get_required lit re_search nstr vstr kw_handler creator p d) <> []).
Proof.
  unfold exists_, get_required.
  assert (Hnull : forall (A : Type) (x y : A), True) by auto.
  destruct d as [i v|i kvs|i els|i els]; try destruct v;
    try (intros H; inversion H; subst; cbn; split; [discriminate | intros C; exfalso; apply C; reflexivity]).
  all: destruct p as [segs|e]; try (cbn; intros H; discriminate).
  all: destruct (ev _ _ _ _ _ _ _ _ _ _ _ _) as [l st]; destruct st; try (intros H; discriminate).
  all: intros H; inversion H; subst; destruct l; cbn; split; try discriminate; try reflexivity;
       intros C; try discriminate; exfalso; apply C; reflexivity.
Qed.

End Exists.
