(* C04: the deletion loop of Processor._delete_nodes refines the declarative
   [prune] whenever the places it processes are free of duplicates and
   disorder ([ordered_from], a proof-internal invariant: Proofs/C04plan.v shows
   that the order the repaired code puts them in always is). *)
From Coq Require Import List ZArith NArith Bool Lia Arith.
From YP Require Import Outcome PyStr PyVal Doc Searches Mutate C04spec C04lists.
Import ListNotations.

(* ---- the invariant of the loop ----
   In the order in which the places are processed no node is named twice, the
   positions named in one sequence strictly decrease and are not negative. *)
Definition is_neg (r : pyval) : bool := match r with PInt z => (z <? 0)%Z | _ => false end.

Definition step_ok (d : node) (T : list target) (po : option N) (r : pyval) : bool :=
  match po with
  | None => false
  | Some o =>
      match objs o d with
      | [] => true                                     (* object not in the document: nothing happens *)
      | [n0] =>
          match n0, child_index r n0 with
          | NSeq _ els, Some i => negb (is_neg r) && forallb (fun k => negb (inT T o k)) (seq 0 (S i))
          | NSeq _ els, None => match r with PInt z => true | _ => false end
          | NMap _ _, Some i => negb (inT T o i)
          | NMap _ _, None => true
          | NSet _ _, Some i => negb (inT T o i)
          | NSet _ _, None => false
          | NLeaf _ _, _ => true
          end
      | _ => false
      end
  end.

Fixpoint ordered_from (d : node) (T : list target) (ps : list (option N * pyval)) : bool :=
  match ps with
  | [] => true
  | (po, r) :: rest =>
      step_ok d T po r &&
      ordered_from d (match target_of d po r with Some t => t :: T | None => T end) rest
  end.

(* ---- prune: extensionality and identity ---- *)
Lemma prune_ext : forall T T' d,
  (forall o, In o (coids d) -> forall k, T o k = T' o k) -> prune T d = prune T' d.
Proof.
  intros T T' d. induction d using node_ind'; intros Hx; simpl; auto.
  - f_equal.
    rewrite (filter_from_ext _ (fun k => negb (T (oid i) k)) (fun k => negb (T' (oid i) k)))
      by (intros k; rewrite (Hx (oid i)); simpl; auto).
    f_equal. apply map_ext_in_iff.
    rewrite Forall_forall in H. intros kv Hkv. f_equal.
    apply (proj2 (H kv Hkv)). intros o Ho. apply Hx. simpl. right.
    apply in_flat_map. exists kv; auto.
  - f_equal.
    rewrite (filter_from_ext _ (fun k => negb (T (oid i) k)) (fun k => negb (T' (oid i) k)))
      by (intros k; rewrite (Hx (oid i)); simpl; auto).
    f_equal. apply map_ext_in_iff.
    rewrite Forall_forall in H. intros c Hc.
    apply (H c Hc). intros o Ho. apply Hx. simpl. right.
    apply in_flat_map. exists c; auto.
  - f_equal. apply filter_from_ext. intros k. rewrite (Hx (oid i)); simpl; auto.
Qed.

Lemma prune_none : forall T d, (forall o k, T o k = false) -> prune T d = d.
Proof.
  intros T d HT. induction d using node_ind'; simpl; auto.
  - f_equal. rewrite filter_from_all by (intros; rewrite HT; reflexivity).
    rewrite <- (map_id kvs) at 2. apply map_ext_in_iff.
    rewrite Forall_forall in H. intros [k v] Hkv. simpl. f_equal. apply (proj2 (H _ Hkv)).
  - f_equal. rewrite filter_from_all by (intros; rewrite HT; reflexivity).
    rewrite <- (map_id els) at 2. apply map_ext_in_iff.
    rewrite Forall_forall in H. intros c Hc. apply (H _ Hc).
  - f_equal. apply filter_from_all. intros; rewrite HT; reflexivity.
Qed.

(* ---- objs: members are containers with that identity, inside a wf doc ---- *)
Lemma objs_coid : forall o d n, In n (objs o d) -> coid n = Some o.
Proof.
  intros o d. induction d using node_ind'; intros n Hn; simpl in Hn.
  - contradiction.
  - apply in_app_or in Hn. destruct Hn as [Hn|Hn].
    + destruct (N.eqb (oid i) o) eqn:E; [|contradiction]. destruct Hn as [<-|[]].
      simpl. apply N.eqb_eq in E. congruence.
    + apply in_flat_map in Hn. destruct Hn as [kv [Hkv Hn]].
      rewrite Forall_forall in H. apply (proj2 (H kv Hkv)); auto.
  - apply in_app_or in Hn. destruct Hn as [Hn|Hn].
    + destruct (N.eqb (oid i) o) eqn:E; [|contradiction]. destruct Hn as [<-|[]].
      simpl. apply N.eqb_eq in E. congruence.
    + apply in_flat_map in Hn. destruct Hn as [c [Hc Hn]].
      rewrite Forall_forall in H. apply (H c Hc); auto.
  - destruct (N.eqb (oid i) o) eqn:E; [|contradiction]. destruct Hn as [<-|[]].
    simpl. apply N.eqb_eq in E. congruence.
Qed.

Lemma NoDup_app_l : forall A (l1 l2 : list A), NoDup (l1 ++ l2) -> NoDup l1.
Proof.
  induction l1; intros l2 H; simpl in *; [constructor|]. inversion H; subst.
  constructor; [intro Hc; apply H2; apply in_or_app; auto | eauto].
Qed.
Lemma NoDup_app_r : forall A (l1 l2 : list A), NoDup (l1 ++ l2) -> NoDup l2.
Proof. induction l1; intros l2 H; simpl in *; auto. inversion H; subst. eauto. Qed.

Lemma NoDup_flat_map_in : forall A B (f : A -> list B) l x,
  NoDup (flat_map f l) -> In x l -> NoDup (f x).
Proof.
  induction l as [|y r IH]; intros x H Hx; simpl in *; [contradiction|].
  destruct Hx as [->|Hx].
  - eapply NoDup_app_l; eauto.
  - apply IH; auto. eapply NoDup_app_r; eauto.
Qed.

Lemma objs_wf : forall o d n, wf_doc d -> In n (objs o d) -> wf_doc n.
Proof.
  unfold wf_doc. intros o d. induction d using node_ind'; intros n Hwf Hn; simpl in Hn.
  - contradiction.
  - apply in_app_or in Hn. destruct Hn as [Hn|Hn].
    + destruct (N.eqb (oid i) o); [|contradiction]. destruct Hn as [<-|[]]. exact Hwf.
    + apply in_flat_map in Hn. destruct Hn as [kv [Hkv Hn]].
      rewrite Forall_forall in H. apply (proj2 (H kv Hkv)); auto.
      simpl in Hwf. inversion Hwf; subst.
      apply (NoDup_flat_map_in _ _ (fun kv => coids (snd kv)) kvs kv); auto.
  - apply in_app_or in Hn. destruct Hn as [Hn|Hn].
    + destruct (N.eqb (oid i) o); [|contradiction]. destruct Hn as [<-|[]]. exact Hwf.
    + apply in_flat_map in Hn. destruct Hn as [c [Hc Hn]].
      rewrite Forall_forall in H. apply (H c Hc); auto.
      simpl in Hwf. inversion Hwf; subst.
      apply (NoDup_flat_map_in _ _ coids els c); auto.
  - destruct (N.eqb (oid i) o); [|contradiction]. destruct Hn as [<-|[]]. exact Hwf.
Qed.

(* ---- the global lemma: one object-addressed step on a pruned document ---- *)
Lemma coid_prune : forall T d, coid (prune T d) = coid d.
Proof. intros T [] ; reflexivity. Qed.

Lemma app_obj_prune : forall o f T T' d,
  (forall n0, In n0 (objs o d) -> f (prune T n0) = ROk (prune T' n0)) ->
  (forall o' k, o' <> o -> T' o' k = T o' k) ->
  app_obj o f (prune T d) = ROk (prune T' d).
Proof.
  intros o f T T' d. induction d using node_ind'; intros Hloc Hoth.
  - reflexivity.
  - destruct (N.eqb (oid i) o) eqn:E.
    + assert (Hin : In (NMap i kvs) (objs o (NMap i kvs))) by (simpl; rewrite E; left; reflexivity).
      specialize (Hloc _ Hin).
      simpl. unfold is_obj. simpl. rewrite E. exact Hloc.
    + simpl. unfold is_obj. simpl. rewrite E.
      rewrite (rmapM_filter _ _ _ _ (fun kv => (fst kv, prune T (snd kv))) (fun kv => (fst kv, prune T' (snd kv)))).
      * simpl. f_equal. f_equal. apply filter_from_ext. intros k.
        rewrite Hoth; auto. intro Hc. subst. rewrite N.eqb_refl in E. discriminate.
      * rewrite Forall_forall in *. intros kv Hkv. simpl.
        rewrite (proj2 (H kv Hkv)); auto.
        intros n0 Hn0. apply Hloc. simpl. rewrite E. simpl. apply in_flat_map. exists kv; auto.
  - destruct (N.eqb (oid i) o) eqn:E.
    + assert (Hin : In (NSeq i els) (objs o (NSeq i els))) by (simpl; rewrite E; left; reflexivity).
      specialize (Hloc _ Hin).
      simpl. unfold is_obj. simpl. rewrite E. exact Hloc.
    + simpl. unfold is_obj. simpl. rewrite E.
      rewrite (rmapM_filter _ _ _ _ (prune T) (prune T')).
      * simpl. f_equal. f_equal. apply filter_from_ext. intros k.
        rewrite Hoth; auto. intro Hc. subst. rewrite N.eqb_refl in E. discriminate.
      * rewrite Forall_forall in *. intros c Hc.
        apply (H c Hc); auto.
        intros n0 Hn0. apply Hloc. simpl. rewrite E. simpl. apply in_flat_map. exists c; auto.
  - destruct (N.eqb (oid i) o) eqn:E.
    + assert (Hin : In (NSet i els) (objs o (NSet i els))) by (simpl; rewrite E; left; reflexivity).
      specialize (Hloc _ Hin).
      simpl. unfold is_obj. simpl. rewrite E. exact Hloc.
    + simpl. unfold is_obj. simpl. rewrite E. f_equal. f_equal.
      apply filter_from_ext. intros k.
      rewrite Hoth; auto. intro Hc. subst. rewrite N.eqb_refl in E. discriminate.
Qed.

(* ---- the local lemmas: deleting one child of the (thinned) parent ---- *)
Definition addT (T : N -> nat -> bool) (o : N) (i : nat) : N -> nat -> bool :=
  fun o' k => (N.eqb o' o && Nat.eqb k i) || T o' k.

Lemma addT_keep : forall T o i k,
  negb (addT T o i o k) = negb (T o k) && negb (k =? 0 + i).
Proof.
  intros. unfold addT. rewrite N.eqb_refl. simpl.
  destruct (k =? i), (T o k); reflexivity.
Qed.

Lemma addT_other : forall T o i o' k, o' <> o -> addT T o i o' k = T o' k.
Proof.
  intros. unfold addT. replace (N.eqb o' o) with false; auto.
  symmetry. apply N.eqb_neq. auto.
Qed.

Lemma prune_add_child : forall T o i c, ~ In o (coids c) -> prune (addT T o i) c = prune T c.
Proof.
  intros. apply prune_ext. intros o' Ho' k. apply addT_other. intro; subst; auto.
Qed.

Lemma prune_add_seq : forall T inf els i, wf_doc (NSeq inf els) ->
  prune (addT T (oid inf) i) (NSeq inf els)
  = NSeq inf (filter_from (fun k => negb (T (oid inf) k) && negb (k =? 0 + i)) 0 (map (prune T) els)).
Proof.
  intros T inf els i Hwf. simpl. f_equal.
  rewrite (filter_from_ext _ _ _ _ _ (addT_keep T (oid inf) i)). f_equal.
  apply map_ext_in_iff. intros c Hc. apply prune_add_child.
  unfold wf_doc in Hwf. simpl in Hwf. inversion Hwf; subst. intro Hin. apply H1.
  apply in_flat_map. exists c; auto.
Qed.

Lemma prune_add_map : forall T inf kvs i, wf_doc (NMap inf kvs) ->
  prune (addT T (oid inf) i) (NMap inf kvs)
  = NMap inf (filter_from (fun k => negb (T (oid inf) k) && negb (k =? 0 + i)) 0
                (map (fun kv => (fst kv, prune T (snd kv))) kvs)).
Proof.
  intros T inf kvs i Hwf. simpl. f_equal.
  rewrite (filter_from_ext _ _ _ _ _ (addT_keep T (oid inf) i)). f_equal.
  apply map_ext_in_iff. intros c Hc. f_equal. apply prune_add_child.
  unfold wf_doc in Hwf. simpl in Hwf. inversion Hwf; subst. intro Hin. apply H1.
  apply in_flat_map. exists c; auto.
Qed.

Lemma prune_add_set : forall T inf els i,
  prune (addT T (oid inf) i) (NSet inf els)
  = NSet inf (filter_from (fun k => negb (T (oid inf) k) && negb (k =? 0 + i)) 0 els).
Proof.
  intros. simpl. f_equal. apply filter_from_ext. apply addT_keep.
Qed.

Lemma local_del_seq : forall T inf els r i,
  wf_doc (NSeq inf els) ->
  child_index r (NSeq inf els) = Some i ->
  (forall k, k <= i -> T (oid inf) k = false) ->
  is_neg r = false ->
  del_in r (prune T (NSeq inf els)) = ROk (prune (addT T (oid inf) i) (NSeq inf els)).
Proof.
  intros T inf els r i Hwf Hci Hle Hneg.
  rewrite prune_add_seq by assumption.
  simpl in Hci. destruct r as [| |z| | |]; try discriminate.
  simpl in Hneg. apply Z.ltb_ge in Hneg.
  set (keep := fun k => negb (T (oid inf) k)).
  assert (Hlen : length (map (prune T) els) = length els) by apply map_length.
  destruct ((0 <=? z)%Z && (z <? Z.of_nat (length els))%Z) eqn:E1.
  - apply andb_true_iff in E1. destruct E1 as [E1 E2].
    apply Z.leb_le in E1. apply Z.ltb_lt in E2.
    inversion Hci; subst i. clear Hci.
    destruct (remove_filter_pos _ keep (map (prune T) els) 0 (Z.to_nat z)) as [H1 H2].
    { intros k Hk. unfold keep. rewrite Hle; auto. lia. }
    { rewrite Hlen. lia. }
    unfold del_in, del_index. simpl. fold keep.
    replace (z <? Z.of_nat (length (filter_from keep 0 (map (prune T) els))))%Z with true
      by (symmetry; apply Z.ltb_lt; lia).
    replace (0 <=? z)%Z with true by (symmetry; apply Z.leb_le; lia).
    simpl. rewrite H2. reflexivity.
  - replace (z <? 0)%Z with false in Hci by (symmetry; apply Z.ltb_ge; lia).
    simpl in Hci. discriminate.
Qed.

Lemma local_del_map : forall T inf kvs r i,
  wf_doc (NMap inf kvs) ->
  child_index r (NMap inf kvs) = Some i ->
  T (oid inf) i = false ->
  del_in r (prune T (NMap inf kvs)) = ROk (prune (addT T (oid inf) i) (NMap inf kvs)).
Proof.
  intros T inf kvs r i Hwf Hci HT.
  rewrite prune_add_map by assumption.
  assert (Hf : find_idx (key_is r) kvs = Some i) by (rewrite find_first; exact Hci).
  set (g := fun kv : node * node => (fst kv, prune T (snd kv))).
  set (keep := fun k => negb (T (oid inf) k)).
  assert (Hf' : find_idx (key_is r) (map g kvs) = Some i).
  { rewrite (find_idx_map _ _ (key_is r) (key_is r) g); auto. }
  destruct (remove_filter_find _ (key_is r) keep (map g kvs) 0 i Hf') as [j [Hj1 Hj2]].
  { unfold keep. simpl. rewrite HT. reflexivity. }
  unfold del_in, del_index. simpl. fold g. fold keep. rewrite Hj1. simpl. rewrite Hj2. reflexivity.
Qed.

Lemma local_del_set : forall T inf els r i,
  child_index r (NSet inf els) = Some i ->
  T (oid inf) i = false ->
  del_in r (prune T (NSet inf els)) = ROk (prune (addT T (oid inf) i) (NSet inf els)).
Proof.
  intros T inf els r i Hci HT.
  rewrite prune_add_set.
  assert (Hf : find_idx (member_is r) els = Some i) by (rewrite find_first; exact Hci).
  set (keep := fun k => negb (T (oid inf) k)).
  destruct (remove_filter_find _ (member_is r) keep els 0 i Hf) as [j [Hj1 Hj2]].
  { unfold keep. simpl. rewrite HT. reflexivity. }
  unfold del_in, del_index. simpl. fold keep. rewrite Hj1. simpl. rewrite Hj2. reflexivity.
Qed.

(* no child designated: nothing happens *)
Lemma local_del_none_map : forall T inf kvs r,
  child_index r (NMap inf kvs) = None ->
  del_in r (prune T (NMap inf kvs)) = ROk (prune T (NMap inf kvs)).
Proof.
  intros T inf kvs r Hci.
  assert (Hf : find_idx (key_is r) kvs = None) by (rewrite find_first; exact Hci).
  set (g := fun kv : node * node => (fst kv, prune T (snd kv))).
  unfold del_in, del_index. simpl. fold g.
  rewrite find_none_filter; [reflexivity|].
  rewrite (find_idx_map _ _ (key_is r) (key_is r) g); auto.
Qed.

Lemma local_del_none_seq : forall T inf els z,
  child_index (PInt z) (NSeq inf els) = None ->
  del_in (PInt z) (prune T (NSeq inf els)) = ROk (prune T (NSeq inf els)).
Proof.
  intros T inf els z Hci.
  unfold del_in, del_index. simpl.
  pose proof (filter_from_length_le _ (fun k => negb (T (oid inf) k)) (map (prune T) els) 0) as Hl.
  rewrite map_length in Hl.
  simpl in Hci.
  destruct ((0 <=? z)%Z && (z <? Z.of_nat (length els))%Z) eqn:E1; [discriminate|].
  replace ((0 <=? z)%Z && (z <? Z.of_nat (length (filter_from (fun k => negb (T (oid inf) k)) 0 (map (prune T) els))))%Z)
    with false; [reflexivity|].
  symmetry. apply andb_false_iff. apply andb_false_iff in E1. destruct E1 as [E1|E1]; [left; exact E1|right].
  apply Z.ltb_ge. apply Z.ltb_ge in E1. lia.
Qed.

(* ---- one step of the loop under the guard ---- *)
Definition pc_pair (p : pcoord) : option N * pyval := (pc_parent p, pc_ref p).

Lemma inT_cons : forall o i Tl o' k, inT ((o, i) :: Tl) o' k = addT (inT Tl) o i o' k.
Proof.
  intros. unfold inT, addT. simpl. rewrite (N.eqb_sym o o'), (Nat.eqb_sym i k). reflexivity.
Qed.

Lemma inT_app : forall A B o k, inT (A ++ B) o k = inT A o k || inT B o k.
Proof. intros. unfold inT. apply existsb_app. Qed.

Lemma forallb_seq0 : forall (P : nat -> bool) n,
  forallb P (seq 0 n) = true -> forall k, k < n -> P k = true.
Proof.
  intros P n H k Hk. rewrite forallb_forall in H. apply H. apply in_seq. lia.
Qed.

Lemma del_step_ok : forall d Tl po r,
  wf_doc d -> step_ok d Tl po r = true ->
  del_step (mkpc po r) (prune (inT Tl) d)
  = ROk (prune (inT (match target_of d po r with Some t => t :: Tl | None => Tl end)) d).
Proof.
  intros d Tl po r Hwf Hok.
  destruct po as [o|]; [|discriminate].
  unfold del_step. simpl pc_parent. simpl pc_ref.
  unfold step_ok in Hok. unfold target_of.
  destruct (objs o d) as [|n0 [|n1 rest]] eqn:Eo; [| |discriminate].
  - apply app_obj_prune; auto. intros n0 Hin. rewrite Eo in Hin. contradiction.
  - assert (Hin0 : In n0 (objs o d)) by (rewrite Eo; left; reflexivity).
    pose proof (objs_coid _ _ _ Hin0) as Hc.
    pose proof (objs_wf _ _ _ Hwf Hin0) as Hw0.
    destruct n0 as [inf v|inf kvs|inf els|inf els]; simpl in Hc; [discriminate| | |];
      inversion Hc; subst o; clear Hc.
    + (* mapping *)
      destruct (child_index r (NMap inf kvs)) as [i|] eqn:Eci; simpl option_map.
      * rewrite (prune_ext (inT ((oid inf, i) :: Tl)) (addT (inT Tl) (oid inf) i))
          by (intros; apply inT_cons).
        apply app_obj_prune.
        -- intros n Hn. rewrite Eo in Hn. destruct Hn as [<-|[]].
           apply local_del_map; auto. apply negb_true_iff. exact Hok.
        -- intros. apply addT_other; auto.
      * apply app_obj_prune; auto.
        intros n Hn. rewrite Eo in Hn. destruct Hn as [<-|[]].
        apply local_del_none_map; auto.
    + (* sequence *)
      destruct (child_index r (NSeq inf els)) as [i|] eqn:Eci; simpl option_map.
      * apply andb_true_iff in Hok. destruct Hok as [Hok2 Hok1].
        rewrite (prune_ext (inT ((oid inf, i) :: Tl)) (addT (inT Tl) (oid inf) i))
          by (intros; apply inT_cons).
        apply app_obj_prune.
        -- intros n Hn. rewrite Eo in Hn. destruct Hn as [<-|[]].
           apply local_del_seq; auto.
           ++ intros k Hk. apply negb_true_iff.
              apply (forallb_seq0 (fun k => negb (inT Tl (oid inf) k)) (S i)); auto. lia.
           ++ apply negb_true_iff. exact Hok2.
        -- intros. apply addT_other; auto.
      * destruct r as [| |z| | |]; try discriminate.
        apply app_obj_prune; auto.
        intros n Hn. rewrite Eo in Hn. destruct Hn as [<-|[]].
        apply local_del_none_seq. exact Eci.
    + (* set *)
      destruct (child_index r (NSet inf els)) as [i|] eqn:Eci; simpl option_map; [|discriminate].
      rewrite (prune_ext (inT ((oid inf, i) :: Tl)) (addT (inT Tl) (oid inf) i))
        by (intros; apply inT_cons).
      apply app_obj_prune.
      * intros n Hn. rewrite Eo in Hn. destruct Hn as [<-|[]].
        apply local_del_set; auto. apply negb_true_iff. exact Hok.
      * intros. apply addT_other; auto.
Qed.

(* ---- the whole loop ---- *)
Fixpoint acc_targets (d : node) (Tl : list target) (ps : list (option N * pyval)) : list target :=
  match ps with
  | [] => Tl
  | (po, r) :: rest =>
      acc_targets d (match target_of d po r with Some t => t :: Tl | None => Tl end) rest
  end.

Lemma run_del_acc : forall d ps Tl,
  wf_doc d -> ordered_from d Tl (map pc_pair ps) = true ->
  run_del ps (prune (inT Tl) d) = MDone (prune (inT (acc_targets d Tl (map pc_pair ps))) d).
Proof.
  intros d ps. induction ps as [|p rest IH]; intros Tl Hwf Hord; simpl.
  - reflexivity.
  - destruct p as [po r]. simpl in *. apply andb_true_iff in Hord. destruct Hord as [H1 H2].
    rewrite del_step_ok by assumption. apply IH; assumption.
Qed.

Lemma acc_targets_inT : forall d ps Tl o k,
  inT (acc_targets d Tl ps) o k = inT (targets d ps) o k || inT Tl o k.
Proof.
  intros d ps. induction ps as [|[po r] rest IH]; intros Tl o k; simpl.
  - reflexivity.
  - rewrite IH. destruct (target_of d po r) as [[o1 i1]|]; auto.
    change ((o1, i1) :: targets d rest) with ([(o1, i1)] ++ targets d rest).
    change ((o1, i1) :: Tl) with ([(o1, i1)] ++ Tl).
    rewrite !inT_app.
    destruct (inT (targets d rest) o k), (inT [(o1, i1)] o k), (inT Tl o k); reflexivity.
Qed.

Theorem run_del_exact : forall d ps,
  wf_doc d ->
  ordered_from d [] (map pc_pair ps) = true ->
  run_del ps d = MDone (delete_spec d (map pc_pair ps)).
Proof.
  intros d ps Hwf Hg. unfold delete_spec.
  rewrite <- (prune_none (inT []) d) at 1 by reflexivity.
  rewrite run_del_acc by assumption. f_equal.
  apply prune_ext. intros o _ k. rewrite acc_targets_inT. simpl. apply orb_false_r.
Qed.

(* a root coordinate anywhere among the gathered ones: refused before anything is deleted *)
Lemma has_root_coord_true : forall ps, In None (map pc_parent ps) -> has_root_coord ps = true.
Proof.
  intros ps H. apply in_map_iff in H. destruct H as [p [Hp Hin]].
  unfold has_root_coord. apply existsb_exists. exists p. split; auto. rewrite Hp. reflexivity.
Qed.

Theorem root_refused : forall cs d,
  In None (map pc_parent (leaf_coords cs)) ->
  delete_nodes cs d = Failed d (YPE NoDocument).
Proof. intros cs d H. unfold delete_nodes. rewrite (has_root_coord_true _ H). reflexivity. Qed.

Theorem root_refused_mg : forall mg cs d,
  In None (map pc_parent (leaf_coords cs)) ->
  delete_nodes_mg mg cs d = Failed d (YPE NoDocument).
Proof. intros mg cs d H. unfold delete_nodes_mg. rewrite (has_root_coord_true _ H). reflexivity. Qed.

Lemma nodupb_sound : forall l, nodupb l = true -> NoDup l.
Proof.
  induction l as [|x r IH]; intros H; simpl in *; [constructor|].
  apply andb_true_iff in H. destruct H as [H1 H2]. constructor; auto.
  intro Hin. apply negb_true_iff in H1.
  assert (existsb (N.eqb x) r = true) by (apply existsb_exists; exists x; split; auto; apply N.eqb_refl).
  congruence.
Qed.

Lemma wf_docb_sound : forall d, wf_docb d = true -> wf_doc d.
Proof. intros d H. apply nodupb_sound. exact H. Qed.
