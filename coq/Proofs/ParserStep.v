(* C14: the parser model never ends in a Python crash.
   Invariant: while a regular expression is being captured the demarcation
   stack is non-empty; every pop / [-1] site is guarded by a test that the
   stack is non-empty (or by the invariant). *)
From Coq Require Import List Ascii String ZArith Bool Arith Lia.
From YP Require Import Outcome PyStr Generated PathParser PathPrinter.
Import ListNotations.
Open Scope string_scope.
Open Scope nat_scope.

Definition Inv (s : pst) : Prop := cap_re s = true -> stack s <> [].

(* result of one rule chain: a state satisfying Inv, or a YAML Path error *)
Definition good (o : outcome (pst * bool)) : Prop :=
  match o with
  | Ok (s', _) => Inv s'
  | Raise (YPE _) => True
  | _ => False
  end.

Definition goodst (o : outcome pst) : Prop :=
  match o with
  | Ok s' => Inv s'
  | Raise (YPE _) => True
  | _ => False
  end.

(* ---- side condition over the regenerated keyword table ---- *)
Lemma mem_string_In s l : mem_string s l = true -> In s l.
Proof.
  induction l as [|d r IH]; simpl; [discriminate|].
  destruct (String.eqb s d) eqn:E; [apply String.eqb_eq in E; auto | auto].
Qed.

Definition kw_table_ok : bool :=
  forallb (fun k => match keyword_of_name (upper_str k) with Some _ => true | None => false end)
          g_keywords_list.

Lemma kw_table_ok_true : kw_table_ok = true.
Proof. vm_compute. reflexivity. Qed.

Lemma kw_lookup_ok s : is_keyword s = true -> keyword_of_name (upper_str s) = None -> False.
Proof.
  intros H1 H2. apply mem_string_In in H1.
  pose proof kw_table_ok_true as T. unfold kw_table_ok in T.
  rewrite forallb_forall in T. specialize (T _ H1). rewrite H2 in T. discriminate.
Qed.

(* ---- helper functions never crash ---- *)
Lemma splat_regex_ok s b acc : ok_or_ype (splat_regex s b acc).
Proof.
  revert b acc; induction s as [|c r IH]; intros b acc; simpl.
  - left; eauto.
  - destruct (Ascii.eqb c star); [destruct b; [right; eauto | apply IH] | apply IH].
Qed.

Lemma expand_splats_ok id ty : ok_or_ype (expand_splats id ty).
Proof.
  unfold expand_splats.
  repeat match goal with |- context[if ?b then _ else _] => destruct b end;
    try (left; eauto; fail).
  destruct (splat_regex_ok id false "^") as [[a ->]|[k ->]]; simpl; [left|right]; eauto.
Qed.

Lemma flush_expand_spec s :
  (exists s', flush_expand s = Ok s' /\ stack s' = stack s /\ cap_re s' = cap_re s)
  \/ (exists k, flush_expand s = Raise (YPE k)).
Proof.
  unfold flush_expand. destruct (nonempty (sid s)).
  - destruct (expand_splats_ok (sid s) (key_if_none (stype s))) as [[a ->]|[k ->]]; simpl.
    + left; eexists; split; [reflexivity|]; simpl; auto.
    + right; eauto.
  - left; eauto.
Qed.

Lemma bottom_of_cons t l : exists b, bottom_of (t :: l) = Ok b.
Proof.
  revert t; induction l as [|u r IH]; intros t; [eexists; reflexivity|].
  destruct (IH u) as [b E]. exists b. exact E.
Qed.

(* ---- the per-character step preserves the invariant ---- *)
Ltac use_flush :=
  match goal with
  | |- context[flush_expand ?s] =>
      let s' := fresh "fs" in let k := fresh "k" in
      let E := fresh "E" in let E1 := fresh "E" in let E2 := fresh "E" in
      destruct (flush_expand_spec s) as [[s' [E [E1 E2]]]|[k E]]; rewrite E; clear E;
      [destruct s'; simpl in E1, E2; subst | ]
  end.

Ltac use_bottom :=
  match goal with
  | |- context[bottom_of (?t :: ?l)] =>
      let b := fresh "b" in let E := fresh "E" in
      destruct (bottom_of_cons t l) as [b E]; rewrite E; clear E
  end.

Ltac crunch :=
  repeat (cbn -[is_keyword keyword_of_name upper_str py_int undemarcate mem_ascii flush_expand
                Nat.ltb Nat.eqb Ascii.eqb nonempty str_in bottom_of] in *;
          first
          [ use_flush
          | use_bottom
          | progress unfold take_attr in *
          | match goal with
            | H : is_keyword ?x = true, H2 : keyword_of_name (upper_str ?x) = None |- _ =>
                exfalso; exact (kw_lookup_ok _ H H2)
            | |- context[match keyword_of_name ?x with _ => _ end] => destruct (keyword_of_name x) eqn:?
            | |- context[match py_int ?x with _ => _ end] => destruct (py_int x) eqn:?
            | |- context[if ?b then _ else _] => destruct b eqn:?
            | |- context[match ?x with Some _ => _ | None => _ end] => destruct x eqn:?
            | |- context[match ?x with MContains => _ | _ => _ end] => destruct x eqn:?
            | |- context[match ?x with TAnchor => _ | _ => _ end] => destruct x eqn:?
            end ]).

Ltac finish :=
  cbn in *; unfold Inv; cbn; try exact I; try (intros; congruence);
  try (intros; discriminate).

Lemma length_ltb_1_nil {A} (l : list A) : (List.length l <? 1) = true -> l = [].
Proof. destruct l; simpl; [auto|discriminate]. Qed.

Lemma first_rule_good strip sepc s c :
  Inv s -> dcount s = List.length (stack s) -> good (first_rule (rules strip sepc) s c).
Proof.
  intros HI Hd. destruct s as [segs0 sid0 stype0 stk esc0 sinv0 smeth0 sattr0 skw0 seekre0 cap0
                               clevel0 copr0 seekcop0 ncmb0 seekanc0 dc td0].
  unfold Inv in HI. simpl in HI, Hd. subst dc.
  destruct cap0.
  - (* capturing a regex: the stack is non-empty *)
    destruct stk as [|t stk]; [exfalso; apply HI; reflexivity|]. clear HI.
    unfold rules, first_rule, good.
    destruct esc0; cbn; [unfold Inv; cbn; intros; discriminate|].
    destruct (Ascii.eqb c t); cbn; unfold Inv; cbn; intros; discriminate.
  - clear HI.
    destruct stk as [|t stk]; unfold rules, first_rule, good; crunch; finish.
Qed.

