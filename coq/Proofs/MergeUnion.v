(* C05: the Hash union (_merge_dicts under hashes=deep) for all inputs.
   Loop invariant over (lhs items, insertion buffer, buffer_pos):
   - the items whose key the LEFT Hash has are the left items' key objects in
     their order;
   - the other items, followed by the buffer, are the right-only items seen so
     far, in the right-hand order, with their right-hand values;
   - everything from index buffer_pos on is a left item (so a flushed buffer
     lands behind everything flushed earlier);
   - lookups: keys not seen yet read the left value; common keys seen read the
     policy-defined merge; right-only keys seen read the right value. *)
From Coq Require Import List Ascii String ZArith QArith NArith Bool Lia.
From YP Require Import Outcome PyStr PyVal Doc PathParser Searches PyValOrder MergeConfig Merge SpecC05 SpecC05Union
  MergeHash MergeNoCrash.
Import ListNotations.
Open Scope string_scope.
Open Scope list_scope.

Definition keyof (kv : node * node) : pyval := key_val (fst kv).
Definition leafkeys (l : list (node * node)) : Prop := Forall (fun kv => is_leaf (fst kv) = true) l.

Lemma leafkeys_of_bool : forall l, mg_keys_leaf l = true -> leafkeys l.
Proof. intros l H. unfold mg_keys_leaf in H. rewrite forallb_forall in H. apply Forall_forall. exact H. Qed.

Lemma py_eq_congr_r : forall a b c, py_eq a b = true -> py_eq c a = py_eq c b.
Proof.
  intros a b c H. destruct (py_eq c a) eqn:E1.
  - symmetry. eapply py_eq_trans; eauto.
  - destruct (py_eq c b) eqn:E2; [|reflexivity].
    rewrite py_eq_sym in H. rewrite (py_eq_trans _ _ _ E2 H) in E1. discriminate.
Qed.

Lemma py_eq_congr_l : forall a b c, py_eq a b = true -> py_eq a c = py_eq b c.
Proof. intros a b c H. rewrite (py_eq_sym a c), (py_eq_sym b c). now apply py_eq_congr_r. Qed.

(* ---------- assoc_key ---------- *)
Lemma assoc_app : forall k a b,
  assoc_key k (a ++ b) = match assoc_key k a with Some v => Some v | None => assoc_key k b end.
Proof.
  intros k a b. induction a as [|[kn v] r IH]; simpl; [reflexivity|].
  destruct kn; auto. destruct (py_eq v0 k); auto.
Qed.

Lemma assoc_congr : forall k k' l, py_eq k k' = true -> assoc_key k l = assoc_key k' l.
Proof.
  intros k k' l H. induction l as [|[kn v] r IH]; simpl; [reflexivity|].
  destruct kn; auto. rewrite (py_eq_congr_r _ _ v0 H). destruct (py_eq v0 k'); auto.
Qed.

Lemma assoc_single : forall k kv, is_leaf (fst kv) = true ->
  assoc_key k [kv] = if py_eq (keyof kv) k then Some (snd kv) else None.
Proof. intros k [kn v] H. destruct kn; try discriminate. reflexivity. Qed.

Lemma named_keys_of_cons : forall kv l k,
  named (keys_of (kv :: l)) k = py_eq k (keyof kv) || named (keys_of l) k.
Proof. reflexivity. Qed.

Lemma assoc_none_named : forall k l, leafkeys l -> assoc_key k l = None -> named (keys_of l) k = false.
Proof.
  intros k l HL. induction HL as [|[kn v] r Hk HL IH]; intros H; [reflexivity|].
  rewrite named_keys_of_cons. simpl in Hk. destruct kn; try discriminate. simpl in H.
  unfold keyof; simpl. rewrite py_eq_sym. destruct (py_eq v0 k); [discriminate|]. simpl. auto.
Qed.

Lemma named_assoc : forall k l, leafkeys l -> named (keys_of l) k = true -> assoc_key k l <> None.
Proof.
  intros k l HL H E. rewrite (assoc_none_named k l HL E) in H. discriminate.
Qed.

Lemma assoc_named : forall k l, assoc_key k l <> None -> named (keys_of l) k = true.
Proof.
  intros k l. induction l as [|[kn v] r IH]; intros H; [simpl in H; congruence|].
  rewrite named_keys_of_cons. destruct kn; simpl in H; try (rewrite IH by exact H; apply orb_true_r).
  unfold keyof; simpl. rewrite py_eq_sym. destruct (py_eq v0 k); [reflexivity|]. simpl. auto.
Qed.

Lemma named_congr : forall ks k k', py_eq k k' = true -> named ks k = named ks k'.
Proof.
  intros ks k k' H. unfold named. induction ks as [|x r IH]; simpl; [reflexivity|].
  rewrite (py_eq_congr_l _ _ x H), IH. reflexivity.
Qed.

Lemma named_app : forall a b k, named (a ++ b) k = named a k || named b k.
Proof. intros. unfold named. apply existsb_app. Qed.

Lemma keys_of_app : forall a b, keys_of (a ++ b) = keys_of a ++ keys_of b.
Proof. intros. unfold keys_of. apply map_app. Qed.

Lemma set_val_assoc : forall k v k' l,
  assoc_key k' (set_val k v l) =
  if py_eq k' k then match assoc_key k l with Some _ => Some v | None => None end else assoc_key k' l.
Proof.
  intros k v k' l. induction l as [|[kn old] r IH]; simpl.
  - destruct (py_eq k' k); reflexivity.
  - destruct kn as [ki kv| | |]; simpl; try exact IH.
    destruct (py_eq k' k) eqn:E.
    + rewrite <- (py_eq_congr_r _ _ kv E). destruct (py_eq kv k') eqn:E1; simpl; rewrite E1; auto.
    + destruct (py_eq kv k) eqn:E1; simpl.
      * assert (E2 : py_eq kv k' = false).
        { destruct (py_eq kv k') eqn:E2; [|reflexivity].
          rewrite py_eq_sym in E2. rewrite (py_eq_trans _ _ _ E2 E1) in E. discriminate. }
        rewrite E2. reflexivity.
      * destruct (py_eq kv k'); auto.
Qed.

Lemma set_val_same : forall k lv l, assoc_key k l = Some lv -> set_val k lv l = l.
Proof.
  intros k lv l. induction l as [|[kn old] r IH]; simpl; intros H; [reflexivity|].
  destruct kn as [ki kv| | |]; simpl in *; try (rewrite IH by exact H; reflexivity).
  destruct (py_eq kv k); [inversion H; reflexivity|]. rewrite IH by exact H. reflexivity.
Qed.

Lemma set_val_fst : forall k v l, map fst (set_val k v l) = map fst l.
Proof.
  intros k v l. induction l as [|[kn old] r IH]; simpl; [reflexivity|].
  destruct kn as [ki kv| | |]; simpl; try (rewrite IH; reflexivity).
  destruct (py_eq kv k); simpl; [reflexivity|]. rewrite IH. reflexivity.
Qed.

Lemma insert_assoc : forall k' p kv l,
  is_leaf (fst kv) = true -> assoc_key (keyof kv) l = None ->
  assoc_key k' (insert_at p kv l) = assoc_key k' (l ++ [kv]).
Proof.
  intros k' p kv l Hk Ha. unfold insert_at.
  rewrite <- (firstn_skipn p l) in Ha at 1. rewrite <- (firstn_skipn p l) at 3.
  generalize dependent (skipn p l). generalize (firstn p l). intros a b Ha.
  rewrite assoc_app in Ha. rewrite <- app_assoc. rewrite !assoc_app.
  change (kv :: b) with ([kv] ++ b). rewrite assoc_app. rewrite (assoc_single _ _ Hk).
  destruct (assoc_key k' a) eqn:Ea; [reflexivity|].
  destruct (py_eq (keyof kv) k') eqn:E.
  - rewrite <- (assoc_congr _ _ b E). rewrite <- (assoc_congr _ _ a E) in Ea.
    rewrite Ea in Ha. rewrite Ha. reflexivity.
  - destruct (assoc_key k' b); reflexivity.
Qed.

(* ---------- buffered keys are new ---------- *)
Fixpoint fresh_buf (kvs buf : list (node * node)) : Prop :=
  match buf with
  | [] => True
  | kv :: r => assoc_key (keyof kv) kvs = None /\ fresh_buf (kvs ++ [kv]) r
  end.

Lemma fresh_buf_ext : forall buf kvs kvs',
  (forall k, assoc_key k kvs = assoc_key k kvs') -> fresh_buf kvs buf -> fresh_buf kvs' buf.
Proof.
  induction buf as [|kv r IH]; intros kvs kvs' He H; [exact I|].
  destruct H as [H1 H2]. split; [now rewrite <- He|].
  apply (IH (kvs ++ [kv])); [|exact H2]. intros k. rewrite !assoc_app, He. reflexivity.
Qed.

Lemma fresh_buf_snoc : forall buf kvs kv,
  fresh_buf kvs buf -> assoc_key (keyof kv) (kvs ++ buf) = None -> fresh_buf kvs (buf ++ [kv]).
Proof.
  induction buf as [|x r IH]; intros kvs kv H Ha; simpl.
  - rewrite app_nil_r in Ha. auto.
  - destruct H as [H1 H2]. split; [exact H1|]. apply IH; [exact H2|].
    rewrite <- app_assoc. exact Ha.
Qed.

Lemma flush_assoc : forall buf pos kvs k,
  leafkeys buf -> fresh_buf kvs buf ->
  assoc_key k (fst (flush buf pos kvs)) = assoc_key k (kvs ++ buf).
Proof.
  induction buf as [|kv r IH]; intros pos kvs k HL HF; simpl.
  - now rewrite app_nil_r.
  - inversion HL as [|? ? Hk HL']; subst. destruct HF as [H1 H2].
    rewrite IH; [| assumption |].
    + rewrite assoc_app, (insert_assoc _ _ _ _ Hk H1), <- assoc_app, <- app_assoc. reflexivity.
    + apply (fresh_buf_ext r (kvs ++ [kv])); [|exact H2]. intros k0. symmetry. now apply insert_assoc.
Qed.

(* ---------- the order: what the insertion buffer does ---------- *)
Section Order.
Variable L : list pyval.        (* the keys of the left Hash *)

Definition inL (kv : node * node) : bool := named L (keyof kv).
Definition inLk (kn : node) : bool := named L (key_val kn).

Lemma unnamed_is_filter : forall l, unnamed_part L l = filter (fun kv => negb (inL kv)) l.
Proof. reflexivity. Qed.

Lemma named_keys_is_filter : forall l, named_keys L l = filter inLk (map fst l).
Proof. reflexivity. Qed.

Lemma filter_none {A} (f : A -> bool) : forall l, Forall (fun x => f x = false) l -> filter f l = [].
Proof. induction 1; simpl; [reflexivity|]. now rewrite H. Qed.

Lemma filter_all {A} (f : A -> bool) : forall l, Forall (fun x => f x = true) l -> filter f l = l.
Proof. induction 1; simpl; [reflexivity|]. rewrite H. now f_equal. Qed.

Lemma Forall_skipn {A} (P : A -> Prop) : forall n l, Forall P l -> Forall P (skipn n l).
Proof.
  induction n as [|n IH]; intros l H; [exact H|]. destruct l; [constructor|]. inversion H; subst. simpl. auto.
Qed.

Lemma skipn_skipn {A} : forall n m (l : list A), skipn n (skipn m l) = skipn (m + n) l.
Proof.
  intros n m. revert n. induction m as [|m IH]; intros n l; [reflexivity|].
  destruct l; simpl; [now destruct n|]. apply IH.
Qed.

(* inserting a new (not-left) item at a position behind which only left items lie *)
Lemma insert_order : forall p kv l,
  inL kv = false -> Forall (fun x => inL x = true) (skipn p l) ->
  named_keys L (insert_at p kv l) = named_keys L l /\
  unnamed_part L (insert_at p kv l) = unnamed_part L l ++ [kv] /\
  Forall (fun x => inL x = true) (skipn (S p) (insert_at p kv l)).
Proof.
  intros p kv l Hkv Ht. unfold insert_at. repeat split.
  - rewrite !named_keys_is_filter. rewrite map_app. simpl map. rewrite filter_app. simpl filter.
    change (inLk (fst kv)) with (inL kv). rewrite Hkv.
    rewrite <- filter_app, <- map_app, firstn_skipn. reflexivity.
  - rewrite unnamed_app. simpl unnamed_part at 2.
    change (named L match fst kv with NLeaf _ k => k | _ => PNone end) with (inL kv). rewrite Hkv. simpl.
    assert (E : unnamed_part L (skipn p l) = []).
    { rewrite unnamed_is_filter. apply filter_none. eapply Forall_impl; [|exact Ht]. intros x Hx. simpl in Hx. now rewrite Hx. }
    rewrite E. rewrite <- (firstn_skipn p l) at 2. rewrite unnamed_app, E, app_nil_r. reflexivity.
  - rewrite skipn_app. 
    assert (Hlen : List.length (firstn p l) <= p) by (rewrite firstn_length; lia).
    rewrite (skipn_all2 (firstn p l)) by lia.
    replace (S p - List.length (firstn p l)) with (S (p - List.length (firstn p l))) by lia.
    cbn [app skipn]. apply Forall_skipn. exact Ht.
Qed.

Lemma flush_order : forall buf pos l,
  Forall (fun x => inL x = false) buf -> Forall (fun x => inL x = true) (skipn pos l) ->
  named_keys L (fst (flush buf pos l)) = named_keys L l /\
  unnamed_part L (fst (flush buf pos l)) = unnamed_part L l ++ buf /\
  Forall (fun x => inL x = true) (skipn (snd (flush buf pos l)) (fst (flush buf pos l))).
Proof.
  induction buf as [|kv r IH]; intros pos l Hb Ht; simpl.
  - rewrite app_nil_r. auto.
  - inversion Hb; subst. destruct (insert_order pos kv l H1 Ht) as [A [B C]].
    destruct (IH (S pos) (insert_at pos kv l) H2 C) as [A' [B' C']].
    repeat split; [congruence| |exact C']. rewrite B', B, <- app_assoc. reflexivity.
Qed.

Lemma set_val_order : forall k v l n,
  named L k = true ->
  named_keys L (set_val k v l) = named_keys L l /\
  unnamed_part L (set_val k v l) = unnamed_part L l /\
  (Forall (fun x => inL x = true) (skipn n l) -> Forall (fun x => inL x = true) (skipn n (set_val k v l))).
Proof.
  intros k v l n Hk. repeat split.
  - rewrite !named_keys_is_filter, set_val_fst. reflexivity.
  - induction l as [|[kn old] r IH]; simpl; [reflexivity|].
    destruct kn as [ki kv| | |]; simpl; try (rewrite IH; reflexivity).
    destruct (py_eq kv k) eqn:E; simpl.
    + rewrite (named_congr L kv k E), Hk. reflexivity.
    + rewrite IH. reflexivity.
  - revert n. induction l as [|[kn old] r IH]; intros n H; simpl; [exact H|].
    destruct n as [|n].
    + simpl in *. inversion H; subst.
      destruct kn as [ki kv| | |]; simpl; try (constructor; [assumption|apply (IH 0); assumption]).
      destruct (py_eq kv k); constructor; try assumption. apply (IH 0). assumption.
    + simpl in H. destruct kn as [ki kv| | |]; simpl; try (apply IH; exact H).
      destruct (py_eq kv k); simpl; [exact H|apply IH; exact H].
Qed.
End Order.

(* ---------- one step ---------- *)
Section Cfg.
Variable lit : string -> outcome litres.
Variable cfg : mconfig.

Lemma merge_rec_shape : forall r nc l m,
  merge_rec lit cfg r nc l = Ok m -> is_leaf r = false -> is_leaf m = false.
Proof.
  intros r nc l m H Hr. destruct r as [i v|i kvs|i els|i els]; try discriminate.
  - destruct l as [li lv|li lkvs|li lels|li lels]; try (simpl in H; discriminate).
    rewrite merge_rec_map in H.
    destruct (dict_loop lit cfg (oid i) kvs (lkvs, [], 0)) as [[[k b] p]| |]; simpl in H; try discriminate.
    inversion H; reflexivity.
  - destruct els as [|first rest].
    + simpl in H. destruct (is_seq l) eqn:El; [|discriminate]. inversion H; subst.
      destruct m; try discriminate; reflexivity.
    + destruct (is_map first) eqn:Ef.
      * destruct l as [li lv|li lkvs|li lels|li lels]; try (simpl in H; rewrite Ef in H; discriminate).
        rewrite merge_rec_aoh in H by exact Ef.
        destruct (aoh_merge_mode cfg nc) as [mode| |]; simpl in H; try discriminate.
        destruct mode; try (inversion H; reflexivity);
          match type of H with bind ?x _ = _ => destruct x; simpl in H; try discriminate end;
          inversion H; reflexivity.
      * simpl in H. rewrite Ef in H.
        destruct (merge_simple_lists cfg l (NSeq i (first :: rest)) nc) as [mr| |] eqn:E; simpl in H; try discriminate.
        inversion H; subst. apply merge_simple_lists_shape in E; [tauto|reflexivity].
  - simpl in H. destruct (merge_sets cfg l (NSet i els) nc) as [mr| |] eqn:E; simpl in H; try discriminate.
    inversion H; subst. apply merge_sets_shape in E; [tauto|reflexivity].
Qed.

(* a key the left items have: the buffer is written out, then the item takes
   the policy-defined merge of the two values *)
Lemma dict_step_present : forall ro kvs buf pos key val st',
  assoc_key (key_val key) kvs <> None ->
  dict_step cfg (merge_rec lit cfg) ro (kvs, buf, pos) (key, val) = Ok st' ->
  exists lv v pos',
    assoc_key (key_val key) (fst (flush buf pos kvs)) = Some lv /\
    mg_common_value lit cfg ro (key_val key) lv val = Ok v /\
    st' = (set_val (key_val key) v (fst (flush buf pos kvs)), [], pos') /\
    (pos' = snd (flush buf pos kvs) \/ pos' = S (snd (flush buf pos kvs))).
Proof.
  intros ro kvs buf pos key val st' Hk H. unfold dict_step in H.
  destruct (assoc_key (key_val key) kvs) eqn:Ek; [|congruence].
  destruct (flush buf pos kvs) as [kvs1 pos1] eqn:Ef. simpl fst; simpl snd.
  assert (H1 : assoc_key (key_val key) kvs1 <> None).
  { replace kvs1 with (fst (flush buf pos kvs)) by now rewrite Ef. apply assoc_flush. congruence. }
  destruct (assoc_key (key_val key) kvs1) as [lv|] eqn:E1; [|congruence].
  exists lv. unfold mg_common_value.
  destruct (dict_shortcut cfg val _) as [sc| |]; simpl in H; try discriminate. cbn [bind].
  destruct sc.
  - exists lv, pos1. inversion H; subst. rewrite (set_val_same _ _ _ E1). auto.
  - exists val, pos1. inversion H; subst. auto.
  - destruct val as [vi vv|vi vkvs|vi vels|vi vels].
    + exists (NLeaf vi vv), (S pos1). inversion H; subst. auto.
    + destruct (merge_rec lit cfg _ _ lv) as [m| |] eqn:Em; simpl in H; try discriminate.
      rewrite yaml_set_tag_container in H by (eapply merge_rec_shape; [exact Em|reflexivity]).
      simpl in H. inversion H; subst. cbn [bind]. eexists; eexists; repeat split; eauto.
    + destruct (merge_rec lit cfg _ _ lv) as [m| |] eqn:Em; simpl in H; try discriminate.
      rewrite yaml_set_tag_container in H by (eapply merge_rec_shape; [exact Em|reflexivity]).
      simpl in H. inversion H; subst. cbn [bind]. eexists; eexists; repeat split; eauto.
    + destruct (merge_sets cfg lv _ _) as [m| |] eqn:Em; simpl in H; try discriminate.
      rewrite yaml_set_tag_container in H by (apply merge_sets_shape in Em; [tauto|reflexivity]).
      simpl in H. inversion H; subst. cbn [bind]. eexists; eexists; repeat split; eauto.
Qed.

Lemma dict_step_absent : forall ro kvs buf pos kv,
  assoc_key (keyof kv) kvs = None ->
  dict_step cfg (merge_rec lit cfg) ro (kvs, buf, pos) kv = Ok (kvs, buf ++ [kv], S pos).
Proof. intros ro kvs buf pos [key val] H. unfold dict_step. unfold keyof in H. simpl in H. now rewrite H. Qed.

(* ---------- the invariant ---------- *)
Variable ro : N.
Variable lkvs : list (node * node).
Hypothesis Lleaf : leafkeys lkvs.
Let L := keys_of lkvs.

Record inv (done : list (node * node)) (st : dstate) : Prop := mkinv {
  i_left  : named_keys L (fst (fst st)) = map fst lkvs;
  i_new   : unnamed_part L (fst (fst st)) ++ snd (fst st) = unnamed_part L done;
  i_tail  : Forall (fun x => inL L x = true) (skipn (snd st) (fst (fst st)));
  i_keep  : forall k, assoc_key k lkvs <> None -> assoc_key k (fst (fst st)) <> None;
  i_fresh : fresh_buf (fst (fst st)) (snd (fst st));
  i_bleaf : leafkeys (snd (fst st));
  v_rest  : forall k, named (keys_of done) k = false ->
              assoc_key k (fst (fst st) ++ snd (fst st)) = assoc_key k lkvs;
  v_both  : forall key rv lv, In (key, rv) done -> assoc_key (key_val key) lkvs = Some lv ->
              exists v, mg_common_value lit cfg ro (key_val key) lv rv = Ok v /\
                        assoc_key (key_val key) (fst (fst st) ++ snd (fst st)) = Some v;
  v_new   : forall key rv, In (key, rv) done -> assoc_key (key_val key) lkvs = None ->
              assoc_key (key_val key) (fst (fst st) ++ snd (fst st)) = Some rv
}.

Lemma buf_not_left : forall done st, inv done st -> Forall (fun x => inL L x = false) (snd (fst st)).
Proof.
  intros done st I. pose proof (i_new _ _ I) as H.
  assert (F : Forall (fun x => inL L x = false) (unnamed_part L done)).
  { rewrite unnamed_is_filter. apply Forall_forall. intros x Hx. apply filter_In in Hx. destruct Hx as [_ Hx].
    now apply negb_true_iff in Hx. }
  rewrite <- H in F. apply Forall_app in F. tauto.
Qed.

Lemma inv_init : inv [] (lkvs, [], 0).
Proof.
  constructor; simpl.
  - rewrite named_keys_is_filter. apply filter_all. apply Forall_forall. intros kn Hin.
    apply in_map_iff in Hin. destruct Hin as [kv [<- Hin]]. unfold inLk.
    apply named_in. unfold L, keys_of. apply in_map_iff. exists kv. auto.
  - rewrite app_nil_r. rewrite unnamed_is_filter. apply filter_none. apply Forall_forall. intros kv Hin.
    apply negb_false_iff. unfold inL. apply named_in. unfold L, keys_of. apply in_map_iff. exists kv. auto.
  - apply Forall_forall. intros kv Hin. unfold inL. apply named_in. unfold L, keys_of. apply in_map_iff. exists kv. auto.
  - auto.
  - exact I.
  - constructor.
  - intros. now rewrite app_nil_r.
  - intros ? ? ? [].
  - intros ? ? [].
Qed.

Lemma named_snoc_false : forall done kv k,
  named (keys_of (done ++ [kv])) k = false -> named (keys_of done) k = false /\ py_eq k (keyof kv) = false.
Proof.
  intros done kv k H. rewrite keys_of_app, named_app in H. apply orb_false_iff in H. destruct H as [H1 H2].
  split; [exact H1|]. simpl in H2. rewrite orb_false_r in H2. exact H2.
Qed.

Lemma in_done_not_eq : forall done key rv k,
  In (key, rv) done -> named (keys_of done) k = false -> py_eq (key_val key) k = false.
Proof.
  intros done key rv k Hin Hn. destruct (py_eq (key_val key) k) eqn:E; [|reflexivity].
  assert (named (keys_of done) k = true); [|congruence].
  unfold named. apply existsb_exists. exists (key_val key). split.
  - unfold keys_of. apply in_map_iff. exists (key, rv). auto.
  - now rewrite py_eq_sym.
Qed.

Lemma inv_step : forall done st kv st',
  inv done st -> is_leaf (fst kv) = true -> named (keys_of done) (keyof kv) = false ->
  dict_step cfg (merge_rec lit cfg) ro st kv = Ok st' ->
  inv (done ++ [kv]) st'.
Proof.
  intros done [[kvs buf] pos] [key val] st' I Hleaf Hnew H.
  pose proof (buf_not_left _ _ I) as Hbuf.
  destruct I as [I1 I2 I3 I4 I5 I6 V1 V2 V3]. cbn [fst snd] in *.
  change (keyof (key, val)) with (key_val key) in Hnew.
  pose proof (V1 _ Hnew) as Vk. rewrite assoc_app in Vk.
  destruct (assoc_key (key_val key) kvs) as [x|] eqn:Ek.
  - (* the key is on the left: flush, then merge the two values *)
    assert (Hne : assoc_key (key_val key) kvs <> None) by congruence.
    destruct (dict_step_present ro kvs buf pos key val st' Hne H) as [lv [v [pos' [E1 [Ev [-> Hp]]]]]].
    destruct (flush_order L buf pos kvs Hbuf I3) as [F1 [F2 F3]].
    assert (FA : forall k, assoc_key k (fst (flush buf pos kvs)) = assoc_key k (kvs ++ buf))
      by (intros; now apply flush_assoc).
    assert (HkL : named L (key_val key) = true).
    { apply assoc_named. rewrite <- Vk. discriminate. }
    assert (Elv : assoc_key (key_val key) lkvs = Some lv).
    { rewrite <- Vk. rewrite FA, assoc_app, Ek in E1. exact E1. }
    destruct (set_val_order L (key_val key) v (fst (flush buf pos kvs)) pos' HkL) as [S1 [S2 S3]].
    constructor; simpl.
    + congruence.
    + rewrite app_nil_r, S2, F2, I2. rewrite unnamed_app. simpl.
      change (named L match key with NLeaf _ k => k | _ => PNone end) with (named L (key_val key)).
      rewrite HkL. simpl. now rewrite app_nil_r.
    + apply S3. destruct Hp as [->| ->]; [exact F3|].
      replace (S (snd (flush buf pos kvs))) with (snd (flush buf pos kvs) + 1) by lia.
      rewrite <- skipn_skipn. apply Forall_skipn. exact F3.
    + intros k Hk. rewrite set_val_assoc. destruct (py_eq k (key_val key)).
      * rewrite E1. discriminate.
      * rewrite FA, assoc_app. specialize (I4 k Hk). destruct (assoc_key k kvs); [discriminate|congruence].
    + exact I.
    + constructor.
    + intros k Hk. apply named_snoc_false in Hk. destruct Hk as [Hk1 Hk2]. change (keyof (key, val)) with (key_val key) in Hk2.
      rewrite app_nil_r, set_val_assoc, Hk2, FA. now apply V1.
    + intros key0 rv0 lv0 Hin Hl0. rewrite app_nil_r, set_val_assoc. apply in_app_iff in Hin. destruct Hin as [Hin|[Hin|[]]].
      * rewrite (in_done_not_eq done key0 rv0 _ Hin Hnew). rewrite FA. eapply V2; eauto.
      * inversion Hin; subst key0 rv0. rewrite py_eq_refl, E1. rewrite Elv in Hl0. inversion Hl0; subst lv0. eauto.
    + intros key0 rv0 Hin Hl0. rewrite app_nil_r, set_val_assoc. apply in_app_iff in Hin. destruct Hin as [Hin|[Hin|[]]].
      * rewrite (in_done_not_eq done key0 rv0 _ Hin Hnew). rewrite FA. eapply V3; eauto.
      * inversion Hin; subst key0 rv0. congruence.
  - (* a new key: buffered *)
    assert (Hab : assoc_key (keyof (key, val)) kvs = None) by exact Ek.
    rewrite (dict_step_absent ro kvs buf pos (key, val) Hab) in H. inversion H; subst st'. clear H.
    assert (HnL : assoc_key (key_val key) lkvs = None).
    { destruct (assoc_key (key_val key) lkvs) eqn:E; [|reflexivity]. exfalso. apply (I4 (key_val key)); congruence. }
    assert (HkL : inL L (key, val) = false) by (apply assoc_none_named; assumption).
    assert (Hall : assoc_key (key_val key) (kvs ++ buf) = None) by (rewrite assoc_app, Ek, Vk; exact HnL).
    constructor; cbn [fst snd].
    + exact I1.
    + rewrite app_assoc, I2, unnamed_app. simpl.
      change (named L match key with NLeaf _ k => k | _ => PNone end) with (inL L (key, val)).
      rewrite HkL. reflexivity.
    + replace (S pos) with (pos + 1) by lia. rewrite <- skipn_skipn. apply Forall_skipn. exact I3.
    + exact I4.
    + apply fresh_buf_snoc; assumption.
    + apply Forall_app. split; [exact I6|]. constructor; [exact Hleaf|constructor].
    + intros k Hk. apply named_snoc_false in Hk. destruct Hk as [Hk1 Hk2]. change (keyof (key, val)) with (key_val key) in Hk2.
      rewrite app_assoc, assoc_app, (assoc_single _ (key, val) Hleaf). change (keyof (key, val)) with (key_val key).
      rewrite py_eq_sym, Hk2. rewrite (V1 k Hk1). destruct (assoc_key k lkvs); reflexivity.
    + intros key0 rv0 lv0 Hin Hl0. rewrite app_assoc, assoc_app. apply in_app_iff in Hin. destruct Hin as [Hin|[Hin|[]]].
      * destruct (V2 key0 rv0 lv0 Hin Hl0) as [v [Ev Ea]]. exists v. rewrite Ea. auto.
      * inversion Hin; subst key0 rv0. congruence.
    + intros key0 rv0 Hin Hl0. rewrite app_assoc, assoc_app. apply in_app_iff in Hin. destruct Hin as [Hin|[Hin|[]]].
      * rewrite (V3 key0 rv0 Hin Hl0). reflexivity.
      * inversion Hin; subst key0 rv0. rewrite Hall, (assoc_single _ (key, val) Hleaf).
        change (keyof (key, val)) with (key_val key). now rewrite py_eq_refl.
Qed.

Lemma distinct_from_cons : forall seen kv r,
  mg_distinct_from seen (kv :: r) = true ->
  named seen (keyof kv) = false /\ mg_distinct_from (seen ++ [keyof kv]) r = true.
Proof.
  intros seen kv r H. simpl in H. apply andb_true_iff in H. destruct H as [H1 H2].
  apply negb_true_iff in H1. split; assumption.
Qed.

Lemma inv_loop : forall items done st st',
  inv done st -> leafkeys items -> mg_distinct_from (keys_of done) items = true ->
  dict_loop lit cfg ro items st = Ok st' ->
  inv (done ++ items) st'.
Proof.
  induction items as [|kv rest IH]; intros done st st' I HL HD H.
  - simpl in H. inversion H; subst. now rewrite app_nil_r.
  - rewrite dict_loop_cons in H.
    destruct (dict_step cfg (merge_rec lit cfg) ro st kv) as [st1| |] eqn:Es; simpl in H; try discriminate.
    inversion HL; subst. apply distinct_from_cons in HD. destruct HD as [D1 D2].
    pose proof (inv_step done st kv st1 I H2 D1 Es) as I'.
    replace (done ++ kv :: rest) with ((done ++ [kv]) ++ rest) by (rewrite <- app_assoc; reflexivity).
    apply (IH _ st1); auto.
    rewrite keys_of_app. exact D2.
Qed.

End Cfg.

(* ---------- the theorem ---------- *)
Definition hash_union_statement : Prop :=
  forall lit cfg ri rkvs nc li lkvs m,
    mg_keys_leaf lkvs = true -> mg_keys_leaf rkvs = true -> mg_distinct rkvs = true ->
    merge_rec lit cfg (NMap ri rkvs) nc (NMap li lkvs) = Ok m ->
    exists res, m = NMap li res /\
      (* the keys: the left keys (the left key objects) in their order ... *)
      named_keys (keys_of lkvs) res = map fst lkvs /\
      (* ... and, interleaved where the insertion buffer put them, the right-only items in theirs *)
      unnamed_part (keys_of lkvs) res = unnamed_part (keys_of lkvs) rkvs /\
      (* the values: left-only keys keep the left value *)
      (forall k, named (keys_of rkvs) k = false -> assoc_key k res = assoc_key k lkvs) /\
      (* right-only keys hold the right value *)
      (forall key rv, In (key, rv) rkvs -> assoc_key (key_val key) lkvs = None ->
         assoc_key (key_val key) res = Some rv) /\
      (* common keys hold the policy-defined merge of the two values *)
      (forall key rv lv, In (key, rv) rkvs -> assoc_key (key_val key) lkvs = Some lv ->
         exists v, mg_common_value lit cfg (oid ri) (key_val key) lv rv = Ok v /\
                   assoc_key (key_val key) res = Some v).

Theorem hash_union : hash_union_statement.
Proof.
  intros lit cfg ri rkvs nc li lkvs m HL HR HD H. rewrite merge_rec_map in H.
  destruct (dict_loop lit cfg (oid ri) rkvs (lkvs, [], 0)) as [[[kvs buf] pos]| |] eqn:El; simpl in H; try discriminate.
  inversion H; subst m. exists (kvs ++ buf). split; [reflexivity|].
  apply leafkeys_of_bool in HL. apply leafkeys_of_bool in HR.
  pose proof (inv_loop lit cfg (oid ri) lkvs HL rkvs [] _ _ (inv_init lit cfg (oid ri) lkvs) HR HD El) as I.
  simpl in I. pose proof (buf_not_left _ _ _ _ _ _ I) as Hb.
  destruct I as [I1 I2 I3 I4 I5 I6 V1 V2 V3]. simpl in *.
  repeat split.
  - rewrite named_keys_is_filter, map_app, filter_app, <- !named_keys_is_filter, I1.
    rewrite named_keys_is_filter. rewrite filter_none; [apply app_nil_r|].
    apply Forall_forall. intros kn Hin. apply in_map_iff in Hin. destruct Hin as [kv [<- Hin]].
    rewrite Forall_forall in Hb. exact (Hb kv Hin).
  - rewrite unnamed_app, <- I2. f_equal. rewrite unnamed_is_filter. apply filter_all.
    eapply Forall_impl; [|exact Hb]. intros kv Hkv. simpl in Hkv. now rewrite Hkv.
  - exact V1.
  - exact V3.
  - exact V2.
Qed.

(* the key set of the result is the union of the two key sets *)
Theorem hash_union_keys :
  forall lit cfg ri rkvs nc li lkvs res,
    mg_keys_leaf lkvs = true -> mg_keys_leaf rkvs = true -> mg_distinct rkvs = true ->
    merge_rec lit cfg (NMap ri rkvs) nc (NMap li lkvs) = Ok (NMap li res) ->
    forall k, assoc_key k res <> None <-> (assoc_key k lkvs <> None \/ assoc_key k rkvs <> None).
Proof.
  intros lit cfg ri rkvs nc li lkvs res HL HR HD H k.
  destruct (hash_union lit cfg ri rkvs nc li lkvs _ HL HR HD H) as [res' [E [_ [_ [V1 [V3 V2]]]]]].
  inversion E; subst res'. clear E.
  pose proof (leafkeys_of_bool _ HR) as HRl.
  destruct (named (keys_of rkvs) k) eqn:En.
  - (* k is a right key: find the item *)
    assert (Hr : assoc_key k rkvs <> None) by (apply named_assoc; assumption).
    unfold named in En. apply existsb_exists in En. destruct En as [k' [Hin Ek]].
    unfold keys_of in Hin. apply in_map_iff in Hin. destruct Hin as [[key rv] [Hk' Hin]]. simpl in Hk'.
    change (match key with NLeaf _ k0 => k0 | _ => PNone end) with (key_val key) in Hk'. subst k'.
    split; [intros _; now right|]. intros _.
    rewrite (assoc_congr _ _ res Ek).
    destruct (assoc_key (key_val key) lkvs) as [lv|] eqn:El.
    + destruct (V2 key rv lv Hin El) as [v [_ Ea]]. rewrite Ea. discriminate.
    + rewrite (V3 key rv Hin El). discriminate.
  - rewrite (V1 k En). split; [intros Hx; now left|]. intros [Hx|Hx]; [exact Hx|].
    exfalso. apply assoc_named in Hx. congruence.
Qed.
