(* C14 / C15: an invariant over the parser's rule chain (in the style of
   ParserStep.v) from which the pairing of segment types and attributes
   follows for every accepted text.

   Since the repair of F30 the demarcation stack is properly nested: a `]`
   closes a `[`, a keyword's `)` closes a `(`, and no collector opens inside a
   [...] segment.  The invariant relates the stack to collector_level and to
   segment_type:
     - collector_level <= number of `(` on the stack;
     - segment_type COLLECTOR only inside a collector (level >= 1), where the
       type is COLLECTOR or ANCHOR and the outermost open mark is not `[`;
     - segment_type KEYWORD_SEARCH / SEARCH only while the outermost open mark
       is `[` (a [...] segment), with the keyword / the method set;
     - inside a [...] segment the type is never None.
   While a regular expression is captured its delimiter is on top of the
   stack; the invariant speaks of the stack below it. *)
From Coq Require Import List Ascii String ZArith Bool Arith Lia.
From YP Require Import Outcome PyStr Generated PathParser PathPrinter C14Pairs ParserStep.
Import ListNotations.
Open Scope string_scope.
Open Scope nat_scope.

Fixpoint nparens (l : list ascii) : nat :=
  match l with
  | [] => 0
  | c :: r => (if Ascii.eqb c "("%char then 1 else 0) + nparens r
  end.

(* the outermost open mark is a bracket *)
Fixpoint in_br (l : list ascii) : bool :=
  match l with
  | [] => false
  | [c] => Ascii.eqb c "["%char
  | _ :: r => in_br r
  end.

Definition is_ca (o : option segtype) : bool :=
  match o with Some TCollector | Some TAnchor => true | _ => false end.

Record PIf (sg : list seg) (stk : list ascii) (cl : nat) (ty : option segtype)
           (kw : option keyword) (sm : option smethod) : Prop := mkPIf {
  p_segs : segs_paired sg = true;
  p_par : cl <= nparens stk;
  p_coll : ty = Some TCollector -> 1 <= cl;
  p_in : 1 <= cl -> is_ca ty = true /\ in_br stk = false;
  p_kw : ty = Some TKeywordSearch -> kw <> None /\ cl = 0 /\ in_br stk = true;
  p_se : ty = Some TSearch -> sm <> None /\ in_br stk = true;
  p_br : in_br stk = true -> ty <> None
}.

Definition estk (s : pst) : list ascii := if cap_re s then tl (stack s) else stack s.

Definition PI (s : pst) : Prop :=
  PIf (segs s) (estk s) (clevel s) (stype s) (skw s) (smeth s).

(* ---- small facts ---- *)
Lemma quote_facts c : mem_ascii c g_quote_chars = true ->
  Ascii.eqb c "("%char = false /\ Ascii.eqb c "["%char = false.
Proof.
  destruct c as [[|] [|] [|] [|] [|] [|] [|] [|]]; vm_compute; intros H; try discriminate H; split; reflexivity.
Qed.

Lemma bottom_in_br l b : bottom_of l = Ok b -> in_br l = Ascii.eqb b "["%char.
Proof.
  induction l as [|a [|a2 r] IH]; cbn; intros H; [discriminate | congruence | apply IH; exact H].
Qed.

Lemma segs_paired_app l sg : segs_paired l = true -> seg_paired sg = true -> segs_paired (l ++ [sg]) = true.
Proof.
  unfold segs_paired. intros H1 H2. rewrite forallb_app, H1. cbn. rewrite H2. reflexivity.
Qed.

(* the type a flushed text gets is not one of the three attribute-carrying types *)
Definition plain_ty (o : option segtype) : bool :=
  match o with
  | Some TCollector | Some TKeywordSearch | Some TSearch => false
  | _ => true
  end.

Lemma expand_splats_paired id ty sg :
  plain_ty ty = true -> expand_splats id (key_if_none ty) = Ok sg -> seg_paired sg = true.
Proof.
  unfold expand_splats. intros Hp.
  repeat match goal with |- context[if ?b then _ else _] => destruct b end;
    try (intros H; inversion H; subst; clear H; try reflexivity;
         destruct ty as [[]|]; cbn in *; try discriminate; reflexivity).
  destruct (splat_regex id false "^"); cbn; intros H; inversion H; reflexivity.
Qed.

Lemma PIf_plain sg stk cl ty kw sm :
  PIf sg stk cl ty kw sm -> cl = 0 -> in_br stk = false -> plain_ty ty = true.
Proof.
  intros [_ _ Hc _ Hk Hs _] H0 Hb. destruct ty as [[]|]; try reflexivity; exfalso.
  - specialize (Hc eq_refl). lia.
  - destruct (Hs eq_refl) as [_ E]. congruence.
  - destruct (Hk eq_refl) as [_ [_ E]]. congruence.
Qed.

(* flush_expand: the stored segment is paired; only segs, sid, stype change *)
Lemma flush_expand_pairs s s' :
  PI s -> clevel s = 0 -> in_br (estk s) = false -> flush_expand s = Ok s' ->
  segs_paired (segs s') = true /\ stack s' = stack s /\ cap_re s' = cap_re s /\ clevel s' = clevel s
  /\ skw s' = skw s /\ smeth s' = smeth s /\ dcount s' = dcount s /\ sinv s' = sinv s
  /\ seek_cop s' = seek_cop s /\ seek_anchor s' = seek_anchor s /\ ncmb s' = ncmb s /\ esc s' = esc s.
Proof.
  intros HPI H0 Hb. pose proof (PIf_plain _ _ _ _ _ _ HPI H0 Hb) as Hp.
  unfold flush_expand. destruct (nonempty (sid s)).
  - destruct (expand_splats (sid s) (key_if_none (stype s))) as [sg| |] eqn:E; cbn; intros H; inversion H; subst; clear H.
    cbn. repeat split. apply segs_paired_app; [apply HPI | eapply expand_splats_paired; eauto].
  - intros H; inversion H; subst. repeat split. apply HPI.
Qed.

(* ---- how the invariant moves with the stack ---- *)
Lemma PIf_anchor sg stk cl ty kw sm : PIf sg stk cl ty kw sm -> PIf sg stk cl (Some TAnchor) kw sm.
Proof.
  intros [H1 H2 H3 H4 H5 H6 H7]. constructor; auto; try discriminate.
  intros H. destruct (H4 H). split; auto.
Qed.

Lemma in_br_cons c t l : in_br (c :: t :: l) = in_br (t :: l).
Proof. reflexivity. Qed.

(* pushing / popping a mark that is no parenthesis above a non-empty stack *)
Lemma PIf_push sg c t l cl ty kw sm :
  Ascii.eqb c "("%char = false -> PIf sg (t :: l) cl ty kw sm -> PIf sg (c :: t :: l) cl ty kw sm.
Proof.
  intros E [H1 H2 H3 H4 H5 H6 H7]. constructor; auto; rewrite ?in_br_cons; auto.
  cbn [nparens]. rewrite E. exact H2.
Qed.

Lemma PIf_pop sg c t l cl ty kw sm :
  Ascii.eqb c "("%char = false -> PIf sg (c :: t :: l) cl ty kw sm -> PIf sg (t :: l) cl ty kw sm.
Proof.
  intros E [H1 H2 H3 H4 H5 H6 H7]. rewrite ?in_br_cons in *. constructor; auto.
  cbn [nparens] in H2. rewrite E in H2. exact H2.
Qed.

(* the first mark, when it is neither a parenthesis nor a bracket (a quote) *)
Lemma PIf_push_first sg c cl ty kw sm :
  Ascii.eqb c "("%char = false -> Ascii.eqb c "["%char = false ->
  PIf sg [] cl ty kw sm -> PIf sg [c] cl ty kw sm.
Proof.
  intros E1 E2 [H1 H2 H3 H4 H5 H6 H7]. cbn in *. constructor; cbn; rewrite ?E1, ?E2; auto.
Qed.

(* nothing open, no type: the state after a completed top-level segment *)
Lemma PIf_top sg kw sm : segs_paired sg = true -> PIf sg [] 0 None kw sm.
Proof. intros H. constructor; cbn; auto; try discriminate; try lia. Qed.

Lemma PIf_segs sg stk cl ty kw sm : PIf sg stk cl ty kw sm -> segs_paired sg = true.
Proof. intros H; apply H. Qed.

Lemma PIf_empty_level sg cl ty kw sm : PIf sg [] cl ty kw sm -> cl = 0.
Proof. intros H. pose proof (p_par _ _ _ _ _ _ H). cbn in *. lia. Qed.

(* a collector opens outside every [...] segment *)
Lemma PIf_open sg sg' stk cl ty kw sm :
  PIf sg stk cl ty kw sm -> in_br stk = false -> segs_paired sg' = true ->
  PIf sg' ("("%char :: stk) (S cl) (Some TCollector) kw sm.
Proof.
  intros [H1 H2 H3 H4 H5 H6 H7] Hb Hs.
  assert (Hb' : in_br ("("%char :: stk) = false) by (destruct stk; [reflexivity | exact Hb]).
  constructor.
  - exact Hs.
  - cbn. lia.
  - intros _. lia.
  - intros _. split; [reflexivity | exact Hb'].
  - discriminate.
  - discriminate.
  - intros E. rewrite Hb' in E. discriminate.
Qed.

(* ---- per-rule preservation ---- *)
Ltac start s :=
  destruct s as [segs0 sid0 ty stk esc0 sinv0 sm sattr0 kw seekre0 cap0 cl copr0 seekcop0 ncmb0 seekanc0 dc td0];
  unfold PI, estk in *;
  cbn [segs stack cap_re clevel stype skw smeth dcount esc seek_re seek_cop seek_anchor ncmb sid sinv sattr copr] in *.

Ltac okinv H := inversion H; subst; clear H.

Definition rule_pres (prev : pst -> ascii -> Prop) (r : rule) : Prop :=
  forall s c s' b, PI s -> dcount s = List.length (stack s) -> prev s c ->
    guard r s c = Ok true -> act r s c = Ok (s', b) -> PI s'.

Section Pres.
Variable strip : bool.
Variable sepc : ascii.

Lemma pres_escape_next : rule_pres (fun _ _ => True) r_escape_next.
Proof. intros s c s' b HPI Hd _ Hg Ha. start s. cbn in Ha. okinv Ha. exact HPI. Qed.

Lemma pres_capturing_regex : rule_pres (fun _ _ => True) r_capturing_regex.
Proof.
  intros s c s' b HPI Hd _ Hg Ha. start s. cbn in Hg. okinv Hg. cbn in *.
  destruct stk as [|t stk]; cbn in Ha; [discriminate|].
  destruct (Ascii.eqb c t); cbn in Ha; okinv Ha; cbn; exact HPI.
Qed.

Lemma pres_backslash : rule_pres (fun _ _ => True) (r_backslash strip).
Proof. intros s c s' b HPI Hd _ Hg Ha. start s. cbn in Ha. destruct strip; okinv Ha; exact HPI. Qed.

Lemma pres_space : rule_pres (fun _ _ => True) r_space.
Proof. intros s c s' b HPI Hd _ Hg Ha. start s. cbn in Ha. okinv Ha. exact HPI. Qed.

Lemma pres_regex_delim : rule_pres (fun s _ => cap_re s = false) r_regex_delim.
Proof. intros s c s' b HPI Hd Hc Hg Ha. start s. cbn in Hc. subst cap0. cbn in Ha. okinv Ha. cbn. exact HPI. Qed.

Lemma pres_anchor_mark : rule_pres (fun _ _ => True) r_anchor_mark.
Proof. intros s c s' b HPI Hd _ Hg Ha. start s. cbn in Ha. okinv Ha. cbn. eapply PIf_anchor; eauto. Qed.

Lemma pres_collector_operator : rule_pres (fun _ _ => True) r_collector_operator.
Proof.
  intros s c s' b HPI Hd _ Hg Ha. start s. cbn in Ha.
  repeat match type of Ha with context[if ?b then _ else _] => destruct b end; okinv Ha; exact HPI.
Qed.

Lemma pres_must_be : rule_pres (fun _ _ => True) r_must_be.
Proof. intros s c s' b HPI Hd _ Hg Ha. cbn in Ha. discriminate. Qed.

Lemma pres_quote : rule_pres (fun s _ => cap_re s = false) r_quote.
Proof.
  intros s c s' b HPI Hd Hc Hg Ha. start s. cbn in Hc, Hd. subst cap0 dc.
  cbn in Hg. okinv Hg. rename H0 into Hq. destruct (quote_facts _ Hq) as [Q1 Q2].
  destruct stk as [|t [|u r]]; cbn in Ha.
  - okinv Ha. cbn. apply PIf_push_first; auto.
  - destruct (Ascii.eqb c t) eqn:E; cbn in Ha.
    + apply Ascii.eqb_eq in E. subst t.
      assert (cl = 0) by (pose proof (p_par _ _ _ _ _ _ HPI) as P; cbn in P; rewrite Q1 in P; lia). subst cl.
      assert (Hp : plain_ty ty = true) by (eapply PIf_plain; eauto; cbn; rewrite ?Q1, ?Q2; auto).
      destruct (nonempty sid0); okinv Ha; cbn; apply PIf_top.
      * apply segs_paired_app; [eapply PIf_segs; eauto|]. destruct ty as [[]|]; cbn in *; try discriminate; reflexivity.
      * eapply PIf_segs; eauto.
    + okinv Ha. destruct (_ && negb (nonempty sid0)); cbn; apply PIf_push; auto.
  - destruct (Ascii.eqb c t) eqn:E; cbn in Ha; okinv Ha; cbn.
    + apply Ascii.eqb_eq in E. subst t. eapply PIf_pop; eauto.
    + destruct (_ && negb (nonempty sid0)); cbn; apply PIf_push; auto.
Qed.

Ltac use_flush EF fs :=
  match goal with
  | H : context[flush_expand ?s] |- _ =>
      destruct (flush_expand s) as [fs| |] eqn:EF; cbn in H; try discriminate H
  end.

Lemma pres_open_paren : rule_pres (fun s _ => cap_re s = false) r_open_paren.
Proof.
  intros s c s' b HPI Hd Hc Hg Ha. start s. cbn in Hc, Hd. subst cap0 dc.
  cbn in Hg. okinv Hg. rename H0 into Ec. apply Ascii.eqb_eq in Ec. subst c.
  assert (Hopen : forall sid1,
    in_br stk = false ->
    (do s1 <- (if cl =? 0 then flush_expand (mkpst segs0 sid1 ty stk esc0 sinv0 sm sattr0 kw seekre0 false cl copr0 seekcop0 ncmb0 seekanc0 (List.length stk) td0)
               else Ok (mkpst segs0 sid1 ty stk esc0 sinv0 sm sattr0 kw seekre0 false cl copr0 seekcop0 ncmb0 seekanc0 (List.length stk) td0));
     let s2 := set_stype (Some TCollector) (push "("%char (set_clevel (S (clevel s1)) (set_seek_cop false s1))) in
     if clevel s2 =? 1 then cont s2 else fall s2) = Ok (s', b) ->
    PIf (segs s') (if cap_re s' then tl (stack s') else stack s') (clevel s') (stype s') (skw s') (smeth s')).
  { intros sid1 Hb H. destruct (cl =? 0) eqn:E0.
    - apply Nat.eqb_eq in E0. subst cl.
      use_flush EF fs.
      apply flush_expand_pairs in EF; [|exact HPI|reflexivity|exact Hb].
      destruct fs; cbn in EF. destruct EF as (F1 & F2 & F3 & F4 & F5 & F6 & _). subst.
      cbn in H. okinv H. cbn. eapply PIf_open; eauto.
    - cbn in H. rewrite E0 in H. okinv H; cbn; eapply PIf_open; eauto; eapply PIf_segs; eauto. }
  cbn -[is_keyword keyword_of_name upper_str flush_expand bottom_of nonempty Nat.eqb] in Ha.
  destruct stk as [|t [|u r]]; cbn -[is_keyword keyword_of_name upper_str flush_expand bottom_of nonempty Nat.eqb] in Ha.
  - apply (Hopen sid0); [reflexivity | exact Ha].
  - change (1 =? 1) with true in Ha. cbn [bind] in Ha.
    destruct ((t =? "[")%char && nonempty sid0) eqn:Ein.
    + apply andb_true_iff in Ein. destruct Ein as [Et _]. apply Ascii.eqb_eq in Et. subst t.
      destruct (is_keyword sid0); [|discriminate Ha].
      destruct (keyword_of_name (upper_str sid0)) as [k|]; [|discriminate Ha].
      okinv Ha. cbn.
      assert (cl = 0) by (pose proof (p_par _ _ _ _ _ _ HPI) as P; cbn in P; lia). subst cl.
      constructor; cbn; auto; try discriminate; try lia.
      * eapply PIf_segs; eauto.
      * intros _. repeat split; auto. discriminate.
    + cbn [bottom_of bind] in Ha. destruct (t =? "[")%char eqn:Et; [discriminate Ha|].
      apply (Hopen sid0); [cbn; exact Et | exact Ha].
  - change (S (S (Datatypes.length r)) =? 1) with false in Ha. cbn [bind] in Ha.
    destruct (bottom_of (t :: u :: r)) as [bt| |] eqn:EB; cbn [bind] in Ha; try discriminate Ha.
    destruct (bt =? "[")%char eqn:Et; [discriminate Ha|].
    apply (Hopen sid0); [rewrite (bottom_in_br _ _ EB); exact Et | exact Ha].
Qed.

Lemma in_br_paren_tl l : in_br ("("%char :: l) = in_br l.
Proof. destruct l; reflexivity. Qed.

Lemma pres_close_keyword : rule_pres (fun s _ => cap_re s = false) r_close_keyword.
Proof.
  intros s c s' b HPI Hd Hc Hg Ha. start s. cbn in Hc, Hd. subst cap0 dc.
  cbn in Hg. okinv Hg. rename H0 into G. apply andb_true_iff in G. destruct G as [_ G].
  destruct ty as [[]|]; try discriminate G. clear G.
  destruct stk as [|t stk']; cbn in Ha; [discriminate|].
  destruct (t =? "(")%char eqn:Et; cbn in Ha; [|discriminate]. apply Ascii.eqb_eq in Et. subst t.
  okinv Ha. cbn.
  destruct HPI as [H1 H2 H3 H4 H5 H6 H7]. destruct (H5 eq_refl) as (K1 & K2 & K3). subst cl.
  rewrite in_br_paren_tl in K3.
  constructor; auto; try discriminate; try lia.
Qed.

Lemma pres_close_collector : rule_pres (fun s _ => cap_re s = false) r_close_collector.
Proof.
  intros s c s' b HPI Hd Hc Hg Ha. start s. cbn in Hc, Hd. subst cap0 dc.
  destruct stk as [|t stk']; cbn in Hg; [rewrite ?andb_false_r in Hg; cbn in Hg; discriminate|].
  destruct (c =? ")")%char; cbn in Hg; [|discriminate]. okinv Hg. rename H0 into G.
  apply andb_true_iff in G. destruct G as [Et Hcl]. apply Ascii.eqb_eq in Et. subst t.
  assert (Hcl' : 1 <= cl) by (destruct cl; [discriminate Hcl | lia]). clear Hcl.
  destruct HPI as [H1 H2 H3 H4 H5 H6 H7]. destruct (H4 Hcl') as [A1 A2]. rewrite in_br_paren_tl in A2.
  cbn in H2.
  cbn -[Nat.ltb] in Ha. destruct (Nat.pred cl <? 1) eqn:E; okinv Ha; cbn.
  - apply Nat.ltb_lt in E. constructor.
    + apply segs_paired_app; auto. destruct ty as [[]|]; cbn in A1; try discriminate; reflexivity.
    + lia.
    + discriminate.
    + intros X; lia.
    + discriminate.
    + discriminate.
    + intros X; rewrite A2 in X; discriminate.
  - apply Nat.ltb_ge in E.
    constructor.
    + assumption.
    + lia.
    + intros _; lia.
    + intros _. split; auto.
    + intros X. subst ty. discriminate.
    + intros X. subst ty. discriminate.
    + intros X; rewrite A2 in X; discriminate.
Qed.

Lemma pres_open_bracket : rule_pres (fun s _ => cap_re s = false) r_open_bracket.
Proof.
  intros s c s' b HPI Hd Hc Hg Ha. start s. cbn in Hc, Hd. subst cap0 dc.
  destruct stk as [|t stk']; cbn in Hg; [|discriminate]. clear Hg.
  pose proof (PIf_empty_level _ _ _ _ _ HPI). subst cl.
  cbn -[flush_expand] in Ha. use_flush EF fs.
  apply flush_expand_pairs in EF; [|exact HPI|reflexivity|reflexivity].
  destruct fs; cbn in EF. destruct EF as (F1 & F2 & F3 & F4 & F5 & F6 & _). subst.
  cbn in Ha. okinv Ha. cbn.
  constructor; cbn; auto; try discriminate; try lia.
Qed.

(* inside "[": a search operator sets the type SEARCH together with a method *)
Lemma PIf_search sg cl ty kw sm m :
  PIf sg ["["%char] cl ty kw sm -> PIf sg ["["%char] cl (Some TSearch) kw (Some m).
Proof.
  intros [H1 H2 H3 H4 H5 H6 H7]. cbn in *. constructor; cbn.
  - assumption.
  - assumption.
  - discriminate.
  - intros X. exfalso. lia.
  - discriminate.
  - intros _. split; [discriminate | reflexivity].
  - discriminate.
Qed.

Lemma PIf_method sg stk cl ty kw sm m : PIf sg stk cl ty kw sm -> PIf sg stk cl ty kw (Some m).
Proof.
  intros [H1 H2 H3 H4 H5 H6 H7]. constructor; auto.
  intros X. destruct (H6 X). split; [discriminate | assumption].
Qed.

Lemma pres_search_operator : rule_pres (fun s _ => cap_re s = false) r_search_operator.
Proof.
  intros s c s' b HPI Hd Hc Hg Ha. start s. cbn in Hc, Hd. subst cap0 dc.
  destruct stk as [|t [|u r]]; cbn -[mem_ascii] in Hg; try discriminate Hg.
  okinv Hg. rename H0 into G. apply andb_true_iff in G. destruct G as [Et _].
  apply Ascii.eqb_eq in Et. subst t.
  cbn -[nonempty] in Ha. unfold take_attr in Ha. cbn -[nonempty] in Ha.
  repeat match type of Ha with
         | context[if ?b then _ else _] => destruct b; cbn -[nonempty] in Ha
         | context[match ?x with Some _ => _ | None => _ end] => destruct x; cbn -[nonempty] in Ha
         | context[match ?x with MContains => _ | _ => _ end] => destruct x; cbn -[nonempty] in Ha
         end; try discriminate Ha; okinv Ha; cbn;
    first [ exact HPI | eapply PIf_search; eauto | eapply PIf_method; eauto ].
Qed.

Lemma pres_nested_bracket :
  rule_pres (fun s c => cap_re s = false /\ guard r_open_bracket s c = Ok false) r_nested_bracket.
Proof.
  intros s c s' b HPI Hd [Hc Hn] Hg Ha. start s. cbn in Hc, Hd. subst cap0 dc.
  cbn in Hg. okinv Hg. rename H0 into Ec. apply Ascii.eqb_eq in Ec. subst c.
  destruct stk as [|t stk']; cbn in Hn; [discriminate|]. clear Hn.
  cbn in Ha. okinv Ha. cbn. apply PIf_push; [reflexivity | exact HPI].
Qed.

Lemma pres_close_bracket : rule_pres (fun s _ => cap_re s = false) r_close_bracket.
Proof.
  intros s c s' b HPI Hd Hc Hg Ha. start s. cbn in Hc, Hd. subst cap0 dc.
  destruct stk as [|t [|u r]]; cbn in Hg; rewrite ?andb_false_r in Hg; try discriminate Hg.
  destruct (c =? "]")%char; cbn in Hg; [|discriminate]. okinv Hg. rename H0 into Et.
  apply Ascii.eqb_eq in Et. subst t.
  destruct HPI as [H1 H2 H3 H4 H5 H6 H7]. cbn in *.
  assert (cl = 0) by lia. subst cl.
  assert (Hty : ty <> None) by auto.
  assert (Hpair : forall sg, 
    (if is_stype TIndex ty && negb (str_in ":"%char sid0)
     then match py_int sid0 with Some z => Ok (ty, AInt z) | None => Raise (YPE TypeMismatch) end
     else if is_stype TSearch ty && match sm with Some _ => true | None => false end
     then match sm with Some m => Ok (ty, ASearch sinv0 m sattr0 (if td0 then undemarcate sid0 else sid0)) | None => Ok (ty, AStr sid0) end
     else if is_stype TKeywordSearch ty && match kw with Some _ => true | None => false end
     then match kw with Some k => Ok (ty, AKeyword sinv0 k sid0) | None => Ok (ty, AStr sid0) end
     else Ok (ty, AStr sid0)) = Ok sg -> seg_paired sg = true).
  { intros sg. destruct ty as [[]|]; cbn -[py_int undemarcate str_in]; try congruence;
      try (intros X; okinv X; reflexivity).
    - specialize (H3 eq_refl). lia.
    - destruct (negb (str_in ":"%char sid0)); [destruct (py_int sid0)|]; intros X; okinv X; reflexivity.
    - destruct (H6 eq_refl) as [N _]. destruct sm; [|congruence]. intros X; okinv X; reflexivity.
    - destruct (H5 eq_refl) as [N _]. destruct kw; [|congruence]. intros X; okinv X; reflexivity. }
  cbn -[py_int undemarcate str_in is_stype] in Ha.
  match type of Ha with (do sg <- ?e; _) = _ => destruct e as [sg| |] eqn:ES end;
    cbn -[py_int undemarcate str_in is_stype] in Ha; try discriminate Ha.
  specialize (Hpair _ eq_refl). okinv Ha. cbn. apply PIf_top. apply segs_paired_app; auto.
Qed.

Lemma pres_stray_close_bracket :
  rule_pres (fun s c => cap_re s = false /\ guard r_close_bracket s c = Ok false) r_stray_close_bracket.
Proof.
  intros s c s' b HPI Hd [Hc Hn] Hg Ha. start s. cbn in Hc, Hd. subst cap0 dc.
  cbn in Hg. okinv Hg. rename H0 into Ec. apply Ascii.eqb_eq in Ec. subst c.
  destruct stk as [|t [|u r]]; cbn in Ha; try discriminate Ha.
  - cbn in Hn. destruct (t =? "[")%char; cbn in *; discriminate.
  - destruct (t =? "[")%char eqn:Et; cbn in Ha; [|discriminate]. apply Ascii.eqb_eq in Et. subst t.
    okinv Ha. cbn. eapply PIf_pop; [|exact HPI]. reflexivity.
Qed.

Lemma pres_separator : rule_pres (fun s _ => cap_re s = false) (r_separator sepc).
Proof.
  intros s c s' b HPI Hd Hc Hg Ha. start s. cbn in Hc, Hd. subst cap0 dc.
  destruct stk as [|t stk']; cbn in Hg; [|discriminate]. clear Hg.
  pose proof (PIf_empty_level _ _ _ _ _ HPI). subst cl.
  cbn -[flush_expand] in Ha. use_flush EF fs.
  apply flush_expand_pairs in EF; [|exact HPI|reflexivity|reflexivity].
  destruct fs; cbn in EF. destruct EF as (F1 & F2 & F3 & F4 & F5 & F6 & _). subst.
  cbn in Ha. okinv Ha. cbn. apply PIf_top. assumption.
Qed.

(* ---- the chain: each rule under "every earlier guard answered false" ---- *)
Fixpoint chain_pres (prev : pst -> ascii -> Prop) (rs : list rule) : Prop :=
  match rs with
  | [] => True
  | r :: rest => rule_pres prev r /\ chain_pres (fun s c => prev s c /\ guard r s c = Ok false) rest
  end.

Lemma first_rule_pres rs : forall prev, chain_pres prev rs ->
  forall s c s' b, PI s -> dcount s = List.length (stack s) -> prev s c ->
    first_rule rs s c = Ok (s', b) -> PI s'.
Proof.
  induction rs as [|r rest IH]; intros prev Hc s c s' b HPI Hd Hp H; cbn in H.
  - okinv H. exact HPI.
  - destruct Hc as [Hr Hrest]. destruct (guard r s c) as [[|]| |] eqn:G; cbn in H; try discriminate H.
    + eapply Hr; eauto.
    + eapply (IH _ Hrest); eauto.
Qed.

Lemma rule_pres_weaken (P Q : pst -> ascii -> Prop) r :
  (forall s c, Q s c -> P s c) -> rule_pres P r -> rule_pres Q r.
Proof. intros HW HP s c s' b HPI Hd Hq. apply HP; auto. Qed.

Ltac from_prev :=
  let s := fresh "s" in let c := fresh "c" in let H := fresh "H" in
  intros s c H; repeat match type of H with _ /\ _ => let H2 := fresh "H" in destruct H as [H H2] end;
  repeat match goal with
         | X : guard r_capturing_regex _ _ = Ok false |- _ => cbn in X; injection X as X
         end;
  try exact I; try assumption; try (split; assumption).

Lemma rules_chain : chain_pres (fun _ _ => True) (rules strip sepc).
Proof.
  unfold rules. cbn [chain_pres]. repeat (match goal with |- _ /\ _ => split end); [..|exact I].
  - apply pres_escape_next.
  - eapply rule_pres_weaken; [|apply pres_capturing_regex]. from_prev.
  - eapply rule_pres_weaken; [|apply pres_backslash]. from_prev.
  - eapply rule_pres_weaken; [|apply pres_space]. from_prev.
  - eapply rule_pres_weaken; [|apply pres_regex_delim]. from_prev.
  - eapply rule_pres_weaken; [|apply pres_anchor_mark]. from_prev.
  - eapply rule_pres_weaken; [|apply pres_collector_operator]. from_prev.
  - eapply rule_pres_weaken; [|apply pres_must_be]. from_prev.
  - eapply rule_pres_weaken; [|apply pres_quote]. from_prev.
  - eapply rule_pres_weaken; [|apply pres_open_paren]. from_prev.
  - eapply rule_pres_weaken; [|apply pres_close_keyword]. from_prev.
  - eapply rule_pres_weaken; [|apply pres_close_collector]. from_prev.
  - eapply rule_pres_weaken; [|apply pres_open_bracket]. from_prev.
  - eapply rule_pres_weaken; [|apply pres_search_operator]. from_prev.
  - eapply rule_pres_weaken; [|apply pres_nested_bracket]. from_prev.
  - eapply rule_pres_weaken; [|apply pres_close_bracket]. from_prev.
  - eapply rule_pres_weaken; [|apply pres_stray_close_bracket]. from_prev.
  - eapply rule_pres_weaken; [|apply pres_separator]. from_prev.
Qed.

(* demarc_count never falls behind the stack (it is one ahead after a regular
   expression closed: that pop does not update the local) *)
Definition dgood (o : outcome (pst * bool)) : Prop :=
  match o with
  | Ok (s', _) => List.length (stack s') <= dcount s'
  | _ => True
  end.

Lemma flush_expand_dspec s :
  (exists s', flush_expand s = Ok s' /\ stack s' = stack s /\ dcount s' = dcount s)
  \/ (exists e, flush_expand s = Raise e) \/ flush_expand s = OutOfFuel.
Proof.
  unfold flush_expand. destruct (nonempty (sid s)).
  - destruct (expand_splats (sid s) (key_if_none (stype s))) as [a|e|]; cbn.
    + left; eexists; split; [reflexivity|]; cbn; auto.
    + right; left; eauto.
    + right; right; reflexivity.
  - left; eauto.
Qed.

Ltac use_flush_d :=
  match goal with
  | |- context[flush_expand ?s] =>
      let s' := fresh "fs" in let k := fresh "k" in
      let E := fresh "E" in let E1 := fresh "E" in let E2 := fresh "E" in
      destruct (flush_expand_dspec s) as [[s' [E [E1 E2]]]|[[k E]|E]]; rewrite E; clear E;
      [destruct s'; simpl in E1, E2; subst | | ]
  end.

Ltac crunch_d :=
  repeat (cbn -[is_keyword keyword_of_name upper_str py_int undemarcate mem_ascii flush_expand
                Nat.ltb Nat.eqb Ascii.eqb nonempty str_in bottom_of] in *;
          first
          [ use_flush_d
          | use_bottom
          | progress unfold take_attr in *
          | match goal with
            | |- context[match keyword_of_name ?x with _ => _ end] => destruct (keyword_of_name x) eqn:?
            | |- context[match py_int ?x with _ => _ end] => destruct (py_int x) eqn:?
            | |- context[if ?b then _ else _] => destruct b eqn:?
            | |- context[match ?x with Some _ => _ | None => _ end] => destruct x eqn:?
            | |- context[match ?x with MContains => _ | _ => _ end] => destruct x eqn:?
            | |- context[match ?x with TAnchor => _ | _ => _ end] => destruct x eqn:?
            end ]).

Lemma first_rule_dcount s c :
  dcount s = List.length (stack s) -> dgood (first_rule (rules strip sepc) s c).
Proof.
  intros Hd. destruct s as [segs0 sid0 stype0 stk esc0 sinv0 smeth0 sattr0 skw0 seekre0 cap0
                            clevel0 copr0 seekcop0 ncmb0 seekanc0 dc td0].
  simpl in Hd. subst dc.
  destruct stk as [|t stk]; unfold rules, first_rule, dgood; crunch_d; cbn; try exact I; lia.
Qed.

(* ---- lifting through step, run, finish ---- *)
Lemma PI_pre_step s c : PI s -> PI (pre_step s c).
Proof.
  intros H. unfold pre_step. cbn. destruct (ncmb s) as [m|]; [destruct (Ascii.eqb c m)|]; exact H.
Qed.

Lemma dcount_pre_step s c : dcount (pre_step s c) = List.length (stack (pre_step s c)).
Proof.
  unfold pre_step. cbn. destruct (ncmb s) as [m|]; [destruct (Ascii.eqb c m)|]; reflexivity.
Qed.

Definition RI (s : pst) : Prop := PI s /\ List.length (stack s) <= dcount s.

Lemma step_pres s c s' : PI s -> step strip sepc s c = Ok s' -> RI s'.
Proof.
  intros HPI H. unfold step in H.
  pose proof (first_rule_dcount (pre_step s c) c (dcount_pre_step s c)) as D.
  destruct (first_rule (rules strip sepc) (pre_step s c) c) as [[s1 b]| |] eqn:E; cbn in H; try discriminate H.
  pose proof (first_rule_pres _ _ rules_chain _ _ _ _ (PI_pre_step s c HPI) (dcount_pre_step s c) I E) as P.
  cbn in D. destruct b; okinv H; split; auto.
Qed.

Lemma run_pres str : forall s s', RI s -> run strip sepc s str = Ok s' -> RI s'.
Proof.
  induction str as [|c r IH]; intros s s' HR H; cbn in H.
  - okinv H. exact HR.
  - destruct (step strip sepc s c) as [s1| |] eqn:E; cbn in H; try discriminate H.
    eapply IH; [|exact H]. eapply step_pres; [apply HR | exact E].
Qed.

Lemma finish_pres s l : RI s -> finish s = Ok l -> segs_paired l = true.
Proof.
  intros [HPI Hd] H. unfold finish in H.
  destruct (0 <? clevel s) eqn:E1; [discriminate H|].
  destruct (cap_re s) eqn:E2; [discriminate H|].
  destruct (0 <? dcount s) eqn:E3; [discriminate H|].
  apply Nat.ltb_ge in E1, E3.
  assert (Hs : stack s = []) by (destruct (stack s); [reflexivity | cbn in Hd; lia]).
  destruct (flush_expand s) as [fs| |] eqn:EF; cbn in H; try discriminate H. okinv H.
  apply flush_expand_pairs in EF; [apply EF | exact HPI | lia |].
  unfold estk. rewrite E2, Hs. reflexivity.
Qed.
End Pres.

Lemma RI_init b : RI (init_pst b).
Proof. split; [|cbn; lia]. unfold PI, estk. cbn. apply PIf_top. reflexivity. Qed.

(* every text the parser accepts has properly paired segments *)
Theorem parse_paired m strip text segs :
  parse m strip text = Ok segs -> segs_paired segs = true.
Proof.
  unfold parse. destruct (normalize_original text) as [|c0 rest]; [intros H; okinv H; reflexivity|].
  destruct (nth_char _ _) as [c1|]; [|discriminate].
  destruct (run strip _ _ _) as [s'| |] eqn:E; cbn; try discriminate.
  intros H. eapply finish_pres; [|exact H]. eapply run_pres; [apply RI_init | exact E].
Qed.


(* the same, spelled out per segment *)
Theorem parse_paired_explicit m strip text segs :
  parse m strip text = Ok segs ->
  forall ty a, In (ty, a) segs ->
    ty <> None /\
    (ty = Some TCollector -> exists op e, a = ACollector op e) /\
    (ty = Some TKeywordSearch -> exists i k p, a = AKeyword i k p) /\
    (ty = Some TSearch -> exists i mth attr term, a = ASearch i mth attr term).
Proof.
  intros H ty a Hin. apply parse_paired in H. unfold segs_paired in H.
  rewrite forallb_forall in H. specialize (H _ Hin).
  destruct ty as [[]|]; destruct a; cbn in H; try discriminate H;
    repeat split; try discriminate; intros _; eauto.
Qed.
