(* C06: what an entry says about the two documents in EVERY mode and under
   every configuration (position, value, key, deep, per-path [rules] / [keys]).

   Under positional comparison the entry's location is where both documents
   hold the entry's values (C06_truthful).  In the synchronised modes the two
   values of an entry live at DIFFERENT indices of a re-ordered list, and the
   entry's path takes, list by list, either the left or the right index:
     value mode      matched pair: entries beneath at the LEFT index; unmatched
                     left: DELETE at the left index; unmatched right: ADD at the
                     RIGHT index - or CHANGE at the right index when a DELETE with
                     an equal path is popped (its left value is that DELETE's);
     key mode        matched records: SAME/CHANGE at the LEFT index;
     deep mode       matched records: every entry beneath at the RIGHT index.
   [sgood]: there are a left location lL and a right location lR such that the
   right value is what the right document holds at lR, the left value is what the
   left document holds at lL (for a popped CHANGE: at the location of the DELETE
   it replaced), and the entry's location agrees, position by position, with lL
   or with lR (keys and members are the same in all three). *)
From Coq Require Import List Ascii String ZArith NArith Bool Arith Lia Permutation.
From YP Require Import Outcome PyStr PyVal Doc Diff C06Spec DiffBase DiffEq DiffKeys DiffSync DiffSym DiffAcct
  DiffKSync DiffCover DiffIff DiffPos DiffIffCfg.
Import ListNotations.
Open Scope nat_scope.
Open Scope list_scope.

Inductive mix : loc -> loc -> loc -> Prop :=
| mix_nil : mix [] [] []
| mix_same : forall r q qL qR, mix q qL qR -> mix (q ++ [r]) (qL ++ [r]) (qR ++ [r])
| mix_left : forall i j q qL qR, mix q qL qR -> mix (q ++ [RIdx i]) (qL ++ [RIdx i]) (qR ++ [RIdx j])
| mix_right : forall i j q qL qR, mix q qL qR -> mix (q ++ [RIdx j]) (qL ++ [RIdx i]) (qR ++ [RIdx j]).

Lemma leftover_in : forall red lidx le ridx re, In (lidx, le, ridx, re) (leftover red) ->
  lidx = None /\ exists ri, ridx = Some ri.
Proof.
  intros red lidx le ridx re H. unfold leftover in H. apply in_map_iff in H.
  destruct H as [[n y] [E _]]. inversion E; subst. split; auto. eexists; reflexivity.
Qed.

Lemma sync_value_go_ridx : forall lhs red le ridx re,
  In (None, le, ridx, re) (sync_value_go lhs red) -> exists ri, ridx = Some ri.
Proof.
  induction lhs as [|[i x] rest IH]; simpl; intros red le ridx re H.
  - apply leftover_in in H. tauto.
  - destruct (extract_first (fun p => val_eq (snd p) x) red) as [[[rj ry] red']|];
      (destruct H as [H|H]; [discriminate | eapply IH; eauto]).
Qed.

Lemma sync_key_go_ridx : forall c r K lhs red le ridx re,
  In (None, le, ridx, re) (sync_key_go c r K lhs red) -> exists ri, ridx = Some ri.
Proof.
  intros c r K. induction lhs as [|[i x] rest IH]; simpl; intros red le ridx re H.
  - apply leftover_in in H. tauto.
  - destruct (negb _).
    + destruct H as [H|H]; [discriminate | eapply IH; eauto].
    + destruct (extract_first (key_match c r K x) red) as [[[rj ry] red']|];
        (destruct H as [H|H]; [discriminate | eapply IH; eauto]).
Qed.

Section Truth.
  Variable path_eq : string -> string -> outcome bool.
  Variable cfg : dcfg.
  Variables L R : node.
  Hypothesis HwfL : wf_doc L = true.
  Hypothesis HwfR : wf_doc R = true.

  Definition sgood (e : entry) : Prop :=
    exists lL lR,
      mix (e_loc e) lL lR /\
      (has_right e = true -> lookup R lR = Some (e_rhs e)) /\
      (has_left e = true ->
         lookup L lL = Some (e_lhs e) \/
         (e_action e = AChange /\ exists l', lookup L l' = Some (e_lhs e))) /\
      (e_action e = ASame -> val_eq (e_lhs e) (e_rhs e) = true).

  Definition rec_sgood (rec : rec_t) : Prop :=
    forall path q l r par pref a a' qL qR,
      mix q qL qR -> lookup L qL = Some l -> lookup R qR = Some r ->
      rec path q l r par pref a = Ok a' -> Forall sgood a -> Forall sgood a'.

  Lemma sgood_del : forall path q qL qR l ref c,
    mix q qL qR -> lookup L qL = Some l -> child l ref = Some c -> sgood (del_entry path (q ++ [ref]) c).
  Proof.
    intros path q qL qR l ref c Hm Hl Hc. exists (qL ++ [ref]), (qR ++ [ref]).
    unfold del_entry; simpl. split; [apply mix_same; exact Hm|]. repeat split; try discriminate.
    intros _. left. rewrite (lookup_snoc _ _ _ _ Hl). exact Hc.
  Qed.

  Lemma sgood_add : forall path q qL qR r ref c,
    mix q qL qR -> lookup R qR = Some r -> child r ref = Some c -> sgood (add_entry path (q ++ [ref]) c).
  Proof.
    intros path q qL qR r ref c Hm Hr Hc. exists (qL ++ [ref]), (qR ++ [ref]).
    unfold add_entry; simpl. split; [apply mix_same; exact Hm|]. repeat split; try discriminate.
    intros _. rewrite (lookup_snoc _ _ _ _ Hr). exact Hc.
  Qed.

  Lemma sgood_here : forall act path q qL qR l r,
    mix q qL qR -> lookup L qL = Some l -> lookup R qR = Some r ->
    (act = ASame -> val_eq l r = true) -> sgood (mkentry act path q l r).
  Proof.
    intros act path q qL qR l r Hm Hl Hr Hs. exists qL, qR. simpl. repeat split; auto.
  Qed.

  Lemma sgood_cmp : forall path q qL qR l r,
    mix q qL qR -> lookup L qL = Some l -> lookup R qR = Some r -> sgood (cmp_entry path q l r).
  Proof.
    intros. unfold cmp_entry. eapply sgood_here; eauto.
    destruct (val_eq l r); auto; discriminate.
  Qed.

  Lemma sgood_del_here : forall path q qL qR l, mix q qL qR -> lookup L qL = Some l -> sgood (del_entry path q l).
  Proof.
    intros path q qL qR l Hm Hl. exists qL, qR. unfold del_entry; simpl. repeat split; auto; discriminate.
  Qed.
  Lemma sgood_add_here : forall path q qL qR r, mix q qL qR -> lookup R qR = Some r -> sgood (add_entry path q r).
  Proof.
    intros path q qL qR r Hm Hr. exists qL, qR. unfold add_entry; simpl. repeat split; auto; discriminate.
  Qed.

  Lemma purge_sgood : forall path q qL qR l root a,
    mix q qL qR -> lookup L qL = Some l -> Forall sgood a -> Forall sgood (purge path q l root a).
  Proof.
    intros path q qL qR l root a Hm Hl Ha.
    pose proof (wf_lookup _ _ _ HwfL Hl) as Hwf.
    destruct l as [i v|i kvs|i els|i els]; simpl.
    - destruct ((match v with PNone => true | _ => false end) && root); auto.
      constructor; auto. eapply sgood_del_here; eauto.
    - destruct (wf_map_inv _ _ Hwf) as [H1 [H2 _]].
      apply Forall_rev_map_app; auto. intros [k w] Hin. simpl.
      eapply sgood_del; eauto. simpl. apply assoc_key_in; auto.
    - apply Forall_rev_map_app; auto. intros [n x] Hin. simpl.
      eapply sgood_del; eauto. simpl. apply enumerate_nth; auto.
    - destruct (wf_set_inv _ _ Hwf) as [H1 H2].
      apply Forall_rev_map_app; auto. intros m Hin.
      eapply sgood_del; eauto. simpl. apply find_member_in; auto.
  Qed.

  Lemma add_everything_sgood : forall path q qL qR r root a,
    mix q qL qR -> lookup R qR = Some r -> Forall sgood a -> Forall sgood (add_everything path q r root a).
  Proof.
    intros path q qL qR r root a Hm Hr Ha.
    pose proof (wf_lookup _ _ _ HwfR Hr) as Hwf.
    destruct r as [i v|i kvs|i els|i els]; simpl.
    - destruct ((match v with PNone => true | _ => false end) && root); auto.
      constructor; auto. eapply sgood_add_here; eauto.
    - destruct (wf_map_inv _ _ Hwf) as [H1 [H2 _]].
      apply Forall_rev_map_app; auto. intros [k w] Hin. simpl.
      eapply sgood_add; eauto. simpl. apply assoc_key_in; auto.
    - apply Forall_rev_map_app; auto. intros [n x] Hin. simpl.
      eapply sgood_add; eauto. simpl. apply enumerate_nth; auto.
    - destruct (wf_set_inv _ _ Hwf) as [H1 H2].
      apply Forall_rev_map_app; auto. intros m Hin.
      eapply sgood_add; eauto. simpl. apply find_member_in; auto.
  Qed.

  Lemma clash_sgood : forall path q qL qR l r root a a',
    mix q qL qR -> lookup L qL = Some l -> lookup R qR = Some r -> Forall sgood a ->
    (let a1 := add_everything path q r root (purge path q l root a) in
     if Nat.eqb (List.length a1) (List.length a)
     then Ok (mkentry AChange path q l r :: a1) else Ok a1) = Ok a' ->
    Forall sgood a'.
  Proof.
    intros path q qL qR l r root a a' Hm Hl Hr Ha H. simpl in H.
    assert (G : Forall sgood (add_everything path q r root (purge path q l root a))).
    { eapply add_everything_sgood; eauto. eapply purge_sgood; eauto. }
    destruct (Nat.eqb _ _); inversion H; subst; auto.
    constructor; auto. eapply sgood_here; eauto. discriminate.
  Qed.

  Lemma dicts_sgood : forall rec path q qL qR i lkvs j rkvs a a',
    rec_sgood rec -> mix q qL qR ->
    lookup L qL = Some (NMap i lkvs) -> lookup R qR = Some (NMap j rkvs) ->
    diff_dicts rec path q (NMap i lkvs) (NMap j rkvs) lkvs rkvs a = Ok a' ->
    Forall sgood a -> Forall sgood a'.
  Proof.
    intros rec path q qL qR i lkvs j rkvs a a' Hrec Hm Hl Hr H Ha.
    pose proof (wf_lookup _ _ _ HwfL Hl) as HwL.
    pose proof (wf_lookup _ _ _ HwfR Hr) as HwR.
    destruct (wf_map_inv _ _ HwL) as [Lp [Ln _]].
    destruct (wf_map_inv _ _ HwR) as [Rp [Rn _]].
    unfold diff_dicts in H.
    destruct (negb _).
    - inversion H; subst. constructor; [|constructor; auto].
      + eapply sgood_add_here; eauto.
      + eapply sgood_del_here; eauto.
    - match type of H with (bind ?F _ = _) => destruct F as [acc1| |] eqn:EF end; simpl in H; try discriminate.
      inversion H; subst; clear H.
      assert (G1 : Forall sgood acc1).
      { eapply (foldM_inv _ (Forall sgood)); [ | exact EF | exact Ha].
        intros b [k rv] b' Hin Hf Hb. simpl in Hf.
        destruct (map_get k lkvs) as [lv|] eqn:Eg; [|inversion Hf; subst; auto].
        destruct (map_has k rkvs); [|inversion Hf; subst; auto].
        assert (Hk : plain_leaf k = true).
        { rewrite forallb_forall in Rp. apply (Rp (k, rv) Hin). }
        eapply (Hrec _ _ _ _ _ _ _ _ (qL ++ [RKey (key_val k)]) (qR ++ [RKey (key_val k)]));
          [apply mix_same; exact Hm | | | exact Hf | exact Hb].
        - rewrite (lookup_snoc _ _ _ _ Hl). simpl. rewrite <- map_get_assoc; auto.
        - rewrite (lookup_snoc _ _ _ _ Hr). simpl. apply assoc_key_in; auto. }
      apply Forall_rev_map_app.
      { intros [k v] Hin. apply filter_In in Hin. destruct Hin as [Hin _]. simpl.
        eapply sgood_add; eauto. simpl. apply assoc_key_in; auto. }
      apply Forall_rev_map_app; auto.
      intros [k v] Hin. apply filter_In in Hin. destruct Hin as [Hin _]. simpl.
      eapply sgood_del; eauto. simpl. apply assoc_key_in; auto.
  Qed.

  Lemma sets_sgood : forall rec path q qL qR i lels j rels a a',
    rec_sgood rec -> mix q qL qR ->
    lookup L qL = Some (NSet i lels) -> lookup R qR = Some (NSet j rels) ->
    diff_sets rec path q (NSet i lels) (NSet j rels) lels rels a = Ok a' ->
    Forall sgood a -> Forall sgood a'.
  Proof.
    intros rec path q qL qR i lels j rels a a' Hrec Hm Hl Hr H Ha.
    pose proof (wf_lookup _ _ _ HwfL Hl) as HwL.
    pose proof (wf_lookup _ _ _ HwfR Hr) as HwR.
    destruct (wf_set_inv _ _ HwL) as [Lp Ln].
    destruct (wf_set_inv _ _ HwR) as [Rp Rn].
    unfold diff_sets in H.
    match type of H with (bind ?F _ = _) => destruct F as [acc1| |] eqn:EF end; simpl in H; try discriminate.
    inversion H; subst; clear H.
    assert (G1 : Forall sgood acc1).
    { eapply (foldM_inv _ (Forall sgood)); [ | exact EF | exact Ha].
      intros b k b' Hin Hf Hb. simpl in Hf.
      destruct (set_has k lels) eqn:E1; simpl in Hf; [|inversion Hf; subst; auto].
      destruct (set_has k rels) eqn:E2; simpl in Hf; [|inversion Hf; subst; auto].
      assert (Hk : plain_leaf k = true) by (rewrite forallb_forall in Rp; auto).
      eapply (Hrec _ _ _ _ _ _ _ _ (qL ++ [RMember (key_val k)]) (qR ++ [RMember (key_val k)]));
        [apply mix_same; exact Hm | | | exact Hf | exact Hb].
      - rewrite (lookup_snoc _ _ _ _ Hl). simpl. apply set_find_member; auto.
      - rewrite (lookup_snoc _ _ _ _ Hr). simpl. apply set_find_member; auto. }
    apply Forall_rev_map_app.
    { intros k Hin. apply filter_In in Hin. destruct Hin as [Hin _].
      eapply sgood_add; eauto. simpl. apply find_member_in; auto. }
    apply Forall_rev_map_app; auto.
    intros k Hin. apply filter_In in Hin. destruct Hin as [Hin _].
    eapply sgood_del; eauto. simpl. apply find_member_in; auto.
  Qed.

  Lemma zip_sgood : forall rec deep path q qL qR r0 i lels0 j rels0,
    rec_sgood rec -> mix q qL qR ->
    lookup L qL = Some (NSeq i lels0) -> lookup R qR = Some (NSeq j rels0) ->
    forall lels idx rels a a',
      (forall k, nth_error lels k = nth_error lels0 (idx + k)) ->
      (forall k, nth_error rels k = nth_error rels0 (idx + k)) ->
      zip_go rec deep path q r0 idx lels rels a = Ok a' ->
      Forall sgood a -> Forall sgood a'.
  Proof.
    intros rec deep path q qL qR r0 i lels0 j rels0 Hrec Hm Hl Hr.
    induction lels as [|le lr IH]; simpl; intros idx rels a a' HL HR H Ha.
    - inversion H; subst. apply Forall_rev_map_app; auto.
      intros [n x] Hin. simpl. eapply sgood_add; eauto. simpl.
      destruct (enumerate_from_nth _ _ _ _ Hin) as [k [-> Hk]]. rewrite <- HR. exact Hk.
    - assert (Hle : nth_error lels0 idx = Some le).
      { rewrite <- (Nat.add_0_r idx). rewrite <- HL. reflexivity. }
      assert (HL' : forall k, nth_error lr k = nth_error lels0 (S idx + k)).
      { intros k. replace (S idx + k) with (idx + S k) by lia. rewrite <- HL. reflexivity. }
      destruct rels as [|re rr].
      + eapply IH; [exact HL' | | exact H | ].
        * intros k. replace (S idx + k) with (idx + S k) by lia. rewrite <- HR. destruct k; reflexivity.
        * constructor; auto. eapply sgood_del; eauto.
      + assert (Hre : nth_error rels0 idx = Some re).
        { rewrite <- (Nat.add_0_r idx). rewrite <- HR. reflexivity. }
        assert (HR' : forall k, nth_error rr k = nth_error rels0 (S idx + k)).
        { intros k. replace (S idx + k) with (idx + S k) by lia. rewrite <- HR. reflexivity. }
        match type of H with (bind ?F _ = _) => destruct F as [a1| |] eqn:EF end; simpl in H; try discriminate.
        eapply IH; [exact HL' | exact HR' | exact H | ].
        assert (M' : mix (q ++ [RIdx idx]) (qL ++ [RIdx idx]) (qR ++ [RIdx idx])) by (apply mix_same; exact Hm).
        assert (LL : lookup L (qL ++ [RIdx idx]) = Some le) by (rewrite (lookup_snoc _ _ _ _ Hl); exact Hle).
        assert (RR : lookup R (qR ++ [RIdx idx]) = Some re) by (rewrite (lookup_snoc _ _ _ _ Hr); exact Hre).
        destruct deep.
        * eapply Hrec; [exact M' | exact LL | exact RR | exact EF | exact Ha].
        * inversion EF; subst. constructor; auto. eapply sgood_cmp; eauto.
  Qed.

  (* a tuple of either synchroniser names real elements of the two lists *)
  Definition tuples_ok (ps : list spair) (lels rels : list node) : Prop :=
    (forall li le ridx re, In (Some li, le, ridx, re) ps -> nth_error lels li = Some le) /\
    (forall lidx le ri re, In (lidx, le, Some ri, re) ps -> nth_error rels ri = Some re) /\
    (forall le ridx re, In (None, le, ridx, re) ps -> exists ri, ridx = Some ri).

  Lemma sync_value_ok : forall lels rels, tuples_ok (sync_value lels rels) lels rels.
  Proof.
    intros lels rels. destruct (sync_value_accounting lels rels) as [El Pr]. repeat split.
    - intros li le ridx re H. apply in_lefts in H. rewrite El in H. apply enumerate_nth; auto.
    - intros lidx le ri re H. apply in_rights in H. apply (Permutation_in _ Pr) in H. apply enumerate_nth; auto.
    - intros le ridx re H. eapply sync_value_go_ridx; eauto.
  Qed.

  Lemma sync_key_ok : forall r lels rels, tuples_ok (sync_key cfg r lels rels) lels rels.
  Proof.
    intros r lels rels. destruct (sync_key_accounting cfg r lels rels) as [El Pr]. repeat split.
    - intros li le ridx re H. apply in_lefts in H. rewrite El in H. apply enumerate_nth; auto.
    - intros lidx le ri re H. apply in_rights in H. apply (Permutation_in _ Pr) in H. apply enumerate_nth; auto.
    - intros le ridx re H. unfold sync_key in H. eapply sync_key_go_ridx; eauto.
  Qed.

  Lemma synced_sgood : forall rec path q qL qR r0 i lels j rels a a',
    rec_sgood rec -> mix q qL qR ->
    lookup L qL = Some (NSeq i lels) -> lookup R qR = Some (NSeq j rels) ->
    diff_synced path_eq rec path q r0 lels rels a = Ok a' ->
    Forall sgood a -> Forall sgood a'.
  Proof.
    intros rec path q qL qR r0 i lels j rels a a' Hrec Hm Hl Hr H Ha. unfold diff_synced in H.
    destruct (sync_value_ok lels rels) as [TL [TR TN]].
    eapply (foldM_inv _ (Forall sgood)); [ | exact H | exact Ha].
    intros b [[[lidx lele] ridx] rele] b' Hin Hf Hb. simpl in Hf.
    destruct lidx as [li|].
    - pose proof (TL _ _ _ _ Hin) as Nl.
      destruct ridx as [ri|].
      + pose proof (TR _ _ _ _ Hin) as Nr.
        eapply (Hrec _ _ _ _ _ _ _ _ (qL ++ [RIdx li]) (qR ++ [RIdx ri]));
          [apply mix_left; exact Hm | | | exact Hf | exact Hb].
        * rewrite (lookup_snoc _ _ _ _ Hl). exact Nl.
        * rewrite (lookup_snoc _ _ _ _ Hr). exact Nr.
      + inversion Hf; subst. constructor; auto. eapply sgood_del; eauto.
    - destruct (TN _ _ _ Hin) as [ri ->]. pose proof (TR _ _ _ _ Hin) as Nr. simpl in Hf.
      destruct (find_delete path_eq (path_add_idx path (Some ri)) b) as [[[d b'']|]| |] eqn:F;
        simpl in Hf; try discriminate; inversion Hf; subst; clear Hf.
      + destruct (find_delete_spec path_eq _ _ _ _ F) as [Ad P].
        assert (Hb2 : Forall sgood (d :: b'')).
        { apply Forall_forall. intros e He. rewrite Forall_forall in Hb. apply Hb.
          eapply Permutation_in; [apply Permutation_sym; exact P | exact He]. }
        inversion Hb2 as [|? ? Gd Gb]; subst. constructor; auto.
        destruct Gd as [lL [lR [_ [_ [GL _]]]]].
        assert (HLd : exists l', lookup L l' = Some (e_lhs d)).
        { unfold has_left in GL. rewrite Ad in GL. destruct (GL eq_refl) as [X|[X _]]; [eauto | congruence]. }
        exists (qL ++ [RIdx ri]), (qR ++ [RIdx ri]). simpl. split; [apply mix_same; exact Hm|].
        repeat split; try discriminate.
        * intros _. rewrite (lookup_snoc _ _ _ _ Hr). exact Nr.
        * intros _. right. split; auto.
      + constructor; auto. eapply sgood_add; eauto.
  Qed.

  Lemma keyed_sgood : forall rec d path q qL qR i lels j rels a a',
    rec_sgood rec -> mix q qL qR ->
    lookup L qL = Some (NSeq i lels) -> lookup R qR = Some (NSeq j rels) ->
    foldM (key_fold rec d path q (NSeq j rels)) (sync_key cfg (NSeq j rels) lels rels) a = Ok a' ->
    Forall sgood a -> Forall sgood a'.
  Proof.
    intros rec d path q qL qR i lels j rels a a' Hrec Hm Hl Hr H Ha.
    destruct (sync_key_ok (NSeq j rels) lels rels) as [TL [TR TN]].
    eapply (foldM_inv _ (Forall sgood)); [ | exact H | exact Ha].
    intros b [[[lidx lele] ridx] rele] b' Hin Hf Hb. simpl in Hf.
    destruct lidx as [li|].
    - pose proof (TL _ _ _ _ Hin) as Nl.
      destruct ridx as [ri|].
      + pose proof (TR _ _ _ _ Hin) as Nr.
        assert (LL : lookup L (qL ++ [RIdx li]) = Some lele) by (rewrite (lookup_snoc _ _ _ _ Hl); exact Nl).
        assert (RR : lookup R (qR ++ [RIdx ri]) = Some rele) by (rewrite (lookup_snoc _ _ _ _ Hr); exact Nr).
        destruct d.
        * eapply (Hrec _ _ _ _ _ _ _ _ (qL ++ [RIdx li]) (qR ++ [RIdx ri]));
            [apply mix_right; exact Hm | exact LL | exact RR | exact Hf | exact Hb].
        * inversion Hf; subst. constructor; auto. eapply sgood_cmp; [apply mix_left; exact Hm | exact LL | exact RR].
      + inversion Hf; subst. constructor; auto. eapply sgood_del; eauto.
    - destruct (TN _ _ _ Hin) as [ri ->]. pose proof (TR _ _ _ _ Hin) as Nr.
      inversion Hf; subst. constructor; auto. eapply sgood_add; eauto.
  Qed.

  Lemma lists_sgood : forall rec path q qL qR i lels j rels par pref a a',
    rec_sgood rec -> mix q qL qR ->
    lookup L qL = Some (NSeq i lels) -> lookup R qR = Some (NSeq j rels) ->
    diff_lists path_eq cfg rec path q (NSeq i lels) (NSeq j rels) lels rels par pref a = Ok a' ->
    Forall sgood a -> Forall sgood a'.
  Proof.
    intros rec path q qL qR i lels j rels par pref a a' Hrec Hm Hl Hr H Ha.
    destruct (opt_str_eqb (tag (node_info (NSeq i lels))) (tag (node_info (NSeq j rels)))) eqn:Tg.
    2:{ unfold diff_lists in H. rewrite Tg in H. simpl in H. inversion H; subst.
        constructor; [|constructor; auto]; [eapply sgood_add_here | eapply sgood_del_here]; eauto. }
    destruct (lists_dispatch_c _ _ _ _ _ _ _ _ _ _ _ _ _ Tg H) as [m [_ Hrun]].
    destruct m as [dd| |dd].
    - eapply (zip_sgood rec dd path q qL qR (NSeq j rels) i lels j rels Hrec Hm Hl Hr lels 0 rels a a');
        auto; intros k; reflexivity.
    - eapply synced_sgood; eauto.
    - eapply keyed_sgood; eauto.
  Qed.

  Lemma body_sgood : forall rec, rec_sgood rec -> rec_sgood (diff_body path_eq cfg rec).
  Proof.
    intros rec Hrec path q l r par pref a a' qL qR Hm Hl Hr H Ha.
    destruct l as [i v|i lkvs|i lels|i lels], r as [j w|j rkvs|j rels|j rels]; simpl in H;
      try (eapply (clash_sgood path q qL qR _ _ (match par with None => true | Some _ => false end));
           [exact Hm | exact Hl | exact Hr | exact Ha | exact H]).
    - inversion H; subst. constructor; auto. eapply sgood_cmp; eauto.
    - eapply dicts_sgood; eauto.
    - eapply lists_sgood; eauto.
    - eapply sets_sgood; eauto.
  Qed.

  Lemma between_sgood : forall fuel, rec_sgood (diff_between path_eq cfg fuel).
  Proof.
    induction fuel as [|f IH].
    - intros path q l r par pref a a' qL qR _ _ _ H. simpl in H. discriminate.
    - intros path q l r par pref a a' qL qR Hm Hl Hr H Ha. simpl in H. eapply body_sgood; eauto.
  Qed.

  Theorem compare_to_sgood : forall es,
    compare_to path_eq cfg L R = Ok es -> Forall sgood es.
  Proof.
    intros es H. unfold compare_to in H.
    match type of H with (bind ?F _ = _) => destruct F as [acc| |] eqn:EF end; simpl in H; try discriminate.
    inversion H; subst.
    apply Forall_forall. intros e He. apply in_rev in He. revert e He. apply Forall_forall.
    eapply (between_sgood _ _ _ _ _ _ _ _ _ [] []); [apply mix_nil | | | exact EF | constructor]; reflexivity.
  Qed.
End Truth.

Lemma sync_truthful : forall path_eq cfg L R es,
  wf_doc L = true -> wf_doc R = true ->
  compare_to path_eq cfg L R = Ok es -> Forall (sgood L R) es.
Proof. intros. eapply compare_to_sgood; eauto. Qed.

(* positional truthfulness is the special case lL = lR = the entry's location *)
Lemma mix_refl : forall l, mix l l l.
Proof. induction l as [|r l IH] using rev_ind; [apply mix_nil | apply mix_same; exact IH]. Qed.

Lemma truthful_sgood : forall L R e, truthful L R e ->
  (e_action e = ASame -> val_eq (e_lhs e) (e_rhs e) = true) -> sgood L R e.
Proof.
  intros L R e [T1 T2] Hs. exists (e_loc e), (e_loc e). split; [apply mix_refl|]. repeat split; auto.
Qed.

(* ---- why [truthful] as stated cannot hold in the synchronised modes ---- *)
Open Scope string_scope.
Definition deep_cfg : dcfg := mkdcfg false [] [] (Some "position") (Some "deep") None None.
Definition kv_rec (o : N) (kvs : list (string * Z)) : node :=
  NMap (ci o) (map (fun p => (pl_leaf (o + 1 + Z.to_N (snd p)) (PStr (fst p)),
                              pl_leaf (o + 5 + Z.to_N (snd p)) (PInt (snd p)))) kvs).
Definition deep_L : node := NSeq (ci 0) [kv_rec 10 [("id", 1%Z); ("a", 1%Z)]; kv_rec 30 [("id", 2%Z); ("b", 2%Z)]].
Definition deep_R : node := NSeq (ci 100) [kv_rec 110 [("id", 2%Z)]; kv_rec 130 [("id", 1%Z); ("a", 1%Z)]].

(* --aoh deep: `[{id: 1, a: 1}, {id: 2, b: 2}]` vs `[{id: 2}, {id: 1, a: 1}]` reports
   DELETE [0].b = 2: the path carries the RIGHT index of the matched record, the left
   document holds nothing at [0].b and holds the deleted value at [1].b *)
Lemma truthful_deep_witness :
  wf_doc deep_L = true /\ wf_doc deep_R = true /\ kguard_c deep_cfg deep_L deep_R None PNone = true /\
  exists es, compare_to path_eq_real deep_cfg deep_L deep_R = Ok es /\
    exists e, nth_error es 3 = Some e /\ e_action e = ADelete /\ e_path e = "[0].b" /\
      e_loc e = [RIdx 0; RKey (PStr "b")] /\
      lookup deep_L (e_loc e) = None /\
      lookup deep_L [RIdx 1; RKey (PStr "b")] = Some (e_lhs e).
Proof.
  repeat split; try (vm_compute; reflexivity).
  eexists. split; [vm_compute; reflexivity|].
  eexists. split; [reflexivity|]. repeat split.
Qed.

(* --arrays value: `[1, 2]` vs `[2, 3]`: the matched 2 is SAME at the LEFT index [1]
   (the right document holds it at [0]); 1 is deleted at [0]; 3 is added at its RIGHT
   index [1] *)
Definition value_cfg : dcfg := mkdcfg false [] [] (Some "value") (Some "position") None None.
Lemma truthful_value_witness :
  exists es, compare_to path_eq_real value_cfg (ints 0 [1; 2]%Z) (ints 100 [2; 3]%Z) = Ok es /\
    map (fun e => (e_action e, e_loc e, leaf_value (e_lhs e), leaf_value (e_rhs e))) es =
      [(ADelete, [RIdx 0], PInt 1, PNone); (ASame, [RIdx 1], PInt 2, PInt 2); (AAdd, [RIdx 1], PNone, PInt 3)].
Proof. eexists. split; vm_compute; reflexivity. Qed.
