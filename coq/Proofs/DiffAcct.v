(* C06, leaf-level accounting in EVERY array mode and every configuration:
   the leaves of the left document are, as a multiset, the leaves of the left
   values of the SAME / CHANGE / DELETE entries, and the leaves of the right
   document those of the right values of the SAME / CHANGE / ADD entries --
   through mappings (the keyed join), sets, all list comparers, both
   synchronisers and the pop-a-DELETE-to-make-a-CHANGE step (for any
   YAMLPath.__eq__).  Guard: what is left of finding F3 after its repair - one
   document is null (no document) and the other a container with content
   ([root_guard], about the two roots only). *)
From Coq Require Import List Ascii String ZArith NArith Bool Arith Lia Permutation.
From YP Require Import Outcome PyStr PyVal Doc Diff C06Spec DiffBase DiffEq DiffKeys DiffSync.
Import ListNotations.
Open Scope nat_scope.

Notation LL := left_leaves.
Notation RL := right_leaves.

(* ---- left_leaves / right_leaves over list operations ---- *)
Lemma LL_app : forall x y, LL (x ++ y) = LL x ++ LL y.
Proof. intros. unfold left_leaves. apply flat_map_app. Qed.
Lemma RL_app : forall x y, RL (x ++ y) = RL x ++ RL y.
Proof. intros. unfold right_leaves. apply flat_map_app. Qed.
Lemma LL_cons : forall e a, LL (e :: a) = (if has_left e then leaves (e_lhs e) else []) ++ LL a.
Proof. reflexivity. Qed.
Lemma RL_cons : forall e a, RL (e :: a) = (if has_right e then leaves (e_rhs e) else []) ++ RL a.
Proof. reflexivity. Qed.

Lemma LL_perm : forall x y, Permutation x y -> Permutation (LL x) (LL y).
Proof. intros. unfold left_leaves. apply Permutation_flat_map; auto. Qed.
Lemma RL_perm : forall x y, Permutation x y -> Permutation (RL x) (RL y).
Proof. intros. unfold right_leaves. apply Permutation_flat_map; auto. Qed.

Lemma flat_map_map {A B C} (f : A -> B) (g : B -> list C) : forall l,
  flat_map g (map f l) = flat_map (fun x => g (f x)) l.
Proof. induction l; simpl; auto. rewrite IHl. reflexivity. Qed.

Lemma flat_map_filter {A C} (p : A -> bool) (g : A -> list C) : forall l,
  flat_map g (filter p l) = flat_map (fun x => if p x then g x else []) l.
Proof. induction l as [|a r IH]; simpl; auto. destruct (p a); simpl; rewrite IH; reflexivity. Qed.

Lemma flat_map_nil {A C} (g : A -> list C) : forall l, (forall x, In x l -> g x = []) -> flat_map g l = [].
Proof. induction l as [|a r IH]; simpl; intros H; auto. rewrite (H a), IH; auto. Qed.

(* entries built from a list of items by a deleting / adding constructor *)
Lemma LL_dels {X} (f : X -> entry) (v : X -> node) : forall xs acc,
  (forall x, has_left (f x) = true /\ e_lhs (f x) = v x) ->
  Permutation (LL (rev (map f xs) ++ acc)) (LL acc ++ flat_map (fun x => leaves (v x)) xs).
Proof.
  intros xs acc H. rewrite LL_app.
  eapply perm_trans; [apply Permutation_app_comm|]. apply Permutation_app_head.
  eapply perm_trans; [apply LL_perm; apply Permutation_sym; apply Permutation_rev|].
  unfold left_leaves. rewrite flat_map_map.
  induction xs as [|x r IH]; simpl; auto.
  destruct (H x) as [H1 H2]. rewrite H1, H2. apply Permutation_app_head. exact IH.
Qed.
Lemma RL_dels {X} (f : X -> entry) : forall xs acc,
  (forall x, has_right (f x) = false) -> RL (rev (map f xs) ++ acc) = RL acc.
Proof.
  intros xs acc H. rewrite RL_app.
  assert (E : RL (rev (map f xs)) = []).
  { unfold right_leaves. apply flat_map_nil. intros e He. apply in_rev in He.
    apply in_map_iff in He. destruct He as [x [<- _]]. rewrite H. reflexivity. }
  rewrite E. reflexivity.
Qed.
Lemma RL_adds {X} (f : X -> entry) (v : X -> node) : forall xs acc,
  (forall x, has_right (f x) = true /\ e_rhs (f x) = v x) ->
  Permutation (RL (rev (map f xs) ++ acc)) (RL acc ++ flat_map (fun x => leaves (v x)) xs).
Proof.
  intros xs acc H. rewrite RL_app.
  eapply perm_trans; [apply Permutation_app_comm|]. apply Permutation_app_head.
  eapply perm_trans; [apply RL_perm; apply Permutation_sym; apply Permutation_rev|].
  unfold right_leaves. rewrite flat_map_map.
  induction xs as [|x r IH]; simpl; auto.
  destruct (H x) as [H1 H2]. rewrite H1, H2. apply Permutation_app_head. exact IH.
Qed.
Lemma LL_adds {X} (f : X -> entry) : forall xs acc,
  (forall x, has_left (f x) = false) -> LL (rev (map f xs) ++ acc) = LL acc.
Proof.
  intros xs acc H. rewrite LL_app.
  assert (E : LL (rev (map f xs)) = []).
  { unfold left_leaves. apply flat_map_nil. intros e He. apply in_rev in He.
    apply in_map_iff in He. destruct He as [x [<- _]]. rewrite H. reflexivity. }
  rewrite E. reflexivity.
Qed.

(* ---- the guard and its inheritance ---- *)
Lemma leaves_members : forall els, forallb plain_leaf els = true -> flat_map leaves els = els.
Proof.
  induction els as [|e r IH]; simpl; intros H; auto.
  apply andb_true_iff in H. destruct H as [He Hr].
  destruct (plain_leaf_inv _ He) as [i [v [-> _]]]. simpl. rewrite IH; auto.
Qed.

Lemma leaves_children : forall n, wf_doc n = true -> is_leaf n = false ->
  leaves n = flat_map leaves (children n).
Proof.
  intros n Hwf Hl. destruct n as [i v|i kvs|i els|i els]; simpl in Hl; try discriminate; simpl.
  - rewrite flat_map_map. reflexivity.
  - reflexivity.
  - destruct (wf_set_inv _ _ Hwf) as [Hp _]. rewrite leaves_members; auto.
Qed.

Lemma wf_children : forall n c, wf_doc n = true -> In c (children n) -> wf_doc c = true.
Proof.
  intros n c Hwf Hin. destruct n as [i v|i kvs|i els|i els]; simpl in Hin; try contradiction.
  - apply in_map_iff in Hin. destruct Hin as [kv [<- Hkv]].
    destruct (wf_map_inv _ _ Hwf) as [_ [_ H]]. auto.
  - eapply wf_seq_inv; eauto.
  - destruct (wf_set_inv _ _ Hwf) as [Hp _]. rewrite forallb_forall in Hp. apply wf_plain_leaf; auto.
Qed.

(* ---- the pop step ---- *)
Section Acct.
  Variable path_eq : string -> string -> outcome bool.
  Variable cfg : dcfg.

  Lemma find_delete_spec : forall np a d a',
    find_delete path_eq np a = Ok (Some (d, a')) -> e_action d = ADelete /\ Permutation a (d :: a').
  Proof.
    intros np. induction a as [|e r IH]; simpl; intros d a' H; [discriminate|].
    destruct (e_action e) eqn:Ea; simpl in H.
    1,2,4: (destruct (find_delete path_eq np r) as [[[d0 r0]|]| |] eqn:F; simpl in H; try discriminate;
            inversion H; subst; destruct (IH _ _ eq_refl) as [A P]; split; auto;
            eapply perm_trans; [apply perm_skip; exact P | apply perm_swap]).
    destruct (path_eq (e_path e) np) as [[|]| |]; simpl in H; try discriminate.
    - inversion H; subst. split; auto.
    - destruct (find_delete path_eq np r) as [[[d0 r0]|]| |] eqn:F; simpl in H; try discriminate.
      inversion H; subst. destruct (IH _ _ eq_refl) as [A P]. split; auto.
      eapply perm_trans; [apply perm_skip; exact P | apply perm_swap].
  Qed.

  Lemma find_delete_none : forall np a, find_delete path_eq np a = Ok None \/
    (exists d a', find_delete path_eq np a = Ok (Some (d, a'))) \/
    (forall x, find_delete path_eq np a <> Ok x).
  Proof.
    intros np a. destruct (find_delete path_eq np a) as [[[d a']|]| |]; eauto;
      right; right; intros x Hx; discriminate.
  Qed.

  (* what one call of the recursion does to the two leaf accounts *)
  Definition acct (l r : node) (a a' : list entry) : Prop :=
    Permutation (LL a') (LL a ++ leaves l) /\ Permutation (RL a') (RL a ++ leaves r).

  (* the guard concerns the root call only (no parent) *)
  Definition root_g (par : option node) (l r : node) : Prop := par = None -> root_guard l r = true.
  Lemma root_g_child : forall p l r, root_g (Some p) l r.
  Proof. intros p l r H. discriminate. Qed.

  Definition rec_acct (rec : rec_t) : Prop :=
    forall path q l r par pref a a',
      wf_doc l = true -> wf_doc r = true -> root_g par l r ->
      rec path q l r par pref a = Ok a' -> acct l r a a'.

  Lemma acct_cmp : forall path q l r a, acct l r a (cmp_entry path q l r :: a).
  Proof.
    intros. unfold acct, cmp_entry. rewrite LL_cons, RL_cons. unfold has_left, has_right. simpl.
    destruct (val_eq l r); simpl; split; apply Permutation_app_comm.
  Qed.

  (* ---- _purge_document / _add_everything ---- *)
  Lemma purge_app : forall path q l root a, purge path q l root a = purge path q l root [] ++ a.
  Proof.
    intros path q l root a. destruct l as [i v| | |]; simpl; try (rewrite app_nil_r; reflexivity).
    destruct v, root; reflexivity.
  Qed.
  Lemma add_everything_app : forall path q l root a,
    add_everything path q l root a = add_everything path q l root [] ++ a.
  Proof.
    intros path q l root a. destruct l as [i v| | |]; simpl; try (rewrite app_nil_r; reflexivity).
    destruct v, root; reflexivity.
  Qed.

  Lemma enum_leaves : forall (els : list node) i,
    flat_map (fun ie : nat * node => leaves (snd ie)) (enumerate_from i els) = flat_map leaves els.
  Proof. induction els; simpl; intros; auto. rewrite IHels. reflexivity. Qed.

  Lemma purge_LL : forall path q l root, wf_doc l = true -> is_null_leaf l && root = false ->
    Permutation (LL (purge path q l root [])) (leaves l).
  Proof.
    intros path q l root Hwf Hn. destruct l as [i v|i kvs|i els|i els].
    - assert (E : purge path q (NLeaf i v) root [] = [del_entry path q (NLeaf i v)]).
      { destruct v, root; simpl in *; auto; discriminate. }
      rewrite E. simpl. apply Permutation_refl.
    - simpl purge.
      eapply perm_trans; [apply (LL_dels _ (fun kv : node * node => snd kv)); intros; split; reflexivity|].
      simpl. apply Permutation_refl.
    - simpl purge.
      eapply perm_trans; [apply (LL_dels _ (fun ie : nat * node => snd ie)); intros; split; reflexivity|].
      simpl. unfold enumerate. rewrite enum_leaves. apply Permutation_refl.
    - simpl purge. destruct (wf_set_inv _ _ Hwf) as [Hp _].
      eapply perm_trans; [apply (LL_dels _ (fun e : node => e)); intros; split; reflexivity|].
      simpl. rewrite leaves_members; auto.
  Qed.
  Lemma purge_RL : forall path q l root, RL (purge path q l root []) = [].
  Proof.
    intros path q l root. destruct l as [i v|i kvs|i els|i els]; simpl purge;
      try (rewrite RL_dels; [reflexivity | intros; reflexivity]).
    destruct v, root; reflexivity.
  Qed.
  Lemma add_RL : forall path q l root, wf_doc l = true -> is_null_leaf l && root = false ->
    Permutation (RL (add_everything path q l root [])) (leaves l).
  Proof.
    intros path q l root Hwf Hn. destruct l as [i v|i kvs|i els|i els].
    - assert (E : add_everything path q (NLeaf i v) root [] = [add_entry path q (NLeaf i v)]).
      { destruct v, root; simpl in *; auto; discriminate. }
      rewrite E. simpl. apply Permutation_refl.
    - simpl add_everything.
      eapply perm_trans; [apply (RL_adds _ (fun kv : node * node => snd kv)); intros; split; reflexivity|].
      simpl. apply Permutation_refl.
    - simpl add_everything.
      eapply perm_trans; [apply (RL_adds _ (fun ie : nat * node => snd ie)); intros; split; reflexivity|].
      simpl. unfold enumerate. rewrite enum_leaves. apply Permutation_refl.
    - simpl add_everything. destruct (wf_set_inv _ _ Hwf) as [Hp _].
      eapply perm_trans; [apply (RL_adds _ (fun e : node => e)); intros; split; reflexivity|].
      simpl. rewrite leaves_members; auto.
  Qed.
  Lemma add_LL : forall path q l root, LL (add_everything path q l root []) = [].
  Proof.
    intros path q l root. destruct l as [i v|i kvs|i els|i els]; simpl add_everything;
      try (rewrite LL_adds; [reflexivity | intros; reflexivity]).
    destruct v, root; reflexivity.
  Qed.

  Lemma purge_nil_null : forall path q l, is_null_leaf l = true -> purge path q l true [] = [].
  Proof. intros path q l H. destruct l as [i v| | |]; simpl in *; try discriminate. destruct v; auto; discriminate. Qed.
  Lemma add_nil_null : forall path q l, is_null_leaf l = true -> add_everything path q l true [] = [].
  Proof. intros path q l H. destruct l as [i v| | |]; simpl in *; try discriminate. destruct v; auto; discriminate. Qed.
  Lemma purge_nil_nocontent : forall path q l root, is_leaf l = false -> has_content l = false -> purge path q l root [] = [].
  Proof. intros path q l root H1 H2. destruct l as [|i [|]|i [|]|i [|]]; simpl in *; auto; discriminate. Qed.
  Lemma add_nil_nocontent : forall path q l root, is_leaf l = false -> has_content l = false ->
    add_everything path q l root [] = [].
  Proof. intros path q l root H1 H2. destruct l as [|i [|]|i [|]|i [|]]; simpl in *; auto; discriminate. Qed.

  Lemma clash_acct : forall path q l r par a a',
    wf_doc l = true -> wf_doc r = true -> root_g par l r ->
    (is_leaf l = false \/ is_leaf r = false) ->
    (let root := match par with None => true | Some _ => false end in
     let a1 := add_everything path q r root (purge path q l root a) in
     if Nat.eqb (List.length a1) (List.length a)
     then Ok (mkentry AChange path q l r :: a1) else Ok a1) = Ok a' ->
    acct l r a a'.
  Proof.
    intros path q l r par a a' Hwl Hwr G Hk H. cbv zeta in H.
    set (root := match par with None => true | Some _ => false end) in *.
    rewrite add_everything_app, purge_app in H.
    set (pl := purge path q l root []) in *. set (ar := add_everything path q r root []) in *.
    rewrite !app_length in H.
    destruct (Nat.eqb (List.length ar + (List.length pl + List.length a)) (List.length a)) eqn:El;
      inversion H; subst; clear H.
    - apply Nat.eqb_eq in El.
      assert (Epl : pl = []) by (destruct pl; simpl in El; [reflexivity | lia]).
      assert (Ear : ar = []) by (destruct ar; simpl in El; [reflexivity | lia]).
      rewrite Epl, Ear. simpl. unfold acct. rewrite LL_cons, RL_cons. simpl.
      split; apply Permutation_app_comm.
    - apply Nat.eqb_neq in El.
      unfold acct. rewrite !LL_app, !RL_app. unfold ar at 1. rewrite add_LL. unfold pl at 2. rewrite purge_RL. simpl.
      assert (NL : is_null_leaf l && root = false).
      { destruct par as [p|]; [apply andb_false_r|].
        destruct (is_null_leaf l) eqn:E; auto. exfalso.
        pose proof (G eq_refl) as Gd. unfold root_guard, clash_b in Gd. rewrite E in Gd. simpl in Gd.
        apply andb_true_iff in Gd. destruct Gd as [Hc _]. apply negb_true_iff in Hc.
        assert (Lr : is_leaf r = false).
        { destruct Hk as [Hk|Hk]; auto. destruct l; simpl in *; discriminate. }
        unfold pl, ar, root in El. rewrite (purge_nil_null _ _ _ E), (add_nil_nocontent _ _ _ _ Lr Hc) in El. simpl in El. lia. }
      assert (NR : is_null_leaf r && root = false).
      { destruct par as [p|]; [apply andb_false_r|].
        destruct (is_null_leaf r) eqn:E; auto. exfalso.
        pose proof (G eq_refl) as Gd. unfold root_guard, clash_b in Gd. rewrite E in Gd. simpl in Gd.
        apply andb_true_iff in Gd. destruct Gd as [_ Hc]. apply negb_true_iff in Hc.
        assert (Ll : is_leaf l = false).
        { destruct Hk as [Hk|Hk]; auto. destruct r; simpl in *; discriminate. }
        unfold pl, ar, root in El. rewrite (add_nil_null _ _ _ E), (purge_nil_nocontent _ _ _ _ Ll Hc) in El. simpl in El. lia. }
      split.
      + eapply perm_trans; [apply Permutation_app_comm|]. apply Permutation_app_head. apply purge_LL; auto.
      + eapply perm_trans; [apply Permutation_app_comm|]. apply Permutation_app_head. apply add_RL; auto.
  Qed.

  (* ---- a monadic fold whose steps account for one item each ---- *)
  Lemma fold_acct {X} (f : list entry -> X -> outcome (list entry)) (gl gr : X -> list node) :
    forall xs a a',
      (forall b x b', In x xs -> f b x = Ok b' ->
         Permutation (LL b') (LL b ++ gl x) /\ Permutation (RL b') (RL b ++ gr x)) ->
      foldM f xs a = Ok a' ->
      Permutation (LL a') (LL a ++ flat_map gl xs) /\ Permutation (RL a') (RL a ++ flat_map gr xs).
  Proof.
    induction xs as [|x r IH]; simpl; intros a a' Hf H.
    - inversion H; subst. rewrite !app_nil_r. split; apply Permutation_refl.
    - destruct (f a x) as [b| |] eqn:E; simpl in H; try discriminate.
      destruct (Hf a x b (or_introl eq_refl) E) as [P1 P2].
      destruct (IH b a' (fun b0 y b' Hy => Hf b0 y b' (or_intror Hy)) H) as [Q1 Q2].
      split.
      + eapply perm_trans; [exact Q1|]. rewrite app_assoc. apply Permutation_app_tail. exact P1.
      + eapply perm_trans; [exact Q2|]. rewrite app_assoc. apply Permutation_app_tail. exact P2.
  Qed.

  (* ---- mappings ---- *)
  Lemma shared_leaves : forall lkvs rkvs,
    forallb (fun kv => plain_leaf (fst kv)) lkvs = true ->
    forallb (fun kv => plain_leaf (fst kv)) rkvs = true ->
    nodup_vals (map kkey lkvs) = true ->
    flat_map (fun kv' : node * node => match map_get (fst kv') lkvs with Some lv => leaves lv | None => [] end) rkvs =
    flat_map (fun kv : node * node => leaves (snd kv)) (shared_of kkey kkey lkvs rkvs).
  Proof.
    intros lkvs rkvs Lp Rp Ln. unfold shared_of.
    induction rkvs as [|[k rv] r IH]; simpl; auto.
    simpl in Rp. apply andb_true_iff in Rp. destruct Rp as [Hk Hr].
    rewrite flat_map_app, (IH Hr). f_equal.
    rewrite (map_get_findk _ _ Lp Hk), (sel_findk kkey _ _ Ln).
    change (kkey (k, rv)) with (key_val k).
    destruct (findk kkey (key_val k) lkvs); simpl; auto. rewrite app_nil_r. reflexivity.
  Qed.

  Lemma dicts_acct : forall rec path q i lkvs j rkvs a a',
    rec_acct rec ->
    wf_doc (NMap i lkvs) = true -> wf_doc (NMap j rkvs) = true ->
    diff_dicts rec path q (NMap i lkvs) (NMap j rkvs) lkvs rkvs a = Ok a' ->
    acct (NMap i lkvs) (NMap j rkvs) a a'.
  Proof.
    intros rec path q i lkvs j rkvs a a' Hrec HwL HwR H.
    destruct (wf_map_inv _ _ HwL) as [Lp [Ln Lw]].
    destruct (wf_map_inv _ _ HwR) as [Rp [Rn Rw]].
    unfold diff_dicts in H.
    destruct (negb _).
    - inversion H; subst. unfold acct. rewrite !LL_cons, !RL_cons. simpl.
      split; apply Permutation_app_comm.
    - match type of H with (bind ?F _ = _) => destruct F as [acc1| |] eqn:EF end; simpl in H; try discriminate.
      inversion H; subst; clear H.
      assert (FA := fun Hs => fold_acct _
                  (fun kv' : node * node => match map_get (fst kv') lkvs with Some lv => leaves lv | None => [] end)
                  (fun kv' : node * node => if map_has (fst kv') lkvs then leaves (snd kv') else [])
                  rkvs a acc1 Hs EF).
      destruct FA as [F1 F2].
      { intros b [k rv] b' Hin Hstep. simpl in Hstep. simpl fst. simpl snd.
        assert (Hk : plain_leaf k = true) by (rewrite forallb_forall in Rp; apply (Rp (k, rv) Hin)).
        assert (Hhas : map_has k rkvs = true).
        { rewrite (map_has_hask _ _ Rp Hk). apply (hask_in kkey rkvs (k, rv) Hin). }
        unfold map_has at 1. destruct (map_get k lkvs) as [lv|] eqn:Eg.
        - rewrite Hhas in Hstep.
          destruct (map_get_in _ _ _ Eg) as [kn Hkn].
          apply (Hrec _ _ _ _ _ _ _ _ (Lw _ Hkn) (Rw _ Hin) (root_g_child _ _ _) Hstep).
        - inversion Hstep; subst. rewrite !app_nil_r. split; apply Permutation_refl. }
      set (adds := filter (fun kv => negb (map_has (fst kv) lkvs)) rkvs).
      set (dels := filter (fun kv => negb (map_has (fst kv) rkvs)) lkvs).
      unfold acct. split.
      + rewrite LL_adds by (intros; reflexivity).
        eapply perm_trans; [apply (LL_dels _ (fun kv : node * node => snd kv)); intros; split; reflexivity|].
        eapply perm_trans; [apply Permutation_app_tail; exact F1|].
        rewrite <- app_assoc. apply Permutation_app_head.
        rewrite (shared_leaves _ _ Lp Rp Ln).
        assert (Ed : dels = dels_of kkey kkey lkvs rkvs).
        { unfold dels, dels_of. apply filter_ext_in. intros [k v] Hin. simpl.
          assert (Hk : plain_leaf k = true) by (rewrite forallb_forall in Lp; apply (Lp (k, v) Hin)).
          rewrite (map_has_hask _ _ Rp Hk). reflexivity. }
        rewrite Ed, <- flat_map_app. simpl.
        apply Permutation_flat_map. apply Permutation_sym. apply join_perm. exact Rn.
      + eapply perm_trans; [apply (RL_adds _ (fun kv : node * node => snd kv)); intros; split; reflexivity|].
        rewrite RL_dels by (intros; reflexivity).
        eapply perm_trans; [apply Permutation_app_tail; exact F2|].
        rewrite <- app_assoc. apply Permutation_app_head.
        unfold adds. rewrite flat_map_filter.
        rewrite <- (flat_map_filter (fun kv' : node * node => map_has (fst kv') lkvs) (fun kv' => leaves (snd kv'))).
        rewrite <- (flat_map_filter (fun kv : node * node => negb (map_has (fst kv) lkvs)) (fun kv' => leaves (snd kv'))).
        rewrite <- flat_map_app. simpl.
        apply Permutation_flat_map. apply Permutation_sym. apply part_perm.
  Qed.

  (* ---- sets ---- *)
  Lemma shared_members : forall lels rels,
    forallb plain_leaf lels = true -> forallb plain_leaf rels = true ->
    nodup_vals (map key_val lels) = true ->
    flat_map (fun k : node => if set_has k lels then leaves (set_find k lels) else []) rels =
    flat_map leaves (shared_of key_val key_val lels rels).
  Proof.
    intros lels rels Lp Rp Ln. unfold shared_of.
    induction rels as [|k r IH]; simpl; auto.
    simpl in Rp. apply andb_true_iff in Rp. destruct Rp as [Hk Hr].
    rewrite flat_map_app, (IH Hr). f_equal.
    rewrite (set_has_hask _ _ Lp Hk), hask_findk, (set_find_findk _ _ Lp Hk), (sel_findk key_val _ _ Ln).
    destruct (findk key_val (key_val k) lels); simpl; auto. rewrite app_nil_r. reflexivity.
  Qed.

  Lemma sets_acct : forall rec path q i lels j rels a a',
    rec_acct rec ->
    wf_doc (NSet i lels) = true -> wf_doc (NSet j rels) = true ->
    diff_sets rec path q (NSet i lels) (NSet j rels) lels rels a = Ok a' ->
    acct (NSet i lels) (NSet j rels) a a'.
  Proof.
    intros rec path q i lels j rels a a' Hrec HwL HwR H.
    destruct (wf_set_inv _ _ HwL) as [Lp Ln].
    destruct (wf_set_inv _ _ HwR) as [Rp Rn].
    unfold diff_sets in H.
    match type of H with (bind ?F _ = _) => destruct F as [acc1| |] eqn:EF end; simpl in H; try discriminate.
    inversion H; subst; clear H.
    assert (FA := fun Hs => fold_acct _
                (fun k : node => if set_has k lels then leaves (set_find k lels) else [])
                (fun k : node => if set_has k lels then leaves k else [])
                rels a acc1 Hs EF).
    destruct FA as [F1 F2].
    { intros b k b' Hin Hstep. simpl in Hstep.
      assert (Hk : plain_leaf k = true) by (rewrite forallb_forall in Rp; auto).
      assert (Hself : set_find k rels = k).
      { rewrite (set_find_findk _ _ Rp Hk), (findk_in key_val rels k Rn Hin). reflexivity. }
      assert (Hhas : set_has k rels = true).
      { rewrite (set_has_hask _ _ Rp Hk). apply (hask_in key_val rels k Hin). }
      destruct (set_has k lels) eqn:E1; simpl in Hstep.
      - rewrite Hhas in Hstep. simpl in Hstep. rewrite Hself in Hstep.
        pose proof (set_find_in _ _ E1) as Hm.
        assert (Pm : plain_leaf (set_find k lels) = true) by (rewrite forallb_forall in Lp; auto).
        apply (Hrec _ _ _ _ _ _ _ _ (wf_plain_leaf _ Pm) (wf_plain_leaf _ Hk) (root_g_child _ _ _) Hstep).
      - inversion Hstep; subst. rewrite !app_nil_r. split; apply Permutation_refl. }
    set (adds := filter (fun k => negb (set_has k lels)) rels).
    set (dels := filter (fun k => negb (set_has k rels)) lels).
    unfold acct. split.
    - rewrite LL_adds by (intros; reflexivity).
      eapply perm_trans; [apply (LL_dels _ (fun e : node => e)); intros; split; reflexivity|].
      eapply perm_trans; [apply Permutation_app_tail; exact F1|].
      rewrite <- app_assoc. apply Permutation_app_head.
      rewrite (shared_members _ _ Lp Rp Ln).
      assert (Ed : dels = dels_of key_val key_val lels rels).
      { unfold dels, dels_of. apply filter_ext_in. intros k Hin.
        assert (Hk : plain_leaf k = true) by (rewrite forallb_forall in Lp; auto).
        rewrite (set_has_hask _ _ Rp Hk). reflexivity. }
      rewrite Ed, <- flat_map_app. simpl leaves.
      eapply perm_trans; [apply Permutation_flat_map; apply Permutation_sym; apply (join_perm key_val key_val lels rels Rn)|].
      match goal with |- Permutation ?X lels => replace X with lels;
        [apply Permutation_refl | symmetry; apply (leaves_members lels Lp)] end.
    - eapply perm_trans; [apply (RL_adds _ (fun e : node => e)); intros; split; reflexivity|].
      rewrite RL_dels by (intros; reflexivity).
      eapply perm_trans; [apply Permutation_app_tail; exact F2|].
      rewrite <- app_assoc. apply Permutation_app_head.
      unfold adds. rewrite flat_map_filter.
      rewrite <- (flat_map_filter (fun k : node => set_has k lels) leaves).
      rewrite <- (flat_map_filter (fun k : node => negb (set_has k lels)) leaves).
      rewrite <- flat_map_app. simpl leaves.
      eapply perm_trans; [apply Permutation_flat_map; apply Permutation_sym; apply part_perm|].
      match goal with |- Permutation ?X rels => replace X with rels;
        [apply Permutation_refl | symmetry; apply (leaves_members rels Rp)] end.
  Qed.

  (* ---- sequences: the positional loop ---- *)
  Lemma zip_acct : forall rec deep path q r0,
    rec_acct rec ->
    forall lels idx rels a a',
      (forall x, In x lels -> wf_doc x = true) -> (forall y, In y rels -> wf_doc y = true) ->
      zip_go rec deep path q r0 idx lels rels a = Ok a' ->
      Permutation (LL a') (LL a ++ flat_map leaves lels) /\ Permutation (RL a') (RL a ++ flat_map leaves rels).
  Proof.
    intros rec deep path q r0 Hrec.
    induction lels as [|le lr IH]; simpl; intros idx rels a a' HwL HwR H.
    - inversion H; subst. split.
      + rewrite LL_adds by (intros; reflexivity). rewrite app_nil_r. apply Permutation_refl.
      + eapply perm_trans; [apply (RL_adds _ (fun ie : nat * node => snd ie)); intros; split; reflexivity|].
        rewrite enum_leaves. apply Permutation_refl.
    - destruct rels as [|re rr].
      + destruct (IH (S idx) [] _ _ (fun x Hx => HwL x (or_intror Hx)) HwR H) as [P1 P2].
        rewrite LL_cons, RL_cons in *. simpl in *. split; [|exact P2].
        eapply perm_trans; [exact P1|].
        rewrite <- app_assoc. eapply perm_trans; [apply Permutation_app_comm|].
        rewrite <- !app_assoc. apply Permutation_app_head. apply Permutation_app_comm.
      + match type of H with (bind ?F _ = _) => destruct F as [a1| |] eqn:EF end; simpl in H; try discriminate.
        destruct (IH (S idx) rr _ _ (fun x Hx => HwL x (or_intror Hx)) (fun x Hx => HwR x (or_intror Hx)) H) as [P1 P2].
        assert (St : acct le re a a1).
        { destruct deep.
          - eapply Hrec; [ | | apply root_g_child | exact EF].
            + apply HwL; left; reflexivity.
            + apply HwR; left; reflexivity.
          - inversion EF; subst. apply acct_cmp. }
        destruct St as [S1 S2]. simpl. split.
        * eapply perm_trans; [exact P1|]. rewrite app_assoc. apply Permutation_app_tail. exact S1.
        * eapply perm_trans; [exact P2|]. rewrite app_assoc. apply Permutation_app_tail. exact S2.
  Qed.

  (* ---- sequences: the synchronised comparers ---- *)
  Definition pl (p : spair) : list node := match pair_left p with Some x => leaves (snd x) | None => [] end.
  Definition pr (p : spair) : list node := match pair_right p with Some x => leaves (snd x) | None => [] end.

  Lemma flat_map_pl : forall ps, flat_map pl ps = flat_map (fun x : nat * node => leaves (snd x)) (lefts ps).
  Proof.
    induction ps as [|p r IH]; simpl; auto. unfold pl at 1, lefts. simpl.
    destruct (pair_left p); simpl; rewrite IH; reflexivity.
  Qed.
  Lemma flat_map_pr : forall ps, flat_map pr ps = flat_map (fun x : nat * node => leaves (snd x)) (rights ps).
  Proof.
    induction ps as [|p r IH]; simpl; auto. unfold pr at 1, rights. simpl.
    destruct (pair_right p); simpl; rewrite IH; reflexivity.
  Qed.

  Lemma in_lefts : forall ps li le ri re, In (Some li, le, ri, re) ps -> In (li, le) (lefts ps).
  Proof.
    induction ps as [|p r IH]; simpl; intros li le ri re H; [contradiction|].
    unfold lefts. simpl. destruct H as [->|H].
    - simpl. left. reflexivity.
    - destruct (pair_left p); [right|]; eapply IH; eauto.
  Qed.
  Lemma in_rights : forall ps li le ri re, In (li, le, Some ri, re) ps -> In (ri, re) (rights ps).
  Proof.
    induction ps as [|p r IH]; simpl; intros li le ri re H; [contradiction|].
    unfold rights. simpl. destruct H as [->|H].
    - simpl. left. reflexivity.
    - destruct (pair_right p); [right|]; eapply IH; eauto.
  Qed.

  (* a synchronised pair names an element on at least one side *)
  Definition shaped (p : spair) : Prop := pair_left p <> None \/ pair_right p <> None.

  Lemma leftover_shaped : forall red p, In p (leftover red) -> shaped p.
  Proof.
    intros red p H. unfold leftover in H. apply in_map_iff in H. destruct H as [[n y] [<- _]].
    right. simpl. discriminate.
  Qed.
  Lemma sync_value_go_shaped : forall lhs red p, In p (sync_value_go lhs red) -> shaped p.
  Proof.
    induction lhs as [|[li le] rest IH]; simpl; intros red p H.
    - eapply leftover_shaped; eauto.
    - destruct (extract_first _ red) as [[[ri re] red']|]; destruct H as [<-|H];
        try (left; simpl; discriminate); eapply IH; eauto.
  Qed.
  Lemma sync_key_go_shaped : forall c r ka lhs red p, In p (sync_key_go c r ka lhs red) -> shaped p.
  Proof.
    intros c r ka. induction lhs as [|[li le] rest IH]; simpl; intros red p H.
    - eapply leftover_shaped; eauto.
    - destruct (negb _).
      + destruct H as [<-|H]; [left; simpl; discriminate | eapply IH; eauto].
      + destruct (extract_first _ red) as [[[ri re] red']|]; destruct H as [<-|H];
          try (left; simpl; discriminate); eapply IH; eauto.
  Qed.

  (* a fold over synchronised pairs, each step accounting for its pair *)
  Lemma pairs_acct : forall (f : list entry -> spair -> outcome (list entry)) ps lels rels a a',
    lefts ps = enumerate lels -> Permutation (rights ps) (enumerate rels) ->
    (forall b p b', In p ps -> f b p = Ok b' ->
       Permutation (LL b') (LL b ++ pl p) /\ Permutation (RL b') (RL b ++ pr p)) ->
    foldM f ps a = Ok a' ->
    Permutation (LL a') (LL a ++ flat_map leaves lels) /\ Permutation (RL a') (RL a ++ flat_map leaves rels).
  Proof.
    intros f ps lels rels a a' El Pr Hf H.
    destruct (fold_acct f pl pr ps a a' Hf H) as [P1 P2].
    rewrite flat_map_pl, El in P1. unfold enumerate in P1. rewrite enum_leaves in P1.
    rewrite flat_map_pr in P2. split; auto.
    eapply perm_trans; [exact P2|]. apply Permutation_app_head.
    rewrite <- (enum_leaves rels 0). apply Permutation_flat_map. exact Pr.
  Qed.

  Lemma pair_elems : forall ps lels rels li le ri re,
    lefts ps = enumerate lels -> Permutation (rights ps) (enumerate rels) ->
    In (Some li, le, Some ri, re) ps -> In le lels /\ In re rels.
  Proof.
    intros ps lels rels li le ri re El Pr Hin. split.
    - pose proof (in_lefts _ _ _ _ _ Hin) as H. rewrite El in H.
      apply enumerate_nth in H. eapply nth_error_In; eauto.
    - pose proof (in_rights _ _ _ _ _ Hin) as H.
      apply (Permutation_in _ Pr) in H. apply enumerate_nth in H. eapply nth_error_In; eauto.
  Qed.

  Lemma synced_acct : forall rec path q r0 lels rels a a',
    rec_acct rec ->
    (forall x, In x lels -> wf_doc x = true) -> (forall y, In y rels -> wf_doc y = true) ->
    diff_synced path_eq rec path q r0 lels rels a = Ok a' ->
    Permutation (LL a') (LL a ++ flat_map leaves lels) /\ Permutation (RL a') (RL a ++ flat_map leaves rels).
  Proof.
    intros rec path q r0 lels rels a a' Hrec HwL HwR H. unfold diff_synced in H.
    destruct (sync_value_accounting lels rels) as [El Pr].
    eapply pairs_acct; [exact El | exact Pr | | exact H].
    intros b [[[lidx lele] ridx] rele] b' Hin Hstep.
    pose proof (sync_value_go_shaped _ _ _ Hin) as Sh.
    unfold pl, pr. simpl pair_left. simpl pair_right.
    destruct lidx as [li|].
    - destruct ridx as [ri|].
      + destruct (pair_elems _ _ _ _ _ _ _ El Pr Hin) as [I1 I2].
        apply (Hrec _ _ _ _ _ _ _ _ (HwL _ I1) (HwR _ I2) (root_g_child _ _ _) Hstep).
      + inversion Hstep; subst. rewrite LL_cons, RL_cons. simpl. rewrite app_nil_r.
        split; [apply Permutation_app_comm | apply Permutation_refl].
    - destruct ridx as [ri|]; [|destruct Sh as [Sh|Sh]; exfalso; apply Sh; reflexivity].
      simpl. rewrite app_nil_r.
      destruct (find_delete path_eq (path_add_idx path (Some ri)) b) as [[[d b'']|]| |] eqn:F;
        simpl in Hstep; try discriminate; inversion Hstep; subst; clear Hstep.
      * destruct (find_delete_spec _ _ _ _ F) as [Ad Pd].
        rewrite LL_cons, RL_cons. simpl.
        pose proof (LL_perm _ _ Pd) as L1. pose proof (RL_perm _ _ Pd) as R1.
        rewrite LL_cons in L1. rewrite RL_cons in R1. unfold has_left, has_right in L1, R1. rewrite Ad in L1, R1.
        simpl in R1. split.
        -- apply Permutation_sym. exact L1.
        -- eapply perm_trans; [apply Permutation_app_comm|]. apply Permutation_app_tail.
           apply Permutation_sym. exact R1.
      * rewrite LL_cons, RL_cons. simpl. split; [apply Permutation_refl | apply Permutation_app_comm].
  Qed.

  Lemma keyed_acct : forall (rec : rec_t) (deep : bool) (path : string) (q : loc) (r0 : node)
                            (lels rels : list node) (a a' : list entry),
    rec_acct rec ->
    (forall x, In x lels -> wf_doc x = true) -> (forall y, In y rels -> wf_doc y = true) ->
    foldM (fun a (p : spair) =>
             let '(lidx, lele, ridx, rele) := p in
             match lidx with
             | None => Ok (add_entry (path_add_idx path ridx) (q ++ [idx_ref ridx]) rele :: a)
             | Some li =>
                 match ridx with
                 | None => Ok (del_entry (path_add_idx path lidx) (q ++ [RIdx li]) lele :: a)
                 | Some ri =>
                     if deep then
                       rec (path_add_idx path ridx) (q ++ [RIdx ri]) lele rele (Some r0) (PInt (Z.of_nat ri)) a
                     else Ok (cmp_entry (path_add_idx path lidx) (q ++ [RIdx li]) lele rele :: a)
                 end
             end) (sync_key cfg r0 lels rels) a = Ok a' ->
    Permutation (LL a') (LL a ++ flat_map leaves lels) /\ Permutation (RL a') (RL a ++ flat_map leaves rels).
  Proof.
    intros rec deep path q r0 lels rels a a' Hrec HwL HwR H.
    destruct (sync_key_accounting cfg r0 lels rels) as [El Pr].
    eapply pairs_acct; [exact El | exact Pr | | exact H].
    intros b [[[lidx lele] ridx] rele] b' Hin Hstep.
    pose proof (sync_key_go_shaped _ _ _ _ _ _ Hin) as Sh.
    unfold pl, pr. simpl pair_left. simpl pair_right.
    destruct lidx as [li|].
    - destruct ridx as [ri|].
      + destruct deep.
        * destruct (pair_elems _ _ _ _ _ _ _ El Pr Hin) as [I1 I2].
          apply (Hrec _ _ _ _ _ _ _ _ (HwL _ I1) (HwR _ I2) (root_g_child _ _ _) Hstep).
        * inversion Hstep; subst. apply acct_cmp.
      + inversion Hstep; subst. rewrite LL_cons, RL_cons. simpl. rewrite app_nil_r.
        split; [apply Permutation_app_comm | apply Permutation_refl].
    - destruct ridx as [ri|]; [|destruct Sh as [Sh|Sh]; exfalso; apply Sh; reflexivity].
      inversion Hstep; subst. rewrite LL_cons, RL_cons. simpl. rewrite app_nil_r.
      split; [apply Permutation_refl | apply Permutation_app_comm].
  Qed.

  Lemma lists_acct : forall rec path q i lels j rels par pref a a',
    rec_acct rec ->
    wf_doc (NSeq i lels) = true -> wf_doc (NSeq j rels) = true ->
    diff_lists path_eq cfg rec path q (NSeq i lels) (NSeq j rels) lels rels par pref a = Ok a' ->
    acct (NSeq i lels) (NSeq j rels) a a'.
  Proof.
    intros rec path q i lels j rels par pref a a' Hrec HwL HwR H.
    pose proof (wf_seq_inv _ _ HwL) as WL. pose proof (wf_seq_inv _ _ HwR) as WR.
    unfold diff_lists in H.
    destruct (negb _).
    { inversion H; subst. unfold acct. rewrite !LL_cons, !RL_cons. simpl.
      split; apply Permutation_app_comm. }
    unfold acct. simpl leaves.
    assert (Harr : forall deep nc,
      diff_arrays path_eq cfg rec deep path q (NSeq j rels) lels rels nc a = Ok a' ->
      Permutation (LL a') (LL a ++ flat_map leaves lels) /\ Permutation (RL a') (RL a ++ flat_map leaves rels)).
    { intros deep nc H'. unfold diff_arrays in H'.
      destruct (array_diff_mode cfg nc) as [[|]| |]; simpl in H'; try discriminate.
      - eapply zip_acct; eauto.
      - eapply synced_acct; eauto. }
    assert (Haoh : forall nc,
      diff_aoh path_eq cfg rec path q (NSeq j rels) lels rels nc a = Ok a' ->
      Permutation (LL a') (LL a ++ flat_map leaves lels) /\ Permutation (RL a') (RL a ++ flat_map leaves rels)).
    { intros nc H'. unfold diff_aoh in H'.
      destruct (aoh_diff_mode cfg nc) as [[| | | |]| |]; simpl in H'; try discriminate.
      - eapply (keyed_acct rec true); eauto.
      - eapply Harr; eauto.
      - eapply (keyed_acct rec false); eauto.
      - eapply Harr; eauto.
      - eapply synced_acct; eauto. }
    destruct rels as [|[ | | | ] rr]; try (eapply Harr; eauto; fail).
    eapply Haoh; eauto.
  Qed.

  Lemma body_acct : forall rec, rec_acct rec -> rec_acct (diff_body path_eq cfg rec).
  Proof.
    intros rec Hrec path q l r par pref a a' HwL HwR G H.
    destruct l as [i v|i lkvs|i lels|i lels], r as [j w|j rkvs|j rels|j rels]; simpl in H;
      try (eapply (clash_acct path q _ _ par); [exact HwL | exact HwR | exact G | simpl; auto | exact H]).
    - inversion H; subst. apply acct_cmp.
    - eapply dicts_acct; eauto.
    - eapply lists_acct; eauto.
    - eapply sets_acct; eauto.
  Qed.

  Lemma between_acct : forall fuel, rec_acct (diff_between path_eq cfg fuel).
  Proof.
    induction fuel as [|f IH].
    - intros path q l r par pref a a' _ _ _ H. simpl in H. discriminate.
    - intros path q l r par pref a a' HwL HwR G H. simpl in H. eapply body_acct; eauto.
  Qed.

  Theorem compare_to_accounting : forall L R es,
    wf_doc L = true -> wf_doc R = true -> root_guard L R = true ->
    compare_to path_eq cfg L R = Ok es ->
    Permutation (left_leaves es) (leaves L) /\ Permutation (right_leaves es) (leaves R).
  Proof.
    intros L R es HwL HwR G H. unfold compare_to in H.
    match type of H with (bind ?F _ = _) => destruct F as [acc| |] eqn:EF end; simpl in H; try discriminate.
    inversion H; subst.
    destruct (between_acct _ _ _ _ _ _ _ _ _ HwL HwR (fun _ => G) EF) as [P1 P2]. simpl in P1, P2.
    split.
    - eapply perm_trans; [apply LL_perm; apply Permutation_sym; apply Permutation_rev | exact P1].
    - eapply perm_trans; [apply RL_perm; apply Permutation_sym; apply Permutation_rev | exact P2].
  Qed.
End Acct.

(* ---- what is left of finding F3: a null document against a container ---- *)
Definition f3a_leaf (o : N) (v : pyval) : node := NLeaf (mkinfo o None false None) v.
Definition f3a_L : node := NMap (mkinfo 0 None true None) [(f3a_leaf 1 (PStr "a"), f3a_leaf 2 PNone)].
Definition f3a_R : node :=
  NMap (mkinfo 3 None true None)
       [(f3a_leaf 1 (PStr "a"), NMap (mkinfo 4 None true None) [(f3a_leaf 5 (PStr "b"), f3a_leaf 6 (PInt 1))])].
Definition f3a_cfg : dcfg := mkdcfg false [] [] None None None None.
Definition f3a_root_R : node := NMap (mkinfo 3 None true None) [(f3a_leaf 5 (PStr "b"), f3a_leaf 6 (PInt 1))].

Lemma accounting_refuted_witness :
  exists L R es, wf_doc L = true /\ wf_doc R = true /\
    compare_to path_eq_real f3a_cfg L R = Ok es /\ ~ Permutation (left_leaves es) (leaves L).
Proof.
  exists (f3a_leaf 2 PNone), f3a_root_R. eexists. split; [reflexivity|]. split; [reflexivity|]. split; [vm_compute; reflexivity|].
  vm_compute. intros P. apply Permutation_nil in P. discriminate P.
Qed.

Lemma accounting_all_modes :
  forall path_eq cfg L R es,
    wf_doc L = true -> wf_doc R = true -> root_guard L R = true ->
    compare_to path_eq cfg L R = Ok es ->
    Permutation (left_leaves es) (leaves L) /\ Permutation (right_leaves es) (leaves R).
Proof. intros. eapply compare_to_accounting; eauto. Qed.
