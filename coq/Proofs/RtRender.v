(* C08: the escaped parse of the reference writer's text gives back the
   segments (C08_parse_render). *)
From Coq Require Import List Ascii String ZArith Bool Arith Lia.
From YP Require Import Outcome PyStr Generated PathParser PathPrinter C08Spec RtStep RtSeg.
Import ListNotations.
Open Scope string_scope.
Open Scope nat_scope.

(* ---- accumulation of escaped / raw text in each mode ---- *)
Lemma run_top_esc strip sp S ty A t acc sa sc :
  first_char_ok (key_specials (sep_char sp)) sa sc t = true ->
  run strip (sep_char sp) (Top S ty A acc sa sc) (esc_with (key_specials (sep_char sp)) t)
  = Ok (Top S ty A (acc ++ kept strip (key_specials (sep_char sp)) t) (aft sa t) (aft sc t)).
Proof.
  apply (esc_run strip (sep_char sp)
           (fun acc sa sc => Gst false S ty [] false None A None 0 CNone acc sa sc)
           (fun acc sa sc => Gst true S ty [] false None A None 0 CNone acc sa sc)).
  - intros; apply plain_top; assumption.
  - intros; apply bs_step.
  - intros; apply esc_step.
Qed.

Lemma run_quoted_esc strip sepc q S ty A t acc sa sc :
  first_char_ok quoted_specials sa sc t = true ->
  run strip sepc (Qt q S ty A acc sa sc) (esc_with quoted_specials t)
  = Ok (Qt q S ty A (acc ++ kept strip quoted_specials t) (aft sa t) (aft sc t)).
Proof.
  apply (esc_run strip sepc
           (fun acc sa sc => Gst false S ty [qchar q] false None A None 0 CNone acc sa sc)
           (fun acc sa sc => Gst true S ty [qchar q] false None A None 0 CNone acc sa sc)).
  - intros; apply plain_quoted; assumption.
  - intros; apply bs_step.
  - intros; apply esc_step.
Qed.

Lemma run_br_esc strip sepc S ty i m A t acc sa sc :
  first_char_ok operand_specials sa sc t = true ->
  run strip sepc (Br S ty i m A acc sa sc) (esc_with operand_specials t)
  = Ok (Br S ty i m A (acc ++ kept strip operand_specials t) (aft sa t) (aft sc t)).
Proof.
  apply (esc_run strip sepc
           (fun acc sa sc => Gst false S ty ["["%char] i m A None 0 CNone acc sa sc)
           (fun acc sa sc => Gst true S ty ["["%char] i m A None 0 CNone acc sa sc)).
  - intros; apply plain_bracket; assumption.
  - intros; apply bs_step.
  - intros; apply esc_step.
Qed.

Lemma run_bq_esc strip sepc q S ty i m A t acc sa sc :
  first_char_ok quoted_specials sa sc t = true ->
  run strip sepc (BQ q S ty i m A acc sa sc) (esc_with quoted_specials t)
  = Ok (BQ q S ty i m A (acc ++ kept strip quoted_specials t) (aft sa t) (aft sc t)).
Proof.
  apply (esc_run strip sepc
           (fun acc sa sc => Gst false S ty [qchar q; "["%char] i m A None 0 CNone acc sa sc)
           (fun acc sa sc => Gst true S ty [qchar q; "["%char] i m A None 0 CNone acc sa sc)).
  - intros; apply plain_bquoted; assumption.
  - intros; apply bs_step.
  - intros; apply esc_step.
Qed.

Lemma run_params_esc strip sepc S i k t acc sa sc :
  first_char_ok param_specials sa sc t = true ->
  run strip sepc (Kw S i k acc sa sc) (esc_with param_specials t)
  = Ok (Kw S i k (acc ++ kept strip param_specials t) (aft sa t) (aft sc t)).
Proof.
  apply (esc_run strip sepc
           (fun acc sa sc => Gst false S (Some TKeywordSearch) ["("%char; "["%char] i None "" (Some k) 0 CNone acc sa sc)
           (fun acc sa sc => Gst true S (Some TKeywordSearch) ["("%char; "["%char] i None "" (Some k) 0 CNone acc sa sc)).
  - intros; apply plain_params; assumption.
  - intros; apply bs_step.
  - intros; apply esc_step.
Qed.

(* a text none of whose characters is special is written as it is *)
Lemma esc_with_id specials t :
  all_chars (fun c => negb (mem_ascii c specials)) t = true -> esc_with specials t = t.
Proof.
  induction t as [|c r IH]; cbn; [reflexivity|]. intros H. apply andb_true_iff in H. destruct H as [H1 H2].
  apply negb_true_iff in H1. rewrite H1. f_equal. auto.
Qed.

Lemma all_chars_impl (p q : ascii -> bool) t :
  (forall c, p c = true -> q c = true) -> all_chars p t = true -> all_chars q t = true.
Proof.
  intros Hpq. induction t as [|c r IH]; cbn; [reflexivity|]. intros H. apply andb_true_iff in H.
  destruct H as [H1 H2]. rewrite (Hpq _ H1), (IH H2). reflexivity.
Qed.

(* side conditions on the character classes, over all 256 characters *)
Lemma slice_char_plain c : is_slice_char c = true -> negb (mem_ascii c operand_specials) = true.
Proof. intros H. all_ascii c; vm_compute in H; try discriminate H; reflexivity. Qed.

Lemma name_char_slice c : is_name_char c = true -> is_slice_char c = true.
Proof. intros H. unfold is_slice_char. rewrite H. reflexivity. Qed.

Lemma name_char_top sp c : is_name_char c = true -> negb (mem_ascii c (key_specials (sep_char sp))) = true.
Proof. intros H. destruct sp; all_ascii c; vm_compute in H; try discriminate H; reflexivity. Qed.

Lemma name_char_nostar c : is_name_char c = true -> negb (Ascii.eqb c "*"%char) = true.
Proof. intros H. all_ascii c; vm_compute in H; try discriminate H; reflexivity. Qed.

Lemma name_char_noamp c : is_slice_char c = true -> negb (Ascii.eqb c "&"%char) = true.
Proof. intros H. all_ascii c; vm_compute in H; try discriminate H; reflexivity. Qed.

Lemma str_in_all c t : all_chars (fun d => negb (Ascii.eqb d c)) t = true -> str_in c t = false.
Proof.
  induction t as [|d r IH]; cbn; [reflexivity|]. intros H. apply andb_true_iff in H. destruct H as [H1 H2].
  apply negb_true_iff in H1. rewrite Ascii.eqb_sym, H1. auto.
Qed.

(* a text without the wildcard is flushed as it is *)
Lemma expand_nostar t ty : str_in "*"%char t = false -> expand_splats t ty = Ok (ty, AStr t).
Proof. intros H. unfold expand_splats. unfold star. rewrite H. reflexivity. Qed.

Lemma pend_nostar a r ty :
  str_in "*"%char (String a r) = false -> pend (String a r) ty = Ok [(key_if_none ty, AStr (String a r))].
Proof. intros H. unfold pend. cbn [nonempty]. rewrite expand_nostar by assumption. reflexivity. Qed.

Lemma pend_empty ty : pend "" ty = Ok [].
Proof. reflexivity. Qed.

Lemma aft_false t : aft false t = false.
Proof. destruct t; reflexivity. Qed.

Lemma first_ok_from sa sc c r :
  first_not_in ["&"%char] (String c r) = true ->
  (sc = true -> first_not_in after_coll_bad (String c r) = true) ->
  first_ok sa sc c = true.
Proof.
  intros H1 H2. unfold first_ok. cbn in H1. rewrite orb_false_r in H1 || idtac.
  destruct (Ascii.eqb c "&"%char) eqn:E; [discriminate H1|]. rewrite andb_false_r. cbn.
  destruct sc; [|reflexivity]. specialize (H2 eq_refl). cbn in H2. cbn. exact H2.
Qed.

Section Segs.
Variable sp : sep.
Notation sepc := (sep_char sp).
Notation R := (run true sepc).

(* KEY, written with back-slash escapes *)
Lemma key_esc_run S ty A a r sa sc rest :
  first_char_ok (key_specials sepc) sa sc (String a r) = true ->
  R (Top S ty A "" sa sc) (esc_with (key_specials sepc) (String a r) ++ rest)
  = R (Top S ty A (String a r) false false) rest.
Proof.
  intros H. rewrite run_app, run_top_esc by assumption. reflexivity.
Qed.

(* KEY, demarcated by quotes *)
Lemma key_quoted_run q S A a r sa sc rest :
  first_char_ok quoted_specials sa sc (String a r) = true ->
  R (Top S None A "" sa sc) (c1 (qchar q) ++ esc_with quoted_specials (String a r) ++ c1 (qchar q) ++ rest)
  = R (Top (S ++ [(Some TKey, AStr (String a r))])%list None A "" false false) rest.
Proof.
  intros H. change (c1 (qchar q) ++ ?x) with (String (qchar q) x). cbn [run].
  rewrite quote_open_top. cbn [bind]. rewrite run_app, run_quoted_esc by assumption. cbn [bind].
  change (c1 (qchar q) ++ rest) with (String (qchar q) rest). cbn [run kept append aft].
  rewrite quote_close_top. reflexivity.
Qed.

(* a name (anchor) written raw at top level *)
Lemma name_top_run S ty A n acc sa sc rest :
  all_chars is_name_char n = true ->
  first_char_ok (key_specials sepc) sa sc n = true ->
  R (Top S ty A acc sa sc) (n ++ rest) = R (Top S ty A (acc ++ n) (aft sa n) (aft sc n)) rest.
Proof.
  intros Hn Hf. rewrite <- (esc_with_id (key_specials sepc) n) at 1.
  - rewrite run_app, run_top_esc by assumption. reflexivity.
  - eapply all_chars_impl; [|exact Hn]. apply name_char_top.
Qed.

Lemma anchor_bare_run S ty A a r sc rest :
  all_chars is_name_char (String a r) = true ->
  (sc = true -> first_not_in after_coll_bad (String a r) = true) ->
  R (Top S ty A "" true sc) ("&" ++ String a r ++ rest) = R (Top S (Some TAnchor) A (String a r) false false) rest.
Proof.
  intros Hn Hc. change ("&" ++ ?x) with (String "&"%char x). cbn [run]. rewrite amp_top. cbn [bind].
  rewrite name_top_run; [reflexivity | assumption |].
  cbn. apply orb_true_iff. right. unfold first_ok. cbn.
  destruct sc; [|reflexivity]. specialize (Hc eq_refl). cbn in Hc. exact Hc.
Qed.

Lemma star_run S ty A acc sa sc rest :
  (acc = "" \/ (sa = false /\ sc = false)) ->
  R (Top S ty A acc sa sc) (String "*"%char rest) = R (Top S ty A (snoc acc "*"%char) false false) rest.
Proof.
  intros H. cbn [run]. rewrite plain_top; [reflexivity | destruct sp; reflexivity |].
  destruct sa, sc; reflexivity.
Qed.
End Segs.

(* the decimal text of an index reads back as the index (a property of the two
   Lib functions str_of_Z / py_int, evaluated per index) *)
Definition idx_ok (z : Z) : bool :=
  all_chars is_slice_char (str_of_Z z) && negb (str_in ":"%char (str_of_Z z))
  && match py_int (str_of_Z z) with Some z' => Z.eqb z' z | None => false end.

Lemma quote_table c :
  mem_ascii c g_term_quote_chars = (Ascii.eqb c "'"%char || Ascii.eqb c """"%char).
Proof. all_ascii c; vm_compute; reflexivity. Qed.

Lemma undemarcate_id t : quote_wrapped t = false -> undemarcate t = t.
Proof.
  unfold quote_wrapped, undemarcate. destruct (first_char t) as [a|]; [|reflexivity].
  rewrite quote_table. destruct (last_char t) as [b|]; [|destruct (_ || _); reflexivity].
  destruct (Ascii.eqb a "'"%char || Ascii.eqb a """"%char); [|reflexivity].
  cbn. rewrite (Ascii.eqb_sym b a). intros ->. reflexivity.
Qed.

Lemma last_char_snoc t c : last_char (t ++ c1 c) = Some c.
Proof.
  induction t as [|d r IH]; [reflexivity|]. cbn [append]. cbn [last_char].
  destruct (r ++ c1 c) eqn:E; [destruct r; discriminate E | exact IH].
Qed.

Lemma length_snoc t c : String.length (t ++ c1 c) = Datatypes.S (String.length t).
Proof. induction t; cbn; [reflexivity | f_equal; auto]. Qed.

Lemma take_snoc t c : take (String.length t) (t ++ c1 c) = t.
Proof. induction t; cbn; [reflexivity | f_equal; auto]. Qed.

Lemma undemarcate_wrapped q t : undemarcate (String (qchar q) (t ++ c1 (qchar q))) = t.
Proof.
  unfold undemarcate. cbn [first_char]. rewrite quote_table.
  replace (Ascii.eqb (qchar q) "'"%char || Ascii.eqb (qchar q) """"%char) with true by (destruct q; reflexivity).
  change (String (qchar q) (t ++ c1 (qchar q))) with ((String (qchar q) t) ++ c1 (qchar q)).
  rewrite last_char_snoc, Ascii.eqb_refl. unfold strip_ends.
  rewrite length_snoc. cbn [String.length drop]. cbn. rewrite Nat.sub_0_r. apply take_snoc.
Qed.

Section Brackets.
Variable sp : sep.
Notation sepc := (sep_char sp).
Notation R := (run true sepc).

(* raw text of slice characters inside [ ] *)
Lemma slice_br_run S ty i m A t acc sa rest :
  all_chars is_slice_char t = true ->
  R (Br S ty i m A acc sa false) (t ++ rest) = R (Br S ty i m A (acc ++ t) (aft sa t) false) rest.
Proof.
  intros Hn. rewrite <- (esc_with_id operand_specials t) at 1.
  - rewrite run_app, run_br_esc; [rewrite aft_false; reflexivity|].
    destruct t as [|c r]; [reflexivity|]. cbn. cbn in Hn. apply andb_true_iff in Hn. destruct Hn as [Hc _].
    apply orb_true_iff. right. pose proof (name_char_noamp c Hc) as Hx. apply negb_true_iff in Hx.
    unfold first_ok. rewrite Hx, andb_false_r. reflexivity.
  - eapply all_chars_impl; [|exact Hn]. apply slice_char_plain.
Qed.
End Brackets.

Definition Inv (prev_coll : bool) (done : list seg) (st : pst) : Prop :=
  exists S ty A acc sa sc p,
    st = Top S ty A acc sa sc /\ pend acc ty = Ok p /\ (S ++ p)%list = done /\
    (prev_coll = true -> acc = "" /\ sa = false /\ sc = true) /\ (prev_coll = false -> sc = false).

Definition bare_anchor (x : sseg) : bool :=
  match x with ((Some TAnchor, _), st) => negb (st_bracket st) | _ => false end.

Lemma app_one {A} (l : list A) (p : list A) x : ((l ++ p) ++ [x] = l ++ (p ++ [x]))%list.
Proof. rewrite app_assoc. reflexivity. Qed.

Section Main.
Variable sp : sep.
Notation sepc := (sep_char sp).
Notation R := (run true sepc).

(* segments that are preceded by a separator, from the state just after it *)
Lemma seg_core x S A sa sc prev_coll rest :
  wf_seg prev_coll x = true -> needs_sep x = true ->
  (sc = true -> prev_coll = true) -> (bare_anchor x = true -> sa = true) ->
  exists st', R (Top S None A "" sa sc) (body sepc x ++ rest) = R st' rest
              /\ Inv (is_collector x) (S ++ [fst x])%list st'.
Proof.
  intros Hwf Hns Hsc Hba. destruct x as [[ty at_] st]. cbn [fst].
  destruct ty as [[]|]; try discriminate Hns; destruct at_; try discriminate Hwf; cbn [is_collector].
  - (* bare anchor *)
    cbn in Hns. apply negb_true_iff in Hns. cbn [body]. rewrite Hns.
    cbn [wf_seg] in Hwf. rewrite Hns in Hwf. cbn [orb] in Hwf.
    apply andb_true_iff in Hwf. destruct Hwf as [Hwf H3]. apply andb_true_iff in Hwf. destruct Hwf as [H1 H2].
    destruct s as [|a r]; [discriminate H1|].
    assert (sa = true) as -> by (apply Hba; cbn; rewrite Hns; reflexivity).
    eexists. split.
    + rewrite app_assoc_s. apply anchor_bare_run; [exact H2|].
      intros ->. rewrite (Hsc eq_refl) in H3. exact H3.
    + exists S, (Some TAnchor), A, (String a r), false, false, [(Some TAnchor, AStr (String a r))].
      repeat split; try discriminate.
      apply pend_nostar. apply str_in_all. eapply all_chars_impl; [|exact H2]. apply name_char_nostar.
  - (* KEY *)
    cbn [wf_seg] in Hwf.
    apply andb_true_iff in Hwf. destruct Hwf as [Hwf H4]. apply andb_true_iff in Hwf. destruct Hwf as [Hwf H3].
    apply andb_true_iff in Hwf. destruct Hwf as [H1 H2]. destruct s as [|a r]; [discriminate H1|].
    assert (Hfo : first_ok sa sc a = true).
    { apply (first_ok_from sa sc a r H2). intros ->. rewrite (Hsc eq_refl) in H3. exact H3. }
    cbn [body]. destruct (st_quote st) as [q|].
    + eexists. split.
      * rewrite !app_assoc_s. apply key_quoted_run. cbn. rewrite Hfo. apply orb_true_r.
      * exists (S ++ [(Some TKey, AStr (String a r))])%list, None, A, "", false, false, [].
        repeat split; try discriminate. apply app_nil_r.
    + eexists. split.
      * apply key_esc_run. cbn [first_char_ok]. rewrite Hfo. apply orb_true_r.
      * exists S, None, A, (String a r), false, false, [(Some TKey, AStr (String a r))].
        repeat split; try discriminate. apply pend_nostar. apply negb_true_iff. exact H4.
  - (* ** *)
    cbn [body]. eexists. split.
    + change ("**" ++ rest) with (String "*"%char (String "*"%char rest)).
      rewrite star_run by (left; reflexivity). rewrite star_run by (right; split; reflexivity). reflexivity.
    + exists S, None, A, "**", false, false, [(Some TTraverse, ANone)]. repeat split; try discriminate.
  - (* * *)
    cbn [body]. eexists. split.
    + change ("*" ++ rest) with (String "*"%char rest). rewrite star_run by (left; reflexivity). reflexivity.
    + exists S, None, A, "*", false, false, [(Some TMatchAll, ANone)]. repeat split; try discriminate.
Qed.

Definition idx_guard (x : sseg) : bool :=
  match x with ((Some TIndex, AInt z), _) => idx_ok z | _ => true end.

Definition is_search (x : sseg) : bool :=
  match x with ((Some TSearch, _), _) => true | _ => false end.

Lemma str_brk (t rest : string) : ("[" ++ t ++ "]" ++ rest = String "["%char (t ++ String "]"%char rest))%string.
Proof. reflexivity. Qed.

(* segments that carry their own demarcation, from any state between segments *)
Lemma seg_self x prev_coll done st rest :
  Inv prev_coll done st -> wf_seg prev_coll x = true -> needs_sep x = false -> is_search x = false ->
  idx_guard x = true ->
  exists st', R st (body sepc x ++ rest) = R st' rest /\ Inv (is_collector x) (done ++ [fst x])%list st'.
Proof.
  intros (S & ty0 & A & acc & sa & sc & p & -> & Hp & <- & Hc1 & Hc2) Hwf Hns Hse Hidx.
  destruct x as [[ty at_] st]. cbn [fst].
  destruct ty as [[]|]; try discriminate Hns; try discriminate Hse; destruct at_; try discriminate Hwf; cbn [is_collector].
  - (* [&anchor] *)
    cbn in Hns. apply negb_false_iff in Hns. cbn [body]. rewrite Hns.
    cbn [wf_seg] in Hwf. rewrite Hns in Hwf. cbn [orb] in Hwf. rewrite andb_true_r in Hwf.
    apply andb_true_iff in Hwf. destruct Hwf as [H1 H2].
    eexists. split.
    + change ("[&" ++ s ++ "]") with (String "["%char (String "&"%char (s ++ "]"))).
      cbn [append run]. rewrite open_bracket_top, Hp. cbn [bind run]. rewrite amp_bracket. cbn [bind].
      rewrite app_assoc_s. rewrite slice_br_run by (eapply all_chars_impl; [|exact H2]; apply name_char_slice).
      cbn [append run]. rewrite close_anchor. cbn [bind]. reflexivity.
    + exists ((S ++ p) ++ [(Some TAnchor, AStr s)])%list, None, "", "", (aft false s), false, [].
      repeat split; try discriminate. apply app_nil_r.
  - (* collector *)
    cbn [wf_seg] in Hwf. apply andb_true_iff in Hwf. destruct Hwf as [He Hop].
    unfold wf_expr in He. apply andb_true_iff in He. destruct He as [He H4].
    apply andb_true_iff in He. destruct He as [He H3]. apply andb_true_iff in He. destruct He as [H1 H2].
    destruct expr as [|e0 er]; [discriminate H1|].
    cbn [body]. rewrite !app_assoc_s. change ("(" ++ ?x) with (String "("%char x).
    assert (Hrun : forall S' A' o sa', (sa' = true -> first_not_in ["&"%char] (String e0 er) = true) ->
              R (Cst S' A' o 0 "" sa' false) (String e0 er ++ ")" ++ rest)
              = R (Top (S' ++ [(Some TCollector, ACollector o (String e0 er))])%list (Some TCollector) A' "" false true) rest).
    { intros S' A' o sa' Hsa. rewrite (run_app true sepc (String e0 er)).
      pose proof (coll_expr true sepc S' A' o (String e0 er) 0 0 "" sa' H2 H3 Hsa) as Hx.
      cbn [Nat.add] in Hx. rewrite Hx. cbn [bind append aft].
      change (")" ++ rest) with (String ")"%char rest). cbn [run].
      rewrite coll_close. reflexivity. }
    destruct op.
    + (* no operator *)
      eexists. split.
      * change (cop_text CNone ++ ?x) with x. cbn [run]. rewrite coll_open_top, Hp. cbn [bind].
        apply Hrun. intros _. exact H4.
      * exists ((S ++ p) ++ [(Some TCollector, ACollector CNone (String e0 er))])%list, (Some TCollector), A, "", false, true, [].
        repeat split; try discriminate. apply app_nil_r.
    + destruct (Hc1 Hop) as (-> & -> & ->). cbn in Hp. inversion Hp; subst p. rewrite app_nil_r.
      eexists. split.
      * rewrite coll_op_open. apply Hrun. discriminate.
      * exists (S ++ [(Some TCollector, ACollector CAdd (String e0 er))])%list, (Some TCollector), A, "", false, true, [].
        repeat split; try discriminate. apply app_nil_r.
    + destruct (Hc1 Hop) as (-> & -> & ->). cbn in Hp. inversion Hp; subst p. rewrite app_nil_r.
      eexists. split.
      * rewrite coll_op_open. apply Hrun. discriminate.
      * exists (S ++ [(Some TCollector, ACollector CSub (String e0 er))])%list, (Some TCollector), A, "", false, true, [].
        repeat split; try discriminate. apply app_nil_r.
    + destruct (Hc1 Hop) as (-> & -> & ->). cbn in Hp. inversion Hp; subst p. rewrite app_nil_r.
      eexists. split.
      * rewrite coll_op_open. apply Hrun. discriminate.
      * exists (S ++ [(Some TCollector, ACollector CAnd (String e0 er))])%list, (Some TCollector), A, "", false, true, [].
        repeat split; try discriminate. apply app_nil_r.
  - (* slice *)
    cbn [wf_seg] in Hwf. apply andb_true_iff in Hwf. destruct Hwf as [H1 H2]. cbn [body].
    eexists. split.
    + rewrite !app_assoc_s, str_brk. cbn [run]. rewrite open_bracket_top, Hp. cbn [bind].
      rewrite slice_br_run by exact H2. cbn [append run]. rewrite close_slice by exact H1. reflexivity.
    + exists ((S ++ p) ++ [(Some TIndex, AStr s)])%list, None, "", "", (aft true s), false, [].
      repeat split; try discriminate. apply app_nil_r.
  - (* element index *)
    cbn [idx_guard] in Hidx. unfold idx_ok in Hidx.
    apply andb_true_iff in Hidx. destruct Hidx as [Hidx H3]. apply andb_true_iff in Hidx. destruct Hidx as [H1 H2].
    apply negb_true_iff in H2. destruct (py_int (str_of_Z z)) as [z'|] eqn:Ez; [|discriminate H3].
    apply Z.eqb_eq in H3. subst z'. cbn [body].
    eexists. split.
    + rewrite !app_assoc_s, str_brk. cbn [run]. rewrite open_bracket_top, Hp. cbn [bind].
      rewrite slice_br_run by exact H1. cbn [append run]. rewrite (close_index _ _ _ _ _ _ _ _ _ z) by assumption. reflexivity.
    + exists ((S ++ p) ++ [(Some TIndex, AInt z)])%list, None, "", "", (aft true (str_of_Z z)), false, [].
      repeat split; try discriminate. apply app_nil_r.
  - (* keyword search *)
    cbn [body]. eexists. split.
    + rewrite !app_assoc_s. change ("[" ++ ?x) with (String "["%char x). cbn [run]. rewrite open_bracket_top, Hp. cbn [bind].
      instantiate (1 := Top ((S ++ p) ++ [(Some TKeywordSearch, AKeyword inv k params)])%list None "" "" false false).
      change ("(" ++ ?x) with (String "("%char x).
      assert (Hk : forall i sa', R (Br (S ++ p)%list (Some TIndex) i None "" "" sa' false)
                          (kw_text k ++ String "("%char (esc_with param_specials params ++ ")]" ++ rest))
                     = R (Top ((S ++ p) ++ [(Some TKeywordSearch, AKeyword i k params)])%list None "" "" false false) rest).
      { intros i sa'. change (String "("%char ?x) with ("(" ++ x). rewrite <- (app_assoc_s (kw_text k) "(" _).
        rewrite (run_app true sepc (kw_text k ++ "(")), kw_open. cbn [bind].
        rewrite (run_app true sepc (esc_with param_specials params)), run_params_esc by (apply first_char_ok_ff).
        cbn [bind kept append].
        change (")]" ++ rest) with (String ")"%char (String "]"%char rest)). rewrite kw_close. rewrite aft_false. reflexivity. }
      destruct inv.
      * change ("!" ++ ?x) with (String "!"%char x). cbn [run]. rewrite bang_bracket. cbn [bind]. apply Hk.
      * change ("" ++ ?x) with x. apply Hk.
    + exists ((S ++ p) ++ [(Some TKeywordSearch, AKeyword inv k params)])%list, None, "", "", false, false, [].
      repeat split; try discriminate. apply app_nil_r.
Qed.

Definition not_search (x : sseg) : bool := negb (is_search x).

Lemma inv_sc prev_coll done S ty A acc sa sc :
  Inv prev_coll done (Top S ty A acc sa sc) -> sc = true -> prev_coll = true.
Proof.
  intros (S' & ty' & A' & acc' & sa' & sc' & p & E & _ & _ & _ & Hc2) Hsc.
  unfold Gst in E. inversion E; subst. destruct prev_coll; [reflexivity|].
  discriminate (Hc2 eq_refl).
Qed.

Lemma render_go_run : forall l first prev_coll done st,
  Inv prev_coll done st -> wf_go prev_coll l = true ->
  forallb idx_guard l = true -> forallb not_search l = true ->
  (first = true -> exists S A sa, st = Top S None A "" sa false /\ done = S /\ prev_coll = false /\
                     match l with x :: _ => bare_anchor x = true -> sa = true | [] => True end) ->
  exists st', R st (render_go sepc first l) = Ok st' /\ finish st' = Ok (done ++ segs_of l)%list.
Proof.
  induction l as [|x r IH]; intros first prev_coll done st HI Hwf Hidx Hns Hfirst.
  - exists st. split; [reflexivity|].
    destruct HI as (S & ty0 & A & acc & sa & sc & p & -> & Hp & <- & _).
    rewrite finish_top, Hp. cbn. rewrite app_nil_r. reflexivity.
  - cbn [wf_go] in Hwf. apply andb_true_iff in Hwf. destruct Hwf as [Hx Hr].
    cbn [forallb] in Hidx, Hns. apply andb_true_iff in Hidx. destruct Hidx as [Hix Hir].
    apply andb_true_iff in Hns. destruct Hns as [Hnx Hnr].
    cbn [render_go segs_of map].
    assert (Hfin : forall st1, Inv (is_collector x) (done ++ [fst x])%list st1 ->
                   exists st', R st1 (render_go sepc false r) = Ok st' /\ finish st' = Ok (done ++ fst x :: segs_of r)%list).
    { intros st1 HI1. destruct (IH false _ _ st1 HI1 Hr Hir Hnr) as (st' & H1 & H2); [discriminate|].
      exists st'. split; [exact H1|]. rewrite H2. rewrite <- app_assoc. reflexivity. }
    destruct (needs_sep x) eqn:Ens.
    + destruct first.
      * cbn [negb andb]. change ("" ++ ?z) with z.
        destruct (Hfirst eq_refl) as (S & A & sa & -> & -> & -> & Hba).
        destruct (seg_core x S A sa false false (render_go sepc false r) Hx Ens) as (st1 & H1 & HI1);
          [discriminate | exact Hba |].
        destruct (Hfin st1 HI1) as (st' & H2 & H3). exists st'. split; [rewrite H1; exact H2 | exact H3].
      * cbn [negb andb]. change (c1 sepc ++ ?z) with (String sepc z).
        pose proof HI as HI0.
        destruct HI as (S & ty0 & A & acc & sa & sc & p & -> & Hp & <- & Hc1 & Hc2).
        cbn [run]. rewrite sep_step_top, Hp. cbn [bind].
        destruct (seg_core x (S ++ p)%list A true sc prev_coll (render_go sepc false r) Hx Ens) as (st1 & H1 & HI1);
          [intros Hsc; eapply inv_sc; eassumption | reflexivity |].
        destruct (Hfin st1 HI1) as (st' & H2 & H3). exists st'. split; [rewrite H1; exact H2 | exact H3].
    + cbn [andb]. change ("" ++ ?z) with z.
      unfold not_search in Hnx. apply negb_true_iff in Hnx.
      destruct (seg_self x prev_coll done st (render_go sepc false r) HI Hx Ens Hnx Hix) as (st1 & H1 & HI1).
      destruct (Hfin st1 HI1) as (st' & H2 & H3). exists st'. split; [rewrite H1; exact H2 | exact H3].
Qed.
End Main.

Lemma init_is_top b : init_pst b = Top [] None "" "" b false.
Proof. reflexivity. Qed.

Lemma inv_init b : Inv false [] (Top [] None "" "" b false).
Proof. exists [], None, "", "", b, false, []. repeat split; try discriminate. Qed.

Lemma normalize_nonblank t : nonempty (strip_py t) = true -> normalize_original t = t.
Proof. unfold normalize_original. destruct (strip_py t); [discriminate | reflexivity]. Qed.

Lemma bare_anchor_head sepc x r c0 t :
  bare_anchor x = true -> wf_seg false x = true -> String c0 t = render_go sepc true (x :: r) -> c0 = "&"%char.
Proof.
  intros Hb Hw E. destruct x as [[[[]|] at_] st]; try discriminate Hb. cbn in Hb. apply negb_true_iff in Hb.
  destruct at_; try discriminate Hw. cbn in E. rewrite Hb in E. cbn in E. injection E as E _. exact E.
Qed.

Lemma nth_slash T :
  nth_char (if 1 <? String.length (String "/"%char T) then 1 else 0) (String "/"%char T) <> None.
Proof. destruct T; cbn; discriminate. Qed.

(* the fragment without SEARCH segments *)
Theorem parse_render_nosearch sp l :
  wf sp l = true -> forallb idx_guard l = true -> forallb not_search l = true ->
  parse (Forced sp) true (render_ref sp l) = Ok (segs_of l).
Proof.
  intros Hwf Hidx Hns. unfold wf in Hwf. apply andb_true_iff in Hwf. destruct Hwf as [Hgo Hbl].
  destruct l as [|x r].
  - destruct sp; vm_compute; reflexivity.
  - cbn [is_nil orb] in Hbl. unfold parse. rewrite (normalize_nonblank _ Hbl).
    destruct (render_ref sp (x :: r)) as [|c0 t] eqn:Et; [discriminate Hbl|].
    cbn [effective_sep].
    destruct sp.
    + (* dot *)
      cbn [nth_char String.get]. cbv beta iota.
      unfold render_ref in Et. change ("" ++ ?z) with z in Et.
      destruct (render_go_run Dot (x :: r) true false [] (Top [] None "" "" (Ascii.eqb c0 "&"%char) false)
                  (inv_init _) Hgo Hidx Hns) as (st' & H1 & H2).
      { intros _. exists [], "", (Ascii.eqb c0 "&"%char). repeat split.
        intros Hb. cbn [wf_go] in Hgo. apply andb_true_iff in Hgo. destruct Hgo as [Hx _].
        rewrite (bare_anchor_head _ x r c0 t Hb Hx (eq_sym Et)). reflexivity. }
      rewrite init_is_top. cbn [sepc_of sep_char] in Et, H1 |- *. rewrite <- Et. rewrite H1. cbn [bind]. exact H2.
    + (* slash *)
      unfold render_ref in Et. change ("/" ++ ?z) with (String "/"%char z) in Et. injection Et as <- <-.
      destruct (render_go_run Slash (x :: r) true false [] (Top [] None "" "" true false)
                  (inv_init _) Hgo Hidx Hns) as (st' & H1 & H2).
      { intros _. exists [], "", true. repeat split. }
      destruct (nth_char _ _) as [c1|] eqn:En.
      * rewrite init_is_top. cbn [sepc_of run]. rewrite (sep_step_top true Slash). cbn [pend nonempty bind app].
        cbn [sep_char render_go negb] in H1 |- *. rewrite H1. cbn [bind]. exact H2.
      * exfalso. eapply nth_slash. exact En.
Qed.
