(* C08: the parse of the reference writer's text gives back the segments
   (C08_parse_render).  Proved for a slightly more general writer [render_x]
   (a plain key may back-slash additional characters: what str() does to a
   key that came from the other notation) and for both parses: the escaped
   one (strip = true) returns the segments, the unescaped one (strip = false)
   returns them with the written form of every text [kseg]. *)
From Coq Require Import List Ascii String ZArith Bool Arith Lia.
From YP Require Import Outcome PyStr Generated PathParser PathPrinter C08Spec RtStep RtSeg RtInt.
Import ListNotations.
Open Scope string_scope.
Open Scope nat_scope.

(* ---- accumulation of escaped / raw text in each mode ---- *)
Definition covers (E small : list ascii) : Prop := forall c, mem_ascii c E = false -> mem_ascii c small = false.

Lemma mem_app c a b : mem_ascii c (a ++ b)%list = (mem_ascii c a || mem_ascii c b)%bool.
Proof. induction a as [|d r IH]; cbn; [reflexivity|]. destruct (Ascii.eqb c d); [reflexivity | exact IH]. Qed.

Lemma covers_app X small : covers (X ++ small)%list small.
Proof. intros c H. rewrite mem_app in H. apply orb_false_iff in H. apply H. Qed.

Lemma covers_refl small : covers small small.
Proof. intros c H. exact H. Qed.

(* any superset E of the key specials may be back-slashed *)
Lemma run_top_esc strip sp E S ty A t acc sa sc :
  covers E (key_specials (sep_char sp)) ->
  first_char_ok E sa sc t = true ->
  run strip (sep_char sp) (Top S ty A acc sa sc) (esc_with E t)
  = Ok (Top S ty A (acc ++ kept strip E t) (aft sa t) (aft sc t)).
Proof.
  intros HE.
  apply (esc_run strip (sep_char sp)
           (fun acc sa sc => Gst false S ty [] false None A None 0 CNone acc sa sc)
           (fun acc sa sc => Gst true S ty [] false None A None 0 CNone acc sa sc)).
  - intros; apply plain_top; [apply HE|]; assumption.
  - intros; apply bs_step.
  - intros; apply esc_step.
Qed.

Lemma run_quoted_esc strip sepc q S ty A t acc sa sc :
  first_char_ok quoted_specials sa sc t = true ->
  run strip sepc (Qt q S ty A acc sa sc) (esc_with quoted_specials t)
  = Ok (Qt q S ty A (acc ++ kept strip quoted_specials t) (aft sa t) (aft sc t)).
Proof.
  apply (esc_run strip sepc
           (fun acc sa sc => Gst false S ty [qchar q] false None A None 0 CNone acc sa sc)
           (fun acc sa sc => Gst true S ty [qchar q] false None A None 0 CNone acc sa sc)).
  - intros; apply plain_quoted; assumption.
  - intros; apply bs_step.
  - intros; apply esc_step.
Qed.

Lemma run_br_esc strip sepc S ty i m A t acc sa sc :
  first_char_ok operand_specials sa sc t = true ->
  run strip sepc (Br S ty i m A acc sa sc) (esc_with operand_specials t)
  = Ok (Br S ty i m A (acc ++ kept strip operand_specials t) (aft sa t) (aft sc t)).
Proof.
  apply (esc_run strip sepc
           (fun acc sa sc => Gst false S ty ["["%char] i m A None 0 CNone acc sa sc)
           (fun acc sa sc => Gst true S ty ["["%char] i m A None 0 CNone acc sa sc)).
  - intros; apply plain_bracket; assumption.
  - intros; apply bs_step.
  - intros; apply esc_step.
Qed.

Lemma run_bq_esc strip sepc d q S ty i m A t acc sa sc :
  first_char_ok quoted_specials sa sc t = true ->
  run strip sepc (BQD d q S ty i m A acc sa sc) (esc_with quoted_specials t)
  = Ok (BQD d q S ty i m A (acc ++ kept strip quoted_specials t) (aft sa t) (aft sc t)).
Proof.
  apply (esc_run strip sepc
           (fun acc sa sc => GstD d false S ty [qchar q; "["%char] i m A None 0 CNone acc sa sc)
           (fun acc sa sc => GstD d true S ty [qchar q; "["%char] i m A None 0 CNone acc sa sc)).
  - intros; apply plain_bquoted; assumption.
  - intros; apply bs_step.
  - intros; apply esc_step.
Qed.

Lemma run_params_esc strip sepc S i k t acc sa sc :
  first_char_ok param_specials sa sc t = true ->
  run strip sepc (Kw S i k acc sa sc) (esc_with param_specials t)
  = Ok (Kw S i k (acc ++ kept strip param_specials t) (aft sa t) (aft sc t)).
Proof.
  apply (esc_run strip sepc
           (fun acc sa sc => Gst false S (Some TKeywordSearch) ["("%char; "["%char] i None "" (Some k) 0 CNone acc sa sc)
           (fun acc sa sc => Gst true S (Some TKeywordSearch) ["("%char; "["%char] i None "" (Some k) 0 CNone acc sa sc)).
  - intros; apply plain_params; assumption.
  - intros; apply bs_step.
  - intros; apply esc_step.
Qed.

(* a text none of whose characters is special is written as it is *)
Lemma esc_with_id specials t :
  all_chars (fun c => negb (mem_ascii c specials)) t = true -> esc_with specials t = t.
Proof.
  induction t as [|c r IH]; cbn; [reflexivity|]. intros H. apply andb_true_iff in H. destruct H as [H1 H2].
  apply negb_true_iff in H1. rewrite H1. f_equal. auto.
Qed.

Lemma all_chars_impl (p q : ascii -> bool) t :
  (forall c, p c = true -> q c = true) -> all_chars p t = true -> all_chars q t = true.
Proof.
  intros Hpq. induction t as [|c r IH]; cbn; [reflexivity|]. intros H. apply andb_true_iff in H.
  destruct H as [H1 H2]. rewrite (Hpq _ H1), (IH H2). reflexivity.
Qed.

(* side conditions on the character classes, over all 256 characters *)
Lemma slice_char_plain c : is_slice_char c = true -> negb (mem_ascii c operand_specials) = true.
Proof. intros H. all_ascii c; vm_compute in H; try discriminate H; reflexivity. Qed.

Lemma name_char_slice c : is_name_char c = true -> is_slice_char c = true.
Proof. intros H. unfold is_slice_char. rewrite H. reflexivity. Qed.

Lemma name_char_top sp c : is_name_char c = true -> negb (mem_ascii c (key_specials (sep_char sp))) = true.
Proof. intros H. destruct sp; all_ascii c; vm_compute in H; try discriminate H; reflexivity. Qed.

Lemma name_char_nostar c : is_name_char c = true -> negb (Ascii.eqb c "*"%char) = true.
Proof. intros H. all_ascii c; vm_compute in H; try discriminate H; reflexivity. Qed.

Lemma name_char_noamp c : is_slice_char c = true -> negb (Ascii.eqb c "&"%char) = true.
Proof. intros H. all_ascii c; vm_compute in H; try discriminate H; reflexivity. Qed.

Lemma str_in_all c t : all_chars (fun d => negb (Ascii.eqb d c)) t = true -> str_in c t = false.
Proof.
  induction t as [|d r IH]; cbn; [reflexivity|]. intros H. apply andb_true_iff in H. destruct H as [H1 H2].
  apply negb_true_iff in H1. rewrite Ascii.eqb_sym, H1. auto.
Qed.

(* a text without the wildcard is flushed as it is *)
Lemma expand_nostar t ty : str_in "*"%char t = false -> expand_splats t ty = Ok (ty, AStr t).
Proof. intros H. unfold expand_splats. unfold star. rewrite H. reflexivity. Qed.

Lemma pend_nostar t ty :
  nonempty t = true -> str_in "*"%char t = false -> pend t ty = Ok [(key_if_none ty, AStr t)].
Proof. intros Hn H. unfold pend. rewrite Hn. rewrite expand_nostar by assumption. reflexivity. Qed.

Lemma pend_empty ty : pend "" ty = Ok [].
Proof. reflexivity. Qed.

Lemma aft_false t : aft false t = false.
Proof. destruct t; reflexivity. Qed.

Lemma first_ok_from sa sc c r :
  first_not_in ["&"%char] (String c r) = true ->
  (sc = true -> first_not_in after_coll_bad (String c r) = true) ->
  first_ok sa sc c = true.
Proof.
  intros H1 H2. unfold first_ok. cbn in H1. rewrite orb_false_r in H1 || idtac.
  destruct (Ascii.eqb c "&"%char) eqn:E; [discriminate H1|]. rewrite andb_false_r. cbn.
  destruct sc; [|reflexivity]. specialize (H2 eq_refl). cbn in H2. cbn. exact H2.
Qed.

(* ---- what the two parses keep of a written text ---- *)
Lemma kept_true S t : kept true S t = t.
Proof. reflexivity. Qed.

Lemma kept_cons strip S a r : exists a' r', kept strip S (String a r) = String a' r'.
Proof.
  destruct strip; cbn; [eauto|]. destruct (mem_ascii a S); eauto.
Qed.

Lemma kept_nonempty strip S t : nonempty t = true -> nonempty (kept strip S t) = true.
Proof.
  destruct t as [|a r]; [discriminate|]. intros _. destruct (kept_cons strip S a r) as (a' & r' & ->). reflexivity.
Qed.

Lemma str_in_esc c S t : Ascii.eqb c "\"%char = false -> str_in c (esc_with S t) = str_in c t.
Proof.
  intros Hc. induction t as [|d r IH]; [reflexivity|]. cbn [esc_with].
  destruct (mem_ascii d S); cbn [str_in]; rewrite ?Hc, IH; reflexivity.
Qed.

Lemma kept_str_in strip c S t : Ascii.eqb c "\"%char = false -> str_in c (kept strip S t) = str_in c t.
Proof. destruct strip; [reflexivity|]. apply str_in_esc. Qed.

Lemma esc_with_id_kept strip S t : esc_with S t = t -> kept strip S t = t.
Proof. destruct strip; [reflexivity|]. intros H; exact H. Qed.

(* the generalised writer: a plain key may back-slash the extra characters X *)
Definition xseg : Type := (sseg * list ascii)%type.

Definition body_x (sepc : ascii) (y : xseg) : string :=
  let '(x, X) := y in
  match x with
  | ((Some TKey, AStr k), st) =>
      match st_quote st with
      | None => esc_with (X ++ key_specials sepc) k
      | Some _ => body sepc x
      end
  | _ => body sepc x
  end.

Fixpoint render_go_x (sepc : ascii) (first : bool) (l : list xseg) : string :=
  match l with
  | [] => ""
  | y :: r =>
      (if needs_sep (fst y) && negb first then c1 sepc else "") ++ body_x sepc y ++ render_go_x sepc false r
  end.

Definition render_x (sp : sep) (l : list xseg) : string :=
  (match sp with Slash => "/" | Dot => "" end) ++ render_go_x (sep_char sp) true l.

Definition plain_x (x : sseg) : xseg := (x, []).

Lemma body_x_plain sepc x : body_x sepc (plain_x x) = body sepc x.
Proof.
  destruct x as [[ty at_] st]. destruct ty as [[]|]; try reflexivity. destruct at_; try reflexivity.
  cbn. destruct (st_quote st); reflexivity.
Qed.

Lemma render_go_x_plain sepc l : forall first, render_go_x sepc first (map plain_x l) = render_go sepc first l.
Proof.
  induction l as [|x r IH]; intros first; [reflexivity|]. cbn [map render_go_x render_go].
  rewrite body_x_plain, IH. reflexivity.
Qed.

Lemma render_x_plain sp l : render_x sp (map plain_x l) = render_ref sp l.
Proof. unfold render_x, render_ref. rewrite render_go_x_plain. reflexivity. Qed.

(* the segment as the parse returns it *)
Definition term_set (st : style) : list ascii := term_specials st.

Definition kseg (strip : bool) (sepc : ascii) (y : xseg) : seg :=
  let '(x, X) := y in
  let '(sg, st) := x in
  match sg with
  | (Some TKey, AStr k) =>
      (Some TKey, AStr (kept strip (match st_quote st with None => (X ++ key_specials sepc)%list | Some _ => quoted_specials end) k))
  | (Some TSearch, ASearch inv m attr term) =>
      (Some TSearch, ASearch inv m (kept strip operand_specials attr)
                       (match m with MRegex => term | _ => kept strip (term_set st) term end))
  | (Some TKeywordSearch, AKeyword inv k params) =>
      (Some TKeywordSearch, AKeyword inv k (kept strip param_specials params))
  | _ => sg
  end.

Lemma kseg_true sepc y : kseg true sepc y = fst (fst y).
Proof.
  destruct y as [[[ty at_] st] X]. cbn [fst].
  destruct ty as [[]|]; try reflexivity; destruct at_; try reflexivity.
  cbn. destruct m; reflexivity.
Qed.

Section Segs.
Variable sp : sep.
Variable strip : bool.
Notation sepc := (sep_char sp).
Notation R := (run strip sepc).

(* KEY, written with back-slash escapes *)
Lemma key_esc_run E S ty A t sa sc rest :
  covers E (key_specials sepc) ->
  first_char_ok E sa sc t = true ->
  R (Top S ty A "" sa sc) (esc_with E t ++ rest)
  = R (Top S ty A (kept strip E t) (aft sa t) (aft sc t)) rest.
Proof.
  intros HE H. rewrite run_app, (run_top_esc strip sp E) by assumption. reflexivity.
Qed.

(* KEY, demarcated by quotes *)
Lemma key_quoted_run q S A a r sa sc rest :
  first_char_ok quoted_specials sa sc (String a r) = true ->
  R (Top S None A "" sa sc) (c1 (qchar q) ++ esc_with quoted_specials (String a r) ++ c1 (qchar q) ++ rest)
  = R (Top (S ++ [(Some TKey, AStr (kept strip quoted_specials (String a r)))])%list None A "" false false) rest.
Proof.
  intros H. change (c1 (qchar q) ++ ?x) with (String (qchar q) x). cbn [run].
  rewrite quote_open_top. cbn [bind]. rewrite run_app, run_quoted_esc by assumption. cbn [bind].
  change (c1 (qchar q) ++ rest) with (String (qchar q) rest). cbn [run append aft].
  destruct (kept_cons strip quoted_specials a r) as (a' & r' & ->).
  rewrite quote_close_top. reflexivity.
Qed.

(* a name (anchor) written raw at top level *)
Lemma name_top_run S ty A n acc sa sc rest :
  all_chars is_name_char n = true ->
  first_char_ok (key_specials sepc) sa sc n = true ->
  R (Top S ty A acc sa sc) (n ++ rest) = R (Top S ty A (acc ++ n) (aft sa n) (aft sc n)) rest.
Proof.
  intros Hn Hf.
  assert (He : esc_with (key_specials sepc) n = n).
  { apply esc_with_id. eapply all_chars_impl; [|exact Hn]. apply name_char_top. }
  rewrite <- He at 1.
  rewrite run_app, (run_top_esc strip sp (key_specials sepc)) by (try apply covers_refl; assumption).
  rewrite (esc_with_id_kept strip _ _ He). reflexivity.
Qed.

Lemma anchor_bare_run S ty A a r sc rest :
  all_chars is_name_char (String a r) = true ->
  (sc = true -> first_not_in after_coll_bad (String a r) = true) ->
  R (Top S ty A "" true sc) ("&" ++ String a r ++ rest) = R (Top S (Some TAnchor) A (String a r) false false) rest.
Proof.
  intros Hn Hc. change ("&" ++ ?x) with (String "&"%char x). cbn [run]. rewrite amp_top. cbn [bind].
  rewrite name_top_run; [reflexivity | assumption |].
  cbn. apply orb_true_iff. right. unfold first_ok. cbn.
  destruct sc; [|reflexivity]. specialize (Hc eq_refl). cbn in Hc. exact Hc.
Qed.

Lemma star_run S ty A acc sa sc rest :
  (acc = "" \/ (sa = false /\ sc = false)) ->
  R (Top S ty A acc sa sc) (String "*"%char rest) = R (Top S ty A (snoc acc "*"%char) false false) rest.
Proof.
  intros H. cbn [run]. rewrite plain_top; [reflexivity | destruct sp; reflexivity |].
  destruct sa, sc; reflexivity.
Qed.
End Segs.

Lemma quote_table c :
  mem_ascii c g_term_quote_chars = (Ascii.eqb c "'"%char || Ascii.eqb c """"%char).
Proof. all_ascii c; vm_compute; reflexivity. Qed.

Lemma undemarcate_id t : quote_wrapped t = false -> undemarcate t = t.
Proof.
  unfold quote_wrapped, undemarcate. destruct (first_char t) as [a|]; [|reflexivity].
  rewrite quote_table. destruct (last_char t) as [b|]; [|destruct (_ || _); reflexivity].
  destruct (Ascii.eqb a "'"%char || Ascii.eqb a """"%char); [|reflexivity].
  cbn. rewrite (Ascii.eqb_sym b a). intros ->. reflexivity.
Qed.

Lemma last_char_snoc t c : last_char (t ++ c1 c) = Some c.
Proof.
  induction t as [|d r IH]; [reflexivity|]. cbn [append]. cbn [last_char].
  destruct (r ++ c1 c) eqn:E; [destruct r; discriminate E | exact IH].
Qed.

Lemma length_snoc t c : String.length (t ++ c1 c) = Datatypes.S (String.length t).
Proof. induction t; cbn; [reflexivity | f_equal; auto]. Qed.

Lemma take_snoc t c : take (String.length t) (t ++ c1 c) = t.
Proof. induction t; cbn; [reflexivity | f_equal; auto]. Qed.

Lemma undemarcate_wrapped q t : undemarcate (String (qchar q) (t ++ c1 (qchar q))) = t.
Proof.
  unfold undemarcate. cbn [first_char]. rewrite quote_table.
  replace (Ascii.eqb (qchar q) "'"%char || Ascii.eqb (qchar q) """"%char) with true by (destruct q; reflexivity).
  change (String (qchar q) (t ++ c1 (qchar q))) with ((String (qchar q) t) ++ c1 (qchar q)).
  rewrite last_char_snoc, Ascii.eqb_refl. unfold strip_ends.
  rewrite length_snoc. cbn [String.length drop]. cbn. rewrite Nat.sub_0_r. apply take_snoc.
Qed.

(* a text written with back-slashed quotes does not start with a quote *)
Lemma quote_wrapped_esc S t :
  mem_ascii "'"%char S = true -> mem_ascii """"%char S = true -> quote_wrapped (esc_with S t) = false.
Proof.
  intros H1 H2. destruct t as [|c r]; [reflexivity|]. cbn [esc_with].
  destruct (mem_ascii c S) eqn:Em.
  - unfold quote_wrapped. cbn [first_char]. destruct (last_char _); reflexivity.
  - unfold quote_wrapped. cbn [first_char].
    assert (Ascii.eqb c "'"%char = false) as ->.
    { destruct (Ascii.eqb c "'"%char) eqn:E; [|reflexivity]. apply Ascii.eqb_eq in E. subst c. rewrite H1 in Em. discriminate. }
    assert (Ascii.eqb c """"%char = false) as ->.
    { destruct (Ascii.eqb c """"%char) eqn:E; [|reflexivity]. apply Ascii.eqb_eq in E. subst c. rewrite H2 in Em. discriminate. }
    destruct (last_char _); reflexivity.
Qed.

Lemma quote_wrapped_kept strip t :
  quote_wrapped t = false -> quote_wrapped (kept strip operand_specials t) = false.
Proof. destruct strip; [intros H; exact H|]. intros _. apply quote_wrapped_esc; reflexivity. Qed.

Section Brackets.
Variable sp : sep.
Variable strip : bool.
Notation sepc := (sep_char sp).
Notation R := (run strip sepc).

(* raw text of slice characters inside [ ] *)
Lemma slice_br_run S ty i m A t acc sa rest :
  all_chars is_slice_char t = true ->
  R (Br S ty i m A acc sa false) (t ++ rest) = R (Br S ty i m A (acc ++ t) (aft sa t) false) rest.
Proof.
  intros Hn.
  assert (He : esc_with operand_specials t = t).
  { apply esc_with_id. eapply all_chars_impl; [|exact Hn]. apply slice_char_plain. }
  rewrite <- He at 1.
  rewrite run_app, run_br_esc; [rewrite aft_false, (esc_with_id_kept strip _ _ He); reflexivity|].
  destruct t as [|c r]; [reflexivity|]. cbn. cbn in Hn. apply andb_true_iff in Hn. destruct Hn as [Hc _].
  apply orb_true_iff. right. pose proof (name_char_noamp c Hc) as Hx. apply negb_true_iff in Hx.
  unfold first_ok. rewrite Hx, andb_false_r. reflexivity.
Qed.

(* ---- SEARCH: [ !? attribute !? operator term ] ---- *)
Lemma attr_run S (inv pre : bool) a r rest :
  first_not_in ["&"%char] (String a r) = true ->
  R (Br S (Some TIndex) false None "" "" true false)
    ((if inv && pre then "!" else "") ++ esc_with operand_specials (String a r)
       ++ (if inv && negb pre then "!" else "") ++ rest)
  = R (Br S (Some TIndex) inv None "" (kept strip operand_specials (String a r)) false false) rest.
Proof.
  intros Hf.
  assert (Hfc : first_char_ok operand_specials true false (String a r) = true).
  { cbn [first_char_ok]. apply orb_true_iff. right. unfold first_ok. cbn in Hf.
    destruct (Ascii.eqb a "&"%char); [discriminate Hf | reflexivity]. }
  destruct inv, pre; cbn [andb negb].
  - change ("!" ++ ?x) with (String "!"%char x). cbn [run]. rewrite bang_bracket. cbn [bind].
    rewrite run_app, run_br_esc by exact Hfc. cbn [bind append aft]. reflexivity.
  - change ("" ++ ?x) with x. rewrite run_app, run_br_esc by exact Hfc. cbn [bind append aft].
    change ("!" ++ ?x) with (String "!"%char x). cbn [run]. rewrite bang_bracket. reflexivity.
  - change ("" ++ ?x) with x. rewrite run_app, run_br_esc by exact Hfc. reflexivity.
  - change ("" ++ ?x) with x. rewrite run_app, run_br_esc by exact Hfc. reflexivity.
Qed.

Lemma op_run S ty i A0 a r m rest :
  R (Br S ty i None A0 (String a r) false false) (op_text m ++ rest)
  = match m with
    | MRegex => R (Rseek S i (String a r) false false) rest
    | _ => R (Br S (Some TSearch) i (Some m) (String a r) "" false false) rest
    end.
Proof. destruct m; reflexivity. Qed.

Lemma delim_run S i A d : forall t acc sa sc,
  str_in d t = false ->
  R (Rcap d S i A acc sa sc) t = Ok (Rcap d S i A (acc ++ t) (aft sa t) (aft sc t)).
Proof.
  induction t as [|c r IH]; intros acc sa sc H.
  - cbn. rewrite app_nil_r_s. reflexivity.
  - cbn [str_in] in H. destruct (Ascii.eqb d c) eqn:E; [discriminate H|].
    cbn [run]. rewrite delim_char by (rewrite Ascii.eqb_sym; exact E). cbn [bind].
    rewrite IH by exact H. rewrite app_snoc, !aft_false. reflexivity.
Qed.

Lemma regex_run S i A d term rest :
  str_in d term = false -> Ascii.eqb d " "%char = false -> Ascii.eqb d "\"%char = false ->
  R (Rseek S i A false false) (c1 d ++ term ++ c1 d ++ "]" ++ rest)
  = R (Top (S ++ [(Some TSearch, ASearch i MRegex A term)])%list None A "" false false) rest.
Proof.
  intros H1 H2 H3. change (c1 d ++ ?x) with (String d x). cbn [run].
  rewrite delim_open by assumption. cbn [bind].
  rewrite run_app, delim_run by assumption. cbn [bind append].
  change (c1 d ++ ?x) with (String d x).
  rewrite delim_close. rewrite ?aft_false. reflexivity.
Qed.

(* a quote-demarcated term in which the OTHER quote character is written bare, in pairs *)
Lemma other_not_special q : mem_ascii (qchar (other_quote q)) (nest_specials q) = false.
Proof. destruct q; reflexivity. Qed.

Lemma nonempty_snoc a c : nonempty (snoc a c) = true.
Proof. destruct a; reflexivity. Qed.

Lemma run_nest d q S ty i m A : forall t open acc,
  nonempty acc = true -> pairs_close (qchar (other_quote q)) open t = true ->
  R (BN open d q S ty i m A acc) (esc_with (nest_specials q) t)
  = Ok (BN false d q S ty i m A (acc ++ kept strip (nest_specials q) t)).
Proof.
  induction t as [|c r IH]; intros open acc Ha Hp.
  - cbn in Hp. apply negb_true_iff in Hp. subst open.
    unfold kept. destruct strip; cbn; rewrite app_nil_r_s; reflexivity.
  - cbn [pairs_close] in Hp. cbn [esc_with].
    destruct (mem_ascii c (nest_specials q)) eqn:Em.
    + (* written \c *)
      assert (Ec : Ascii.eqb c (qchar (other_quote q)) = false).
      { destruct (Ascii.eqb c (qchar (other_quote q))) eqn:E; [|reflexivity].
        apply Ascii.eqb_eq in E. subst c. rewrite other_not_special in Em. discriminate. }
      rewrite Ec in Hp. cbn [run]. rewrite bs_step. cbn [bind].
      destruct strip eqn:Es.
      * cbn [run]. rewrite esc_step. cbn [bind]. rewrite (IH open _ (nonempty_snoc _ _) Hp).
        unfold kept. rewrite app_snoc. reflexivity.
      * cbn [run]. rewrite esc_step. cbn [bind]. rewrite (IH open _ (nonempty_snoc _ _) Hp).
        unfold kept. cbn [esc_with]. rewrite Em. rewrite !app_snoc. reflexivity.
    + destruct (Ascii.eqb c (qchar (other_quote q))) eqn:Ec.
      * (* the other quote: a nested pair opens or closes *)
        apply Ascii.eqb_eq in Ec. subst c. cbn [run].
        destruct open.
        -- rewrite nest_close. cbn [bind]. rewrite (IH false _ (nonempty_snoc _ _) Hp).
           unfold kept. cbn [esc_with]. rewrite Em. rewrite app_snoc. destruct strip; reflexivity.
        -- destruct acc as [|a0 r0]; [discriminate Ha|]. rewrite nest_open. cbn [bind].
           rewrite (IH true _ (nonempty_snoc _ _) Hp).
           unfold kept. cbn [esc_with]. rewrite Em. rewrite app_snoc. destruct strip; reflexivity.
      * cbn [run]. rewrite plain_bnest by assumption. cbn [bind]. rewrite (IH open _ (nonempty_snoc _ _) Hp).
        unfold kept. cbn [esc_with]. rewrite Em. rewrite app_snoc. destruct strip; reflexivity.
Qed.

Lemma term_run S i m A st term rest :
  match st_quote st with
  | Some q => negb (st_nest st) || pairs_close (qchar (other_quote q)) false term
  | None => true
  end = true ->
  R (Br S (Some TSearch) i (Some m) A "" false false)
    (match st_quote st with
     | None => esc_with (term_specials st) term
     | Some q => c1 (qchar q) ++ esc_with (term_specials st) term ++ c1 (qchar q)
     end ++ "]" ++ rest)
  = R (Top (S ++ [(Some TSearch, ASearch i m A (kept strip (term_set st) term))])%list None A "" false false) rest.
Proof.
  intros Hn. unfold term_set, term_specials. destruct (st_quote st) as [q|]; [destruct (st_nest st)|].
  - (* quoted, the other quote character in nested pairs *)
    cbn [negb orb] in Hn.
    rewrite !app_assoc_s. change (c1 (qchar q) ++ ?x) with (String (qchar q) x). cbn [run].
    rewrite quote_open_br. cbn [bind opens_term nonempty negb].
    change (BQD true q S (Some TSearch) i (Some m) A (snoc "" (qchar q)) false false)
      with (BN false true q S (Some TSearch) i (Some m) A (snoc "" (qchar q))).
    rewrite run_app, run_nest by (try reflexivity; exact Hn). cbn [bind].
    change (c1 (qchar q) ++ "]" ++ rest) with (String (qchar q) (String "]"%char rest)). cbn [run].
    change (BN false true q S (Some TSearch) i (Some m) A ?a)
      with (BQD true q S (Some TSearch) i (Some m) A a false false).
    rewrite quote_close_br. cbn [bind]. rewrite close_search. cbn [bind].
    unfold snoc. cbn [append].
    change (String (qchar q) (kept strip (nest_specials q) term) ++ String (qchar q) "")
      with (String (qchar q) (kept strip (nest_specials q) term ++ c1 (qchar q))).
    rewrite undemarcate_wrapped. reflexivity.
  - rewrite !app_assoc_s. change (c1 (qchar q) ++ ?x) with (String (qchar q) x). cbn [run].
    rewrite quote_open_br. cbn [bind opens_term nonempty negb].
    rewrite run_app, run_bq_esc by (apply first_char_ok_ff). cbn [bind].
    change (c1 (qchar q) ++ "]" ++ rest) with (String (qchar q) (String "]"%char rest)). cbn [run].
    rewrite quote_close_br. cbn [bind]. rewrite close_search. cbn [bind].
    unfold snoc. cbn [append]. rewrite ?aft_false.
    change (String (qchar q) (kept strip quoted_specials term) ++ String (qchar q) "")
      with (String (qchar q) (kept strip quoted_specials term ++ c1 (qchar q))).
    rewrite undemarcate_wrapped. reflexivity.
  - rewrite run_app, run_br_esc by (apply first_char_ok_ff). cbn [bind append].
    change ("]" ++ rest) with (String "]"%char rest). cbn [run]. rewrite close_search. cbn [bind].
    rewrite ?aft_false. reflexivity.
Qed.
End Brackets.

Definition Inv (prev_coll : bool) (done : list seg) (st : pst) : Prop :=
  exists S ty A acc sa sc p,
    st = Top S ty A acc sa sc /\ pend acc ty = Ok p /\ (S ++ p)%list = done /\
    (prev_coll = true -> acc = "" /\ sa = false /\ sc = true) /\ (prev_coll = false -> sc = false).

Definition bare_anchor (x : sseg) : bool :=
  match x with ((Some TAnchor, _), st) => negb (st_bracket st) | _ => false end.

Lemma app_one {A} (l : list A) (p : list A) x : ((l ++ p) ++ [x] = l ++ (p ++ [x]))%list.
Proof. rewrite app_assoc. reflexivity. Qed.

Section Main.
Variable sp : sep.
Variable strip : bool.
Notation sepc := (sep_char sp).
Notation R := (run strip sepc).

(* segments that are preceded by a separator, from the state just after it *)
Lemma seg_core y S A sa sc prev_coll rest :
  wf_seg prev_coll (fst y) = true -> needs_sep (fst y) = true ->
  (sc = true -> prev_coll = true) -> (bare_anchor (fst y) = true -> sa = true) ->
  exists st', R (Top S None A "" sa sc) (body_x sepc y ++ rest) = R st' rest
              /\ Inv (is_collector (fst y)) (S ++ [kseg strip sepc y])%list st'.
Proof.
  intros Hwf Hns Hsc Hba. destruct y as [[[ty at_] st] X]. cbn [fst] in *.
  destruct ty as [[]|]; try discriminate Hns; destruct at_; try discriminate Hwf; cbn [is_collector].
  - (* bare anchor *)
    cbn in Hns. apply negb_true_iff in Hns. cbn [body_x body kseg]. rewrite Hns.
    cbn [wf_seg] in Hwf. rewrite Hns in Hwf. cbn [orb] in Hwf.
    apply andb_true_iff in Hwf. destruct Hwf as [Hwf H3]. apply andb_true_iff in Hwf. destruct Hwf as [H1 H2].
    destruct s as [|a r]; [discriminate H1|].
    assert (sa = true) as -> by (apply Hba; cbn; rewrite Hns; reflexivity).
    eexists. split.
    + rewrite app_assoc_s. apply anchor_bare_run; [exact H2|].
      intros ->. rewrite (Hsc eq_refl) in H3. exact H3.
    + exists S, (Some TAnchor), A, (String a r), false, false, [(Some TAnchor, AStr (String a r))].
      repeat split; try discriminate.
      apply pend_nostar; [reflexivity|]. apply str_in_all. eapply all_chars_impl; [|exact H2]. apply name_char_nostar.
  - (* KEY *)
    cbn [wf_seg] in Hwf.
    apply andb_true_iff in Hwf. destruct Hwf as [Hwf H4]. apply andb_true_iff in Hwf. destruct Hwf as [Hwf H3].
    apply andb_true_iff in Hwf. destruct Hwf as [H1 H2]. destruct s as [|a r]; [discriminate H1|].
    assert (Hfo : first_ok sa sc a = true).
    { apply (first_ok_from sa sc a r H2). intros ->. rewrite (Hsc eq_refl) in H3. exact H3. }
    cbn [body_x body kseg]. destruct (st_quote st) as [q|].
    + eexists. split.
      * rewrite !app_assoc_s. apply key_quoted_run. cbn. rewrite Hfo. apply orb_true_r.
      * exists (S ++ [(Some TKey, AStr (kept strip quoted_specials (String a r)))])%list, None, A, "", false, false, [].
        repeat split; try discriminate. apply app_nil_r.
    + eexists. split.
      * apply key_esc_run; [apply covers_app|]. cbn [first_char_ok]. rewrite Hfo. apply orb_true_r.
      * exists S, None, A, (kept strip (X ++ key_specials sepc) (String a r)), false, false,
               [(Some TKey, AStr (kept strip (X ++ key_specials sepc) (String a r)))].
        repeat split; try discriminate.
        apply pend_nostar; [apply kept_nonempty; reflexivity|].
        rewrite kept_str_in by reflexivity. apply negb_true_iff. exact H4.
  - (* ** *)
    cbn [body_x body kseg]. eexists. split.
    + change ("**" ++ rest) with (String "*"%char (String "*"%char rest)).
      rewrite star_run by (left; reflexivity). rewrite star_run by (right; split; reflexivity). reflexivity.
    + exists S, None, A, "**", false, false, [(Some TTraverse, ANone)]. repeat split; try discriminate.
  - (* * *)
    cbn [body_x body kseg]. eexists. split.
    + change ("*" ++ rest) with (String "*"%char rest). rewrite star_run by (left; reflexivity). reflexivity.
    + exists S, None, A, "*", false, false, [(Some TMatchAll, ANone)]. repeat split; try discriminate.
Qed.

Lemma str_brk (t rest : string) : ("[" ++ t ++ "]" ++ rest = String "["%char (t ++ String "]"%char rest))%string.
Proof. reflexivity. Qed.

Lemma body_x_self y : needs_sep (fst y) = false -> body_x sepc y = body sepc (fst y).
Proof.
  destruct y as [[[ty at_] st] X]. cbn [fst]. destruct ty as [[]|]; try reflexivity. discriminate.
Qed.

(* a collector that carries an operator *)
Definition op_collector (x : sseg) : bool :=
  match x with
  | ((Some TCollector, ACollector op _), _) => match op with CNone => false | _ => true end
  | _ => false
  end.

(* segments that carry their own demarcation, from any top-level state: only a
   collector with an operator looks at the flags the previous token left *)
Lemma seg_self_gen y prev_coll S ty0 A acc sa sc p rest :
  pend acc ty0 = Ok p ->
  (op_collector (fst y) = true -> acc = "" /\ sa = false /\ sc = true) ->
  wf_seg prev_coll (fst y) = true -> needs_sep (fst y) = false ->
  exists st', R (Top S ty0 A acc sa sc) (body_x sepc y ++ rest) = R st' rest
              /\ Inv (is_collector (fst y)) ((S ++ p) ++ [kseg strip sepc y])%list st'.
Proof.
  intros Hp Hc1 Hwf Hns.
  rewrite (body_x_self y Hns).
  destruct y as [[[ty at_] st] X]. cbn [fst] in *.
  destruct ty as [[]|]; try discriminate Hns; destruct at_; try discriminate Hwf; cbn [is_collector].
  - (* [&anchor] *)
    cbn in Hns. apply negb_false_iff in Hns. cbn [body kseg]. rewrite Hns.
    cbn [wf_seg] in Hwf. rewrite Hns in Hwf. cbn [orb] in Hwf. rewrite andb_true_r in Hwf.
    apply andb_true_iff in Hwf. destruct Hwf as [H1 H2].
    eexists. split.
    + change ("[&" ++ s ++ "]") with (String "["%char (String "&"%char (s ++ "]"))).
      cbn [append run]. rewrite open_bracket_top, Hp. cbn [bind run]. rewrite amp_bracket. cbn [bind].
      rewrite app_assoc_s. rewrite slice_br_run by (eapply all_chars_impl; [|exact H2]; apply name_char_slice).
      cbn [append run]. rewrite close_anchor. cbn [bind]. reflexivity.
    + exists ((S ++ p) ++ [(Some TAnchor, AStr s)])%list, None, "", "", (aft false s), false, [].
      repeat split; try discriminate. apply app_nil_r.
  - (* collector *)
    cbn [wf_seg] in Hwf. apply andb_true_iff in Hwf. destruct Hwf as [He Hop].
    unfold wf_expr in He. apply andb_true_iff in He. destruct He as [He H4].
    apply andb_true_iff in He. destruct He as [He H3]. apply andb_true_iff in He. destruct He as [H1 H2].
    destruct expr as [|e0 er]; [discriminate H1|].
    cbn [body kseg]. rewrite !app_assoc_s. change ("(" ++ ?x) with (String "("%char x).
    assert (Hrun : forall S' A' o sa', (sa' = true -> first_not_in ["&"%char] (String e0 er) = true) ->
              R (Cst S' A' o 0 "" sa' false) (String e0 er ++ ")" ++ rest)
              = R (Top (S' ++ [(Some TCollector, ACollector o (String e0 er))])%list None A' "" false true) rest).
    { intros S' A' o sa' Hsa. rewrite (run_app strip sepc (String e0 er)).
      pose proof (coll_expr strip sepc S' A' o (String e0 er) 0 0 "" sa' H2 H3 Hsa) as Hx.
      cbn [Nat.add] in Hx. rewrite Hx. cbn [bind append aft].
      change (")" ++ rest) with (String ")"%char rest). cbn [run].
      rewrite coll_close. reflexivity. }
    destruct op.
    + (* no operator *)
      eexists. split.
      * change (cop_text CNone ++ ?x) with x. cbn [run]. rewrite coll_open_top, Hp. cbn [bind].
        apply Hrun. intros _. exact H4.
      * exists ((S ++ p) ++ [(Some TCollector, ACollector CNone (String e0 er))])%list, None, A, "", false, true, [].
        repeat split; try discriminate. apply app_nil_r.
    + destruct (Hc1 eq_refl) as (-> & -> & ->). cbn in Hp. inversion Hp; subst p. rewrite app_nil_r.
      eexists. split.
      * rewrite coll_op_open. apply Hrun. discriminate.
      * exists (S ++ [(Some TCollector, ACollector CAdd (String e0 er))])%list, None, A, "", false, true, [].
        repeat split; try discriminate. apply app_nil_r.
    + destruct (Hc1 eq_refl) as (-> & -> & ->). cbn in Hp. inversion Hp; subst p. rewrite app_nil_r.
      eexists. split.
      * rewrite coll_op_open. apply Hrun. discriminate.
      * exists (S ++ [(Some TCollector, ACollector CSub (String e0 er))])%list, None, A, "", false, true, [].
        repeat split; try discriminate. apply app_nil_r.
    + destruct (Hc1 eq_refl) as (-> & -> & ->). cbn in Hp. inversion Hp; subst p. rewrite app_nil_r.
      eexists. split.
      * rewrite coll_op_open. apply Hrun. discriminate.
      * exists (S ++ [(Some TCollector, ACollector CAnd (String e0 er))])%list, None, A, "", false, true, [].
        repeat split; try discriminate. apply app_nil_r.
  - (* slice *)
    cbn [wf_seg] in Hwf. apply andb_true_iff in Hwf. destruct Hwf as [H1 H2]. cbn [body kseg].
    eexists. split.
    + rewrite !app_assoc_s, str_brk. cbn [run]. rewrite open_bracket_top, Hp. cbn [bind].
      rewrite slice_br_run by exact H2. cbn [append run]. rewrite close_slice by exact H1. reflexivity.
    + exists ((S ++ p) ++ [(Some TIndex, AStr s)])%list, None, "", "", (aft true s), false, [].
      repeat split; try discriminate. apply app_nil_r.
  - (* element index *)
    destruct (str_of_Z_chars z) as [H1 H2]. pose proof (py_int_str_of_Z z) as H3. cbn [body kseg].
    eexists. split.
    + rewrite !app_assoc_s, str_brk. cbn [run]. rewrite open_bracket_top, Hp. cbn [bind].
      rewrite slice_br_run by exact H1. cbn [append run]. rewrite (close_index _ _ _ _ _ _ _ _ _ z) by assumption. reflexivity.
    + exists ((S ++ p) ++ [(Some TIndex, AInt z)])%list, None, "", "", (aft true (str_of_Z z)), false, [].
      repeat split; try discriminate. apply app_nil_r.
  - (* search *)
    cbn [wf_seg] in Hwf. apply andb_true_iff in Hwf. destruct Hwf as [Hwf Ht].
    apply andb_true_iff in Hwf. destruct Hwf as [H1 H2]. destruct attr as [|a r]; [discriminate H1|].
    cbn [body kseg]. rewrite !app_assoc_s. change ("[" ++ ?x) with (String "["%char x).
    destruct (kept_cons strip operand_specials a r) as (a' & r' & Ek).
    eexists. split.
    + cbn [run]. rewrite open_bracket_top, Hp. cbn [bind].
      rewrite (attr_run sp strip _ inv (st_prefix st) a r _ H2). rewrite Ek, op_run.
      instantiate (1 := Top ((S ++ p) ++ [kseg strip sepc (((Some TSearch, ASearch inv m (String a r) term), st), X)])%list
                            None (String a' r') "" false false).
      cbn [kseg]. rewrite Ek.
      destruct m; try (apply term_run; exact Ht).
      (* regex *)
      apply andb_true_iff in Ht. destruct Ht as [Ht T3].
      apply andb_true_iff in Ht. destruct Ht as [T1 T2].
      rewrite !app_assoc_s. apply regex_run; apply negb_true_iff; assumption.
    + eexists _, None, _, "", false, false, []. repeat split; try discriminate. apply app_nil_r.
  - (* keyword search *)
    cbn [body kseg]. eexists. split.
    + rewrite !app_assoc_s. change ("[" ++ ?x) with (String "["%char x). cbn [run]. rewrite open_bracket_top, Hp. cbn [bind].
      instantiate (1 := Top ((S ++ p) ++ [(Some TKeywordSearch, AKeyword inv k (kept strip param_specials params))])%list None "" "" false false).
      change ("(" ++ ?x) with (String "("%char x).
      assert (Hk : forall i sa', R (Br (S ++ p)%list (Some TIndex) i None "" "" sa' false)
                          (kw_text k ++ String "("%char (esc_with param_specials params ++ ")]" ++ rest))
                     = R (Top ((S ++ p) ++ [(Some TKeywordSearch, AKeyword i k (kept strip param_specials params))])%list None "" "" false false) rest).
      { intros i sa'. change (String "("%char ?x) with ("(" ++ x). rewrite <- (app_assoc_s (kw_text k) "(" _).
        rewrite (run_app strip sepc (kw_text k ++ "(")), kw_open. cbn [bind].
        rewrite (run_app strip sepc (esc_with param_specials params)), run_params_esc by (apply first_char_ok_ff).
        cbn [bind append].
        change (")]" ++ rest) with (String ")"%char (String "]"%char rest)). rewrite kw_close. rewrite aft_false. reflexivity. }
      destruct inv.
      * change ("!" ++ ?x) with (String "!"%char x). cbn [run]. rewrite bang_bracket. cbn [bind]. apply Hk.
      * change ("" ++ ?x) with x. apply Hk.
    + exists ((S ++ p) ++ [(Some TKeywordSearch, AKeyword inv k (kept strip param_specials params))])%list, None, "", "", false, false, [].
      repeat split; try discriminate. apply app_nil_r.
Qed.

(* the same from the state the writer leaves between two segments *)
Lemma seg_self y prev_coll done st rest :
  Inv prev_coll done st -> wf_seg prev_coll (fst y) = true -> needs_sep (fst y) = false ->
  exists st', R st (body_x sepc y ++ rest) = R st' rest /\ Inv (is_collector (fst y)) (done ++ [kseg strip sepc y])%list st'.
Proof.
  intros (S & ty0 & A & acc & sa & sc & p & -> & Hp & <- & Hc1 & Hc2) Hwf Hns.
  apply (seg_self_gen y prev_coll S ty0 A acc sa sc p rest Hp); try assumption.
  intros Hop. apply Hc1.
  destruct y as [[[ty at_] st] X]. cbn [fst] in *.
  destruct ty as [[]|]; try discriminate Hop; destruct at_; try discriminate Hop.
  cbn [wf_seg] in Hwf. apply andb_true_iff in Hwf. destruct Hwf as [_ Hw].
  destruct op; [discriminate Hop | exact Hw | exact Hw | exact Hw].
Qed.

Lemma inv_sc prev_coll done S ty A acc sa sc :
  Inv prev_coll done (Top S ty A acc sa sc) -> sc = true -> prev_coll = true.
Proof.
  intros (S' & ty' & A' & acc' & sa' & sc' & p & E & _ & _ & _ & Hc2) Hsc.
  unfold GstD in E. inversion E; subst. destruct prev_coll; [reflexivity|].
  discriminate (Hc2 eq_refl).
Qed.

Definition ksegs (l : list xseg) : list seg := map (kseg strip sepc) l.

Lemma render_go_run : forall l first prev_coll done st,
  Inv prev_coll done st -> wf_go prev_coll (map fst l) = true ->
  (first = true -> exists S A sa, st = Top S None A "" sa false /\ done = S /\ prev_coll = false /\
                     match l with y :: _ => bare_anchor (fst y) = true -> sa = true | [] => True end) ->
  exists st', R st (render_go_x sepc first l) = Ok st' /\ finish st' = Ok (done ++ ksegs l)%list.
Proof.
  induction l as [|y r IH]; intros first prev_coll done st HI Hwf Hfirst.
  - exists st. split; [reflexivity|].
    destruct HI as (S & ty0 & A & acc & sa & sc & p & -> & Hp & <- & _).
    rewrite finish_top, Hp. cbn. rewrite app_nil_r. reflexivity.
  - cbn [map wf_go] in Hwf. apply andb_true_iff in Hwf. destruct Hwf as [Hx Hr].
    cbn [render_go_x ksegs map].
    assert (Hfin : forall st1, Inv (is_collector (fst y)) (done ++ [kseg strip sepc y])%list st1 ->
                   exists st', R st1 (render_go_x sepc false r) = Ok st'
                               /\ finish st' = Ok (done ++ kseg strip sepc y :: ksegs r)%list).
    { intros st1 HI1. destruct (IH false _ _ st1 HI1 Hr) as (st' & H1 & H2); [discriminate|].
      exists st'. split; [exact H1|]. rewrite H2. rewrite <- app_assoc. reflexivity. }
    destruct (needs_sep (fst y)) eqn:Ens.
    + destruct first.
      * cbn [negb andb]. change ("" ++ ?z) with z.
        destruct (Hfirst eq_refl) as (S & A & sa & -> & -> & -> & Hba).
        destruct (seg_core y S A sa false false (render_go_x sepc false r) Hx Ens) as (st1 & H1 & HI1);
          [discriminate | exact Hba |].
        destruct (Hfin st1 HI1) as (st' & H2 & H3). exists st'. split; [rewrite H1; exact H2 | exact H3].
      * cbn [negb andb]. change (c1 sepc ++ ?z) with (String sepc z).
        pose proof HI as HI0.
        destruct HI as (S & ty0 & A & acc & sa & sc & p & -> & Hp & <- & Hc1 & Hc2).
        cbn [run]. rewrite sep_step_top, Hp. cbn [bind].
        destruct (seg_core y (S ++ p)%list A true sc prev_coll (render_go_x sepc false r) Hx Ens) as (st1 & H1 & HI1);
          [intros Hsc; eapply inv_sc; eassumption | reflexivity |].
        destruct (Hfin st1 HI1) as (st' & H2 & H3). exists st'. split; [rewrite H1; exact H2 | exact H3].
    + cbn [andb]. change ("" ++ ?z) with z.
      destruct (seg_self y prev_coll done st (render_go_x sepc false r) HI Hx Ens) as (st1 & H1 & HI1).
      destruct (Hfin st1 HI1) as (st' & H2 & H3). exists st'. split; [rewrite H1; exact H2 | exact H3].
Qed.
End Main.

Lemma init_is_top b : init_pst b = Top [] None "" "" b false.
Proof. reflexivity. Qed.

Lemma inv_init b : Inv false [] (Top [] None "" "" b false).
Proof. exists [], None, "", "", b, false, []. repeat split; try discriminate. Qed.

Lemma normalize_nonblank t : nonempty (strip_py t) = true -> normalize_original t = t.
Proof. unfold normalize_original. destruct (strip_py t); [discriminate | reflexivity]. Qed.

Lemma bare_anchor_head sepc y r c0 t :
  bare_anchor (fst y) = true -> wf_seg false (fst y) = true -> String c0 t = render_go_x sepc true (y :: r) -> c0 = "&"%char.
Proof.
  intros Hb Hw E. destruct y as [[[[[]|] at_] st] X]; try discriminate Hb. cbn in Hb. apply negb_true_iff in Hb.
  destruct at_; try discriminate Hw. cbn in E. rewrite Hb in E. cbn in E. injection E as E _. exact E.
Qed.

Lemma nth_slash T :
  nth_char (if 1 <? String.length (String "/"%char T) then 1 else 0) (String "/"%char T) <> None.
Proof. destruct T; cbn; discriminate. Qed.

(* a text that is not blank: the parse of the generalised writer's text *)
Definition nonblank (t : string) : bool := nonempty (strip_py t).

Theorem parse_render_x sp strip l :
  wf_go false (map fst l) = true -> (is_nil l || nonblank (render_x sp l)) = true ->
  parse (Forced sp) strip (render_x sp l) = Ok (map (kseg strip (sep_char sp)) l).
Proof.
  intros Hgo Hbl. unfold nonblank in Hbl.
  destruct l as [|x r].
  - destruct sp; vm_compute; reflexivity.
  - cbn [is_nil orb] in Hbl. unfold parse. rewrite (normalize_nonblank _ Hbl).
    destruct (render_x sp (x :: r)) as [|c0 t] eqn:Et; [discriminate Hbl|].
    cbn [effective_sep].
    destruct sp.
    + (* dot *)
      cbn [nth_char String.get]. cbv beta iota.
      unfold render_x in Et. change ("" ++ ?z) with z in Et.
      destruct (render_go_run Dot strip (x :: r) true false [] (Top [] None "" "" (Ascii.eqb c0 "&"%char) false)
                  (inv_init _) Hgo) as (st' & H1 & H2).
      { intros _. exists [], "", (Ascii.eqb c0 "&"%char). repeat split.
        intros Hb. cbn [map wf_go] in Hgo. apply andb_true_iff in Hgo. destruct Hgo as [Hx _].
        rewrite (bare_anchor_head _ x r c0 t Hb Hx (eq_sym Et)). reflexivity. }
      rewrite init_is_top. cbn [sepc_of sep_char] in Et, H1 |- *. rewrite <- Et. rewrite H1. cbn [bind]. exact H2.
    + (* slash *)
      unfold render_x in Et. change ("/" ++ ?z) with (String "/"%char z) in Et. injection Et as <- <-.
      destruct (render_go_run Slash strip (x :: r) true false [] (Top [] None "" "" true false)
                  (inv_init _) Hgo) as (st' & H1 & H2).
      { intros _. exists [], "", true. repeat split. }
      destruct (nth_char _ _) as [c1|] eqn:En.
      * rewrite init_is_top. cbn [sepc_of run]. rewrite (sep_step_top strip Slash). cbn [pend nonempty bind app].
        cbn [sep_char render_go_x negb] in H1 |- *. rewrite H1. cbn [bind]. exact H2.
      * exfalso. eapply nth_slash. exact En.
Qed.

Lemma map_kseg_true sepc l : map (kseg true sepc) (map plain_x l) = segs_of l.
Proof.
  unfold segs_of. rewrite map_map. apply map_ext. intros x. rewrite kseg_true. reflexivity.
Qed.

Lemma map_fst_plain l : map fst (map plain_x l) = l.
Proof. rewrite map_map. cbn. apply map_id. Qed.

Lemma is_nil_map {A B} (f : A -> B) l : is_nil (map f l) = is_nil l.
Proof. destruct l; reflexivity. Qed.

(* clause 1 of the property: every kind of segment, both notations *)
Theorem parse_render sp l :
  wf sp l = true -> parse (Forced sp) true (render_ref sp l) = Ok (segs_of l).
Proof.
  intros Hwf. unfold wf in Hwf. apply andb_true_iff in Hwf. destruct Hwf as [Hgo Hbl].
  rewrite <- render_x_plain, <- (map_kseg_true (sep_char sp)).
  apply parse_render_x.
  - rewrite map_fst_plain. exact Hgo.
  - rewrite is_nil_map. unfold nonblank. rewrite render_x_plain. exact Hbl.
Qed.
