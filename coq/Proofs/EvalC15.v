(* C15: combining "no crash / no fuel exhaustion" (EvalTotal) with "no
   mutation on a read" (EvalPure) for the collector-free fragment. *)
From Coq Require Import List Ascii String ZArith NArith Bool Arith Lia.
From YP Require Import Outcome PyStr PyVal Doc Generated PathParser PathPrinter Searches Eval SpecC15 SpecC09
     EvalGood EvalHandlers EvalTotal EvalPure.
Import ListNotations.
Open Scope nat_scope.

Lemma clean_of s : clean_or_mut s -> pure_stop s -> clean_stop s.
Proof. destruct s as [|[]| |]; cbn; tauto. Qed.

Section C15.
Variable lit : string -> outcome litres.
Variable re_search : string -> string -> outcome reres.
Variable nstr : node -> string.
Variable vstr : list rval -> string.
Variable kw_handler : bool -> keyword -> string -> rval -> ctx -> gen rval.
Variable creator : list pseg -> nat -> rval -> ctx -> gen rval.
Hypothesis lit_total : forall s, exists r, lit s = Ok r /\ (forall c, r <> LCrash c).
Hypothesis re_total : forall p s, exists r, re_search p s = Ok r.
Hypothesis kw_ok : forall inv k ps v c, sres coords_or_list (kw_handler inv k ps v c).
Hypothesis kw_pure : forall inv k ps v c, nomut (kw_handler inv k ps v c).
Hypothesis creator_ok : forall segs i v c, sres is_coords (creator segs i v c).

Theorem required_only_ype p d :
  in_fragment p = true -> clean_stop (snd (get_required lit re_search nstr vstr kw_handler creator p d)).
Proof.
  intros H. apply clean_of.
  - apply get_required_clean; auto.
  - apply get_required_pure; auto.
Qed.

Theorem exists_only_ype p d :
  in_fragment p = true -> clean_stop (snd (exists_ lit re_search nstr vstr kw_handler creator p d)).
Proof.
  intros H. apply clean_of.
  - apply exists_clean; auto.
  - apply exists_pure; auto.
Qed.

Theorem optional_only_ype p d :
  in_fragment p = true -> clean_or_mut (snd (get_optional lit re_search nstr vstr kw_handler creator p d)).
Proof. intros H. apply get_optional_clean; auto. Qed.

End C15.
