(* C08: one-character and one-token facts about the parser model, per parsing
   mode.  Facts about a single character are closed over all 256 values of
   [ascii] by computation (the state parts that stay symbolic -- the segment
   list, the accumulated text, the stale search attribute -- are variables);
   they are recomputed from Gen/Generated.v on every build. *)
From Coq Require Import List Ascii String ZArith Bool Arith Lia.
From YP Require Import Outcome PyStr Generated PathParser PathPrinter C08Spec.
Import ListNotations.
Open Scope string_scope.
Open Scope nat_scope.

(* all 256 characters, by case analysis on the eight bits *)
Ltac all_ascii c :=
  destruct c as [[|] [|] [|] [|] [|] [|] [|] [|]].

(* top level, nothing open: the state while a key / anchor name / wildcard is
   being accumulated (sa = seeking_anchor_mark, sc = seeking_collector_operator) *)
Definition Kst (segs0 : list seg) (acc : string) (ty : option segtype) (sattr0 : string)
           (sa sc : bool) : pst :=
  mkpst segs0 acc ty [] false false None sattr0 None false false 0 CNone sc None sa 0 false.
(* the same with escape_next set *)
Definition KstE (segs0 : list seg) (acc : string) (ty : option segtype) (sattr0 : string)
           (sa sc : bool) : pst :=
  mkpst segs0 acc ty [] true false None sattr0 None false false 0 CNone sc None sa 0 false.

Definition top_plain (sepc c : ascii) : bool :=
  negb (mem_ascii c ["\"; " "; "'"; """"; "("; "["; "]"; sepc]%char).

Lemma top_plain_step strip sp segs0 acc ty sattr0 c :
  top_plain (sep_char sp) c = true ->
  step strip (sep_char sp) (Kst segs0 acc ty sattr0 false false) c
  = Ok (Kst segs0 (snoc acc c) ty sattr0 false false).
Proof.
  intros H. destruct sp; all_ascii c; vm_compute in H; try discriminate H; vm_compute; reflexivity.
Qed.

(* rule 6 / rule 7 look at the first character after a separator / collector *)
Definition first_ok (sa sc : bool) (c : ascii) : bool :=
  negb (sa && Ascii.eqb c "&"%char) && negb (sc && mem_ascii c ["+"; "-"; "&"]%char).

Lemma first_ok_ff c : first_ok false false c = true.
Proof. reflexivity. Qed.

(* what the parse keeps of a written text: the text itself when escapes are
   stripped, the written form otherwise *)
Definition kept (strip : bool) (specials : list ascii) (t : string) : string :=
  if strip then t else esc_with specials t.

Definition aft (b : bool) (t : string) : bool :=
  match t with EmptyString => b | _ => false end.

Lemma run_app strip sepc a : forall s b,
  run strip sepc s (a ++ b) = (do s' <- run strip sepc s a; run strip sepc s' b).
Proof.
  induction a as [|c r IH]; intros s b; cbn; [reflexivity|].
  destruct (step strip sepc s c); cbn; auto.
Qed.

Lemma app_snoc (a : string) c b : (snoc a c ++ b = a ++ String c b)%string.
Proof. unfold snoc. induction a; cbn; [reflexivity | f_equal; auto]. Qed.

Lemma app_nil_r_s (a : string) : (a ++ "" = a)%string.
Proof. induction a; cbn; [reflexivity | f_equal; auto]. Qed.

Lemma app_assoc_s (a b c : string) : ((a ++ b) ++ c = a ++ (b ++ c))%string.
Proof. induction a; cbn; [reflexivity | f_equal; auto]. Qed.

(* ---- generic accumulation of an escaped text in one parsing mode ---- *)
Section EscRun.
  Variables (strip : bool) (sepc : ascii).
  Variable St StE : string -> bool -> bool -> pst.
  Variable specials : list ascii.
  Hypothesis H_plain : forall acc sa sc c,
    mem_ascii c specials = false -> first_ok sa sc c = true ->
    step strip sepc (St acc sa sc) c = Ok (St (snoc acc c) false false).
  Hypothesis H_bs : forall acc sa sc,
    step strip sepc (St acc sa sc) "\"%char
    = Ok (if strip then StE acc sa sc else StE (snoc acc "\"%char) false false).
  Hypothesis H_esc : forall acc sa sc c,
    step strip sepc (StE acc sa sc) c = Ok (St (snoc acc c) false false).

  Definition first_char_ok (sa sc : bool) (t : string) : bool :=
    match t with
    | EmptyString => true
    | String c _ => mem_ascii c specials || first_ok sa sc c
    end.

  Lemma first_char_ok_ff t : first_char_ok false false t = true.
  Proof. destruct t; cbn; [reflexivity | apply orb_true_r]. Qed.

  Lemma esc_run : forall t acc sa sc,
    first_char_ok sa sc t = true ->
    run strip sepc (St acc sa sc) (esc_with specials t)
    = Ok (St (acc ++ kept strip specials t) (aft sa t) (aft sc t)).
  Proof.
    induction t as [|c r IH]; intros acc sa sc Hf.
    - cbn. unfold kept. destruct strip; cbn; rewrite app_nil_r_s; reflexivity.
    - cbn [esc_with]. cbn in Hf.
      destruct (mem_ascii c specials) eqn:Em.
      + cbn [run]. rewrite H_bs. cbn [bind].
        destruct strip eqn:Es.
        * cbn [run]. rewrite H_esc. cbn [bind]. rewrite IH by (apply first_char_ok_ff).
          unfold kept. cbn. rewrite app_snoc. destruct r; reflexivity.
        * cbn [run]. rewrite H_esc. cbn [bind]. rewrite IH by (apply first_char_ok_ff).
          unfold kept. cbn [esc_with]. rewrite Em. rewrite !app_snoc. destruct r; reflexivity.
      + cbn in Hf. cbn [run]. rewrite H_plain by assumption. cbn [bind].
        rewrite IH by (apply first_char_ok_ff).
        unfold kept. cbn [esc_with]. rewrite Em. rewrite app_snoc.
        destruct strip; destruct r; reflexivity.
  Qed.
End EscRun.

(* ---- the accumulating state of every mode: only the stack shape is fixed ---- *)
(* d = search_term_demarcated (since the fix of F21): true only between the
   quote that opens a search term and the closing bracket *)
Definition GstD (d e : bool) (segs0 : list seg) (ty : option segtype) (stk : list ascii) (sinv0 : bool)
           (smeth0 : option smethod) (sattr0 : string) (skw0 : option keyword) (cl : nat) (op : cop)
           (acc : string) (sa sc : bool) : pst :=
  mkpst segs0 acc ty stk e sinv0 smeth0 sattr0 skw0 false false cl op sc None sa (List.length stk) d.
Notation Gst := (GstD false).

Lemma Kst_Gst segs0 acc ty sattr0 sa sc :
  Kst segs0 acc ty sattr0 sa sc = Gst false segs0 ty [] false None sattr0 None 0 CNone acc sa sc.
Proof. reflexivity. Qed.

(* the back-slash and the escaped character, in every mode *)
Lemma bs_step strip sepc d segs0 ty stk sinv0 smeth0 sattr0 skw0 cl op acc sa sc :
  step strip sepc (GstD d false segs0 ty stk sinv0 smeth0 sattr0 skw0 cl op acc sa sc) "\"%char
  = Ok (if strip then GstD d true segs0 ty stk sinv0 smeth0 sattr0 skw0 cl op acc sa sc
        else GstD d true segs0 ty stk sinv0 smeth0 sattr0 skw0 cl op (snoc acc "\"%char) false false).
Proof. destruct strip; reflexivity. Qed.

Lemma esc_step strip sepc d segs0 ty stk sinv0 smeth0 sattr0 skw0 cl op acc sa sc c :
  step strip sepc (GstD d true segs0 ty stk sinv0 smeth0 sattr0 skw0 cl op acc sa sc) c
  = Ok (GstD d false segs0 ty stk sinv0 smeth0 sattr0 skw0 cl op (snoc acc c) false false).
Proof. reflexivity. Qed.

Ltac plain256 H c :=
  all_ascii c; vm_compute in H; try discriminate H; vm_compute; reflexivity.

(* top level *)
Lemma plain_top strip sp segs0 ty sattr0 acc sa sc c :
  mem_ascii c (key_specials (sep_char sp)) = false -> first_ok sa sc c = true ->
  step strip (sep_char sp) (Gst false segs0 ty [] false None sattr0 None 0 CNone acc sa sc) c
  = Ok (Gst false segs0 ty [] false None sattr0 None 0 CNone (snoc acc c) false false).
Proof.
  intros H F. destruct sp, sa, sc; all_ascii c; vm_compute in H; try discriminate H;
    vm_compute in F; try discriminate F; vm_compute; reflexivity.
Qed.

(* inside a quote pair at top level *)
Lemma plain_quoted strip sepc q segs0 ty sattr0 acc sa sc c :
  mem_ascii c quoted_specials = false -> first_ok sa sc c = true ->
  step strip sepc (Gst false segs0 ty [qchar q] false None sattr0 None 0 CNone acc sa sc) c
  = Ok (Gst false segs0 ty [qchar q] false None sattr0 None 0 CNone (snoc acc c) false false).
Proof.
  intros H F. destruct q, sa, sc; all_ascii c; vm_compute in H; try discriminate H;
    vm_compute in F; try discriminate F; vm_compute; reflexivity.
Qed.

(* inside [ ] : attribute, term, index, slice, anchor name *)
Lemma plain_bracket strip sepc segs0 ty sinv0 smeth0 sattr0 acc sa sc c :
  mem_ascii c operand_specials = false -> first_ok sa sc c = true ->
  step strip sepc (Gst false segs0 ty ["["%char] sinv0 smeth0 sattr0 None 0 CNone acc sa sc) c
  = Ok (Gst false segs0 ty ["["%char] sinv0 smeth0 sattr0 None 0 CNone (snoc acc c) false false).
Proof.
  intros H F. destruct sa, sc; all_ascii c; vm_compute in H; try discriminate H;
    vm_compute in F; try discriminate F; vm_compute; reflexivity.
Qed.

(* inside a quote pair inside [ ] *)
Lemma plain_bquoted strip sepc d q segs0 ty sinv0 smeth0 sattr0 acc sa sc c :
  mem_ascii c quoted_specials = false -> first_ok sa sc c = true ->
  step strip sepc (GstD d false segs0 ty [qchar q; "["%char] sinv0 smeth0 sattr0 None 0 CNone acc sa sc) c
  = Ok (GstD d false segs0 ty [qchar q; "["%char] sinv0 smeth0 sattr0 None 0 CNone (snoc acc c) false false).
Proof.
  intros H F. destruct d, q, sa, sc; all_ascii c; vm_compute in H; try discriminate H;
    vm_compute in F; try discriminate F; vm_compute; reflexivity.
Qed.

(* inside a quote pair inside [ ], where the OTHER quote character opens
   ([open] = false) and closes ([open] = true) a nested pair *)
Definition nstk (q : quote) (open : bool) : list ascii :=
  if open then [qchar (other_quote q); qchar q; "["%char] else [qchar q; "["%char].

Lemma plain_bnest strip sepc d q open segs0 ty sinv0 smeth0 sattr0 acc c :
  mem_ascii c (nest_specials q) = false -> Ascii.eqb c (qchar (other_quote q)) = false ->
  step strip sepc (GstD d false segs0 ty (nstk q open) sinv0 smeth0 sattr0 None 0 CNone acc false false) c
  = Ok (GstD d false segs0 ty (nstk q open) sinv0 smeth0 sattr0 None 0 CNone (snoc acc c) false false).
Proof.
  intros H F. destruct d, q, open; all_ascii c; vm_compute in H; try discriminate H;
    vm_compute in F; try discriminate F; vm_compute; reflexivity.
Qed.

(* keyword parameters: inside ( inside [ *)
Lemma plain_params strip sepc segs0 sinv0 sattr0 k acc sa sc c :
  mem_ascii c param_specials = false -> first_ok sa sc c = true ->
  step strip sepc (Gst false segs0 (Some TKeywordSearch) ["("%char; "["%char] sinv0 None sattr0 (Some k) 0 CNone acc sa sc) c
  = Ok (Gst false segs0 (Some TKeywordSearch) ["("%char; "["%char] sinv0 None sattr0 (Some k) 0 CNone (snoc acc c) false false).
Proof.
  intros H F. destruct sa, sc; all_ascii c; vm_compute in H; try discriminate H;
    vm_compute in F; try discriminate F; vm_compute; reflexivity.
Qed.
