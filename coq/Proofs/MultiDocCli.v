(* C18 at the command line: main()'s loop over the YAML_FILEs and the waiting STDIN, with sources
   that do not load, is [run_streams] over MultiDoc.merge_docs; the first non-zero state wins. *)
From Coq Require Import List Ascii String ZArith Bool Arith Lia.
From YP Require Import Outcome PyStr Cli CliSpec CliMerge MergeConfig MultiDoc MultiDocProofs CliLibSpec
                       CliMergeModes C18CliSpec.
Import ListNotations.
Open Scope list_scope.

Local Arguments lib_merge2 : simpl never.
Local Arguments merge_step : simpl never.

Section CliStreams.
  Variable merge2 : nat -> nat -> option ufam * nat.
  Notation lm2 := (lib_merge2 merge2).

  (* one later source, loadable or not, through the glue's merge_docs = MultiDoc.merge_docs on its stream *)
  Lemma merge_docs_stream : forall estr mode lhs s,
    src_clean estr s ->
    same_drive (Cli.merge_docs merge2 estr mode lhs s)
               (MultiDoc.merge_docs nat lm2 (Ok (lib_mode mode)) (src_stream estr s) lhs).
  Proof.
    intros estr mode lhs s Hc. unfold src_stream.
    destruct (get_doc_mergers estr s) as [ds|h|c] eqn:D.
    - apply merge_docs_adapt. exact D.
    - unfold Cli.merge_docs. rewrite D. simpl. exists h. split; [reflexivity | intro F; discriminate F].
    - exfalso. exact (Hc c D).
  Qed.

  Lemma merge_loop_streams : forall estr mode srcs mergers count consumed nh,
    Forall (src_clean estr) srcs ->
    loop_like (merge_loop merge2 estr mode srcs mergers count consumed nh)
              (run_streams merge2 mode mergers (map (src_stream estr) srcs))
              (consumed || existsb (fun s => is_dash (s_name s)) srcs) nh.
  Proof.
    unfold loop_like.
    intros estr mode srcs. induction srcs as [|s r IH]; intros mergers count consumed nh F.
    - simpl. exists count. rewrite orb_false_r. reflexivity.
    - inversion F as [|? ? Hc F']; subst.
      cbn [map run_streams merge_loop existsb]. rewrite orb_assoc.
      destruct mergers as [|p m]; cbn [run_stream_step].
      + unfold src_stream at 1. destruct (get_doc_mergers estr s) as [ds|h|c] eqn:D.
        * apply IH. exact F'.
        * eexists _, _, _. reflexivity.
        * exfalso. exact (Hc c D).
      + pose proof (merge_docs_stream estr mode (p :: m) s Hc) as A. unfold same_drive in A.
        destruct (MultiDoc.merge_docs nat lm2 (Ok (lib_mode mode)) (src_stream estr s) (p :: m)) as [[out st]|e|].
        * destruct A as (h & E & Z). rewrite E.
          destruct st as [|n]; cbn [Nat.eqb].
          -- rewrite (Z eq_refl), Nat.add_0_r. apply IH. exact F'.
          -- eexists _, _, _. reflexivity.
        * destruct A as (u & E & X). rewrite E. exists u. split; [reflexivity|exact X].
        * exact A.
  Qed.

  (* precedence: the first non-zero state ends the run; later streams are not looked at *)
  Lemma run_streams_app : forall mode xs ys acc,
    run_streams merge2 mode acc (xs ++ ys) =
    match run_streams merge2 mode acc xs with
    | Ok (acc', 0) => run_streams merge2 mode acc' ys
    | other => other
    end.
  Proof.
    intros mode xs ys. induction xs as [|x xs IH]; intros acc; simpl; [reflexivity|].
    destruct (run_stream_step merge2 mode acc x) as [[acc' [|n]]|e|]; try reflexivity. apply IH.
  Qed.

  Lemma run_streams_stops : forall mode xs ys acc out n,
    run_streams merge2 mode acc xs = Ok (out, S n) -> run_streams merge2 mode acc (xs ++ ys) = Ok (out, S n).
  Proof. intros mode xs ys acc out n H. rewrite run_streams_app, H. reflexivity. Qed.

  (* the sources that do not load: 4 for the one that should have supplied the left-hand documents,
     3 (MultiDoc.merge_docs) for a later one, whose left-hand documents are returned untouched *)
  Lemma run_streams_unloadable : forall mode acc rest,
    run_streams merge2 mode acc (None :: rest) = Ok (acc, match acc with [] => 4 | _ => 3 end).
  Proof. intros mode [|p m] rest; reflexivity. Qed.

  (* when every source loads this is CliLibSpec.lib_merge_streams (the notion of C16's theorems) *)
  Lemma run_streams_all_load : forall mode streams acc,
    run_streams merge2 mode acc (map Some streams) = lib_merge_streams merge2 mode acc streams.
  Proof.
    intros mode streams. induction streams as [|rs rest IH]; intro acc; [reflexivity|].
    cbn [map run_streams lib_merge_streams]. destruct acc as [|p m]; cbn [run_stream_step lib_stream_step].
    - apply IH.
    - destruct (MultiDoc.merge_docs nat lm2 (Ok (lib_mode mode)) (Some rs) (p :: m)) as [[acc' [|n]]|e|]; try reflexivity.
      apply IH.
  Qed.
End CliStreams.

(* ---- main(), -M merge_across / matrix_merge: the exit status IS the state of [run_streams] ------- *)
Lemma cli_streams_run : forall merge2 flow jview estr a tty srcs stdin_src nerr vl n',
  ma_mode a <> CondenseAll ->
  merge_validate a (List.length srcs) (map s_name srcs) tty = (nerr, vl, n') -> nerr = 0 -> ma_config_err a = None ->
  Forall (src_clean estr) srcs ->
  (stdin_waits_m a tty srcs = true -> src_clean estr stdin_src) ->
  match run_streams merge2 (ma_mode a) [] (cli_streams estr a tty srcs stdin_src) with
  | Ok (out, 0) =>
      exists nh, cli_merge_main merge2 flow jview estr a tty srcs stdin_src =
        let w := merge_write flow jview a n' (nonempty (ma_overwrite a) || nonempty (ma_output a)) out in
        mkrun (r_status w) (vl ++ hints nh ++ r_out w) (r_fx w)
  | Ok (_, S n) => r_status (cli_merge_main merge2 flow jview estr a tty srcs stdin_src) = Exit (S n) /\
                   delivered (cli_merge_main merge2 flow jview estr a tty srcs stdin_src) = []
  | Raise e => exists u, r_status (cli_merge_main merge2 flow jview estr a tty srcs stdin_src) = Uncaught u /\
                         fam_matches u e
  | OutOfFuel => False
  end.
Proof.
  intros merge2 flow jview estr a tty srcs stdin_src nerr vl n' Mode V Z CE F FS.
  assert (ND : forall n, r_status (cli_merge_main merge2 flow jview estr a tty srcs stdin_src) = Exit (S n) ->
             r_status (cli_merge_main merge2 flow jview estr a tty srcs stdin_src) = Exit (S n) /\
             delivered (cli_merge_main merge2 flow jview estr a tty srcs stdin_src) = []).
  { intros n H. split; [exact H|]. apply merge_fail_delivers_nothing. rewrite H. discriminate. }
  unfold cli_streams. rewrite run_streams_app.
  pose proof (merge_loop_streams merge2 estr (ma_mode a) srcs [] 0 false 0 F) as L. unfold loop_like in L.
  assert (NoSingle : forall x y, (Nat.eqb x 0 && Nat.eqb y 0 &&
            match ma_mode a with CondenseAll => true | _ => false end) = false).
  { intros. destruct (ma_mode a); [congruence| |]; rewrite andb_false_r; reflexivity. }
  destruct (run_streams merge2 (ma_mode a) [] (map (src_stream estr) srcs)) as [[m1 st1]|e|] eqn:RS; simpl in L.
  - destruct st1 as [|n1].
    + destruct L as (c1 & E).
      unfold stdin_waits_m in *.
      destruct (negb (existsb (fun s => is_dash (s_name s)) srcs) && negb (ma_nostdin a) && negb tty) eqn:W.
      * specialize (FS eq_refl). cbn [run_streams].
        destruct m1 as [|p m]; cbn [run_stream_step].
        -- unfold src_stream. destruct (get_doc_mergers estr stdin_src) as [ds|h|c] eqn:D.
           ++ unfold cli_merge_main. rewrite V. subst nerr. simpl negb. cbv iota. rewrite CE, E.
              simpl orb. simpl Nat.eqb. simpl andb. rewrite W, D.
              rewrite ?NoSingle; simpl Nat.eqb; cbv iota. exists 0. reflexivity.
           ++ apply ND. unfold cli_merge_main. rewrite V. subst nerr. simpl negb. cbv iota. rewrite CE, E.
              simpl orb. simpl Nat.eqb. simpl andb. rewrite W, D.
              rewrite ?NoSingle; simpl Nat.eqb; cbv iota. reflexivity.
           ++ exfalso. exact (FS c D).
        -- pose proof (merge_docs_stream merge2 estr (ma_mode a) (p :: m) stdin_src FS) as A. unfold same_drive in A.
           destruct (MultiDoc.merge_docs nat (lib_merge2 merge2) (Ok (lib_mode (ma_mode a))) (src_stream estr stdin_src) (p :: m))
             as [[out st]|e|].
           ++ destruct A as (h & E2 & Z2).
              destruct st as [|n].
              ** unfold cli_merge_main. rewrite V. subst nerr. simpl negb. cbv iota. rewrite CE, E.
                 simpl orb. simpl Nat.eqb. simpl andb. rewrite W, E2. cbn [Nat.eqb andb].
                 rewrite ?NoSingle; simpl Nat.eqb; cbv iota. exists (0 + h). reflexivity.
              ** apply ND. unfold cli_merge_main. rewrite V. subst nerr. simpl negb. cbv iota. rewrite CE, E.
                 simpl orb. simpl Nat.eqb. simpl andb. rewrite W, E2. cbn [Nat.eqb andb].
                 rewrite ?NoSingle; simpl Nat.eqb; cbv iota. reflexivity.
           ++ destruct A as (u & E2 & X). exists u. split; [|exact X].
              unfold cli_merge_main. rewrite V. subst nerr. simpl negb. cbv iota. rewrite CE, E.
              simpl orb. simpl Nat.eqb. simpl andb. rewrite W, E2. reflexivity.
           ++ exact A.
      * cbn [run_streams]. unfold cli_merge_main. rewrite V. subst nerr. simpl negb. cbv iota. rewrite CE, E.
        simpl orb. simpl Nat.eqb. simpl andb. rewrite W.
        rewrite ?NoSingle; simpl Nat.eqb; cbv iota. exists 0. reflexivity.
    + destruct L as (c1 & cons1 & nh1 & E). apply ND.
      unfold cli_merge_main. rewrite V. subst nerr. simpl negb. cbv iota. rewrite CE, E.
      simpl Nat.eqb. simpl andb. cbv iota.
      rewrite ?NoSingle; simpl Nat.eqb; cbv iota. reflexivity.
  - destruct L as (u & E & X). exists u. split; [|exact X].
    unfold cli_merge_main. rewrite V. subst nerr. simpl negb. cbv iota. rewrite CE, E. reflexivity.
  - exact L.
Qed.
