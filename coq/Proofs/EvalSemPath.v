(* C01, path level, part 3: the required query of Model/Eval.v against
   [sem_path] of Spec/SpecC01.v, by induction on the path fuel with inner
   inductions on the data.  The look-ahead of `*` and `**` is eliminated at the
   level of streams (the driver re-evaluates what the look-ahead peeked at). *)
From Coq Require Import List Ascii String ZArith NArith Bool Arith Lia.
From YP Require Import Outcome PyStr PyVal Doc Generated PathParser PathPrinter Searches Eval SpecC01 SpecC15
  EvalSem EvalSemLib EvalSemSeg EvalGood EvalHandlers EvalTotal RtInt.
Import ListNotations.
Open Scope string_scope.
Open Scope nat_scope.

Definition set_tl (b : bool) (c : ctx) : ctx := mkctx (x_par c) (x_ref c) b (x_tp c) (x_anc c).

(* ---- the fragment ---- *)
Lemma c01_frag_ppath segs : c01_frag (PPath segs) = no_double_trav segs && c01_segs c01_frag segs.
Proof.
  cbn [c01_frag]. f_equal.
  induction segs as [|[es us s s2] r IH]; [reflexivity|]. cbn [c01_segs]. rewrite <- IH. reflexivity.
Qed.

Lemma c01_nth segs : forall i ps, c01_segs c01_frag segs = true -> nth_error segs i = Some ps ->
  c01_seg (seg_es ps) (seg_us ps) = true /\ c01_frag (seg_sub ps) = true.
Proof.
  induction segs as [|[es us s s2] r IH]; intros i ps H Hn; destruct i; cbn in *; try discriminate.
  - inversion Hn; subst; cbn.
    apply andb_prop in H; destruct H as [H H4]. apply andb_prop in H; destruct H as [H H3].
    apply andb_prop in H; destruct H as [H1 H2]. auto.
  - apply andb_prop in H; destruct H as [H H4]. eapply IH; eauto.
Qed.

Lemma no_double_tail a r : no_double_trav (a :: r) = true -> no_double_trav r = true.
Proof. destruct r as [|b r']; [reflexivity|]. cbn. intros H. apply andb_prop in H. apply H. Qed.

Lemma no_double_nth segs : forall i ps, no_double_trav segs = true -> nth_error segs i = Some ps ->
  ((0 <? i) && is_ty TTraverse (fst (seg_es ps)) && is_ty TTraverse (seg_type_at segs (i - 1))) = false.
Proof.
  induction segs as [|a r IH]; intros i ps Hd Hn; [destruct i; discriminate|].
  destruct i as [|i']; [reflexivity|].
  cbn [nth_error] in Hn. cbn [Nat.ltb Nat.leb andb]. replace (S i' - 1) with i' by lia.
  destruct i' as [|i''].
  - destruct r as [|b r']; [discriminate|]. cbn in Hn. injection Hn as ->.
    cbn in Hd. apply andb_prop in Hd. destruct Hd as [Hd _]. apply negb_true_iff in Hd.
    unfold seg_type_at. cbn [nth_error]. unfold is_trav in Hd. unfold is_ty.
    rewrite andb_comm. exact Hd.
  - specialize (IH (S i'') ps (no_double_tail _ _ Hd) Hn).
    cbn [Nat.ltb Nat.leb andb] in IH. replace (S i'' - 1) with i'' in IH by lia.
    unfold seg_type_at in *. cbn [nth_error]. exact IH.
Qed.

Lemma skipn_nth_cons {A} (l : list A) : forall i x, nth_error l i = Some x -> skipn i l = x :: skipn (S i) l.
Proof. intros i x H. apply skipn_nth. exact H. Qed.

Lemma skipn_none {A} (l : list A) i : nth_error l i = None -> skipn i l = [].
Proof. intros H. apply nth_error_None in H. apply skipn_all2. exact H. Qed.

Lemma nth_some_ltb {A} (l : list A) i x : nth_error l i = Some x -> (i <? List.length l) = true.
Proof. intros H. apply Nat.ltb_lt. apply nth_error_Some. rewrite H. discriminate. Qed.
Lemma nth_none_ltb {A} (l : list A) i : nth_error l i = None -> (i <? List.length l) = false.
Proof. intros H. apply Nat.ltb_ge. apply nth_error_None. exact H. Qed.

Lemma has_next_last {A} (l : list A) i :
  (S i <? List.length l) = negb (match skipn (S i) l with [] => true | _ => false end).
Proof.
  destruct (nth_error l (S i)) as [x|] eqn:E.
  - rewrite (nth_some_ltb _ _ _ E), (skipn_nth_cons _ _ _ E). reflexivity.
  - rewrite (nth_none_ltb _ _ E), (skipn_none _ _ E). reflexivity.
Qed.

Section Path.
Variable lit : string -> outcome litres.
Variable re_search : string -> string -> outcome reres.
Variable nstr : node -> string.
Variable vstr : list rval -> string.
Variable kw_handler : bool -> keyword -> string -> rval -> ctx -> gen rval.
Variable creator : list pseg -> nat -> rval -> ctx -> gen rval.

Notation EV := (ev lit re_search nstr vstr kw_handler creator).
Notation SP := (sem_path lit re_search nstr true).
Notation SS := (sem_segs lit re_search nstr true (sem_path lit re_search nstr true)).
Notation DISPATCH := (dispatch lit re_search nstr vstr kw_handler).

Definition RQP (pf : nat) : ppath -> rval -> ctx -> gen rval :=
  fun p v c => match p with PFail e => gerr e | PPath s => EV pf MReq s 0 v c end.
Definition WALK (pf : nat) (segs : list pseg) (i : nat) : nat -> rval -> ctx -> gen rval :=
  walk lit re_search nstr vstr kw_handler (EV pf MSeg segs (S i)) (RQP pf) segs i.
Definition KREQ (pf : nat) (segs : list pseg) (i : nat) (c : ctx) : rval -> gen rval :=
  fun x => if is_pylist x then EV pf MReq segs (S i) x c
           else match x with
                | RCoords nd par rf path anc => EV pf MReq segs (S i) nd (mkctx par rf true path anc)
                | _ => gerr (PyCrash AttributeError)
                end.

Lemma ev_req_unfold pf segs i v c :
  EV (S pf) MReq segs i v c =
  if i <? List.length segs then gbind (WALK pf segs i (S (vsize v)) v (set_tl true c)) (KREQ pf segs i c)
  else gone (ncoords v (x_par c) (x_ref c) (x_tp c) (x_anc c)).
Proof. reflexivity. Qed.

Lemma ev_seg_unfold pf segs i v c : EV (S pf) MSeg segs i v c = WALK pf segs i (S (vsize v)) v c.
Proof. reflexivity. Qed.

Lemma sem_path_ppath segs : SP (PPath segs) = SS segs.
Proof.
  cbn [sem_path]. induction segs as [|[es us s s2] r IH]; [reflexivity|]. cbn [sem_segs]. rewrite <- IH. reflexivity.
Qed.

(* ---- the dispatcher on a document node ---- *)
Lemma dispatch_node self sg rq segs i n c ps :
  nth_error segs i = Some ps ->
  c01_seg (seg_es ps) (seg_us ps) = true ->
  ((0 <? i) && is_ty TTraverse (fst (seg_es ps)) && is_ty TTraverse (seg_type_at segs (i - 1))) = false ->
  DISPATCH self sg rq segs i (RNode n) c =
  match seg_es ps with
  | (Some TKey, a) => by_key self a (RNode n) c
  | (Some TIndex, a) => by_index a (RNode n) c
  | (Some TMatchAll, _) =>
      if S i <? List.length segs then match_all_filtered sg (RNode n) c else match_all_unfiltered (RNode n) c
  | (Some TAnchor, a) => by_anchor a (RNode n) c
  | (Some TSearch, ASearch inv m attr term) =>
      by_search lit re_search nstr vstr (rq (seg_sub ps)) inv m attr term (RNode n) c
  | (Some TTraverse, _) => trav (S (node_size n)) (negb (S i <? List.length segs)) sg (RNode n) c
  | _ => gnil
  end.
Proof.
  intros En Hok Hrec. unfold dispatch. rewrite En.
  destruct ps as [[ty a] [uty ua] s s2]. cbn [seg_es seg_us seg_sub fst snd] in *.
  rewrite Hrec. cbn [unwrap_ctx vsize].
  unfold c01_seg in Hok. apply andb_prop in Hok. destruct Hok as [Hty Hnc]. cbn [fst] in Hnc.
  destruct ty as [[]|]; try discriminate; destruct a; try discriminate; try reflexivity.
  all: destruct uty as [[]|]; cbn in Hnc; try discriminate; try reflexivity.
  all: destruct ua; reflexivity.
Qed.


Lemma walk_node sg rq segs i n c ps vf :
  nth_error segs i = Some ps ->
  c01_seg (seg_es ps) (seg_us ps) = true ->
  ((0 <? i) && is_ty TTraverse (fst (seg_es ps)) && is_ty TTraverse (seg_type_at segs (i - 1))) = false ->
  walk lit re_search nstr vstr kw_handler sg rq segs i (S vf) (RNode n) c =
  match seg_es ps with
  | (Some TKey, a) => by_key (walk lit re_search nstr vstr kw_handler sg rq segs i vf) a (RNode n) c
  | (Some TIndex, a) => by_index a (RNode n) c
  | (Some TMatchAll, _) =>
      if S i <? List.length segs then match_all_filtered sg (RNode n) c else match_all_unfiltered (RNode n) c
  | (Some TAnchor, a) => by_anchor a (RNode n) c
  | (Some TSearch, ASearch inv m attr term) =>
      by_search lit re_search nstr vstr (rq (seg_sub ps)) inv m attr term (RNode n) c
  | (Some TTraverse, _) => trav (S (node_size n)) (negb (S i <? List.length segs)) sg (RNode n) c
  | _ => gnil
  end.
Proof. intros. cbn [walk]. apply dispatch_node; assumption. Qed.

(* key, with Array-of-Hashes pass-through re-entering the dispatcher *)
Lemma walk_key sg rq segs i ps k :
  nth_error segs i = Some ps -> seg_es ps = (Some TKey, AStr k) ->
  c01_seg (seg_es ps) (seg_us ps) = true ->
  ((0 <? i) && is_ty TTraverse (fst (seg_es ps)) && is_ty TTraverse (seg_type_at segs (i - 1))) = false ->
  forall vf n c, node_size n < vf ->
  agree (walk lit re_search nstr vstr kw_handler sg rq segs i vf (RNode n) c) (map SNode (sel_key (x_tl c) k n)).
Proof.
  intros En Hes Hok Hrec. induction vf as [|vf IH]; intros n c Hsz; [lia|].
  rewrite (walk_node _ _ _ _ _ _ _ _ En Hok Hrec). rewrite Hes.
  apply by_key_sem. intros e c' He. destruct n as [| |j els|]; try contradiction.
  apply IH. pose proof (seq_elem_size j els e He). lia.
Qed.

(* ---- traverse_lists only matters for key / search segments on a list ---- *)
Definition tl_blocked (es : seg) (n : node) : bool :=
  match n with
  | NSeq _ _ =>
      match es with
      | (Some TKey, AStr k) => match py_int k with None => true | Some _ => false end
      | (Some TSearch, ASearch _ _ _ _) => true
      | _ => false
      end
  | _ => false
  end.

Lemma gapp_ext {A} (a : gen A) (b1 b2 : unit -> gen A) : b1 tt = b2 tt -> gapp a b1 = gapp a b2.
Proof. intros H. destruct a as [l []]; cbn; try reflexivity. rewrite H. reflexivity. Qed.

Lemma trav_tl sg last : forall tf v p r t1 t2 tp a,
  trav tf last sg v (mkctx p r t1 tp a) = trav tf last sg v (mkctx p r t2 tp a).
Proof.
  induction tf as [|tf IH]; intros; [reflexivity|].
  cbn [trav x_tp x_anc x_tl x_par x_ref].
  destruct v as [[i x|i kvs|i els|i els]|l|nd pp rr tt aa]; destruct last; try reflexivity.
  all: try (apply gapp_ext).
  all: apply gfor_ext; intros y _; try destruct y as [j e]; apply IH.
Qed.

Lemma walk_tl_false_blocked sg rq segs i n ps vf par rf tp anc :
  nth_error segs i = Some ps ->
  c01_seg (seg_es ps) (seg_us ps) = true ->
  ((0 <? i) && is_ty TTraverse (fst (seg_es ps)) && is_ty TTraverse (seg_type_at segs (i - 1))) = false ->
  tl_blocked (seg_es ps) n = true ->
  walk lit re_search nstr vstr kw_handler sg rq segs i (S vf) (RNode n) (mkctx par rf false tp anc) = gnil.
Proof.
  intros En Hok Hrec Hb. rewrite (walk_node _ _ _ _ _ _ _ _ En Hok Hrec).
  destruct n as [| |j els|]; try discriminate. cbn [tl_blocked] in Hb.
  destruct (seg_es ps) as [[[]|] a]; try discriminate.
  - destruct a; try discriminate. unfold by_key. cbn [attrs_str]. destruct (py_int s); [discriminate|]. reflexivity.
  - destruct a; try discriminate. reflexivity.
Qed.

Lemma walk_tl_indep sg rq segs i n ps vf par rf tp anc :
  nth_error segs i = Some ps ->
  c01_seg (seg_es ps) (seg_us ps) = true ->
  ((0 <? i) && is_ty TTraverse (fst (seg_es ps)) && is_ty TTraverse (seg_type_at segs (i - 1))) = false ->
  tl_blocked (seg_es ps) n = false ->
  walk lit re_search nstr vstr kw_handler sg rq segs i (S vf) (RNode n) (mkctx par rf false tp anc)
  = walk lit re_search nstr vstr kw_handler sg rq segs i (S vf) (RNode n) (mkctx par rf true tp anc).
Proof.
  intros En Hok Hrec Hb. rewrite !(walk_node _ _ _ _ _ _ _ _ En Hok Hrec).
  unfold c01_seg in Hok. apply andb_prop in Hok. destruct Hok as [Hok _].
  destruct (seg_es ps) as [[[]|] a]; try discriminate; try reflexivity.
  - (* key *) destruct a; try discriminate.
    destruct n as [| |j els|]; try reflexivity.
    cbn [tl_blocked] in Hb. unfold by_key. cbn [attrs_str]. destruct (py_int s); [reflexivity | discriminate].
  - (* search *) destruct a; try discriminate.
    destruct n as [| |j els|]; try reflexivity. discriminate.
  - (* traverse *) apply trav_tl.
Qed.

Lemma sem_tl_blocked es attr_sem last k n :
  tl_blocked es n = true -> seg_sem lit re_search nstr true es attr_sem last k false n = [].
Proof.
  intros Hb. destruct n as [| |j els|]; try discriminate. cbn [tl_blocked] in Hb.
  destruct es as [[[]|] a]; try discriminate.
  - destruct a; try discriminate. cbn [seg_sem sel_key]. destruct (py_int s); [discriminate|]. reflexivity.
  - destruct a; try discriminate. reflexivity.
Qed.

Lemma sem_tl_indep es attr_sem last k n :
  tl_blocked es n = false ->
  seg_sem lit re_search nstr true es attr_sem last k false n = seg_sem lit re_search nstr true es attr_sem last k true n.
Proof.
  intros Hb. destruct es as [[[]|] a]; try reflexivity.
  - destruct a; try reflexivity. destruct n as [| |j els|]; try reflexivity.
    cbn [tl_blocked] in Hb. cbn [seg_sem sel_key]. destruct (py_int s); [reflexivity | discriminate].
  - destruct a; try reflexivity. destruct n as [| |j els|]; try reflexivity. discriminate.
Qed.

(* ---- the look-ahead of `*` and `**` peeks at what the driver evaluates next ---- *)
Lemma look_elim pf segs i v par rf tp anc c0 :
  (S i <? List.length segs) = true ->
  gbind (gfirst (EV (S pf) MSeg segs (S i) v (mkctx par rf true tp anc))
           (fun f => match f with Some _ => gone (ncoords v par rf tp anc) | None => gnil end))
        (KREQ (S pf) segs i c0)
  = EV (S pf) MReq segs (S i) v (mkctx par rf true tp anc).
Proof.
  intros Hlt.
  destruct (EV (S pf) MSeg segs (S i) v (mkctx par rf true tp anc)) as [[|x l] s] eqn:Eg.
  - rewrite ev_req_unfold, Hlt. change (set_tl true (mkctx par rf true tp anc)) with (mkctx par rf true tp anc).
    rewrite ev_seg_unfold in Eg. rewrite Eg. destruct s; reflexivity.
  - cbn [gfirst]. rewrite gbind_gone. reflexivity.
Qed.


Definition cont_of (last : bool) (k : bool -> node -> list selres) (s : selres) : list selres :=
  match s with
  | SNode c => k true c
  | SVirt _ => if last then [s] else [SOut]
  | SOut => [SOut]
  end.

Definition is_nil_segs (l : list pseg) : bool := match l with [] => true | _ => false end.

Lemma flat_map_flat_map {A B C} (f : B -> list C) (g : A -> list B) l :
  flat_map f (flat_map g l) = flat_map (fun x => flat_map f (g x)) l.
Proof. induction l as [|x r IH]; cbn; [reflexivity|]. rewrite flat_map_app, IH. reflexivity. Qed.

Lemma kreq_cont pf segs i c0 x :
  (forall m c, agree (EV (S pf) MReq segs (S i) (RNode m) c) (SS (skipn (S i) segs) true m)) ->
  is_spec (item_res x) = true ->
  agree (KREQ (S pf) segs i c0 x)
        (cont_of (is_nil_segs (skipn (S i) segs)) (SS (skipn (S i) segs)) (item_res x)).
Proof.
  intros IHreq Hs. destruct x as [m|l|nd par rf path anc]; try discriminate.
  destruct nd as [m|l|]; try discriminate.
  - unfold KREQ. cbn [is_pylist item_res cont_of]. apply IHreq.
  - cbn [item_res] in *. destruct (elem_nodes l) as [ns|] eqn:El; try discriminate.
    unfold KREQ. cbn [is_pylist cont_of]. rewrite ev_req_unfold, has_next_last.
    destruct (skipn (S i) segs); cbn [negb is_nil_segs]; [|apply agree_sout].
    apply agree_gone. cbn. rewrite El. reflexivity.
Qed.

Section Step.
Variable pf : nat.
Variable segs : list pseg.
Variable i : nat.
Variable c0 : ctx.
Hypothesis IHreq : forall m c, agree (EV (S pf) MReq segs (S i) (RNode m) c) (SS (skipn (S i) segs) true m).

Lemma look_false ps' n par rf tp anc :
  nth_error segs (S i) = Some ps' ->
  c01_seg (seg_es ps') (seg_us ps') = true ->
  ((0 <? S i) && is_ty TTraverse (fst (seg_es ps')) && is_ty TTraverse (seg_type_at segs (S i - 1))) = false ->
  agree (gbind (gfirst (EV (S pf) MSeg segs (S i) (RNode n) (mkctx par rf false tp anc))
                  (fun f => match f with Some _ => gone (ncoords (RNode n) par rf tp anc) | None => gnil end))
               (KREQ (S pf) segs i c0))
        (SS (skipn (S i) segs) false n).
Proof.
  intros En Hok Hrec.
  destruct (tl_blocked (seg_es ps') n) eqn:B.
  - rewrite ev_seg_unfold. unfold WALK. rewrite (walk_tl_false_blocked _ _ _ _ _ _ _ _ _ _ _ En Hok Hrec B).
    rewrite (skipn_nth_cons _ _ _ En). destruct ps' as [es us sub sub2]. cbn [sem_segs seg_es] in *.
    rewrite (sem_tl_blocked _ _ _ _ _ B). apply agree_nil.
  - assert (E : EV (S pf) MSeg segs (S i) (RNode n) (mkctx par rf false tp anc)
                = EV (S pf) MSeg segs (S i) (RNode n) (mkctx par rf true tp anc)).
    { rewrite !ev_seg_unfold. unfold WALK. apply (walk_tl_indep _ _ _ _ _ _ _ _ _ _ _ En Hok Hrec B). }
    rewrite E, look_elim by (apply (nth_some_ltb _ _ _ En)).
    assert (Es : SS (skipn (S i) segs) false n = SS (skipn (S i) segs) true n).
    { rewrite (skipn_nth_cons _ _ _ En). destruct ps' as [es us sub sub2]. cbn [sem_segs seg_es] in *.
      apply sem_tl_indep. exact B. }
    rewrite Es. apply IHreq.
Qed.

Lemma trav_mid ps' :
  nth_error segs (S i) = Some ps' ->
  c01_seg (seg_es ps') (seg_us ps') = true ->
  ((0 <? S i) && is_ty TTraverse (fst (seg_es ps')) && is_ty TTraverse (seg_type_at segs (S i - 1))) = false ->
  forall tf n c, node_size n < tf ->
  agree (gbind (trav tf false (EV (S pf) MSeg segs (S i)) (RNode n) c) (KREQ (S pf) segs i c0))
        (flat_map (SS (skipn (S i) segs) false) (desc_or_self n)).
Proof.
  intros En Hok Hrec. induction tf as [|tf IH]; intros n c Hsz; [lia|].
  cbn [trav]. rewrite gbind_gapp.
  destruct n as [j x|j kvs|j els|j els]; cbn [desc_or_self flat_map];
    (apply agree_gapp; [apply (look_false ps'); assumption|]).
  - apply agree_nil.
  - rewrite gbind_gfor, flat_map_flat_map. apply agree_gfor. intros kv Hkv. apply IH.
    pose proof (map_val_size j kvs kv Hkv). lia.
  - cbn [elems]. rewrite gbind_gfor, flat_map_flat_map. unfold enumerate. apply agree_gfor_enum.
    intros k e He. apply IH. pose proof (seq_elem_size j els e He). lia.
  - apply agree_nil.
Qed.

End Step.

(* ---- the required query against the specification ---- *)
Theorem ev_sem : forall pf segs i n c,
  wsegs (skipn i segs) < pf -> c01_segs c01_frag segs = true -> no_double_trav segs = true ->
  agree (EV pf MReq segs i (RNode n) c) (SS (skipn i segs) true n).
Proof.
  induction pf as [|pf IH]; intros segs i n c Hw Hfr Hnd; [lia|].
  rewrite ev_req_unfold.
  destruct (nth_error segs i) as [ps|] eqn:En.
  2: { rewrite (nth_none_ltb _ _ En), (skipn_none _ _ En). apply agree_gone. reflexivity. }
  rewrite (nth_some_ltb _ _ _ En). rewrite (skipn_nth_cons _ _ _ En).
  destruct (c01_nth _ _ _ Hfr En) as [Hok Hsub].
  pose proof (no_double_nth _ _ _ Hnd En) as Hrec.
  pose proof (wsegs_skipn _ _ _ En) as Hwe. rewrite Hwe in Hw.
  destruct pf as [|pf]; [lia|].
  assert (IHreq : forall m c', agree (EV (S pf) MReq segs (S i) (RNode m) c') (SS (skipn (S i) segs) true m)).
  { intros. apply IH; auto. lia. }
  assert (IHsub : forall e cc, agree (RQP (S pf) (seg_sub ps) (RNode e) cc) (SP (seg_sub ps) true e)).
  { intros e cc. destruct (seg_sub ps) as [s|ex] eqn:Es; [|apply agree_sout].
    rewrite sem_path_ppath. rewrite c01_frag_ppath in Hsub. apply andb_prop in Hsub. destruct Hsub as [Hs1 Hs2].
    unfold RQP. apply (IH s 0 e cc); auto. rewrite pweight_ppath in Hw. cbn [skipn]. lia. }
  pose proof (fun (g : gen rval) x (_ : In x (fst g)) => kreq_cont pf segs i c x IHreq) as HK.
  unfold WALK in *.
  destruct ps as [[ty a] us sub sub2]. cbn [seg_es seg_us seg_sub] in *. cbn [sem_segs].
  fold (is_nil_segs (skipn (S i) segs)).
  pose proof Hok as Hok'. unfold c01_seg in Hok'. apply andb_prop in Hok'. destruct Hok' as [Hty _].
  destruct ty as [[]|]; try discriminate.
  - (* anchor *) destruct a; try discriminate.
    rewrite (walk_node _ _ _ _ _ _ _ _ En Hok Hrec). cbn [seg_es seg_sem].
    apply (agree_gbind _ _ _ (cont_of (is_nil_segs (skipn (S i) segs)) (SS (skipn (S i) segs))));
      [reflexivity | apply by_anchor_sem | apply HK].
  - (* index / slice *)
    rewrite (walk_node _ _ _ _ _ _ _ _ En Hok Hrec). cbn [seg_es].
    destruct a; try discriminate; cbn [seg_sem].
    + apply (agree_gbind _ _ _ (cont_of (is_nil_segs (skipn (S i) segs)) (SS (skipn (S i) segs))));
        [reflexivity | apply by_slice_sem; exact Hty | apply HK].
    + apply (agree_gbind _ _ _ (cont_of (is_nil_segs (skipn (S i) segs)) (SS (skipn (S i) segs))));
        [reflexivity | apply by_index_sem | apply HK].
  - (* key *) destruct a; try discriminate. cbn [seg_sem].
    apply (agree_gbind _ _ _ (cont_of (is_nil_segs (skipn (S i) segs)) (SS (skipn (S i) segs))));
      [reflexivity | | apply HK].
    apply (walk_key _ _ _ _ _ s En eq_refl Hok Hrec). cbn. lia.
  - (* search *) destruct a; try discriminate.
    rewrite (walk_node _ _ _ _ _ _ _ _ En Hok Hrec). cbn [seg_es seg_sub seg_sem].
    apply (agree_gbind _ _ _ (cont_of (is_nil_segs (skipn (S i) segs)) (SS (skipn (S i) segs))));
      [reflexivity | | apply HK].
    apply (by_search_sem lit re_search nstr vstr (RQP (S pf) sub) (SP sub true)). exact IHsub.
  - (* `**` *)
    rewrite (walk_node _ _ _ _ _ _ _ _ En Hok Hrec). cbn [seg_es seg_sem]. rewrite has_next_last.
    destruct (nth_error segs (S i)) as [ps'|] eqn:En'.
    + rewrite (skipn_nth_cons _ _ _ En'). cbn [negb is_nil_segs]. rewrite <- (skipn_nth_cons _ _ _ En').
      destruct (c01_nth _ _ _ Hfr En') as [Hok2 _].
      apply (trav_mid pf segs i c IHreq ps' En' Hok2 (no_double_nth _ _ _ Hnd En')). lia.
    + rewrite (skipn_none _ _ En'). cbn [negb is_nil_segs].
      assert (E1 : map SNode (leaf_nodes n)
                   = flat_map (cont_of true (SS [])) (map SNode (leaf_nodes n))).
      { rewrite flat_map_map. cbn. rewrite flat_map_one. reflexivity. }
      rewrite E1.
      apply (agree_gbind _ _ _ (cont_of true (SS []))); [reflexivity | apply trav_last_sem; lia |].
      intros x Hx. specialize (HK _ x Hx). rewrite (skipn_none _ _ En') in HK. exact HK.
  - (* `*` *)
    rewrite (walk_node _ _ _ _ _ _ _ _ En Hok Hrec). cbn [seg_es seg_sem]. rewrite has_next_last.
    destruct (nth_error segs (S i)) as [ps'|] eqn:En'.
    + rewrite (skipn_nth_cons _ _ _ En'). cbn [negb is_nil_segs andb]. rewrite <- (skipn_nth_cons _ _ _ En').
      pose proof (nth_some_ltb _ _ _ En') as Hlt.
      destruct n as [j x|j kvs|j els|j els].
      * apply agree_nil.
      * unfold match_all_filtered. rewrite gbind_gfor. cbn [sel_children]. rewrite map_map, flat_map_map.
        apply agree_gfor. intros kv _. cbn [x_tp x_anc set_tl]. rewrite look_elim by exact Hlt. apply IHreq.
      * unfold match_all_filtered. cbn [elems]. rewrite gbind_gfor. cbn [sel_children]. rewrite flat_map_map.
        unfold enumerate. apply agree_gfor_enum. intros k e _. cbn [x_tp x_anc set_tl].
        rewrite look_elim by exact Hlt. apply IHreq.
      * unfold match_all_filtered. rewrite gbind_gfor. cbn [sel_children]. rewrite flat_map_map.
        apply agree_gfor. intros e _. cbn [x_tp x_anc set_tl]. rewrite look_elim by exact Hlt. apply IHreq.
    + rewrite (skipn_none _ _ En'). cbn [negb is_nil_segs andb].
      apply (agree_gbind _ _ _ (cont_of true (SS []))); [reflexivity | apply match_all_sem |].
      intros x Hx. specialize (HK _ x Hx). rewrite (skipn_none _ _ En') in HK. exact HK.
Qed.

End Path.
