(* C10: LEFT and RIGHT.  replace_anchor is SpecC10.subst_named on documents
   whose keys carry no anchor; the loop of _resolve_anchor_conflicts keeps
   "every place of the name a is the chosen node" once a has been processed. *)
From Coq Require Import List Ascii String ZArith NArith Bool Lia.
From YP Require Import Outcome PyStr PyVal Doc PathParser Searches MergeConfig Merge Anchors SpecC10
  AnchorsProofs.
Import ListNotations.
Open Scope string_scope.
Open Scope list_scope.

Definition hit (name : string) (n : node) : bool :=
  match c10_name n with Some b => String.eqb b name | None => false end.

Lemma hit_an_has : forall name n, hit name n = an_has name n.
Proof. reflexivity. Qed.

(* ---------- replace_walk is subst_named ---------- *)
Lemma key_snapshot_plain : forall name items i,
  (forall kv, In kv items -> c10_name (fst kv) = None) -> key_snapshot name i items = [].
Proof.
  induction items as [|[k v] r IH]; intros i H; simpl; [reflexivity|].
  pose proof (H (k, v) (or_introl eq_refl)) as Hk. simpl in Hk.
  unfold an_has. rewrite <- c10_name_an_name, Hk.
  apply IH. intros kv Hkv. apply H. now right.
Qed.

Lemma replace_walk_subst : forall name repl d,
  keys_plain d = true -> replace_walk name repl d = Ok (subst_named name repl d).
Proof.
  intros name repl d. induction d as [i v|i kvs IH|i els IH|i els IH] using node_ind'; intros Hk;
    try reflexivity.
  - (* NMap *)
    simpl in Hk.
    assert (Hgo : (fix go (l : list (node * node)) : outcome (list (node * node)) :=
                     match l with
                     | [] => Ok []
                     | (k, v) :: r =>
                         do v' <- (if an_has name v then Ok repl else replace_walk name repl v);
                         do r' <- go r; Ok ((k, v') :: r')
                     end) kvs
                  = Ok (map (fun kv => (fst kv, if an_has name (snd kv) then repl
                                                else subst_named name repl (snd kv))) kvs)).
    { clear i. induction kvs as [|[k v] r IHr]; [reflexivity|].
      simpl in Hk. apply andb_true_iff in Hk. destruct Hk as [Hkv Hr].
      apply andb_true_iff in Hkv. destruct Hkv as [_ Hv].
      inversion IH as [|? ? [_ IHv] IHrest]; subst. simpl in IHv.
      cbn [map fst snd].
      destruct (an_has name v) eqn:Eh; simpl.
      - rewrite (IHr IHrest Hr). reflexivity.
      - rewrite (IHv Hv). simpl. rewrite (IHr IHrest Hr). reflexivity. }
    change (replace_walk name repl (NMap i kvs)) with
      (do kvs1 <- (fix go (l : list (node * node)) : outcome (list (node * node)) :=
                     match l with
                     | [] => Ok []
                     | (k, v) :: r =>
                         do v' <- (if an_has name v then Ok repl else replace_walk name repl v);
                         do r' <- go r; Ok ((k, v') :: r')
                     end) kvs;
       do kvs2 <- foldM (rekey repl) (key_snapshot name 0 kvs1) kvs1; Ok (NMap i kvs2)).
    rewrite Hgo. simpl bind. rewrite key_snapshot_plain.
    + reflexivity.
    + intros kv Hin. apply in_map_iff in Hin. destruct Hin as [[k v] [<- Hin]]. simpl.
      rewrite forallb_forall in Hk. specialize (Hk (k, v) Hin). simpl in Hk.
      apply andb_true_iff in Hk. destruct Hk as [Hk _]. destruct (c10_name k); [discriminate|reflexivity].
  - (* NSeq *)
    simpl in Hk.
    assert (Hgo : (fix go (l : list node) : outcome (list node) :=
                     match l with
                     | [] => Ok []
                     | e :: r =>
                         do e' <- (if an_has name e then Ok repl else replace_walk name repl e);
                         do r' <- go r; Ok (e' :: r')
                     end) els
                  = Ok (map (fun e => if an_has name e then repl else subst_named name repl e) els)).
    { clear i. induction els as [|e r IHr]; [reflexivity|].
      simpl in Hk. apply andb_true_iff in Hk. destruct Hk as [He Hr].
      inversion IH as [|? ? IHe IHrest]; subst.
      cbn [map].
      destruct (an_has name e) eqn:Eh; simpl.
      - rewrite (IHr IHrest Hr). reflexivity.
      - rewrite (IHe He). simpl. rewrite (IHr IHrest Hr). reflexivity. }
    change (replace_walk name repl (NSeq i els)) with
      (do els' <- (fix go (l : list node) : outcome (list node) :=
                     match l with
                     | [] => Ok []
                     | e :: r =>
                         do e' <- (if an_has name e then Ok repl else replace_walk name repl e);
                         do r' <- go r; Ok (e' :: r')
                     end) els;
       Ok (NSeq i els')).
    rewrite Hgo. reflexivity.
Qed.

(* ---------- what the substitution does to the places ---------- *)
Definition vplaces (n : node) : list node := match n with NLeaf _ _ => [n] | _ => places n end.

Lemma places_map : forall i kvs, places (NMap i kvs) = flat_map (fun kv => fst kv :: vplaces (snd kv)) kvs.
Proof. intros. simpl. apply flat_map_ext. intros [k v]. simpl. destruct v; reflexivity. Qed.
Lemma places_seq : forall i els, places (NSeq i els) = flat_map vplaces els.
Proof. intros. simpl. apply flat_map_ext. intros e. destruct e; reflexivity. Qed.

Section Subst.
Variable name : string.
Variable repl : node.
Hypothesis repl_leaf : is_leaf repl = true.

Lemma vplaces_repl : vplaces repl = [repl].
Proof. destruct repl; try discriminate. reflexivity. Qed.

Lemma subst_places : forall (P : node -> Prop) d,
  P repl -> Forall P (places d) -> Forall P (places (subst_named name repl d)).
Proof.
  intros P d Hr. induction d as [i v|i kvs IH|i els IH|i els IH] using node_ind'; intros H;
    try exact H.
  - change (subst_named name repl (NMap i kvs)) with
      (NMap i (map (fun kv => (fst kv, if hit name (snd kv) then repl else subst_named name repl (snd kv))) kvs)).
    rewrite places_map in *. rewrite Forall_forall in *. intros n Hn.
    apply in_flat_map in Hn. destruct Hn as [kv' [Hin Hn]].
    apply in_map_iff in Hin. destruct Hin as [[k v] [<- Hin]]. simpl in Hn.
    destruct Hn as [<-|Hn].
    + apply H. apply in_flat_map. exists (k, v). split; [assumption|now left].
    + destruct (hit name v).
      * rewrite vplaces_repl in Hn. destruct Hn as [<-|[]]. exact Hr.
      * destruct (IH (k, v) Hin) as [_ IHv]. simpl in IHv.
        assert (Hv : forall x, In x (vplaces v) -> P x).
        { intros x Hx. apply H. apply in_flat_map. exists (k, v). split; [assumption|now right]. }
        destruct v as [iv vv|iv kv2|iv e2|iv e2]; simpl in Hn.
        -- destruct Hn as [<-|[]]. apply Hv. now left.
        -- assert (F : Forall P (places (subst_named name repl (NMap iv kv2)))).
           { apply IHv. apply Forall_forall. exact Hv. }
           rewrite Forall_forall in F. apply F. exact Hn.
        -- assert (F : Forall P (places (subst_named name repl (NSeq iv e2)))).
           { apply IHv. apply Forall_forall. exact Hv. }
           rewrite Forall_forall in F. apply F. exact Hn.
        -- contradiction.
  - change (subst_named name repl (NSeq i els)) with
      (NSeq i (map (fun e => if hit name e then repl else subst_named name repl e) els)).
    rewrite places_seq in *. rewrite Forall_forall in *. intros n Hn.
    apply in_flat_map in Hn. destruct Hn as [e' [Hin Hn]].
    apply in_map_iff in Hin. destruct Hin as [e [<- Hin]].
    destruct (hit name e).
    + rewrite vplaces_repl in Hn. destruct Hn as [<-|[]]. exact Hr.
    + specialize (IH e Hin).
      assert (Hv : forall x, In x (vplaces e) -> P x).
      { intros x Hx. apply H. apply in_flat_map. exists e. split; assumption. }
      destruct e as [iv vv|iv kv2|iv e2|iv e2]; simpl in Hn.
      * destruct Hn as [<-|[]]. apply Hv. now left.
      * assert (F : Forall P (places (subst_named name repl (NMap iv kv2)))).
        { apply IH. apply Forall_forall. exact Hv. }
        rewrite Forall_forall in F. apply F. exact Hn.
      * assert (F : Forall P (places (subst_named name repl (NSeq iv e2)))).
        { apply IH. apply Forall_forall. exact Hv. }
        rewrite Forall_forall in F. apply F. exact Hn.
      * contradiction.
Qed.

(* every place of the result that carries the name is the replacement *)
Lemma subst_named_reads : forall d,
  keys_plain d = true ->
  forall n, In n (places (subst_named name repl d)) -> hit name n = true -> n = repl.
Proof.
  induction d as [i v|i kvs IH|i els IH|i els IH] using node_ind'; intros Hk n Hn Hh;
    try (simpl in Hn; contradiction).
  - change (subst_named name repl (NMap i kvs)) with
      (NMap i (map (fun kv => (fst kv, if hit name (snd kv) then repl else subst_named name repl (snd kv))) kvs)) in Hn.
    rewrite places_map in Hn. apply in_flat_map in Hn. destruct Hn as [kv' [Hin Hn]].
    apply in_map_iff in Hin. destruct Hin as [[k v] [<- Hin]]. simpl in Hn.
    simpl in Hk. rewrite forallb_forall in Hk. specialize (Hk (k, v) Hin). simpl in Hk.
    apply andb_true_iff in Hk. destruct Hk as [Hkk Hkv].
    destruct Hn as [<-|Hn].
    + unfold hit in Hh. destruct (c10_name k); discriminate.
    + destruct (hit name v) eqn:Ev.
      * rewrite vplaces_repl in Hn. destruct Hn as [<-|[]]. reflexivity.
      * rewrite Forall_forall in IH. destruct (IH (k, v) Hin) as [_ IHv]. simpl in IHv.
        destruct v as [iv vv|iv kv2|iv e2|iv e2]; simpl in Hn.
        -- destruct Hn as [<-|[]]. congruence.
        -- apply IHv; assumption.
        -- apply IHv; assumption.
        -- contradiction.
  - change (subst_named name repl (NSeq i els)) with
      (NSeq i (map (fun e => if hit name e then repl else subst_named name repl e) els)) in Hn.
    rewrite places_seq in Hn. apply in_flat_map in Hn. destruct Hn as [e' [Hin Hn]].
    apply in_map_iff in Hin. destruct Hin as [e [<- Hin]].
    simpl in Hk. rewrite forallb_forall in Hk. specialize (Hk e Hin).
    destruct (hit name e) eqn:Ev.
    + rewrite vplaces_repl in Hn. destruct Hn as [<-|[]]. reflexivity.
    + rewrite Forall_forall in IH. specialize (IH e Hin).
      destruct e as [iv vv|iv kv2|iv e2|iv e2]; simpl in Hn.
      * destruct Hn as [<-|[]]. congruence.
      * apply IH; assumption.
      * apply IH; assumption.
      * contradiction.
Qed.

Lemma subst_keys_plain : forall d, keys_plain d = true -> keys_plain (subst_named name repl d) = true.
Proof.
  induction d as [i v|i kvs IH|i els IH|i els IH] using node_ind'; intros Hk; try exact Hk.
  - change (subst_named name repl (NMap i kvs)) with
      (NMap i (map (fun kv => (fst kv, if hit name (snd kv) then repl else subst_named name repl (snd kv))) kvs)).
    simpl. simpl in Hk. rewrite forallb_forall in *. intros kv' Hin.
    apply in_map_iff in Hin. destruct Hin as [[k v] [<- Hin]]. simpl.
    specialize (Hk (k, v) Hin). simpl in Hk. apply andb_true_iff in Hk. destruct Hk as [Hkk Hkv].
    rewrite Hkk. simpl. destruct (hit name v).
    + destruct repl; try discriminate. reflexivity.
    + rewrite Forall_forall in IH. destruct (IH (k, v) Hin) as [_ IHv]. now apply IHv.
  - change (subst_named name repl (NSeq i els)) with
      (NSeq i (map (fun e => if hit name e then repl else subst_named name repl e) els)).
    simpl. simpl in Hk. rewrite forallb_forall in *. intros e' Hin.
    apply in_map_iff in Hin. destruct Hin as [e [<- Hin]].
    destruct (hit name e).
    + destruct repl; try discriminate. reflexivity.
    + rewrite Forall_forall in IH. apply (IH e Hin). now apply Hk.
Qed.
End Subst.


(* ---------- the dictionaries of scan_for_anchors ---------- *)
Definition ad_ok (d : an_dict) : Prop := Forall (fun kv => an_name (snd kv) = Some (fst kv)) d.

Lemma ad_set_ok : forall k n d, an_name n = Some k -> ad_ok d -> ad_ok (ad_set k n d).
Proof.
  intros k n d Hn. induction d as [|[k' v'] r IH]; intros Hd; simpl.
  - constructor; [exact Hn|constructor].
  - inversion Hd as [|? ? H1 H2]; subst. destruct (String.eqb k k').
    + constructor; [exact Hn|exact H2].
    + constructor; [exact H1|apply IH; exact H2].
Qed.

Lemma ad_get_ok : forall d k n, ad_ok d -> ad_get k d = Some n -> an_name n = Some k.
Proof.
  induction d as [|[k' v'] r IH]; intros k n Hd Hg; simpl in Hg; [discriminate|].
  inversion Hd; subst. destruct (String.eqb k k') eqn:E.
  - apply String.eqb_eq in E. subst. inversion Hg; subst. assumption.
  - eauto.
Qed.

Lemma scan_one_ok : forall n d, ad_ok d -> ad_ok (scan_one n d).
Proof. intros n d H. unfold scan_one. destruct (an_name n) eqn:E; [now apply ad_set_ok|exact H]. Qed.

Lemma scan_ok : forall dom d, ad_ok d -> ad_ok (an_scan_anchors dom d).
Proof.
  induction dom as [i v|i kvs IH|i els IH|i els IH] using node_ind'; intros d Hd;
    try (apply scan_one_ok; exact Hd).
  - simpl. revert d Hd. induction kvs as [|[k v] r IHr]; intros d Hd; [exact Hd|].
    inversion IH as [|? ? [_ IHv] IHrest]; subst. simpl in IHv.
    apply (IHr IHrest).
    destruct v; try (apply IHv); repeat apply scan_one_ok; exact Hd.
  - simpl. revert d Hd. induction els as [|e r IHr]; intros d Hd; [exact Hd|].
    inversion IH as [|? ? IHe IHrest]; subst. apply (IHr IHrest). apply IHe. exact Hd.
Qed.

Lemma scan_names : forall dom k n, ad_get k (an_scan_anchors dom []) = Some n -> an_name n = Some k.
Proof. intros dom k n. apply ad_get_ok. apply scan_ok. constructor. Qed.

(* ---------- the loop invariant ---------- *)
(* anchors sit on Scalars only: what scan_for_anchors records are leaves *)
Definition scalar_anchors (d : node) : Prop :=
  forall k n, ad_get k (an_scan_anchors d []) = Some n -> is_leaf n = true.

Lemma all_read_iff : forall a x d,
  all_read a x d <-> (forall n, In n (places d) -> hit a n = true -> n = x).
Proof.
  intros. unfold all_read, uses. split; intros H n.
  - intros Hin Hh. apply H. apply filter_In. split; assumption.
  - intros Hin. apply filter_In in Hin. destruct Hin. now apply H.
Qed.

Lemma hit_name : forall a n b, an_name n = Some b -> hit a n = String.eqb b a.
Proof. intros a n b H. unfold hit. rewrite c10_name_an_name, H. reflexivity. Qed.

(* replacing the places of another name keeps "every place of a is x" *)
Lemma subst_other_keeps : forall a x b repl d,
  is_leaf repl = true -> an_name repl = Some b -> b <> a ->
  all_read a x d -> all_read a x (subst_named b repl d).
Proof.
  intros a x b repl d Hl Hb Hne H. apply all_read_iff. rewrite all_read_iff in H.
  assert (F : Forall (fun n => hit a n = true -> n = x) (places (subst_named b repl d))).
  { apply subst_places; [exact Hl| |apply Forall_forall; exact H].
    intros Hh. rewrite (hit_name a repl b Hb) in Hh. apply String.eqb_eq in Hh. contradiction. }
  rewrite Forall_forall in F. exact F.
Qed.

Lemma replace_anchor_subst : forall repl b d,
  an_name repl = Some b -> keys_plain d = true -> replace_anchor repl d = Ok (subst_named b repl d).
Proof. intros repl b d Hb Hk. unfold replace_anchor. rewrite Hb. now apply replace_walk_subst. Qed.

Lemma foldM_cons {A S} (f : S -> A -> outcome S) x xs s :
  foldM f (x :: xs) s = bind (f s x) (fun s' => foldM f xs s').
Proof. reflexivity. Qed.

Section Loop.
Variable cfg : mconfig.
Variables l0 r0 : node.
Let lanc := an_scan_anchors l0 [].
Let ranc := an_scan_anchors r0 [].
Hypothesis Hsl : scalar_anchors l0.
Hypothesis Hsr : scalar_anchors r0.

(* LEFT: once the conflicting name a has been processed, every place of a in
   the right-hand document is the left-hand node *)
Lemma loop_left : forall a la ra,
  anchor_merge_mode cfg = Ok KLeft ->
  ad_get a lanc = Some la -> ad_get a ranc = Some ra -> anchors_match la ra = false ->
  forall names st st',
    keys_plain (fst st) = true -> keys_plain (snd st) = true ->
    (all_read a la (snd st) \/ In a names) ->
    foldM (resolve_step cfg lanc ranc) names st = Ok st' ->
    all_read a la (snd st').
Proof.
  intros a la ra Hm Hla Hra Hc names. induction names as [|b rest IH]; intros [l r] st' Hkl Hkr Hor E.
  - simpl in E. inversion E; subst. destruct Hor as [H|[]]. exact H.
  - rewrite foldM_cons in E.
    destruct (resolve_step cfg lanc ranc (l, r) b) as [[l1 r1]| |] eqn:Es; simpl in E; try discriminate.
    simpl in Hkl, Hkr.
    unfold resolve_step in Es.
    destruct (ad_get b lanc) as [lb|] eqn:Hlb; [|discriminate].
    destruct (ad_get b ranc) as [rb|] eqn:Hrb; [|discriminate].
    rewrite Hm in Es. simpl in Es.
    pose proof (scan_names l0 b lb Hlb) as Nlb. pose proof (scan_names r0 b rb Hrb) as Nrb.
    pose proof (Hsl b lb Hlb) as Llb. pose proof (Hsr b rb Hrb) as Lrb.
    destruct (anchors_match lb rb) eqn:Em.
    + (* equal: the left document adopts the right node; right untouched *)
      rewrite (replace_anchor_subst rb b l Nrb Hkl) in Es. simpl in Es. inversion Es; subst l1 r1.
      apply (IH (subst_named b rb l, r) st'); [simpl; now apply subst_keys_plain|exact Hkr| |exact E].
      simpl. destruct Hor as [H|[Hab|H]]; auto.
      subst b. rewrite Hla in Hlb. rewrite Hra in Hrb. inversion Hlb; inversion Hrb; subst. congruence.
    + rewrite (replace_anchor_subst lb b r Nlb Hkr) in Es. simpl in Es. inversion Es; subst l1 r1.
      apply (IH (l, subst_named b lb r) st'); [exact Hkl|simpl; now apply subst_keys_plain| |exact E].
      simpl. destruct (String.eqb b a) eqn:Eba.
      * apply String.eqb_eq in Eba. subst b. rewrite Hla in Hlb. inversion Hlb; subst lb.
        left. apply all_read_iff. intros n Hn Hh. eapply subst_named_reads; eauto.
      * apply String.eqb_neq in Eba. destruct Hor as [H|[Hab|H]]; auto.
        -- left. apply subst_other_keeps; auto.
        -- congruence.
Qed.

(* RIGHT: ... every place of a in the left-hand document is the right-hand node *)
Lemma loop_right : forall a la ra,
  anchor_merge_mode cfg = Ok KRight ->
  ad_get a lanc = Some la -> ad_get a ranc = Some ra ->
  forall names st st',
    keys_plain (fst st) = true ->
    (all_read a ra (fst st) \/ In a names) ->
    foldM (resolve_step cfg lanc ranc) names st = Ok st' ->
    all_read a ra (fst st').
Proof.
  intros a la ra Hm Hla Hra names. induction names as [|b rest IH]; intros [l r] st' Hkl Hor E.
  - simpl in E. inversion E; subst. destruct Hor as [H|[]]. exact H.
  - rewrite foldM_cons in E.
    destruct (resolve_step cfg lanc ranc (l, r) b) as [[l1 r1]| |] eqn:Es; simpl in E; try discriminate.
    simpl in Hkl.
    unfold resolve_step in Es.
    destruct (ad_get b lanc) as [lb|] eqn:Hlb; [|discriminate].
    destruct (ad_get b ranc) as [rb|] eqn:Hrb; [|discriminate].
    rewrite Hm in Es. simpl in Es.
    pose proof (scan_names r0 b rb Hrb) as Nrb. pose proof (Hsr b rb Hrb) as Lrb.
    assert (Es' : replace_anchor rb l = Ok l1 /\ r1 = r).
    { destruct (anchors_match lb rb); destruct (replace_anchor rb l); simpl in Es; try discriminate;
        inversion Es; subst; auto. }
    destruct Es' as [Er ->]. rewrite (replace_anchor_subst rb b l Nrb Hkl) in Er. inversion Er; subst l1.
    apply (IH (subst_named b rb l, r) st'); [simpl; now apply subst_keys_plain| |exact E].
    simpl. destruct (String.eqb b a) eqn:Eba.
    + apply String.eqb_eq in Eba. subst b. rewrite Hra in Hrb. inversion Hrb; subst rb.
      left. apply all_read_iff. intros n Hn Hh. eapply subst_named_reads; eauto.
    + apply String.eqb_neq in Eba. destruct Hor as [H|[Hab|H]]; auto.
      * left. apply subst_other_keeps; auto.
      * congruence.
Qed.
End Loop.

Theorem resolve_left_reads_left : forall cfg l r l' r' a la ra,
  anchor_merge_mode cfg = Ok KLeft ->
  keys_plain l = true -> keys_plain r = true -> scalar_anchors l -> scalar_anchors r ->
  ad_get a (an_scan_anchors l []) = Some la -> ad_get a (an_scan_anchors r []) = Some ra ->
  anchors_match la ra = false ->
  resolve_conflicts cfg l r = Ok (l', r') ->
  all_read a la r'.
Proof.
  intros cfg l r l' r' a la ra Hm Hkl Hkr Hsl Hsr Hla Hra Hc E. unfold resolve_conflicts in E.
  change (all_read a la (snd (l', r'))).
  eapply (loop_left cfg l r Hsl Hsr a la ra Hm Hla Hra Hc); [| | |exact E]; simpl; auto.
  right. eapply common_names_in; eauto.
Qed.

Theorem resolve_right_reads_right : forall cfg l r l' r' a la ra,
  anchor_merge_mode cfg = Ok KRight ->
  keys_plain l = true -> scalar_anchors r ->
  ad_get a (an_scan_anchors l []) = Some la -> ad_get a (an_scan_anchors r []) = Some ra ->
  resolve_conflicts cfg l r = Ok (l', r') ->
  all_read a ra l'.
Proof.
  intros cfg l r l' r' a la ra Hm Hkl Hsr Hla Hra E. unfold resolve_conflicts in E.
  change (all_read a ra (fst (l', r'))).
  eapply (loop_right cfg l r Hsr a la ra Hm Hla Hra); [| |exact E]; simpl; auto.
  right. eapply common_names_in; eauto.
Qed.
