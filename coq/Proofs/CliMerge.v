(* Proofs for yaml-merge (C16). *)
From Coq Require Import List Ascii String ZArith Bool Arith Lia.
From YP Require Import Outcome PyStr Cli CliSpec.
Import ListNotations.
Open Scope list_scope.

Section MergeProofs.
  Variable merge2 : nat -> nat -> option ufam * nat.
  Variable flow : nat -> bool.
  Variable jview : nat -> nat.
  Hypothesis clean : merges_clean merge2.

  Lemma merge_step_clean : forall l r, merge_step merge2 l r = StepOk (snd (merge2 l r)).
  Proof.
    intros l r. unfold merge_step. pose proof (clean l r) as C.
    destruct (merge2 l r) as [e d]. simpl in *. subst e. reflexivity.
  Qed.

  Lemma condense_into_clean : forall rs prime st cm cy nh,
    condense_into merge2 prime rs st cm cy nh = LOk (fold_merge merge2 prime rs, st, nh).
  Proof.
    induction rs as [|r rest IH]; intros; simpl; [reflexivity|].
    rewrite merge_step_clean. apply IH.
  Qed.

  Lemma fold_merge_app : forall d xs ys,
    fold_merge merge2 d (xs ++ ys) = fold_merge merge2 (fold_merge merge2 d xs) ys.
  Proof. intros. unfold fold_merge. apply fold_left_app. Qed.

  Lemma condense_all_clean : forall p more rhs,
    merge_condense_all merge2 (p :: more) rhs = LOk (0, [fold_merge merge2 p (more ++ rhs)], 0).
  Proof.
    intros. unfold merge_condense_all. rewrite condense_into_clean, condense_into_clean.
    rewrite fold_merge_app. reflexivity.
  Qed.

  (* the one document all documents condense into, left to right *)
  Definition condensed (l : list nat) : list nat :=
    match l with [] => [] | p :: m => [fold_merge merge2 p m] end.

  Lemma condensed_step : forall p m rest,
    condensed ([fold_merge merge2 p m] ++ rest) = condensed ((p :: m) ++ rest).
  Proof. intros. simpl. rewrite fold_merge_app. reflexivity. Qed.

  Definition src_docs (estr : nat) (s : source) : list nat :=
    match get_doc_mergers estr s with MgOk ds => ds | _ => [] end.
  Definition src_loads (estr : nat) (s : source) : Prop := exists ds, get_doc_mergers estr s = MgOk ds.

  Lemma merge_loop_condense : forall estr srcs mergers count consumed nh,
    Forall (src_loads estr) srcs ->
    (count = 0 \/ exists d, mergers = [d]) ->
    exists mergers' count',
      merge_loop merge2 estr CondenseAll srcs mergers count consumed nh =
        LOk (0, mergers', count', consumed || existsb (fun s => is_dash (s_name s)) srcs, nh) /\
      (count' = 0 \/ exists d, mergers' = [d]) /\
      condensed mergers' = condensed (mergers ++ flat_map (src_docs estr) srcs) /\
      (count' = 0 -> mergers' = mergers ++ flat_map (src_docs estr) srcs).
  Proof.
    intros estr srcs. induction srcs as [|s r IH]; intros mergers count consumed nh F I; simpl.
    - exists mergers, count. rewrite orb_false_r, app_nil_r. auto.
    - inversion F as [|? ? [ds D] F']; subst.
      assert (SD : src_docs estr s = ds) by (unfold src_docs; rewrite D; reflexivity).
      rewrite SD.
      destruct mergers as [|p m].
      + rewrite D. destruct (IH ds count (consumed || is_dash (s_name s)) nh F') as (m' & c' & E & I' & C & Z).
        { destruct I as [I|[d I]]; [left; exact I|discriminate]. }
        exists m', c'. rewrite E. rewrite orb_assoc. simpl. auto.
      + unfold merge_docs. rewrite D. rewrite condense_all_clean. simpl.
        destruct (IH [fold_merge merge2 p (m ++ ds)] (S count) (consumed || is_dash (s_name s)) (nh + 0) F')
          as (m' & c' & E & I' & C & Z).
        { right. eexists. reflexivity. }
        exists m', c'. rewrite E. rewrite orb_assoc, Nat.add_0_r. split; [reflexivity|].
        split; [exact I'|]. split.
        * rewrite C, condensed_step. simpl. rewrite <- app_assoc. reflexivity.
        * intros Z0. exfalso.
          (* count' >= S count > 0 *)
          clear -E Z0. revert E. generalize (consumed || is_dash (s_name s)) (nh + 0).
          intros. assert (H : forall srcs ms c cs n r, merge_loop merge2 estr CondenseAll srcs ms c cs n = LOk r ->
                               c <= snd (fst (fst r)) \/ fst (fst (fst (fst r))) <> 0).
          { clear. induction srcs as [|s0 r0 IH0]; intros ms c cs n r; simpl.
            - intros E. inversion E; subst. simpl. left. lia.
            - destruct ms.
              + destruct (get_doc_mergers estr s0); try discriminate.
                * apply IH0.
                * intros E. inversion E; subst. simpl. right. discriminate.
              + destruct (merge_docs merge2 estr CondenseAll (n0 :: ms) s0) as [[[st m'] h]|]; try discriminate.
                destruct (Nat.eqb st 0) eqn:Z.
                * intros E. destruct (IH0 _ _ _ _ _ E); [left; lia|right; assumption].
                * intros E. inversion E; subst. simpl. right. apply Nat.eqb_neq in Z. exact Z. }
          destruct (H _ _ _ _ _ _ E) as [X|X]; simpl in X; [lia|congruence].
  Qed.
End MergeProofs.

(* ---- a failing run delivers no document ---- *)

Lemma dumped_app : forall a b, dumped (a ++ b) = dumped a ++ dumped b.
Proof. intros. unfold dumped. apply flat_map_app. Qed.
Lemma dumped_hints : forall n, dumped (hints n) = [].
Proof. induction n; simpl; auto. Qed.
Lemma dumped_log_verbose : forall n, dumped (log_verbose n [OVerb]) = [].
Proof. intros. unfold log_verbose. destruct (_ && _); reflexivity. Qed.

Lemma merge_validate_no_dump : forall a nf files tty nerr vl n',
  merge_validate a nf files tty = (nerr, vl, n') -> dumped vl = [].
Proof.
  intros a nf files tty nerr vl n'. unfold merge_validate. intros E. inversion E; subst. clear E.
  rewrite !dumped_app, dumped_hints.
  destruct (nonempty (ma_output a) && ma_output_exists a); simpl;
  destruct (negb (nonempty (ma_output a)) && nonempty (ma_overwrite a) && ma_overwrite_exists a); simpl;
  unfold log_warning; destruct (n_quiet (ma_noise a)); simpl;
  destruct (ma_backup a && negb (nonempty (ma_overwrite a))); reflexivity.
Qed.

Lemma merge_write_delivers : forall flow jview a n to_file docs,
  (r_status (merge_write flow jview a n to_file docs) = Exit 0 /\
   exists d rest, docs = d :: rest /\
     delivered (merge_write flow jview a n to_file docs) =
       [(doc_is_json flow a d, prepared flow jview a (prepared flow jview a d) :: map (prepared flow jview a) rest)]) \/
  ((exists u, r_status (merge_write flow jview a n to_file docs) = Uncaught u) /\
   delivered (merge_write flow jview a n to_file docs) = []).
Proof.
  intros. unfold merge_write, delivered.
  destruct docs as [|d rest].
  - right. destruct (ma_backup a && negb (ma_overwrite_exists a)); simpl.
    + split; [eexists; reflexivity|]. destruct (ma_backup a); simpl; rewrite ?dumped_log_verbose; reflexivity.
    + split; [eexists; reflexivity|]. destruct (ma_backup a); simpl; rewrite ?dumped_log_verbose; reflexivity.
  - destruct (ma_backup a && negb (ma_overwrite_exists a)); simpl.
    + right. split; [eexists; reflexivity|]. destruct (ma_backup a); simpl; rewrite ?dumped_log_verbose; reflexivity.
    + left. destruct to_file; simpl.
      * split; [reflexivity|]. exists d, rest. split; [reflexivity|].
        destruct (ma_backup a); simpl; rewrite ?dumped_log_verbose; reflexivity.
      * split; [reflexivity|]. exists d, rest. split; [reflexivity|].
        rewrite dumped_app. destruct (ma_backup a); simpl; rewrite ?dumped_log_verbose; reflexivity.
Qed.

Lemma merge_fail_delivers_nothing : forall merge2 flow jview estr a tty srcs stdin_src,
  r_status (cli_merge_main merge2 flow jview estr a tty srcs stdin_src) <> Exit 0 ->
  delivered (cli_merge_main merge2 flow jview estr a tty srcs stdin_src) = [].
Proof.
  intros merge2 flow jview estr a tty srcs stdin_src. unfold cli_merge_main.
  destruct (merge_validate a (List.length srcs) (map s_name srcs) tty) as [[nerr vl] n'] eqn:V.
  pose proof (merge_validate_no_dump _ _ _ _ _ _ _ V) as DV.
  assert (X : forall k, dumped (vl ++ hints k) = []) by (intros; rewrite dumped_app, DV, dumped_hints; reflexivity).
  destruct (negb (Nat.eqb nerr 0)); [intros _; unfold delivered; simpl; rewrite DV; reflexivity|].
  destruct (ma_config_err a); [intros _; unfold delivered; simpl; rewrite DV; reflexivity|].
  destruct (merge_loop _ _ _ _ _ _ _ _) as [[[[[st mg] cnt] cons] nh]|u];
    [|intros _; unfold delivered; simpl; rewrite X; reflexivity].
  match goal with |- context [match ?S with LOk _ => _ | LRaise _ => _ end] => destruct S as [[[[st2 m2] c2] nh2]|u] end;
    [|intros _; unfold delivered; simpl; rewrite X; reflexivity].
  match goal with |- context [match ?S with LOk _ => _ | LRaise _ => _ end] => destruct S as [[[st3 m3] nh3]|u] end;
    [|intros _; unfold delivered; simpl; rewrite X; reflexivity].
  destruct (Nat.eqb st3 0); [|intros _; unfold delivered; simpl; rewrite X; reflexivity].
  intros H. simpl in H.
  destruct (merge_write_delivers flow jview a n' (nonempty (ma_overwrite a) || nonempty (ma_output a)) m3)
    as [[S _]|[_ D]]; [congruence|].
  unfold delivered in *. simpl. rewrite !dumped_app, DV, dumped_hints. simpl.
  exact D.
Qed.

(* ---- the default mode: the delivered document is the left-to-right merge of all inputs ---- *)

Definition stdin_waits_m (a : merge_args) (tty : bool) (srcs : list source) : bool :=
  negb (existsb (fun s => is_dash (s_name s)) srcs) && negb (ma_nostdin a) && negb tty.

Lemma merge_output_condense : forall merge2 flow jview estr a tty srcs stdin_src nerr vl n',
  merges_clean merge2 ->
  ma_mode a = CondenseAll ->
  merge_validate a (List.length srcs) (map s_name srcs) tty = (nerr, vl, n') -> nerr = 0 -> ma_config_err a = None ->
  Forall (src_loads estr) srcs ->
  (stdin_waits_m a tty srcs = true -> src_loads estr stdin_src) ->
  ma_backup a && negb (ma_overwrite_exists a) = false ->
  forall d rest,
    flat_map (src_docs estr) srcs ++ (if stdin_waits_m a tty srcs then src_docs estr stdin_src else []) = d :: rest ->
    let m := fold_merge merge2 d rest in
    r_status (cli_merge_main merge2 flow jview estr a tty srcs stdin_src) = Exit 0 /\
    delivered (cli_merge_main merge2 flow jview estr a tty srcs stdin_src) =
      [(doc_is_json flow a m, [prepared flow jview a (prepared flow jview a m)])].
Proof.
  intros merge2 flow jview estr a tty srcs stdin_src nerr vl n' clean Mode V Z CE F FS BK d rest ALL m.
  unfold cli_merge_main. rewrite V. subst nerr. simpl negb. cbv iota. rewrite CE, Mode.
  destruct (merge_loop_condense merge2 clean estr srcs [] 0 false 0 F (or_introl eq_refl))
    as (m1 & c1 & E & I1 & C1 & Z1).
  rewrite E. simpl orb. cbv beta iota. simpl Nat.eqb. cbv iota. simpl andb.
  unfold stdin_waits_m in *.
  pose proof (merge_validate_no_dump _ _ _ _ _ _ _ V) as DV.
  (* the state after the STDIN step: (0, m2, c2, 0) with the same invariants over all documents *)
  assert (S2 : exists m2 c2,
    (if negb (existsb (fun s => is_dash (s_name s)) srcs) && negb (ma_nostdin a) && negb tty
     then match m1 with
          | [] => match get_doc_mergers estr stdin_src with
                  | MgFailed h => LOk (4, [], c1, 0 + h)
                  | MgUncaught c => LRaise (UCrash c)
                  | MgOk ds => LOk (0, ds, c1, 0)
                  end
          | _ :: _ => match merge_docs merge2 estr CondenseAll m1 stdin_src with
                      | LOk (st2, m2, h) => LOk (st2, m2, S c1, 0 + h)
                      | LRaise u => LRaise u
                      end
          end
     else LOk (0, m1, c1, 0)) = LOk (0, m2, c2, 0) /\
    (c2 = 0 \/ exists x, m2 = [x]) /\ condensed merge2 m2 = condensed merge2 (d :: rest) /\
    (c2 = 0 -> m2 = d :: rest)).
  { destruct (negb (existsb (fun s => is_dash (s_name s)) srcs) && negb (ma_nostdin a) && negb tty) eqn:W.
    - destruct (FS eq_refl) as [ds D]. unfold src_docs at 2 in ALL. rewrite D in ALL.
      destruct m1 as [|p mm].
      + rewrite D. exists ds, c1. split; [reflexivity|]. simpl in C1.
        destruct I1 as [I1|[x I1]]; [|discriminate].
        assert (FM : flat_map (src_docs estr) srcs = []) by (symmetry; exact (Z1 I1)).
        rewrite FM in ALL. simpl in ALL. subst ds.
        split; [left; exact I1|]. split; [reflexivity|]. intros _. reflexivity.
      + unfold merge_docs. rewrite D. rewrite condense_all_clean by assumption.
        exists [fold_merge merge2 p (mm ++ ds)], (S c1). split; [reflexivity|].
        split; [right; eexists; reflexivity|]. split; [|intros X; discriminate].
        rewrite <- ALL. simpl in C1.
        assert (Q : condensed merge2 ((p :: mm) ++ ds) = condensed merge2 (flat_map (src_docs estr) srcs ++ ds)).
        { destruct I1 as [I1|[x I1]].
          - assert (FM : flat_map (src_docs estr) srcs = p :: mm) by (symmetry; exact (Z1 I1)).
            rewrite FM. reflexivity.
          - inversion I1; subst. simpl. simpl in C1.
            destruct (flat_map (src_docs estr) srcs) as [|q qs] eqn:FM; [discriminate|].
            simpl. inversion C1. rewrite fold_merge_app. rewrite <- H0. reflexivity. }
        rewrite <- Q. reflexivity.
    - rewrite app_nil_r in ALL. exists m1, c1. split; [reflexivity|]. split; [exact I1|].
      simpl in C1, Z1. rewrite <- ALL. split; [exact C1|exact Z1]. }
  destruct S2 as (m2 & c2 & E2 & I2 & C2 & Z2). rewrite E2. simpl Nat.eqb. cbv iota. simpl andb.
  rewrite andb_true_r.
  assert (S3 : exists nh3,
    (if Nat.eqb c2 0 then match merge_condense_all merge2 m2 [] with
                          | LOk (st3, m3, h) => LOk (st3, m3, 0 + h)
                          | LRaise u => LRaise u
                          end
     else LOk (0, m2, 0)) = LOk (0, [m], nh3) /\ nh3 = 0).
  { destruct (Nat.eqb c2 0) eqn:Q.
    - apply Nat.eqb_eq in Q. rewrite (Z2 Q). rewrite condense_all_clean by assumption. rewrite app_nil_r.
      exists 0. split; reflexivity.
    - apply Nat.eqb_neq in Q. destruct I2 as [I2|[x I2]]; [congruence|]. subst m2. simpl in C2.
      inversion C2. exists 0. split; [|reflexivity]. unfold m. rewrite <- H0.
      unfold fold_merge. reflexivity. }
  destruct S3 as (nh3 & E3 & N3). rewrite E3. subst nh3. simpl Nat.eqb. cbv iota.
  unfold merge_write. rewrite BK.
  unfold delivered. destruct (nonempty (ma_overwrite a) || nonempty (ma_output a)); simpl.
  - split; [reflexivity|]. rewrite !dumped_app, DV. simpl.
    destruct (ma_backup a); simpl; rewrite ?dumped_log_verbose; reflexivity.
  - split; [reflexivity|]. rewrite !dumped_app, DV. simpl.
    destruct (ma_backup a); simpl; rewrite ?dumped_app, ?dumped_log_verbose; reflexivity.
Qed.
