(* C03: _update_node's whole-document recurse() is a pointwise substitution. *)
From Coq Require Import Ascii String List ZArith NArith Bool Lia Arith.
From YP Require Import Outcome PyStr PyVal Doc Searches Mutate C04spec C04lists C03spec.
Import ListNotations.

Lemma imap_mapi : forall A B (f : nat -> A -> B) l k, imap f k l = mapi_from f k l.
Proof. induction l; intros; simpl; [reflexivity|]. rewrite IHl. reflexivity. Qed.

Lemma mapi_from_ext_in : forall A B (f g : nat -> A -> B) l k,
  Forall (fun x => forall i, f i x = g i x) l -> mapi_from f k l = mapi_from g k l.
Proof.
  induction l as [|x r IH]; intros k H; simpl; auto. inversion H; subst.
  rewrite H2, IH; auto.
Qed.

Lemma mapi_imap_ext_in : forall A B (f g : nat -> A -> B) l k,
  Forall (fun x => forall i, f i x = g i x) l -> mapi_from f k l = imap g k l.
Proof.
  induction l as [|x r IH]; intros k H; simpl; auto. inversion H; subst.
  rewrite H2, IH; auto.
Qed.

Lemma find_idx_none : forall A (Q : A -> bool) l, forallb (fun x => negb (Q x)) l = true -> find_idx Q l = None.
Proof.
  induction l as [|x r IH]; intros H; simpl in *; auto.
  apply andb_true_iff in H. destruct H as [H1 H2]. apply negb_true_iff in H1. rewrite H1, IH; auto.
Qed.

Lemma find_none : forall A (Q : A -> bool) l, forallb (fun x => negb (Q x)) l = true -> find Q l = None.
Proof.
  induction l as [|x r IH]; intros H; simpl in *; auto.
  apply andb_true_iff in H. destruct H as [H1 H2]. apply negb_true_iff in H1. rewrite H1, IH; auto.
Qed.

Lemma recurse_oid : forall poid pref roid repl d, node_oid (recurse poid pref roid repl d) = node_oid d.
Proof. intros. destruct d; reflexivity. Qed.

Lemma subst_leaf_like : forall P repl d, wf_attr d = true -> has_anchor_attr (node_info d) = false -> subst P repl d = d.
Proof.
  intros P repl d Hwf Hat. destruct d as [i v|i kvs|i els|i els]; simpl in *; auto;
    try (apply andb_true_iff in Hwf; destruct Hwf as [Hc _]); congruence.
Qed.

Theorem recurse_subst : forall poid pref roid repl d,
  wf_attr d = true -> keys_sets_clean poid roid d = true ->
  recurse poid pref roid repl d = subst (designated poid pref roid) repl d.
Proof.
  intros poid pref roid repl d. induction d using node_ind'; intros Hwf Hcl.
  - reflexivity.
  - (* mapping *)
    simpl in Hwf. apply andb_true_iff in Hwf. destruct Hwf as [Hi Hwf].
    simpl in Hcl. simpl.
    set (gA := fun kv : node * node =>
                 (fst kv, if is_ref roid (snd kv) then snd kv else recurse poid pref roid repl (snd kv))).
    assert (Hren : rename_keys roid repl (map gA kvs) = map gA kvs).
    { unfold rename_keys.
      rewrite (find_idx_map _ _ _ (fun kv => is_ref roid (fst kv) && hattr (fst kv)) gA) by reflexivity.
      rewrite find_idx_none; auto.
      rewrite forallb_forall in *. intros kv Hkv. specialize (Hcl kv Hkv).
      apply andb_true_iff in Hcl. destruct Hcl as [Hk _]. exact Hk. }
    fold gA. rewrite Hren. rewrite map_map. f_equal.
    apply map_ext_in_iff. intros kv Hkv.
    rewrite Forall_forall in H. destruct (H kv Hkv) as [_ IHv].
    rewrite forallb_forall in Hwf, Hcl. specialize (Hwf kv Hkv). specialize (Hcl kv Hkv).
    apply andb_true_iff in Hcl. destruct Hcl as [_ Hclv].
    unfold gA. simpl.
    assert (Hkey : forall v', key_is pref (fst kv, v') = cref_is pref (CKey (fst kv))).
    { intros v'. unfold key_is, cref_is. simpl. destruct (fst kv); reflexivity. }
    unfold designated, is_ref, hattr.
    destruct (N.eqb (node_oid (snd kv)) roid) eqn:Er.
    + simpl. rewrite Er. simpl. rewrite Hkey.
      destruct (has_anchor_attr (node_info (snd kv))) eqn:Ea; simpl; [reflexivity|].
      match goal with |- (if ?c then _ else _) = _ => destruct c end; [reflexivity|].
      rewrite (subst_leaf_like _ _ (snd kv)) by assumption.
      destruct kv; reflexivity.
    + simpl. rewrite recurse_oid. rewrite Er. simpl. rewrite IHv; auto.
  - (* sequence *)
    simpl in Hwf. apply andb_true_iff in Hwf. destruct Hwf as [Hi Hwf].
    simpl in Hcl. simpl. f_equal.
    apply mapi_imap_ext_in.
    rewrite Forall_forall in *. rewrite forallb_forall in Hwf, Hcl.
    intros x Hx idx. specialize (H x Hx). specialize (Hwf x Hx). specialize (Hcl x Hx).
    unfold designated, is_ref, hattr, cref_is.
    destruct (N.eqb (node_oid x) roid) eqn:Er; simpl.
    + destruct (has_anchor_attr (node_info x)) eqn:Ea; simpl; [reflexivity|].
      destruct (N.eqb (oid i) poid && py_eq (PInt (Z.of_nat idx)) pref); [reflexivity|].
      rewrite (subst_leaf_like _ _ x) by assumption.
      destruct x as [xi xv|xi xk|xi xe|xi xe]; simpl in *; try reflexivity;
        try (apply andb_true_iff in Hwf; destruct Hwf); congruence.
    + apply H; auto.
  - (* set *)
    simpl in Hcl. simpl. f_equal. unfold set_update.
    rewrite find_none; auto.
Qed.

(* ---- one _update_node ---- *)
Theorem update_exact : forall lit fl p value fmt vo d next d' next' o pn c,
  wf_attr d = true ->
  pc_parent p = Some o -> find_obj o d = Some pn ->
  get_change pn (norm_ref pn (pc_ref p)) = ROk (Some c) ->
  keys_sets_clean o (node_oid c) d = true ->
  update_node lit fl p value fmt vo (d, next) = ROk (d', next') ->
  exists new, make_new_node lit fl (Some (node_info c)) value fmt next vo = ROk new /\
              d' = subst (designated o (norm_ref pn (pc_ref p)) (node_oid c)) new d /\
              next' = N.succ next.
Proof.
  intros lit fl p value fmt vo d next d' next' o pn c Hwf Hp Hf Hc Hk Hu.
  unfold update_node in Hu. rewrite Hp, Hf, Hc in Hu. simpl in Hu.
  destruct (make_new_node lit fl (Some (node_info c)) value fmt next vo) as [new|e] eqn:Em; simpl in Hu; [|discriminate].
  inversion Hu; subst. exists new. repeat split; auto.
  apply recurse_subst; auto.
Qed.

(* a failing _update_node leaves the state alone (run_actions keeps the state it had) *)
Theorem run_actions_failed_state : forall lit fl value vo acts st st' e,
  run_actions lit fl value vo acts st = SFailed st' e ->
  exists done rest a, acts = done ++ a :: rest /\
    run_actions lit fl value vo done st = SDone st' /\ apply_action lit fl value vo a st' = RErr e.
Proof.
  intros lit fl value vo acts. induction acts as [|a r IH]; intros st st' e H; simpl in H; [discriminate|].
  destruct (apply_action lit fl value vo a st) as [st1|e1] eqn:Ea.
  - destruct (IH _ _ _ H) as [dn [rest [a' [E1 [E2 E3]]]]].
    exists (a :: dn), rest, a'. subst. repeat split; auto. simpl. rewrite Ea. exact E2.
  - inversion H; subst. exists [], r, a. repeat split; auto.
Qed.

(* ---- what make_new_node builds ---- *)
Theorem make_new_node_shape : forall lit fl src value fmt fresh vo new,
  make_new_node lit fl src value fmt fresh vo = ROk new ->
  exists nn, conv lit fl fmt value = ROk nn /\
    exists i, new = NLeaf i (nn_val nn) /\
      tag i = (if nn_wrapped nn then nn_tag nn else None) /\
      (nn_wrapped nn = true ->
         oid i = fresh /\ has_anchor_attr i = true /\
         anchor i = match src with Some s => nonempty_anchor s | None => None end).
Proof.
  intros lit fl src value fmt fresh vo new H. unfold make_new_node in H.
  destruct (conv lit fl fmt value) as [nn|e] eqn:Ec; simpl in H; [|discriminate].
  exists nn. split; auto.
  destruct (match src with Some i => nonempty_anchor i | None => None end) as [a|] eqn:Ea.
  - destruct (nn_wrapped nn) eqn:Ew.
    + inversion H; subst. eexists. split; [reflexivity|]. simpl. auto.
    + destruct (nn_val nn) eqn:Ev; try discriminate. inversion H; subst.
      eexists. split; [reflexivity|]. simpl. split; auto. intros; discriminate.
  - destruct (nn_wrapped nn) eqn:Ew; inversion H; subst; eexists; (split; [reflexivity|]); simpl; split; auto.
    intros; discriminate.
Qed.

(* only the boolean conversions build a ScalarBoolean, and it is a wrapper around the integer 0 / 1 *)
Lemma conv_bool_shape : forall value nn,
  conv_bool value = ROk nn -> nn_wrapped nn = true /\ nn_sbool nn = true /\ (nn_val nn = PInt 0 \/ nn_val nn = PInt 1).
Proof.
  intros value nn H. unfold conv_bool in H.
  assert (G : forall s0, (if mem_str s0 bool_allowed
                          then ROk (mknn (PInt (if mem_str s0 bool_truthy then 1%Z else 0%Z)) true true)
                          else RErr (PyCrash ValueError)) = ROk nn ->
              nn_wrapped nn = true /\ nn_sbool nn = true /\ (nn_val nn = PInt 0 \/ nn_val nn = PInt 1)).
  { intros s0 G. destruct (mem_str s0 bool_allowed); [|discriminate].
    destruct (mem_str s0 bool_truthy); inversion G; subst; cbn [nn_val nn_wrapped nn_sbool]; auto. }
  cbv zeta in H.
  destruct value as [| b | z | q s | s | s]; try (match type of H with (if mem_str ?s1 _ then _ else _) = _ => exact (G s1 H) end).
  inversion H; subst; simpl. repeat split; auto. destruct b; auto.
Qed.

Lemma conv_str_shape : forall value nn, conv_str value = ROk nn -> nn_sbool nn = false.
Proof. intros value nn H. inversion H; reflexivity. Qed.

Lemma conv_int_shape : forall value nn, conv_int value = ROk nn -> nn_sbool nn = false.
Proof.
  intros value nn H. unfold conv_int in H.
  destruct value as [| b | z | q s | s | s]; try discriminate; try (inversion H; reflexivity).
  destruct (py_int s); [inversion H; reflexivity | discriminate].
Qed.

Lemma conv_float_shape : forall fl value nn, conv_float fl value = ROk nn -> nn_sbool nn = false.
Proof.
  intros fl value nn H. unfold conv_float in H.
  destruct value as [| b | z | q s | s | s]; try discriminate; try (inversion H; reflexivity);
    match type of H with rbind (of_outcome ?x) _ = _ => destruct x as [[v|]| |] end;
    simpl in H; try discriminate; inversion H; reflexivity.
Qed.

Lemma conv_sbool_shape : forall lit fl fmt value nn,
  conv lit fl fmt value = ROk nn -> nn_sbool nn = true ->
  nn_wrapped nn = true /\ (nn_val nn = PInt 0 \/ nn_val nn = PInt 1).
Proof.
  intros lit fl fmt value nn H Hs.
  assert (Hb : forall v, conv_bool v = ROk nn -> nn_wrapped nn = true /\ (nn_val nn = PInt 0 \/ nn_val nn = PInt 1)).
  { intros v Hv. destruct (conv_bool_shape _ _ Hv) as [A [_ B]]. auto. }
  assert (Hn : forall (P : Prop), nn_sbool nn = false -> P) by (intros; congruence).
  destruct fmt; simpl in H;
    try (apply Hn; eapply conv_str_shape; eassumption);
    try (apply Hn; eapply conv_int_shape; eassumption);
    try (apply Hn; eapply conv_float_shape; eassumption);
    try (eapply Hb; eassumption).
  unfold conv_default in H.
  destruct (of_outcome (typed_value lit value)) as [ast|e]; simpl in H; [|discriminate].
  destruct ast as [| b | z | q s | s | s].
  - inversion H; subst. discriminate.
  - eapply Hb; eassumption.
  - destruct value as [| b' | z' | q' s' | s' | s'];
      try (apply Hn; eapply conv_int_shape; eassumption).
    destruct (py_int s'); apply Hn; [eapply conv_int_shape | eapply conv_str_shape]; eassumption.
  - apply Hn; eapply conv_float_shape; eassumption.
  - apply Hn; eapply conv_str_shape; eassumption.
  - destruct (first_char_is "["%char s || first_char_is "{"%char s).
    + apply Hn; eapply conv_str_shape; eassumption.
    + inversion H; subst. discriminate.
Qed.

(* the new node is a ScalarBoolean (Doc.is_sbool) exactly when a boolean conversion built it *)
Theorem make_new_node_sbool : forall lit fl src value fmt fresh vo new nn,
  make_new_node lit fl src value fmt fresh vo = ROk new ->
  conv lit fl fmt value = ROk nn ->
  is_sbool new = nn_sbool nn.
Proof.
  intros lit fl src value fmt fresh vo new nn H Hc.
  destruct (make_new_node_shape _ _ _ _ _ _ _ _ H) as [nn' [Hc' [i [E [Ht _]]]]].
  rewrite Hc in Hc'. inversion Hc'; subst nn'. subst new.
  destruct (nn_sbool nn) eqn:Es.
  - destruct (conv_sbool_shape _ _ _ _ _ Hc Es) as [Hw Hv].
    rewrite Hw in Ht. unfold nn_tag in Ht. rewrite Es in Ht.
    simpl. destruct Hv as [-> | ->]; rewrite Ht; reflexivity.
  - unfold nn_tag in Ht. rewrite Es in Ht. destruct (nn_wrapped nn); simpl; destruct (nn_val nn); rewrite ?Ht; reflexivity.
Qed.

(* ---- the meaning of subst, pointwise ---- *)
Lemma imap_nth : forall A B (f : nat -> A -> B) l k n x,
  nth_error l n = Some x -> nth_error (imap f k l) n = Some (f (k + n) x).
Proof.
  induction l as [|y r IH]; intros k n x H; destruct n; simpl in *; try discriminate.
  - inversion H; subst. rewrite Nat.add_0_r. reflexivity.
  - rewrite (IH (S k) n x H). f_equal. f_equal. lia.
Qed.

Lemma imap_length : forall A B (f : nat -> A -> B) l k, length (imap f k l) = length l.
Proof. induction l; intros; simpl; auto. Qed.

(* every element of a sequence: replaced iff designated, else recursively treated *)
Theorem subst_seq_nth : forall P repl i els n x,
  nth_error els n = Some x ->
  exists els', subst P repl (NSeq i els) = NSeq i els' /\ length els' = length els /\
    nth_error els' n = Some (if P (oid i) (CIdx n) x then repl else subst P repl x).
Proof.
  intros. eexists. split; [reflexivity|]. split; [apply imap_length|].
  rewrite (imap_nth _ _ _ _ 0 n x H). reflexivity.
Qed.

(* every pair of a mapping: key untouched, value replaced iff designated *)
Theorem subst_map_nth : forall P repl i kvs n k v,
  nth_error kvs n = Some (k, v) ->
  exists kvs', subst P repl (NMap i kvs) = NMap i kvs' /\ length kvs' = length kvs /\
    nth_error kvs' n = Some (k, if P (oid i) (CKey k) v then repl else subst P repl v).
Proof.
  intros. eexists. split; [reflexivity|]. split; [apply map_length|].
  rewrite nth_error_map, H. simpl. destruct (P (oid i) (CKey k) v); reflexivity.
Qed.

(* nothing designated => nothing changes *)
Theorem subst_frame : forall P repl d,
  (forall o c x, P o c x = false) -> subst P repl d = d.
Proof.
  intros P repl d HP. induction d using node_ind'; simpl; auto.
  - f_equal. rewrite <- (map_id kvs) at 2. apply map_ext_in_iff. intros [k v] Hkv. simpl.
    rewrite HP. f_equal. rewrite Forall_forall in H. apply (proj2 (H _ Hkv)).
  - f_equal. induction els as [|x r IHr]; simpl; auto.
    inversion H; subst. rewrite HP. f_equal; auto.
    clear - H3 HP. generalize 1. induction r as [|y r IH]; intros k; simpl; auto.
    inversion H3; subst. rewrite HP. f_equal; auto.
Qed.

(* the anchor-attribute invariant survives a substitution by a scalar *)
Theorem subst_wf_attr : forall P repl d,
  wf_attr d = true -> wf_attr repl = true -> wf_attr (subst P repl d) = true.
Proof.
  intros P repl d Hd Hr. induction d using node_ind'; simpl in *; auto.
  - apply andb_true_iff in Hd. destruct Hd as [Hi Hd]. rewrite Hi. simpl.
    rewrite forallb_forall in *. intros kv Hkv. apply in_map_iff in Hkv.
    destruct Hkv as [kv0 [E Hin]]. subst kv.
    rewrite Forall_forall in H.
    destruct (P (oid i) (CKey (fst kv0)) (snd kv0)); simpl; auto.
    apply (proj2 (H kv0 Hin)). apply Hd; auto.
  - apply andb_true_iff in Hd. destruct Hd as [Hi Hd]. rewrite Hi. simpl.
    clear Hi. generalize 0. induction els as [|x r IHr]; intros k; simpl; auto.
    inversion H; subst. simpl in Hd. apply andb_true_iff in Hd. destruct Hd as [Hx Hr'].
    apply andb_true_iff. split.
    + destruct (P (oid i) (CIdx k) x); auto.
    + apply IHr; auto.
Qed.
