(* C03: _update_node's whole-document recurse() is a pointwise substitution. *)
From Coq Require Import Ascii String List ZArith NArith Bool Lia Arith.
From YP Require Import Outcome PyStr PyVal Doc Searches Mutate C04spec C04lists C03spec PyValOrder.
Import ListNotations.
Open Scope list_scope.

Lemma imap_mapi : forall A B (f : nat -> A -> B) l k, imap f k l = mapi_from f k l.
Proof. induction l; intros; simpl; [reflexivity|]. rewrite IHl. reflexivity. Qed.

Lemma mapi_from_ext_in : forall A B (f g : nat -> A -> B) l k,
  Forall (fun x => forall i, f i x = g i x) l -> mapi_from f k l = mapi_from g k l.
Proof.
  induction l as [|x r IH]; intros k H; simpl; auto. inversion H; subst.
  rewrite H2, IH; auto.
Qed.

Lemma mapi_imap_ext_in : forall A B (f g : nat -> A -> B) l k,
  Forall (fun x => forall i, f i x = g i x) l -> mapi_from f k l = imap g k l.
Proof.
  induction l as [|x r IH]; intros k H; simpl; auto. inversion H; subst.
  rewrite H2, IH; auto.
Qed.

Lemma find_idx_none : forall A (Q : A -> bool) l, forallb (fun x => negb (Q x)) l = true -> find_idx Q l = None.
Proof.
  induction l as [|x r IH]; intros H; simpl in *; auto.
  apply andb_true_iff in H. destruct H as [H1 H2]. apply negb_true_iff in H1. rewrite H1, IH; auto.
Qed.

Lemma find_none : forall A (Q : A -> bool) l, forallb (fun x => negb (Q x)) l = true -> find Q l = None.
Proof.
  induction l as [|x r IH]; intros H; simpl in *; auto.
  apply andb_true_iff in H. destruct H as [H1 H2]. apply negb_true_iff in H1. rewrite H1, IH; auto.
Qed.

Lemma recurse_oid : forall poid pref roid repl d, node_oid (recurse poid pref roid repl d) = node_oid d.
Proof. intros. destruct d; reflexivity. Qed.

Lemma subst_leaf_like : forall P repl d, wf_attr d = true -> has_anchor_attr (node_info d) = false -> subst P repl d = d.
Proof.
  intros P repl d Hwf Hat. destruct d as [i v|i kvs|i els|i els]; simpl in *; auto;
    try (apply andb_true_iff in Hwf; destruct Hwf as [Hc _]); congruence.
Qed.

(* ---- ordereddict.insert without a collision is a positional replacement ---- *)
Lemma key_eqb_mkey : forall a b, key_eqb a b = mkey_eq a b.
Proof. intros [] []; reflexivity. Qed.

Lemma mkey_eq_sym : forall a b, mkey_eq a b = mkey_eq b a.
Proof. intros [? x| | |] [? y| | |]; simpl; auto. apply py_eq_sym. Qed.

Definition kfresh (k : node) (acc : list (node * node)) : Prop :=
  forallb (fun x => negb (key_eqb (fst x) k)) acc = true.

Lemma od_set_fresh : forall k v acc, kfresh k acc -> od_set k v acc = acc ++ [(k, v)].
Proof.
  unfold kfresh. induction acc as [|[k0 v0] r IH]; simpl; intros H; auto.
  apply andb_true_iff in H. destruct H as [H1 H2]. apply negb_true_iff in H1. rewrite H1. rewrite IH; auto.
Qed.

Fixpoint all_fresh (acc l : list (node * node)) : Prop :=
  match l with
  | [] => True
  | kv :: r => kfresh (fst kv) acc /\ all_fresh (acc ++ [kv]) r
  end.

Section OdInsert.
Variables (pos : nat) (k v : node).
Let step := fun (st : nat * list (node * node)) (kv : node * node) =>
  (S (fst st), od_set (fst kv) (snd kv) (if Nat.eqb (fst st) pos then od_set k v (snd st) else snd st)).

Lemma od_fold_past : forall l n acc,
  pos < n -> all_fresh acc l -> snd (fold_left step l (n, acc)) = acc ++ l.
Proof.
  induction l as [|kv r IH]; intros n acc Hn Hf; simpl.
  - rewrite app_nil_r. reflexivity.
  - destruct kv as [k1 v1]. destruct Hf as [Hf1 Hf2]. unfold step at 2. simpl.
    replace (n =? pos)%nat with false by (symmetry; apply Nat.eqb_neq; lia).
    rewrite od_set_fresh by assumption.
    rewrite IH; auto. rewrite <- app_assoc. reflexivity.
Qed.

Lemma od_fold_insert : forall pre post n acc,
  pos = n + length pre -> post <> [] ->
  all_fresh acc (pre ++ (k, v) :: post) ->
  snd (fold_left step (pre ++ post) (n, acc)) = acc ++ pre ++ (k, v) :: post.
Proof.
  induction pre as [|kv pre' IH]; intros post n acc Hp Hne Hf; simpl in *.
  - destruct post as [|[k1 v1] r]; [congruence|]. simpl.
    destruct Hf as [Hk [Hkv Hr]]. unfold step at 2. simpl.
    replace (n =? pos)%nat with true by (symmetry; apply Nat.eqb_eq; lia).
    rewrite (od_set_fresh k v acc) by assumption.
    rewrite od_set_fresh by assumption.
    rewrite od_fold_past; [|lia|assumption].
    rewrite <- !app_assoc. reflexivity.
  - destruct kv as [k1 v1]. destruct Hf as [Hkv Hr]. unfold step at 2. simpl.
    replace (n =? pos)%nat with false by (symmetry; apply Nat.eqb_neq; lia).
    rewrite od_set_fresh by assumption.
    rewrite (IH post (S n) (acc ++ [(k1, v1)])); auto; [|lia].
    rewrite <- app_assoc. reflexivity.
Qed.
End OdInsert.

Lemma all_fresh_last : forall pre acc k v, all_fresh acc (pre ++ [(k, v)]) -> kfresh k (acc ++ pre).
Proof.
  induction pre as [|x pre' IH]; intros acc k v H; simpl in *.
  - rewrite app_nil_r. tauto.
  - destruct H as [_ H]. specialize (IH _ _ _ H). rewrite <- app_assoc in IH. exact IH.
Qed.

Lemma od_insert_replace : forall pre post k v,
  all_fresh [] (pre ++ (k, v) :: post) ->
  od_insert (length pre) k v (pre ++ post) = pre ++ (k, v) :: post.
Proof.
  intros pre post k v Hf. unfold od_insert.
  destruct post as [|kv r].
  - rewrite !app_nil_r. rewrite Nat.leb_refl. apply od_set_fresh.
    apply (all_fresh_last pre [] k v Hf).
  - replace (length (pre ++ kv :: r) <=? length pre)%nat with false
      by (symmetry; apply Nat.leb_gt; rewrite app_length; simpl; lia).
    apply (od_fold_insert (length pre) k v pre (kv :: r) 0 []); auto. discriminate.
Qed.

(* pairwise different keys give the freshness the insertion needs *)
Lemma nodup_app_cons : forall acc k r,
  mkeys_nodup (acc ++ k :: r) = true ->
  forallb (fun x => negb (mkey_eq x k)) acc = true /\ mkeys_nodup ((acc ++ [k]) ++ r) = true.
Proof.
  induction acc as [|a acc' IH]; intros k r H; simpl in *.
  - split; auto.
  - apply andb_true_iff in H. destruct H as [H1 H2]. destruct (IH _ _ H2) as [I1 I2].
    rewrite forallb_app in H1. apply andb_true_iff in H1. destruct H1 as [H1a H1b].
    simpl in H1b. apply andb_true_iff in H1b. destruct H1b as [H1k H1r].
    split.
    + rewrite H1k, I1. reflexivity.
    + rewrite I2, andb_true_r. rewrite !forallb_app. simpl. rewrite H1a, H1k, H1r. reflexivity.
Qed.

Lemma all_fresh_nodup : forall l acc,
  mkeys_nodup (map fst (acc ++ l)) = true -> all_fresh acc l.
Proof.
  induction l as [|kv r IH]; intros acc H; simpl; auto.
  rewrite map_app in H. simpl in H. destruct (nodup_app_cons _ _ _ H) as [H1 H2]. split.
  - unfold kfresh. rewrite forallb_forall in *. intros x Hx. rewrite key_eqb_mkey.
    apply H1. apply in_map. exact Hx.
  - apply IH. rewrite !map_app. simpl. exact H2.
Qed.

Lemma nodup_replace : forall pre k0 k post,
  mkeys_nodup (pre ++ k0 :: post) = true ->
  (forall x, In x (pre ++ post) -> mkey_eq x k = false) ->
  mkeys_nodup (pre ++ k :: post) = true.
Proof.
  induction pre as [|a pre' IH]; intros k0 k post H Hk; simpl in *.
  - apply andb_true_iff in H. destruct H as [_ H2]. rewrite H2, andb_true_r.
    apply forallb_forall. intros x Hx. rewrite mkey_eq_sym, (Hk x Hx). reflexivity.
  - apply andb_true_iff in H. destruct H as [H1 H2].
    rewrite (IH k0 k post H2) by (intros; apply Hk; auto). rewrite andb_true_r.
    rewrite forallb_app in *. apply andb_true_iff in H1. destruct H1 as [H1a H1b].
    simpl in *. apply andb_true_iff in H1b. destruct H1b as [_ H1r].
    rewrite H1a, H1r, (Hk a (or_introl eq_refl)). reflexivity.
Qed.

(* find_idx splits the list at the first hit *)
Lemma find_idx_split : forall A (Q : A -> bool) l i,
  find_idx Q l = Some i ->
  exists pre x post, l = pre ++ x :: post /\ length pre = i /\ Q x = true /\
                     (forall y, In y pre -> Q y = false).
Proof.
  induction l as [|a r IH]; intros i H; simpl in H; [discriminate|].
  destruct (Q a) eqn:E.
  - inversion H; subst. exists [], a, r. repeat split; auto. intros y [].
  - destruct (find_idx Q r) as [j|] eqn:Ej; [|discriminate]. inversion H; subst.
    destruct (IH j eq_refl) as [pre [x [post [E1 [E2 [E3 E4]]]]]].
    exists (a :: pre), x, post. subst. repeat split; auto.
    intros y [<-|Hy]; auto.
Qed.

Lemma find_idx_none_all : forall A (Q : A -> bool) l, find_idx Q l = None -> forall y, In y l -> Q y = false.
Proof.
  induction l as [|a r IH]; intros H y Hy; simpl in *; [contradiction|].
  destruct (Q a) eqn:E; [discriminate|]. destruct (find_idx Q r) eqn:Er; [discriminate|].
  destruct Hy as [<-|Hy]; auto.
Qed.

Lemma nth_error_mid : forall A (pre : list A) x post, nth_error (pre ++ x :: post) (length pre) = Some x.
Proof. induction pre; simpl; auto. Qed.

Lemma remove_nth_mid : forall A (pre : list A) x post, remove_nth (length pre) (pre ++ x :: post) = pre ++ post.
Proof. induction pre as [|a r IH]; intros; simpl; auto. rewrite IH. reflexivity. Qed.

Lemma filter_none : forall A (f : A -> bool) l, length (filter f l) = 0 -> forall y, In y l -> f y = false.
Proof.
  induction l as [|a r IH]; intros H y Hy; simpl in *; [contradiction|].
  destruct (f a) eqn:E; [discriminate|]. destruct Hy as [<-|Hy]; auto.
Qed.

(* rename_keys = "replace every key that is a true alias of the matched node" *)
Lemma rename_keys_spec : forall roid repl kvs,
  Nat.leb (length (filter (fun kv => N.eqb (node_oid (fst kv)) roid) kvs)) 1 = true ->
  mkeys_nodup (map fst kvs) = true ->
  (forall kv, In kv kvs -> kdesignated roid (fst kv) = true ->
     forall kv', In kv' kvs -> is_ref roid (fst kv') = false -> key_eqb (fst kv') repl = false) ->
  rename_keys roid repl kvs = map (fun kv => (if kdesignated roid (fst kv) then repl else fst kv, snd kv)) kvs.
Proof.
  intros roid repl kvs Hone Hnd Hnc. unfold rename_keys.
  change (fun kv : node * node => is_ref roid (fst kv) && hattr (fst kv))
    with (fun kv : node * node => kdesignated roid (fst kv)).
  destruct (find_idx (fun kv => kdesignated roid (fst kv)) kvs) as [i|] eqn:Ef.
  - destruct (find_idx_split _ _ _ _ Ef) as [pre [x [post [E1 [E2 [E3 E4]]]]]]. subst kvs i.
    rewrite nth_error_mid, remove_nth_mid.
    (* x is the only entry whose key is the matched object *)
    assert (Hx : N.eqb (node_oid (fst x)) roid = true).
    { unfold kdesignated in E3. apply andb_true_iff in E3. tauto. }
    rewrite filter_app in Hone. simpl in Hone. rewrite Hx in Hone. rewrite app_length in Hone. simpl in Hone.
    apply Nat.leb_le in Hone.
    assert (Hpre : forall y, In y pre -> N.eqb (node_oid (fst y)) roid = false) by (apply filter_none; lia).
    assert (Hpost : forall y, In y post -> N.eqb (node_oid (fst y)) roid = false) by (apply filter_none; lia).
    assert (Hother : forall y, In y (pre ++ post) -> key_eqb (fst y) repl = false).
    { intros y Hy. apply (Hnc x); auto.
      - apply in_or_app. right. left. reflexivity.
      - apply in_app_or in Hy. apply in_or_app. destruct Hy; [left|right; right]; assumption.
      - unfold is_ref. apply in_app_or in Hy. destruct Hy; auto. }
    rewrite od_insert_replace.
    + rewrite map_app. simpl. rewrite E3. f_equal; [|f_equal].
      * rewrite <- (map_id pre) at 1. apply map_ext_in. intros y Hy.
        unfold kdesignated. rewrite (Hpre y Hy). destruct y; reflexivity.
      * rewrite <- (map_id post) at 1. apply map_ext_in. intros y Hy.
        unfold kdesignated. rewrite (Hpost y Hy). destruct y; reflexivity.
    + apply all_fresh_nodup. simpl. rewrite map_app. simpl.
      rewrite map_app in Hnd. simpl in Hnd.
      apply (nodup_replace _ (fst x)); auto.
      intros k Hk. rewrite <- map_app in Hk. apply in_map_iff in Hk. destruct Hk as [y [<- Hy]].
      rewrite <- key_eqb_mkey. apply Hother. exact Hy.
  - rewrite <- (map_id kvs) at 1. apply map_ext_in. intros y Hy.
    rewrite (find_idx_none_all _ _ _ Ef y Hy). destruct y; reflexivity.
Qed.

Lemma existsb_false : forall A (f : A -> bool) l, existsb f l = false -> forall x, In x l -> f x = false.
Proof.
  intros A f l H x Hx. destruct (f x) eqn:E; auto.
  assert (existsb f l = true) by (apply existsb_exists; exists x; auto). congruence.
Qed.

Lemma filter_length_map : forall A B (f : B -> bool) (f' : A -> bool) (g : A -> B) l,
  (forall x, f (g x) = f' x) -> length (filter f (map g l)) = length (filter f' l).
Proof.
  induction l as [|a r IH]; intros H; simpl; auto. rewrite H. destruct (f' a); simpl; rewrite IH; auto.
Qed.

Lemma ksubst_leaf : forall K repl i v, ksubst K repl (NLeaf i v) = NLeaf i v.
Proof. reflexivity. Qed.

Lemma leaf_of_no_attr : forall d, wf_attr d = true -> has_anchor_attr (node_info d) = false -> exists i v, d = NLeaf i v.
Proof.
  intros [i v|i kvs|i els|i els] Hwf Ha; simpl in *; eauto;
    try (apply andb_true_iff in Hwf; destruct Hwf as [Hc _]); congruence.
Qed.

(* THE WALK: recurse = the value substitution at the addressed position and the
   true aliases, then the replacement of the keys that are true aliases *)
Theorem recurse_subst : forall poid pref roid repl d,
  (exists ri rv, repl = NLeaf ri rv) ->
  wf_attr d = true -> alias_clean poid roid d = true -> mkeys_distinct d = true ->
  key_conflict roid repl d = false ->
  recurse poid pref roid repl d
  = ksubst (kdesignated roid) repl (subst (designated poid pref roid) repl d).
Proof.
  intros poid pref roid repl d [ri [rv Hrepl]]. induction d using node_ind'; intros Hwf Hcl Hkd Hnc.
  - reflexivity.
  - (* mapping *)
    simpl in Hwf. apply andb_true_iff in Hwf. destruct Hwf as [Hi Hwf].
    simpl in Hcl. apply andb_true_iff in Hcl. destruct Hcl as [Hone Hcl].
    simpl in Hkd. apply andb_true_iff in Hkd. destruct Hkd as [Hnd Hkd].
    simpl in Hnc. apply orb_false_iff in Hnc. destruct Hnc as [Hnc1 Hnc2].
    simpl.
    set (gA := fun kv : node * node =>
                 (fst kv, if is_ref roid (snd kv) then snd kv else recurse poid pref roid repl (snd kv))).
    assert (Hren : rename_keys roid repl (map gA kvs)
                   = map (fun kv => (if kdesignated roid (fst kv) then repl else fst kv, snd kv)) (map gA kvs)).
    { apply rename_keys_spec.
      - rewrite (filter_length_map _ _ _ (fun kv => N.eqb (node_oid (fst kv)) roid) gA) by reflexivity. exact Hone.
      - rewrite map_map. simpl. exact Hnd.
      - intros kv Hkv HK kv' Hkv' Hr.
        apply in_map_iff in Hkv. destruct Hkv as [kv0 [<- Hkv0]].
        apply in_map_iff in Hkv'. destruct Hkv' as [kv1 [<- Hkv1]]. simpl in *.
        pose proof (existsb_false _ _ _ Hnc1 kv0 Hkv0) as F. simpl in F.
        unfold kdesignated in HK. unfold is_ref, hattr in F. rewrite HK in F. simpl in F.
        pose proof (existsb_false _ _ _ F kv1 Hkv1) as G. simpl in G.
        unfold is_ref in Hr. rewrite Hr in G. simpl in G. exact G. }
    fold gA. rewrite Hren. rewrite !map_map. f_equal.
    apply map_ext_in_iff. intros kv Hkv.
    rewrite Forall_forall in H. destruct (H kv Hkv) as [_ IHv].
    rewrite forallb_forall in Hwf, Hcl, Hkd. specialize (Hwf kv Hkv). specialize (Hcl kv Hkv). specialize (Hkd kv Hkv).
    apply andb_true_iff in Hcl. destruct Hcl as [Hcons Hclv].
    pose proof (existsb_false _ _ _ Hnc2 kv Hkv) as Hncv. cbv beta in Hncv.
    destruct kv as [k v]. cbn [fst snd] in *. unfold gA. cbn [fst snd].
    assert (Hkey : forall k' v', key_is pref (k', v') = cref_is pref (CKey k')).
    { intros k' v'. unfold key_is, cref_is. cbn [fst]. destruct k'; reflexivity. }
    rewrite Hkey.
    unfold designated. unfold is_ref, hattr in *.
    destruct (N.eqb (node_oid v) roid) eqn:Er; cbn [andb negb] in *.
    + rewrite ?Er. cbn [andb].
      destruct (has_anchor_attr (node_info v)) eqn:Ea; cbn [orb].
      * cbn [fst snd]. subst repl. reflexivity.
      * (* the value is the matched object but no alias: its key is not renamed *)
        assert (HK : kdesignated roid k = false).
        { destruct (kdesignated roid k) eqn:EK; auto. }
        rewrite HK.
        destruct (N.eqb (oid i) poid && cref_is pref (CKey k)); cbn [fst snd]; rewrite ?HK.
        -- subst repl. reflexivity.
        -- rewrite (subst_leaf_like _ _ v) by assumption.
           destruct (leaf_of_no_attr _ Hwf Ea) as [li [lv El]]. rewrite El. reflexivity.
    + rewrite recurse_oid, Er. cbn [andb fst snd]. rewrite IHv; auto.
  - (* sequence *)
    simpl in Hwf. apply andb_true_iff in Hwf. destruct Hwf as [Hi Hwf].
    simpl in Hcl. simpl in Hkd. simpl in Hnc. simpl. f_equal.
    rewrite forallb_forall in Hwf, Hcl, Hkd. rewrite Forall_forall in H.
    assert (G : forall k, mapi_from (fun idx x =>
                  if is_ref roid x && (hattr x || (N.eqb (oid i) poid && py_eq (PInt (Z.of_nat idx)) pref))
                  then repl else recurse poid pref roid repl x) k els
                = map (ksubst (kdesignated roid) repl)
                      (imap (fun idx x => if designated poid pref roid (oid i) (CIdx idx) x then repl
                                          else subst (designated poid pref roid) repl x) k els)).
    { clear Hi. induction els as [|x r IHr]; intros k; simpl; auto.
      rewrite IHr.
      - f_equal.
        specialize (H x (or_introl eq_refl)). specialize (Hwf x (or_introl eq_refl)).
        specialize (Hcl x (or_introl eq_refl)). specialize (Hkd x (or_introl eq_refl)).
        pose proof (existsb_false _ _ _ Hnc x (or_introl eq_refl)) as Hncx.
        unfold designated, is_ref, hattr, cref_is.
        destruct (N.eqb (node_oid x) roid) eqn:Er; simpl.
        + destruct (has_anchor_attr (node_info x)) eqn:Ea; simpl; [subst repl; reflexivity|].
          destruct (N.eqb (oid i) poid && py_eq (PInt (Z.of_nat k)) pref); [subst repl; reflexivity|].
          rewrite (subst_leaf_like _ _ x) by assumption.
          destruct (leaf_of_no_attr _ Hwf Ea) as [li [lv El]]. rewrite El. reflexivity.
        + apply H; auto.
      - intros y Hy. apply H. right. exact Hy.
      - intros y Hy. apply Hwf. right. exact Hy.
      - intros y Hy. apply Hcl. right. exact Hy.
      - intros y Hy. apply Hkd. right. exact Hy.
      - simpl in Hnc. apply orb_false_iff in Hnc. tauto. }
    apply G.
  - (* set *)
    simpl in Hcl. simpl. f_equal. unfold set_update.
    rewrite find_none; auto.
Qed.

(* a failing _update_node leaves the state alone (run_actions keeps the state it had) *)
Theorem run_actions_failed_state : forall lit fl value vo acts st st' e,
  run_actions lit fl value vo acts st = SFailed st' e ->
  exists done rest a, acts = done ++ a :: rest /\
    run_actions lit fl value vo done st = SDone st' /\ apply_action lit fl value vo a st' = RErr e.
Proof.
  intros lit fl value vo acts. induction acts as [|a r IH]; intros st st' e H; simpl in H; [discriminate|].
  destruct (apply_action lit fl value vo a st) as [st1|e1] eqn:Ea.
  - destruct (IH _ _ _ H) as [dn [rest [a' [E1 [E2 E3]]]]].
    exists (a :: dn), rest, a'. subst. repeat split; auto. simpl. rewrite Ea. exact E2.
  - inversion H; subst. exists [], r, a. repeat split; auto.
Qed.

(* ---- what make_new_node builds ---- *)
Theorem make_new_node_shape : forall lit fl src value fmt fresh vo new,
  make_new_node lit fl src value fmt fresh vo = ROk new ->
  exists nn, conv lit fl fmt value = ROk nn /\
    exists i, new = NLeaf i (nn_val nn) /\
      tag i = (if nn_wrapped nn then nn_tag nn else None) /\
      (nn_wrapped nn = true ->
         oid i = fresh /\ has_anchor_attr i = true /\
         anchor i = match src with Some s => nonempty_anchor s | None => None end).
Proof.
  intros lit fl src value fmt fresh vo new H. unfold make_new_node in H.
  destruct (conv lit fl fmt value) as [nn|e] eqn:Ec; simpl in H; [|discriminate].
  exists nn. split; auto.
  destruct (match src with Some i => nonempty_anchor i | None => None end) as [a|] eqn:Ea.
  - destruct (nn_wrapped nn) eqn:Ew.
    + inversion H; subst. eexists. split; [reflexivity|]. simpl. auto.
    + destruct (nn_val nn) eqn:Ev; try discriminate. inversion H; subst.
      eexists. split; [reflexivity|]. simpl. split; auto. intros; discriminate.
  - destruct (nn_wrapped nn) eqn:Ew; inversion H; subst; eexists; (split; [reflexivity|]); simpl; split; auto.
    intros; discriminate.
Qed.

(* only the boolean conversions build a ScalarBoolean, and it is a wrapper around the integer 0 / 1 *)
Lemma conv_bool_shape : forall value nn,
  conv_bool value = ROk nn -> nn_wrapped nn = true /\ nn_sbool nn = true /\ (nn_val nn = PInt 0 \/ nn_val nn = PInt 1).
Proof.
  intros value nn H. unfold conv_bool in H.
  assert (G : forall s0, (if mem_str s0 bool_allowed
                          then ROk (mknn (PInt (if mem_str s0 bool_truthy then 1%Z else 0%Z)) true true)
                          else RErr (PyCrash ValueError)) = ROk nn ->
              nn_wrapped nn = true /\ nn_sbool nn = true /\ (nn_val nn = PInt 0 \/ nn_val nn = PInt 1)).
  { intros s0 G. destruct (mem_str s0 bool_allowed); [|discriminate].
    destruct (mem_str s0 bool_truthy); inversion G; subst; cbn [nn_val nn_wrapped nn_sbool]; auto. }
  cbv zeta in H.
  destruct value as [| b | z | q s | s | s]; try (match type of H with (if mem_str ?s1 _ then _ else _) = _ => exact (G s1 H) end).
  inversion H; subst; simpl. repeat split; auto. destruct b; auto.
Qed.

Lemma conv_str_shape : forall value nn, conv_str value = ROk nn -> nn_sbool nn = false.
Proof. intros value nn H. inversion H; reflexivity. Qed.

Lemma conv_int_shape : forall value nn, conv_int value = ROk nn -> nn_sbool nn = false.
Proof.
  intros value nn H. unfold conv_int in H.
  destruct value as [| b | z | q s | s | s]; try discriminate; try (inversion H; reflexivity).
  destruct (py_int s); [inversion H; reflexivity | discriminate].
Qed.

Lemma conv_float_shape : forall fl value nn, conv_float fl value = ROk nn -> nn_sbool nn = false.
Proof.
  intros fl value nn H. unfold conv_float in H.
  destruct value as [| b | z | q s | s | s]; try discriminate; try (inversion H; reflexivity);
    match type of H with rbind (of_outcome ?x) _ = _ => destruct x as [[v|]| |] end;
    simpl in H; try discriminate; inversion H; reflexivity.
Qed.

Lemma conv_sbool_shape : forall lit fl fmt value nn,
  conv lit fl fmt value = ROk nn -> nn_sbool nn = true ->
  nn_wrapped nn = true /\ (nn_val nn = PInt 0 \/ nn_val nn = PInt 1).
Proof.
  intros lit fl fmt value nn H Hs.
  assert (Hb : forall v, conv_bool v = ROk nn -> nn_wrapped nn = true /\ (nn_val nn = PInt 0 \/ nn_val nn = PInt 1)).
  { intros v Hv. destruct (conv_bool_shape _ _ Hv) as [A [_ B]]. auto. }
  assert (Hn : forall (P : Prop), nn_sbool nn = false -> P) by (intros; congruence).
  destruct fmt; simpl in H;
    try (apply Hn; eapply conv_str_shape; eassumption);
    try (apply Hn; eapply conv_int_shape; eassumption);
    try (apply Hn; eapply conv_float_shape; eassumption);
    try (eapply Hb; eassumption).
  unfold conv_default in H.
  destruct (of_outcome (typed_value lit value)) as [ast|e]; simpl in H; [|discriminate].
  destruct ast as [| b | z | q s | s | s].
  - inversion H; subst. discriminate.
  - eapply Hb; eassumption.
  - destruct value as [| b' | z' | q' s' | s' | s'];
      try (apply Hn; eapply conv_int_shape; eassumption).
    destruct (py_int s'); apply Hn; [eapply conv_int_shape | eapply conv_str_shape]; eassumption.
  - apply Hn; eapply conv_float_shape; eassumption.
  - apply Hn; eapply conv_str_shape; eassumption.
  - destruct (first_char_is "["%char s || first_char_is "{"%char s).
    + apply Hn; eapply conv_str_shape; eassumption.
    + inversion H; subst. discriminate.
Qed.

(* the new node is a ScalarBoolean (Doc.is_sbool) exactly when a boolean conversion built it *)
Theorem make_new_node_sbool : forall lit fl src value fmt fresh vo new nn,
  make_new_node lit fl src value fmt fresh vo = ROk new ->
  conv lit fl fmt value = ROk nn ->
  is_sbool new = nn_sbool nn.
Proof.
  intros lit fl src value fmt fresh vo new nn H Hc.
  destruct (make_new_node_shape _ _ _ _ _ _ _ _ H) as [nn' [Hc' [i [E [Ht _]]]]].
  rewrite Hc in Hc'. inversion Hc'; subst nn'. subst new.
  destruct (nn_sbool nn) eqn:Es.
  - destruct (conv_sbool_shape _ _ _ _ _ Hc Es) as [Hw Hv].
    rewrite Hw in Ht. unfold nn_tag in Ht. rewrite Es in Ht.
    simpl. destruct Hv as [-> | ->]; rewrite Ht; reflexivity.
  - unfold nn_tag in Ht. rewrite Es in Ht. destruct (nn_wrapped nn); simpl; destruct (nn_val nn); rewrite ?Ht; reflexivity.
Qed.

(* ---- one _update_node ---- *)
Theorem update_exact : forall lit fl p value fmt vo d next d' next' o pn c,
  wf_attr d = true ->
  pc_parent p = Some o -> find_obj o d = Some pn ->
  get_change pn (norm_ref pn (pc_ref p)) = ROk (Some c) ->
  alias_clean o (node_oid c) d = true -> mkeys_distinct d = true ->
  update_node lit fl p value fmt vo (d, next) = ROk (d', next') ->
  exists new, make_new_node lit fl (Some (node_info c)) value fmt next vo = ROk new /\
              d' = ksubst (kdesignated (node_oid c)) new
                     (subst (designated o (norm_ref pn (pc_ref p)) (node_oid c)) new d) /\
              next' = N.succ next.
Proof.
  intros lit fl p value fmt vo d next d' next' o pn c Hwf Hp Hf Hc Hk Hkd Hu.
  unfold update_node in Hu. rewrite Hp, Hf, Hc in Hu. simpl in Hu.
  destruct (make_new_node lit fl (Some (node_info c)) value fmt next vo) as [new|e] eqn:Em; simpl in Hu; [|discriminate].
  destruct (key_conflict (node_oid c) new d) eqn:Ek; [discriminate|].
  inversion Hu; subst. exists new. repeat split; auto.
  apply recurse_subst; auto.
  destruct (make_new_node_shape _ _ _ _ _ _ _ _ Em) as [nn [_ [i [E _]]]]. eauto.
Qed.

(* the repaired behaviour (fix 7612ed9): a key alias that would be renamed onto an
   existing key of its mapping makes _update_node refuse, whatever the document *)
Theorem update_conflict_refused : forall lit fl p value fmt vo d next o pn c new,
  pc_parent p = Some o -> find_obj o d = Some pn ->
  get_change pn (norm_ref pn (pc_ref p)) = ROk (Some c) ->
  make_new_node lit fl (Some (node_info c)) value fmt next vo = ROk new ->
  key_conflict (node_oid c) new d = true ->
  update_node lit fl p value fmt vo (d, next) = RErr (YPE DuplicateKey).
Proof.
  intros lit fl p value fmt vo d next o pn c new Hp Hf Hc Hm Hk.
  unfold update_node. rewrite Hp, Hf, Hc. simpl. rewrite Hm. simpl. rewrite Hk. reflexivity.
Qed.

(* the anchor-attribute invariant does not look at keys *)
Theorem ksubst_wf_attr : forall K repl d, wf_attr d = true -> wf_attr (ksubst K repl d) = true.
Proof.
  intros K repl d. induction d using node_ind'; intros Hd; simpl in *; auto.
  - apply andb_true_iff in Hd. destruct Hd as [Hi Hd]. rewrite Hi. simpl.
    rewrite forallb_forall in *. intros kv Hkv. apply in_map_iff in Hkv.
    destruct Hkv as [kv0 [E Hin]]. subst kv. simpl.
    rewrite Forall_forall in H. apply (proj2 (H kv0 Hin)). apply Hd; auto.
  - apply andb_true_iff in Hd. destruct Hd as [Hi Hd]. rewrite Hi. simpl.
    rewrite forallb_forall in *. intros x Hx. apply in_map_iff in Hx.
    destruct Hx as [x0 [E Hin]]. subst x. rewrite Forall_forall in H. apply (H x0 Hin). apply Hd; auto.
Qed.

(* every pair of a mapping under the key replacement: the key replaced iff it is designated, the value kept *)
Theorem ksubst_map_nth : forall K repl i kvs n k v,
  nth_error kvs n = Some (k, v) ->
  exists kvs', ksubst K repl (NMap i kvs) = NMap i kvs' /\ length kvs' = length kvs /\
    nth_error kvs' n = Some (if K k then repl else k, ksubst K repl v).
Proof.
  intros. eexists. split; [reflexivity|]. split; [apply map_length|].
  rewrite nth_error_map, H. reflexivity.
Qed.

Theorem ksubst_frame : forall K repl d, (forall k, K k = false) -> ksubst K repl d = d.
Proof.
  intros K repl d HK. induction d using node_ind'; simpl; auto.
  - f_equal. rewrite <- (map_id kvs) at 2. apply map_ext_in_iff. intros [k v] Hkv. simpl.
    rewrite HK. f_equal. rewrite Forall_forall in H. apply (proj2 (H _ Hkv)).
  - f_equal. rewrite <- (map_id els) at 2. apply map_ext_in_iff. intros x Hx.
    rewrite Forall_forall in H. apply (H _ Hx).
Qed.

(* ---- the meaning of subst, pointwise ---- *)
Lemma imap_nth : forall A B (f : nat -> A -> B) l k n x,
  nth_error l n = Some x -> nth_error (imap f k l) n = Some (f (k + n) x).
Proof.
  induction l as [|y r IH]; intros k n x H; destruct n; simpl in *; try discriminate.
  - inversion H; subst. rewrite Nat.add_0_r. reflexivity.
  - rewrite (IH (S k) n x H). f_equal. f_equal. lia.
Qed.

Lemma imap_length : forall A B (f : nat -> A -> B) l k, length (imap f k l) = length l.
Proof. induction l; intros; simpl; auto. Qed.

(* every element of a sequence: replaced iff designated, else recursively treated *)
Theorem subst_seq_nth : forall P repl i els n x,
  nth_error els n = Some x ->
  exists els', subst P repl (NSeq i els) = NSeq i els' /\ length els' = length els /\
    nth_error els' n = Some (if P (oid i) (CIdx n) x then repl else subst P repl x).
Proof.
  intros. eexists. split; [reflexivity|]. split; [apply imap_length|].
  rewrite (imap_nth _ _ _ _ 0 n x H). reflexivity.
Qed.

(* every pair of a mapping: key untouched, value replaced iff designated *)
Theorem subst_map_nth : forall P repl i kvs n k v,
  nth_error kvs n = Some (k, v) ->
  exists kvs', subst P repl (NMap i kvs) = NMap i kvs' /\ length kvs' = length kvs /\
    nth_error kvs' n = Some (k, if P (oid i) (CKey k) v then repl else subst P repl v).
Proof.
  intros. eexists. split; [reflexivity|]. split; [apply map_length|].
  rewrite nth_error_map, H. simpl. destruct (P (oid i) (CKey k) v); reflexivity.
Qed.

(* nothing designated => nothing changes *)
Theorem subst_frame : forall P repl d,
  (forall o c x, P o c x = false) -> subst P repl d = d.
Proof.
  intros P repl d HP. induction d using node_ind'; simpl; auto.
  - f_equal. rewrite <- (map_id kvs) at 2. apply map_ext_in_iff. intros [k v] Hkv. simpl.
    rewrite HP. f_equal. rewrite Forall_forall in H. apply (proj2 (H _ Hkv)).
  - f_equal. induction els as [|x r IHr]; simpl; auto.
    inversion H; subst. rewrite HP. f_equal; auto.
    clear - H3 HP. generalize 1. induction r as [|y r IH]; intros k; simpl; auto.
    inversion H3; subst. rewrite HP. f_equal; auto.
Qed.

(* the anchor-attribute invariant survives a substitution by a scalar *)
Theorem subst_wf_attr : forall P repl d,
  wf_attr d = true -> wf_attr repl = true -> wf_attr (subst P repl d) = true.
Proof.
  intros P repl d Hd Hr. induction d using node_ind'; simpl in *; auto.
  - apply andb_true_iff in Hd. destruct Hd as [Hi Hd]. rewrite Hi. simpl.
    rewrite forallb_forall in *. intros kv Hkv. apply in_map_iff in Hkv.
    destruct Hkv as [kv0 [E Hin]]. subst kv.
    rewrite Forall_forall in H.
    destruct (P (oid i) (CKey (fst kv0)) (snd kv0)); simpl; auto.
    apply (proj2 (H kv0 Hin)). apply Hd; auto.
  - apply andb_true_iff in Hd. destruct Hd as [Hi Hd]. rewrite Hi. simpl.
    clear Hi. generalize 0. induction els as [|x r IHr]; intros k; simpl; auto.
    inversion H; subst. simpl in Hd. apply andb_true_iff in Hd. destruct Hd as [Hx Hr'].
    apply andb_true_iff. split.
    + destruct (P (oid i) (CIdx k) x); auto.
    + apply IHr; auto.
Qed.
