(* C02: every handler's reported path IS the built path.

   For every real result of the required query on a path of the C01 fragment
   the whole NodeCoords -- parent, parentref, reported path, ancestry -- is
   [pb_coords d l m], the coordinates that the straight walk to the result's
   location l produces (Proofs/ResolveEval.v); in particular the reported path
   is [build_orig l].  Same induction as Proofs/EvalLocAll.v (path fuel outside,
   data inside), with the stronger invariant "the keyword arguments ARE the
   straight walk's".

   Guards (Spec/SpecC02.v): [c02_doc_ok] (keys of a mapping / members of a set
   are scalars, pairwise unequal: true of every loaded document) and
   [c02_path_plain] (no [&anchor] segment, no index counted from the end, no
   integer-looking key written differently from str(int)): witnesses of what
   is reported instead are in Properties/C02.v. *)
From Coq Require Import List Ascii String ZArith NArith Bool Arith Lia.
From YP Require Import Outcome PyStr PyVal Doc Generated PathParser PathPrinter Searches Eval SpecC01 SpecC15
  EvalSem EvalSemLib EvalSemSeg EvalSemPath EvalGood EvalHandlers EvalTotal RtInt EvalLocAll
  PathBuild ResolveEval SpecC02 PyValOrder.
Import ListNotations.
Open Scope string_scope.
Open Scope nat_scope.
Open Scope list_scope.

(* ---- documents: a pair / member is what its own key finds ---- *)
Lemma keys_uniq_head k r :
  c02_keys_uniq (k :: r) = true ->
  is_leaf k = true /\ (forall k', In k' r -> py_eq (key_val k) (key_val k') = false) /\ c02_keys_uniq r = true.
Proof.
  cbn [c02_keys_uniq]. intros H. apply andb_prop in H. destruct H as [H H3]. apply andb_prop in H. destruct H as [H1 H2].
  repeat split; try assumption. intros k' Hin. apply negb_true_iff in H2.
  destruct (py_eq (key_val k) (key_val k')) eqn:E; [|reflexivity].
  assert (X : existsb (fun k'0 => py_eq (key_val k) (key_val k'0)) r = true).
  { apply existsb_exists. exists k'. split; assumption. }
  rewrite X in H2. discriminate.
Qed.

Lemma pair_assoc_uniq : forall kvs kv,
  c02_keys_uniq (map fst kvs) = true -> In kv kvs -> assoc_key (key_val (fst kv)) kvs = Some (snd kv).
Proof.
  induction kvs as [|[k0 v0] rest IH]; intros kv Hu Hin; [contradiction|].
  cbn [map fst] in Hu. destruct (keys_uniq_head _ _ Hu) as (Hl & Hd & Hr).
  destruct k0 as [i0 x0| | |]; try discriminate Hl. cbn [assoc_key].
  destruct Hin as [<-|Hin].
  - cbn [fst snd key_val]. rewrite py_eq_refl. reflexivity.
  - assert (E : py_eq x0 (key_val (fst kv)) = false).
    { apply (Hd (fst kv)). apply in_map. exact Hin. }
    rewrite E. apply IH; assumption.
Qed.

Lemma member_find_uniq : forall els e,
  c02_keys_uniq els = true -> In e els -> find_member (key_val e) els = Some e.
Proof.
  induction els as [|e0 rest IH]; intros e Hu Hin; [contradiction|].
  destruct (keys_uniq_head _ _ Hu) as (Hl & Hd & Hr).
  destruct e0 as [i0 x0| | |]; try discriminate Hl. cbn [find_member].
  destruct Hin as [<-|Hin].
  - cbn [key_val]. rewrite py_eq_refl. reflexivity.
  - pose proof (Hd e Hin) as E. cbn [key_val] in E. rewrite E. apply IH; assumption.
Qed.

Lemma assoc_key_in : forall kvs k m, assoc_key k kvs = Some m -> exists kn, In (kn, m) kvs.
Proof.
  induction kvs as [|[kn v] rest IH]; intros k m H; [discriminate H|]. cbn [assoc_key] in H.
  destruct kn as [ik kv| | |].
  - destruct (py_eq kv k); [injection H as <-; eexists; left; reflexivity|].
    destruct (IH _ _ H) as [kn' Hin]. exists kn'. right. exact Hin.
  - destruct (IH _ _ H) as [kn' Hin]. exists kn'. right. exact Hin.
  - destruct (IH _ _ H) as [kn' Hin]. exists kn'. right. exact Hin.
  - destruct (IH _ _ H) as [kn' Hin]. exists kn'. right. exact Hin.
Qed.

Lemma find_member_leaf : forall els k m, find_member k els = Some m -> is_leaf m = true.
Proof.
  induction els as [|e rest IH]; intros k m H; [discriminate H|]. cbn [find_member] in H.
  destruct e as [i v| | |]; try (eapply IH; exact H).
  destruct (py_eq v k); [injection H as <-; reflexivity | eapply IH; exact H].
Qed.

Lemma child_doc_ok n r m : c02_doc_ok n = true -> child n r = Some m -> c02_doc_ok m = true.
Proof.
  intros Hok Hc. destruct n as [i v|i kvs|i els|i els]; destruct r as [k|j|k]; try discriminate Hc; cbn [child] in Hc.
  - cbn [c02_doc_ok] in Hok. apply andb_prop in Hok. destruct Hok as [_ Hok].
    destruct (assoc_key_in _ _ _ Hc) as [kn Hin]. rewrite forallb_forall in Hok. apply (Hok _ Hin).
  - cbn [c02_doc_ok] in Hok. rewrite forallb_forall in Hok. apply Hok. eapply nth_error_In. exact Hc.
  - apply find_member_leaf in Hc. destruct m; try discriminate Hc. reflexivity.
Qed.

(* find by the key text (set branch of _get_nodes_by_key) is Doc.find_member *)
Lemma find_find_member k : forall els e,
  find (fun x => py_eq (key_val x) (PStr k)) els = Some e ->
  find_member (PStr k) els = Some e /\ key_val e = PStr k.
Proof.
  induction els as [|x rest IH]; intros e H; [discriminate H|]. cbn [find find_member] in *.
  destruct x as [i v| | |]; cbn [key_val] in H; try (cbn in H; apply IH; exact H).
  destruct (py_eq v (PStr k)) eqn:E.
  - injection H as <-. split; [reflexivity|]. cbn [key_val].
    destruct v; cbn in E; try discriminate E. apply String.eqb_eq in E. subst. reflexivity.
  - apply IH. exact H.
Qed.

Lemma py_nth_nonneg (els : list node) (i : Z) :
  (0 <= i)%Z ->
  ((- Z.of_nat (List.length els) <=? i)%Z && (i <? Z.of_nat (List.length els))%Z)%bool = true ->
  exists e, py_nth (map RNode els) i = Ok (RNode e) /\ nth_error els (Z.to_nat i) = Some e.
Proof.
  intros H0 Hb. apply andb_prop in Hb. destruct Hb as [_ H2]. apply Z.ltb_lt in H2.
  destruct (nth_error els (Z.to_nat i)) as [e|] eqn:En.
  - exists e. split; [|reflexivity].
    destruct (ResolveEval.py_nth_nat els (Z.to_nat i) e En) as [_ Hn]. rewrite Z2Nat.id in Hn by exact H0. exact Hn.
  - apply nth_error_None in En. lia.
Qed.

(* ---- the invariant ---- *)
Definition ctx_core (c : ctx) : option rval * option pyval * string * list (rval * pyval) :=
  (x_par c, x_ref c, x_tp c, x_anc c).

(* the keyword arguments are those of the straight walk to location l, where n lives *)
Definition ctx_at (d : node) (l : loc) (n : node) (c : ctx) : Prop :=
  lookup d l = Some n /\ c02_doc_ok n = true /\ ctx_core c = ctx_core (walk_ctx root_ctx d l).

(* a result IS the straight walk's NodeCoords (av: may the stream yield virtual results) *)
Definition res_at (av : bool) (d : node) (x : rval) : Prop :=
  match x with
  | RCoords (RNode m) _ _ _ _ => exists l, lookup d l = Some m /\ c02_doc_ok m = true /\ x = pb_coords d l m
  | RCoords (RList _) _ _ _ _ => av = true
  | _ => False
  end.

Lemma ctx_at_self av d l n c :
  ctx_at d l n c -> res_at av d (ncoords (RNode n) (x_par c) (x_ref c) (x_tp c) (x_anc c)).
Proof.
  intros (Hl & Hok & Hc). exists l. split; [exact Hl|]. split; [exact Hok|].
  unfold pb_coords, coords_of, ncoords. unfold ctx_core in Hc. injection Hc as -> -> -> ->. reflexivity.
Qed.

Lemma ctx_at_step d l n c r m tl :
  ctx_at d l n c -> child n r = Some m ->
  ctx_at d (l ++ [r]) m
    (mkctx (Some (RNode n)) (Some (ref_val r)) tl (tp_add (x_tp c) (pb_ref_seg (x_tp c) r))
           (x_anc c ++ [(RNode n, ref_val r)])).
Proof.
  intros (Hl & Hok & Hc) Hch. split; [|split].
  - rewrite (lookup_app l d n r Hl). exact Hch.
  - eapply child_doc_ok; eassumption.
  - rewrite (walk_ctx_snoc l root_ctx d n r m Hl Hch). unfold ctx_core in *. injection Hc as E1 E2 E3 E4.
    unfold step_ctx. cbn [x_par x_ref x_tp x_anc]. rewrite E3, E4. reflexivity.
Qed.

(* the three kinds of step, in the spelling of the handlers *)
Lemma ctx_key d l i kvs c k m tl :
  ctx_at d l (NMap i kvs) c -> assoc_key k kvs = Some m ->
  ctx_at d (l ++ [RKey k]) m
    (mkctx (Some (RNode (NMap i kvs))) (Some k) tl (tp_add (x_tp c) (esc_sec (py_str k) (x_tp c)))
           (x_anc c ++ [(RNode (NMap i kvs), k)])).
Proof. intros Hc Hk. apply (ctx_at_step d l _ c (RKey k) m tl Hc Hk). Qed.

Lemma ctx_idx d l i els c j m tl :
  ctx_at d l (NSeq i els) c -> nth_error els j = Some m ->
  ctx_at d (l ++ [RIdx j]) m
    (mkctx (Some (RNode (NSeq i els))) (Some (PInt (Z.of_nat j))) tl (tp_add (x_tp c) (idx_text (Z.of_nat j)))
           (x_anc c ++ [(RNode (NSeq i els), PInt (Z.of_nat j))])).
Proof. intros Hc Hk. apply (ctx_at_step d l _ c (RIdx j) m tl Hc Hk). Qed.

Lemma ctx_member d l i els c k m tl :
  ctx_at d l (NSet i els) c -> find_member k els = Some m ->
  ctx_at d (l ++ [RMember k]) m
    (mkctx (Some (RNode (NSet i els))) (Some k) tl (tp_add (x_tp c) (esc_sec (py_str k) (x_tp c)))
           (x_anc c ++ [(RNode (NSet i els), k)])).
Proof. intros Hc Hk. apply (ctx_at_step d l _ c (RMember k) m tl Hc Hk). Qed.

Lemma res_key av d l i kvs c k m :
  ctx_at d l (NMap i kvs) c -> assoc_key k kvs = Some m ->
  res_at av d (ncoords (RNode m) (Some (RNode (NMap i kvs))) (Some k) (tp_add (x_tp c) (esc_sec (py_str k) (x_tp c)))
                       (x_anc c ++ [(RNode (NMap i kvs), k)])).
Proof. intros Hc Hk. apply (ctx_at_self av d _ m _ (ctx_key d l i kvs c k m true Hc Hk)). Qed.

Lemma res_idx av d l i els c j m :
  ctx_at d l (NSeq i els) c -> nth_error els j = Some m ->
  res_at av d (ncoords (RNode m) (Some (RNode (NSeq i els))) (Some (PInt (Z.of_nat j)))
                       (tp_add (x_tp c) (idx_text (Z.of_nat j))) (x_anc c ++ [(RNode (NSeq i els), PInt (Z.of_nat j))])).
Proof. intros Hc Hk. apply (ctx_at_self av d _ m _ (ctx_idx d l i els c j m true Hc Hk)). Qed.

Lemma res_member av d l i els c k m :
  ctx_at d l (NSet i els) c -> find_member k els = Some m ->
  res_at av d (ncoords (RNode m) (Some (RNode (NSet i els))) (Some k) (tp_add (x_tp c) (esc_sec (py_str k) (x_tp c)))
                       (x_anc c ++ [(RNode (NSet i els), k)])).
Proof. intros Hc Hk. apply (ctx_at_self av d _ m _ (ctx_member d l i els c k m true Hc Hk)). Qed.

(* a pair of the mapping / a member of the set, as the loops of the handlers meet them *)
Lemma ctx_at_map_ok d l i kvs c : ctx_at d l (NMap i kvs) c -> c02_keys_uniq (map fst kvs) = true.
Proof. intros (_ & Hok & _). cbn [c02_doc_ok] in Hok. apply andb_prop in Hok. apply Hok. Qed.
Lemma ctx_at_set_ok d l i els c : ctx_at d l (NSet i els) c -> c02_keys_uniq els = true.
Proof. intros (_ & Hok & _). exact Hok. Qed.

Lemma res_pair av d l i kvs c kv :
  ctx_at d l (NMap i kvs) c -> In kv kvs ->
  res_at av d (ncoords (RNode (snd kv)) (Some (RNode (NMap i kvs))) (Some (key_val (fst kv)))
                       (tp_add (x_tp c) (esc_sec (py_str (key_val (fst kv))) (x_tp c)))
                       (x_anc c ++ [(RNode (NMap i kvs), key_val (fst kv))])).
Proof. intros Hc Hin. eapply res_key; [exact Hc|]. apply pair_assoc_uniq; [eapply ctx_at_map_ok; exact Hc | exact Hin]. Qed.

Lemma res_elem av d l i els c e :
  ctx_at d l (NSet i els) c -> In e els ->
  res_at av d (ncoords (RNode e) (Some (RNode (NSet i els))) (Some (key_val e))
                       (tp_add (x_tp c) (esc_sec (py_str (key_val e)) (x_tp c)))
                       (x_anc c ++ [(RNode (NSet i els), key_val e)])).
Proof. intros Hc Hin. eapply res_member; [exact Hc|]. apply member_find_uniq; [eapply ctx_at_set_ok; exact Hc | exact Hin]. Qed.

Lemma enum_nth (i : info) (els : list node) j x : In (j, x) (enumerate (map RNode els)) ->
  exists e, x = RNode e /\ nth_error els j = Some e.
Proof.
  intros H. destruct (in_enum_nth els 0 j x H) as [e [H1 [H2 _]]]. rewrite Nat.sub_0_r in H2. exists e. auto.
Qed.

Section At.
Variable lit : string -> outcome litres.
Variable re_search : string -> string -> outcome reres.
Variable nstr : node -> string.
Variable vstr : list rval -> string.
Variable kw_handler : bool -> keyword -> string -> rval -> ctx -> gen rval.
Variable creator : list pseg -> nat -> rval -> ctx -> gen rval.
Variable d : node.
Variable av : bool.

Notation RA := (res_at av d).

Ltac gstep :=
  match goal with
  | |- gall _ gnil => apply gall_gnil
  | |- gall _ (gerr _) => apply gall_gerr
  | |- gall _ (gfor _ _) => apply gall_gfor; intros
  | |- gall _ (gapp _ _) => apply gall_gapp
  | |- gall _ (glift _ _) => apply gall_glift; intros
  | |- gall _ (gfirst _ _) => apply gall_gfirst; intros
  | |- gall _ (if ?b then _ else _) => destruct b eqn:?
  | |- gall _ (match ?x with _ => _ end) => destruct x eqn:?
  | |- gall _ (let '(_, _) := ?x in _) => destruct x eqn:?
  end.

Ltac enum_tac i els :=
  match goal with
  | H : In (_, _) (enumerate (map RNode els)) |- _ =>
      let e := fresh "e" in let He := fresh "He" in let Hn := fresh "Hn" in
      destruct (enum_nth i els _ _ H) as [e [He Hn]]; subst
  end.

Lemma by_key_at self k n c l :
  ctx_at d l n c -> c02_seg_plain (Some TKey, AStr k) = true ->
  (forall e c' l', ctx_at d l' e c' -> gall RA (self (RNode e) c')) ->
  gall RA (by_key self (AStr k) (RNode n) c).
Proof.
  intros Hc Hpl Hself. unfold by_key. cbn [attrs_str attr_val]. cbn [c02_seg_plain] in Hpl.
  destruct n as [i x|i kvs|i els|i els].
  - apply gall_gnil.
  - destruct (assoc_key (PStr k) kvs) eqn:E1.
    + apply gall_gone. apply (res_key av d l i kvs c (PStr k) n Hc E1).
    + destruct (py_int k) as [z|]; [|apply gall_gnil].
      destruct (assoc_key (PInt z) kvs) eqn:E2; [|apply gall_gnil].
      apply andb_prop in Hpl. destruct Hpl as [_ Hk]. apply String.eqb_eq in Hk. rewrite Hk.
      apply gall_gone. apply (res_key av d l i kvs c (PInt z) n Hc E2).
  - cbn [elems]. rewrite map_length.
    destruct (py_int k) as [idx|].
    + apply andb_prop in Hpl. destruct Hpl as [H0 _]. apply Z.leb_le in H0.
      destruct ((- Z.of_nat (List.length els) <=? idx)%Z && (idx <? Z.of_nat (List.length els))%Z)%bool eqn:Eb;
        [|apply gall_gnil].
      destruct (py_nth_nonneg els idx H0 Eb) as [e [-> Hn]]. cbn [glift]. apply gall_gone.
      rewrite <- (Z2Nat.id idx H0). apply (res_idx av d l i els c _ e Hc Hn).
    + destruct (negb (x_tl c)); [apply gall_gnil|].
      apply gall_gfor. intros [j x] Hin. enum_tac i els.
      apply (Hself e _ (l ++ [RIdx j])%list). apply (ctx_idx d l i els c j e _ Hc Hn).
  - destruct (find _ els) eqn:Ef; [|apply gall_gnil].
    destruct (find_find_member k els n Ef) as [Hf Hk]. rewrite Hk. cbn [py_str].
    apply gall_gone. apply (res_member av d l i els c (PStr k) n Hc Hf).
Qed.

Lemma by_index_at a n c l :
  (str_in ":"%char (attrs_str a) = true -> av = true) ->
  c02_seg_plain (Some TIndex, a) = true ->
  (match a with AInt _ => True | AStr s => str_in ":"%char s = true | _ => False end) ->
  ctx_at d l n c -> gall RA (by_index a (RNode n) c).
Proof.
  intros Hav Hpl Hsh Hc. unfold by_index.
  destruct (str_in ":"%char (attrs_str a)) eqn:Ecolon.
  - destruct (split_colon (attrs_str a)) as [lo hi].
    destruct n as [i x|i kvs|i els|i els].
    + apply gall_gnil.
    + apply gall_gfor. intros kv Hkv. destruct (_ && _); [|apply gall_gnil].
      apply gall_gone. apply (res_pair av d l i kvs c kv Hc Hkv).
    + cbn [elems]. repeat gstep; apply gall_gone; apply Hav; reflexivity.
    + apply gall_gfor. intros e He. destruct (_ && _); [|apply gall_gnil].
      apply gall_gone. apply (res_elem av d l i els c e Hc He).
  - destruct a as [s|z| | | |]; try contradiction.
    { cbn [attrs_str] in Ecolon. rewrite Hsh in Ecolon. discriminate. }
    cbn [attrs_str]. rewrite py_int_str_of_Z.
    cbn [c02_seg_plain] in Hpl. apply Z.leb_le in Hpl.
    destruct n as [i x|i kvs|i els|i els]; cbn [is_pylist]; try apply gall_gnil; try apply gall_gerr.
    cbn [elems]. rewrite map_length.
    destruct ((- Z.of_nat (List.length els) <=? z)%Z && (z <? Z.of_nat (List.length els))%Z)%bool eqn:Eb;
      [|apply gall_gnil].
    destruct (py_nth_nonneg els z Hpl Eb) as [e [-> Hn]]. cbn [glift]. apply gall_gone.
    rewrite <- (Z2Nat.id z Hpl). apply (res_idx av d l i els c _ e Hc Hn).
Qed.

Lemma match_all_unfiltered_at n c l : ctx_at d l n c -> gall RA (match_all_unfiltered (RNode n) c).
Proof.
  intros Hc. unfold match_all_unfiltered.
  destruct n as [i x|i kvs|i els|i els].
  - apply gall_gnil.
  - apply gall_gfor. intros kv Hkv. apply gall_gone. apply (res_pair av d l i kvs c kv Hc Hkv).
  - cbn [elems]. apply gall_gfor. intros [j x] Hin. enum_tac i els. apply gall_gone.
    apply (res_idx av d l i els c j e Hc Hn).
  - apply gall_gfor. intros e He. apply gall_gone. apply (res_elem av d l i els c e Hc He).
Qed.

Lemma match_all_filtered_at sg n c l : ctx_at d l n c -> gall RA (match_all_filtered sg (RNode n) c).
Proof.
  intros Hc. unfold match_all_filtered.
  destruct n as [i x|i kvs|i els|i els].
  - apply gall_gnil.
  - apply gall_gfor. intros kv Hkv. apply gall_gfirst. intros [o|]; [|apply gall_gnil].
    apply gall_gone. apply (res_pair av d l i kvs c kv Hc Hkv).
  - cbn [elems]. apply gall_gfor. intros [j x] Hin. enum_tac i els.
    apply gall_gfirst. intros [o|]; [|apply gall_gnil]. apply gall_gone. apply (res_idx av d l i els c j e Hc Hn).
  - apply gall_gfor. intros e He. apply gall_gfirst. intros [o|]; [|apply gall_gnil].
    apply gall_gone. apply (res_elem av d l i els c e Hc He).
Qed.

Lemma hash_desc_scan_at m term inv items st matches k :
  (forall b, gall RA (k b)) -> gall RA (hash_desc_scan lit re_search nstr vstr m term inv items st matches k).
Proof.
  intros Hk. revert matches. induction items as [|x r IH]; intros matches; cbn.
  - destruct st; auto; constructor.
  - repeat gstep; auto.
Qed.

Lemma by_search_at rq inv m attr term n c l :
  ctx_at d l n c -> gall RA (by_search lit re_search nstr vstr rq inv m attr term (RNode n) c).
Proof.
  intros Hc. unfold by_search.
  assert (Hself : gall RA (gone (ncoords (RNode n) (x_par c) (x_ref c) (x_tp c) (x_anc c)))).
  { apply gall_gone. apply (ctx_at_self av d l n c Hc). }
  destruct n as [i x|i kvs|i els|i els].
  - repeat gstep; auto.
  - destruct (String.eqb attr ".").
    + apply gall_gfor. intros kv Hkv. repeat gstep.
      apply gall_gone. apply (res_pair av d l i kvs c kv Hc Hkv).
    + destruct (assoc_key (PStr attr) kvs) eqn:E1.
      * repeat gstep. apply gall_gone. apply (res_key av d l i kvs c (PStr attr) n Hc E1).
      * apply hash_desc_scan_at. intros b. repeat gstep; auto.
  - destruct (negb (x_tl c)); [apply gall_gnil|]. cbn [elems].
    apply gall_gfor. intros [j x] Hin. enum_tac i els.
    repeat gstep; apply gall_gone; apply (res_idx av d l i els c j e Hc Hn).
  - apply gall_gfor. intros e He. repeat gstep.
    apply gall_gone. apply (res_elem av d l i els c e Hc He).
Qed.

Lemma trav_at sg last : forall tf n c l, ctx_at d l n c -> gall RA (trav tf last sg (RNode n) c).
Proof.
  induction tf as [|tf IH]; intros n c l Hc; [apply gall_gnil|].
  cbn [trav].
  assert (Hkids : gall RA
    (match n with
     | NMap _ kvs =>
         gfor kvs (fun kv => trav tf last sg (RNode (snd kv))
                               (mkctx (Some (RNode n)) (Some (key_val (fst kv))) (x_tl c)
                                      (tp_add (x_tp c) (esc_sec (py_str (key_val (fst kv))) (x_tp c)))
                                      (x_anc c ++ [(RNode n, key_val (fst kv))])))
     | NSeq _ els =>
         gfor (enumerate (map RNode els))
           (fun ie => let '(i, e) := ie in
                      trav tf last sg e (mkctx (Some (RNode n)) (Some (PInt (Z.of_nat i))) (x_tl c)
                                               (tp_add (x_tp c) (idx_text (Z.of_nat i)))
                                               (x_anc c ++ [(RNode n, PInt (Z.of_nat i))])))
     | _ => gnil
     end)).
  { destruct n as [i x|i kvs|i els|i els]; try apply gall_gnil.
    - apply gall_gfor. intros kv Hkv. apply (IH _ _ (l ++ [RKey (key_val (fst kv))])%list).
      apply (ctx_key d l i kvs c _ (snd kv) _ Hc).
      apply pair_assoc_uniq; [eapply ctx_at_map_ok; exact Hc | exact Hkv].
    - apply gall_gfor. intros [j x] Hin. enum_tac i els. apply (IH _ _ (l ++ [RIdx j])%list).
      apply (ctx_idx d l i els c j e _ Hc Hn). }
  destruct last.
  - destruct n as [i x|i kvs|i els|i els].
    + apply gall_gone. apply (ctx_at_self av d l _ c Hc).
    + exact Hkids.
    + exact Hkids.
    + apply gall_gfor. intros e He. apply gall_gone. apply (res_elem av d l i els c e Hc He).
  - apply gall_gapp.
    + apply gall_gfirst. intros [o|]; [apply gall_gone; apply (ctx_at_self av d l _ c Hc) | apply gall_gnil].
    + destruct n as [i x|i kvs|i els|i els]; try apply gall_gnil; exact Hkids.
Qed.

End At.

(* ---- the drivers ---- *)
Section AtPath.
Variable lit : string -> outcome litres.
Variable re_search : string -> string -> outcome reres.
Variable nstr : node -> string.
Variable vstr : list rval -> string.
Variable kw_handler : bool -> keyword -> string -> rval -> ctx -> gen rval.
Variable creator : list pseg -> nat -> rval -> ctx -> gen rval.
Variable d : node.

Notation EV := (ev lit re_search nstr vstr kw_handler creator).

Lemma walk_at sg rq segs i ps :
  nth_error segs i = Some ps ->
  c01_seg (seg_es ps) (seg_us ps) = true ->
  c02_seg_plain (seg_es ps) = true ->
  ((0 <? i) && is_ty TTraverse (fst (seg_es ps)) && is_ty TTraverse (seg_type_at segs (i - 1))) = false ->
  forall vf n c l, ctx_at d l n c ->
  gall (res_at (is_slice ps) d) (walk lit re_search nstr vstr kw_handler sg rq segs i vf (RNode n) c).
Proof.
  intros En Hok Hpl Hrec. induction vf as [|vf IH]; intros n c l Hc; [apply gall_gnil|].
  rewrite (walk_node lit re_search nstr vstr kw_handler _ _ _ _ _ _ _ _ En Hok Hrec).
  pose proof Hok as Hok'. unfold c01_seg in Hok'. apply andb_prop in Hok'. destruct Hok' as [Hty _].
  unfold is_slice in *.
  destruct (seg_es ps) as [[[]|] a]; try discriminate.
  - (* index / slice *)
    apply (by_index_at d _ a n c l); [| exact Hpl | | exact Hc].
    + destruct a; try discriminate; [reflexivity|].
      cbn [attrs_str]. rewrite (proj2 (str_of_Z_chars z)). discriminate.
    + destruct a; try discriminate; [exact Hty | exact I].
  - destruct a; try discriminate. apply (by_key_at d _ _ s n c l Hc Hpl). intros e c' l' He. apply (IH e c' l' He).
  - destruct a; try discriminate. apply (by_search_at lit re_search nstr vstr d _ _ _ _ _ _ n c l Hc).
  - apply (trav_at d _ _ _ _ n c l Hc).
  - destruct (S i <? List.length segs);
      [apply (match_all_filtered_at d _ _ n c l Hc) | apply (match_all_unfiltered_at d _ n c l Hc)].
Qed.

Lemma plain_nth segs : forall i ps, c02_path_plain segs = true -> nth_error segs i = Some ps ->
  c02_seg_plain (seg_es ps) = true.
Proof.
  intros i ps H Hn. unfold c02_path_plain in H. rewrite forallb_forall in H. apply H. eapply nth_error_In. exact Hn.
Qed.

Lemma res_at_ctx m par rf path anc :
  res_at true d (RCoords (RNode m) par rf path anc) ->
  exists l, ctx_at d l m (mkctx par rf true path anc).
Proof.
  intros (l & Hl & Hok & E). exists l. split; [exact Hl|]. split; [exact Hok|].
  unfold pb_coords, coords_of in E. injection E as -> -> -> ->. reflexivity.
Qed.

Theorem ev_at : forall pf segs i n c l,
  c01_segs c01_frag segs = true -> no_double_trav segs = true -> slices_last (skipn i segs) = true ->
  c02_path_plain segs = true ->
  ctx_at d l n c -> gall (res_at true d) (EV pf MReq segs i (RNode n) c).
Proof.
  induction pf as [|pf IH]; intros segs i n c l Hfr Hnd Hsl Hpl Hc; [apply gall_gnil|].
  rewrite ev_req_unfold.
  destruct (nth_error segs i) as [ps|] eqn:En.
  2: { rewrite (nth_none_ltb _ _ En). apply gall_gone. apply (ctx_at_self true d l n c Hc). }
  rewrite (nth_some_ltb _ _ _ En).
  destruct (c01_nth _ _ _ Hfr En) as [Hok _].
  pose proof (no_double_nth _ _ _ Hnd En) as Hrec.
  pose proof (plain_nth _ _ _ Hpl En) as Hp1.
  rewrite (skipn_nth_cons _ _ _ En) in Hsl.
  apply (gall_gbind (res_at (is_slice ps) d)).
  - unfold WALK. apply (walk_at _ _ segs i ps En Hok Hp1 Hrec _ n _ l).
    destruct Hc as (H1 & H2 & H3). split; [exact H1|]. split; [exact H2 | exact H3].
  - intros x Hx. unfold KREQ.
    destruct x as [m|lx|nd par rf path anc]; try contradiction.
    destruct nd as [m|lx|]; try contradiction; cbn [is_pylist].
    + assert (Hx' : res_at true d (RCoords (RNode m) par rf path anc)) by exact Hx.
      destruct (res_at_ctx _ _ _ _ _ Hx') as [l' Hc'].
      apply (IH segs (S i) m _ l'); auto.
      cbn [slices_last] in Hsl. destruct (skipn (S i) segs) eqn:Es; [reflexivity|].
      apply andb_prop in Hsl. apply Hsl.
    + cbn [res_at] in Hx. cbn [slices_last] in Hsl.
      destruct (skipn (S i) segs) eqn:Es.
      * destruct pf as [|pf']; [apply gall_gnil|]. rewrite ev_req_unfold, has_next_last, Es. cbn [negb].
        apply gall_gone. reflexivity.
      * rewrite Hx in Hsl. discriminate.
Qed.

Lemma root_ctx_at : c02_doc_ok d = true -> ctx_at d [] d root_ctx.
Proof. intros H. split; [reflexivity|]. split; [exact H | reflexivity]. Qed.

(* Processor.get_nodes(path, mustexist=True): every real result is the straight walk's NodeCoords *)
Theorem required_at p segs :
  c02_doc_ok d = true ->
  p = PPath segs -> c01_frag p = true -> slices_last segs = true -> c02_path_plain segs = true ->
  Forall (res_at true d) (fst (get_required lit re_search nstr vstr kw_handler creator p d)).
Proof.
  intros Hd -> Hfr Hsl Hpl. rewrite c01_frag_ppath in Hfr. apply andb_prop in Hfr. destruct Hfr as [Hnd Hfr].
  assert (H : gall (res_at true d) (EV (fuel_for (PPath segs)) MReq segs 0 (RNode d) root_ctx)).
  { apply (ev_at _ segs 0 d root_ctx []); auto. apply root_ctx_at. exact Hd. }
  unfold get_required. unfold gall in H.
  destruct (EV (fuel_for (PPath segs)) MReq segs 0 (RNode d) root_ctx) as [l s].
  assert (G : Forall (res_at true d) (fst (match (l, s) with ([], Done) => gerr (YPE Unmatched) | g => g end))).
  { destruct l as [|x l']; [destruct s; constructor | destruct s; exact H]. }
  destruct d as [i v|i kvs|i els|i els]; try exact G. destruct v; try exact G. constructor.
Qed.

End AtPath.

(* ---- the location, read off the ancestry ---- *)
Fixpoint walk_anc (cur : node) (l : loc) : list (rval * pyval) :=
  match l with
  | [] => []
  | r :: rest => (RNode cur, ref_val r) :: match child cur r with Some ch => walk_anc ch rest | None => [] end
  end.

Lemma walk_ctx_anc : forall l c cur n, lookup cur l = Some n -> x_anc (walk_ctx c cur l) = (x_anc c ++ walk_anc cur l)%list.
Proof.
  induction l as [|r rest IH]; intros c cur n H; cbn [walk_ctx walk_anc lookup] in *; [rewrite app_nil_r; reflexivity|].
  destruct (child cur r) as [ch|] eqn:Ec; [|discriminate H].
  rewrite (IH _ ch n H). cbn [step_ctx x_anc]. rewrite <- app_assoc. reflexivity.
Qed.

Lemma wanc_loc : forall l cur n, lookup cur l = Some n -> anc_loc (walk_anc cur l) = l.
Proof.
  induction l as [|r rest IH]; intros cur n H; [reflexivity|]. cbn [lookup walk_anc] in *.
  destruct (child cur r) as [ch|] eqn:Ec; [|discriminate H].
  unfold anc_loc in *. cbn [map]. rewrite (IH ch n H). f_equal.
  destruct cur as [i v|i kvs|i els|i els]; destruct r as [k|j|k]; try discriminate Ec; cbn [anc_ref ref_val].
  - reflexivity.
  - replace (Z.of_nat j <? 0)%Z with false by (symmetry; apply Z.ltb_ge; lia). rewrite Nat2Z.id. reflexivity.
  - reflexivity.
Qed.

Lemma pb_coords_anc d l m par rf path anc :
  lookup d l = Some m -> RCoords (RNode m) par rf path anc = pb_coords d l m -> anc_loc anc = l /\ path = build_orig l.
Proof.
  intros Hl E. unfold pb_coords, coords_of in E. injection E as -> -> -> ->. split.
  - rewrite (walk_ctx_anc l root_ctx d m Hl). cbn [root_ctx x_anc app]. apply (wanc_loc l d m Hl).
  - rewrite (walk_ctx_tp l root_ctx d m Hl). reflexivity.
Qed.

Section AtStatements.
Variable lit : string -> outcome litres.
Variable re_search : string -> string -> outcome reres.
Variable nstr : node -> string.
Variable vstr : list rval -> string.
Variable kw_handler : bool -> keyword -> string -> rval -> ctx -> gen rval.
Variable creator : list pseg -> nat -> rval -> ctx -> gen rval.
Notation GR := (get_required lit re_search nstr vstr kw_handler creator).

(* every handler's reported path IS the built path, and the rest of the
   NodeCoords is the straight walk's as well *)
Theorem reported_path_is_built segs d m par rf path anc :
  c02_doc_ok d = true ->
  c01_frag (PPath segs) = true -> slices_last segs = true -> c02_path_plain segs = true ->
  In (RCoords (RNode m) par rf path anc) (fst (GR (PPath segs) d)) ->
  lookup d (anc_loc anc) = Some m
  /\ path = build_orig (anc_loc anc)
  /\ RCoords (RNode m) par rf path anc = pb_coords d (anc_loc anc) m.
Proof.
  intros Hd Hfr Hsl Hpl Hin.
  pose proof (required_at lit re_search nstr vstr kw_handler creator d _ segs Hd eq_refl Hfr Hsl Hpl) as H.
  rewrite Forall_forall in H. specialize (H _ Hin). cbn [res_at] in H. destruct H as (l & Hl & _ & E).
  destruct (pb_coords_anc d l m par rf path anc Hl E) as [Ea Ep]. rewrite Ea. auto.
Qed.

End AtStatements.
