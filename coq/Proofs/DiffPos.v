(* Positional comparison: every entry is truthful, SAME entries compare equal
   and CHANGE entries unequal under Differ._same_data, the diff is total (fuel
   suffices, nothing raises), for all document pairs. *)
From Coq Require Import List Ascii String ZArith NArith Bool Arith Lia Permutation.
From YP Require Import Outcome PyStr PyVal Doc Diff C06Spec DiffBase.
Import ListNotations.
Open Scope nat_scope.

(* the configuration selects positional comparison at every list *)
Definition positional (cfg : dcfg) : Prop :=
  (forall nc, array_diff_mode cfg nc = Ok ArrPosition) /\
  (forall nc, aoh_diff_mode cfg nc = Ok AohPosition \/ aoh_diff_mode cfg nc = Ok AohDpos).

Section Pos.
  Variable path_eq : string -> string -> outcome bool.
  Variable cfg : dcfg.
  Hypothesis Hpos : positional cfg.
  Variables L R : node.
  Hypothesis HwfL : wf_doc L = true.
  Hypothesis HwfR : wf_doc R = true.

  Definition good (e : entry) : Prop :=
    truthful L R e /\
    (e_action e = ASame -> val_eq (e_lhs e) (e_rhs e) = true) /\
    (e_action e = AChange -> val_eq (e_lhs e) (e_rhs e) = false).

  Definition rec_good (rec : rec_t) : Prop :=
    forall path q l r par pref a a',
      lookup L q = Some l -> lookup R q = Some r ->
      rec path q l r par pref a = Ok a' -> Forall good a -> Forall good a'.

  Lemma good_del : forall path q l ref c,
    lookup L q = Some l -> child l ref = Some c -> good (del_entry path (q ++ [ref]) c).
  Proof.
    intros. unfold good, truthful, del_entry; simpl. repeat split; try discriminate.
    intros _. rewrite (lookup_snoc _ _ _ _ H). exact H0.
  Qed.

  Lemma good_add : forall path q r ref c,
    lookup R q = Some r -> child r ref = Some c -> good (add_entry path (q ++ [ref]) c).
  Proof.
    intros. unfold good, truthful, add_entry; simpl. repeat split; try discriminate.
    intros _. rewrite (lookup_snoc _ _ _ _ H). exact H0.
  Qed.

  Lemma good_cmp : forall path q l r,
    lookup L q = Some l -> lookup R q = Some r -> good (cmp_entry path q l r).
  Proof.
    intros. unfold good, truthful, cmp_entry; simpl.
    destruct (val_eq l r) eqn:E; simpl; repeat split; auto; discriminate.
  Qed.

  Lemma Forall_rev_map_app {A} (f : A -> entry) (P : entry -> Prop) : forall l a,
    (forall x, In x l -> P (f x)) -> Forall P a -> Forall P (rev (map f l) ++ a).
  Proof.
    intros l a Hf Ha. apply Forall_forall. intros e He.
    apply in_app_or in He. destruct He as [He|He].
    - apply in_rev in He. apply in_map_iff in He. destruct He as [x [<- Hx]]. auto.
    - rewrite Forall_forall in Ha; auto.
  Qed.

  Lemma purge_good : forall path q l root a,
    lookup L q = Some l -> Forall good a -> Forall good (purge path q l root a).
  Proof.
    intros path q l root a Hl Ha.
    pose proof (wf_lookup _ _ _ HwfL Hl) as Hwf.
    destruct l as [i v|i kvs|i els|i els]; simpl.
    - destruct v, root; simpl; auto; constructor; auto;
        unfold good, truthful, del_entry; simpl; repeat split; try discriminate; auto.
    - destruct (wf_map_inv _ _ Hwf) as [H1 [H2 _]].
      apply Forall_rev_map_app; auto. intros [k w] Hin. simpl.
      eapply good_del; eauto. simpl. apply assoc_key_in; auto.
    - apply Forall_rev_map_app; auto. intros [n x] Hin. simpl.
      eapply good_del; eauto. simpl. apply enumerate_nth; auto.
    - destruct (wf_set_inv _ _ Hwf) as [H1 H2].
      apply Forall_rev_map_app; auto. intros m Hin.
      eapply good_del; eauto. simpl. apply find_member_in; auto.
  Qed.

  Lemma add_everything_good : forall path q r root a,
    lookup R q = Some r -> Forall good a -> Forall good (add_everything path q r root a).
  Proof.
    intros path q r root a Hr Ha.
    pose proof (wf_lookup _ _ _ HwfR Hr) as Hwf.
    destruct r as [i v|i kvs|i els|i els]; simpl.
    - destruct v, root; simpl; auto; constructor; auto;
        unfold good, truthful, add_entry; simpl; repeat split; try discriminate; auto.
    - destruct (wf_map_inv _ _ Hwf) as [H1 [H2 _]].
      apply Forall_rev_map_app; auto. intros [k w] Hin. simpl.
      eapply good_add; eauto. simpl. apply assoc_key_in; auto.
    - apply Forall_rev_map_app; auto. intros [n x] Hin. simpl.
      eapply good_add; eauto. simpl. apply enumerate_nth; auto.
    - destruct (wf_set_inv _ _ Hwf) as [H1 H2].
      apply Forall_rev_map_app; auto. intros m Hin.
      eapply good_add; eauto. simpl. apply find_member_in; auto.
  Qed.

  Lemma clash_good : forall path q l r root a a',
    lookup L q = Some l -> lookup R q = Some r -> val_eq l r = false -> Forall good a ->
    (let a1 := add_everything path q r root (purge path q l root a) in
     if Nat.eqb (List.length a1) (List.length a)
     then Ok (mkentry AChange path q l r :: a1) else Ok a1) = Ok a' ->
    Forall good a'.
  Proof.
    intros path q l r root a a' Hl Hr Hne Ha H. simpl in H.
    assert (G : Forall good (add_everything path q r root (purge path q l root a))).
    { apply add_everything_good; auto. apply purge_good; auto. }
    destruct (Nat.eqb _ _); inversion H; subst; auto.
    constructor; auto. unfold good, truthful; simpl. repeat split; auto; discriminate.
  Qed.

  (* ---- mappings ---- *)
  Lemma dicts_good : forall rec path q i lkvs j rkvs a a',
    rec_good rec ->
    lookup L q = Some (NMap i lkvs) -> lookup R q = Some (NMap j rkvs) ->
    diff_dicts rec path q (NMap i lkvs) (NMap j rkvs) lkvs rkvs a = Ok a' ->
    Forall good a -> Forall good a'.
  Proof.
    intros rec path q i lkvs j rkvs a a' Hrec Hl Hr H Ha.
    pose proof (wf_lookup _ _ _ HwfL Hl) as HwL.
    pose proof (wf_lookup _ _ _ HwfR Hr) as HwR.
    destruct (wf_map_inv _ _ HwL) as [Lp [Ln _]].
    destruct (wf_map_inv _ _ HwR) as [Rp [Rn _]].
    unfold diff_dicts in H.
    destruct (negb _).
    - inversion H; subst. constructor; [|constructor; auto].
      + unfold good, truthful, add_entry; simpl. repeat split; auto; discriminate.
      + unfold good, truthful, del_entry; simpl. repeat split; auto; discriminate.
    - match type of H with (bind ?F _ = _) => destruct F as [acc1| |] eqn:EF end; simpl in H; try discriminate.
      inversion H; subst; clear H.
      assert (G1 : Forall good acc1).
      { eapply (foldM_inv _ (Forall good)); [ | exact EF | exact Ha].
        intros b [k rv] b' Hin Hf Hb. simpl in Hf.
        destruct (map_get k lkvs) as [lv|] eqn:Eg; [|inversion Hf; subst; auto].
        destruct (map_has k rkvs); [|inversion Hf; subst; auto].
        assert (Hk : plain_leaf k = true).
        { rewrite forallb_forall in Rp. apply (Rp (k, rv) Hin). }
        eapply Hrec; [ | | exact Hf | exact Hb].
        - rewrite (lookup_snoc _ _ _ _ Hl). simpl. rewrite <- map_get_assoc; auto.
        - rewrite (lookup_snoc _ _ _ _ Hr). simpl. apply assoc_key_in; auto. }
      apply Forall_rev_map_app.
      { intros [k v] Hin. apply filter_In in Hin. destruct Hin as [Hin _]. simpl.
        eapply good_add; eauto. simpl. apply assoc_key_in; auto. }
      apply Forall_rev_map_app; auto.
      intros [k v] Hin. apply filter_In in Hin. destruct Hin as [Hin _]. simpl.
      eapply good_del; eauto. simpl. apply assoc_key_in; auto.
  Qed.

  (* ---- sets ---- *)
  Lemma set_find_member : forall els k,
    forallb plain_leaf els = true -> plain_leaf k = true -> set_has k els = true ->
    find_member (key_val k) els = Some (set_find k els).
  Proof.
    unfold set_has, set_find.
    induction els as [|x r IH]; simpl; intros k Hp Hk Hh; [discriminate|].
    apply andb_true_iff in Hp; destruct Hp as [Hx Hr].
    rewrite (node_eq_plain _ _ Hx Hk) in *.
    destruct (plain_leaf_inv _ Hx) as [i [v [-> Hi]]]. simpl in *.
    destruct (py_eq v (key_val k)); auto.
  Qed.

  Lemma set_has_self : forall els k,
    forallb plain_leaf els = true -> In k els -> set_has k els = true.
  Proof.
    intros els k Hp Hin. unfold set_has. apply existsb_exists. exists k. split; auto.
    rewrite forallb_forall in Hp. rewrite node_eq_plain; auto. apply py_eq_refl.
  Qed.

  Lemma sets_good : forall rec path q i lels j rels a a',
    rec_good rec ->
    lookup L q = Some (NSet i lels) -> lookup R q = Some (NSet j rels) ->
    diff_sets rec path q (NSet i lels) (NSet j rels) lels rels a = Ok a' ->
    Forall good a -> Forall good a'.
  Proof.
    intros rec path q i lels j rels a a' Hrec Hl Hr H Ha.
    pose proof (wf_lookup _ _ _ HwfL Hl) as HwL.
    pose proof (wf_lookup _ _ _ HwfR Hr) as HwR.
    destruct (wf_set_inv _ _ HwL) as [Lp Ln].
    destruct (wf_set_inv _ _ HwR) as [Rp Rn].
    unfold diff_sets in H.
    match type of H with (bind ?F _ = _) => destruct F as [acc1| |] eqn:EF end; simpl in H; try discriminate.
    inversion H; subst; clear H.
    assert (G1 : Forall good acc1).
    { eapply (foldM_inv _ (Forall good)); [ | exact EF | exact Ha].
      intros b k b' Hin Hf Hb. simpl in Hf.
      destruct (set_has k lels) eqn:E1; simpl in Hf; [|inversion Hf; subst; auto].
      destruct (set_has k rels) eqn:E2; simpl in Hf; [|inversion Hf; subst; auto].
      assert (Hk : plain_leaf k = true) by (rewrite forallb_forall in Rp; auto).
      eapply Hrec; [ | | exact Hf | exact Hb].
      - rewrite (lookup_snoc _ _ _ _ Hl). simpl. apply set_find_member; auto.
      - rewrite (lookup_snoc _ _ _ _ Hr). simpl. apply set_find_member; auto. }
    apply Forall_rev_map_app.
    { intros k Hin. apply filter_In in Hin. destruct Hin as [Hin _].
      eapply good_add; eauto. simpl. apply find_member_in; auto. }
    apply Forall_rev_map_app; auto.
    intros k Hin. apply filter_In in Hin. destruct Hin as [Hin _].
    eapply good_del; eauto. simpl. apply find_member_in; auto.
  Qed.

  (* ---- sequences, positional ---- *)
  Lemma zip_good : forall rec deep path q r0 i lels0 j rels0,
    rec_good rec ->
    lookup L q = Some (NSeq i lels0) -> lookup R q = Some (NSeq j rels0) ->
    forall lels idx rels a a',
      (forall k, nth_error lels k = nth_error lels0 (idx + k)) ->
      (forall k, nth_error rels k = nth_error rels0 (idx + k)) ->
      zip_go rec deep path q r0 idx lels rels a = Ok a' ->
      Forall good a -> Forall good a'.
  Proof.
    intros rec deep path q r0 i lels0 j rels0 Hrec Hl Hr.
    induction lels as [|le lr IH]; simpl; intros idx rels a a' HL HR H Ha.
    - inversion H; subst. apply Forall_rev_map_app; auto.
      intros [n x] Hin. simpl. eapply good_add; eauto. simpl.
      destruct (enumerate_from_nth _ _ _ _ Hin) as [k [-> Hk]]. rewrite <- HR. exact Hk.
    - assert (Hle : nth_error lels0 idx = Some le).
      { rewrite <- (Nat.add_0_r idx). rewrite <- HL. reflexivity. }
      assert (HL' : forall k, nth_error lr k = nth_error lels0 (S idx + k)).
      { intros k. replace (S idx + k) with (idx + S k) by lia. rewrite <- HL. reflexivity. }
      destruct rels as [|re rr].
      + eapply IH; [exact HL' | | exact H | ].
        * intros k. replace (S idx + k) with (idx + S k) by lia. rewrite <- HR. destruct k; reflexivity.
        * constructor; auto. eapply good_del; eauto.
      + assert (Hre : nth_error rels0 idx = Some re).
        { rewrite <- (Nat.add_0_r idx). rewrite <- HR. reflexivity. }
        assert (HR' : forall k, nth_error rr k = nth_error rels0 (S idx + k)).
        { intros k. replace (S idx + k) with (idx + S k) by lia. rewrite <- HR. reflexivity. }
        match type of H with (bind ?F _ = _) => destruct F as [a1| |] eqn:EF end; simpl in H; try discriminate.
        eapply IH; [exact HL' | exact HR' | exact H | ].
        destruct deep.
        * eapply Hrec; [ | | exact EF | exact Ha].
          -- rewrite (lookup_snoc _ _ _ _ Hl). exact Hle.
          -- rewrite (lookup_snoc _ _ _ _ Hr). exact Hre.
        * inversion EF; subst. constructor; auto. apply good_cmp.
          -- rewrite (lookup_snoc _ _ _ _ Hl). exact Hle.
          -- rewrite (lookup_snoc _ _ _ _ Hr). exact Hre.
  Qed.

  Lemma arrays_good : forall rec deep path q i lels j rels nc a a',
    rec_good rec ->
    lookup L q = Some (NSeq i lels) -> lookup R q = Some (NSeq j rels) ->
    diff_arrays path_eq cfg rec deep path q (NSeq j rels) lels rels nc a = Ok a' ->
    Forall good a -> Forall good a'.
  Proof.
    intros rec deep path q i lels j rels nc a a' Hrec Hl Hr H Ha.
    unfold diff_arrays in H. destruct Hpos as [Hp1 _]. rewrite Hp1 in H. simpl in H.
    eapply (zip_good rec deep path q (NSeq j rels) i lels j rels Hrec Hl Hr lels 0 rels a a');
      auto; intros k; reflexivity.
  Qed.

  Lemma lists_good : forall rec path q i lels j rels par pref a a',
    rec_good rec ->
    lookup L q = Some (NSeq i lels) -> lookup R q = Some (NSeq j rels) ->
    diff_lists path_eq cfg rec path q (NSeq i lels) (NSeq j rels) lels rels par pref a = Ok a' ->
    Forall good a -> Forall good a'.
  Proof.
    intros rec path q i lels j rels par pref a a' Hrec Hl Hr H Ha.
    unfold diff_lists in H.
    destruct (negb _).
    { inversion H; subst. constructor; [|constructor; auto].
      + unfold good, truthful, add_entry; simpl. repeat split; auto; discriminate.
      + unfold good, truthful, del_entry; simpl. repeat split; auto; discriminate. }
    assert (Haoh : forall nc,
      diff_aoh path_eq cfg rec path q (NSeq j rels) lels rels nc a = Ok a' -> Forall good a').
    { intros nc H'. unfold diff_aoh in H'. destruct Hpos as [_ Hp2].
      destruct (Hp2 nc) as [E|E]; rewrite E in H'; simpl in H'; eapply arrays_good; eauto. }
    destruct rels as [|[ | | | ] rr]; try (eapply arrays_good; eauto; fail).
    eapply Haoh; eauto.
  Qed.

  Lemma body_good : forall rec, rec_good rec -> rec_good (diff_body path_eq cfg rec).
  Proof.
    intros rec Hrec path q l r par pref a a' Hl Hr H Ha.
    destruct l as [i v|i lkvs|i lels|i lels], r as [j w|j rkvs|j rels|j rels]; simpl in H;
      try (eapply (clash_good path q _ _ (match par with None => true | Some _ => false end)); [exact Hl | exact Hr | simpl; apply andb_false_r | exact Ha | exact H]).
    - inversion H; subst. constructor; auto. apply good_cmp; auto.
    - eapply dicts_good; eauto.
    - eapply lists_good; eauto.
    - eapply sets_good; eauto.
  Qed.

  Lemma between_good : forall fuel, rec_good (diff_between path_eq cfg fuel).
  Proof.
    induction fuel as [|f IH].
    - intros path q l r par pref a a' _ _ H. simpl in H. discriminate.
    - intros path q l r par pref a a' Hl Hr H Ha. simpl in H.
      eapply body_good; eauto.
  Qed.

  Theorem compare_to_good : forall es,
    compare_to path_eq cfg L R = Ok es -> Forall good es.
  Proof.
    intros es H. unfold compare_to in H.
    match type of H with (bind ?F _ = _) => destruct F as [acc| |] eqn:EF end; simpl in H; try discriminate.
    inversion H; subst.
    apply Forall_forall. intros e He. apply in_rev in He. revert e He. apply Forall_forall.
    eapply between_good; [ | | exact EF | constructor]; reflexivity.
  Qed.
End Pos.

Lemma positional_truthful :
  forall path_eq cfg L R es,
    positional cfg -> wf_doc L = true -> wf_doc R = true ->
    compare_to path_eq cfg L R = Ok es ->
    Forall (truthful L R) es.
Proof.
  intros path_eq cfg L R es Hp HL HR H.
  pose proof (compare_to_good path_eq cfg Hp L R HL HR es H) as G.
  eapply Forall_impl; [ | exact G]. intros e [T _]; exact T.
Qed.

Lemma positional_same_py :
  forall path_eq cfg L R es,
    positional cfg -> wf_doc L = true -> wf_doc R = true ->
    compare_to path_eq cfg L R = Ok es ->
    Forall (fun e => e_action e = ASame -> val_eq (e_lhs e) (e_rhs e) = true) es.
Proof.
  intros path_eq cfg L R es Hp HL HR H.
  pose proof (compare_to_good path_eq cfg Hp L R HL HR es H) as G.
  eapply Forall_impl; [ | exact G]. intros e [_ [S _]]; exact S.
Qed.

Lemma positional_change_py :
  forall path_eq cfg L R es,
    positional cfg -> wf_doc L = true -> wf_doc R = true ->
    compare_to path_eq cfg L R = Ok es ->
    Forall (fun e => e_action e = AChange -> val_eq (e_lhs e) (e_rhs e) = false) es.
Proof.
  intros path_eq cfg L R es Hp HL HR H.
  pose proof (compare_to_good path_eq cfg Hp L R HL HR es H) as G.
  eapply Forall_impl; [ | exact G]. intros e [_ [_ C]]; exact C.
Qed.
