(* C09 (creation half), document level: the old document is embedded in the
   new one (frame), the path resolves to the wrapped value, sequences are
   padded exactly up to the requested index - for every document and every
   straight path. *)
From Coq Require Import String List ZArith NArith Bool Lia Arith.
From YP Require Import Outcome PyStr PyVal Doc Searches Mutate Create C04spec C04lists C04delete C04plan
  C09create C09createP.
Import ListNotations.

(* ---------------- embeds ---------------- *)
Lemma Forall2_refl_in : forall A (R : A -> A -> Prop) l, Forall (fun x => R x x) l -> Forall2 R l l.
Proof. induction l; intros H; constructor; inversion H; subst; auto. Qed.

Lemma embeds_refl : forall fr d, embeds_g fr d d.
Proof.
  intros fr. induction d using node_ind'.
  - constructor.
  - rewrite <- (app_nil_r kvs) at 2. constructor. apply Forall2_refl_in.
    rewrite Forall_forall in *. intros kv Hkv. split; auto. apply (proj2 (H kv Hkv)).
  - rewrite <- (app_nil_r els) at 2. constructor. apply Forall2_refl_in. exact H.
  - rewrite <- (app_nil_r els) at 2. constructor.
Qed.

Lemma Forall2_refl : forall A (R : A -> A -> Prop) l, (forall x, R x x) -> Forall2 R l l.
Proof. induction l; intros; constructor; auto. Qed.

Lemma extends_embeds : forall fr n n', extends n n' -> embeds_g fr n n'.
Proof.
  intros fr n n' H. destruct H.
  - apply embeds_refl.
  - constructor. apply Forall2_refl. intros kv. split; auto. apply embeds_refl.
  - constructor. apply Forall2_refl. apply embeds_refl.
  - constructor.
Qed.

Lemma rmapM_Forall2 : forall A B (f : A -> res B) (R : A -> B -> Prop) l,
  Forall (fun x => exists y, f x = ROk y /\ R x y) l ->
  exists l', rmapM f l = ROk l' /\ Forall2 R l l'.
Proof.
  induction l as [|x r IH]; intros H; simpl.
  - exists []. split; auto.
  - inversion H; subst. destruct H2 as [y [Hy Ry]]. destruct (IH H3) as [l' [Hl' Rl']].
    exists (y :: l'). rewrite Hy. simpl. rewrite Hl'. simpl. split; auto.
Qed.

(* replacing the container object o by c' embeds the old document when c' embeds every occurrence of o *)
Lemma app_obj_embeds : forall fr o c' d,
  (forall n, In n (objs o d) -> embeds_g fr n c') ->
  exists d', app_obj o (fun _ => ROk c') d = ROk d' /\ embeds_g fr d d'.
Proof.
  intros fr o c' d. induction d using node_ind'; intros Hloc.
  - exists (NLeaf i v). split; [reflexivity|constructor].
  - destruct (N.eqb (oid i) o) eqn:E.
    + exists c'. split.
      * simpl. unfold is_obj. simpl. rewrite E. reflexivity.
      * apply Hloc. simpl. rewrite E. left. reflexivity.
    + destruct (rmapM_Forall2 _ _
                 (fun kv : node * node => rbind (app_obj o (fun _ => ROk c') (snd kv)) (fun v => ROk (fst kv, v)))
                 (fun kv kv' => fst kv' = fst kv /\ embeds_g fr (snd kv) (snd kv')) kvs) as [kvs' [Hk Rk]].
      { rewrite Forall_forall in *. intros kv Hkv.
        destruct (proj2 (H kv Hkv)) as [v' [Hv Ev]].
        { intros n Hn. apply Hloc. simpl. rewrite E. simpl. apply in_flat_map. exists kv; auto. }
        exists (fst kv, v'). rewrite Hv. simpl. auto. }
      exists (NMap i kvs'). split.
      * simpl. unfold is_obj. simpl. rewrite E. rewrite Hk. reflexivity.
      * rewrite <- (app_nil_r kvs'). constructor. exact Rk.
  - destruct (N.eqb (oid i) o) eqn:E.
    + exists c'. split.
      * simpl. unfold is_obj. simpl. rewrite E. reflexivity.
      * apply Hloc. simpl. rewrite E. left. reflexivity.
    + destruct (rmapM_Forall2 _ _ (app_obj o (fun _ => ROk c')) (embeds_g fr) els) as [els' [Hk Rk]].
      { rewrite Forall_forall in *. intros x Hx. apply (H x Hx).
        intros n Hn. apply Hloc. simpl. rewrite E. simpl. apply in_flat_map. exists x; auto. }
      exists (NSeq i els'). split.
      * simpl. unfold is_obj. simpl. rewrite E. rewrite Hk. reflexivity.
      * rewrite <- (app_nil_r els'). constructor. exact Rk.
  - destruct (N.eqb (oid i) o) eqn:E.
    + exists c'. split.
      * simpl. unfold is_obj. simpl. rewrite E. reflexivity.
      * apply Hloc. simpl. rewrite E. left. reflexivity.
    + exists (NSet i els). split.
      * simpl. unfold is_obj. simpl. rewrite E. reflexivity.
      * apply embeds_refl.
Qed.

Lemma put_obj_embeds : forall fr o c' d,
  (forall n, In n (objs o d) -> embeds_g fr n c') -> embeds_g fr d (put_obj o c' d).
Proof.
  intros fr o c' d H. unfold put_obj. destruct (app_obj_embeds fr o c' d H) as [d' [E1 E2]]. rewrite E1. exact E2.
Qed.

(* ---------------- objs: sub-objects ---------------- *)
Lemma objs_self : forall n o, coid n = Some o -> In n (objs o n).
Proof.
  intros n o H. destruct n as [i v|i kvs|i els|i els]; simpl in *; try discriminate;
    inversion H; subst; rewrite N.eqb_refl; simpl; auto.
Qed.

Lemma objs_trans : forall o o' c n d, In n (objs o d) -> In c (objs o' n) -> In c (objs o' d).
Proof.
  intros o o' c n d. induction d using node_ind'; intros Hn Hc; simpl in Hn.
  - contradiction.
  - apply in_app_or in Hn. destruct Hn as [Hn|Hn].
    + destruct (N.eqb (oid i) o); [|contradiction]. destruct Hn as [<-|[]]. exact Hc.
    + apply in_flat_map in Hn. destruct Hn as [kv [Hkv Hn]].
      simpl. apply in_or_app. right. apply in_flat_map. exists kv. split; auto.
      rewrite Forall_forall in H. apply (proj2 (H kv Hkv)); auto.
  - apply in_app_or in Hn. destruct Hn as [Hn|Hn].
    + destruct (N.eqb (oid i) o); [|contradiction]. destruct Hn as [<-|[]]. exact Hc.
    + apply in_flat_map in Hn. destruct Hn as [x [Hx Hn]].
      simpl. apply in_or_app. right. apply in_flat_map. exists x. split; auto.
      rewrite Forall_forall in H. apply (H x Hx); auto.
  - destruct (N.eqb (oid i) o); [|contradiction]. destruct Hn as [<-|[]]. exact Hc.
Qed.

(* c is a mapping value / sequence element / (leaf) set member of n *)
Definition is_child (c n : node) : Prop :=
  match n with
  | NLeaf _ _ => False
  | NMap _ kvs => exists kv, In kv kvs /\ snd kv = c
  | NSeq _ els => In c els
  | NSet _ els => In c els /\ is_leaf c = true
  end.

Lemma child_objs : forall c n o x, is_child c n -> In x (objs o c) -> In x (objs o n).
Proof.
  intros c n o x Hc Hx. destruct n as [i v|i kvs|i els|i els]; simpl in Hc.
  - contradiction.
  - destruct Hc as [kv [Hkv <-]]. simpl. apply in_or_app. right. apply in_flat_map. exists kv; auto.
  - simpl. apply in_or_app. right. apply in_flat_map. exists c; auto.
  - destruct Hc as [_ Hl]. destruct c; try discriminate. contradiction.
Qed.

Lemma child_coids : forall c n o, is_child c n -> In o (coids c) -> In o (coids n) /\ (wf_doc n -> coid n <> Some o).
Proof.
  intros c n o Hc Ho. destruct n as [i v|i kvs|i els|i els]; simpl in Hc.
  - contradiction.
  - destruct Hc as [kv [Hkv <-]].
    assert (Hin : In o (flat_map (fun kv => coids (snd kv)) kvs)) by (apply in_flat_map; exists kv; auto).
    split; [simpl; auto|]. intros Hwf Heq. unfold wf_doc in Hwf. simpl in *. inversion Hwf; subst.
    inversion Heq; subst. contradiction.
  - assert (Hin : In o (flat_map coids els)) by (apply in_flat_map; exists c; auto).
    split; [simpl; auto|]. intros Hwf Heq. unfold wf_doc in Hwf. simpl in *. inversion Hwf; subst.
    inversion Heq; subst. contradiction.
  - destruct Hc as [_ Hl]. destruct c; try discriminate. contradiction.
Qed.

Lemma child_wf : forall c n, is_child c n -> wf_doc n -> wf_doc c.
Proof.
  unfold wf_doc. intros c n Hc Hwf. destruct n as [i v|i kvs|i els|i els]; simpl in Hc.
  - contradiction.
  - destruct Hc as [kv [Hkv <-]]. simpl in Hwf. inversion Hwf; subst.
    apply (NoDup_flat_map_in _ _ (fun kv => coids (snd kv)) kvs kv); auto.
  - simpl in Hwf. inversion Hwf; subst. apply (NoDup_flat_map_in _ _ coids els c); auto.
  - destruct Hc as [_ Hl]. destruct c; try discriminate. constructor.
Qed.

(* ---------------- one step of the existing prefix ---------------- *)
Definition found_of (cur : node) (s : seg) : res (option (node * pcoord)) :=
  match cur, s with
  | NMap i kvs, SKey k _ =>
      ROk (match find (key_is (PStr k)) kvs with
           | Some kv => Some (snd kv, mkpc (Some (oid i)) (PStr k))
           | None => None
           end)
  | NMap _ _, SIdx _ => ROk None
  | NSeq i els, _ =>
      match (match s with SIdx z => Some z | SKey k _ => py_int k end) with
      | None =>
          match s with
          | SKey k _ => if aoh_has k cur then RErr (PyCrash NotImplemented) else ROk None
          | SIdx _ => ROk None
          end
      | Some z =>
          let len := Z.of_nat (List.length els) in
          if (z <? len)%Z then
            if (0 <=? z)%Z then
              ROk (match nth_error els (Z.to_nat z) with Some x => Some (x, mkpc (Some (oid i)) (PInt z)) | None => None end)
            else if (0 <=? z + len)%Z then
              ROk (match nth_error els (Z.to_nat (z + len)) with Some x => Some (x, mkpc (Some (oid i)) (PInt z)) | None => None end)
            else RErr (PyCrash IndexError)
          else ROk None
      end
  | NSet i els, SKey k _ =>
      ROk (match find (member_is (PStr k)) els with
           | Some m => Some (m, mkpc (Some (oid i)) (PStr k))
           | None => None
           end)
  | NSet _ _, SIdx _ => RErr (YPE Generic)
  | NLeaf _ _, _ => ROk None
  end.

Lemma walk_unfold : forall lit s rest cur pc d next vo value,
  walk lit (s :: rest) cur pc d next vo value =
  rbind (found_of cur s) (fun f =>
    match f with
    | Some (child, cpc) =>
        match child, rest with
        | NLeaf _ PNone, _ :: _ =>
            if negb (forallb straight_buildable rest) then RErr (YPE Generic) else
            match cur with
            | NMap _ _ | NSeq _ _ =>
                rbind (build_next lit rest value next vo) (fun cont =>
                rbind (grow lit rest cont cpc (N.succ next) vo value) (fun g =>
                match coid cur with
                | Some o => ROk (put_obj o (null_put cur s (fst (fst g))) d, snd (fst g), snd g)
                | None => RErr (YPE Generic)
                end))
            | _ => RErr (YPE Generic)
            end
        | _, _ => walk lit rest child cpc d next vo value
        end
    | None =>
        if negb (forallb straight_buildable rest) then RErr (YPE Generic) else
        rbind (grow lit (s :: rest) cur pc next vo value) (fun g =>
        match coid cur with
        | Some o => ROk (put_obj o (fst (fst g)) d, snd (fst g), snd g)
        | None => RErr (YPE Generic)
        end)
    end).
Proof. intros. destruct cur, s; reflexivity. Qed.

(* the two ways the walk goes on from a child it found *)
Lemma walk_go : forall lit s rest cur pc d next vo value c cpc,
  found_of cur s = ROk (Some (c, cpc)) -> is_null c = false \/ rest = [] ->
  walk lit (s :: rest) cur pc d next vo value = walk lit rest c cpc d next vo value.
Proof.
  intros lit s rest cur pc d next vo value c cpc Ef Hn. rewrite walk_unfold, Ef. unfold rbind.
  destruct Hn as [Hn| ->].
  - destruct c as [ci cv|? ?|? ?|? ?]; try reflexivity. destruct cv; try reflexivity. discriminate.
  - destruct c as [ci cv|? ?|? ?|? ?]; try reflexivity. destruct cv; reflexivity.
Qed.

Lemma walk_null : forall lit s s2 rest2 cur pc d next vo value ci cpc,
  found_of cur s = ROk (Some (NLeaf ci PNone, cpc)) ->
  walk lit (s :: s2 :: rest2) cur pc d next vo value =
  if negb (forallb straight_buildable (s2 :: rest2)) then RErr (YPE Generic) else
  match cur with
  | NMap _ _ | NSeq _ _ =>
      rbind (build_next lit (s2 :: rest2) value next vo) (fun cont =>
      rbind (grow lit (s2 :: rest2) cont cpc (N.succ next) vo value) (fun g =>
      match coid cur with
      | Some o => ROk (put_obj o (null_put cur s (fst (fst g))) d, snd (fst g), snd g)
      | None => RErr (YPE Generic)
      end))
  | _ => RErr (YPE Generic)
  end.
Proof. intros. rewrite walk_unfold, H. reflexivity. Qed.

Lemma null_step_cases : forall (c : node) (rest : list seg),
  (is_null c = false \/ rest = []) \/ (exists ci s2 rest2, c = NLeaf ci PNone /\ rest = s2 :: rest2).
Proof.
  intros c rest. destruct rest as [|s2 rest2]; [left; right; reflexivity|].
  destruct c as [ci cv|? ?|? ?|? ?]; try (left; left; reflexivity).
  destruct cv; try (left; left; reflexivity). right. exists ci, s2, rest2. auto.
Qed.

Lemma find_assoc_key : forall k kvs,
  assoc_key k kvs = option_map snd (find (key_is k) kvs).
Proof.
  induction kvs as [|[kn v] r IH]; simpl; auto.
  unfold key_is at 1. simpl. destruct kn; simpl; auto. destruct (py_eq v0 k); auto.
Qed.

Lemma find_find_member : forall k els, find_member k els = find (member_is k) els.
Proof.
  induction els as [|m r IH]; simpl; auto.
  destruct m; simpl; auto. destruct (py_eq v k); auto.
Qed.

Lemma find_some_in : forall A (P : A -> bool) l x, find P l = Some x -> In x l /\ P x = true.
Proof. intros. apply find_some. exact H. Qed.

Lemma found_agrees : forall cur s f, found_of cur s = ROk f -> seg_child cur s = option_map fst f.
Proof.
  intros cur s f H. destruct cur as [i v|i kvs|i els|i els]; simpl in H.
  - destruct s; inversion H; subst; reflexivity.
  - destruct s as [k ko|z]; inversion H; subst; unfold seg_child; simpl; [|reflexivity].
    rewrite find_assoc_key. destruct (find (key_is (PStr k)) kvs); reflexivity.
  - unfold seg_child, seg_ref. unfold seg_int.
    destruct (match s with SIdx z => Some z | SKey k _ => py_int k end) as [z|] eqn:Ez.
    + cbv zeta in H.
      destruct (z <? Z.of_nat (length els))%Z eqn:E1.
      * destruct (0 <=? z)%Z eqn:E2.
        -- inversion H; subst. simpl. destruct (nth_error els (Z.to_nat z)); reflexivity.
        -- destruct (0 <=? z + Z.of_nat (length els))%Z eqn:E3; [|discriminate].
           inversion H; subst. simpl. destruct (nth_error els (Z.to_nat (z + Z.of_nat (length els)))); reflexivity.
      * inversion H; subst. simpl.
        apply Z.ltb_ge in E1.
        replace (0 <=? z)%Z with true by (symmetry; apply Z.leb_le; lia). simpl.
        apply nth_error_None. lia.
    + destruct s as [k ko|z0]; [|discriminate].
      match type of H with (if ?c then _ else _) = _ => destruct c end; [discriminate|]. inversion H; subst. reflexivity.
  - destruct s as [k ko|z]; [|discriminate]. inversion H; subst. unfold seg_child. simpl.
    rewrite find_find_member. destruct (find (member_is (PStr k)) els); reflexivity.
Qed.

Lemma found_is_child : forall cur s c cpc, found_of cur s = ROk (Some (c, cpc)) -> is_child c cur.
Proof.
  intros cur s c cpc H. destruct cur as [i v|i kvs|i els|i els]; simpl in H.
  - destruct s; discriminate.
  - destruct s as [k ko|z]; [|discriminate].
    destruct (find (key_is (PStr k)) kvs) as [kv|] eqn:Ef; [|discriminate].
    inversion H; subst. simpl. exists kv. split; auto. apply (find_some_in _ _ _ _ Ef).
  - simpl.
    destruct (match s with SIdx z => Some z | SKey k _ => py_int k end) as [z|] eqn:Ez.
    + cbv zeta in H.
      destruct (z <? Z.of_nat (length els))%Z.
      * destruct (0 <=? z)%Z.
        -- destruct (nth_error els (Z.to_nat z)) eqn:En; [|discriminate]. inversion H; subst.
           eapply nth_error_In; eauto.
        -- destruct (0 <=? z + Z.of_nat (length els))%Z; [|discriminate].
           destruct (nth_error els (Z.to_nat (z + Z.of_nat (length els)))) eqn:En; [|discriminate]. inversion H; subst.
           eapply nth_error_In; eauto.
      * discriminate.
    + destruct s as [k ko|z0]; [|discriminate].
      match type of H with (if ?c then _ else _) = _ => destruct c end; discriminate.
  - destruct s as [k ko|z]; [|discriminate].
    destruct (find (member_is (PStr k)) els) as [m|] eqn:Ef; [|discriminate].
    inversion H; subst. simpl. destruct (find_some_in _ _ _ _ Ef) as [Hin Hm]. split; auto.
    destruct c; simpl in *; auto; discriminate.
Qed.

(* ---------------- FRAME ---------------- *)
Definition in_doc (cur d : node) : Prop := forall o, coid cur = Some o -> In cur (objs o d).

Lemma in_doc_child : forall c cur d, in_doc cur d -> is_child c cur -> in_doc c d.
Proof.
  intros c cur d Hcur Hc o Ho.
  destruct (coid cur) as [oc|] eqn:Ec.
  - apply (objs_trans oc o c cur d); auto. eapply child_objs; eauto. apply objs_self; auto.
  - destruct cur; simpl in *; try discriminate. contradiction.
Qed.

Lemma objs_unique : forall o d n m, wf_doc d -> In n (objs o d) -> In m (objs o d) -> m = n.
Proof.
  intros o d n m Hwf Hn Hm. pose proof (objs_le1 o d Hwf) as Hle.
  destruct (objs o d) as [|a [|b t]]; simpl in *; try contradiction; try lia.
  destruct Hn as [<-|[]]. destruct Hm as [<-|[]]. reflexivity.
Qed.

(* ---- a null replaced by a new container ---- *)
Lemma put_key_F2 : forall lo k v i kvs kv,
  find (key_is k) kvs = Some kv -> snd kv = NLeaf i PNone ->
  is_leaf v = false -> (lo <= node_oid v)%N ->
  Forall2 (fun kv kv' => fst kv' = fst kv /\ embeds_g (Some lo) (snd kv) (snd kv')) kvs (put_key k v kvs).
Proof.
  intros lo k v i. induction kvs as [|kv0 r IH]; intros kv Hf Hs Hl Ho; simpl in *; [discriminate|].
  destruct (key_is k kv0) eqn:E.
  - inversion Hf; subst kv0. constructor.
    + split; [reflexivity|]. simpl. rewrite Hs. constructor; assumption.
    + apply Forall2_refl. intros x. split; [reflexivity|apply embeds_refl].
  - constructor; [split; [reflexivity|apply embeds_refl]|]. eapply IH; eauto.
Qed.

Lemma put_nth_F2 : forall lo v i els n,
  nth_error els n = Some (NLeaf i PNone) -> is_leaf v = false -> (lo <= node_oid v)%N ->
  Forall2 (embeds_g (Some lo)) els (put_nth n v els).
Proof.
  intros lo v i. induction els as [|x r IH]; intros n Hn Hl Ho; [destruct n; discriminate|].
  destruct n as [|m]; simpl in *.
  - inversion Hn; subst x. constructor; [constructor; assumption|]. apply Forall2_refl. apply embeds_refl.
  - constructor; [apply embeds_refl|]. apply IH; assumption.
Qed.

Lemma null_put_embeds : forall lo cur s ci cpc v,
  found_of cur s = ROk (Some (NLeaf ci PNone, cpc)) ->
  is_leaf v = false -> (lo <= node_oid v)%N ->
  embeds_g (Some lo) cur (null_put cur s v).
Proof.
  intros lo cur s ci cpc v H Hl Ho. destruct cur as [i x|i kvs|i els|i els]; simpl in H.
  - destruct s; discriminate.
  - destruct s as [k ko|z]; [|discriminate].
    destruct (find (key_is (PStr k)) kvs) as [kv|] eqn:Ef; [|discriminate]. inversion H; subst.
    simpl. rewrite <- (app_nil_r (put_key _ _ _)). constructor.
    eapply put_key_F2; eauto.
  - unfold null_put.
    destruct (match s with SIdx z => Some z | SKey k _ => py_int k end) as [z|] eqn:Ez.
    + cbv zeta in H.
      destruct (z <? Z.of_nat (length els))%Z; [|discriminate].
      destruct (0 <=? z)%Z.
      * destruct (nth_error els (Z.to_nat z)) eqn:En; [|discriminate]. inversion H; subst.
        rewrite <- (app_nil_r (put_nth _ _ _)). constructor. eapply put_nth_F2; eauto.
      * destruct (0 <=? z + Z.of_nat (length els))%Z; [|discriminate].
        destruct (nth_error els (Z.to_nat (z + Z.of_nat (length els)))) eqn:En; [|discriminate]. inversion H; subst.
        rewrite <- (app_nil_r (put_nth _ _ _)). constructor. eapply put_nth_F2; eauto.
    + destruct s as [k ko|z0]; [|discriminate].
      match type of H with (if ?c then _ else _) = _ => destruct c end; discriminate.
  - destruct s as [k ko|z]; [|discriminate].
    destruct (find (member_is (PStr k)) els) as [m|] eqn:Ef; [|discriminate]. inversion H; subst.
    apply find_some in Ef. destruct Ef as [_ Ef]. simpl in Ef. discriminate.
Qed.

Lemma build_next_cont : forall lit s2 rest2 value next vo x,
  build_next lit (s2 :: rest2) value next vo = ROk x -> is_leaf x = false /\ node_oid x = next.
Proof. intros lit s2 rest2 value next vo x H. destruct s2; simpl in H; inversion H; subst; split; reflexivity. Qed.

Lemma extends_root : forall n n', extends n n' -> is_leaf n' = is_leaf n /\ node_oid n' = node_oid n.
Proof. intros n n' H. destruct H; split; reflexivity. Qed.

Lemma null_prefix_step : forall cur s rest c,
  seg_child cur s = Some c -> is_null c = false \/ rest = [] ->
  null_prefix cur (s :: rest) = null_prefix c rest.
Proof.
  intros cur s rest c Hs Hn. simpl. rewrite Hs. destruct Hn as [Hn| ->].
  - rewrite Hn. reflexivity.
  - destruct (is_null c); reflexivity.
Qed.

(* FRAME along the walk.  [lo] is any bound below the identities the walk hands
   out: when the existing prefix ends at a null with segments to go
   ([null_prefix]) that null - and nothing else - may have become a new
   container; otherwise the embedding is the strict one. *)
Theorem walk_frame_g : forall lit segs cur pc d next vo value d' pc' next' lo,
  wf_doc d -> in_doc cur d -> (lo <= next)%N ->
  walk lit segs cur pc d next vo value = ROk (d', pc', next') ->
  embeds_g (if null_prefix cur segs then Some lo else None) d d'.
Proof.
  intros lit segs. induction segs as [|s rest IH]; intros cur pc d next vo value d' pc' next' lo Hwf Hin Hlo H.
  - simpl in H. inversion H; subst. apply embeds_refl.
  - destruct (found_of cur s) as [[[c cpc]|]|e] eqn:Ef.
    + pose proof (found_is_child _ _ _ _ Ef) as Hc.
      pose proof (found_agrees _ _ _ Ef) as Hsc. simpl in Hsc.
      destruct (null_step_cases c rest) as [Hgo|[ci [s2 [rest2 [-> ->]]]]].
      * rewrite (walk_go _ _ _ _ _ _ _ _ _ _ _ Ef Hgo) in H.
        rewrite (null_prefix_step _ _ _ _ Hsc Hgo).
        apply (IH c cpc d next vo value d' pc' next' lo Hwf); auto. eapply in_doc_child; eauto.
      * rewrite (walk_null _ _ _ _ _ _ _ _ _ _ _ _ Ef) in H.
        destruct (negb (forallb straight_buildable (s2 :: rest2))); [discriminate|].
        replace (null_prefix cur (s :: s2 :: rest2)) with true by (simpl; rewrite Hsc; reflexivity).
        assert (Hcur : exists o, coid cur = Some o /\
                  exists cont g, build_next lit (s2 :: rest2) value next vo = ROk cont /\
                    grow lit (s2 :: rest2) cont cpc (N.succ next) vo value = ROk g /\
                    d' = put_obj o (null_put cur s (fst (fst g))) d).
        { unfold rbind in H.
          destruct cur as [i x|i kvs|i els|i els]; try discriminate;
            (destruct (build_next lit (s2 :: rest2) value next vo) as [cont|e] eqn:Eb; [|discriminate]);
            (destruct (grow lit (s2 :: rest2) cont cpc (N.succ next) vo value) as [g|e] eqn:Eg; [|discriminate]);
            simpl in H; inversion H; subst; eexists; (split; [reflexivity|]); exists cont, g; auto. }
        destruct Hcur as [o [Ec [cont [g [Eb [Eg ->]]]]]].
        apply put_obj_embeds. intros n Hn.
        rewrite (objs_unique o d cur n Hwf (Hin o Ec) Hn).
        destruct (build_next_cont _ _ _ _ _ _ _ Eb) as [B1 B2].
        destruct (extends_root _ _ (grow_extends _ _ _ _ _ _ _ _ Eg)) as [G1 G2].
        apply (null_put_embeds lo cur s ci cpc _ Ef); [rewrite G1; exact B1|rewrite G2, B2; exact Hlo].
    + rewrite walk_unfold, Ef in H. unfold rbind in H.
      destruct (negb (forallb straight_buildable rest)); [discriminate|].
      pose proof (found_agrees _ _ _ Ef) as Hsc. simpl in Hsc.
      replace (null_prefix cur (s :: rest)) with false by (simpl; rewrite Hsc; reflexivity).
      destruct (grow lit (s :: rest) cur pc next vo value) as [g|e] eqn:Eg; [|discriminate].
      destruct (coid cur) as [o|] eqn:Ec; [|discriminate]. inversion H; subst.
      apply put_obj_embeds. intros n Hn.
      rewrite (objs_unique o d cur n Hwf (Hin o Ec) Hn).
      apply extends_embeds. eapply grow_extends; eauto.
    + rewrite walk_unfold, Ef in H. discriminate.
Qed.

(* ---------------- the pure form of put_obj ---------------- *)
Fixpoint putf (o : N) (c' : node) (d : node) : node :=
  if is_obj o d then c' else
  match d with
  | NMap i kvs => NMap i (map (fun kv => (fst kv, putf o c' (snd kv))) kvs)
  | NSeq i els => NSeq i (map (putf o c') els)
  | _ => d
  end.

Lemma rmapM_map : forall A B (f : A -> res B) (g : A -> B) l,
  (forall x, In x l -> f x = ROk (g x)) -> rmapM f l = ROk (map g l).
Proof.
  induction l as [|x r IH]; intros H; simpl; auto.
  rewrite (H x) by (left; reflexivity). simpl. rewrite IH by (intros; apply H; right; auto). reflexivity.
Qed.

Lemma app_obj_putf : forall o c' d, app_obj o (fun _ => ROk c') d = ROk (putf o c' d).
Proof.
  intros o c' d. induction d using node_ind'.
  - reflexivity.
  - simpl. destruct (is_obj o (NMap i kvs)); auto.
    rewrite (rmapM_map _ _ _ (fun kv => (fst kv, putf o c' (snd kv)))); auto.
    intros kv Hkv. rewrite Forall_forall in H. rewrite (proj2 (H kv Hkv)). reflexivity.
  - simpl. destruct (is_obj o (NSeq i els)); auto.
    rewrite (rmapM_map _ _ _ (putf o c')); auto.
    intros x Hx. rewrite Forall_forall in H. apply (H x Hx).
  - simpl. destruct (is_obj o (NSet i els)); auto.
Qed.

Lemma put_obj_putf : forall o c' d, put_obj o c' d = putf o c' d.
Proof. intros. unfold put_obj. rewrite app_obj_putf. reflexivity. Qed.

Lemma putf_obj : forall o c' d, is_obj o d = true -> putf o c' d = c'.
Proof. intros o c' d H. destruct d; simpl; unfold is_obj in *; simpl in *; try discriminate; rewrite H; reflexivity. Qed.

Lemma putf_leaf : forall o c' d, is_leaf d = true -> putf o c' d = d.
Proof. intros o c' d H. destruct d; try discriminate. reflexivity. Qed.

Lemma assoc_key_map : forall k (g : node -> node) kvs,
  assoc_key k (map (fun kv => (fst kv, g (snd kv))) kvs) = option_map g (assoc_key k kvs).
Proof.
  induction kvs as [|[kn v] r IH]; simpl; auto.
  destruct kn; auto. destruct (py_eq v0 k); auto.
Qed.

Lemma find_member_leaf : forall k els m, find_member k els = Some m -> is_leaf m = true.
Proof.
  induction els as [|x r IH]; intros m H; simpl in H; [discriminate|].
  destruct x; auto. destruct (py_eq v k); auto. inversion H; subst. reflexivity.
Qed.

Lemma seg_child_putf : forall o c' cur s c,
  seg_child cur s = Some c -> is_obj o cur = false ->
  seg_child (putf o c' cur) s = Some (putf o c' c).
Proof.
  intros o c' cur s c H Ho. destruct cur as [i v|i kvs|i els|i els]; unfold seg_child in *.
  - simpl in H. discriminate.
  - simpl putf. rewrite Ho. destruct s as [k ko|z]; simpl in *; [|discriminate].
    rewrite assoc_key_map, H. reflexivity.
  - simpl putf. rewrite Ho. unfold seg_ref in *. rewrite map_length.
    destruct (seg_int s) as [z|]; [|discriminate].
    destruct (0 <=? z)%Z.
    + simpl in *. rewrite nth_error_map, H. reflexivity.
    + destruct (0 <=? z + Z.of_nat (length els))%Z; [|discriminate].
      simpl in *. rewrite nth_error_map, H. reflexivity.
  - simpl putf. rewrite Ho. destruct s as [k ko|z]; simpl in *; [|discriminate].
    rewrite H. f_equal. symmetry. apply putf_leaf. eapply find_member_leaf; eauto.
Qed.

(* ---------------- the construction branch ---------------- *)
Lemma pads_all : forall lit n rest value next vo l next',
  pads lit n rest value next vo = ROk (l, next') ->
  Forall (fun x => exists fresh, build_next lit rest value fresh vo = ROk x) l.
Proof.
  intros lit n. induction n as [|m IH]; intros rest value next vo l next' H; simpl in H.
  - inversion H; subst. constructor.
  - destruct (build_next lit rest value next vo) as [x|e] eqn:Eb; simpl in H; [|discriminate].
    destruct (pads lit m rest value (N.succ next) vo) as [[l0 n0]|e] eqn:E; simpl in H; [|discriminate].
    inversion H; subst. constructor; [exists next; exact Eb|]. eapply IH; eauto.
Qed.

Lemma build_next_empty : forall lit s2 rest2 value fresh vo x,
  build_next lit (s2 :: rest2) value fresh vo = ROk x ->
  seg_child x s2 = None /\ is_set x = false.
Proof.
  intros lit s2 rest2 value fresh vo x H. destruct s2 as [k ko|z]; simpl in H; inversion H; subst.
  - split; reflexivity.
  - split; [|reflexivity]. unfold seg_child, seg_ref. simpl.
    destruct (0 <=? z)%Z; simpl; [destruct (Z.to_nat z); reflexivity|].
    destruct (0 <=? z + 0)%Z; simpl; [destruct (Z.to_nat (z + 0)); reflexivity|reflexivity].
Qed.

Lemma assoc_key_app_none : forall k kvs l, assoc_key k kvs = None -> assoc_key k (kvs ++ l) = assoc_key k l.
Proof.
  induction kvs as [|[kn v] r IH]; intros l H; simpl in *; auto.
  destruct kn; auto. destruct (py_eq v0 k); [discriminate|auto].
Qed.

Lemma py_eq_str_refl : forall k, py_eq (PStr k) (PStr k) = true.
Proof. intros. unfold py_eq. simpl. apply String.eqb_refl. Qed.

Theorem grow_new : forall lit segs n pc next vo value g old s rest,
  segs = s :: rest ->
  grow lit segs n pc next vo value = ROk g ->
  seg_child n s = None -> is_set n = false ->
  match old with Some n0 => seg_child n0 s | None => None end = None ->
  exists w fresh, resolve (fst (fst g)) segs = Some w /\ wrap_type lit value fresh vo = ROk w /\
                  padded_ok old (fst (fst g)) segs = true.
Proof.
  intros lit segs. induction segs as [|s0 rest0 IH]; intros n pc next vo value g old s rest Hs Hg Hnone Hset Hoc;
    [discriminate|]. inversion Hs; subst s0 rest0. clear Hs.
  simpl in Hg. destruct n as [i v|i kvs|i els|i els]; [discriminate| | |discriminate].
  - (* mapping *)
    destruct s as [k ko|z]; [|discriminate].
    destruct (build_next lit rest value next vo) as [child|e] eqn:Eb; simpl in Hg; [|discriminate].
    destruct (grow lit rest child (mkpc (Some (oid i)) (PStr k)) (N.succ (N.succ next)) vo value)
      as [[[c1 p1] n1]|e] eqn:Eg; simpl in Hg; [|discriminate].
    inversion Hg; subst g. cbn [fst snd].
    assert (Hsc : seg_child (NMap i (kvs ++ [(key_leaf k ko (N.succ next), c1)])) (SKey k ko) = Some c1).
    { unfold seg_child in *. simpl in *. rewrite assoc_key_app_none by assumption.
      simpl. rewrite py_eq_str_refl. reflexivity. }
    assert (Hrest : exists w fresh, resolve c1 rest = Some w /\ wrap_type lit value fresh vo = ROk w /\
                                    padded_ok None c1 rest = true).
    { destruct rest as [|s2 rest2].
      - simpl in Eg. inversion Eg; subst. simpl in Eb. exists c1, next. auto.
      - destruct (build_next_empty _ _ _ _ _ _ _ Eb) as [A B].
        eapply (IH child _ _ _ _ _ None s2 rest2 eq_refl Eg A B). reflexivity. }
    destruct Hrest as [w [fresh [R1 [R2 R3]]]]. exists w, fresh.
    cbn [resolve padded_ok]. rewrite Hsc, Hoc. simpl. auto.
  - (* sequence *)
    change (match s with SIdx z => Some z | SKey k _ => py_int k end) with (seg_int s) in Hg.
    destruct (seg_int s) as [z|] eqn:Ez; [|discriminate].
    destruct (pads lit (Z.to_nat (z - Z.of_nat (length els) + 1)) rest value next vo) as [[l n0]|e] eqn:Ep;
      simpl in Hg; [|discriminate].
    destruct (last_and_init l) as [[init lastn]|] eqn:El; [|discriminate].
    destruct (grow lit rest lastn (mkpc (Some (oid i)) (PInt z)) n0 vo value) as [[[c1 p1] n1]|e] eqn:Eg;
      simpl in Hg; [|discriminate].
    inversion Hg; subst g. cbn [fst snd].
    pose proof (pads_length _ _ _ _ _ _ _ _ Ep) as Hlen.
    pose proof (pads_all _ _ _ _ _ _ _ _ Ep) as Hall.
    apply last_and_init_spec in El. subst l.
    rewrite app_length in Hlen. simpl in Hlen.
    assert (Hz : (Z.of_nat (length els) <= z)%Z) by lia.
    assert (Hli : (length els + length init = Z.to_nat z)%nat) by lia.
    assert (Hsc : seg_child (NSeq i (els ++ init ++ [c1])) s = Some c1).
    { unfold seg_child, seg_ref. rewrite Ez.
      replace (0 <=? z)%Z with true by (symmetry; apply Z.leb_le; lia). simpl.
      rewrite app_assoc. rewrite nth_error_app2 by (rewrite app_length; lia).
      rewrite app_length. replace (Z.to_nat z - (length els + length init))%nat with 0%nat by lia. reflexivity. }
    assert (Hlast : exists fresh, build_next lit rest value fresh vo = ROk lastn).
    { rewrite Forall_forall in Hall. apply Hall. apply in_or_app. right. left. reflexivity. }
    destruct Hlast as [fr Eb].
    assert (Hrest : exists w fresh, resolve c1 rest = Some w /\ wrap_type lit value fresh vo = ROk w /\
                                    padded_ok None c1 rest = true).
    { destruct rest as [|s2 rest2].
      - simpl in Eg. inversion Eg; subst. simpl in Eb. exists c1, fr. auto.
      - destruct (build_next_empty _ _ _ _ _ _ _ Eb) as [A B].
        eapply (IH lastn _ _ _ _ _ None s2 rest2 eq_refl Eg A B). reflexivity. }
    destruct Hrest as [w [fresh [R1 [R2 R3]]]]. exists w, fresh.
    cbn [resolve padded_ok]. rewrite Hsc, Hoc, Ez. rewrite R1, R3.
    repeat split; auto. rewrite andb_true_r. apply Z.eqb_eq.
    rewrite !app_length. simpl. lia.
Qed.

Lemma coid_in_coids : forall n o, coid n = Some o -> In o (coids n).
Proof. intros n o H. destruct n; simpl in *; try discriminate; inversion H; subst; auto. Qed.

Lemma coid_is_obj : forall n o, coid n = Some o -> is_obj o n = true.
Proof. intros n o H. unfold is_obj. rewrite H. apply N.eqb_refl. Qed.

Lemma not_coid_is_obj : forall n o, coid n <> Some o -> is_obj o n = false.
Proof.
  intros n o H. unfold is_obj. destruct (coid n) as [x|]; auto.
  destruct (N.eqb x o) eqn:E; auto. apply N.eqb_eq in E. subst. congruence.
Qed.

(* the replaced child is what the segment now reads *)
Lemma find_put_key : forall k v kvs kv,
  find (key_is k) kvs = Some kv -> find (key_is k) (put_key k v kvs) = Some (fst kv, v).
Proof.
  induction kvs as [|kv0 r IH]; intros kv H; simpl in *; [discriminate|].
  destruct (key_is k kv0) eqn:E.
  - inversion H; subst. simpl. unfold key_is in *. simpl. rewrite E. reflexivity.
  - simpl. rewrite E. apply IH. exact H.
Qed.

Lemma put_nth_length : forall v els n, length (put_nth n v els) = length els.
Proof. induction els as [|x r IH]; intros n; destruct n; simpl; auto. Qed.

Lemma nth_put_nth : forall v els n x, nth_error els n = Some x -> nth_error (put_nth n v els) n = Some v.
Proof.
  induction els as [|y r IH]; intros n x H; [destruct n; discriminate|].
  destruct n; simpl in *; [reflexivity|eapply IH; eauto].
Qed.

Lemma null_put_child : forall cur s ci cpc v,
  found_of cur s = ROk (Some (NLeaf ci PNone, cpc)) -> seg_child (null_put cur s v) s = Some v.
Proof.
  intros cur s ci cpc v H. destruct cur as [i x|i kvs|i els|i els]; simpl in H.
  - destruct s; discriminate.
  - destruct s as [k ko|z]; [|discriminate].
    destruct (find (key_is (PStr k)) kvs) as [kv|] eqn:Ef; [|discriminate].
    unfold seg_child. simpl. rewrite find_assoc_key, (find_put_key _ v _ _ Ef). reflexivity.
  - unfold null_put, seg_child. unfold seg_int in *.
    destruct (match s with SIdx z => Some z | SKey k _ => py_int k end) as [z|] eqn:Ez.
    + cbv zeta in H. unfold seg_ref, seg_int. rewrite Ez. rewrite put_nth_length.
      destruct (z <? Z.of_nat (length els))%Z; [|discriminate].
      destruct (0 <=? z)%Z.
      * destruct (nth_error els (Z.to_nat z)) eqn:En; [|discriminate]. simpl. eapply nth_put_nth; eauto.
      * destruct (0 <=? z + Z.of_nat (length els))%Z; [|discriminate].
        destruct (nth_error els (Z.to_nat (z + Z.of_nat (length els)))) eqn:En; [|discriminate].
        simpl. eapply nth_put_nth; eauto.
    + destruct s as [k ko|z0]; [|discriminate].
      match type of H with (if ?c then _ else _) = _ => destruct c end; discriminate.
  - destruct s as [k ko|z]; [|discriminate].
    destruct (find (member_is (PStr k)) els) as [m|] eqn:Ef; [|discriminate]. inversion H; subst.
    apply find_some in Ef. destruct Ef as [_ Ef]. simpl in Ef. discriminate.
Qed.

Lemma resolve_cons : forall n s rest,
  resolve n (s :: rest) = match seg_child n s with Some c => resolve c rest | None => None end.
Proof. reflexivity. Qed.

Lemma padded_cons : forall old new s rest,
  padded_ok old new (s :: rest) =
  match seg_child new s with
  | None => false
  | Some c' =>
      let oc := match old with Some n => seg_child n s | None => None end in
      (match new, seg_int s, oc with
       | NSeq _ els', Some z, None => (Z.of_nat (length els') =? z + 1)%Z
       | _, _, _ => true
       end) && padded_ok oc c' rest
  end.
Proof. reflexivity. Qed.

Lemma creates_step : forall cur s rest c,
  seg_child cur s = Some c -> is_null c = false \/ rest = [] ->
  creates cur (s :: rest) = creates c rest.
Proof.
  intros cur s rest c Hs Hn. simpl. rewrite Hs. destruct Hn as [Hn| ->].
  - rewrite Hn. reflexivity.
  - destruct (is_null c); reflexivity.
Qed.

(* ---------------- RESOLVES and PADDING, along the whole walk ---------------- *)
Theorem walk_doc : forall lit segs cur pc d next vo value d' pc' next',
  wf_doc cur ->
  walk lit segs cur pc d next vo value = ROk (d', pc', next') ->
  creates cur segs = true ->
  exists o c', In o (coids cur) /\ d' = put_obj o c' d /\
    exists w fresh, resolve (putf o c' cur) segs = Some w /\ wrap_type lit value fresh vo = ROk w /\
                    padded_ok (Some cur) (putf o c' cur) segs = true.
Proof.
  intros lit segs. induction segs as [|s rest IH]; intros cur pc d next vo value d' pc' next' Hwf H Hcr.
  - discriminate.
  - destruct (found_of cur s) as [[[c cpc]|]|e] eqn:Ef.
    + pose proof (found_is_child _ _ _ _ Ef) as Hc.
      pose proof (found_agrees _ _ _ Ef) as Hsc. simpl in Hsc.
      destruct (null_step_cases c rest) as [Hgo|[ci [s2 [rest2 [-> ->]]]]].
      * rewrite (walk_go _ _ _ _ _ _ _ _ _ _ _ Ef Hgo) in H.
        rewrite (creates_step _ _ _ _ Hsc Hgo) in Hcr.
        destruct (IH c cpc d next vo value d' pc' next' (child_wf _ _ Hc Hwf) H Hcr)
          as [o [c' [Ho [Hd [w [fresh [R1 [R2 R3]]]]]]]].
        exists o, c'. destruct (child_coids _ _ _ Hc Ho) as [Hin Hne].
        split; auto. split; auto. exists w, fresh.
        pose proof (seg_child_putf o c' cur s c Hsc (not_coid_is_obj _ _ (Hne Hwf))) as Hp.
        cbn [resolve padded_ok]. rewrite Hp, Hsc, R1, R3. repeat split; auto.
        destruct (putf o c' cur); destruct (seg_int s); reflexivity.
      * (* the existing prefix ends at a null: it becomes the container the next segment needs *)
        rewrite (walk_null _ _ _ _ _ _ _ _ _ _ _ _ Ef) in H. unfold rbind in H.
        destruct (negb (forallb straight_buildable (s2 :: rest2))); [discriminate|].
        assert (Hcur : exists o, coid cur = Some o /\
                  exists cont g, build_next lit (s2 :: rest2) value next vo = ROk cont /\
                    grow lit (s2 :: rest2) cont cpc (N.succ next) vo value = ROk g /\
                    d' = put_obj o (null_put cur s (fst (fst g))) d).
        { destruct cur as [i x|i kvs|i els|i els]; try discriminate;
            (destruct (build_next lit (s2 :: rest2) value next vo) as [cont|e] eqn:Eb; [|discriminate]);
            (destruct (grow lit (s2 :: rest2) cont cpc (N.succ next) vo value) as [g|e] eqn:Eg; [|discriminate]);
            simpl in H; inversion H; subst; eexists; (split; [reflexivity|]); exists cont, g; auto. }
        destruct Hcur as [o [Ec [cont [g [Eb [Eg ->]]]]]].
        exists o, (null_put cur s (fst (fst g))). split; [apply coid_in_coids; auto|]. split; auto.
        rewrite (putf_obj o _ cur (coid_is_obj _ _ Ec)).
        destruct (build_next_empty _ _ _ _ _ _ _ Eb) as [A B].
        destruct (grow_new lit (s2 :: rest2) cont cpc (N.succ next) vo value g (Some (NLeaf ci PNone)) s2 rest2
                    eq_refl Eg A B eq_refl) as [w [fresh [R1 [R2 R3]]]].
        exists w, fresh.
        pose proof (null_put_child cur s ci cpc (fst (fst g)) Ef) as Hp.
        rewrite (resolve_cons _ s), (padded_cons _ _ s), Hp, Hsc. cbn [option_map fst]. rewrite R1, R3.
        repeat split; auto.
        destruct (null_put cur s (fst (fst g))); destruct (seg_int s); reflexivity.
    + rewrite walk_unfold, Ef in H. unfold rbind in H.
      destruct (negb (forallb straight_buildable rest)); [discriminate|].
      destruct (grow lit (s :: rest) cur pc next vo value) as [g|e] eqn:Eg; [|discriminate].
      destruct (coid cur) as [o|] eqn:Ec; [|discriminate]. inversion H; subst.
      pose proof (found_agrees _ _ _ Ef) as Hsc. simpl in Hsc.
      simpl in Hcr. rewrite Hsc in Hcr. apply negb_true_iff in Hcr.
      exists o, (fst (fst g)). split; [apply coid_in_coids; auto|]. split; auto.
      rewrite (putf_obj o _ cur (coid_is_obj _ _ Ec)).
      eapply (grow_new lit (s :: rest) cur pc next vo value g (Some cur) s rest eq_refl Eg Hsc Hcr). exact Hsc.
    + rewrite walk_unfold, Ef in H. discriminate.
Qed.

(* ---------------- a tail that cannot be built is refused before anything is built (fix 45f1b07) -------------- *)
Lemma walk_missing_unbuildable : forall lit s rest cur pc d next vo value,
  found_of cur s = ROk None -> forallb straight_buildable rest = false ->
  walk lit (s :: rest) cur pc d next vo value = RErr (YPE Generic).
Proof. intros lit s rest cur pc d next vo value Ef Hb. rewrite walk_unfold, Ef. cbn [rbind]. rewrite Hb. reflexivity. Qed.

Lemma walk_null_unbuildable : forall lit s s2 rest2 cur pc d next vo value ci cpc,
  found_of cur s = ROk (Some (NLeaf ci PNone, cpc)) -> forallb straight_buildable (s2 :: rest2) = false ->
  walk lit (s :: s2 :: rest2) cur pc d next vo value = RErr (YPE Generic).
Proof. intros. rewrite (walk_null _ _ _ _ _ _ _ _ _ _ _ _ H), H0. reflexivity. Qed.

(* at the document root: a key the mapping does not hold / a key whose value is null *)
Theorem create_missing_key_unbuildable : forall lit k ko rest value vo i kvs,
  find (key_is (PStr k)) kvs = None -> forallb straight_buildable rest = false ->
  create_query lit (SKey k ko :: rest) value vo (NMap i kvs) = RErr (YPE Generic).
Proof.
  intros lit k ko rest value vo i kvs Hf Hb. unfold create_query.
  destruct vo as [o|]; apply walk_missing_unbuildable; auto; cbn [found_of]; rewrite Hf; reflexivity.
Qed.

Theorem create_null_key_unbuildable : forall lit k ko s2 rest2 value vo i kvs kn ci,
  find (key_is (PStr k)) kvs = Some (kn, NLeaf ci PNone) -> forallb straight_buildable (s2 :: rest2) = false ->
  create_query lit (SKey k ko :: s2 :: rest2) value vo (NMap i kvs) = RErr (YPE Generic).
Proof.
  intros lit k ko s2 rest2 value vo i kvs kn ci Hf Hb. unfold create_query.
  destruct vo as [o|]; eapply walk_null_unbuildable; eauto; cbn [found_of]; rewrite Hf; reflexivity.
Qed.

Theorem create_query_frame : forall lit segs value vo d d' pc next',
  wf_doc d -> create_query lit segs value vo d = ROk (d', pc, next') ->
  embeds_g (if null_prefix d segs then Some (N.succ (max_oid d)) else None) d d'.
Proof.
  intros lit segs value vo d d' pc next' Hwf H. unfold create_query in H.
  destruct vo as [o|]; eapply walk_frame_g; eauto; try (intros o' Ho'; apply objs_self; auto); lia.
Qed.

(* the strict frame of every walk whose existing prefix does not end at a null (used by C03's history theorem) *)
Corollary walk_frame : forall lit segs cur pc d next vo value d' pc' next',
  wf_doc d -> in_doc cur d -> null_prefix cur segs = false ->
  walk lit segs cur pc d next vo value = ROk (d', pc', next') -> embeds d d'.
Proof.
  intros lit segs cur pc d next vo value d' pc' next' Hwf Hin Hn H.
  pose proof (walk_frame_g lit segs cur pc d next vo value d' pc' next' next Hwf Hin (N.le_refl _) H) as E.
  rewrite Hn in E. exact E.
Qed.

Theorem create_query_doc : forall lit segs value vo d d' pc next',
  wf_doc d -> creates d segs = true ->
  create_query lit segs value vo d = ROk (d', pc, next') ->
  (exists w fresh vo', resolve d' segs = Some w /\ wrap_type lit value fresh vo' = ROk w) /\
  padded_ok (Some d) d' segs = true.
Proof.
  intros lit segs value vo d d' pc next' Hwf Hcr H. unfold create_query in H.
  destruct vo as [o|];
    destruct (walk_doc _ _ _ _ _ _ _ _ _ _ _ Hwf H Hcr) as [o1 [c' [_ [Hd [w [fresh [R1 [R2 R3]]]]]]]];
    rewrite put_obj_putf in Hd; subst d'; split; eauto.
Qed.

(* ---------------- what the vocabulary means in terms of Doc.lookup ---------------- *)
Lemma resolve_lookup : forall segs n w,
  resolve n segs = Some w -> exists l, length l = length segs /\ lookup n l = Some w.
Proof.
  induction segs as [|s rest IH]; intros n w H; simpl in H.
  - inversion H; subst. exists []. auto.
  - unfold seg_child in H. destruct (seg_ref n s) as [r|] eqn:Er; [|discriminate].
    destruct (child n r) as [c|] eqn:Ec; [|discriminate].
    destruct (IH c w H) as [l [L1 L2]]. exists (r :: l). simpl. rewrite Ec. auto.
Qed.

Lemma embeds_child : forall fr d d' r c,
  embeds_g fr d d' -> child d r = Some c -> exists c', child d' r = Some c' /\ embeds_g fr c c'.
Proof.
  intros fr d d' r c He Hc. inversion He; subst; simpl in Hc; try (destruct r; discriminate).
  - destruct r as [k| |]; try discriminate. simpl. clear He.
    revert Hc. induction H as [|kv kv' l l' [Hk Hv] Hrest IHf]; intros Hc; simpl in *; [discriminate|].
    destruct kv as [kn v]. destruct kv' as [kn' v']. simpl in *. subst kn'.
    destruct kn; auto. destruct (py_eq v0 k); auto. inversion Hc; subst. eauto.
  - destruct r as [|n|]; try discriminate. simpl. clear He.
    revert n Hc. induction H as [|x x' l l' Hx Hrest IHf]; intros n Hc.
    + destruct n; discriminate.
    + destruct n as [|n]; simpl in *.
      * inversion Hc; subst. eauto.
      * apply IHf; auto.
  - destruct r as [| |m]; try discriminate. simpl. exists c. split; [|apply embeds_refl]. clear He.
    revert Hc. induction els as [|x r IHe]; intros Hc; simpl in *; [discriminate|].
    destruct x; auto. destruct (py_eq v m); auto.
Qed.

(* every node of the old document is found at the same location of the new one, embedded *)
Theorem embeds_lookup : forall fr l d d' n,
  embeds_g fr d d' -> lookup d l = Some n -> exists n', lookup d' l = Some n' /\ embeds_g fr n n'.
Proof.
  intros fr. induction l as [|r rest IH]; intros d d' n He H; simpl in H.
  - inversion H; subst. exists d'. auto.
  - destruct (child d r) as [c|] eqn:Ec; [|discriminate].
    destruct (embeds_child _ _ _ _ _ He Ec) as [c' [Ec' He']].
    destruct (IH c c' n He' H) as [n' [L1 L2]]. exists n'. simpl. rewrite Ec'. auto.
Qed.

(* an embedded scalar is unchanged (identity, anchor, tag, value); an embedded container keeps its identity/anchor/tag *)
Lemma embeds_info : forall n n', embeds n n' -> node_info n' = node_info n /\ (is_leaf n = true -> n' = n).
Proof. intros n n' H. inversion H; subst; simpl; split; auto; discriminate. Qed.

(* ... up to the one new clause: a null is itself or has become a new container *)
Lemma embeds_g_info : forall lo n n', embeds_g (Some lo) n n' ->
  (node_info n' = node_info n /\ (is_leaf n = true -> n' = n)) \/
  (is_null n = true /\ is_leaf n' = false /\ (lo <= node_oid n')%N).
Proof.
  intros lo n n' H. inversion H; subst; simpl; try (left; split; auto; discriminate).
  right. auto.
Qed.
