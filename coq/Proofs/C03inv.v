(* C03: the document invariants survive every edit.

   The invariants every loaded document satisfies
     wf_attr         ruamel containers carry the anchor attribute
     wf_doc          every container object sits at one place
     mkeys_distinct  the keys of every mapping are pairwise different
     ce_flat         keys and set members are scalars
   are preserved by the three kinds of change a history is made of:
     - the substitution of a Set (subst + ksubst with a scalar replacement),
     - the removal of a Delete (prune),
     - the construction of a Create (Create.walk: fresh identities)  [C03invCreate.v]
   so that the history theorems need them of the FIRST document only. *)
From Coq Require Import String List ZArith NArith Bool Lia Arith Permutation.
From YP Require Import Outcome PyStr PyVal Doc Searches Mutate C03spec C04spec C03e2e C03set C04lists C04delete.
Import ListNotations.

(* ---------------- sublists ---------------- *)
Inductive sublist {A : Type} : list A -> list A -> Prop :=
  | sl_nil : sublist [] []
  | sl_skip : forall x l1 l2, sublist l1 l2 -> sublist l1 (x :: l2)
  | sl_keep : forall x l1 l2, sublist l1 l2 -> sublist (x :: l1) (x :: l2).

Lemma sublist_refl : forall A (l : list A), sublist l l.
Proof. induction l; [apply sl_nil|apply sl_keep; auto]. Qed.

Lemma sublist_nil_l : forall A (l : list A), sublist [] l.
Proof. induction l; [apply sl_nil|apply sl_skip; auto]. Qed.

Lemma sublist_in : forall A (l1 l2 : list A) x, sublist l1 l2 -> In x l1 -> In x l2.
Proof. induction 1; simpl; intros Hx; auto. destruct Hx; auto. Qed.

Lemma sublist_nodup : forall A (l1 l2 : list A), sublist l1 l2 -> NoDup l2 -> NoDup l1.
Proof.
  induction 1; intros Hn; auto.
  - inversion Hn; subst. auto.
  - inversion Hn; subst. constructor; auto. intro Hx. apply H2. eapply sublist_in; eauto.
Qed.

Lemma sublist_app : forall A (a a' b b' : list A), sublist a a' -> sublist b b' -> sublist (a ++ b) (a' ++ b').
Proof. induction 1; intros Hb; simpl; [auto|apply sl_skip; auto|apply sl_keep; auto]. Qed.

Lemma sublist_trans : forall A (l2 l1 l3 : list A), sublist l1 l2 -> sublist l2 l3 -> sublist l1 l3.
Proof.
  intros A l2 l1 l3 H12 H23. revert l1 H12. induction H23; intros l0 H12.
  - exact H12.
  - apply sl_skip. auto.
  - inversion H12; subst.
    + apply sl_skip. auto.
    + apply sl_keep. auto.
Qed.

Lemma sublist_map : forall A B (f : A -> B) l1 l2, sublist l1 l2 -> sublist (map f l1) (map f l2).
Proof. induction 1; simpl; [apply sl_nil|apply sl_skip; auto|apply sl_keep; auto]. Qed.

Lemma sublist_flat_map : forall A B (g : A -> list B) l1 l2, sublist l1 l2 -> sublist (flat_map g l1) (flat_map g l2).
Proof.
  induction 1; simpl.
  - constructor.
  - apply (sublist_app _ [] (g x)); auto. apply sublist_nil_l.
  - apply sublist_app; auto. apply sublist_refl.
Qed.

Lemma sublist_flat_pointwise : forall A B (g g' : A -> list B) l,
  (forall x, In x l -> sublist (g' x) (g x)) -> sublist (flat_map g' l) (flat_map g l).
Proof.
  induction l as [|x r IH]; intros H; simpl; [constructor|].
  apply sublist_app; [apply H; left; reflexivity|]. apply IH. intros y Hy. apply H. right. exact Hy.
Qed.

Lemma sublist_flat_imap : forall A B C (g : B -> list C) (g0 : A -> list C) (f : nat -> A -> B) l k,
  (forall j x, In x l -> sublist (g (f j x)) (g0 x)) -> sublist (flat_map g (imap f k l)) (flat_map g0 l).
Proof.
  induction l as [|x r IH]; intros k H; simpl; [constructor|].
  apply sublist_app; [apply H; left; reflexivity|]. apply IH. intros j y Hy. apply H. right. exact Hy.
Qed.

Lemma filter_from_sublist : forall A (keep : nat -> bool) (l : list A) k, sublist (filter_from keep k l) l.
Proof. induction l as [|x r IH]; intros k; simpl; [constructor|]. destruct (keep k); [apply sl_keep|apply sl_skip]; auto. Qed.

Lemma flat_map_map : forall A B C (f : A -> B) (g : B -> list C) l, flat_map g (map f l) = flat_map (fun x => g (f x)) l.
Proof. induction l; simpl; congruence. Qed.

Lemma flat_map_ext_in_local : forall A B (f g : A -> list B) l,
  (forall x, In x l -> f x = g x) -> flat_map f l = flat_map g l.
Proof.
  induction l as [|x r IH]; intros H; simpl; auto. rewrite (H x (or_introl eq_refl)), IH; auto.
  intros y Hy. apply H. right. exact Hy.
Qed.

Lemma forallb_sublist : forall A (f : A -> bool) l1 l2, sublist l1 l2 -> forallb f l2 = true -> forallb f l1 = true.
Proof.
  induction 1; simpl; intros H2; auto.
  - apply andb_true_iff in H2. tauto.
  - apply andb_true_iff in H2. destruct H2 as [-> H2]. simpl. auto.
Qed.

Lemma mkeys_nodup_sublist : forall l1 l2, sublist l1 l2 -> mkeys_nodup l2 = true -> mkeys_nodup l1 = true.
Proof.
  induction 1; simpl; intros H2; auto.
  - apply andb_true_iff in H2. tauto.
  - apply andb_true_iff in H2. destruct H2 as [Ha Hb].
    rewrite (IHsublist Hb), andb_true_r. eapply forallb_sublist; eauto.
Qed.

Lemma nodupb_complete : forall l, NoDup l -> nodupb l = true.
Proof.
  induction 1 as [|x r Hx Hn IH]; simpl; auto. rewrite IH, andb_true_r. apply negb_true_iff.
  destruct (existsb (N.eqb x) r) eqn:E; auto. apply existsb_exists in E. destruct E as [y [Hy E]].
  apply N.eqb_eq in E. subst y. contradiction.
Qed.

Lemma wf_docb_complete : forall d, wf_doc d -> wf_docb d = true.
Proof. intros d H. apply nodupb_complete. exact H. Qed.

Lemma forallb_andb : forall A (f g : A -> bool) l, forallb (fun x => f x && g x) l = forallb f l && forallb g l.
Proof.
  induction l as [|x r IH]; simpl; auto. rewrite IH.
  destruct (f x), (g x), (forallb f r), (forallb g r); reflexivity.
Qed.

(* ---------------- the local invariants, in one ---------------- *)
Fixpoint linv (d : node) : bool :=
  match d with
  | NLeaf _ _ => true
  | NMap i kvs => has_anchor_attr i && mkeys_nodup (map fst kvs) &&
                  forallb (fun kv => is_leaf (fst kv) && linv (snd kv)) kvs
  | NSeq i els => has_anchor_attr i && forallb linv els
  | NSet i els => has_anchor_attr i && forallb is_leaf els
  end.

Lemma linv_iff : forall d,
  linv d = true <-> (wf_attr d = true /\ mkeys_distinct d = true /\ ce_flat d = true).
Proof.
  induction d using node_ind'; simpl.
  - tauto.
  - rewrite !andb_true_iff. rewrite !forallb_forall. rewrite Forall_forall in H. split.
    + intros [[Hi Hn] Hk]. repeat split; auto.
      * intros kv Hkv. specialize (Hk kv Hkv). apply andb_true_iff in Hk. apply (proj2 (H kv Hkv)). tauto.
      * intros kv Hkv. specialize (Hk kv Hkv). apply andb_true_iff in Hk. apply (proj2 (H kv Hkv)). tauto.
      * intros kv Hkv. specialize (Hk kv Hkv). apply andb_true_iff in Hk. destruct Hk as [Hl Hk].
        rewrite Hl. simpl. apply (proj2 (H kv Hkv)). exact Hk.
    + intros [[Hi Hw] [[Hn Hm] Hf]]. repeat split; auto.
      intros kv Hkv. specialize (Hf kv Hkv). apply andb_true_iff in Hf. destruct Hf as [Hl Hf].
      rewrite Hl. simpl. apply (proj2 (H kv Hkv)). auto.
  - rewrite !andb_true_iff. rewrite !forallb_forall. rewrite Forall_forall in H. split.
    + intros [Hi Hk]. repeat split; auto; intros x Hx; apply (H x Hx); auto.
    + intros [[Hi Hw] [Hm Hf]]. split; auto. intros x Hx. apply (H x Hx). auto.
  - rewrite !andb_true_iff. tauto.
Qed.

Lemma linv_wf_attr : forall d, linv d = true -> wf_attr d = true.
Proof. intros d H. apply linv_iff in H. tauto. Qed.
Lemma linv_mkeys : forall d, linv d = true -> mkeys_distinct d = true.
Proof. intros d H. apply linv_iff in H. tauto. Qed.
Lemma linv_flat : forall d, linv d = true -> ce_flat d = true.
Proof. intros d H. apply linv_iff in H. tauto. Qed.

(* ---------------- Delete: prune ---------------- *)
Lemma forallb_filter_from : forall A (f : A -> bool) keep l k,
  forallb f l = true -> forallb f (filter_from keep k l) = true.
Proof. intros. eapply forallb_sublist; [apply filter_from_sublist|assumption]. Qed.

Theorem prune_linv : forall T d, linv d = true -> linv (prune T d) = true.
Proof.
  intros T. induction d using node_ind'; simpl; intros Hd; auto.
  - apply andb_true_iff in Hd. destruct Hd as [Hd Hk]. apply andb_true_iff in Hd. destruct Hd as [Hi Hn].
    rewrite Hi. simpl. apply andb_true_iff. split.
    + eapply mkeys_nodup_sublist; [|exact Hn].
      eapply sublist_trans; [apply sublist_map; apply filter_from_sublist|].
      rewrite map_map. simpl. apply sublist_refl.
    + apply forallb_filter_from. rewrite forallb_forall in *. intros kv' Hkv'.
      apply in_map_iff in Hkv'. destruct Hkv' as [kv [<- Hkv]]. simpl.
      specialize (Hk kv Hkv). apply andb_true_iff in Hk. destruct Hk as [Hl Hk]. rewrite Hl. simpl.
      rewrite Forall_forall in H. apply (proj2 (H kv Hkv)). exact Hk.
  - apply andb_true_iff in Hd. destruct Hd as [Hi Hk]. rewrite Hi. simpl.
    apply forallb_filter_from. rewrite forallb_forall in *. intros x' Hx'.
    apply in_map_iff in Hx'. destruct Hx' as [x [<- Hx]]. rewrite Forall_forall in H. apply (H x Hx). auto.
  - apply andb_true_iff in Hd. destruct Hd as [Hi Hk]. rewrite Hi. simpl. apply forallb_filter_from. exact Hk.
Qed.

Theorem prune_coids : forall T d, sublist (coids (prune T d)) (coids d).
Proof.
  intros T. induction d using node_ind'; simpl.
  - constructor.
  - apply sl_keep.
    eapply sublist_trans; [apply sublist_flat_map; apply filter_from_sublist|].
    rewrite flat_map_map. simpl. apply sublist_flat_pointwise.
    intros kv Hkv. rewrite Forall_forall in H. apply (proj2 (H kv Hkv)).
  - apply sl_keep.
    eapply sublist_trans; [apply sublist_flat_map; apply filter_from_sublist|].
    rewrite flat_map_map. apply sublist_flat_pointwise.
    intros x Hx. rewrite Forall_forall in H. apply (H x Hx).
  - apply sublist_refl.
Qed.

(* ---------------- Set: subst with a scalar, then ksubst with a scalar ---------------- *)
Theorem subst_coids : forall P ri rv d, sublist (coids (subst P (NLeaf ri rv) d)) (coids d).
Proof.
  intros P ri rv. induction d using node_ind'; simpl.
  - constructor.
  - apply sl_keep. rewrite flat_map_map. apply sublist_flat_pointwise.
    intros kv Hkv. destruct (P (oid i) (CKey (fst kv)) (snd kv)); simpl.
    + apply sublist_nil_l.
    + rewrite Forall_forall in H. apply (proj2 (H kv Hkv)).
  - apply sl_keep. apply sublist_flat_imap.
    intros j x Hx. destruct (P (oid i) (CIdx j) x); simpl.
    + apply sublist_nil_l.
    + rewrite Forall_forall in H. apply (H x Hx).
  - apply sublist_refl.
Qed.

Theorem ksubst_coids : forall K repl d, coids (ksubst K repl d) = coids d.
Proof.
  intros K repl. induction d using node_ind'; simpl; auto.
  - f_equal. rewrite flat_map_map. simpl. apply flat_map_ext_in_local.
    intros kv Hkv. rewrite Forall_forall in H. apply (proj2 (H kv Hkv)).
  - f_equal. rewrite flat_map_map. apply flat_map_ext_in_local.
    intros x Hx. rewrite Forall_forall in H. apply (H x Hx).
Qed.

Lemma forallb_imap : forall A B (p : B -> bool) (f : nat -> A -> B) l k,
  (forall j x, In x l -> p (f j x) = true) -> forallb p (imap f k l) = true.
Proof.
  induction l as [|x r IH]; intros k H; simpl; auto.
  rewrite (H k x (or_introl eq_refl)). simpl. apply IH. intros j y Hy. apply H. right. exact Hy.
Qed.

Theorem subst_linv : forall P ri rv d, linv d = true -> linv (subst P (NLeaf ri rv) d) = true.
Proof.
  intros P ri rv. induction d using node_ind'; simpl; intros Hd; auto.
  - apply andb_true_iff in Hd. destruct Hd as [Hd Hk]. apply andb_true_iff in Hd. destruct Hd as [Hi Hn].
    rewrite Hi. simpl. apply andb_true_iff. split.
    + rewrite map_map.
      rewrite (map_ext _ fst); [exact Hn|]. intros kv. destruct (P (oid i) (CKey (fst kv)) (snd kv)); reflexivity.
    + rewrite forallb_forall in *. intros kv' Hkv'. apply in_map_iff in Hkv'. destruct Hkv' as [kv [<- Hkv]].
      specialize (Hk kv Hkv). apply andb_true_iff in Hk. destruct Hk as [Hl Hk].
      destruct (P (oid i) (CKey (fst kv)) (snd kv)); simpl; rewrite Hl; simpl; auto.
      rewrite Forall_forall in H. apply (proj2 (H kv Hkv)). exact Hk.
  - apply andb_true_iff in Hd. destruct Hd as [Hi Hk]. rewrite Hi. simpl.
    apply forallb_imap. intros j x Hx. destruct (P (oid i) (CIdx j) x); auto.
    rewrite Forall_forall in H. apply (H x Hx). rewrite forallb_forall in Hk. auto.
Qed.

(* ---- the keys after the replacement of the alias keys ---- *)
Section KeysReplace.
Variables (roid : N) (repl : node).
Let K := kdesignated roid.
Let isr := fun kv : node * node => N.eqb (node_oid (fst kv)) roid.
Let newkey := fun kv : node * node => if K (fst kv) then repl else fst kv.

Lemma no_ref_unchanged : forall l, List.length (filter isr l) = 0 -> map newkey l = map fst l.
Proof.
  induction l as [|kv r IH]; simpl; intros H; auto.
  unfold isr at 1 in H. destruct (N.eqb (node_oid (fst kv)) roid) eqn:E; simpl in H; [discriminate|].
  rewrite IH by exact H. f_equal. unfold newkey, K, kdesignated. rewrite E. reflexivity.
Qed.

Lemma keys_replace_nodup : forall kvs,
  mkeys_nodup (map fst kvs) = true ->
  (List.length (filter isr kvs) <= 1)%nat ->
  (forall kv, In kv kvs -> K (fst kv) = true ->
     forall kv', In kv' kvs -> isr kv' = false -> mkey_eq (fst kv') repl = false) ->
  mkeys_nodup (map newkey kvs) = true.
Proof.
  induction kvs as [|kv0 r IH]; simpl; intros Hn Hone Hc; auto.
  apply andb_true_iff in Hn. destruct Hn as [Hh Hr].
  destruct (isr kv0) eqn:E0; simpl in Hone.
  - (* the head is the matched object: the rest holds no key that is *)
    assert (Hz : List.length (filter isr r) = 0) by lia.
    rewrite (no_ref_unchanged r Hz). rewrite Hr, andb_true_r.
    unfold newkey at 1. destruct (K (fst kv0)) eqn:EK; [|exact Hh].
    apply forallb_forall. intros k' Hk'. apply in_map_iff in Hk'. destruct Hk' as [kv' [<- Hkv']].
    rewrite mkey_eq_sym. rewrite (Hc kv0 (or_introl eq_refl) EK kv' (or_intror Hkv')); auto.
    (* kv' is not the matched object *)
    destruct (isr kv') eqn:E'; auto.
    assert (In kv' (filter isr r)) by (apply filter_In; auto).
    destruct (filter isr r); [contradiction|discriminate].
  - rewrite IH; auto.
    + rewrite andb_true_r. unfold newkey at 1.
      assert (EK : K (fst kv0) = false).
      { unfold K, kdesignated. unfold isr in E0. rewrite E0. reflexivity. }
      rewrite EK. apply forallb_forall. intros k' Hk'. apply in_map_iff in Hk'. destruct Hk' as [kv' [<- Hkv']].
      unfold newkey. destruct (K (fst kv')) eqn:EK'.
      * rewrite (Hc kv' (or_intror Hkv') EK' kv0 (or_introl eq_refl) E0). reflexivity.
      * rewrite forallb_forall in Hh. apply Hh. apply in_map. exact Hkv'.
    + intros kv Hkv HK kv' Hkv' E'. apply (Hc kv (or_intror Hkv) HK kv' (or_intror Hkv') E').
Qed.
End KeysReplace.

(* THE SET STEP keeps the local invariants: the hypotheses are the guard alias_clean and the fact a
   completed _update_node witnesses (key_conflict = false) *)
Theorem set_linv : forall poid pref roid ri rv d,
  linv d = true -> alias_clean poid roid d = true -> key_conflict roid (NLeaf ri rv) d = false ->
  linv (ksubst (kdesignated roid) (NLeaf ri rv) (subst (designated poid pref roid) (NLeaf ri rv) d)) = true.
Proof.
  intros poid pref roid ri rv. set (repl := NLeaf ri rv).
  induction d using node_ind'; intros Hd Hcl Hnc.
  - reflexivity.
  - simpl in Hd. apply andb_true_iff in Hd. destruct Hd as [Hd Hk]. apply andb_true_iff in Hd. destruct Hd as [Hi Hn].
    simpl in Hcl. apply andb_true_iff in Hcl. destruct Hcl as [Hone Hcl].
    simpl in Hnc. apply orb_false_iff in Hnc. destruct Hnc as [Hnc1 Hnc2].
    simpl. rewrite Hi. simpl. apply andb_true_iff. split.
    + rewrite !map_map.
      rewrite (map_ext _ (fun kv => if kdesignated roid (fst kv) then repl else fst kv)).
      2:{ intros kv. simpl. destruct (designated poid pref roid (oid i) (CKey (fst kv)) (snd kv)); reflexivity. }
      apply keys_replace_nodup; auto.
      * apply Nat.leb_le. exact Hone.
      * intros kv Hkv HK kv' Hkv' E'.
        pose proof (existsb_false _ _ _ Hnc1 kv Hkv) as F. simpl in F.
        unfold kdesignated in HK. unfold is_ref, hattr in F. rewrite HK in F. simpl in F.
        pose proof (existsb_false _ _ _ F kv' Hkv') as G. simpl in G.
        unfold is_ref in G. rewrite E' in G. simpl in G. rewrite <- key_eqb_mkey. exact G.
    + rewrite forallb_forall in *. intros kv2 Hkv2.
      apply in_map_iff in Hkv2. destruct Hkv2 as [kv1 [<- Hkv1]].
      apply in_map_iff in Hkv1. destruct Hkv1 as [kv [<- Hkv]].
      specialize (Hk kv Hkv). apply andb_true_iff in Hk. destruct Hk as [Hl Hk].
      specialize (Hcl kv Hkv). apply andb_true_iff in Hcl. destruct Hcl as [_ Hclv].
      pose proof (existsb_false _ _ _ Hnc2 kv Hkv) as Hncv. cbv beta in Hncv.
      rewrite Forall_forall in H. destruct (H kv Hkv) as [_ IHv].
      assert (Hfst : is_leaf (if kdesignated roid (fst kv) then repl else fst kv) = true)
        by (destruct (kdesignated roid (fst kv)); [reflexivity|exact Hl]).
      destruct (designated poid pref roid (oid i) (CKey (fst kv)) (snd kv)) eqn:EP; cbn [fst snd].
      * rewrite Hfst. reflexivity.
      * rewrite Hfst. simpl.
        unfold is_ref in Hncv. destruct (N.eqb (node_oid (snd kv)) roid) eqn:Er; simpl in Hncv.
        -- (* the value is the matched object but not designated: a scalar without the attribute *)
           unfold designated in EP. rewrite Er in EP. simpl in EP. apply orb_false_iff in EP. destruct EP as [Ea _].
           rewrite (subst_leaf_like _ _ (snd kv)) by (auto using linv_wf_attr).
           destruct (leaf_of_no_attr _ (linv_wf_attr _ Hk) Ea) as [li [lv El]]. rewrite El. reflexivity.
        -- apply IHv; auto.
  - simpl in Hd. apply andb_true_iff in Hd. destruct Hd as [Hi Hk].
    simpl in Hcl. simpl in Hnc. simpl. rewrite Hi. simpl.
    rewrite forallb_forall in *. intros y Hy. apply in_map_iff in Hy. destruct Hy as [x' [<- Hx']].
    revert x' Hx'. apply forallb_forall. apply forallb_imap. intros j x Hx.
    destruct (designated poid pref roid (oid i) (CIdx j) x); [reflexivity|].
    rewrite Forall_forall in H. apply (H x Hx); auto.
    apply (existsb_false _ _ _ Hnc x Hx).
  - simpl. exact Hd.
Qed.

Theorem set_coids : forall P K ri rv d,
  sublist (coids (ksubst K (NLeaf ri rv) (subst P (NLeaf ri rv) d))) (coids d).
Proof. intros. rewrite ksubst_coids. apply subst_coids. Qed.
