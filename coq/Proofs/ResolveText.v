(* Resolve, step 2: the text built for a location parses - in both parsing
   modes, through separator inference - to one KEY segment per mapping key /
   set member and one INDEX segment per sequence position, and [prepare]
   (what the evaluator consumes) pairs them up.

   Everything is proved for a generic text [pg_text S sepidx sp l]: keys in
   the written form [wr S] for ANY symbol set S that contains the characters
   the parser does not take as plain text ([pb_hard]), with or without a
   separator before "[index]".  Instances: build_path (what str() shows / what
   yaml-paths builds), build_orig (the `.original` text Processor and Differ
   build by repeated append), and the canonical text of either in the other
   notation. *)
From Coq Require Import List Ascii String ZArith NArith Bool Arith Lia.
From YP Require Import Outcome PyStr PyVal Doc Generated PathParser PathPrinter Searches Eval C08Spec
     RtStep RtSeg RtInt RtRender RtTables RtCanon PathBuild ResolveWr.
Import ListNotations.
Open Scope string_scope.
Open Scope nat_scope.

Inductive gseg := GK (k : string) | GI (z : Z).

Definition gs_of_ref (r : ref) : gseg :=
  match r with
  | RKey k | RMember k => GK (py_str k)
  | RIdx i => GI (Z.of_nat i)
  end.

Definition gsafe (sepc : ascii) (g : gseg) : bool :=
  match g with GK k => safe_key sepc k | GI _ => true end.

Section Gen.
Variable Ssyms : list ascii.
Variable sepidx : bool.

Definition pg_seg (sepc : ascii) (first : bool) (g : gseg) : string :=
  match g with
  | GK k => (if first then "" else str1 sepc) ++ wr Ssyms false k
  | GI z => (if sepidx && negb first then str1 sepc else "") ++ "[" ++ str_of_Z z ++ "]"
  end.

Fixpoint pg_go (sepc : ascii) (first : bool) (l : list gseg) : string :=
  match l with
  | [] => ""
  | g :: r => pg_seg sepc first g ++ pg_go sepc false r
  end.

Definition pg_text (sp : sep) (l : list gseg) : string :=
  (match sp with Slash => "/" | Dot => "" end) ++ pg_go (sep_char sp) true l.

(* the segment each parse returns *)
Definition gseg_seg (strip : bool) (g : gseg) : seg :=
  match g with
  | GK k => (Some TKey, AStr (keptw strip Ssyms false k))
  | GI z => (Some TIndex, AInt z)
  end.

Section Run.
Variable sp : sep.
Variable strip : bool.
Hypothesis Hcov : forall c, mem_ascii c (pb_hard (sep_char sp)) = true -> mem_ascii c Ssyms = true.
Notation sepc := (sep_char sp).
Notation R := (run strip sepc).

Lemma safe_key_parts k :
  safe_key sepc k = true ->
  nonempty k = true /\ str_in "*"%char k = false /\ pb_first_not "&"%char k = true
  /\ okb (bs :: pb_hard sepc) false k = true.
Proof.
  unfold safe_key. intros H.
  apply andb_true_iff in H. destruct H as [H H4]. apply andb_true_iff in H. destruct H as [H H3].
  apply andb_true_iff in H. destruct H as [H1 H2]. apply negb_true_iff in H2.
  rewrite okb_no_bs_before. repeat split; assumption.
Qed.

Lemma key_run S ty A sa k rest :
  safe_key sepc k = true ->
  R (Top S ty A "" sa false) (wr Ssyms false k ++ rest)
  = R (Top S ty A (keptw strip Ssyms false k) false false) rest.
Proof.
  intros Hs. destruct (safe_key_parts k Hs) as (H1 & H2 & H3 & H4).
  rewrite run_app. rewrite (wr_run strip sp Ssyms Hcov S ty A k false "" sa H4); [|discriminate|intros _; exact H3].
  cbn [bind append]. destruct k; [discriminate H1 | reflexivity].
Qed.

Lemma keptw_pend k : safe_key sepc k = true ->
  pend (keptw strip Ssyms false k) None = Ok [(Some TKey, AStr (keptw strip Ssyms false k))].
Proof.
  intros Hs. destruct (safe_key_parts k Hs) as (H1 & H2 & H3 & H4).
  apply pend_nostar; unfold keptw; destruct strip; try assumption.
  - apply wr_nonempty. exact H1.
  - rewrite wr_str_in by reflexivity. exact H2.
Qed.

Definition idx_x (z : Z) : xseg := (((Some TIndex, AInt z), plain_style), []).

Lemma idx_run done st z rest :
  Inv false done st ->
  exists st', R st (("[" ++ str_of_Z z ++ "]") ++ rest) = R st' rest /\ Inv false (done ++ [(Some TIndex, AInt z)])%list st'.
Proof.
  intros HI.
  destruct (seg_self sp strip (idx_x z) false done st rest HI eq_refl eq_refl) as (st' & H1 & H2).
  exists st'. split; [exact H1 | exact H2].
Qed.

Lemma inv_after_sep S A : Inv false S (Top S None A "" true false).
Proof. exists S, None, A, "", true, false, []. repeat split; try discriminate. apply app_nil_r. Qed.

Lemma pg_go_run : forall l first done st,
  Inv false done st ->
  (first = true -> exists A sa, st = Top done None A "" sa false) ->
  forallb (gsafe sepc) l = true ->
  exists st', R st (pg_go sepc first l) = Ok st' /\ finish st' = Ok (done ++ map (gseg_seg strip) l)%list.
Proof.
  induction l as [|g r IH]; intros first done st HI Hfirst Hs.
  - exists st. split; [reflexivity|].
    destruct HI as (S & ty0 & A & acc & sa & sc & p & -> & Hp & <- & _).
    rewrite finish_top, Hp. cbn. rewrite app_nil_r. reflexivity.
  - cbn [forallb] in Hs. apply andb_true_iff in Hs. destruct Hs as [Hg Hr].
    cbn [pg_go map].
    assert (Hfin : forall st1, Inv false (done ++ [gseg_seg strip g])%list st1 ->
                   exists st', R st1 (pg_go sepc false r) = Ok st'
                               /\ finish st' = Ok (done ++ gseg_seg strip g :: map (gseg_seg strip) r)%list).
    { intros st1 HI1. destruct (IH false _ st1 HI1) as (st' & H1 & H2); [discriminate | exact Hr |].
      exists st'. split; [exact H1|]. rewrite H2, <- app_assoc. reflexivity. }
    destruct g as [k|z]; cbn [pg_seg gseg_seg gsafe] in *.
    + (* a key *)
      assert (Hkey : forall S A sa, exists st1,
                 R (Top S None A "" sa false) (wr Ssyms false k ++ pg_go sepc false r) = R st1 (pg_go sepc false r)
                 /\ Inv false (S ++ [(Some TKey, AStr (keptw strip Ssyms false k))])%list st1).
      { intros S A sa. eexists. split; [apply key_run; exact Hg|].
        exists S, None, A, (keptw strip Ssyms false k), false, false, [(Some TKey, AStr (keptw strip Ssyms false k))].
        repeat split; try discriminate. apply keptw_pend. exact Hg. }
      destruct first.
      * destruct (Hfirst eq_refl) as (A & sa & ->). change ("" ++ ?x) with x.
        destruct (Hkey done A sa) as (st1 & H1 & HI1).
        destruct (Hfin st1 HI1) as (st' & H2 & H3). exists st'. split; [rewrite H1; exact H2 | exact H3].
      * destruct HI as (S & ty0 & A & acc & sa & sc & p & -> & Hp & <- & _ & Hc2).
        rewrite (Hc2 eq_refl). change ((str1 sepc ++ ?xa) ++ ?xb) with (String sepc (xa ++ xb)).
        cbn [run]. rewrite sep_step_top, Hp. cbn [bind].
        destruct (Hkey (S ++ p)%list A true) as (st1 & H1 & HI1).
        destruct (Hfin st1 HI1) as (st' & H2 & H3). exists st'. split; [rewrite H1; exact H2 | exact H3].
    + (* an index *)
      destruct (sepidx && negb first) eqn:Esep.
      * destruct HI as (S & ty0 & A & acc & sa & sc & p & -> & Hp & <- & _ & Hc2).
        rewrite (Hc2 eq_refl). change ((str1 sepc ++ ?xa) ++ ?xb) with (String sepc (xa ++ xb)).
        cbn [run]. rewrite sep_step_top, Hp. cbn [bind].
        destruct (idx_run (S ++ p)%list _ z (pg_go sepc false r) (inv_after_sep (S ++ p)%list A)) as (st1 & H1 & HI1).
        destruct (Hfin st1 HI1) as (st' & H2 & H3). exists st'. split; [rewrite H1; exact H2 | exact H3].
      * change ("" ++ ?x) with x.
        destruct (idx_run done st z (pg_go sepc false r) HI) as (st1 & H1 & HI1).
        destruct (Hfin st1 HI1) as (st' & H2 & H3). exists st'. split; [rewrite H1; exact H2 | exact H3].
Qed.

End Run.

Theorem pg_parse sp strip l :
  (forall c, mem_ascii c (pb_hard (sep_char sp)) = true -> mem_ascii c Ssyms = true) ->
  forallb (gsafe (sep_char sp)) l = true -> (is_nil l || nonblank (pg_text sp l)) = true ->
  parse (Forced sp) strip (pg_text sp l) = Ok (map (gseg_seg strip) l).
Proof.
  intros Hcov Hs Hbl. unfold nonblank in Hbl.
  destruct l as [|x r].
  - destruct sp; vm_compute; reflexivity.
  - cbn [is_nil orb] in Hbl. unfold parse. rewrite (normalize_nonblank _ Hbl).
    destruct (pg_text sp (x :: r)) as [|c0 t] eqn:Et; [discriminate Hbl|].
    cbn [effective_sep].
    destruct sp.
    + cbn [nth_char String.get]. cbv beta iota.
      unfold pg_text in Et. change ("" ++ ?z) with z in Et.
      destruct (pg_go_run Dot strip Hcov (x :: r) true [] (Top [] None "" "" (Ascii.eqb c0 "&"%char) false)
                  (inv_init _)) as (st' & H1 & H2).
      { intros _. eexists "", _. reflexivity. }
      { exact Hs. }
      rewrite init_is_top. cbn [sepc_of sep_char] in Et, H1 |- *. rewrite <- Et. rewrite H1. cbn [bind]. exact H2.
    + unfold pg_text in Et. change ("/" ++ ?z) with (String "/"%char z) in Et. injection Et as <- <-.
      destruct (pg_go_run Slash strip Hcov (x :: r) true [] (Top [] None "" "" true false) (inv_init _)) as (st' & H1 & H2).
      { intros _. eexists "", _. reflexivity. }
      { exact Hs. }
      destruct (nth_char _ _) as [c1|] eqn:En.
      * rewrite init_is_top. cbn [sepc_of run]. rewrite (sep_step_top strip Slash). cbn [pend nonempty bind app].
        cbn [sep_char pg_go] in H1 |- *. rewrite H1. cbn [bind]. exact H2.
      * exfalso. eapply nth_slash. exact En.
Qed.

(* ---- what [prepare] makes of the two parses ---- *)
Definition pb_psegs (l : list gseg) : list pseg :=
  map (fun g => PSeg (gseg_seg true g) (gseg_seg false g) (PPath []) (PPath [])) l.

Lemma zip_segs_g prep : forall l,
  zip_segs prep (map (gseg_seg true) l) (map (gseg_seg false) l) = Ok (pb_psegs l).
Proof.
  induction l as [|g r IH]; [reflexivity|]. cbn [map zip_segs pb_psegs].
  destruct g; cbn [gseg_seg snd]; cbn [bind]; fold (pb_psegs r); rewrite IH; reflexivity.
Qed.

Theorem pg_prepare sp l f :
  (forall c, mem_ascii c (pb_hard (sep_char sp)) = true -> mem_ascii c Ssyms = true) ->
  forallb (gsafe (sep_char sp)) l = true -> (is_nil l || nonblank (pg_text sp l)) = true ->
  (sp = Dot -> first_not_in ["/"%char] (pg_text sp l) = true) ->
  prepare (Datatypes.S f) (pg_text sp l) = Ok (PPath (pb_psegs l)).
Proof.
  intros Hcov Hs Hbl Hd.
  assert (Ha : forall strip, parse Auto strip (pg_text sp l) = Ok (map (gseg_seg strip) l)).
  { intros strip. rewrite (parse_auto_forced sp); [apply pg_parse; assumption | exact Hd |].
    intros ->. eexists. reflexivity. }
  cbn [prepare]. rewrite (Ha true).
  destruct l as [|g r]; [reflexivity|].
  cbn [map]. rewrite (Ha false). change (gseg_seg true g :: map (gseg_seg true) r) with (map (gseg_seg true) (g :: r)).
  rewrite zip_segs_g. reflexivity.
Qed.
End Gen.

(* ====================================================================== *)
(* the instances *)

Lemma has_ns_pb s : pb_has_ns s = has_ns s.
Proof. induction s as [|c r IH]; [reflexivity|]. cbn. rewrite IH. reflexivity. Qed.

Lemma has_ns_app a b : has_ns (a ++ b) = (has_ns a || has_ns b)%bool.
Proof. induction a as [|c r IH]; [reflexivity|]. cbn. rewrite IH, orb_assoc. reflexivity. Qed.

Lemma safe_key_okbs sepc k : safe_key sepc k = true -> okb [bs] false k = true.
Proof.
  intros H. unfold safe_key in H. apply andb_true_iff in H. destruct H as [_ H].
  rewrite <- okb_no_bs_before in H. eapply okb_sub; [|exact H].
  intros c Hc. unfold bs in *. cbn [mem_ascii] in Hc |- *. destruct (Ascii.eqb c "\"%char); [reflexivity | discriminate Hc].
Qed.

(* digits: the text of an integer key is a safe key text *)
Lemma slice_char_safe c : is_slice_char c = true ->
  Ascii.eqb c bs = false /\ Ascii.eqb "*"%char c = false /\ Ascii.eqb c "&"%char = false.
Proof. intros H. all_ascii c; vm_compute in H; try discriminate H; repeat split; reflexivity. Qed.

Lemma all_slice_nobs H : forall s, all_chars is_slice_char s = true -> pb_no_bs_before H s = true.
Proof.
  induction s as [|c r IH]; [reflexivity|]. cbn [all_chars pb_no_bs_before]. intros E.
  apply andb_true_iff in E. destruct E as [E1 E2]. destruct (slice_char_safe c E1) as (Hb & _ & _).
  unfold bs in Hb. rewrite Hb, (IH E2). reflexivity.
Qed.

Lemma all_slice_nostar : forall s, all_chars is_slice_char s = true -> str_in "*"%char s = false.
Proof.
  induction s as [|c r IH]; [reflexivity|]. cbn [all_chars str_in]. intros E.
  apply andb_true_iff in E. destruct E as [E1 E2]. destruct (slice_char_safe c E1) as (_ & Hs & _).
  rewrite Hs. exact (IH E2).
Qed.

Lemma safe_key_int sepc z : safe_key sepc (str_of_Z z) = true.
Proof.
  destruct (str_of_Z_chars z) as [H1 _]. pose proof (py_int_str_of_Z z) as H3.
  unfold safe_key. rewrite (all_slice_nobs _ _ H1), (all_slice_nostar _ H1).
  destruct (str_of_Z z) as [|c r] eqn:E; [vm_compute in H3; discriminate H3|].
  cbn [all_chars] in H1. apply andb_true_iff in H1. destruct H1 as [Hc _].
  destruct (slice_char_safe c Hc) as (_ & _ & Ha). cbn. rewrite Ha. reflexivity.
Qed.

Lemma safe_go_gsafe sepc : forall l d, pb_safe_go sepc d l = true -> forallb (gsafe sepc) (map gs_of_ref l) = true.
Proof.
  induction l as [|r rest IH]; intros d H; [reflexivity|]. cbn [pb_safe_go] in H.
  apply andb_true_iff in H. destruct H as [H1 H2].
  destruct (child d r) as [c|]; [|discriminate H2].
  cbn [map forallb]. rewrite (IH c H2), andb_true_r.
  destruct r as [k|i|k]; cbn [gs_of_ref gsafe]; try reflexivity;
    destruct k; cbn [pb_safe_ref py_str] in H1 |- *; try discriminate H1; try exact H1; apply safe_key_int.
Qed.

(* build_path is the generic text with escape_path_section's own symbol set *)
Lemma build_path_pg sp : forall l,
  forallb (gsafe (sep_char sp)) (map gs_of_ref l) = true ->
  build_path sp l = pg_text (sec_set sp) false sp (map gs_of_ref l).
Proof.
  intros l H. unfold build_path, pg_text. f_equal.
  generalize true as first. revert H.
  induction l as [|r rest IH]; intros H first; [reflexivity|].
  cbn [map forallb] in H. apply andb_true_iff in H. destruct H as [H1 H2].
  cbn [pb_go map pg_go]. rewrite (IH H2). f_equal.
  destruct r as [k|i|k]; cbn [pb_ref_text gs_of_ref pg_seg gsafe] in *; try reflexivity;
    unfold pb_sec; rewrite (escape_section_wr sp _ (safe_key_okbs _ _ H1)); reflexivity.
Qed.

(* the first character of a written key *)
Lemma wr_first_not S c k :
  Ascii.eqb c bs = false -> pb_first_not c k = true -> pb_first_not c (wr S false k) = true.
Proof.
  intros Hc H. destruct k as [|d r]; [reflexivity|]. cbn [wr].
  destruct (Ascii.eqb d bs) eqn:E.
  - cbn [pb_first_not]. rewrite (Ascii.eqb_sym bs c), Hc. reflexivity.
  - destruct (mem_ascii d S && negb false); [cbn [pb_first_not]; rewrite (Ascii.eqb_sym bs c), Hc; reflexivity | exact H].
Qed.

Lemma first_not_pb c s : pb_first_not c s = first_not_in [c] s.
Proof. destruct s as [|d r]; [reflexivity|]. cbn. rewrite (Ascii.eqb_sym d c). destruct (Ascii.eqb c d); reflexivity. Qed.

Lemma first_not_app c a b : nonempty a = true -> first_not_in [c] (a ++ b) = first_not_in [c] a.
Proof. destruct a; [discriminate | reflexivity]. Qed.

(* the written forms for two symbol sets have the same non-blank characters,
   when the second set protects every white-space character the first does *)
Lemma has_ns_wr_sets S1 S2 :
  (forall c, is_space_py c = true -> mem_ascii c S1 = true -> mem_ascii c S2 = true) ->
  forall k pb, has_ns (wr S1 pb k) = true -> has_ns (wr S2 pb k) = true.
Proof.
  intros H12. induction k as [|c r IH]; intros pb; [intros E; exact E|]. cbn [wr].
  destruct (Ascii.eqb c bs); [intros _; reflexivity|].
  destruct (mem_ascii c S1 && negb pb) eqn:E1, (mem_ascii c S2 && negb pb) eqn:E2; cbn [has_ns]; intros E; try reflexivity.
  - apply andb_true_iff in E1. destruct E1 as [E1 Ep]. rewrite Ep, andb_true_r in E2.
    destruct (is_space_py c) eqn:Es; [rewrite (H12 c Es E1) in E2; discriminate E2 | reflexivity].
  - apply orb_true_iff in E. destruct E as [E|E]; [rewrite E; reflexivity | rewrite (IH _ E); apply orb_true_r].
Qed.

Lemma T_sec_space c :
  is_space_py c = true -> mem_ascii c (sec_set Dot) = true -> mem_ascii c (pb_hard "."%char) = true.
Proof. intros H1 H2. all_ascii c; vm_compute in H1; try discriminate H1; vm_compute in H2; try discriminate H2; reflexivity. Qed.

Lemma first_key_conditions S k rest :
  (forall c, mem_ascii c (pb_hard "."%char) = true -> mem_ascii c S = true) ->
  safe_key "."%char k = true -> pb_first_not "/"%char k = true ->
  pb_has_ns (escape_path_section k "."%char) = true ->
  nonblank (wr S false k ++ rest) = true /\ first_not_in ["/"%char] (wr S false k ++ rest) = true.
Proof.
  intros Hcov Hk F1 F2. split.
  - apply has_ns_nonblank. rewrite has_ns_app.
    change "."%char with (sep_char Dot) in F2.
    rewrite (escape_section_wr Dot _ (safe_key_okbs _ _ Hk)) in F2. rewrite has_ns_pb in F2.
    rewrite (has_ns_wr_sets (sec_set Dot) S) with (1 := fun c H1 H2 => Hcov c (T_sec_space c H1 H2)) (2 := F2). reflexivity.
  - rewrite first_not_app by (apply wr_nonempty; destruct (safe_key_parts Dot _ Hk) as (N & _); exact N).
    rewrite <- first_not_pb. apply wr_first_not; [reflexivity | exact F1].
Qed.

(* the side conditions of the generic theorem, from the guard *)
Lemma pg_first_conditions S sepidx d l :
  (forall c, mem_ascii c (pb_hard "."%char) = true -> mem_ascii c S = true) ->
  pb_safe Dot d l = true ->
  (is_nil (map gs_of_ref l) || nonblank (pg_text S sepidx Dot (map gs_of_ref l))) = true
  /\ first_not_in ["/"%char] (pg_text S sepidx Dot (map gs_of_ref l)) = true.
Proof.
  unfold pb_safe. intros Hcov H. apply andb_true_iff in H. destruct H as [H H3].
  apply andb_true_iff in H. destruct H as [_ H2].
  destruct l as [|r rest]; [split; reflexivity|].
  cbn [map is_nil orb]. unfold pg_text. change ("" ++ ?x) with x. cbn [pg_go].
  cbn [pb_safe_go] in H2. apply andb_true_iff in H2. destruct H2 as [Hr _].
  destruct r as [k|i|k]; cbn [gs_of_ref pg_seg andb negb pb_first_ok] in *.
  - apply andb_true_iff in H3. destruct H3 as [F1 F2]. change ("" ++ ?x) with x.
    apply first_key_conditions; [exact Hcov| |exact F1|exact F2].
    destruct k; cbn [pb_safe_ref py_str] in Hr |- *; try discriminate Hr; try exact Hr. apply safe_key_int.
  - split; [apply has_ns_nonblank; rewrite andb_false_r; reflexivity | rewrite andb_false_r; reflexivity].
  - apply andb_true_iff in H3. destruct H3 as [F1 F2]. change ("" ++ ?x) with x.
    apply first_key_conditions; [exact Hcov| |exact F1|exact F2].
    destruct k; cbn [pb_safe_ref py_str] in Hr |- *; try discriminate Hr; exact Hr.
Qed.

Lemma nonblank_slash_text S sepidx l :
  (is_nil l || nonblank (pg_text S sepidx Slash l)) = true.
Proof. destruct l; [reflexivity|]. cbn [is_nil orb]. unfold pg_text. apply nonblank_slash. Qed.

(* ---- resolve_text for the generic text: the guard suffices ---- *)
Theorem pg_prepare_safe S sepidx sp d l f :
  (forall c, mem_ascii c (pb_hard (sep_char sp)) = true -> mem_ascii c S = true) ->
  pb_safe sp d l = true ->
  prepare (Datatypes.S f) (pg_text S sepidx sp (map gs_of_ref l)) = Ok (PPath (pb_psegs S (map gs_of_ref l))).
Proof.
  intros Hcov Hs.
  assert (Hg : forallb (gsafe (sep_char sp)) (map gs_of_ref l) = true).
  { unfold pb_safe in Hs. apply andb_true_iff in Hs. destruct Hs as [Hs _].
    apply andb_true_iff in Hs. destruct Hs as [_ Hs]. eapply safe_go_gsafe. exact Hs. }
  apply pg_prepare; try assumption.
  - destruct sp; [apply (pg_first_conditions S sepidx d l Hcov Hs) | apply nonblank_slash_text].
  - intros ->. apply (pg_first_conditions S sepidx d l Hcov Hs).
Qed.

(* resolve_text: the text str() shows / yaml-paths builds *)
Theorem resolve_text sp d l f :
  pb_safe sp d l = true ->
  prepare (Datatypes.S f) (build_path sp l) = Ok (PPath (pb_psegs (sec_set sp) (map gs_of_ref l))).
Proof.
  intros Hs.
  assert (Hg : forallb (gsafe (sep_char sp)) (map gs_of_ref l) = true).
  { unfold pb_safe in Hs. apply andb_true_iff in Hs. destruct Hs as [Hs0 _].
    apply andb_true_iff in Hs0. destruct Hs0 as [_ Hs0]. eapply safe_go_gsafe. exact Hs0. }
  rewrite (build_path_pg sp l Hg). apply (pg_prepare_safe _ _ sp d); [apply sec_set_hard | exact Hs].
Qed.
