(* C01, path level, part 4: the public entry points against [sem_doc]; the
   optional query on a path that exists in every branch. *)
From Coq Require Import List Ascii String ZArith NArith Bool Arith Lia.
From YP Require Import Outcome PyStr PyVal Doc Generated PathParser PathPrinter Searches Eval SpecC01 SpecC15
  EvalSem EvalSemLib EvalSemSeg EvalSemPath SpecC01Facts EvalGood EvalHandlers EvalTotal C08Spec RtTables.
Import ListNotations.
Open Scope string_scope.
Open Scope nat_scope.

Section Top.
Variable lit : string -> outcome litres.
Variable re_search : string -> string -> outcome reres.
Variable nstr : node -> string.
Variable vstr : list rval -> string.
Variable kw_handler : bool -> keyword -> string -> rval -> ctx -> gen rval.
Variable creator : list pseg -> nat -> rval -> ctx -> gen rval.

Notation EV := (ev lit re_search nstr vstr kw_handler creator).
Notation SEM := (sem_doc lit re_search nstr false).          (* the documented meaning *)
Notation GUARD := (sem_doc lit re_search nstr true).         (* the same with the listed findings marked *)

Lemma sem_doc_strict_eq p d : specified (GUARD p d) = true -> SEM p d = GUARD p d.
Proof.
  unfold sem_doc. intros H.
  assert (E : specified (sem_path lit re_search nstr true p true d) = true ->
              sem_path lit re_search nstr false p true d = sem_path lit re_search nstr true p true d).
  { apply (sem_strict_eq lit re_search nstr (pweight p)). lia. }
  destruct d as [i v|i kvs|i els|i els]; try (apply E; exact H).
  destruct v; try (apply E; exact H). reflexivity.
Qed.

(* the driver from the document root *)
Theorem ev_root_sem segs d c :
  c01_frag (PPath segs) = true ->
  specified (sem_path lit re_search nstr true (PPath segs) true d) = true ->
  let g := EV (fuel_for (PPath segs)) MReq segs 0 (RNode d) c in
  snd g = Done /\ map item_res (fst g) = sem_path lit re_search nstr false (PPath segs) true d.
Proof.
  intros Hfr Hs. cbv zeta.
  rewrite c01_frag_ppath in Hfr. apply andb_prop in Hfr. destruct Hfr as [Hnd Hfr].
  assert (Hw : wsegs (skipn 0 segs) < fuel_for (PPath segs)).
  { unfold fuel_for. rewrite pweight_ppath. cbn [skipn]. lia. }
  pose proof (ev_sem lit re_search nstr vstr kw_handler creator _ segs 0 d c Hw Hfr Hnd) as Ha.
  cbn [skipn] in Ha. rewrite <- (sem_path_ppath lit re_search nstr) in Ha.
  destruct (Ha Hs) as [H1 H2]. split; [exact H1|].
  rewrite H2. symmetry. apply (sem_strict_eq lit re_search nstr (pweight (PPath segs))); [lia | exact Hs].
Qed.

(* Processor.get_nodes(path, mustexist=True) on a document that is not null *)
Theorem required_sem p d :
  c01_frag p = true -> is_null_node d = false -> specified (GUARD p d) = true ->
  let g := get_required lit re_search nstr vstr kw_handler creator p d in
  map item_res (fst g) = SEM p d /\
  snd g = match SEM p d with [] => Err (YPE Unmatched) | _ => Done end.
Proof.
  intros Hfr Hnn Hs. cbv zeta.
  assert (Hcore : forall segs, p = PPath segs ->
            specified (sem_path lit re_search nstr true p true d) = true ->
            let g := match EV (fuel_for p) MReq segs 0 (RNode d) root_ctx with
                     | ([], Done) => gerr (YPE Unmatched)
                     | g => g
                     end in
            map item_res (fst g) = sem_path lit re_search nstr false p true d /\
            snd g = match sem_path lit re_search nstr false p true d with [] => Err (YPE Unmatched) | _ => Done end).
  { intros segs -> Hs'. cbv zeta.
    destruct (ev_root_sem segs d root_ctx Hfr Hs') as [H1 H2].
    destruct (EV (fuel_for (PPath segs)) MReq segs 0 (RNode d) root_ctx) as [l s]. cbn [fst snd] in H1, H2. subst s.
    rewrite <- H2. destruct l; cbn [map fst snd gerr]; split; reflexivity. }
  unfold get_required, sem_doc in *.
  destruct p as [segs|e].
  - destruct d as [i v|i kvs|i els|i els]; try (apply (Hcore segs eq_refl); exact Hs).
    destruct v; try discriminate; apply (Hcore segs eq_refl); exact Hs.
  - destruct d as [i v|i kvs|i els|i els]; try discriminate. destruct v; discriminate.
Qed.

Theorem required_null p d :
  is_null_node d = true -> get_required lit re_search nstr vstr kw_handler creator p d = gnil /\ SEM p d = [].
Proof.
  intros H. destruct d as [i v|i kvs|i els|i els]; try discriminate. destruct v; try discriminate. split; reflexivity.
Qed.

(* ---- the optional query on a path that exists in every branch ---- *)
Definition empty_done {A} (g : gen A) : bool := match g with ([], Done) => true | _ => false end.

(* no branch without a match at a segment that could be created (F16b).  (Until
   fix 09e1e7a a second clause excluded a null node reached with segments still
   to go - F10: the optional walk stopped there and yielded the null.) *)
Fixpoint opt_ok (pf : nat) (segs : list pseg) (i : nat) (v : rval) (c : ctx) : bool :=
  match pf with
  | O => false
  | S pf' =>
      match nth_error segs i with
      | None => true
      | Some ps =>
          let g := WALK lit re_search nstr vstr kw_handler creator pf' segs i (S (vsize v)) v (set_tl true c) in
          negb (empty_done g && creatable (fst (seg_us ps)))
          && forallb (fun x =>
                        if is_pylist x then opt_ok pf' segs (S i) x c
                        else match x with
                             | RCoords nd par rf path anc => opt_ok pf' segs (S i) nd (mkctx par rf true path anc)
                             | _ => true
                             end) (fst g)
      end
  end.

Lemma gbind_ext_in {A B} (g : gen A) (f1 f2 : A -> gen B) :
  (forall x, In x (fst g) -> f1 x = f2 x) -> gbind g f1 = gbind g f2.
Proof. intros H. unfold gbind. rewrite (gfor_ext _ _ _ H). reflexivity. Qed.

Theorem opt_eq_req : forall pf segs i v c,
  opt_ok pf segs i v c = true -> EV pf MOpt segs i v c = EV pf MReq segs i v c.
Proof.
  induction pf as [|pf IH]; intros segs i v c H; [discriminate|].
  cbn [opt_ok] in H. cbn [ev]. unfold ev_body.
  destruct (nth_error segs i) as [ps|] eqn:En.
  - rewrite (nth_some_ltb _ _ _ En).
    apply andb_prop in H. destruct H as [Hne Hall].
    unfold WALK, RQP, set_tl in Hne, Hall.
    match goal with |- context[gbind ?g _] => set (gg := g) in * end.
    assert (E : gbind gg (fun x => if is_pylist x then EV pf MOpt segs (S i) x c
                                   else match x with
                                        | RCoords nd par rf path anc => EV pf MOpt segs (S i) nd (mkctx par rf true path anc)
                                        | _ => gerr (PyCrash AttributeError)
                                        end)
                = gbind gg (fun x => if is_pylist x then EV pf MReq segs (S i) x c
                                     else match x with
                                          | RCoords nd par rf path anc => EV pf MReq segs (S i) nd (mkctx par rf true path anc)
                                          | _ => gerr (PyCrash AttributeError)
                                          end)).
    { apply gbind_ext_in. intros x Hx. rewrite forallb_forall in Hall. specialize (Hall x Hx).
      destruct (is_pylist x); [apply IH; exact Hall|].
      destruct x as [|l|nd par rf path anc]; try reflexivity.
      apply IH; exact Hall. }
    destruct gg as [[|x0 l0] st] eqn:Eg; try exact E.
    destruct st; try exact E.
    cbn [empty_done andb] in Hne. apply negb_true_iff in Hne. rewrite Hne. exact E.
  - rewrite (nth_none_ltb _ _ En). reflexivity.
Qed.

Theorem optional_on_existing p segs d :
  p = PPath segs -> opt_ok (fuel_for p) segs 0 (RNode d) root_ctx = true ->
  fst (get_required lit re_search nstr vstr kw_handler creator p d) <> [] ->
  get_optional lit re_search nstr vstr kw_handler creator p d
  = get_required lit re_search nstr vstr kw_handler creator p d.
Proof.
  intros -> Hok Hne. unfold get_optional, get_required in *.
  destruct d as [i v|i kvs|i els|i els]; try destruct v; try reflexivity;
    rewrite (opt_eq_req _ _ _ _ _ Hok) in *;
    destruct (EV _ MReq segs 0 _ root_ctx) as [[|x l] []]; try reflexivity; exfalso; apply Hne; reflexivity.
Qed.

End Top.

(* ---- notation: the dot text and the forward-slash text of the same segments
   parse (separator inferred, as the evaluator does) to the same escaped
   segments -- the only part of a prepared path [sem_path] reads, search
   attributes being part of the segment.  Corollary of C08. ---- *)
Theorem notation_same_segments (l : list sseg) :
  wf Dot l = true -> wf Slash l = true -> first_not_in ["/"%char] (render_ref Dot l) = true ->
  parse Auto true (render_ref Dot l) = Ok (segs_of l) /\
  parse Auto true (render_ref Slash l) = Ok (segs_of l).
Proof.
  intros Hd Hs Hf. split.
  - apply parse_render_auto; [exact Hd | intros _; exact Hf].
  - apply parse_render_auto; [exact Hs | intros H; discriminate H].
Qed.
