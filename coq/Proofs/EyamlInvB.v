(* C19: the boolean hypotheses are sound. *)
From Coq Require Import List Ascii String NArith ZArith QArith Bool Lia.
From YP Require Import Outcome PyStr PyVal Doc Eyaml C19Spec C19DocSpec C19InvB.
Import ListNotations.
Open Scope list_scope.
Import Ey.

Lemma c19_opt_str_eqb_eq : forall a b, c19_opt_str_eqb a b = true -> a = b.
Proof.
  intros [x|] [y|] H; try discriminate H; [|reflexivity]. apply String.eqb_eq in H; subst; reflexivity.
Qed.

Lemma c19_info_eqb_eq : forall a b, c19_info_eqb a b = true -> a = b.
Proof.
  intros [o a h t] [o' a' h' t'] H. unfold c19_info_eqb in H; simpl in H.
  apply andb_prop in H; destruct H as [H H4]. apply andb_prop in H; destruct H as [H H3].
  apply andb_prop in H; destruct H as [H1 H2].
  apply N.eqb_eq in H1. apply c19_opt_str_eqb_eq in H2, H4. apply Bool.eqb_prop in H3. subst; reflexivity.
Qed.

Lemma c19_pyval_eqb_eq : forall a b, c19_pyval_eqb a b = true -> a = b.
Proof.
  intros [|x|x|q r|x|x] [|y|y|q' r'|y|y] H; try discriminate H; simpl in H.
  - reflexivity.
  - apply Bool.eqb_prop in H; subst; reflexivity.
  - apply Z.eqb_eq in H; subst; reflexivity.
  - apply andb_prop in H; destruct H as [H H3]. apply andb_prop in H; destruct H as [H1 H2].
    apply Z.eqb_eq in H1. apply Pos.eqb_eq in H2. apply String.eqb_eq in H3.
    destruct q, q'; simpl in *; subst; reflexivity.
  - apply String.eqb_eq in H; subst; reflexivity.
  - apply String.eqb_eq in H; subst; reflexivity.
Qed.

Lemma c19_node_eqb_eq : forall a b, c19_node_eqb a b = true -> a = b.
Proof.
  induction a as [i v | i kvs IH | i els IH | i els IH] using node_ind'; intros [j w|j kvs'|j els'|j els'] H;
    try discriminate H; simpl in H; apply andb_prop in H; destruct H as [Hi H]; apply c19_info_eqb_eq in Hi; subst j.
  - apply c19_pyval_eqb_eq in H; subst; reflexivity.
  - f_equal. revert kvs' H. induction kvs as [|[k v] r IHr]; intros [|[k' v'] r'] H; try discriminate H; [reflexivity|].
    apply andb_prop in H; destruct H as [H H3]. apply andb_prop in H; destruct H as [H1 H2].
    pose proof (Forall_inv IH) as [IHk IHv]; pose proof (Forall_inv_tail IH) as IHrest. simpl in IHk, IHv.
    rewrite (IHk _ H1), (IHv _ H2), (IHr IHrest _ H3). reflexivity.
  - f_equal. revert els' H. induction els as [|e r IHr]; intros [|e' r'] H; try discriminate H; [reflexivity|].
    apply andb_prop in H; destruct H as [H1 H2].
    pose proof (Forall_inv IH) as IHe; pose proof (Forall_inv_tail IH) as IHrest.
    rewrite (IHe _ H1), (IHr IHrest _ H2). reflexivity.
  - f_equal. revert els' H. induction els as [|e r IHr]; intros [|e' r'] H; try discriminate H; [reflexivity|].
    apply andb_prop in H; destruct H as [H1 H2].
    pose proof (Forall_inv IH) as IHe; pose proof (Forall_inv_tail IH) as IHrest.
    rewrite (IHe _ H1), (IHr IHrest _ H2). reflexivity.
Qed.

Lemma c19_inv_b_sound : forall d next, c19_inv_b d next = true -> Inv d next.
Proof.
  intros d next H. unfold c19_inv_b in H.
  apply andb_prop in H; destruct H as [H H4]. apply andb_prop in H; destruct H as [H H3].
  apply andb_prop in H; destruct H as [H1 H2].
  rewrite forallb_forall in H1, H2, H3, H4. constructor.
  - intros a b Ha Hb E. specialize (H1 a Ha). rewrite forallb_forall in H1. specialize (H1 b Hb).
    apply N.eqb_eq in E. rewrite E in H1. simpl in H1. apply c19_node_eqb_eq; exact H1.
  - intros a Ha. apply N.ltb_lt. apply H2; exact Ha.
  - intros a b x Ha Hb Ea Eb. specialize (H3 a Ha). rewrite forallb_forall in H3. specialize (H3 b Hb).
    rewrite Ea, Eb, String.eqb_refl in H3. simpl in H3. apply N.eqb_eq; exact H3.
  - intros a Ha E. specialize (H4 a Ha). rewrite E in H4. discriminate H4.
Qed.

Lemma c19_keys_ok_list_b_sound : forall kvs, c19_keys_ok_list_b kvs = true -> keys_ok_list kvs.
Proof.
  induction kvs as [|[k v] r IH]; intro H; [exact I|].
  simpl in H. apply andb_prop in H; destruct H as [H Hr].
  destruct k as [i kv| | |]; try discriminate H. apply andb_prop in H; destruct H as [H1 H2].
  simpl. split; [|apply IH; exact Hr]. exists i, kv. split; [reflexivity|]. split; [exact H1|].
  rewrite forallb_forall in H2. apply Forall_forall. intros e He. specialize (H2 e He).
  apply andb_prop in H2; destruct H2 as [A B]. apply negb_true_iff in A, B. split; assumption.
Qed.

Lemma c19_keys_ok_b_sound : forall d, c19_keys_ok_b d = true -> keys_ok d.
Proof.
  intros d H i kvs Hin. unfold c19_keys_ok_b in H. rewrite forallb_forall in H.
  apply c19_keys_ok_list_b_sound. exact (H _ Hin).
Qed.

Lemma c19_loaded_doc_b_sound : forall d next, c19_loaded_doc_b d next = true -> loaded_doc d next.
Proof.
  intros d next H. unfold c19_loaded_doc_b in H.
  apply andb_prop in H; destruct H as [H H3]. apply andb_prop in H; destruct H as [H1 H2].
  split; [apply c19_inv_b_sound; exact H1|]. split; [apply c19_keys_ok_b_sound; exact H2|].
  apply negb_true_iff; exact H3.
Qed.
