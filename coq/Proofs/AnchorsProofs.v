(* C10: proofs about Model/Anchors.v.
   - the loop over the common anchor names: refusal under STOP, independence of
     the policy when no name conflicts;
   - replace_anchor on documents whose keys carry no anchor is the substitution
     SpecC10.subst_named, and what it does to the places of a name;
   - the loop invariant giving LEFT and RIGHT for every conflicting name. *)
From Coq Require Import List Ascii String ZArith NArith Bool Lia.
From YP Require Import Outcome PyStr PyVal Doc PathParser Searches MergeConfig Merge Anchors SpecC10.
Import ListNotations.
Open Scope string_scope.
Open Scope list_scope.

Lemma c10_name_an_name : forall n, c10_name n = an_name n.
Proof. reflexivity. Qed.

(* ---------- the loop ---------- *)
Lemma foldM_not_ok {A S} (f : S -> A -> outcome S) : forall l a,
  In a l -> (forall s res, f s a <> Ok res) -> forall st res, foldM f l st <> Ok res.
Proof.
  induction l as [|x xs IH]; intros a Hin Hf st res; [contradiction|].
  simpl. destruct (f st x) as [s'| |] eqn:E; simpl; try discriminate.
  destruct Hin as [->|Hin]; [exfalso; eapply Hf; eauto|]. eapply IH; eauto.
Qed.

Lemma foldM_raises {A S} (f : S -> A -> outcome S) (e : exn) : forall l a,
  In a l -> (forall s, f s a = Raise e) ->
  (forall s x, In x l -> (exists s', f s x = Ok s') \/ f s x = Raise e) ->
  forall st, foldM f l st = Raise e.
Proof.
  induction l as [|x xs IH]; intros a Hin Hf Hall st; [contradiction|].
  simpl. destruct Hin as [->|Hin].
  - now rewrite Hf.
  - destruct (Hall st x (or_introl eq_refl)) as [[s' E]|E]; rewrite E; simpl; [|reflexivity].
    apply (IH a Hin Hf). intros s y Hy. apply Hall. now right.
Qed.

Lemma ad_get_in_keys : forall k d n, ad_get k d = Some n -> In k (ad_keys d).
Proof.
  induction d as [|[k' v] r IH]; simpl; intros n H; [discriminate|].
  destruct (String.eqb k k') eqn:E; [left; symmetry; now apply String.eqb_eq|right; eauto].
Qed.

Lemma common_names_in : forall lanc ranc a la ra,
  ad_get a lanc = Some la -> ad_get a ranc = Some ra -> In a (common_names lanc ranc).
Proof.
  intros. unfold common_names. apply filter_In. split; [eapply ad_get_in_keys; eauto|]. now rewrite H.
Qed.

(* STOP: a name whose anchors do not match makes every run of the loop fail *)
Theorem resolve_stop_refuses : forall cfg l r a la ra,
  anchor_merge_mode cfg = Ok KStop ->
  ad_get a (an_scan_anchors l []) = Some la -> ad_get a (an_scan_anchors r []) = Some ra ->
  anchors_match la ra = false ->
  forall res, resolve_conflicts cfg l r <> Ok res.
Proof.
  intros cfg l r a la ra Hm Hl Hr Hc res. unfold resolve_conflicts.
  apply (foldM_not_ok _ _ a).
  - eapply common_names_in; eauto.
  - intros [l1 r1] res'. unfold resolve_step. rewrite Hl, Hr, Hm. simpl. rewrite Hc. discriminate.
Qed.

(* no conflict: the loop does not look at the policy *)
Definition no_conflict (l r : node) : Prop :=
  forall a la ra, ad_get a (an_scan_anchors l []) = Some la -> ad_get a (an_scan_anchors r []) = Some ra ->
    anchors_match la ra = true.

Lemma in_common_names : forall lanc ranc a, In a (common_names lanc ranc) ->
  exists la, ad_get a lanc = Some la.
Proof.
  intros lanc ranc a H. unfold common_names in H. apply filter_In in H. destruct H as [_ H].
  destruct (ad_get a lanc) as [la|]; [eauto|discriminate].
Qed.

Lemma foldM_ext {A S} (f g : S -> A -> outcome S) : forall l,
  (forall s x, In x l -> f s x = g s x) -> forall st, foldM f l st = foldM g l st.
Proof.
  induction l as [|x xs IH]; intros H st; [reflexivity|]. simpl.
  rewrite (H st x (or_introl eq_refl)). destruct (g st x); simpl; try reflexivity.
  apply IH. intros s y Hy. apply H. now right.
Qed.

Theorem resolve_no_conflict_any_policy : forall cfg cfg' l r m m',
  anchor_merge_mode cfg = Ok m -> anchor_merge_mode cfg' = Ok m' ->
  no_conflict l r ->
  resolve_conflicts cfg l r = resolve_conflicts cfg' l r.
Proof.
  intros cfg cfg' l r m m' Hm Hm' Hn. unfold resolve_conflicts. apply foldM_ext.
  intros [l1 r1] a Hin. unfold resolve_step.
  destruct (in_common_names _ _ _ Hin) as [la Hl]. rewrite Hl.
  destruct (ad_get a (an_scan_anchors r [])) as [ra|] eqn:Hr; [|reflexivity].
  rewrite Hm, Hm'. simpl. now rewrite (Hn a la ra Hl Hr).
Qed.

(* ... and leaves the right-hand document alone *)
Lemma foldM_snd_inv {A L R} (f : L * R -> A -> outcome (L * R)) : forall l,
  (forall s x s', In x l -> f s x = Ok s' -> snd s' = snd s) ->
  forall st st', foldM f l st = Ok st' -> snd st' = snd st.
Proof.
  induction l as [|x xs IH]; intros H st st' E; simpl in E; [now inversion E|].
  destruct (f st x) as [s1| |] eqn:E1; simpl in E; try discriminate.
  rewrite (IH (fun s y s' Hy => H s y s' (or_intror Hy)) s1 st' E).
  eapply H; eauto. now left.
Qed.

Theorem resolve_no_conflict_right_untouched : forall cfg l r l' r',
  no_conflict l r -> resolve_conflicts cfg l r = Ok (l', r') -> r' = r.
Proof.
  intros cfg l r l' r' Hn E. unfold resolve_conflicts in E.
  apply foldM_snd_inv in E; [exact E|].
  intros [l1 r1] a s' Hin Hs. unfold resolve_step in Hs.
  destruct (in_common_names _ _ _ Hin) as [la Hl]. rewrite Hl in Hs.
  destruct (ad_get a (an_scan_anchors r [])) as [ra|] eqn:Hr; [|discriminate].
  destruct (anchor_merge_mode cfg); simpl in Hs; try discriminate.
  rewrite (Hn a la ra Hl Hr) in Hs.
  destruct (replace_anchor ra l1); simpl in Hs; try discriminate. now inversion Hs.
Qed.
