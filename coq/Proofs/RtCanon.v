(* C08: the printer.  ensure_escaped for single-character symbols is a
   left-to-right scan; on a text written with back-slash escapes it adds the
   missing back-slashes (under the guard "no back-slash immediately before a
   symbol", which is what the split/replace/join algorithm mishandles). *)
From Coq Require Import List Ascii String ZArith Bool Arith Lia.
From YP Require Import Outcome PyStr Generated PathParser PathPrinter C08Spec RtStep RtSeg RtInt RtRender.
Import ListNotations.
Open Scope string_scope.
Open Scope nat_scope.

Definition bs : ascii := "\"%char.

(* the scan: a back-slash and the symbol after it are kept; any other
   occurrence of the symbol gets a back-slash *)
Fixpoint scan1 (d : ascii) (s : string) : string :=
  match s with
  | EmptyString => EmptyString
  | String c t =>
      if Ascii.eqb c bs then
        match t with
        | String e r => if Ascii.eqb e d then String bs (String d (scan1 d r)) else String bs (scan1 d t)
        | EmptyString => String bs EmptyString
        end
      else if Ascii.eqb c d then String bs (String d (scan1 d t)) else String c (scan1 d t)
  end.

Definition rt_of (d : ascii) : string := String bs (String d EmptyString).
Definition Rp (d : ascii) (s : string) : string := replace_all (str1 d) (rt_of d) s.

Lemma Rp_cons d c r :
  Rp d (String c r) = if Ascii.eqb d c then String bs (String d (Rp d r)) else String c (Rp d r).
Proof. unfold Rp, replace_all. cbn. destruct (Ascii.eqb d c); reflexivity. Qed.

Lemma Rp_nil d : Rp d "" = "".
Proof. reflexivity. Qed.

Lemma Rp_app d a : forall b, Rp d (a ++ b) = Rp d a ++ Rp d b.
Proof.
  induction a as [|c r IH]; intros b; [reflexivity|]. cbn [append]. rewrite !Rp_cons, IH.
  destruct (Ascii.eqb d c); reflexivity.
Qed.

Lemma split_go_nonnil sep : forall s skip cur, split_go sep s skip cur <> [].
Proof.
  induction s as [|c r IH]; intros skip cur; cbn; [discriminate|].
  destruct skip; [|apply IH]. destruct (starts_with sep (String c r)); [discriminate | apply IH].
Qed.

Lemma join_cons sep x l : l <> [] -> join sep (x :: l) = x ++ sep ++ join sep l.
Proof. destruct l; [congruence | reflexivity]. Qed.

Lemma scan1_step d c rest :
  Ascii.eqb d bs = false ->
  starts_with (rt_of d) (String c rest) = false ->
  scan1 d (String c rest) = Rp d (str1 c) ++ scan1 d rest.
Proof.
  intros Hd Hs. unfold str1. rewrite Rp_cons, Rp_nil. cbn [scan1].
  destruct (Ascii.eqb c bs) eqn:Ec.
  - apply Ascii.eqb_eq in Ec. subst c. rewrite Hd.
    destruct rest as [|e r]; [reflexivity|].
    unfold rt_of in Hs. cbn [starts_with] in Hs. rewrite Ascii.eqb_refl in Hs.
    rewrite (Ascii.eqb_sym e d). destruct (Ascii.eqb d e); [discriminate Hs | reflexivity].
  - rewrite (Ascii.eqb_sym c d). destruct (Ascii.eqb d c); reflexivity.
Qed.

Lemma escape_scan d : Ascii.eqb d bs = false ->
  forall n s cur, String.length s <= n ->
  join (rt_of d) (map (Rp d) (split_go (rt_of d) s 0 cur)) = Rp d cur ++ scan1 d s.
Proof.
  intros Hd. induction n as [|n IH]; intros s cur Hn.
  - destruct s; [|cbn in Hn; lia]. cbn. rewrite app_nil_r_s. reflexivity.
  - destruct s as [|c rest]; [cbn; rewrite app_nil_r_s; reflexivity|].
    cbn [split_go]. destruct (starts_with (rt_of d) (String c rest)) eqn:Es.
    + (* a back-slash followed by the symbol *)
      unfold rt_of in Es. cbn [starts_with] in Es.
      destruct (Ascii.eqb bs c) eqn:E1; [|discriminate Es]. apply Ascii.eqb_eq in E1. subst c.
      destruct rest as [|e r]; [discriminate Es|].
      destruct (Ascii.eqb d e) eqn:E2; [|discriminate Es]. apply Ascii.eqb_eq in E2. subst e.
      change (String.length (rt_of d) - 1) with 1. cbn [split_go map].
      rewrite join_cons by (destruct (split_go (rt_of d) r 0 "") eqn:E; [exfalso; eapply split_go_nonnil; exact E | discriminate]).
      rewrite (IH r "") by (cbn in Hn; lia). rewrite Rp_nil. cbn [scan1 append].
      unfold bs at 2. rewrite Ascii.eqb_refl, Ascii.eqb_refl. reflexivity.
    + rewrite (IH rest (snoc cur c)) by (cbn in Hn; lia).
      unfold snoc. rewrite Rp_app, app_assoc_s. f_equal. symmetry. apply scan1_step; assumption.
Qed.

Theorem escape_symbol_scan d v :
  Ascii.eqb d bs = false -> escape_symbol v (str1 d) = scan1 d v.
Proof.
  intros Hd. unfold escape_symbol, split_on.
  change (String "\"%char (str1 d)) with (rt_of d).
  change (map (replace_all (str1 d) (rt_of d))) with (map (Rp d)).
  rewrite (escape_scan d Hd (String.length v) v "" (le_n _)). reflexivity.
Qed.

(* ---- the scan on a text written with back-slash escapes ---- *)
Definition head_not (d : ascii) (s : string) : bool :=
  match s with EmptyString => true | String e _ => negb (Ascii.eqb e d) end.

Lemma scan1_bs d X :
  Ascii.eqb d bs = false -> head_not d X = true -> scan1 d (String bs X) = String bs (scan1 d X).
Proof.
  intros Hd H. cbn [scan1]. unfold bs at 1. rewrite Ascii.eqb_refl.
  destruct X as [|e r]; [reflexivity|]. cbn in H. apply negb_true_iff in H. rewrite H. reflexivity.
Qed.

Lemma scan1_esc d E :
  mem_ascii bs E = true -> Ascii.eqb d bs = false ->
  forall k, no_bs_before [d] k = true -> scan1 d (esc_with E k) = esc_with (d :: E) k.
Proof.
  intros HE Hd. induction k as [|c r IH]; intros Hg; [reflexivity|].
  cbn [no_bs_before] in Hg. apply andb_true_iff in Hg. destruct Hg as [Hg1 Hg2]. specialize (IH Hg2).
  cbn [esc_with mem_ascii].
  destruct (mem_ascii c E) eqn:Em.
  - (* written \c *)
    destruct (Ascii.eqb c d) eqn:Ecd.
    + apply Ascii.eqb_eq in Ecd. subst c. cbn [scan1]. unfold bs at 1. rewrite Ascii.eqb_refl, Ascii.eqb_refl, IH. reflexivity.
    + assert (Hx : scan1 d (String c (esc_with E r)) = String c (scan1 d (esc_with E r))).
      { destruct (Ascii.eqb c bs) eqn:Ecb.
        - apply Ascii.eqb_eq in Ecb. subst c. apply scan1_bs; [exact Hd|].
          unfold bs in Hg1. rewrite Ascii.eqb_refl in Hg1.
          destruct r as [|c2 r2]; [reflexivity|]. cbn [esc_with].
          destruct (mem_ascii c2 E).
          + unfold head_not. fold bs. rewrite (Ascii.eqb_sym bs d), Hd. reflexivity.
          + unfold head_not. cbn [mem_ascii] in Hg1. destruct (Ascii.eqb c2 d); [discriminate Hg1 | reflexivity].
        - cbn [scan1]. rewrite Ecb, Ecd. reflexivity. }
      rewrite scan1_bs; [rewrite Hx, IH; reflexivity | exact Hd |]. cbn. rewrite Ecd. reflexivity.
  - (* written as it is *)
    assert (Ecb : Ascii.eqb c bs = false).
    { destruct (Ascii.eqb c bs) eqn:E0; [|reflexivity]. apply Ascii.eqb_eq in E0. subst c. rewrite HE in Em. discriminate. }
    cbn [scan1]. rewrite Ecb. destruct (Ascii.eqb c d) eqn:Ecd; rewrite IH; [|reflexivity].
    apply Ascii.eqb_eq in Ecd. subst c. reflexivity.
Qed.

Lemma no_bs_before_in syms d k :
  mem_ascii d syms = true -> no_bs_before syms k = true -> no_bs_before [d] k = true.
Proof.
  intros Hm. induction k as [|c r IH]; [reflexivity|]. cbn [no_bs_before]. intros H.
  apply andb_true_iff in H. destruct H as [H1 H2]. rewrite (IH H2), andb_true_r.
  destruct (Ascii.eqb c "\"%char); [|reflexivity].
  destruct r as [|e r']; [reflexivity|]. cbn. apply negb_true_iff in H1.
  destruct (Ascii.eqb e d) eqn:E; [|reflexivity]. apply Ascii.eqb_eq in E. subst e. rewrite Hm in H1. discriminate.
Qed.

Lemma no_bs_before_sub syms syms' k :
  (forall c, mem_ascii c syms' = true -> mem_ascii c syms = true) ->
  no_bs_before syms k = true -> no_bs_before syms' k = true.
Proof.
  intros Hs. induction k as [|c r IH]; [reflexivity|]. cbn [no_bs_before]. intros H.
  apply andb_true_iff in H. destruct H as [H1 H2]. rewrite (IH H2), andb_true_r.
  destruct (Ascii.eqb c "\"%char); [|reflexivity].
  destruct r as [|e r']; [reflexivity|]. apply negb_true_iff in H1. apply negb_true_iff.
  destruct (mem_ascii e syms') eqn:E; [|reflexivity]. rewrite (Hs _ E) in H1. discriminate.
Qed.

(* the whole loop of ensure_escaped over single-character symbols *)
Lemma ensure_escaped_esc : forall ds E k,
  mem_ascii bs E = true -> forallb (fun d => negb (Ascii.eqb d bs)) ds = true ->
  no_bs_before ds k = true ->
  ensure_escaped (esc_with E k) (map str1 ds) = esc_with (rev ds ++ E)%list k.
Proof.
  unfold ensure_escaped.
  induction ds as [|d r IH]; intros E k HE Hds Hg; [reflexivity|].
  cbn [map fold_left forallb] in *. apply andb_true_iff in Hds. destruct Hds as [Hd Hr].
  apply negb_true_iff in Hd.
  rewrite (escape_symbol_scan d _ Hd).
  rewrite (scan1_esc d E HE Hd) by (eapply no_bs_before_in; [|exact Hg]; cbn [mem_ascii]; rewrite Ascii.eqb_refl; reflexivity).
  rewrite IH.
  - cbn [rev]. rewrite <- app_assoc. reflexivity.
  - cbn [mem_ascii]. rewrite HE. destruct (Ascii.eqb bs d); reflexivity.
  - exact Hr.
  - eapply no_bs_before_sub; [|exact Hg]. intros c Hc. cbn [mem_ascii]. rewrite Hc. destruct (Ascii.eqb c d); reflexivity.
Qed.

(* esc_with depends only on membership *)
Lemma esc_with_ext E E' k :
  (forall c, mem_ascii c E = mem_ascii c E') -> esc_with E k = esc_with E' k.
Proof.
  intros H. induction k as [|c r IH]; [reflexivity|]. cbn [esc_with]. rewrite H, IH. reflexivity.
Qed.

Lemma mem_rev c l : mem_ascii c (rev l) = mem_ascii c l.
Proof.
  induction l as [|d r IH]; [reflexivity|]. cbn [rev]. rewrite mem_app, IH. cbn.
  destruct (Ascii.eqb c d); [apply orb_true_r | apply orb_false_r].
Qed.

(* ====================================================================== *)
(* str() of the unescaped parse = the generalised writer in canonical style *)

Definition canon (sp' : sep) (text : string) : outcome string :=
  do u <- parse Auto false text; Ok (stringify (Some sp') u).

Definition canon_delim (term : string) : ascii :=
  match pick_delim regex_delims term with Some d => d | None => "/"%char end.

(* the characters a key was written with a back-slash *)
Definition key_set (sepc : ascii) (y : xseg) : list ascii :=
  match st_quote (snd (fst y)) with None => (snd y ++ key_specials sepc)%list | Some _ => quoted_specials end.

Definition seg_term (sg : seg) : string := match sg with (_, ASearch _ _ _ t) => t | _ => "" end.

(* canonical style: plain keys, [&a] except in first position, infix
   inversion, escaped term, first free delimiter *)
Definition restyle (sepc : ascii) (first : bool) (y : xseg) : xseg :=
  ((fst (fst y), mkstyle None (negb first) false (canon_delim (seg_term (fst (fst y)))) false), key_set sepc y).

Fixpoint restyle_list (sepc : ascii) (first : bool) (l : list xseg) : list xseg :=
  match l with
  | [] => []
  | y :: r => restyle sepc first y :: restyle_list sepc false r
  end.

Definition sym_chars_c (l : list (option ascii)) (sepc : ascii) : list ascii :=
  map (fun o => match o with Some c => c | None => sepc end) l.
Definition ks (sp' : sep) : list ascii := sym_chars_c g_key_escape_syms (sep_char sp').

(* ---- side conditions over the regenerated tables (closed by computation) ---- *)
Lemma T_key_syms sp' : syms_with_sep g_key_escape_syms (sep_char sp') = map str1 (ks sp').
Proof. destruct sp'; reflexivity. Qed.

Lemma T_key_nobs sp' : forallb (fun d => negb (Ascii.eqb d bs)) (ks sp') = true.
Proof. destruct sp'; reflexivity. Qed.

Lemma T_key_specials sp' c :
  mem_ascii c (key_specials (sep_char sp')) = (Ascii.eqb c bs || mem_ascii c (ks sp'))%bool.
Proof. destruct sp'; all_ascii c; vm_compute; reflexivity. Qed.

Lemma T_key_both sp' c : mem_ascii c (ks sp') = true -> mem_ascii c both_key_syms = true.
Proof. intros H. destruct sp'; all_ascii c; vm_compute in H; try discriminate H; reflexivity. Qed.

Lemma T_term_syms : term_escape_syms = map str1 term_syms.
Proof. reflexivity. Qed.

Lemma T_term_nobs : forallb (fun d => negb (Ascii.eqb d bs)) term_syms = true.
Proof. reflexivity. Qed.

Lemma T_term_set st c :
  mem_ascii c (rev term_syms ++ term_set st)%list = mem_ascii c operand_specials.
Proof.
  unfold term_set, term_specials. destruct (st_quote st) as [[]|]; [destruct (st_nest st) | destruct (st_nest st) |];
    all_ascii c; vm_compute; reflexivity.
Qed.

Lemma T_spell_method m : method_str m = op_text m.
Proof. destruct m; reflexivity. Qed.
Lemma T_spell_kw k : kw_str k = kw_text k.
Proof. destruct k; reflexivity. Qed.
Lemma T_spell_cop o : cop_str o = cop_text o.
Proof. destruct o; reflexivity. Qed.

Lemma T_delims : regex_delims = canon_delims.
Proof. reflexivity. Qed.
Lemma T_delims_ok : forallb (fun d => negb (Ascii.eqb d " "%char) && negb (Ascii.eqb d "\"%char)) regex_delims = true.
Proof. reflexivity. Qed.

(* ---- the regex delimiter ---- *)
Lemma pick_delim_some : forall l t,
  existsb (fun d => negb (str_in d t)) l = true -> exists d, pick_delim l t = Some d.
Proof.
  induction l as [|d r IH]; intros t H; [discriminate H|]. cbn in *.
  destruct (str_in d t); [apply IH; exact H | eauto].
Qed.

Lemma pick_delim_spec (P : ascii -> bool) : forall l t d,
  pick_delim l t = Some d -> forallb P l = true -> str_in d t = false /\ P d = true.
Proof.
  induction l as [|e r IH]; intros t d H HP; [discriminate H|]. cbn in *.
  apply andb_true_iff in HP. destruct HP as [HP1 HP2].
  destruct (str_in e t) eqn:E; [apply IH; assumption|]. injection H as <-. split; assumption.
Qed.

(* ---- the key ---- *)
Lemma key_set_bs sepc y : mem_ascii bs (key_set sepc y) = true.
Proof. unfold key_set. destruct (st_quote _); [reflexivity|]. rewrite mem_app. cbn. apply orb_true_r. Qed.

Lemma key_canon sp' E0 k :
  mem_ascii bs E0 = true -> no_bs_before both_key_syms k = true ->
  ensure_escaped (esc_with E0 k) (syms_with_sep g_key_escape_syms (sep_char sp'))
  = esc_with (E0 ++ key_specials (sep_char sp'))%list k.
Proof.
  intros HE Hg. rewrite T_key_syms.
  rewrite ensure_escaped_esc; [| exact HE | apply T_key_nobs |].
  - apply esc_with_ext. intros c. rewrite !mem_app, mem_rev, T_key_specials.
    destruct (Ascii.eqb c bs) eqn:Ec.
    + apply Ascii.eqb_eq in Ec. subst c. rewrite HE. rewrite orb_true_r. reflexivity.
    + cbn [orb]. apply orb_comm.
  - eapply no_bs_before_sub; [|exact Hg]. apply T_key_both.
Qed.

Lemma term_canon st term :
  no_bs_before term_syms term = true ->
  ensure_escaped (esc_with (term_set st) term) term_escape_syms = esc_with operand_specials term.
Proof.
  intros Hg. rewrite T_term_syms.
  rewrite ensure_escaped_esc; [| | apply T_term_nobs | exact Hg].
  - apply esc_with_ext. intros c. apply T_term_set.
  - unfold term_set, term_specials. destruct (st_quote st) as [[]|]; [destruct (st_nest st) | destruct (st_nest st) |]; reflexivity.
Qed.

(* ---- one segment ---- *)
Lemma stringify_seg_x sp sp' first prev y :
  wf_seg prev (fst y) = true -> wfc_seg (fst y) = true ->
  stringify_seg (sep_char sp') (negb first) (kseg false (sep_char sp) y)
  = (if needs_sep (fst (restyle (sep_char sp) first y)) && negb first then c1 (sep_char sp') else "")
    ++ body_x (sep_char sp') (restyle (sep_char sp) first y).
Proof.
  intros Hwf Hc. destruct y as [[[ty at_] st] X]. cbn [fst] in *.
  destruct ty as [[]|]; try discriminate Hwf; destruct at_; try discriminate Hwf.
  - (* anchor *)
    cbn. destruct first; reflexivity.
  - (* collector *)
    cbn [kseg stringify_seg attrs_str restyle fst snd needs_sep body_x body andb]. unfold collector_str.
    rewrite T_spell_cop. reflexivity.
  - (* slice *) reflexivity.
  - (* index *) reflexivity.
  - (* key *)
    cbn [wfc_seg] in Hc. apply andb_true_iff in Hc. destruct Hc as [_ Hg].
    cbn [kseg stringify_seg attrs_str restyle fst snd needs_sep body_x st_quote andb kept].
    change (match st_quote st with None => (X ++ key_specials (sep_char sp))%list | Some _ => quoted_specials end)
      with (key_set (sep_char sp) (((Some TKey, AStr s), st), X)).
    rewrite key_canon by (try apply key_set_bs; assumption).
    destruct first; reflexivity.
  - (* search *)
    cbn [wfc_seg] in Hc. rename Hc into Hg.
    cbn [kseg stringify_seg attrs_str is_search_terms restyle fst snd needs_sep body_x body st_quote st_prefix st_delim andb seg_term kept].
    unfold search_str. rewrite T_spell_method, andb_false_r, andb_true_r.
    destruct m; try (rewrite term_canon by exact Hg; reflexivity).
    (* regex *)
    rewrite <- T_delims in Hg. destruct (pick_delim_some _ _ Hg) as (d & Ed).
    unfold canon_delim. rewrite Ed. reflexivity.
  - (* traverse *) cbn. destruct first; reflexivity.
  - (* keyword *)
    cbn [kseg stringify_seg attrs_str restyle fst snd needs_sep body_x body andb kept]. unfold keyword_str.
    rewrite T_spell_kw. reflexivity.
  - (* match all *) cbn. destruct first; reflexivity.
Qed.

Lemma stringify_go_x sp sp' : forall l first prev,
  wf_go prev (map fst l) = true -> forallb wfc_seg (map fst l) = true ->
  stringify_go (sep_char sp') (negb first) (map (kseg false (sep_char sp)) l)
  = render_go_x (sep_char sp') first (restyle_list (sep_char sp) first l).
Proof.
  induction l as [|y r IH]; intros first prev Hwf Hc; [reflexivity|].
  cbn [map wf_go forallb] in Hwf, Hc. apply andb_true_iff in Hwf. destruct Hwf as [Hw1 Hw2].
  apply andb_true_iff in Hc. destruct Hc as [Hc1 Hc2].
  cbn [map stringify_go restyle_list render_go_x].
  rewrite (stringify_seg_x sp sp' first prev y Hw1 Hc1).
  pose proof (IH false _ Hw2 Hc2) as H. cbn [negb] in H. rewrite H.
  rewrite app_assoc_s. reflexivity.
Qed.

Theorem canon_text sp sp' l :
  wf_go false (map fst l) = true -> forallb wfc_seg (map fst l) = true ->
  stringify (Some sp') (map (kseg false (sep_char sp)) l) = render_x sp' (restyle_list (sep_char sp) true l).
Proof.
  intros Hwf Hc. unfold stringify, render_x. cbn [sepc_of].
  pose proof (stringify_go_x sp sp' l true false Hwf Hc) as H. cbn [negb] in H. rewrite H.
  destruct sp'; reflexivity.
Qed.

(* ---- the canonical style is well-formed and denotes the same segments ---- *)
Lemma restyle_fst sepc first y : fst (fst (restyle sepc first y)) = fst (fst y).
Proof. reflexivity. Qed.

Lemma restyle_collector sepc first y : is_collector (fst (restyle sepc first y)) = is_collector (fst y).
Proof. destruct y as [[[ty at_] st] X]. reflexivity. Qed.

Lemma wfc_restyle sepc first y : wfc_seg (fst (restyle sepc first y)) = wfc_seg (fst y).
Proof. destruct y as [[[ty at_] st] X]. reflexivity. Qed.

Lemma wf_restyle sepc first prev y :
  wf_seg prev (fst y) = true -> wfc_seg (fst y) = true -> (first = true -> prev = false) ->
  wf_seg prev (fst (restyle sepc first y)) = true.
Proof.
  intros Hwf Hc Hf. destruct y as [[[ty at_] st] X]. cbn [fst restyle] in *.
  destruct ty as [[]|]; try discriminate Hwf; destruct at_; try discriminate Hwf; try exact Hwf.
  - (* anchor *)
    cbn [wf_seg st_bracket] in *. apply andb_true_iff in Hwf. destruct Hwf as [H1 H2]. rewrite H1. cbn [andb].
    destruct first; [rewrite (Hf eq_refl); reflexivity | reflexivity].
  - (* key *)
    cbn [wf_seg st_quote] in *. cbn [wfc_seg] in Hc. apply andb_true_iff in Hc. destruct Hc as [Hs _].
    apply andb_true_iff in Hwf. destruct Hwf as [H1 _]. rewrite H1, Hs. reflexivity.
  - (* search *)
    cbn [wf_seg st_quote st_delim seg_term] in *. cbn [wfc_seg] in Hc. rename Hc into Hg.
    apply andb_true_iff in Hwf. destruct Hwf as [H1 _]. rewrite H1. cbn [andb].
    destruct m; try reflexivity.
    rewrite <- T_delims in Hg. destruct (pick_delim_some _ _ Hg) as (d & Ed).
    unfold canon_delim. rewrite Ed.
    destruct (pick_delim_spec _ _ _ _ Ed T_delims_ok) as [D1 D2].
    apply andb_true_iff in D2. destruct D2 as [D2 D3]. rewrite D1, D2, D3. reflexivity.
Qed.

Lemma wf_go_restyle sepc : forall l first prev,
  wf_go prev (map fst l) = true -> forallb wfc_seg (map fst l) = true -> (first = true -> prev = false) ->
  wf_go prev (map fst (restyle_list sepc first l)) = true.
Proof.
  induction l as [|y r IH]; intros first prev Hwf Hc Hf; [reflexivity|].
  cbn [map wf_go forallb restyle_list] in *. apply andb_true_iff in Hwf. destruct Hwf as [Hw1 Hw2].
  apply andb_true_iff in Hc. destruct Hc as [Hc1 Hc2].
  rewrite (wf_restyle sepc first prev y Hw1 Hc1 Hf), restyle_collector. cbn [andb].
  apply IH; [assumption | assumption | discriminate].
Qed.

Lemma wfc_restyle_list sepc : forall l first,
  forallb wfc_seg (map fst (restyle_list sepc first l)) = forallb wfc_seg (map fst l).
Proof.
  induction l as [|y r IH]; intros first; [reflexivity|]. cbn [map forallb restyle_list].
  rewrite wfc_restyle, IH. reflexivity.
Qed.

Lemma segs_restyle sepc sepc' : forall l first,
  map (kseg true sepc') (restyle_list sepc first l) = map (fun y => fst (fst y)) l.
Proof.
  induction l as [|y r IH]; intros first; [reflexivity|]. cbn [map restyle_list].
  rewrite kseg_true, restyle_fst, IH. reflexivity.
Qed.

Lemma is_nil_restyle sepc l first : is_nil (restyle_list sepc first l) = is_nil l.
Proof. destruct l; reflexivity. Qed.

(* ---- a text with a character that is not white-space is not blank ---- *)
Fixpoint has_ns (s : string) : bool :=
  match s with EmptyString => false | String c r => negb (is_space_py c) || has_ns r end.

Lemma has_ns_lstrip s : has_ns (lstrip_py s) = has_ns s.
Proof.
  induction s as [|c r IH]; [reflexivity|]. cbn [lstrip_py has_ns].
  destruct (is_space_py c) eqn:E; [exact IH|]. cbn [has_ns]. rewrite E. reflexivity.
Qed.

Lemma has_ns_rev : forall s a, has_ns (rev_str_acc s a) = (has_ns s || has_ns a)%bool.
Proof.
  induction s as [|c r IH]; intros a; [reflexivity|]. cbn [rev_str_acc has_ns]. rewrite IH. cbn [has_ns].
  destruct (negb (is_space_py c)), (has_ns r), (has_ns a); reflexivity.
Qed.

Lemma has_ns_nonblank s : has_ns s = true -> nonblank s = true.
Proof.
  intros H. unfold nonblank, strip_py.
  assert (Hx : has_ns (rev_str (lstrip_py (rev_str (lstrip_py s)))) = true).
  { unfold rev_str. rewrite has_ns_rev, has_ns_lstrip, has_ns_rev, has_ns_lstrip, H. reflexivity. }
  destruct (rev_str _); [discriminate Hx | reflexivity].
Qed.

Lemma nonblank_slash t : nonblank (String "/"%char t) = true.
Proof. apply has_ns_nonblank. reflexivity. Qed.

(* ====================================================================== *)
(* clause 2: the canonical string re-parses to the same segments *)
Lemma canon_reparse sp sp' l strip :
  wf_go false (map fst l) = true -> forallb wfc_seg (map fst l) = true ->
  (sp' = Dot -> (is_nil l || nonblank (render_x sp' (restyle_list (sep_char sp) true l))) = true) ->
  parse (Forced sp') strip (render_x sp' (restyle_list (sep_char sp) true l))
  = Ok (map (kseg strip (sep_char sp')) (restyle_list (sep_char sp) true l)).
Proof.
  intros Hwf Hc Hb. apply parse_render_x.
  - apply wf_go_restyle; [exact Hwf | exact Hc | reflexivity].
  - rewrite is_nil_restyle. destruct l as [|y r] eqn:El; [reflexivity|]. cbn [is_nil orb].
    destruct sp'.
    + specialize (Hb eq_refl). exact Hb.
    + apply nonblank_slash.
Qed.

(* the canonical style is a fixed point of restyling (as text) *)
Lemma body_restyle2 sepc sepc' first y :
  body_x sepc' (restyle sepc' first (restyle sepc first y)) = body_x sepc' (restyle sepc first y).
Proof.
  destruct y as [[[ty at_] st] X].
  destruct ty as [[]|]; try reflexivity; destruct at_; try reflexivity.
  cbn. apply esc_with_ext. intros c. rewrite !mem_app.
  rewrite <- orb_assoc, orb_diag. reflexivity.
Qed.

Lemma render_go_restyle2 sepc sepc' : forall l first,
  render_go_x sepc' first (restyle_list sepc' first (restyle_list sepc first l))
  = render_go_x sepc' first (restyle_list sepc first l).
Proof.
  induction l as [|y r IH]; intros first; [reflexivity|]. cbn [restyle_list render_go_x].
  rewrite body_restyle2, IH. reflexivity.
Qed.
