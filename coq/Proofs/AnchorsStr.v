(* C10: the names Merger._calc_unique_anchor hands out.  Its candidates for a
   name a are a, a_1, a_1_2, a_1_2_3, ...; two names that both had to be
   changed (at least one step each) never receive the same new name. *)
From Coq Require Import List Ascii String ZArith NArith Bool Arith Lia.
From YP Require Import Outcome PyStr PyVal Doc MergeConfig Merge Anchors C08Spec RtInt AnchorsFuel.
Import ListNotations.
Open Scope string_scope.

Definition us : ascii := "_"%char.

Lemma str_in_app : forall c a b, str_in c (a ++ b) = str_in c a || str_in c b.
Proof.
  intros c a b. induction a as [|d r IH]; simpl; [reflexivity|].
  destruct (Ascii.eqb c d); [reflexivity|exact IH].
Qed.

(* the text behind the last underscore *)
Fixpoint last_seg (s : string) : string :=
  match s with
  | EmptyString => EmptyString
  | String c r => if str_in us r then last_seg r else if Ascii.eqb us c then r else s
  end.

Lemma last_seg_app : forall x d, str_in us d = false -> last_seg (x ++ String us d) = d.
Proof.
  intros x d Hd. induction x as [|c r IH]; simpl.
  - rewrite Hd. reflexivity.
  - rewrite str_in_app. replace (str_in us (String us d)) with true by reflexivity.
    rewrite orb_true_r. exact IH.
Qed.

Lemma app_cancel_r : forall t x y : string, x ++ t = y ++ t -> x = y.
Proof.
  intros t x. induction x as [|c r IH]; intros y H.
  - destruct y as [|d y']; [reflexivity|]. exfalso.
    assert (L : String.length (EmptyString ++ t) = String.length (String d y' ++ t)) by now rewrite H.
    rewrite !str_length_app in L. simpl in L. lia.
  - destruct y as [|d y'].
    + exfalso. assert (L : String.length (String c r ++ t) = String.length (EmptyString ++ t)) by now rewrite H.
      rewrite !str_length_app in L. simpl in L. lia.
    + simpl in H. inversion H; subst. f_equal. now apply IH.
Qed.

Lemma digit_not_us : forall c, is_digit c = true -> Ascii.eqb us c = false.
Proof.
  intros c H. destruct (Ascii.eqb us c) eqn:E; [|reflexivity].
  apply Ascii.eqb_eq in E. subst c. vm_compute in H. discriminate.
Qed.

Lemma digits_no_us : forall s, all_chars is_digit s = true -> str_in us s = false.
Proof.
  induction s as [|c r IH]; intros H; [reflexivity|].
  cbn [all_chars] in H. cbn [str_in].
  apply andb_true_iff in H. destruct H as [Hc Hr]. rewrite (digit_not_us c Hc). auto.
Qed.

Lemma str_of_nat_no_us : forall n, str_in us (str_of_nat n) = false.
Proof.
  intros n. unfold str_of_nat, str_of_Z.
  assert (Hn : (Z.of_nat n <? 0)%Z = false) by (apply Z.ltb_ge; lia). rewrite Hn.
  rewrite Z.abs_eq by lia.
  destruct (pdf_value (Z.of_nat n) (Nat2Z.is_nonneg n)) as (H1 & _ & _). cbn zeta in H1.
  now apply digits_no_us.
Qed.

Lemma str_of_nat_inj : forall n m, str_of_nat n = str_of_nat m -> n = m.
Proof.
  intros n m H. unfold str_of_nat in H.
  assert (E : Some (Z.of_nat n) = Some (Z.of_nat m)).
  { rewrite <- (py_int_str_of_Z (Z.of_nat n)), <- (py_int_str_of_Z (Z.of_nat m)), H. reflexivity. }
  inversion E. lia.
Qed.

Lemma next_anchor_inj : forall a b i j, next_anchor a i = next_anchor b j -> a = b /\ i = j.
Proof.
  intros a b i j H. unfold next_anchor in H.
  change (a ++ "_" ++ str_of_nat i) with (a ++ String us (str_of_nat i)) in H.
  change (b ++ "_" ++ str_of_nat j) with (b ++ String us (str_of_nat j)) in H.
  assert (E : str_of_nat i = str_of_nat j).
  { rewrite <- (last_seg_app a _ (str_of_nat_no_us i)), <- (last_seg_app b _ (str_of_nat_no_us j)), H. reflexivity. }
  rewrite E in H. apply app_cancel_r in H. split; [exact H|now apply str_of_nat_inj].
Qed.

(* the j-th candidate for a name, counting from aid *)
Fixpoint an_cand (a : string) (aid j : nat) : string :=
  match j with
  | O => a
  | S j' => next_anchor (an_cand a aid j') (aid + j')
  end.

Lemma an_cand_shift : forall j a aid, an_cand (next_anchor a aid) (S aid) j = an_cand a aid (S j).
Proof.
  induction j as [|j IH]; intros a aid; simpl.
  - now rewrite Nat.add_0_r.
  - rewrite IH. simpl. now rewrite Nat.add_succ_r.
Qed.

Lemma calc_fuel_cand : forall fuel a aid known s,
  calc_unique_fuel fuel a aid known = Ok s ->
  exists j, s = an_cand a aid j /\ (mem_string a known = true -> 1 <= j).
Proof.
  induction fuel as [|f IH]; intros a aid known s H; simpl in H.
  - destruct (mem_string a known) eqn:M; [discriminate|]. inversion H; subst. exists 0. split; [reflexivity|discriminate].
  - destruct (mem_string a known) eqn:M.
    + destruct (IH _ _ _ _ H) as [j [E _]]. exists (S j). split; [|lia]. now rewrite <- an_cand_shift.
    + inversion H; subst. exists 0. split; [reflexivity|discriminate].
Qed.

Lemma an_cand_inj : forall j k a b aid,
  1 <= j -> 1 <= k -> an_cand a aid j = an_cand b aid k -> a = b.
Proof.
  induction j as [|j IH]; intros k a b aid Hj Hk H; [lia|].
  destruct k as [|k]; [lia|]. simpl in H. apply next_anchor_inj in H. destruct H as [H E].
  assert (j = k) by lia. subst k.
  destruct j as [|j']; [exact H|]. apply (IH (S j') a b aid); [lia|lia|exact H].
Qed.

(* two different names that are both taken get different new names *)
Theorem calc_unique_inj : forall a b known s,
  In a known -> In b known ->
  calc_unique_anchor a known = Ok s -> calc_unique_anchor b known = Ok s -> a = b.
Proof.
  intros a b known s Ha Hb Ea Eb. unfold calc_unique_anchor in *.
  destruct (calc_fuel_cand _ _ _ _ _ Ea) as [j [Ej Hj]].
  destruct (calc_fuel_cand _ _ _ _ _ Eb) as [k [Ek Hk]].
  apply (an_cand_inj j k a b 1); [apply Hj; now apply In_mem_string|apply Hk; now apply In_mem_string|congruence].
Qed.
