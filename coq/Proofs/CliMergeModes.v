(* C16, yaml-merge: the multi-document drivers of the glue model (Model/Cli.v) ARE the
   library-level drivers of Model/MultiDoc.v (the model C18's theorems are about), and
   main() delivers what those drivers return for the loaded streams. *)
From Coq Require Import List Ascii String ZArith Bool Arith Lia.
From YP Require Import Outcome PyStr Cli CliSpec CliMerge MergeConfig MultiDoc MultiDocProofs CliLibSpec.
Import ListNotations.
Open Scope list_scope.

Local Arguments lib_merge2 : simpl never.
Local Arguments merge_step : simpl never.

Lemma fam_matches_rep : forall u, fam_matches u (exn_of_ufam u).
Proof. destruct u; simpl; eauto. Qed.

Section Adapt.
  Variable merge2 : nat -> nat -> option ufam * nat.
  Notation lm2 := (lib_merge2 merge2).

  Lemma step_adapt : forall l r,
    match merge2 l r with
    | (None, d) => lm2 l r = (d, None) /\ merge_step merge2 l r = StepOk d
    | (Some u, d) => lm2 l r = (d, Some (exn_of_ufam u)) /\
                     merge_step merge2 l r = match u with
                                             | UMerge => StepErr true d
                                             | UYpe => StepErr false d
                                             | _ => StepUncaught u
                                             end
    end.
  Proof.
    intros l r. unfold lib_merge2, merge_step. destruct (merge2 l r) as [[u|] d]; simpl.
    - split; [reflexivity|]. destruct u; reflexivity.
    - split; reflexivity.
  Qed.

  (* unfolding equations of MultiDoc.v's drivers (kept explicit so that [simpl] does not look inside lm2) *)
  Lemma lib_across_cons : forall f l ls r rs,
    MultiDoc.merge_across nat f (l :: ls) (r :: rs) =
    let (l', e) := f l r in
    match e with
    | None => do (t, st) <- MultiDoc.merge_across nat f ls rs; Ok (l' :: t, st)
    | Some x => match catch x with Some c => Ok (l' :: ls, st_across c) | None => Raise x end
    end.
  Proof. reflexivity. Qed.
  Lemma lib_row_cons : forall f r rs l,
    MultiDoc.matrix_row nat f (r :: rs) l =
    let (l', e) := f l r in
    match e with
    | None => MultiDoc.matrix_row nat f rs l'
    | Some x => match catch x with Some c => Ok (l', Some (st_matrix c)) | None => Raise x end
    end.
  Proof. reflexivity. Qed.
  Lemma lib_condense_cons : forall f code d rest p st,
    MultiDoc.condense_into nat f code (d :: rest) p st =
    let (p', e) := f p d in
    match e with
    | None => MultiDoc.condense_into nat f code rest p' st
    | Some x => match catch x with
                | Some c => MultiDoc.condense_into nat f code rest p' (code c)
                | None => Raise x
                end
    end.
  Proof. reflexivity. Qed.

  Lemma across_adapt : forall ls rs,
    same_drive (Cli.merge_across merge2 ls rs) (MultiDoc.merge_across nat lm2 ls rs).
  Proof.
    unfold same_drive.
    induction ls as [|l ls IH]; intros [|r rs]; try (simpl; exists 0; split; [reflexivity|auto]; fail).
    specialize (IH rs). pose proof (step_adapt l r) as S. rewrite lib_across_cons.
    cbn [Cli.merge_across].
    destruct (merge2 l r) as [[u|] d]; destruct S as [S1 S2]; rewrite S1, S2; simpl.
    - destruct u; simpl.
      + exists 1. split; [reflexivity|intros X; discriminate X].
      + exists 1. split; [reflexivity|intros X; discriminate X].
      + eexists. split; [reflexivity|apply fam_matches_rep].
      + eexists. split; [reflexivity|apply fam_matches_rep].
    - destruct (MultiDoc.merge_across nat lm2 ls rs) as [[out st]|e|]; simpl in *.
      + destruct IH as (nh & E & Z). rewrite E. exists nh. split; [reflexivity|exact Z].
      + destruct IH as (u & E & X). rewrite E. exists u. split; [reflexivity|exact X].
      + exact IH.
  Qed.

  Lemma matrix_row_adapt : forall rs l,
    match MultiDoc.matrix_row nat lm2 rs l with
    | Ok (d, None) => Cli.matrix_row merge2 l rs = LOk (0, d, 0)
    | Ok (d, Some c) => Cli.matrix_row merge2 l rs = LOk (c, d, 1) /\ c <> 0
    | Raise e => exists u, Cli.matrix_row merge2 l rs = LRaise u /\ fam_matches u e
    | OutOfFuel => False
    end.
  Proof.
    induction rs as [|r rs IH]; intros l; [reflexivity|].
    pose proof (step_adapt l r) as S. rewrite lib_row_cons. cbn [Cli.matrix_row].
    destruct (merge2 l r) as [[u|] d]; destruct S as [S1 S2]; rewrite S1, S2; simpl.
    - destruct u; simpl.
      + split; [reflexivity|intros X; discriminate X].
      + split; [reflexivity|intros X; discriminate X].
      + eexists. split; [reflexivity|apply fam_matches_rep].
      + eexists. split; [reflexivity|apply fam_matches_rep].
    - apply IH.
  Qed.

  Lemma matrix_adapt : forall ls rs st nh,
    (st = 0 -> nh = 0) ->
    same_drive (Cli.merge_matrix merge2 ls rs st nh) (MultiDoc.merge_matrix_from nat lm2 ls rs st).
  Proof.
    unfold same_drive.
    induction ls as [|l ls IH]; intros rs st nh Z; simpl.
    - exists nh. split; [reflexivity|exact Z].
    - pose proof (matrix_row_adapt rs l) as R.
      destruct (MultiDoc.matrix_row nat lm2 rs l) as [[d [c|]]|e|]; simpl in *.
      + destruct R as [R C]. rewrite R.
        replace (Nat.eqb c 0) with false by (symmetry; apply Nat.eqb_neq; exact C).
        assert (Z' : c = 0 -> nh + 1 = 0) by (intros; congruence).
        specialize (IH rs c (nh + 1) Z').
        destruct (MultiDoc.merge_matrix_from nat lm2 ls rs c) as [[out st']|e|]; simpl in *.
        * destruct IH as (nh2 & E & Z2). rewrite E. exists nh2. split; [reflexivity|exact Z2].
        * destruct IH as (u & E & X). rewrite E. exists u. split; [reflexivity|exact X].
        * exact IH.
      + rewrite R. simpl Nat.eqb. cbv iota.
        assert (Z' : st = 0 -> nh + 0 = 0) by (intros; rewrite Nat.add_0_r; auto).
        specialize (IH rs st (nh + 0) Z').
        destruct (MultiDoc.merge_matrix_from nat lm2 ls rs st) as [[out st']|e|]; simpl in *.
        * destruct IH as (nh2 & E & Z2). rewrite E. exists nh2. split; [reflexivity|exact Z2].
        * destruct IH as (u & E & X). rewrite E. exists u. split; [reflexivity|exact X].
        * exact IH.
      + destruct R as (u & E & X). rewrite E. exists u. split; [reflexivity|exact X].
      + exact R.
  Qed.

  Lemma condense_into_adapt : forall code rs prime st cm cy nh,
    cm = code CMerge -> cy = code CPath -> cm <> 0 -> cy <> 0 -> (st = 0 -> nh = 0) ->
    match MultiDoc.condense_into nat lm2 code rs prime st with
    | Ok (p, st') => exists nh', Cli.condense_into merge2 prime rs st cm cy nh = LOk (p, st', nh') /\ (st' = 0 -> nh' = 0)
    | Raise e => exists u, Cli.condense_into merge2 prime rs st cm cy nh = LRaise u /\ fam_matches u e
    | OutOfFuel => False
    end.
  Proof.
    intros code. induction rs as [|r rs IH]; intros prime st cm cy nh Em Ey Nm Ny Z.
    - simpl. exists nh. split; [reflexivity|exact Z].
    - pose proof (step_adapt prime r) as S. rewrite lib_condense_cons. cbn [Cli.condense_into].
      destruct (merge2 prime r) as [[u|] d]; destruct S as [S1 S2]; rewrite S1, S2; simpl.
      + destruct u; simpl.
        * rewrite <- Ey. apply IH; auto. intros; congruence.
        * rewrite <- Em. apply IH; auto. intros; congruence.
        * eexists. split; [reflexivity|apply fam_matches_rep].
        * eexists. split; [reflexivity|apply fam_matches_rep].
      + apply IH; auto.
  Qed.

  Lemma condense_all_adapt : forall ls rs,
    same_drive (Cli.merge_condense_all merge2 ls rs) (MultiDoc.merge_condense_all nat lm2 ls rs).
  Proof.
    unfold same_drive. intros [|l0 rest] rs; simpl.
    - exists (UCrash "IndexError"). split; [reflexivity|simpl; eauto].
    - pose proof (condense_into_adapt st_condense_lhs rest l0 0 11 12 0 eq_refl eq_refl) as A.
      destruct (MultiDoc.condense_into nat lm2 st_condense_lhs rest l0 0) as [[p1 st1]|e|]; simpl in *.
      + destruct A as (nh1 & E1 & Z1); try discriminate; auto. rewrite E1.
        pose proof (condense_into_adapt st_condense_rhs rs p1 st1 13 14 nh1 eq_refl eq_refl) as B.
        destruct (MultiDoc.condense_into nat lm2 st_condense_rhs rs p1 st1) as [[p2 st2]|e|]; simpl in *.
        * destruct B as (nh2 & E2 & Z2); try discriminate; auto. rewrite E2. exists nh2. split; [reflexivity|exact Z2].
        * destruct B as (u & E2 & X); try discriminate; auto. rewrite E2. exists u. split; [reflexivity|exact X].
        * apply B; try discriminate; auto.
      + destruct A as (u & E1 & X); try discriminate; auto. rewrite E1. exists u. split; [reflexivity|exact X].
      + apply A; try discriminate; auto.
  Qed.

  (* merge_docs of the glue, on a source that loads, is MultiDoc.merge_docs on the loaded stream *)
  Lemma merge_docs_adapt : forall estr mode lhs s ds,
    get_doc_mergers estr s = MgOk ds ->
    same_drive (Cli.merge_docs merge2 estr mode lhs s)
               (MultiDoc.merge_docs nat lm2 (Ok (lib_mode mode)) (Some ds) lhs).
  Proof.
    intros estr mode lhs s ds D. unfold Cli.merge_docs. rewrite D.
    destruct mode; simpl MultiDoc.merge_docs; simpl lib_mode; cbv iota.
    - apply condense_all_adapt.
    - apply across_adapt.
    - unfold MultiDoc.merge_matrix. apply matrix_adapt. auto.
  Qed.

  (* ---- the loop over the YAML_FILEs ---- *)

  Definition loop_like (c : lres (nat * list nat * nat * bool * nat)) (l : outcome (list nat * nat))
             (cons : bool) (nh : nat) : Prop :=
    match l with
    | Ok (out, 0) => exists count', c = LOk (0, out, count', cons, nh)
    | Ok (out, S n) => exists count' cons' nh', c = LOk (S n, out, count', cons', nh')
    | Raise e => exists u, c = LRaise u /\ fam_matches u e
    | OutOfFuel => False
    end.

  Lemma merge_loop_modes : forall estr mode srcs mergers count consumed nh,
    Forall (src_loads estr) srcs ->
    loop_like (merge_loop merge2 estr mode srcs mergers count consumed nh)
              (lib_merge_streams merge2 mode mergers (map (src_docs estr) srcs))
              (consumed || existsb (fun s => is_dash (s_name s)) srcs) nh.
  Proof.
    unfold loop_like.
    intros estr mode srcs. induction srcs as [|s r IH]; intros mergers count consumed nh F.
    - simpl. exists count. rewrite orb_false_r. reflexivity.
    - inversion F as [|? ? [ds D] F']; subst.
      assert (SD : src_docs estr s = ds) by (unfold src_docs; rewrite D; reflexivity).
      cbn [map lib_merge_streams merge_loop existsb]. rewrite SD. rewrite orb_assoc.
      destruct mergers as [|p m]; cbn [lib_stream_step].
      + rewrite D. apply IH. exact F'.
      + pose proof (merge_docs_adapt estr mode (p :: m) s ds D) as A. unfold same_drive in A.
        destruct (MultiDoc.merge_docs nat lm2 (Ok (lib_mode mode)) (Some ds) (p :: m)) as [[out st]|e|].
        * destruct A as (h & E & Z). rewrite E.
          destruct st as [|n]; cbn [Nat.eqb].
          -- rewrite (Z eq_refl), Nat.add_0_r. apply IH. exact F'.
          -- eexists _, _, _. reflexivity.
        * destruct A as (u & E & X). rewrite E. exists u. split; [reflexivity|exact X].
        * exact A.
  Qed.

  Lemma lib_merge_streams_app : forall mode xs ys acc,
    lib_merge_streams merge2 mode acc (xs ++ ys) =
    match lib_merge_streams merge2 mode acc xs with
    | Ok (acc', 0) => lib_merge_streams merge2 mode acc' ys
    | other => other
    end.
  Proof.
    intros mode xs ys. induction xs as [|x xs IH]; intros acc; simpl; [reflexivity|].
    destruct (lib_stream_step merge2 mode acc x) as [[acc' [|n]]|e|]; try reflexivity. apply IH.
  Qed.
End Adapt.

(* ---- main(): what is delivered in the two non-default modes ---- *)

Definition merge_streams (estr : nat) (a : merge_args) (tty : bool) (srcs : list source) (stdin_src : source)
  : list (list nat) :=
  map (src_docs estr) srcs ++ (if stdin_waits_m a tty srcs then [src_docs estr stdin_src] else []).

Lemma merge_modes_run : forall merge2 flow jview estr a tty srcs stdin_src nerr vl n',
  ma_mode a <> CondenseAll ->
  merge_validate a (List.length srcs) (map s_name srcs) tty = (nerr, vl, n') -> nerr = 0 -> ma_config_err a = None ->
  Forall (src_loads estr) srcs ->
  (stdin_waits_m a tty srcs = true -> src_loads estr stdin_src) ->
  match lib_merge_streams merge2 (ma_mode a) [] (merge_streams estr a tty srcs stdin_src) with
  | Ok (out, 0) =>
      exists nh, cli_merge_main merge2 flow jview estr a tty srcs stdin_src =
        let w := merge_write flow jview a n' (nonempty (ma_overwrite a) || nonempty (ma_output a)) out in
        mkrun (r_status w) (vl ++ hints nh ++ r_out w) (r_fx w)
  | Ok (_, S n) => r_status (cli_merge_main merge2 flow jview estr a tty srcs stdin_src) = Exit (S n)
  | Raise e => exists u, r_status (cli_merge_main merge2 flow jview estr a tty srcs stdin_src) = Uncaught u /\
                         fam_matches u e
  | OutOfFuel => False
  end.
Proof.
  intros merge2 flow jview estr a tty srcs stdin_src nerr vl n' Mode V Z CE F FS.
  unfold cli_merge_main. rewrite V. subst nerr. simpl negb. cbv iota. rewrite CE.
  unfold merge_streams. rewrite lib_merge_streams_app.
  pose proof (merge_loop_modes merge2 estr (ma_mode a) srcs [] 0 false 0 F) as L. unfold loop_like in L.
  assert (NoSingle : forall x y, (Nat.eqb x 0 && Nat.eqb y 0 &&
            match ma_mode a with CondenseAll => true | _ => false end) = false).
  { intros. destruct (ma_mode a); [congruence| |]; rewrite andb_false_r; reflexivity. }
  destruct (lib_merge_streams merge2 (ma_mode a) [] (map (src_docs estr) srcs)) as [[m1 st1]|e|]; simpl in L.
  - destruct st1 as [|n1].
    + destruct L as (c1 & E). rewrite E. simpl orb. simpl Nat.eqb. simpl andb.
      unfold stdin_waits_m in *.
      destruct (negb (existsb (fun s => is_dash (s_name s)) srcs) && negb (ma_nostdin a) && negb tty) eqn:W.
      * destruct (FS eq_refl) as [ds D].
        assert (SD : src_docs estr stdin_src = ds) by (unfold src_docs; rewrite D; reflexivity).
        rewrite SD. cbn [lib_merge_streams].
        destruct m1 as [|p m]; cbn [lib_stream_step].
        -- rewrite D. rewrite ?NoSingle; simpl Nat.eqb; cbv iota. exists 0. reflexivity.
        -- pose proof (merge_docs_adapt merge2 estr (ma_mode a) (p :: m) stdin_src ds D) as A. unfold same_drive in A.
           destruct (MultiDoc.merge_docs nat (lib_merge2 merge2) (Ok (lib_mode (ma_mode a))) (Some ds) (p :: m))
             as [[out st]|e|].
           ++ destruct A as (h & E2 & Z2). rewrite E2.
              destruct st as [|n]; cbn [Nat.eqb andb].
              ** rewrite ?NoSingle; simpl Nat.eqb; cbv iota. exists (0 + h). reflexivity.
              ** rewrite ?NoSingle; simpl Nat.eqb; cbv iota. reflexivity.
           ++ destruct A as (u & E2 & X). rewrite E2. exists u. split; [reflexivity|exact X].
           ++ exact A.
      * cbn [lib_merge_streams]. rewrite ?NoSingle; simpl Nat.eqb; cbv iota. exists 0. reflexivity.
    + destruct L as (c1 & cons1 & nh1 & E). rewrite E. simpl Nat.eqb. simpl andb. cbv iota.
      rewrite ?NoSingle; simpl Nat.eqb; cbv iota. reflexivity.
  - destruct L as (u & E & X). rewrite E. exists u. split; [reflexivity|exact X].
  - exact L.
Qed.

(* every mode: exit 0 and the documents the library-level drivers return, each prepared for the
   output format (the first one decides the format and is prepared twice) *)
Lemma merge_modes_output : forall merge2 flow jview estr a tty srcs stdin_src nerr vl n',
  ma_mode a <> CondenseAll ->
  merge_validate a (List.length srcs) (map s_name srcs) tty = (nerr, vl, n') -> nerr = 0 -> ma_config_err a = None ->
  Forall (src_loads estr) srcs ->
  (stdin_waits_m a tty srcs = true -> src_loads estr stdin_src) ->
  ma_backup a && negb (ma_overwrite_exists a) = false ->
  forall d rest,
    lib_merge_streams merge2 (ma_mode a) [] (merge_streams estr a tty srcs stdin_src) = Ok (d :: rest, 0) ->
    r_status (cli_merge_main merge2 flow jview estr a tty srcs stdin_src) = Exit 0 /\
    delivered (cli_merge_main merge2 flow jview estr a tty srcs stdin_src) =
      [(doc_is_json flow a d,
        prepared flow jview a (prepared flow jview a d) :: map (prepared flow jview a) rest)].
Proof.
  intros merge2 flow jview estr a tty srcs stdin_src nerr vl n' Mode V Z CE F FS BK d rest L.
  pose proof (merge_modes_run merge2 flow jview estr a tty srcs stdin_src nerr vl n' Mode V Z CE F FS) as R.
  rewrite L in R. destruct R as (nh & E). rewrite E. clear E.
  pose proof (merge_validate_no_dump _ _ _ _ _ _ _ V) as DV.
  destruct (merge_write_delivers flow jview a n' (nonempty (ma_overwrite a) || nonempty (ma_output a)) (d :: rest))
    as [[S (d' & rest' & E & D)]|[[u S] _]].
  - inversion E; subst d' rest'. cbv zeta. split; [exact S|].
    unfold delivered in *. simpl r_out. simpl r_fx. rewrite !dumped_app, DV, dumped_hints. simpl. exact D.
  - exfalso. unfold merge_write in S. rewrite BK in S. simpl in S.
    destruct (nonempty (ma_overwrite a) || nonempty (ma_output a)); simpl in S; discriminate.
Qed.

(* a failing step of the selected mode: its exit state is the tool's exit status (and nothing is delivered,
   merge_fail_delivers_nothing) *)
Lemma merge_modes_error : forall merge2 flow jview estr a tty srcs stdin_src nerr vl n',
  ma_mode a <> CondenseAll ->
  merge_validate a (List.length srcs) (map s_name srcs) tty = (nerr, vl, n') -> nerr = 0 -> ma_config_err a = None ->
  Forall (src_loads estr) srcs ->
  (stdin_waits_m a tty srcs = true -> src_loads estr stdin_src) ->
  forall out n,
    lib_merge_streams merge2 (ma_mode a) [] (merge_streams estr a tty srcs stdin_src) = Ok (out, S n) ->
    r_status (cli_merge_main merge2 flow jview estr a tty srcs stdin_src) = Exit (S n) /\
    delivered (cli_merge_main merge2 flow jview estr a tty srcs stdin_src) = [].
Proof.
  intros merge2 flow jview estr a tty srcs stdin_src nerr vl n' Mode V Z CE F FS out n L.
  pose proof (merge_modes_run merge2 flow jview estr a tty srcs stdin_src nerr vl n' Mode V Z CE F FS) as R.
  rewrite L in R. split; [exact R|].
  apply merge_fail_delivers_nothing. rewrite R. discriminate.
Qed.

(* ---- with C18's theorems: no step fails ---- *)

Lemma clean_all_succeed : forall merge2, merges_clean merge2 -> MultiDoc.all_succeed nat (lib_merge2 merge2).
Proof. intros merge2 C l r. unfold lib_merge2. simpl. rewrite (C l r). reflexivity. Qed.

Lemma across_streams_run : forall merge2, merges_clean merge2 -> forall streams acc,
  lib_merge_streams merge2 MergeAcross acc streams =
  Ok (fold_left (MultiDoc.across_spec nat (lib_merge2 merge2)) streams acc, 0).
Proof.
  intros merge2 C streams. induction streams as [|rs rest IH]; intros acc; [reflexivity|].
  cbn [lib_merge_streams fold_left].
  destruct acc as [|p m]; cbn [lib_stream_step].
  - rewrite IH. destruct rs; reflexivity.
  - change (MultiDoc.merge_docs nat (lib_merge2 merge2) (Ok (lib_mode MergeAcross)) (Some rs) (p :: m))
      with (MultiDoc.merge_across nat (lib_merge2 merge2) (p :: m) rs).
    rewrite (across_is_spec nat (lib_merge2 merge2) (p :: m) rs (clean_all_succeed merge2 C)).
    apply IH.
Qed.

Lemma matrix_streams_run : forall merge2, merges_clean merge2 -> forall streams acc,
  lib_merge_streams merge2 MatrixMerge acc streams =
  Ok (fold_left (fun acc rs => match acc with
                               | [] => rs
                               | _ => map (fun l => fold_left (lib_m2 merge2) rs l) acc
                               end) streams acc, 0).
Proof.
  intros merge2 C streams. induction streams as [|rs rest IH]; intros acc; [reflexivity|].
  cbn [lib_merge_streams fold_left].
  destruct acc as [|p m]; cbn [lib_stream_step].
  - apply IH.
  - change (MultiDoc.merge_docs nat (lib_merge2 merge2) (Ok (lib_mode MatrixMerge)) (Some rs) (p :: m))
      with (MultiDoc.merge_matrix nat (lib_merge2 merge2) (p :: m) rs).
    rewrite (matrix_is_map_fold nat (lib_merge2 merge2) (p :: m) rs (clean_all_succeed merge2 C)).
    apply IH.
Qed.

Lemma merge_across_output : forall merge2 flow jview estr a tty srcs stdin_src nerr vl n',
  merges_clean merge2 ->
  ma_mode a = MergeAcross ->
  merge_validate a (List.length srcs) (map s_name srcs) tty = (nerr, vl, n') -> nerr = 0 -> ma_config_err a = None ->
  Forall (src_loads estr) srcs ->
  (stdin_waits_m a tty srcs = true -> src_loads estr stdin_src) ->
  ma_backup a && negb (ma_overwrite_exists a) = false ->
  forall d rest,
    across_streams merge2 (merge_streams estr a tty srcs stdin_src) = d :: rest ->
    r_status (cli_merge_main merge2 flow jview estr a tty srcs stdin_src) = Exit 0 /\
    delivered (cli_merge_main merge2 flow jview estr a tty srcs stdin_src) =
      [(doc_is_json flow a d,
        prepared flow jview a (prepared flow jview a d) :: map (prepared flow jview a) rest)].
Proof.
  intros merge2 flow jview estr a tty srcs stdin_src nerr vl n' C Mode V Z CE F FS BK d rest S.
  apply (merge_modes_output merge2 flow jview estr a tty srcs stdin_src nerr vl n'); auto.
  - rewrite Mode. discriminate.
  - rewrite Mode, across_streams_run by exact C. unfold across_streams in S. rewrite S. reflexivity.
Qed.

Lemma merge_matrix_output : forall merge2 flow jview estr a tty srcs stdin_src nerr vl n',
  merges_clean merge2 ->
  ma_mode a = MatrixMerge ->
  merge_validate a (List.length srcs) (map s_name srcs) tty = (nerr, vl, n') -> nerr = 0 -> ma_config_err a = None ->
  Forall (src_loads estr) srcs ->
  (stdin_waits_m a tty srcs = true -> src_loads estr stdin_src) ->
  ma_backup a && negb (ma_overwrite_exists a) = false ->
  forall d rest,
    matrix_streams merge2 (merge_streams estr a tty srcs stdin_src) = d :: rest ->
    r_status (cli_merge_main merge2 flow jview estr a tty srcs stdin_src) = Exit 0 /\
    delivered (cli_merge_main merge2 flow jview estr a tty srcs stdin_src) =
      [(doc_is_json flow a d,
        prepared flow jview a (prepared flow jview a d) :: map (prepared flow jview a) rest)].
Proof.
  intros merge2 flow jview estr a tty srcs stdin_src nerr vl n' C Mode V Z CE F FS BK d rest S.
  apply (merge_modes_output merge2 flow jview estr a tty srcs stdin_src nerr vl n'); auto.
  - rewrite Mode. discriminate.
  - rewrite Mode, matrix_streams_run by exact C. unfold matrix_streams in S. rewrite S. reflexivity.
Qed.
