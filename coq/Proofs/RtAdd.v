(* C08: YAMLPath.__add__ and YAMLPath.strip_path_prefix (modelled in
   Model/PathPrinter.v: y_add, y_strip_prefix).

   __add__ is append() on a fresh copy: the sum parses to the segments of the
   path followed by the appended segment, and the operand is not touched (the
   model function has no "object afterwards": YAMLPath(self) only reads
   self.original).

   strip_path_prefix compares the forward-slash canonical TEXTS of the two
   paths and cuts the text; the remainder is handed to YAMLPath() afresh.  It
   gives back the remaining segments when the remainder begins with a separator
   (the first remaining segment is a key, "*" or "**") or is empty.  It does NOT
   when the remainder begins with a bracket or parenthesis (read in dot
   notation: strip_prefix_refuted_bracket) and it strips a prefix of the TEXT
   that is no prefix of the SEGMENTS (strip_prefix_refuted_text). *)
From Coq Require Import List Ascii String ZArith Bool Arith Lia.
From YP Require Import Outcome PyStr Generated PathParser PathPrinter C08Spec RtStep RtSeg RtInt RtRender RtTables RtCanon RtClauses RtPop RtAppend.
Import ListNotations.
Open Scope string_scope.
Open Scope nat_scope.

(* ---- __add__ ---- *)
Lemma y_new_nonblank T : nonblank T = true -> y_new T = mkyp T None [] [] "".
Proof. intros H. unfold y_new, y_set_original. rewrite (normalize_nonblank _ H). reflexivity. Qed.

Lemma appended_any sp T B :
  nonblank T = true -> dot_text_ok sp T = true -> (sp = Slash -> exists r, T = String "/"%char r) ->
  y_append B (y_new T) = y_new (T ++ c1 (sep_char sp) ++ B).
Proof.
  intros Hb Hd Hs. rewrite (y_new_nonblank _ Hb), (y_new_nonblank (T ++ _)) by (apply nonblank_app; exact Hb).
  unfold y_append, y_separator. cbn [y_sep y_orig y_unesc y_esc y_strd].
  rewrite (infer_sep_text sp T Hb Hd Hs).
  assert (String.length T <? 1 = false) as -> by (destruct T; [discriminate Hb | reflexivity]).
  unfold y_set_original. change (str1 (sep_char sp)) with (c1 (sep_char sp)).
  rewrite (normalize_nonblank (T ++ _)) by (apply nonblank_app; exact Hb). reflexivity.
Qed.

Theorem add_is_append_on_copy sp l x p :
  y_orig p = render_ref sp l ->
  l <> [] -> wf sp l = true -> wf sp (l ++ [x]) = true -> dot_text_ok sp (render_ref sp l) = true ->
  y_add p (body (sep_char sp) x) = y_append (body (sep_char sp) x) (y_new (render_ref sp l))
  /\ y_orig (y_add p (body (sep_char sp) x)) = render_ref sp l ++ c1 (sep_char sp) ++ body (sep_char sp) x
  /\ fst (y_escaped (y_add p (body (sep_char sp) x))) = Ok (segs_of l ++ [fst (tail_eff x)])%list.
Proof.
  intros Ho Hne Hwf Hwf2 Hd. pose proof (wf_nonblank sp l Hne Hwf) as Hb.
  unfold y_add. rewrite Ho. split; [reflexivity|].
  rewrite (appended_any sp _ _ Hb Hd) by (intros ->; eexists; reflexivity).
  set (NOW := render_ref sp l ++ c1 (sep_char sp) ++ body (sep_char sp) x).
  assert (Hb2 : nonblank NOW = true) by (apply nonblank_app; exact Hb).
  split; [rewrite (y_new_nonblank _ Hb2); reflexivity|].
  rewrite y_escaped_new.
  rewrite (parse_auto_forced sp);
    [| intros ->; exact (dot_ok_app Dot _ _ Hb Hd) | intros ->; eexists; reflexivity].
  destruct (needs_sep x) eqn:Hs.
  - unfold NOW. rewrite <- render_ref_snoc by assumption. rewrite (parse_render sp _ Hwf2).
    unfold segs_of. rewrite map_app. cbn [map]. f_equal. f_equal.
    rewrite tail_eff_id; [reflexivity|].
    destruct x as [[ty at_] st]. destruct ty as [[]|]; try reflexivity; discriminate Hs.
  - destruct (wf_split _ _ Hwf2) as [Hgo _].
    unfold NOW. rewrite (parse_appended sp true l x Hne Hwf Hgo Hs).
    rewrite map_kseg_true, kseg_true. reflexivity.
Qed.

(* ---- strip_path_prefix ---- *)
(* a fresh path switched to the forward-slash separator, then str() *)
Lemma set_slash_fresh sp l :
  l <> [] -> wfc sp l = true -> dot_text_ok sp (render_ref sp l) = true ->
  exists p1, y_set_separator (Some Slash) (y_new (render_ref sp l)) = (Ok tt, p1)
             /\ y_strd p1 = canon_of sp Slash l /\ y_orig p1 = render_ref sp l.
Proof.
  intros Hne Hwfc Hd. destruct (wfc_split _ _ Hwfc) as [Hwf Hc]. pose proof (wf_nonblank sp l Hne Hwf) as Hb.
  rewrite (y_new_nonblank _ Hb). unfold y_set_separator. cbn [y_sep sepopt_eqb].
  unfold y_unescaped. cbn [y_unesc seglist_nonempty]. unfold y_separator. cbn [y_sep y_orig y_unesc y_esc y_strd].
  rewrite (infer_sep_text sp _ Hb Hd) by (intros ->; eexists; reflexivity).
  rewrite <- parse_forced_es by (apply normalize_nonblank; exact Hb).
  rewrite (parse_forced_unescaped sp l Hwf). cbn [y_sep y_orig y_unesc y_esc y_strd].
  eexists. split; [reflexivity|]. cbn [y_strd y_orig]. split; [|reflexivity].
  destruct (wf_split _ _ Hwf) as [Hgo _]. unfold usegs, canon_of. apply canon_text; rewrite map_fst_plain; assumption.
Qed.

Lemma y_str_cached p : nonempty (y_strd p) = true -> y_str p = (Ok (y_strd p), p).
Proof. intros H. unfold y_str. rewrite H. reflexivity. Qed.

Lemma restyle_list_app sepc : forall a b first,
  a <> [] -> restyle_list sepc first (a ++ b) = (restyle_list sepc first a ++ restyle_list sepc false b)%list.
Proof.
  induction a as [|y r IH]; intros b first Hn; [congruence|]. cbn [app restyle_list]. f_equal.
  destruct r as [|z r']; [reflexivity|]. apply IH. discriminate.
Qed.

Lemma render_go_x_app sepc : forall a b first,
  a <> [] -> render_go_x sepc first (a ++ b) = render_go_x sepc first a ++ render_go_x sepc false b.
Proof.
  induction a as [|y r IH]; intros b first Hn; [congruence|]. cbn [app render_go_x].
  destruct r as [|z r'].
  - cbn [app render_go_x]. rewrite app_nil_r_s, !app_assoc_s. reflexivity.
  - rewrite (IH b false) by discriminate. rewrite !app_assoc_s. reflexivity.
Qed.

Lemma drop_app a : forall b, drop (String.length a) (a ++ b) = b.
Proof. induction a as [|c r IH]; intros b; [destruct b; reflexivity|]. cbn. apply IH. Qed.

(* the head of the remainder is written after a separator also in canonical
   style (an anchor is not: str() writes [&a] in any position but the first) *)
Definition sep_head (r : list sseg) : bool :=
  match r with
  | [] => true
  | ((Some TKey, _), _) :: _ | ((Some TMatchAll, _), _) :: _ | ((Some TTraverse, _), _) :: _ => true
  | _ => false
  end.

Lemma wf_go_app : forall a prev b, wf_go prev (a ++ b) = true -> wf_go prev a = true /\ wf_go (last_coll prev a) b = true.
Proof.
  induction a as [|y r IH]; intros prev b H; [split; [reflexivity | exact H]|].
  cbn [app wf_go] in H. apply andb_true_iff in H. destruct H as [H1 H2].
  destruct (IH _ _ H2) as [H3 H4]. split; [cbn [wf_go]; rewrite H1, H3; reflexivity | exact H4].
Qed.

Lemma wf_go_sep_head prev r : sep_head r = true -> wf_go prev r = true -> wf_go false r = true.
Proof.
  destruct r as [|x r']; [reflexivity|]. intros Hh H. cbn [wf_go] in *. apply andb_true_iff in H. destruct H as [H1 H2].
  rewrite H2, andb_true_r.
  destruct x as [[ty at_] st]. destruct ty as [[]|]; try discriminate Hh; destruct at_; try discriminate H1; try exact H1.
  cbn [wf_seg] in *. apply andb_true_iff in H1. destruct H1 as [H1 H4]. apply andb_true_iff in H1. destruct H1 as [H1 _].
  rewrite H1, H4. reflexivity.
Qed.

Lemma body_x_nonempty sepc prev y : wf_seg prev (fst y) = true -> nonempty (body_x sepc y) = true.
Proof.
  intros H. destruct y as [[[ty at_] st] X]. cbn [fst] in H.
  destruct ty as [[]|]; try discriminate H; destruct at_; try discriminate H; try reflexivity.
  - cbn. destruct (st_bracket st); reflexivity.
  - cbn. destruct op; reflexivity.
  - cbn [wf_seg] in H. apply andb_true_iff in H. destruct H as [H _]. apply andb_true_iff in H. destruct H as [H _].
    apply andb_true_iff in H. destruct H as [H _]. destruct s as [|a r]; [discriminate H|].
    cbn [body_x body]. destruct (st_quote st); [reflexivity|]. cbn [esc_with]. destruct (mem_ascii a _); reflexivity.
Qed.

Lemma canon_not_root sp l : l <> [] -> wf sp l = true -> forallb wfc_seg l = true -> String.eqb (canon_of sp Slash l) "/" = false.
Proof.
  intros Hne Hwf Hc. destruct (wf_split _ _ Hwf) as [Hgo _].
  destruct l as [|x r]; [congruence|]. unfold canon_of, render_x. cbn [map restyle_list render_go_x negb andb].
  rewrite andb_false_r. cbn [append].
  cbn [wf_go] in Hgo. apply andb_true_iff in Hgo. destruct Hgo as [Hx _].
  cbn [forallb] in Hc. apply andb_true_iff in Hc. destruct Hc as [Hcx _].
  pose proof (body_x_nonempty (sep_char Slash) false (restyle (sep_char sp) true (plain_x x))
                (wf_restyle _ true false (plain_x x) Hx Hcx (fun _ => eq_refl))) as Hn.
  destruct (body_x _ _) as [|c t]; [discriminate Hn|]. reflexivity.
Qed.

Theorem strip_prefix sp q r :
  q <> [] -> wfc sp q = true -> wfc sp (q ++ r) = true ->
  dot_text_ok sp (render_ref sp q) = true -> dot_text_ok sp (render_ref sp (q ++ r)) = true ->
  sep_head r = true ->
  exists p' path' prefix',
    y_strip_prefix (y_new (render_ref sp (q ++ r))) (y_new (render_ref sp q)) = (Ok (Some p'), path', prefix')
    /\ fst (y_escaped p') = Ok (segs_of r)
    /\ y_orig path' = render_ref sp (q ++ r) /\ y_orig prefix' = render_ref sp q.
Proof.
  intros Hq Hwq Hwqr Hdq Hdqr Hh.
  assert (Hqr : (q ++ r)%list <> []) by (destruct q; [congruence | discriminate]).
  destruct (set_slash_fresh sp q Hq Hwq Hdq) as (p1 & E1 & S1 & O1).
  destruct (set_slash_fresh sp (q ++ r) Hqr Hwqr Hdqr) as (p2 & E2 & S2 & O2).
  destruct (wfc_split _ _ Hwq) as [Hwfq Hcq]. destruct (wfc_split _ _ Hwqr) as [Hwfqr Hcqr].
  pose proof (canon_not_root sp q Hq Hwfq Hcq) as Hnr.
  assert (Hne1 : nonempty (y_strd p1) = true).
  { rewrite S1. unfold canon_of, render_x. reflexivity. }
  assert (Hne2 : nonempty (y_strd p2) = true).
  { rewrite S2. unfold canon_of, render_x. reflexivity. }
  unfold y_strip_prefix. rewrite E1, (y_str_cached p1 Hne1), S1, Hnr, E2, (y_str_cached p1 Hne1), (y_str_cached p2 Hne2), S1, S2.
  (* the canonical text of the path begins with the canonical text of the prefix *)
  set (REST := render_go_x (sep_char Slash) false (restyle_list (sep_char sp) false (map plain_x r))).
  assert (Hsplit : canon_of sp Slash (q ++ r) = canon_of sp Slash q ++ REST).
  { unfold canon_of, render_x, REST. rewrite map_app.
    assert (Hq' : map plain_x q <> []) by (destruct q; [congruence | discriminate]).
    rewrite (restyle_list_app _ _ _ true Hq').
    rewrite render_go_x_app by (destruct (map plain_x q); [congruence | discriminate]).
    rewrite app_assoc_s. reflexivity. }
  rewrite Hsplit, starts_with_app. unfold str_len. rewrite drop_app.
  eexists _, p2, p1. split; [reflexivity|]. split; [|split; assumption].
  (* the remainder, handed to YAMLPath() afresh *)
  rewrite y_escaped_new.
  destruct r as [|x r'].
  - reflexivity.
  - destruct (wf_split _ _ Hwfqr) as [Hgo _]. destruct (wf_go_app _ _ _ Hgo) as [_ Hgor].
    pose proof (wf_go_sep_head _ _ Hh Hgor) as Hgor0.
    rewrite forallb_app in Hcqr. apply andb_true_iff in Hcqr. destruct Hcqr as [_ Hcr].
    set (L' := restyle_list (sep_char sp) false (map plain_x (x :: r'))).
    assert (ER : REST = render_x Slash L').
    { unfold REST, L', render_x. cbn [map restyle_list render_go_x negb andb].
      assert (Hn : needs_sep (fst (restyle (sep_char sp) false (plain_x x))) = true).
      { destruct x as [[ty at_] st]. destruct ty as [[]|]; try discriminate Hh; reflexivity. }
      rewrite Hn. reflexivity. }
    rewrite ER. rewrite (parse_auto_forced Slash); [| discriminate | intros _; eexists; reflexivity].
    rewrite parse_render_x.
    + unfold L'. rewrite segs_restyle, map_ffst_plain. reflexivity.
    + unfold L'. apply wf_go_restyle; [rewrite map_fst_plain; exact Hgor0 | rewrite map_fst_plain; exact Hcr | discriminate].
    + cbn [is_nil orb L' map restyle_list]. unfold render_x. apply nonblank_slash.
Qed.

(* the root prefix strips nothing: the very object is returned *)
Theorem strip_prefix_root path :
  y_strip_prefix path (y_new "/") = (Ok None, path, mkyp "/" (Some Slash) [] [] "/")
  /\ fst (fst (y_strip_prefix path (y_new ""))) = Ok None /\ snd (fst (y_strip_prefix path (y_new ""))) = path.
Proof. repeat split. Qed.

(* a prefix whose canonical text is no prefix of the path's canonical text:
   the very object is returned *)
Theorem strip_prefix_other sp sp' q l :
  q <> [] -> l <> [] -> wfc sp' q = true -> wfc sp l = true ->
  dot_text_ok sp' (render_ref sp' q) = true -> dot_text_ok sp (render_ref sp l) = true ->
  starts_with (canon_of sp' Slash q) (canon_of sp Slash l) = false ->
  exists path' prefix',
    y_strip_prefix (y_new (render_ref sp l)) (y_new (render_ref sp' q)) = (Ok None, path', prefix')
    /\ y_orig path' = render_ref sp l /\ y_orig prefix' = render_ref sp' q.
Proof.
  intros Hq Hl Hwq Hwl Hdq Hdl Hns.
  destruct (set_slash_fresh sp' q Hq Hwq Hdq) as (p1 & E1 & S1 & O1).
  destruct (set_slash_fresh sp l Hl Hwl Hdl) as (p2 & E2 & S2 & O2).
  destruct (wfc_split _ _ Hwq) as [Hwfq Hcq].
  pose proof (canon_not_root sp' q Hq Hwfq Hcq) as Hnr.
  assert (Hne1 : nonempty (y_strd p1) = true) by (rewrite S1; reflexivity).
  assert (Hne2 : nonempty (y_strd p2) = true) by (rewrite S2; reflexivity).
  unfold y_strip_prefix. rewrite E1, (y_str_cached p1 Hne1), S1, Hnr, E2, (y_str_cached p1 Hne1), (y_str_cached p2 Hne2), S1, S2, Hns.
  eexists p2, p1. split; [reflexivity | split; assumption].
Qed.

(* what strip_path_prefix does NOT guarantee (both replayed on the real code) *)
Example strip_prefix_refuted_bracket :
  (* "/a[0]/x" minus "/a" leaves the text "[0]/x", read in dot notation: [0] then the KEY "/x" *)
  (let '(r, _, _) := y_strip_prefix (y_new "/a[0]/x") (y_new "/a") in
   match r with Ok (Some p) => (y_orig p, fst (y_escaped p)) | _ => ("", Ok []) end)
  = ("[0]/x", Ok [(Some TIndex, AInt 0); (Some TKey, AStr "/x")]).
Proof. vm_compute. reflexivity. Qed.

Example strip_prefix_refuted_text :
  (* "a" is no prefix of the segments of "ab.c", but "/a" is a prefix of the text "/ab/c" *)
  (let '(r, _, _) := y_strip_prefix (y_new "ab.c") (y_new "a") in
   match r with Ok (Some p) => (y_orig p, fst (y_escaped p)) | _ => ("", Ok []) end)
  = ("b/c", Ok [(Some TKey, AStr "b/c")]).
Proof. vm_compute. reflexivity. Qed.
