(* C15, part 2 of the joined evaluator: collector expressions whose operands
   select scalars (SpecC15kw.kc_guard).  Under the guard the collector handlers
   of processor.py never reach one of their raising sites: nothing is
   flattened, no hash is reduced, .items()/`in` on a scalar are not
   evaluated -- and what a collector yields is one Python list, which the
   operator segments that follow hand through unchanged. *)
From Coq Require Import List Ascii String ZArith NArith Bool Arith Lia.
From YP Require Import Outcome PyStr PyVal Doc Generated PathParser PathPrinter Searches Eval Keywords EvalKw
     SpecC15 SpecC09 SpecC15kw EvalGood EvalHandlers EvalTotal EvalPure EvalC15 EvalKwClean EvalKwTotal.
Import ListNotations.
Open Scope string_scope.
Open Scope nat_scope.

Definition leafP (x : rval) : Prop := leaf_item x = true.

Lemma leaf_coords x : leafP x -> is_coords x = true.
Proof. destruct x; cbn; intros H; try discriminate; reflexivity. Qed.

Lemma leaf_unw x : leafP x -> exists i v, unw x = RNode (NLeaf i v).
Proof.
  unfold leafP, leaf_item. destruct x as [n0|l0|nd par rf path anc]; try discriminate.
  destruct (unw (RCoords nd par rf path anc)) as [n| |]; try discriminate.
  destruct n; try discriminate. eauto.
Qed.

Lemma leaf_nd_not_list nd p r t a : leafP (RCoords nd p r t a) -> is_pylist nd = false.
Proof.
  intros H. destruct (leaf_unw _ H) as (i & v & E). cbn [unw] in E.
  destruct nd as [n|l|]; cbn in *; try reflexivity; try discriminate.
  inversion E; subst. reflexivity.
Qed.

Lemma addition_items_leaf c nc : leafP nc -> addition_items c nc = [nc].
Proof.
  intros H. destruct nc; try discriminate H.
  unfold addition_items. rewrite (leaf_nd_not_list _ _ _ _ _ H). reflexivity.
Qed.

Lemma flat_map_addition c items : Forall leafP items -> flat_map (addition_items c) items = items.
Proof.
  induction 1 as [|x r Hx Hr IH]; cbn; [reflexivity|].
  rewrite (addition_items_leaf c x Hx), IH. reflexivity.
Qed.

Lemma del_items_leaf nc : leafP nc -> exists r, del_items nc = Ok r.
Proof.
  intros H. destruct (leaf_unw _ H) as (i & v & E).
  unfold del_items. rewrite E. cbn [is_pylist].
  destruct nc as [n0|l0|nd par rf path anc]; try discriminate H.
  destruct par as [[[]| |]|]; destruct rf; eauto.
Qed.

Lemma mapM_del_items items : Forall leafP items -> exists rems, mapM del_items items = Ok rems.
Proof.
  induction 1 as [|x r Hx Hr IH]; cbn; [eauto|].
  destruct (del_items_leaf x Hx) as [y ->]. destruct IH as [ys ->]. cbn. eauto.
Qed.

Lemma deepest_leaf : forall x, leafP x -> leafP (deepest x).
Proof.
  induction x as [n|l|nd IH par rf path anc]; intros H; try discriminate H.
  destruct nd as [n|l|nd2 p2 r2 t2 a2]; cbn [deepest]; try exact H.
  apply IH. unfold leafP, leaf_item in *. cbn [unw] in *. exact H.
Qed.

Lemma sub_scan_leaf rems : forall lhs updated,
  Forall leafP lhs -> Forall leafP updated ->
  exists upd, sub_scan rems lhs updated = Ok upd /\ Forall leafP upd.
Proof.
  induction lhs as [|l rest IH]; intros updated Hl Hu; cbn [sub_scan]; [eauto|].
  inversion Hl as [|? ? Hx Hr]; subst.
  destruct (leaf_unw _ Hx) as (i & v & E).
  destruct l as [n|ll|nd par rf path anc]; try discriminate Hx.
  rewrite E.
  destruct (_ || _).
  - apply IH; auto.
  - apply IH; auto. apply Forall_app; split; auto. constructor; [|constructor].
    apply deepest_leaf; exact Hx.
Qed.

Lemma subtraction_leaf rems lhs :
  Forall leafP lhs -> exists upd, subtraction rems lhs = (upd, Done) /\ Forall leafP upd.
Proof.
  intros H. unfold subtraction.
  destruct (sub_scan_leaf rems lhs [] H (Forall_nil _)) as (upd & -> & Hu). eauto.
Qed.

(* ---- the collector handler under the guard ---- *)
Definition listres (g : gen rval) : Prop := sres is_pylist g /\ nomut g.
Definition opnd_ok (g : gen rval) : Prop := good g /\ Forall leafP (fst g) /\ nomut g.

Fixpoint chain_okP (rqp : ppath -> rval -> ctx -> gen rval) (v : rval) (c : ctx) (l : list pseg) : Prop :=
  match l with
  | [] => True
  | ps :: r =>
      match seg_es ps with
      | (Some TCollector, ACollector CNone _) => True
      | (Some TCollector, ACollector _ _) => opnd_ok (rqp (seg_sub2 ps) v c) /\ chain_okP rqp v c r
      | _ => True
      end
  end.

Lemma listres_ype k : listres (gerr (YPE k)).
Proof. split; [apply sres_gerr_ype | exact I]. Qed.

Lemma all_gen_opnd g (k : list rval -> gen rval) :
  opnd_ok g -> (forall items, Forall leafP items -> listres (k items)) -> listres (all_gen g k).
Proof.
  intros (Hg & Hf & Hm) Hk. destruct g as [items st]; cbn in *.
  destruct st as [|e| |]; cbn in *; try contradiction.
  - apply Hk; exact Hf.
  - destruct e; try contradiction. apply listres_ype.
Qed.

Lemma peek_loop_kc rqp v c : forall rest ncs k,
  chain_okP rqp v c rest -> Forall leafP ncs ->
  (forall l, Forall leafP l -> listres (k l)) ->
  listres (peek_loop rqp rest v c ncs k).
Proof.
  induction rest as [|ps r IH]; intros ncs k Hc Hn Hk; cbn [peek_loop]; [apply Hk; exact Hn|].
  cbn [chain_okP] in Hc.
  destruct (seg_es ps) as [ty a]. destruct ty as [[]|]; try (apply Hk; exact Hn).
  destruct a; try (apply Hk; exact Hn).
  destruct op.
  - apply listres_ype.
  - destruct Hc as [Ho Hr]. apply all_gen_opnd; [exact Ho|]. intros items Hi.
    apply IH; auto. apply Forall_app; split; auto. rewrite flat_map_addition; auto.
  - destruct Hc as [Ho Hr]. apply all_gen_opnd; [exact Ho|]. intros items Hi.
    destruct (mapM_del_items items Hi) as [rems ->]. cbn [glift].
    destruct (subtraction_leaf (List.concat rems) ncs Hn) as (upd & -> & Hu).
    apply IH; auto.
  - destruct Hc as [Ho Hr]. apply all_gen_opnd; [exact Ho|]. intros items Hi.
    apply IH; auto. apply Forall_forall. intros x Hx. apply filter_In in Hx. destruct Hx as [Hx _].
    rewrite Forall_forall in Hn. apply Hn; exact Hx.
Qed.

Lemma by_collector_kc rqp ps rest v c :
  opnd_ok (rqp (seg_sub ps) v c) -> chain_okP rqp v c rest ->
  listres (by_collector rqp CNone ps rest v c).
Proof.
  intros Ho Hc. unfold by_collector. apply all_gen_opnd; [exact Ho|]. intros ncs Hn.
  assert (E : match ncs with
              | [RCoords nd par _ path anc] =>
                  if is_pylist nd
                  then map (fun ie => ncoords (snd ie) par (Some (PInt (Z.of_nat (fst ie)))) path anc) (Eval.enumerate (elems nd))
                  else ncs
              | _ => ncs
              end = ncs).
  { destruct ncs as [|x [|y r]]; try reflexivity; [|destruct x; reflexivity].
    destruct x; try reflexivity.
    inversion Hn as [|? ? Hx _]; subst. rewrite (leaf_nd_not_list _ _ _ _ _ Hx). reflexivity. }
  rewrite E.
  apply peek_loop_kc; auto.
  intros l _. destruct l; [split; [apply sres_gnil | exact I]|].
  split; [apply sres_gone_q; reflexivity | exact I].
Qed.

(* ---- what the dispatcher does on collector segments ---- *)
Lemma coll_seg_inv head es us :
  is_coll_seg head es us = true ->
  exists op e op' e', es = (Some TCollector, ACollector op e) /\ us = (Some TCollector, ACollector op' e')
                      /\ cop_is_none op = head /\ cop_is_none op' = head.
Proof.
  unfold is_coll_seg. destruct es as [[[]|] a]; try discriminate.
  destruct a; try discriminate. destruct us as [[[]|] ua]; try discriminate. destruct ua; try discriminate.
  intros H. apply andb_prop in H. destruct H as [H1 H2].
  apply Bool.eqb_prop in H1. apply Bool.eqb_prop in H2. eauto 10.
Qed.

Section KwColl.
Variable lit : string -> outcome litres.
Variable re_search : string -> string -> outcome reres.
Variable nstr : node -> string.
Variable vstr : list rval -> string.
Hypothesis lit_total : forall s, exists r, lit s = Ok r /\ (forall c, r <> LCrash c).
Hypothesis re_total : forall p s, exists r, re_search p s = Ok r.

Notation KW := (ek_kw_handler lit re_search nstr vstr).
Notation EV := (ev lit re_search nstr vstr (ek_kw_handler lit re_search nstr vstr) ek_creator).

Lemma dispatch_opcoll self sg_next rqp segs i ps v c :
  nth_error segs i = Some ps -> is_coll_seg false (seg_es ps) (seg_us ps) = true -> is_pylist v = true ->
  dispatch lit re_search nstr vstr KW self sg_next rqp segs i v c = gone v.
Proof.
  intros En Hc Hv. unfold dispatch. rewrite En.
  destruct (coll_seg_inv _ _ _ Hc) as (op & e & op' & e' & -> & -> & H1 & H2).
  cbn [is_ty is_stype segtype_eqb]. rewrite Bool.andb_false_r. cbn [andb].
  assert (Eu : unwrap_ctx v c = (v, c)) by (destruct v; cbn in Hv; try discriminate; reflexivity).
  rewrite Eu. unfold by_collector. destruct op'; try discriminate; reflexivity.
Qed.

Lemma dispatch_head self sg_next rqp segs ps d c :
  nth_error segs 0 = Some ps -> is_coll_seg true (seg_es ps) (seg_us ps) = true ->
  dispatch lit re_search nstr vstr KW self sg_next rqp segs 0 (RNode d) c
  = by_collector rqp CNone ps (skipn 1 segs) (RNode d) c.
Proof.
  intros En Hc. unfold dispatch. rewrite En.
  destruct (coll_seg_inv _ _ _ Hc) as (op & e & op' & e' & -> & -> & H1 & H2).
  cbn. destruct op'; try discriminate. reflexivity.
Qed.

Definition chain_tail (l : list pseg) : bool := kc_chain (fun _ => true) l.

Lemma kc_chain_tail opnd l : kc_chain opnd l = true -> chain_tail l = true.
Proof.
  unfold chain_tail. induction l as [|[es us s s2] r IH]; cbn [kc_chain]; auto.
  destruct (is_coll_seg false es us); auto.
  intros H. apply andb_prop in H. destruct H as [_ H]. cbn [andb]. apply IH; exact H.
Qed.

(* the operator segments after a collector hand the list through; then the
   collector-free rest *)
Lemma ev_chain_tail : forall pf md segs i v c,
  is_pylist v = true -> wsegs (skipn i segs) < pf -> chain_tail (skipn i segs) = true ->
  res2 md (EV pf md segs i v c).
Proof.
  induction pf as [|pf IH]; intros md segs i v c Hv Hw Hc; [lia|].
  destruct (nth_error segs i) as [ps|] eqn:En.
  2:{ apply ev_tail; auto. rewrite (skipn_none _ _ En). reflexivity. }
  pose proof (skipn_nth _ _ _ En) as Es. rewrite Es in Hc.
  destruct ps as [es us sub sub2]. unfold chain_tail in Hc. cbn [kc_chain] in Hc.
  destruct (is_coll_seg false es us) eqn:Ecs.
  2:{ apply ev_tail; auto. rewrite Es. exact Hc. }
  cbn [andb] in Hc.
  assert (Hw' : wsegs (skipn (S i) segs) < pf) by (rewrite Es in Hw; cbn [wsegs] in Hw; lia).
  cbn [ev]. unfold ev_body.
  destruct md; unfold res2; cbn [res_of].
  - rewrite (nth_error_lt_true _ _ _ En). cbn [walk].
    rewrite (dispatch_opcoll _ _ _ _ _ _ _ _ En Ecs Hv). rewrite gbind_gone. rewrite Hv.
    apply (IH MReq); auto.
  - rewrite En. cbn [walk]. rewrite (dispatch_opcoll _ _ _ _ _ _ _ _ En Ecs Hv).
    unfold gone at 2. rewrite gbind_gone. rewrite Hv.
    apply (IH MOpt); auto.
  - cbn [walk]. rewrite (dispatch_opcoll _ _ _ _ _ _ _ _ En Ecs Hv).
    split; [apply sres_gone_q; unfold coords_or_list; rewrite Hv; apply orb_true_r | intros _; exact I].
Qed.

Lemma wsegs_in l ps : In ps l -> pweight (seg_sub ps) + pweight (seg_sub2 ps) < wsegs l.
Proof.
  induction l as [|[es us s s2] r IH]; intros H; [contradiction|].
  destruct H as [<-|H]; cbn [wsegs seg_sub seg_sub2]; [lia|]. apply IH in H. lia.
Qed.

Lemma chain_okP_of opnd rqp v c rest :
  (forall ps, In ps rest -> opnd (seg_sub2 ps) = true -> opnd_ok (rqp (seg_sub2 ps) v c)) ->
  kc_chain opnd rest = true -> chain_okP rqp v c rest.
Proof.
  induction rest as [|[es us s s2] r IH]; intros Hin Hc; cbn [chain_okP]; [exact I|].
  cbn [kc_chain] in Hc. cbn [seg_es].
  destruct (is_coll_seg false es us) eqn:E.
  - destruct (coll_seg_inv _ _ _ E) as (op & e & op' & e' & -> & -> & H1 & H2).
    apply andb_prop in Hc. destruct Hc as [Ho Hr].
    destruct op; try discriminate H1.
    all: split; [apply (Hin (PSeg _ _ s s2)); [left; reflexivity | exact Ho]
                | apply IH; [intros; apply Hin; [right; assumption | assumption] | exact Hr]].
  - destruct (frag_kw_cons _ _ _ _ _ Hc) as (Hok & _).
    unfold seg_ok_kw, seg_ok in Hok. destruct es as [[[]|] a]; cbn in Hok; try discriminate; exact I.
Qed.

(* the whole query on a document, under the guard *)
Lemma ev_kc : forall pf md segs d,
  md <> MSeg -> wsegs segs < pf -> kc_guard lit re_search nstr vstr pf segs d = true ->
  res2 md (EV pf md segs 0 (RNode d) root_ctx).
Proof.
  induction pf as [|pf IH]; intros md segs d Hmd Hw Hg; [lia|].
  destruct segs as [|[es us sub sub2] rest].
  { apply ev_tail; auto. }
  cbn [kc_guard] in Hg.
  destruct (is_coll_seg true es us) eqn:Ehead.
  2:{ apply ev_tail; auto. }
  apply andb_prop in Hg. destruct Hg as [Hsub Hchain].
  cbn [wsegs] in Hw.
  set (rqp := fun (p : ppath) (v : rval) (c : ctx) =>
                match p with PFail e => gerr e | PPath s => EV pf MReq s 0 v c end).
  set (opnd := kc_opnd (fun s => kc_guard lit re_search nstr vstr pf s d)
                       (fun s => ek_ev lit re_search nstr vstr pf MReq s 0 (RNode d) root_ctx)) in *.
  assert (Hopnd : forall p, pweight p <= pf -> opnd p = true -> opnd_ok (rqp p (RNode d) root_ctx)).
  { intros p Hp Ho. unfold opnd, kc_opnd in Ho. destruct p as [s|ex].
    - apply andb_prop in Ho. destruct Ho as [Hgs Hlf].
      rewrite pweight_ppath in Hp.
      destruct (IH MReq s d) as [[Hgood Hco] Hnm]; [discriminate | lia | exact Hgs |].
      unfold rqp. split; [exact Hgood|]. split; [|apply Hnm; discriminate].
      unfold leafy, ek_ev in Hlf. rewrite forallb_forall in Hlf. apply Forall_forall. exact Hlf.
    - destruct ex; try discriminate. unfold rqp. split; [exact I|]. split; [constructor | exact I]. }
  assert (Hchain' : chain_okP rqp (RNode d) root_ctx rest).
  { apply (chain_okP_of opnd); [|exact Hchain].
    intros ps Hin Ho. apply Hopnd; [|exact Ho]. apply wsegs_in in Hin. lia. }
  assert (Hcoll : listres (by_collector rqp CNone (PSeg es us sub sub2) rest (RNode d) root_ctx)).
  { apply by_collector_kc; [|exact Hchain']. cbn [seg_sub]. apply Hopnd; [lia | exact Hsub]. }
  assert (Htail : forall md' x, is_pylist x = true ->
            res2 md' (EV pf md' (PSeg es us sub sub2 :: rest) 1 x root_ctx)).
  { intros md' x Hx. apply ev_chain_tail; auto.
    - cbn [skipn]. lia.
    - cbn [skipn]. eapply kc_chain_tail; eauto. }
  cbn [ev]. unfold ev_body. fold rqp.
  assert (Ehere : walk lit re_search nstr vstr KW (EV pf MSeg (PSeg es us sub sub2 :: rest) 1) rqp
                       (PSeg es us sub sub2 :: rest) 0 (S (vsize (RNode d))) (RNode d)
                       (mkctx (x_par root_ctx) (x_ref root_ctx) true (x_tp root_ctx) (x_anc root_ctx))
                  = by_collector rqp CNone (PSeg es us sub sub2) rest (RNode d) root_ctx).
  { cbn [walk]. rewrite (dispatch_head _ _ _ _ (PSeg es us sub sub2)); [reflexivity | reflexivity | exact Ehead]. }
  destruct Hcoll as [[Hcg Hcf] Hcm].
  destruct md; unfold res2; cbn [res_of]; try (exfalso; apply Hmd; reflexivity).
  - (* MReq *)
    cbn [Nat.ltb Nat.leb List.length]. rewrite Ehere.
    split.
    + apply sres_gbind; [exact Hcg|].
      intros x Hx. rewrite Forall_forall in Hcf. rewrite (Hcf x Hx). apply (Htail MReq); auto.
    + intros _. apply nomut_gbind_in; [exact Hcm|].
      intros x Hx. rewrite Forall_forall in Hcf. rewrite (Hcf x Hx). apply (Htail MReq); auto. discriminate.
  - (* MOpt *)
    cbn [nth_error]. rewrite Ehere.
    split; [|intros H; exfalso; apply H; reflexivity].
    set (gg := by_collector rqp CNone (PSeg es us sub sub2) rest (RNode d) root_ctx) in *.
    assert (Hfound : sres is_coords
              (gbind gg
                 (fun x => if is_pylist x then EV pf MOpt (PSeg es us sub sub2 :: rest) 1 x root_ctx
                           else match x with
                                | RCoords nd par rf path anc =>
                                    EV pf MOpt (PSeg es us sub sub2 :: rest) 1 nd (mkctx par rf true path anc)
                                | _ => gerr (PyCrash AttributeError)
                                end))).
    { apply sres_gbind; [exact Hcg|].
      intros x Hx. rewrite Forall_forall in Hcf. rewrite (Hcf x Hx). apply (Htail MOpt); auto. }
    clearbody gg.
    destruct gg as [[|x0 l0] st]; [destruct st|]; try exact Hfound.
    destruct (creatable _); [apply missing_element_res; apply ek_creator_ok | exact Hfound].
Qed.

End KwColl.
