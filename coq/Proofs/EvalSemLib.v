(* C01, path level, part 1: how the evaluator's streams are compared with the
   lists of Spec/SpecC01.v, and the algebra of the stream combinators. *)
From Coq Require Import List Ascii String ZArith NArith Bool Arith Lia.
From YP Require Import Outcome PyStr PyVal Doc Generated PathParser PathPrinter Searches Eval SpecC01.
Import ListNotations.
Open Scope string_scope.
Open Scope nat_scope.

(* ---- what a yielded NodeCoords designates ---- *)
Definition elem_node (e : rval) : option node :=
  match e with
  | RNode n => Some n
  | RCoords (RNode n) _ _ _ _ => Some n
  | _ => None
  end.
Fixpoint elem_nodes (l : list rval) : option (list node) :=
  match l with
  | [] => Some []
  | e :: r => match elem_node e, elem_nodes r with
              | Some n, Some ns => Some (n :: ns)
              | _, _ => None
              end
  end.
Definition item_res (x : rval) : selres :=
  match x with
  | RCoords (RNode n) _ _ _ _ => SNode n
  | RCoords (RList l) _ _ _ _ => match elem_nodes l with Some ns => SVirt ns | None => SOut end
  | _ => SOut
  end.

(* the stream yields exactly the specified list and ends normally -- claimed
   wherever the specification speaks (no SOut marker in the list) *)
Definition agree (g : gen rval) (l : list selres) : Prop :=
  specified l = true -> snd g = Done /\ map item_res (fst g) = l.

Lemma specified_app a b : specified (a ++ b) = specified a && specified b.
Proof. apply forallb_app. Qed.

Lemma specified_flat_map {A} (F : A -> list selres) l :
  specified (flat_map F l) = true -> forall x, In x l -> specified (F x) = true.
Proof.
  induction l as [|y r IH]; intros H x Hx; cbn in *; [contradiction|].
  rewrite specified_app in H. apply andb_prop in H. destruct H as [H1 H2].
  destruct Hx as [<-|Hx]; auto.
Qed.

Lemma agree_nil : agree gnil [].
Proof. intros _. split; reflexivity. Qed.
Lemma agree_out g l : specified l = false -> agree g l.
Proof. intros H H'. rewrite H in H'. discriminate. Qed.
Lemma agree_sout g l : agree g (SOut :: l).
Proof. apply agree_out. reflexivity. Qed.
Lemma agree_gone x s : item_res x = s -> agree (gone x) [s].
Proof. intros <- _. split; reflexivity. Qed.
Lemma agree_eq g g' l : g = g' -> agree g' l -> agree g l.
Proof. intros ->. auto. Qed.

Lemma agree_gapp a b l1 l2 : agree a l1 -> agree (b tt) l2 -> agree (gapp a b) (l1 ++ l2).
Proof.
  intros Ha Hb Hs. rewrite specified_app in Hs. apply andb_prop in Hs. destruct Hs as [H1 H2].
  destruct (Ha H1) as [Sa Ia]. destruct (Hb H2) as [Sb Ib].
  destruct a as [la sa]. cbn in Sa, Ia. subst sa. cbn [gapp].
  destruct (b tt) as [lb sb]. cbn in Sb, Ib. subst sb. cbn. split; [reflexivity|].
  rewrite map_app, Ia, Ib. reflexivity.
Qed.

Lemma agree_gfor2 {A B} (R : A -> B -> Prop) (f : A -> gen rval) (F : B -> list selres) la lb :
  Forall2 R la lb -> (forall a b, R a b -> agree (f a) (F b)) -> agree (gfor la f) (flat_map F lb).
Proof.
  intros H2 H. induction H2 as [|a b ra rb Hab Hr IH]; cbn; [apply agree_nil|].
  apply agree_gapp; auto.
Qed.

Lemma agree_gfor {A} (f : A -> gen rval) (F : A -> list selres) l :
  (forall a, In a l -> agree (f a) (F a)) -> agree (gfor l f) (flat_map F l).
Proof.
  induction l as [|a r IH]; intros H; cbn; [apply agree_nil|].
  apply agree_gapp; [apply H; left; reflexivity | apply IH; intros; apply H; right; assumption].
Qed.

Lemma agree_gfor_enum (f : nat * rval -> gen rval) (F : node -> list selres) els : forall k,
  (forall i e, In e els -> agree (f (i, RNode e)) (F e)) ->
  agree (gfor (enumerate_from k (map RNode els)) f) (flat_map F els).
Proof.
  induction els as [|e r IH]; intros k H; cbn; [apply agree_nil|].
  apply agree_gapp; [apply H; left; reflexivity | apply IH; intros; apply H; right; assumption].
Qed.

(* ---- stream algebra ---- *)
Lemma gapp_gnil_r {A} (g : gen A) : gapp g (fun _ => gnil) = g.
Proof. destruct g as [l []]; cbn; try reflexivity. rewrite app_nil_r. reflexivity. Qed.

Lemma gfor_app {A B} (l1 l2 : list A) (f : A -> gen B) :
  gfor (l1 ++ l2) f = gapp (gfor l1 f) (fun _ => gfor l2 f).
Proof.
  induction l1 as [|x r IH]; cbn.
  - destruct (gfor l2 f) as [l s]. reflexivity.
  - rewrite IH. destruct (f x) as [lx []]; cbn; try reflexivity.
    destruct (gfor r f) as [lr []]; cbn; try reflexivity.
    destruct (gfor l2 f) as [l2' s2]. rewrite app_assoc. reflexivity.
Qed.

Lemma gbind_gnil {A B} (f : A -> gen B) : gbind gnil f = gnil.
Proof. reflexivity. Qed.

Lemma gbind_gone {A B} (x : A) (f : A -> gen B) : gbind (gone x) f = f x.
Proof.
  unfold gbind, gone. cbn. destruct (f x) as [l []]; cbn; try reflexivity. rewrite app_nil_r. reflexivity.
Qed.

Lemma gbind_stop {A B} (s : stop) (f : A -> gen B) : gbind ([], s) f = ([], s).
Proof. reflexivity. Qed.

Lemma gbind_gapp {A B} (a : gen A) (b : unit -> gen A) (f : A -> gen B) :
  gbind (gapp a b) f = gapp (gbind a f) (fun _ => gbind (b tt) f).
Proof.
  destruct a as [l s]. destruct s; cbn [gapp].
  - destruct (b tt) as [l2 s2] eqn:Eb. unfold gbind. cbn [fst snd].
    rewrite gfor_app. destruct (gfor l f) as [r1 t1]. destruct t1; cbn [gapp]; try reflexivity.
    destruct (gfor l2 f) as [r2 t2]. destruct t2; reflexivity.
  - unfold gbind. cbn [fst snd]. destruct (gfor l f) as [r1 t1]. destruct t1; reflexivity.
  - unfold gbind. cbn [fst snd]. destruct (gfor l f) as [r1 t1]. destruct t1; reflexivity.
  - unfold gbind. cbn [fst snd]. destruct (gfor l f) as [r1 t1]. destruct t1; reflexivity.
Qed.

Lemma gbind_gfor {A B C} (l : list A) (g : A -> gen B) (f : B -> gen C) :
  gbind (gfor l g) f = gfor l (fun x => gbind (g x) f).
Proof.
  induction l as [|x r IH]; cbn [gfor]; [reflexivity|].
  rewrite gbind_gapp. rewrite IH. reflexivity.
Qed.

Lemma gfor_ext {A B} (l : list A) (f g : A -> gen B) :
  (forall x, In x l -> f x = g x) -> gfor l f = gfor l g.
Proof.
  induction l as [|x r IH]; intros H; cbn; [reflexivity|].
  rewrite (H x (or_introl eq_refl)), IH; [reflexivity|]. intros; apply H; right; assumption.
Qed.

(* `for x in g: yield from K x`, item by item *)
Lemma agree_gbind g l (K : rval -> gen rval) (cont : selres -> list selres) :
  cont SOut = [SOut] ->
  agree g l ->
  (forall x, In x (fst g) -> is_spec (item_res x) = true -> agree (K x) (cont (item_res x))) ->
  agree (gbind g K) (flat_map cont l).
Proof.
  intros Hout Hg HK Hs.
  assert (Hl : specified l = true).
  { clear -Hout Hs. induction l as [|s r IH]; [reflexivity|]. cbn [flat_map] in Hs.
    rewrite specified_app in Hs. apply andb_prop in Hs. destruct Hs as [H1 H2].
    change (specified (s :: r)) with (is_spec s && specified r). rewrite IH by exact H2.
    destruct s; try reflexivity. rewrite Hout in H1. discriminate. }
  destruct (Hg Hl) as [Sg Ig]. destruct g as [xs sg]. cbn in Sg, Ig, HK. subst sg.
  unfold gbind. cbn [fst snd].
  assert (H : snd (gfor xs K) = Done /\ map item_res (fst (gfor xs K)) = flat_map cont l).
  { clear Hg. revert l Ig Hs Hl. induction xs as [|x r IH]; intros l Ig Hs Hl.
    - cbn in Ig. subst l. split; reflexivity.
    - destruct l as [|s rl]; [discriminate|]. cbn in Ig. injection Ig as Ex Er.
      cbn [flat_map] in Hs. rewrite specified_app in Hs. apply andb_prop in Hs. destruct Hs as [H1 H2].
      change (specified (s :: rl)) with (is_spec s && specified rl) in Hl.
      apply andb_prop in Hl. destruct Hl as [Hl1 Hl2].
      assert (Hx : agree (K x) (cont s)).
      { rewrite <- Ex. apply HK; [left; reflexivity | rewrite Ex; exact Hl1]. }
      destruct (Hx H1) as [Sx Ix].
      destruct (IH (fun y Hy => HK y (or_intror Hy)) rl Er H2 Hl2) as [Sr Ir].
      cbn [gfor flat_map]. destruct (K x) as [lx sx]. cbn in Sx, Ix. subst sx.
      destruct (gfor r K) as [lr sr]. cbn in Sr, Ir. subst sr. cbn. split; [reflexivity|].
      rewrite map_app, Ix, Ir. reflexivity. }
  destruct (gfor xs K) as [l2 s2]. cbn in H. destruct H as [-> H]. cbn. split; [reflexivity | exact H].
Qed.

Lemma map_flat_map {A B C} (f : B -> C) (g : A -> list B) l :
  map f (flat_map g l) = flat_map (fun x => map f (g x)) l.
Proof. induction l as [|x r IH]; cbn; [reflexivity|]. rewrite map_app, IH. reflexivity. Qed.

Lemma flat_map_map {A B C} (f : A -> B) (g : B -> list C) l :
  flat_map g (map f l) = flat_map (fun x => g (f x)) l.
Proof. induction l as [|x r IH]; cbn; [reflexivity|]. rewrite IH. reflexivity. Qed.

Lemma flat_map_ext_in {A B} (f g : A -> list B) l :
  (forall x, In x l -> f x = g x) -> flat_map f l = flat_map g l.
Proof.
  induction l as [|x r IH]; intros H; cbn; [reflexivity|].
  rewrite (H x (or_introl eq_refl)), IH; [reflexivity|]. intros; apply H; right; assumption.
Qed.

Lemma xorb_cond_xorb b inv : xorb_cond b inv = xorb b inv.
Proof. destruct b, inv; reflexivity. Qed.
