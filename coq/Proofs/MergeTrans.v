(* C05: (1) sets=UNIQUE as a declarative statement; (2) Python == on loaded nodes (node_eq) is
   transitive on plain documents (no TaggedScalar; it is NOT transitive on arbitrary trees, see
   node_eq_not_transitive), which turns the chain mg_chain of C05_array_unique into ONE equality. *)
From Coq Require Import List Ascii String ZArith QArith NArith Bool Lia.
From YP Require Import Outcome PyStr PyVal Doc PathParser Searches MergeConfig Merge SpecC05 SpecC05Union
  MergeBasics MergeHash MergeUnique.
Import ListNotations.
Open Scope string_scope.
Open Scope list_scope.

(* ---------- sets=UNIQUE ---------- *)
Lemma sets_loop_declarative : forall rels tl lels,
  sets_loop rels tl lels = lels ++ mg_new_members tl lels rels.
Proof.
  induction rels as [|e r IH]; intros tl lels; simpl; [now rewrite app_nil_r|].
  destruct (in_list (tagless e) tl); simpl; [apply IH|].
  destruct (in_list e lels); [apply IH|]. rewrite IH. now rewrite <- app_assoc.
Qed.

Theorem set_unique_declarative : forall cfg li lels ri rels nc,
  set_merge_mode cfg nc = Ok SUnique ->
  merge_sets cfg (NSet li lels) (NSet ri rels) nc =
    Ok (same (NSet li (lels ++ mg_new_members (map tagless lels) lels rels))) /\
  merge_sets cfg (NSet li lels) (NSeq ri rels) nc =
    Ok (same (NSet li (lels ++ mg_new_members (map tagless lels) lels rels))).
Proof.
  intros cfg li lels ri rels nc H. unfold merge_sets. rewrite H. cbn [bind].
  rewrite sets_loop_declarative. split; reflexivity.
Qed.

(* what "new" means, member by member *)
Lemma in_new_members : forall rels tl present x,
  In x (mg_new_members tl present rels) ->
  In x rels /\ in_list (tagless x) tl = false /\ in_list x present = false.
Proof.
  induction rels as [|e r IH]; intros tl present x H; simpl in H; [contradiction|].
  destruct (in_list (tagless e) tl || in_list e present) eqn:E.
  - destruct (IH _ _ _ H) as [A B]. split; [now right|exact B].
  - apply orb_false_iff in E. destruct E as [E1 E2]. destruct H as [<-|H]; [split; [now left|auto]|].
    destruct (IH _ _ _ H) as [A [B C]]. split; [now right|]. split; [exact B|].
    unfold in_list in *. rewrite existsb_app in C. apply orb_false_iff in C. tauto.
Qed.

(* ---------- node_eq, unfolded ---------- *)
Fixpoint ne_find (k v : node) (m : list (node * node)) : bool :=
  match m with
  | [] => false
  | (k', v') :: m' => if node_eq k k' then node_eq v v' else ne_find k v m'
  end.
Fixpoint ne_all_in (ka kb : list (node * node)) : bool :=
  match ka with
  | [] => true
  | (k, v) :: r => ne_find k v kb && ne_all_in r kb
  end.
Fixpoint ne_list (l m : list node) : bool :=
  match l, m with
  | [], [] => true
  | x :: l', y :: m' => node_eq x y && ne_list l' m'
  | _, _ => false
  end.
Definition ne_sub (ea eb : list node) : bool := forallb (fun x => existsb (fun y => node_eq x y) eb) ea.

Lemma ne_find_fix : forall k v kb,
  (fix find (m : list (node * node)) : bool :=
     match m with
     | [] => false
     | (k', v') :: m' => if node_eq k k' then node_eq v v' else find m'
     end) kb = ne_find k v kb.
Proof. intros k v kb. induction kb as [|[k' v'] m IH]; [reflexivity|]. cbn [ne_find]. rewrite <- IH. reflexivity. Qed.

Lemma node_eq_map : forall i ka j kb,
  node_eq (NMap i ka) (NMap j kb) = Nat.eqb (List.length ka) (List.length kb) && ne_all_in ka kb.
Proof.
  intros i ka j kb. cbn [node_eq]. f_equal.
  induction ka as [|[k v] r IH]; [reflexivity|]. cbn [ne_all_in]. rewrite <- IH, <- ne_find_fix. reflexivity.
Qed.

Lemma node_eq_seq : forall i ea j eb, node_eq (NSeq i ea) (NSeq j eb) = ne_list ea eb.
Proof.
  intros i ea j eb. cbn [node_eq]. revert eb. induction ea as [|x l IH]; intros [|y m]; try reflexivity.
  all: try (cbn [ne_list]; rewrite <- IH; reflexivity).
Qed.

Lemma node_eq_set : forall i ea j eb,
  node_eq (NSet i ea) (NSet j eb) = Nat.eqb (List.length ea) (List.length eb) && ne_sub ea eb.
Proof.
  intros i ea j eb. cbn [node_eq]. f_equal.
  all: try (unfold ne_sub; induction ea as [|x l IH]; [reflexivity|cbn [forallb]; rewrite <- IH; reflexivity]).
Qed.

(* ---------- Python == on scalars is an equivalence ---------- *)
Lemma Qeq_bool_trans' : forall a b c, Qeq_bool a b = true -> Qeq_bool b c = true -> Qeq_bool a c = true.
Proof. intros a b c H1 H2. apply Qeq_bool_iff in H1. apply Qeq_bool_iff in H2. apply Qeq_bool_iff. now rewrite H1. Qed.

Lemma py_eq_trans : forall a b c, py_eq a b = true -> py_eq b c = true -> py_eq a c = true.
Proof.
  intros a b c H1 H2. unfold py_eq in *.
  destruct (num_of a) as [qa|] eqn:Na; destruct (num_of b) as [qb|] eqn:Nb; destruct (num_of c) as [qc|] eqn:Nc;
    try (eapply Qeq_bool_trans'; eassumption);
    destruct a, b, c; simpl in *; try discriminate;
    try (apply String.eqb_eq in H1; apply String.eqb_eq in H2; subst; apply String.eqb_refl); try reflexivity.
Qed.

Lemma py_eq_sym : forall a b, py_eq a b = py_eq b a.
Proof.
  intros a b. unfold py_eq.
  destruct (num_of a) as [qa|] eqn:Na; destruct (num_of b) as [qb|] eqn:Nb.
  - destruct (Qeq_bool qa qb) eqn:E.
    + symmetry. apply Qeq_bool_iff. apply Qeq_bool_iff in E. now symmetry.
    + destruct (Qeq_bool qb qa) eqn:E2; [|reflexivity]. apply Qeq_bool_iff in E2.
      assert (Qeq_bool qa qb = true) by (apply Qeq_bool_iff; now symmetry). congruence.
  - destruct a, b; simpl in *; try discriminate; reflexivity.
  - destruct a, b; simpl in *; try discriminate; reflexivity.
  - destruct a, b; simpl in *; try discriminate; try reflexivity; apply String.eqb_sym.
Qed.

(* untagged Scalars compare by value *)
Lemma node_eq_plain_leaf : forall i v j w,
  mg_plain (NLeaf i v) = true -> mg_plain (NLeaf j w) = true -> node_eq (NLeaf i v) (NLeaf j w) = py_eq v w.
Proof.
  intros i v j w H1 H2. cbn [mg_plain] in H1, H2. apply negb_true_iff in H1. apply negb_true_iff in H2.
  cbn [node_eq]. now rewrite H1, H2.
Qed.

(* ---------- transitivity on plain documents ---------- *)
Lemma plain_key : forall kvs k v, forallb (fun kv => is_leaf (fst kv) && mg_plain (fst kv) && mg_plain (snd kv)) kvs = true ->
  In (k, v) kvs -> is_leaf k = true /\ mg_plain k = true /\ mg_plain v = true.
Proof.
  intros kvs k v H Hin. rewrite forallb_forall in H. specialize (H (k, v) Hin). cbn [fst snd] in H.
  rewrite !andb_true_iff in H. tauto.
Qed.

(* two keys with the same answers against every key of m find the same item *)
Lemma ne_find_congr : forall k z v m,
  (forall k0 v0, In (k0, v0) m -> node_eq k k0 = node_eq z k0) -> ne_find k v m = ne_find z v m.
Proof.
  intros k z v m. induction m as [|[k' v'] r IH]; intros H; [reflexivity|]. cbn [ne_find].
  rewrite (H k' v' (or_introl eq_refl)). destruct (node_eq z k'); [reflexivity|].
  apply IH. intros k0 v0 Hin. apply (H k0 v0). now right.
Qed.

(* the value found under a key *)
Fixpoint ne_lookup (k : node) (m : list (node * node)) : option node :=
  match m with
  | [] => None
  | (k', v') :: m' => if node_eq k k' then Some v' else ne_lookup k m'
  end.

Lemma ne_find_lookup : forall k v m, ne_find k v m = match ne_lookup k m with Some v' => node_eq v v' | None => false end.
Proof.
  intros k v m. induction m as [|[k' v'] r IH]; [reflexivity|]. cbn [ne_find ne_lookup].
  destruct (node_eq k k'); [reflexivity|exact IH].
Qed.

Lemma ne_lookup_in : forall k m v', ne_lookup k m = Some v' -> exists k', In (k', v') m /\ node_eq k k' = true.
Proof.
  intros k m v'. induction m as [|[k0 v0] r IH]; intros H; [discriminate|]. cbn [ne_lookup] in H.
  destruct (node_eq k k0) eqn:E.
  - inversion H; subst. exists k0. split; [now left|exact E].
  - destruct (IH H) as [k' [A B]]. exists k'. split; [now right|exact B].
Qed.

Lemma ne_lookup_congr : forall k z m,
  (forall k0 v0, In (k0, v0) m -> node_eq k k0 = node_eq z k0) -> ne_lookup k m = ne_lookup z m.
Proof.
  intros k z m. induction m as [|[k' v'] r IH]; intros H; [reflexivity|]. cbn [ne_lookup].
  rewrite (H k' v' (or_introl eq_refl)). destruct (node_eq z k'); [reflexivity|].
  apply IH. intros k0 v0 Hin. apply (H k0 v0). now right.
Qed.

Lemma ne_all_in_forall : forall ka kb, ne_all_in ka kb = true <-> (forall k v, In (k, v) ka -> ne_find k v kb = true).
Proof.
  induction ka as [|[k v] r IH]; intros kb; cbn [ne_all_in].
  - split; [intros _ k v []|reflexivity].
  - rewrite andb_true_iff, IH. split.
    + intros [A B] k0 v0 [E|Hin]; [inversion E; subst; exact A|now apply B].
    + intros H. split; [apply H; now left|intros k0 v0 Hin; apply H; now right].
Qed.

Definition trans_at (a : node) : Prop :=
  forall b c, mg_plain a = true -> mg_plain b = true -> mg_plain c = true ->
    node_eq a b = true -> node_eq b c = true -> node_eq a c = true.

Lemma ne_list_trans : forall ea, Forall trans_at ea -> forall eb ec,
  forallb mg_plain ea = true -> forallb mg_plain eb = true -> forallb mg_plain ec = true ->
  ne_list ea eb = true -> ne_list eb ec = true -> ne_list ea ec = true.
Proof.
  induction 1 as [|x l Hx Hl IH]; intros [|y m] [|z n] Pa Pb Pc H1 H2; try discriminate; try reflexivity.
  cbn [ne_list forallb] in *. rewrite !andb_true_iff in *.
  destruct Pa as [Pa1 Pa2], Pb as [Pb1 Pb2], Pc as [Pc1 Pc2], H1 as [E1 E2], H2 as [G1 G2].
  split; [exact (Hx y z Pa1 Pb1 Pc1 E1 G1)|exact (IH m n Pa2 Pb2 Pc2 E2 G2)].
Qed.

Lemma eqb_nat_trans : forall a b c, Nat.eqb a b = true -> Nat.eqb b c = true -> Nat.eqb a c = true.
Proof. intros a b c H1 H2. apply Nat.eqb_eq in H1. apply Nat.eqb_eq in H2. apply Nat.eqb_eq. congruence. Qed.

Theorem node_eq_trans_plain : forall a, trans_at a.
Proof.
  induction a as [i v|i kvs IH|i els IH|i els IH] using node_ind'; intros b c Pa Pb Pc H1 H2.
  - destruct b as [j w| | |]; try discriminate. destruct c as [k u| | |]; try discriminate.
    rewrite node_eq_plain_leaf in * by assumption. eapply py_eq_trans; eauto.
  - destruct b as [|j kb| |]; try discriminate. destruct c as [|k kc| |]; try discriminate.
    rewrite node_eq_map in *. rewrite andb_true_iff in *. destruct H1 as [L1 A1]. destruct H2 as [L2 A2].
    split; [eapply eqb_nat_trans; eauto|].
    cbn [mg_plain] in Pa, Pb, Pc.
    rewrite ne_all_in_forall in *. intros k0 v0 Hin.
    destruct (plain_key kvs k0 v0 Pa Hin) as [Lk [Pk Pv]].
    pose proof (A1 k0 v0 Hin) as F1. rewrite ne_find_lookup in F1.
    destruct (ne_lookup k0 kb) as [v1|] eqn:E1; [|discriminate].
    destruct (ne_lookup_in k0 kb v1 E1) as [k1 [Hin1 Ek1]].
    destruct (plain_key kb k1 v1 Pb Hin1) as [Lk1 [Pk1 Pv1]].
    pose proof (A2 k1 v1 Hin1) as F2. rewrite ne_find_lookup in F2.
    destruct (ne_lookup k1 kc) as [v2|] eqn:E2; [|discriminate].
    (* k0 and k1 answer alike against every key of kc *)
    assert (Hc : forall kz vz, In (kz, vz) kc -> node_eq k0 kz = node_eq k1 kz).
    { intros kz vz Hz. destruct (plain_key kc kz vz Pc Hz) as [Lz [Pz _]].
      destruct k0 as [i0 w0| | |]; try discriminate. destruct k1 as [i1 w1| | |]; try discriminate.
      destruct kz as [iz wz| | |]; try discriminate.
      rewrite (node_eq_plain_leaf i0 w0 i1 w1 Pk Pk1) in Ek1.
      rewrite (node_eq_plain_leaf i0 w0 iz wz Pk Pz), (node_eq_plain_leaf i1 w1 iz wz Pk1 Pz).
      destruct (py_eq w0 wz) eqn:X.
      - symmetry. apply (py_eq_trans w1 w0 wz); [rewrite py_eq_sym; exact Ek1|exact X].
      - destruct (py_eq w1 wz) eqn:Y; [|reflexivity]. rewrite (py_eq_trans w0 w1 wz Ek1 Y) in X. discriminate. }
    rewrite ne_find_lookup, (ne_lookup_congr k0 k1 kc Hc), E2.
    rewrite Forall_forall in IH. destruct (IH (k0, v0) Hin) as [_ IHv]. cbn [snd] in IHv.
    destruct (ne_lookup_in k1 kc v2 E2) as [k2 [Hin2 _]]. destruct (plain_key kc k2 v2 Pc Hin2) as [_ [_ Pv2]].
    exact (IHv v1 v2 Pv Pv1 Pv2 F1 F2).
  - destruct b as [| |j eb|]; try discriminate. destruct c as [| |k ec|]; try discriminate.
    rewrite node_eq_seq in *. cbn [mg_plain] in *. exact (ne_list_trans els IH eb ec Pa Pb Pc H1 H2).
  - destruct b as [| | |j eb]; try discriminate. destruct c as [| | |k ec]; try discriminate.
    rewrite node_eq_set in *. rewrite andb_true_iff in *. destruct H1 as [L1 A1]. destruct H2 as [L2 A2].
    split; [eapply eqb_nat_trans; eauto|].
    cbn [mg_plain] in Pa, Pb, Pc. unfold ne_sub in *. rewrite forallb_forall in *.
    intros x Hx. pose proof (A1 x Hx) as B1. apply existsb_exists in B1. destruct B1 as [y [Hy Exy]].
    pose proof (A2 y Hy) as B2. apply existsb_exists in B2. destruct B2 as [z [Hz Eyz]].
    apply existsb_exists. exists z. split; [exact Hz|].
    rewrite Forall_forall in IH. exact (IH x Hx y z (Pa x Hx) (Pb y Hy) (Pc z Hz) Exy Eyz).
Qed.

(* NOT transitive on arbitrary trees: a TaggedScalar compares by identity, an untagged Scalar by
   value -- a tree that shows one identity with two faces breaks the chain (no loaded heap does) *)
Theorem node_eq_not_transitive :
  exists a b c, node_eq a b = true /\ node_eq b c = true /\ node_eq a c = false.
Proof.
  exists (NLeaf (mkinfo 5 None true (Some "!t")) (POther "x")),
         (NLeaf (mkinfo 5 None false None) (PStr "y")), (NLeaf (mkinfo 7 None false None) (PStr "y")).
  repeat split; reflexivity.
Qed.

(* ---------- arrays=UNIQUE on plain documents: one equality instead of a chain ---------- *)
Lemma tagless_plain : forall n, mg_plain n = true -> tagless n = n.
Proof.
  intros n H. destruct n; try reflexivity. cbn [mg_plain] in H. apply negb_true_iff in H.
  unfold tagless. now rewrite H.
Qed.

Lemma plain_not_tagged : forall n, mg_plain n = true -> is_tagged_scalar n = false.
Proof. intros n H. destruct n; try reflexivity. cbn [mg_plain] in H. now apply negb_true_iff in H. Qed.

Lemma elem_matches_plain : forall e x, mg_plain e = true -> mg_plain x = true ->
  elem_matches e (tagless x) = node_eq e x.
Proof.
  intros e x He Hx. unfold elem_matches. rewrite (tagless_plain x Hx), (plain_not_tagged e He). simpl.
  now rewrite orb_false_r.
Qed.

Lemma chain_collapses : forall rels e x,
  Forall (fun n => mg_plain n = true) rels -> mg_plain e = true ->
  mg_chain rels e x -> mg_same_or_equal rels e x /\ mg_plain x = true.
Proof.
  intros rels e x Hr He H. induction H as [e|e e' e'' Hc IH Hin Hm].
  - split; [now left|exact He].
  - destruct (IH He) as [[->|[Hin' Eq]] P'].
    + rewrite Forall_forall in Hr. pose proof (Hr e'' Hin) as P''.
      rewrite elem_matches_plain in Hm by assumption. split; [right; auto|exact P''].
    + rewrite Forall_forall in Hr. pose proof (Hr e'' Hin) as P''.
      rewrite elem_matches_plain in Hm by assumption. split; [|exact P''].
      right. split; [exact Hin|]. exact (node_eq_trans_plain e e' e'' He P' P'' Eq Hm).
Qed.

Lemma new_tagless_plain : forall rels seen,
  Forall (fun n => mg_plain n = true) rels -> mg_new_tagless seen rels = mg_new_full seen rels.
Proof.
  induction rels as [|e r IH]; intros seen H; [reflexivity|]. inversion H; subst.
  cbn [mg_new_tagless mg_new_full]. rewrite (tagless_plain e H2). rewrite !IH by assumption. reflexivity.
Qed.

Lemma map_tagless_plain : forall l, Forall (fun n => mg_plain n = true) l -> map tagless l = l.
Proof. induction 1; simpl; [reflexivity|]. now rewrite tagless_plain, IHForall. Qed.

Lemma forall2_impl_in {A B} (P Q : A -> B -> Prop) : forall l m,
  (forall a b, In a l -> P a b -> Q a b) -> Forall2 P l m -> Forall2 Q l m.
Proof.
  intros l m H F. induction F; constructor.
  - apply H; [now left|assumption].
  - apply IHF. intros a b Ha. apply H. now right.
Qed.

Theorem array_unique_plain : forall cfg li lels ri rels nc,
  array_merge_mode cfg nc = Ok AUnique ->
  forallb mg_plain lels = true -> forallb mg_plain rels = true ->
  exists m i res, merge_simple_lists cfg (NSeq li lels) (NSeq ri rels) nc = Ok m /\ ret m = NSeq i res /\
    Forall2 (mg_same_or_equal rels) (lels ++ mg_new_full lels rels) res.
Proof.
  intros cfg li lels ri rels nc Hm Pl Pr.
  assert (Fl : Forall (fun n => mg_plain n = true) lels) by (apply Forall_forall; now apply forallb_forall).
  assert (Fr : Forall (fun n => mg_plain n = true) rels) by (apply Forall_forall; now apply forallb_forall).
  destruct (array_unique_declarative cfg li lels ri rels nc Hm) as [m [i [res [E [R F]]]]].
  exists m, i, res. split; [exact E|]. split; [exact R|].
  rewrite (map_tagless_plain lels Fl), (new_tagless_plain rels lels Fr) in F.
  eapply forall2_impl_in; [|exact F].
  intros a b Ha Hc. apply (chain_collapses rels a b Fr); [|exact Hc].
  apply in_app_or in Ha. rewrite Forall_forall in Fl, Fr. destruct Ha as [Ha|Ha]; [now apply Fl|].
  assert (G : forall present rs x, In x (mg_new_full present rs) -> In x rs).
  { clear. intros present rs. revert present. induction rs as [|e r IH]; intros present x H; [contradiction|].
    cbn [mg_new_full] in H. destruct (in_list e present); [right; eapply IH; eauto|].
    destruct H as [<-|H]; [now left|right; eapply IH; eauto]. }
  apply Fr. eapply G; eauto.
Qed.
