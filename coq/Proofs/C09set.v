(* C09 (creation half), SET MODE at document level: after
   set_value(path, value, mustexist=False) on a straight path that does not exist
   completely, walking the path in the final document reaches the node
   make_new_node built from the value.

   create_set = Create.walk (the construction) followed by Mutate.update_node on
   the coordinate the walk yields.  Shown here:
     (B) the walk yields the coordinate (parent object, reference) of the created
         leaf w, and the path to w runs through containers whose identity differs
         from w's and through mappings none of whose keys is an anchor-capable
         object with w's identity ([gpath]);
     (A) on such a path the whole-document walk of _update_node (recurse) leaves
         every step of the path in place and puts the new node where w was. *)
From Coq Require Import String List ZArith NArith Bool Lia Arith Permutation.
From YP Require Import Outcome PyStr PyVal Doc Searches Mutate Create C03spec C04spec C03e2e C03set
  C04lists C04delete C04plan C09create C09createP C09doc C03inv C03invCreate C03guard C03rename C03history2 C09setguard PyValOrder.
Import ListNotations.

(* the parentref the walk puts into the coordinate of the child the segment names *)
Definition seg_pref (n : node) (s : seg) : pyval :=
  match n with
  | NSeq _ _ => match seg_int s with Some z => PInt z | None => PNone end
  | _ => match s with SKey k _ => PStr k | SIdx z => PInt z end
  end.

Definition keys_avoid1 (roid : N) (n : node) : Prop :=
  match n with
  | NMap _ kvs => forall kv, In kv kvs -> (N.eqb (node_oid (fst kv)) roid && has_anchor_attr (node_info (fst kv))) = false
  | _ => True
  end.

Fixpoint gpath (roid : N) (w : node) (pc : pcoord) (n : node) (segs : list seg) : Prop :=
  match segs with
  | [] => False
  | s :: rest =>
      node_oid n <> roid /\ keys_avoid1 roid n /\ is_set n = false /\
      exists c, seg_child n s = Some c /\
        match rest with
        | [] => c = w /\ pc = mkpc (Some (node_oid n)) (seg_pref n s)
        | _ :: _ => gpath roid w pc c rest
        end
  end.

(* ---------------- (A) recurse along a good path ---------------- *)
Lemma assoc_key_map_fst : forall k (F : node * node -> node * node) kvs,
  (forall kv, fst (F kv) = fst kv) ->
  assoc_key k (map F kvs) = option_map (fun kv => snd (F kv)) (find (key_is k) kvs).
Proof.
  intros k F kvs HF. induction kvs as [|kv r IH]; simpl; auto.
  pose proof (HF kv) as E. destruct (F kv) as [k1 v1] eqn:EF. simpl in E. subst k1.
  destruct kv as [k0 v0]. simpl. unfold key_is at 1. simpl.
  destruct k0; simpl; auto. destruct (py_eq v k); simpl; auto. rewrite EF. reflexivity.
Qed.

Lemma nth_error_mapi_from : forall A B (f : nat -> A -> B) l k n,
  nth_error (mapi_from f k l) n = option_map (f (k + n)%nat) (nth_error l n).
Proof.
  induction l as [|x r IH]; intros k n; destruct n; simpl; auto.
  - rewrite Nat.add_0_r. reflexivity.
  - rewrite IH. replace (S k + n)%nat with (k + S n)%nat by lia. reflexivity.
Qed.

Lemma mapi_from_length : forall A B (f : nat -> A -> B) l k, length (mapi_from f k l) = length l.
Proof. induction l; intros; simpl; auto. Qed.

Lemma py_eq_int_refl : forall z, py_eq (PInt z) (PInt z) = true.
Proof. intros. apply PyValOrder.py_eq_refl. Qed.

Section PathA.
Variables (roid : N) (w : node) (pc : pcoord) (new : node).
Hypothesis Hw : node_oid w = roid.

(* the reference _update_node works with: normalised against the parent *)
Definition upd_ref (n : node) (s : seg) : pyval := norm_ref n (seg_pref n s).

(* the parent object and the normalised reference of the last step of the path *)
Fixpoint path_last (n : node) (segs : list seg) : option (N * pyval) :=
  match segs with
  | [] => None
  | s :: rest =>
      match rest with
      | [] => Some (node_oid n, upd_ref n s)
      | _ :: _ => match seg_child n s with Some c => path_last c rest | None => None end
      end
  end.

Lemma recurse_path : forall segs n poid pref,
  gpath roid w pc n segs ->
  path_last n segs = Some (poid, pref) ->
  resolve (recurse poid pref roid new n) segs = Some new.
Proof.
  induction segs as [|s rest IH]; intros n poid pref Hg Hlast; [destruct Hg|].
  destruct Hg as [Hn [Hk [Hset [c [Hc Hrest]]]]].
  destruct n as [i v|i kvs|i els|i els]; try discriminate.
  - (* mapping *)
    destruct s as [k ko|z]; [|unfold seg_child in Hc; simpl in Hc; discriminate].
    unfold seg_child in Hc. simpl in Hc. rewrite find_assoc_key in Hc.
    destruct (find (key_is (PStr k)) kvs) as [kv|] eqn:Ef; [|discriminate]. simpl in Hc. inversion Hc; subst c. clear Hc.
    simpl recurse.
    set (gA := fun kv : node * node =>
                 (fst kv, if is_ref roid (snd kv) then snd kv else recurse poid pref roid new (snd kv))).
    assert (Hren : rename_keys roid new (map gA kvs) = map gA kvs).
    { unfold rename_keys. rewrite find_idx_none; auto.
      apply forallb_forall. intros kv' Hkv'. apply in_map_iff in Hkv'. destruct Hkv' as [kv0 [<- Hkv0]].
      simpl. unfold is_ref, hattr. rewrite (Hk kv0 Hkv0). reflexivity. }
    fold gA. rewrite Hren. rewrite map_map.
    cbn [resolve]. unfold seg_child. cbn [seg_ref child].
    rewrite assoc_key_map_fst.
    2:{ intros kv0. unfold gA. simpl.
        destruct (is_ref roid (if is_ref roid (snd kv0) then snd kv0 else recurse poid pref roid new (snd kv0)) &&
                  (hattr (if is_ref roid (snd kv0) then snd kv0 else recurse poid pref roid new (snd kv0)) ||
                   N.eqb (oid i) poid && key_is pref (fst kv0, if is_ref roid (snd kv0) then snd kv0 else recurse poid pref roid new (snd kv0))));
          reflexivity. }
    rewrite Ef. cbn [option_map]. unfold gA. cbn [fst snd].
    destruct rest as [|s2 rest2].
    + destruct Hrest as [Hcw Hpc].
      simpl in Hlast. injection Hlast as Hpo Hpr. symmetry in Hpo, Hpr.
      assert (Hr : is_ref roid (snd kv) = true) by (unfold is_ref; rewrite Hcw, Hw; apply N.eqb_refl).
      rewrite Hr. rewrite Hr. simpl in Hpo. subst poid. rewrite N.eqb_refl.
      unfold upd_ref, seg_pref, norm_ref in Hpr. simpl in Hpr. subst pref.
      assert (Hkey : key_is (PStr k) (fst kv, snd kv) = true).
      { apply find_some in Ef. destruct Ef as [_ Ef]. destruct kv; exact Ef. }
      rewrite Hkey. rewrite orb_true_r. simpl. reflexivity.
    + destruct Hrest as [Hcn Hrest']. 
      assert (Hr : is_ref roid (snd kv) = false) by (unfold is_ref; apply N.eqb_neq; exact Hcn).
      rewrite Hr.
      assert (Hr2 : is_ref roid (recurse poid pref roid new (snd kv)) = false)
        by (unfold is_ref; rewrite recurse_oid; apply N.eqb_neq; exact Hcn).
      rewrite Hr2. simpl. apply IH; auto.
      * split; auto.
      * simpl in Hlast. unfold seg_child in Hlast. simpl in Hlast. rewrite find_assoc_key, Ef in Hlast. exact Hlast.
  - (* sequence *)
    unfold seg_child, seg_ref in Hc.
    destruct (seg_int s) as [z|] eqn:Ez; [|discriminate].
    assert (Hidx : exists idx, nth_error els idx = Some c /\
              seg_ref (NSeq i els) s = Some (RIdx idx) /\
              norm_ref (NSeq i els) (PInt z) = PInt (Z.of_nat idx)).
    { unfold seg_ref. rewrite Ez. unfold norm_ref. simpl.
      destruct (0 <=? z)%Z eqn:E0.
      - simpl in Hc. exists (Z.to_nat z). split; auto. split; auto.
        apply Z.leb_le in E0. replace (z <? 0)%Z with false by (symmetry; apply Z.ltb_ge; lia).
        rewrite Z2Nat.id by lia. reflexivity.
      - destruct (0 <=? z + Z.of_nat (length els))%Z eqn:E1; [|discriminate].
        simpl in Hc. exists (Z.to_nat (z + Z.of_nat (length els))). split; auto. split; auto.
        apply Z.leb_gt in E0. apply Z.leb_le in E1.
        replace (z <? 0)%Z with true by (symmetry; apply Z.ltb_lt; lia).
        rewrite Z2Nat.id by lia. reflexivity. }
    destruct Hidx as [idx [Hnth [Href Hnorm]]].
    simpl recurse. cbn [resolve]. unfold seg_child.
    assert (Href' : forall els', length els' = length els -> seg_ref (NSeq i els') s = Some (RIdx idx)).
    { intros els' Hl. unfold seg_ref in *. rewrite Hl. exact Href. }
    rewrite (Href' _ (mapi_from_length _ _ _ els 0)). cbn [child].
    rewrite nth_error_mapi_from, Hnth. cbn [option_map]. simpl Nat.add.
    destruct rest as [|s2 rest2].
    + destruct Hrest as [Hcw Hpc].
      cbn [path_last] in Hlast. injection Hlast as Hpo Hpr. symmetry in Hpo, Hpr.
      assert (Hr : is_ref roid c = true) by (unfold is_ref; rewrite Hcw, Hw; apply N.eqb_refl).
      rewrite Hr. simpl in Hpo. subst poid. rewrite N.eqb_refl.
      rewrite Ez in Hpr. change (pref = norm_ref (NSeq i els) (PInt z)) in Hpr. rewrite Hnorm in Hpr. subst pref.
      rewrite py_eq_int_refl, orb_true_r. reflexivity.
    + destruct Hrest as [Hcn Hrest'].
      assert (Hr : is_ref roid c = false) by (unfold is_ref; apply N.eqb_neq; exact Hcn).
      rewrite Hr. simpl. apply IH; auto.
      * split; auto.
      * cbn [path_last] in Hlast. unfold seg_child in Hlast. rewrite Href in Hlast. simpl in Hlast.
        rewrite Hnth in Hlast. exact Hlast.
Qed.
End PathA.
