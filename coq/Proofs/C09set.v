(* C09 (creation half), SET MODE at document level: after
   set_value(path, value, mustexist=False) on a straight path that does not exist
   completely, walking the path in the final document reaches the node
   make_new_node built from the value.

   create_set = Create.walk (the construction) followed by Mutate.update_node on
   the coordinate the walk yields.  Shown here:
     (B) the walk yields the coordinate (parent object, reference) of the created
         leaf w, and the path to w runs through containers whose identity differs
         from w's and through mappings none of whose keys is an anchor-capable
         object with w's identity ([gpath]);
     (A) on such a path the whole-document walk of _update_node (recurse) leaves
         every step of the path in place and puts the new node where w was. *)
From Coq Require Import String List ZArith NArith Bool Lia Arith Permutation.
From YP Require Import Outcome PyStr PyVal Doc Searches Mutate Create History C03spec C04spec C03hist C03e2e C03set
  C03history C04lists C04delete C04plan C09create C09createP C09doc C03inv C03invCreate C03guard C03rename C03history2 C09setguard PyValOrder.
Import ListNotations.

(* the parentref the walk puts into the coordinate of the child the segment names *)
Definition seg_pref (n : node) (s : seg) : pyval :=
  match n with
  | NSeq _ _ => match seg_int s with Some z => PInt z | None => PNone end
  | _ => match s with SKey k _ => PStr k | SIdx z => PInt z end
  end.

Definition keys_avoid1 (roid : N) (n : node) : Prop :=
  match n with
  | NMap _ kvs => forall kv, In kv kvs -> (N.eqb (node_oid (fst kv)) roid && has_anchor_attr (node_info (fst kv))) = false
  | _ => True
  end.

Fixpoint gpath (roid : N) (w : node) (pc : pcoord) (n : node) (segs : list seg) : Prop :=
  match segs with
  | [] => False
  | s :: rest =>
      node_oid n <> roid /\ keys_avoid1 roid n /\ is_set n = false /\
      exists c, seg_child n s = Some c /\
        match rest with
        | [] => c = w /\ pc = mkpc (Some (node_oid n)) (seg_pref n s)
        | _ :: _ => gpath roid w pc c rest
        end
  end.

(* ---------------- (A) recurse along a good path ---------------- *)
Lemma assoc_key_map_fst : forall k (F : node * node -> node * node) kvs,
  (forall kv, fst (F kv) = fst kv) ->
  assoc_key k (map F kvs) = option_map (fun kv => snd (F kv)) (find (key_is k) kvs).
Proof.
  intros k F kvs HF. induction kvs as [|kv r IH]; simpl; auto.
  pose proof (HF kv) as E. destruct (F kv) as [k1 v1] eqn:EF. simpl in E. subst k1.
  destruct kv as [k0 v0]. simpl. unfold key_is at 1. simpl.
  destruct k0; simpl; auto. destruct (py_eq v k); simpl; auto. rewrite EF. reflexivity.
Qed.

Lemma nth_error_mapi_from : forall A B (f : nat -> A -> B) l k n,
  nth_error (mapi_from f k l) n = option_map (f (k + n)%nat) (nth_error l n).
Proof.
  induction l as [|x r IH]; intros k n; destruct n; simpl; auto.
  - rewrite Nat.add_0_r. reflexivity.
  - rewrite IH. replace (S k + n)%nat with (k + S n)%nat by lia. reflexivity.
Qed.

Lemma mapi_from_length : forall A B (f : nat -> A -> B) l k, length (mapi_from f k l) = length l.
Proof. induction l; intros; simpl; auto. Qed.

Lemma py_eq_int_refl : forall z, py_eq (PInt z) (PInt z) = true.
Proof. intros. apply PyValOrder.py_eq_refl. Qed.

Section PathA.
Variables (roid : N) (w : node) (pc : pcoord) (new : node).
Hypothesis Hw : node_oid w = roid.

(* the reference _update_node works with: normalised against the parent *)
Definition upd_ref (n : node) (s : seg) : pyval := norm_ref n (seg_pref n s).

(* the parent object and the normalised reference of the last step of the path *)
Fixpoint path_last (n : node) (segs : list seg) : option (N * pyval) :=
  match segs with
  | [] => None
  | s :: rest =>
      match rest with
      | [] => Some (node_oid n, upd_ref n s)
      | _ :: _ => match seg_child n s with Some c => path_last c rest | None => None end
      end
  end.

Lemma recurse_path : forall segs n poid pref,
  gpath roid w pc n segs ->
  path_last n segs = Some (poid, pref) ->
  resolve (recurse poid pref roid new n) segs = Some new.
Proof.
  induction segs as [|s rest IH]; intros n poid pref Hg Hlast; [destruct Hg|].
  destruct Hg as [Hn [Hk [Hset [c [Hc Hrest]]]]].
  destruct n as [i v|i kvs|i els|i els]; try discriminate.
  - (* mapping *)
    destruct s as [k ko|z]; [|unfold seg_child in Hc; simpl in Hc; discriminate].
    unfold seg_child in Hc. simpl in Hc. rewrite find_assoc_key in Hc.
    destruct (find (key_is (PStr k)) kvs) as [kv|] eqn:Ef; [|discriminate]. simpl in Hc. inversion Hc; subst c. clear Hc.
    simpl recurse.
    set (gA := fun kv : node * node =>
                 (fst kv, if is_ref roid (snd kv) then snd kv else recurse poid pref roid new (snd kv))).
    assert (Hren : rename_keys roid new (map gA kvs) = map gA kvs).
    { unfold rename_keys. rewrite find_idx_none; auto.
      apply forallb_forall. intros kv' Hkv'. apply in_map_iff in Hkv'. destruct Hkv' as [kv0 [<- Hkv0]].
      simpl. unfold is_ref, hattr. rewrite (Hk kv0 Hkv0). reflexivity. }
    fold gA. rewrite Hren. rewrite map_map.
    cbn [resolve]. unfold seg_child. cbn [seg_ref child].
    rewrite assoc_key_map_fst.
    2:{ intros kv0. unfold gA. simpl.
        destruct (is_ref roid (if is_ref roid (snd kv0) then snd kv0 else recurse poid pref roid new (snd kv0)) &&
                  (hattr (if is_ref roid (snd kv0) then snd kv0 else recurse poid pref roid new (snd kv0)) ||
                   N.eqb (oid i) poid && key_is pref (fst kv0, if is_ref roid (snd kv0) then snd kv0 else recurse poid pref roid new (snd kv0))));
          reflexivity. }
    rewrite Ef. cbn [option_map]. unfold gA. cbn [fst snd].
    destruct rest as [|s2 rest2].
    + destruct Hrest as [Hcw Hpc].
      simpl in Hlast. injection Hlast as Hpo Hpr. symmetry in Hpo, Hpr.
      assert (Hr : is_ref roid (snd kv) = true) by (unfold is_ref; rewrite Hcw, Hw; apply N.eqb_refl).
      rewrite Hr. rewrite Hr. simpl in Hpo. subst poid. rewrite N.eqb_refl.
      unfold upd_ref, seg_pref, norm_ref in Hpr. simpl in Hpr. subst pref.
      assert (Hkey : key_is (PStr k) (fst kv, snd kv) = true).
      { apply find_some in Ef. destruct Ef as [_ Ef]. destruct kv; exact Ef. }
      rewrite Hkey. rewrite orb_true_r. simpl. reflexivity.
    + destruct Hrest as [Hcn Hrest']. 
      assert (Hr : is_ref roid (snd kv) = false) by (unfold is_ref; apply N.eqb_neq; exact Hcn).
      rewrite Hr.
      assert (Hr2 : is_ref roid (recurse poid pref roid new (snd kv)) = false)
        by (unfold is_ref; rewrite recurse_oid; apply N.eqb_neq; exact Hcn).
      rewrite Hr2. simpl. apply IH; auto.
      * split; auto.
      * simpl in Hlast. unfold seg_child in Hlast. simpl in Hlast. rewrite find_assoc_key, Ef in Hlast. exact Hlast.
  - (* sequence *)
    unfold seg_child, seg_ref in Hc.
    destruct (seg_int s) as [z|] eqn:Ez; [|discriminate].
    assert (Hidx : exists idx, nth_error els idx = Some c /\
              seg_ref (NSeq i els) s = Some (RIdx idx) /\
              norm_ref (NSeq i els) (PInt z) = PInt (Z.of_nat idx)).
    { unfold seg_ref. rewrite Ez. unfold norm_ref. simpl.
      destruct (0 <=? z)%Z eqn:E0.
      - simpl in Hc. exists (Z.to_nat z). split; auto. split; auto.
        apply Z.leb_le in E0. replace (z <? 0)%Z with false by (symmetry; apply Z.ltb_ge; lia).
        rewrite Z2Nat.id by lia. reflexivity.
      - destruct (0 <=? z + Z.of_nat (length els))%Z eqn:E1; [|discriminate].
        simpl in Hc. exists (Z.to_nat (z + Z.of_nat (length els))). split; auto. split; auto.
        apply Z.leb_gt in E0. apply Z.leb_le in E1.
        replace (z <? 0)%Z with true by (symmetry; apply Z.ltb_lt; lia).
        rewrite Z2Nat.id by lia. reflexivity. }
    destruct Hidx as [idx [Hnth [Href Hnorm]]].
    simpl recurse. cbn [resolve]. unfold seg_child.
    assert (Href' : forall els', length els' = length els -> seg_ref (NSeq i els') s = Some (RIdx idx)).
    { intros els' Hl. unfold seg_ref in *. rewrite Hl. exact Href. }
    rewrite (Href' _ (mapi_from_length _ _ _ els 0)). cbn [child].
    rewrite nth_error_mapi_from, Hnth. cbn [option_map]. simpl Nat.add.
    destruct rest as [|s2 rest2].
    + destruct Hrest as [Hcw Hpc].
      cbn [path_last] in Hlast. injection Hlast as Hpo Hpr. symmetry in Hpo, Hpr.
      assert (Hr : is_ref roid c = true) by (unfold is_ref; rewrite Hcw, Hw; apply N.eqb_refl).
      rewrite Hr. simpl in Hpo. subst poid. rewrite N.eqb_refl.
      rewrite Ez in Hpr. change (pref = norm_ref (NSeq i els) (PInt z)) in Hpr. rewrite Hnorm in Hpr. subst pref.
      rewrite py_eq_int_refl, orb_true_r. reflexivity.
    + destruct Hrest as [Hcn Hrest'].
      assert (Hr : is_ref roid c = false) by (unfold is_ref; apply N.eqb_neq; exact Hcn).
      rewrite Hr. simpl. apply IH; auto.
      * split; auto.
      * cbn [path_last] in Hlast. unfold seg_child in Hlast. rewrite Href in Hlast. simpl in Hlast.
        rewrite Hnth in Hlast. exact Hlast.
Qed.
End PathA.

(* ---------------- (B) the construction yields a good path ---------------- *)
Lemma wrap_type_oid : forall lit value f vo w,
  wrap_type lit value f vo = ROk w -> node_oid w = f \/ node_oid w = vo.
Proof.
  intros lit value f vo w H. unfold wrap_type, rbind in H. cbv zeta in H.
  destruct (of_outcome (typed_value lit value)) as [ast|e]; [|discriminate].
  repeat match type of H with
  | context [match ?t with _ => _ end] => destruct t
  end; try discriminate; inversion H; simpl; auto.
Qed.

Lemma pads_all_ids : forall lit n rest value next vo l next',
  pads lit n rest value next vo = ROk (l, next') ->
  (next <= next')%N /\
  Forall (fun x => exists fr, (next <= fr < next')%N /\ build_next lit rest value fr vo = ROk x) l.
Proof.
  intros lit n. induction n as [|m IH]; intros rest value next vo l next' H; simpl in H.
  - inversion H; subst. split; [lia|constructor].
  - destruct (build_next lit rest value next vo) as [x|e] eqn:Eb; simpl in H; [|discriminate].
    destruct (pads lit m rest value (N.succ next) vo) as [[l0 n0]|e] eqn:E; simpl in H; [|discriminate].
    inversion H; subst. destruct (IH _ _ _ _ _ _ E) as [Hle Hall]. split; [lia|].
    constructor.
    + exists next. split; [lia|exact Eb].
    + eapply Forall_impl; [|exact Hall]. intros a [fr [Hfr Hb]]. exists fr. split; [lia|exact Hb].
Qed.

Lemma build_next_cont_shape : forall lit s2 rest2 value next vo x,
  build_next lit (s2 :: rest2) value next vo = ROk x ->
  x = NSeq (mkinfo next None true None) [] \/ x = NMap (mkinfo next None true None) [].
Proof. intros lit s2 rest2 value next vo x H. destruct s2; simpl in H; inversion H; auto. Qed.

Theorem grow_gpath : forall lit segs cur pc next vo value g pc' next' s rest,
  segs = s :: rest ->
  grow lit segs cur pc next vo value = ROk (g, pc', next') ->
  seg_child cur s = None -> is_set cur = false -> (vo < next)%N ->
  exists w f, wrap_type lit value f vo = ROk w /\ (next <= f)%N /\
    forall roid, roid = node_oid w -> node_oid cur <> roid -> keys_avoid1 roid cur -> gpath roid w pc' g segs.
Proof.
  intros lit segs. induction segs as [|s0 rest0 IH];
    intros cur pc next vo value g pc' next' s rest Hs Hg Hnone Hset Hvo; [discriminate|].
  inversion Hs; subst s0 rest0. clear Hs.
  simpl in Hg. destruct cur as [i v|i kvs|i els|i els]; [discriminate| | |discriminate].
  - (* mapping *)
    destruct s as [k ko|z]; [|discriminate].
    destruct (build_next lit rest value next vo) as [child|e] eqn:Eb; simpl in Hg; [|discriminate].
    destruct (grow lit rest child (mkpc (Some (oid i)) (PStr k)) (N.succ (N.succ next)) vo value)
      as [[[c1 p1] n1]|e] eqn:Eg; simpl in Hg; [|discriminate].
    inversion Hg; subst g pc' next'. clear Hg.
    assert (Hsc : seg_child (NMap i (kvs ++ [(key_leaf k ko (N.succ next), c1)])) (SKey k ko) = Some c1).
    { unfold seg_child in *. simpl in *. rewrite assoc_key_app_none by assumption.
      simpl. rewrite py_eq_str_refl. reflexivity. }
    assert (Hkeys : forall roid, keys_avoid1 roid (NMap i kvs) ->
              keys_avoid1 roid (NMap i (kvs ++ [(key_leaf k ko (N.succ next), c1)]))).
    { intros roid Hk kv Hkv. apply in_app_or in Hkv. destruct Hkv as [Hkv|[<-|[]]]; [apply Hk; exact Hkv|].
      simpl. apply andb_false_r. }
    destruct rest as [|s2 rest2].
    + simpl in Eg. inversion Eg; subst c1 p1 n1. simpl in Eb.
      exists child, next. split; auto. split; [lia|].
      intros roid Hr Hn Hk. cbn [gpath]. repeat split; auto.
      exists child. split; auto.
    + destruct (build_next_empty _ _ _ _ _ _ _ Eb) as [A B].
      destruct (IH child _ _ _ _ _ _ _ s2 rest2 eq_refl Eg A B) as [w [f [Hw [Hf Hgp]]]]; [lia|].
      exists w, f. split; auto. split; [lia|].
      intros roid Hr Hn Hk. cbn [gpath]. repeat split; auto.
      exists c1. split; auto. apply Hgp; auto.
      * destruct (build_next_cont _ _ _ _ _ _ _ Eb) as [_ B2]. rewrite B2.
        destruct (wrap_type_oid _ _ _ _ _ Hw) as [E|E]; rewrite Hr, E; lia.
      * destruct (build_next_cont_shape _ _ _ _ _ _ _ Eb) as [-> | ->]; simpl; auto. intros kv [].
  - (* sequence *)
    change (match s with SIdx z => Some z | SKey k _ => py_int k end) with (seg_int s) in Hg.
    destruct (seg_int s) as [z|] eqn:Ez; [|discriminate].
    destruct (pads lit (Z.to_nat (z - Z.of_nat (length els) + 1)) rest value next vo) as [[l n0]|e] eqn:Ep;
      simpl in Hg; [|discriminate].
    destruct (last_and_init l) as [[init lastn]|] eqn:El; [|discriminate].
    destruct (grow lit rest lastn (mkpc (Some (oid i)) (PInt z)) n0 vo value) as [[[c1 p1] n1]|e] eqn:Eg;
      simpl in Hg; [|discriminate].
    inversion Hg; subst g pc' next'. clear Hg.
    pose proof (pads_length _ _ _ _ _ _ _ _ Ep) as Hlen.
    destruct (pads_all_ids _ _ _ _ _ _ _ _ Ep) as [Hle Hall].
    apply last_and_init_spec in El. subst l.
    rewrite app_length in Hlen. simpl in Hlen.
    assert (Hz : (Z.of_nat (length els) <= z)%Z) by lia.
    assert (Hli : (length els + length init = Z.to_nat z)%nat) by lia.
    assert (Hsc : seg_child (NSeq i (els ++ init ++ [c1])) s = Some c1).
    { unfold seg_child, seg_ref. rewrite Ez.
      replace (0 <=? z)%Z with true by (symmetry; apply Z.leb_le; lia). simpl.
      rewrite app_assoc. rewrite nth_error_app2 by (rewrite app_length; lia).
      rewrite app_length. replace (Z.to_nat z - (length els + length init))%nat with 0%nat by lia. reflexivity. }
    assert (Hlast : exists fr, (next <= fr < n0)%N /\ build_next lit rest value fr vo = ROk lastn).
    { rewrite Forall_forall in Hall. apply Hall. apply in_or_app. right. left. reflexivity. }
    destruct Hlast as [fr [Hfr Eb]].
    assert (Hpref : seg_pref (NSeq i (els ++ init ++ [c1])) s = PInt z) by (unfold seg_pref; rewrite Ez; reflexivity).
    destruct rest as [|s2 rest2].
    + simpl in Eg. inversion Eg; subst c1 p1 n1. simpl in Eb.
      exists lastn, fr. split; auto. split; [lia|].
      intros roid Hr Hn Hk. cbn [gpath]. repeat split; auto.
      exists lastn. split; auto. split; auto. rewrite Hpref. reflexivity.
    + destruct (build_next_empty _ _ _ _ _ _ _ Eb) as [A B].
      destruct (IH lastn _ _ _ _ _ _ _ s2 rest2 eq_refl Eg A B) as [w [f [Hw [Hf Hgp]]]]; [lia|].
      exists w, f. split; auto. split; [lia|].
      intros roid Hr Hn Hk. cbn [gpath]. repeat split; auto.
      exists c1. split; auto. apply Hgp; auto.
      * destruct (build_next_cont _ _ _ _ _ _ _ Eb) as [_ B2]. rewrite B2.
        destruct (wrap_type_oid _ _ _ _ _ Hw) as [E|E]; rewrite Hr, E; lia.
      * destruct (build_next_cont_shape _ _ _ _ _ _ _ Eb) as [-> | ->]; simpl; auto. intros kv [].
Qed.

Lemma keys_avoid_child : forall x c n, is_child c n -> keys_avoid x n = true -> keys_avoid x c = true.
Proof.
  intros x c n Hc Hk. destruct n as [i v|i kvs|i els|i els]; simpl in *.
  - contradiction.
  - destruct Hc as [kv [Hkv <-]]. rewrite forallb_forall in Hk. specialize (Hk kv Hkv).
    apply andb_true_iff in Hk. tauto.
  - rewrite forallb_forall in Hk. auto.
  - destruct Hc as [_ Hc]. destruct c; try discriminate. reflexivity.
Qed.

Lemma keys_avoid_1 : forall x n, keys_avoid x n = true -> keys_avoid1 x n.
Proof.
  intros x n H. destruct n as [i v|i kvs|i els|i els]; simpl in *; auto.
  intros kv Hkv. rewrite forallb_forall in H. specialize (H kv Hkv). apply andb_true_iff in H.
  destruct H as [H _]. apply negb_true_iff in H. exact H.
Qed.

Lemma walk_leaf_fails : forall lit s rest i v pc d next vo value,
  exists e, walk lit (s :: rest) (NLeaf i v) pc d next vo value = RErr e.
Proof.
  intros. rewrite walk_unfold.
  assert (E : found_of (NLeaf i v) s = ROk None) by (destruct s; reflexivity).
  rewrite E. simpl. destruct (negb (forallb straight_buildable rest)); eexists; reflexivity.
Qed.

Lemma put_key_keys : forall k v kvs kv', In kv' (put_key k v kvs) -> exists kv, In kv kvs /\ fst kv' = fst kv.
Proof.
  induction kvs as [|kv0 r IH]; intros kv' H; simpl in *; [contradiction|].
  destruct (key_is k kv0).
  - destruct H as [<-|H]; [exists kv0; auto|exists kv'; auto].
  - destruct H as [<-|H]; [exists kv0; auto|]. destruct (IH kv' H) as [kv [H1 H2]]. exists kv; auto.
Qed.

Lemma null_put_shape : forall roid cur s v,
  node_oid (null_put cur s v) = node_oid cur /\ is_set (null_put cur s v) = is_set cur /\
  (keys_avoid1 roid cur -> keys_avoid1 roid (null_put cur s v)).
Proof.
  intros roid cur s v. destruct cur as [i x|i kvs|i els|i els]; simpl; auto.
  - destruct s as [k ko|z]; simpl; auto. repeat split; auto.
    intros Hk kv' Hkv'. destruct (put_key_keys _ _ _ _ Hkv') as [kv [H1 H2]]. rewrite H2. apply Hk. exact H1.
  - destruct (match s with SIdx z => Some z | SKey k _ => py_int k end); simpl; auto.
Qed.

Lemma putf_shape : forall roid o c' cur, is_obj o cur = false ->
  node_oid (putf o c' cur) = node_oid cur /\ is_set (putf o c' cur) = is_set cur /\
  (keys_avoid1 roid cur -> keys_avoid1 roid (putf o c' cur)).
Proof.
  intros roid o c' cur Ho. destruct cur as [i x|i kvs|i els|i els]; simpl; rewrite ?Ho; simpl; auto.
  repeat split; auto. intros Hk kv' Hkv'. apply in_map_iff in Hkv'. destruct Hkv' as [kv [<- Hkv]]. simpl.
  apply Hk. exact Hkv.
Qed.

Theorem walk_gpath : forall lit segs cur pc d next vo value d' pc' next',
  wf_doc cur ->
  walk lit segs cur pc d next vo value = ROk (d', pc', next') ->
  creates cur segs = true -> (vo < next)%N ->
  (forall x, (next <= x)%N \/ x = vo -> ~ In x (coids cur) /\ keys_avoid x cur = true) ->
  exists o c', In o (coids cur) /\ d' = put_obj o c' d /\
    exists w f, wrap_type lit value f vo = ROk w /\ (next <= f)%N /\
                gpath (node_oid w) w pc' (putf o c' cur) segs.
Proof.
  intros lit segs. induction segs as [|s rest IH]; intros cur pc d next vo value d' pc' next' Hwf H Hcr Hvo Hok.
  - discriminate.
  - destruct (found_of cur s) as [[[c cpc]|]|e] eqn:Ef.
    + pose proof (found_is_child _ _ _ _ Ef) as Hc.
      pose proof (found_agrees _ _ _ Ef) as Hsc. simpl in Hsc.
      destruct (null_step_cases c rest) as [Hgo|[ci [s2 [rest2 [-> ->]]]]].
      * rewrite (walk_go _ _ _ _ _ _ _ _ _ _ _ Ef Hgo) in H.
        rewrite (creates_step _ _ _ _ Hsc Hgo) in Hcr.
        assert (Hokc : forall x, (next <= x)%N \/ x = vo -> ~ In x (coids c) /\ keys_avoid x c = true).
        { intros x Hx. destruct (Hok x Hx) as [H1 H2]. split.
          - intro Hin. apply H1. apply (proj1 (child_coids _ _ _ Hc Hin)).
          - eapply keys_avoid_child; eauto. }
        destruct (IH c cpc d next vo value d' pc' next' (child_wf _ _ Hc Hwf) H Hcr Hvo Hokc)
          as [o [c' [Ho [Hd [w [f [Hw [Hf Hgp]]]]]]]].
        exists o, c'. destruct (child_coids _ _ _ Hc Ho) as [Hin Hne].
        split; auto. split; auto. exists w, f. split; auto. split; auto.
        pose proof (not_coid_is_obj _ _ (Hne Hwf)) as Hno.
        pose proof (seg_child_putf o c' cur s c Hsc Hno) as Hp.
        destruct (putf_shape (node_oid w) o c' cur Hno) as [P1 [P2 P3]].
        assert (Hroid : (next <= node_oid w)%N \/ node_oid w = vo)
          by (destruct (wrap_type_oid _ _ _ _ _ Hw) as [E|E]; rewrite E; [left; lia|right; reflexivity]).
        destruct (Hok _ Hroid) as [Hnc Hka].
        destruct rest as [|s2 rest2]; [simpl in Hcr; discriminate|].
        cbn [gpath]. repeat split.
        -- rewrite P1. intro E. apply Hnc. rewrite <- E.
           destruct cur as [i x|i kvs|i els|i els]; simpl in *; auto; try contradiction.
        -- apply P3. apply keys_avoid_1. exact Hka.
        -- rewrite P2. destruct cur as [i x|i kvs|i els|i els]; auto.
           (* a member of a set is a scalar: the walk cannot go on below it *)
           (* its member c is a scalar and holds no container, but o is one of c's *)
           simpl in Hc. destruct Hc as [_ Hl]. destruct c; try discriminate; try (simpl in Ho; contradiction).
        -- exists (putf o c' c). split; auto.
      * (* the existing prefix ends at a null *)
        rewrite (walk_null _ _ _ _ _ _ _ _ _ _ _ _ Ef) in H. unfold rbind in H.
        assert (Hcur : exists o, coid cur = Some o /\ is_set cur = false /\
                  exists cont g, build_next lit (s2 :: rest2) value next vo = ROk cont /\
                    grow lit (s2 :: rest2) cont cpc (N.succ next) vo value = ROk g /\
                    d' = put_obj o (null_put cur s (fst (fst g))) d /\ pc' = snd (fst g)).
        { destruct (negb (forallb straight_buildable (s2 :: rest2))); [discriminate|].
          destruct cur as [i x|i kvs|i els|i els]; try discriminate;
            (destruct (build_next lit (s2 :: rest2) value next vo) as [cont|e] eqn:Eb; [|discriminate]);
            (destruct (grow lit (s2 :: rest2) cont cpc (N.succ next) vo value) as [g|e] eqn:Eg; [|discriminate]);
            simpl in H; inversion H; subst; eexists; (split; [reflexivity|]); (split; [reflexivity|]);
            exists cont, g; auto. }
        destruct Hcur as [o [Ec [Hns [cont [[[g0 pc0] n0] [Eb [Eg [-> ->]]]]]]]]. simpl.
        exists o, (null_put cur s g0). split; [apply coid_in_coids; auto|]. split; auto.
        rewrite (putf_obj o _ cur (coid_is_obj _ _ Ec)).
        destruct (build_next_empty _ _ _ _ _ _ _ Eb) as [A B].
        destruct (grow_gpath lit (s2 :: rest2) cont cpc (N.succ next) vo value g0 pc0 n0 s2 rest2 eq_refl Eg A B)
          as [w [f [Hw [Hf Hgp]]]]; [lia|].
        exists w, f. split; auto. split; [lia|].
        assert (Hroid : (next <= node_oid w)%N \/ node_oid w = vo)
          by (destruct (wrap_type_oid _ _ _ _ _ Hw) as [E|E]; rewrite E; [left; lia|right; reflexivity]).
        destruct (Hok _ Hroid) as [Hnc Hka].
        destruct (null_put_shape (node_oid w) cur s g0) as [P1 [P2 P3]].
        cbn [gpath]. repeat split.
        -- rewrite P1. intro E. apply Hnc. rewrite <- E.
           destruct cur as [i x|i kvs|i els|i els]; simpl in *; auto; try discriminate.
        -- apply P3. apply keys_avoid_1. exact Hka.
        -- rewrite P2. exact Hns.
        -- exists g0. split; [apply (null_put_child cur s ci cpc g0 Ef)|].
           apply Hgp; auto.
           ++ destruct (build_next_cont _ _ _ _ _ _ _ Eb) as [_ B2]. rewrite B2.
              destruct (wrap_type_oid _ _ _ _ _ Hw) as [E|E]; rewrite E; lia.
           ++ destruct (build_next_cont_shape _ _ _ _ _ _ _ Eb) as [-> | ->]; simpl; auto. intros kv [].
    + rewrite walk_unfold, Ef in H. unfold rbind in H.
      destruct (negb (forallb straight_buildable rest)); [discriminate|].
      destruct (grow lit (s :: rest) cur pc next vo value) as [[[g0 pc0] n0]|e] eqn:Eg; [|discriminate].
      destruct (coid cur) as [o|] eqn:Ec; [|discriminate]. simpl in H. inversion H; subst.
      pose proof (found_agrees _ _ _ Ef) as Hsc. simpl in Hsc.
      simpl in Hcr. rewrite Hsc in Hcr. apply negb_true_iff in Hcr.
      exists o, g0. split; [apply coid_in_coids; auto|]. split; auto.
      rewrite (putf_obj o _ cur (coid_is_obj _ _ Ec)).
      destruct (grow_gpath lit (s :: rest) cur pc next vo value g0 pc' next' s rest eq_refl Eg Hsc Hcr Hvo)
        as [w [f [Hw [Hf Hgp]]]].
      exists w, f. split; auto. split; auto.
      assert (Hroid : (next <= node_oid w)%N \/ node_oid w = vo)
        by (destruct (wrap_type_oid _ _ _ _ _ Hw) as [E|E]; rewrite E; [left; lia|right; reflexivity]).
      destruct (Hok _ Hroid) as [Hnc Hka].
      apply Hgp; auto.
      * intro E. apply Hnc. rewrite <- E. destruct cur as [i x|i kvs|i els|i els]; simpl in *; auto; try discriminate.
      * apply keys_avoid_1. exact Hka.
    + rewrite walk_unfold, Ef in H. discriminate.
Qed.

(* ---------------- the composition ---------------- *)
Lemma node_oid_le_max : forall d, (node_oid d <= max_oid d)%N.
Proof.
  destruct d as [i v|i kvs|i els|i els]; unfold node_oid; simpl; try lia.
  - induction kvs as [|kv r IH]; simpl; lia.
  - induction els as [|x r IH]; simpl; lia.
  - induction els as [|x r IH]; simpl; lia.
Qed.

Lemma max_oid_map_ge : forall i kvs kv, In kv kvs ->
  (max_oid (fst kv) <= max_oid (NMap i kvs) /\ max_oid (snd kv) <= max_oid (NMap i kvs))%N.
Proof.
  intros i kvs kv H. simpl. induction kvs as [|kv0 r IH]; simpl in *; [contradiction|].
  destruct H as [->|H]; [lia|]. specialize (IH H). lia.
Qed.

Lemma max_oid_seq_ge : forall i els x, In x els -> (max_oid x <= max_oid (NSeq i els))%N.
Proof.
  intros i els x H. simpl. induction els as [|y r IH]; simpl in *; [contradiction|].
  destruct H as [->|H]; [lia|]. specialize (IH H). lia.
Qed.

Lemma keys_avoid_fresh : forall d x, (max_oid d < x)%N -> keys_avoid x d = true.
Proof.
  induction d using node_ind'; intros x Hx; simpl; auto.
  - apply forallb_forall. intros kv Hkv. rewrite Forall_forall in H.
    destruct (max_oid_map_ge i kvs kv Hkv) as [M1 M2]. apply andb_true_iff. split.
    + apply negb_true_iff. apply andb_false_iff. left. apply N.eqb_neq.
      pose proof (node_oid_le_max (fst kv)). lia.
    + apply (proj2 (H kv Hkv)). lia.
  - apply forallb_forall. intros y Hy. rewrite Forall_forall in H. apply (H y Hy).
    pose proof (max_oid_seq_ge i els y Hy). lia.
Qed.

Lemma seg_child_is_child : forall n s c, seg_child n s = Some c -> is_child c n.
Proof.
  intros n s c H. unfold seg_child in H. destruct (seg_ref n s) as [r|] eqn:Er; [|discriminate].
  destruct n as [i v|i kvs|i els|i els]; simpl in *.
  - destruct s; discriminate.
  - destruct s as [k ko|z]; [|discriminate]. inversion Er; subst r. simpl in H.
    rewrite find_assoc_key in H. destruct (find (key_is (PStr k)) kvs) as [kv|] eqn:Ef; [|discriminate].
    simpl in H. inversion H; subst. exists kv. split; auto. apply (find_some _ _ Ef).
  - destruct (seg_int s) as [z|]; [|discriminate].
    destruct (0 <=? z)%Z; [|destruct (0 <=? z + Z.of_nat (length els))%Z; [|discriminate]];
      inversion Er; subst r; simpl in H; eapply nth_error_In; eauto.
  - destruct s as [k ko|z]; [|discriminate]. inversion Er; subst r. simpl in H.
    rewrite find_find_member in H. apply find_some in H. destruct H as [Hin Hm]. split; auto.
    destruct c; simpl in *; auto; discriminate.
Qed.

Lemma gpath_last : forall roid w pc D segs n,
  gpath roid w pc n segs -> in_doc n D ->
  exists p s, in_doc p D /\ seg_child p s = Some w /\ pc = mkpc (Some (node_oid p)) (seg_pref p s) /\
              is_set p = false /\ path_last n segs = Some (node_oid p, upd_ref p s).
Proof.
  intros roid w pc D. induction segs as [|s rest IH]; intros n Hg Hin; [destruct Hg|].
  destruct Hg as [Hn [Hk [Hset [c [Hc Hrest]]]]].
  destruct rest as [|s2 rest2].
  - destruct Hrest as [-> ->]. exists n, s. repeat split; auto.
  - destruct (IH c Hrest) as [p [s' [H1 [H2 [H3 [H4 H5]]]]]].
    { eapply in_doc_child; eauto. eapply seg_child_is_child; eauto. }
    exists p, s'. repeat split; auto. cbn [path_last]. rewrite Hc. exact H5.
Qed.

Lemma seg_child_get_change : forall p s w,
  seg_child p s = Some w -> is_set p = false -> get_change p (upd_ref p s) = ROk (Some w).
Proof.
  intros p s w H Hs. unfold seg_child in H. destruct (seg_ref p s) as [r|] eqn:Er; [|discriminate].
  destruct p as [i v|i kvs|i els|i els]; try discriminate.
  - destruct s as [k ko|z]; [|discriminate]. simpl in Er. inversion Er; subst r. simpl in H.
    unfold upd_ref, seg_pref, norm_ref. simpl. rewrite find_assoc_key in H.
    destruct (find (key_is (PStr k)) kvs) as [kv|]; [|discriminate]. simpl in H. inversion H; subst. reflexivity.
  - unfold upd_ref, seg_pref. simpl in Er. destruct (seg_int s) as [z|]; [|discriminate].
    unfold norm_ref, get_change. simpl as_index.
    destruct (0 <=? z)%Z eqn:E0.
    + inversion Er; subst r. simpl in H. apply Z.leb_le in E0.
      assert (E : (z <? 0)%Z = false) by (apply Z.ltb_ge; lia).
      rewrite E. cbn [as_index]. cbv beta iota zeta. rewrite E.
      assert (Hlt : (Z.to_nat z < length els)%nat) by (apply nth_error_Some; congruence).
      replace ((0 <=? z) && (z <? Z.of_nat (length els)))%Z with true
        by (symmetry; apply andb_true_iff; split; [apply Z.leb_le|apply Z.ltb_lt]; lia).
      rewrite H. reflexivity.
    + destruct (0 <=? z + Z.of_nat (length els))%Z eqn:E1; [|discriminate].
      inversion Er; subst r. simpl in H. apply Z.leb_gt in E0. apply Z.leb_le in E1.
      assert (E : (z <? 0)%Z = true) by (apply Z.ltb_lt; lia).
      assert (E' : (z + Z.of_nat (length els) <? 0)%Z = false) by (apply Z.ltb_ge; lia).
      rewrite E. cbn [as_index]. cbv beta iota zeta. rewrite E'.
      assert (Hlt : (Z.to_nat (z + Z.of_nat (length els)) < length els)%nat) by (apply nth_error_Some; congruence).
      replace ((0 <=? z + Z.of_nat (length els)) && (z + Z.of_nat (length els) <? Z.of_nat (length els)))%Z with true
        by (symmetry; apply andb_true_iff; split; [apply Z.leb_le|apply Z.ltb_lt]; lia).
      rewrite H. reflexivity.
Qed.

Lemma find_in_doc_l : forall d p o, wf_doc d -> in_doc p d -> coid p = Some o -> find_obj o d = Some p.
Proof.
  intros d p o Hwf Hin Ho. specialize (Hin o Ho). rewrite find_obj_hd.
  destruct (objs o d) as [|a t] eqn:E; [contradiction|]. simpl.
  f_equal. apply (objs_unique o d p a Hwf); rewrite E; [exact Hin|left; reflexivity].
Qed.

Section Compose.
Variable lit : string -> outcome litres.
Variable fl : string -> outcome flres.

(* SET MODE: set_value(path, value, mustexist=False) on a straight path that does not exist completely.
   Walking the path in the final document reaches the node make_new_node built: it holds the value in
   the requested format. *)
Theorem create_set_composes : forall segs value fmt vo d st',
  doc_inv d = true -> creates d segs = true -> vo_ok d vo = true ->
  create_set lit fl segs value fmt vo d = SDone st' ->
  exists nn i, conv lit fl fmt value = ROk nn /\ resolve (fst st') segs = Some (NLeaf i (nn_val nn)).
Proof.
  intros segs value fmt vo d st' Hinv Hcr Hvo H.
  rewrite (create_set_unfold lit fl) in H.
  destruct (create_walk lit segs value vo d) as [vo' [[[d1 pc] n1]|e]] eqn:Ew; [|discriminate].
  destruct (create_walk_inv lit _ _ _ _ _ _ _ _ Hinv Ew) as [Hinv1 _].
  apply doc_inv_iff in Hinv. destruct Hinv as [Hl Hwf].
  apply doc_inv_iff in Hinv1. destruct Hinv1 as [Hl1 Hwf1].
  unfold create_walk in Ew. injection Ew as Evo Ew. subst vo'.
  set (vo' := fst (sv_start vo (init_state d))) in *.
  set (next := snd (snd (sv_start vo (init_state d)))) in *.
  assert (Hbounds : (vo' < next)%N /\
            forall x, (next <= x)%N \/ x = vo' -> ~ In x (coids d) /\ keys_avoid x d = true).
  { unfold vo', next, init_state. destruct vo as [o|]; simpl in *.
    - apply andb_true_iff in Hvo. destruct Hvo as [Hvo Hka]. apply andb_true_iff in Hvo. destruct Hvo as [Hle Hnc].
      apply N.leb_le in Hle. split; [lia|]. intros x [Hx| ->].
      + split; [intro Hin; pose proof (coids_le_max d x Hin); lia|apply keys_avoid_fresh; lia].
      + split; auto. intro Hin. apply negb_true_iff in Hnc.
        assert (existsb (N.eqb o) (coids d) = true) by (apply existsb_exists; exists o; split; auto; apply N.eqb_refl).
        congruence.
    - split; [lia|]. intros x Hx.
      assert (max_oid d < x)%N by (destruct Hx; lia).
      split; [intro Hin; pose proof (coids_le_max d x Hin); lia|apply keys_avoid_fresh; lia]. }
  destruct Hbounds as [Hlt Hok].
  destruct (walk_gpath lit segs d (mkpc None PNone) d next vo' value d1 pc n1 Hwf Ew Hcr Hlt Hok)
    as [o [c' [Ho [Hd [w [f [Hw [Hf Hgp]]]]]]]].
  rewrite put_obj_putf in Hd. rewrite <- Hd in Hgp.
  assert (Hin1 : in_doc d1 d1) by (intros o' Ho'; apply objs_self; exact Ho').
  destruct (gpath_last _ _ _ d1 _ _ Hgp Hin1) as [p [s [Hp [Hsc [Hpc [Hset Hlast]]]]]].
  assert (Hcp : coid p = Some (node_oid p)).
  { destruct p as [pi pv|pi kvs|pi els|pi els]; try reflexivity. unfold seg_child in Hsc. destruct s; discriminate. }
  pose proof (find_in_doc_l d1 p (node_oid p) Hwf1 Hp Hcp) as Hfind.
  pose proof (seg_child_get_change p s w Hsc Hset) as Hget.
  (* the one action *)
  cbn [run_actions] in H.
  destruct (apply_action lit fl value vo' (mkact pc false fmt) (d1, n1)) as [st1|e] eqn:Ea; [|discriminate].
  inversion H; subst st'. clear H.
  unfold apply_action in Ea. cbn [a_name a_pc a_fmt] in Ea.
  assert (Eu : update_node lit fl pc value fmt vo' (d1, n1) = ROk st1).
  { destruct (update_node lit fl pc value fmt vo' (d1, n1)) as [s1|e]; auto.
    destruct e; try discriminate. destruct c; discriminate. }
  clear Ea.
  unfold update_node in Eu. rewrite Hpc in Eu. simpl in Eu. rewrite Hfind in Eu.
  change (norm_ref p (seg_pref p s)) with (upd_ref p s) in Eu. rewrite Hget in Eu. simpl in Eu.
  destruct (make_new_node lit fl (Some (node_info w)) value fmt n1 vo') as [new|e] eqn:Em; simpl in Eu; [|discriminate].
  destruct (key_conflict (node_oid w) new d1); [discriminate|]. inversion Eu; subst st1. simpl.
  destruct (make_new_node_shape _ _ _ _ _ _ _ _ Em) as [nn [Hconv [i [-> _]]]].
  exists nn, i. split; auto.
  apply (recurse_path (node_oid w) w pc (NLeaf i (nn_val nn)) eq_refl segs d1); auto.
Qed.
End Compose.
