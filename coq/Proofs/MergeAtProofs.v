(* C11: the frame of a targeted merge. *)
From Coq Require Import List Ascii String ZArith NArith Bool Lia.
From YP Require Import Outcome PyStr PyVal Doc PathParser Searches MergeConfig Merge MergeAt MergeHash.
Import ListNotations.
Open Scope list_scope.

(* two child references that can never address the same child *)
Definition ref_apart (a b : ref) : Prop :=
  match a, b with
  | RKey k, RKey k' => forall e, py_eq e k = true -> py_eq e k' = false
  | RIdx i, RIdx j => i <> j
  | _, _ => True
  end.

(* location [p] leaves the path to [t] at some point *)
Fixpoint leaves (t p : loc) : Prop :=
  match t, p with
  | r :: t', r' :: p' => ref_apart r r' \/ (r = r' /\ leaves t' p')
  | _, _ => False
  end.

Lemma assoc_set_val_apart : forall k k' v l,
  (forall e, py_eq e k = true -> py_eq e k' = false) ->
  assoc_key k' (set_val k v l) = assoc_key k' l.
Proof.
  intros k k' v l H. induction l as [|[kn old] r IH]; simpl; [reflexivity|].
  destruct kn as [ki kv| | |]; simpl; try exact IH.
  destruct (py_eq kv k) eqn:E; simpl.
  - rewrite (H kv E). reflexivity.
  - destruct (py_eq kv k'); [reflexivity|exact IH].
Qed.

Lemma nth_replace_other : forall i j x (l : list node), i <> j -> nth_error (replace_nth i x l) j = nth_error l j.
Proof.
  intros i j x l. revert i j. induction l as [|y r IH]; intros i j H; destruct i, j; simpl; auto; try congruence.
Qed.

Lemma nth_replace_same : forall i x (l : list node) c, nth_error l i = Some c -> nth_error (replace_nth i x l) i = Some x.
Proof.
  intros i x l. revert i. induction l as [|y r IH]; intros i c H; destruct i; simpl in *; try discriminate; eauto.
Qed.

Theorem update_frame : forall t f d d' p,
  update_at t f d = Ok d' -> leaves t p -> lookup d' p = lookup d p.
Proof.
  induction t as [|r t' IH]; intros f d d' p H L; [destruct p; contradiction|].
  destruct p as [|r' p']; [contradiction|].
  simpl in H. destruct d as [i v|i kvs|i els|i els]; try discriminate.
  - destruct r as [k| |]; try discriminate.
    destruct (assoc_key k kvs) as [c|] eqn:Ec; [|discriminate].
    destruct (update_at t' f c) as [c'| |] eqn:Eu; simpl in H; try discriminate.
    inversion H; subst d'. destruct L as [A|[E L]].
    + destruct r' as [k'| |]; simpl; auto. now rewrite assoc_set_val_apart.
    + subst r'. simpl. rewrite assoc_set_val by congruence. rewrite Ec. eapply IH; eauto.
  - destruct r as [|j|]; try discriminate.
    destruct (nth_error els j) as [c|] eqn:Ec; [|discriminate].
    destruct (update_at t' f c) as [c'| |] eqn:Eu; simpl in H; try discriminate.
    inversion H; subst d'. destruct L as [A|[E L]].
    + destruct r' as [|j'|]; simpl; auto. simpl in A. now rewrite nth_replace_other.
    + subst r'. simpl. rewrite (nth_replace_same _ _ _ _ Ec). rewrite Ec. eapply IH; eauto.
Qed.

Lemma update_lookup : forall t f d d' c,
  update_at t f d = Ok d' -> lookup d t = Some c ->
  exists c', f c = Ok c' /\ lookup d' t = Some c'.
Proof.
  induction t as [|r t' IH]; intros f d d' c H L; simpl in *.
  - inversion L; subst. eauto.
  - destruct d as [i v|i kvs|i els|i els]; try discriminate.
    + destruct r as [k| |]; try discriminate. simpl in L.
      destruct (assoc_key k kvs) as [c0|] eqn:Ec; [|discriminate].
      destruct (update_at t' f c0) as [c1| |] eqn:Eu; simpl in H; try discriminate.
      inversion H; subst d'. simpl. rewrite assoc_set_val by congruence. eapply IH; eauto.
    + destruct r as [|j|]; try discriminate. simpl in L.
      destruct (nth_error els j) as [c0|] eqn:Ec; [|discriminate].
      destruct (update_at t' f c0) as [c1| |] eqn:Eu; simpl in H; try discriminate.
      inversion H; subst d'. simpl. rewrite (nth_replace_same _ _ _ _ Ec). eapply IH; eauto.
Qed.

Section Cfg.
Variable lit : string -> outcome litres.
Variable cfg : mconfig.

(* everything that leaves every target path keeps its content *)
Lemma fold_frame : forall (f : node -> outcome node) targets doc out p,
  foldM (fun d t => update_at t f d) targets doc = Ok out ->
  Forall (fun t => leaves t p) targets ->
  lookup out p = lookup doc p.
Proof.
  intros f targets doc out p H F. revert doc H.
  induction F as [|t ts Ht F IH]; intros doc H; simpl in H.
  - now inversion H.
  - destruct (update_at t f doc) as [d1| |] eqn:E; simpl in H; try discriminate.
    rewrite (IH d1 H). eapply update_frame; eauto.
Qed.

Theorem merge_at_frame : forall is_root targets doc rhs out p,
  merge_at lit cfg is_root targets doc rhs = Ok out ->
  Forall (fun t => leaves t p) targets ->
  lookup out p = lookup doc p.
Proof.
  intros is_root targets doc rhs out p H F. unfold merge_at in H.
  destruct (is_none rhs); [now inversion H|].
  destruct targets as [|t0 ts]; [discriminate|].
  eapply fold_frame; eauto.
Qed.

(* no target: "a merge was not performed" *)
Theorem no_target_is_error : forall is_root doc rhs,
  is_none rhs = false -> merge_at lit cfg is_root [] doc rhs = Raise MergeExc.
Proof. intros. unfold merge_at. now rewrite H. Qed.

Lemma foldM_app_ok : forall (f : node -> loc -> outcome node) l1 l2 d out,
  foldM f (l1 ++ l2) d = Ok out -> exists m, foldM f l1 d = Ok m /\ foldM f l2 m = Ok out.
Proof.
  induction l1 as [|x l1 IH]; intros l2 d out H; simpl in *; [eauto|].
  destruct (f d x) as [d1| |]; simpl in *; try discriminate. eauto.
Qed.

(* EVERY target holds what the per-target dispatch made of its old content:
   the targets before and after [t] in the list all lie apart from [t] *)
Theorem every_target_holds_dispatch : forall is_root pre t post doc rhs out old,
  is_none rhs = false ->
  merge_at lit cfg is_root (pre ++ t :: post) doc rhs = Ok out ->
  Forall (fun t' => leaves t' t) (pre ++ post) ->
  lookup doc t = Some old ->
  exists new, merge_target lit cfg is_root rhs old = Ok new /\ lookup out t = Some new.
Proof.
  intros is_root pre t post doc rhs out old Hn H F Hl. unfold merge_at in H. rewrite Hn in H.
  assert (Hf : foldM (fun d t0 => update_at t0 (merge_target lit cfg is_root rhs) d) (pre ++ t :: post) doc = Ok out).
  { destruct (pre ++ t :: post) eqn:E; [destruct pre; discriminate|exact H]. }
  clear H. apply Forall_app in F. destruct F as [Fpre Fpost].
  apply foldM_app_ok in Hf. destruct Hf as [m [Hpre Hrest]].
  simpl in Hrest.
  destruct (update_at t (merge_target lit cfg is_root rhs) m) as [d1| |] eqn:E; simpl in Hrest; try discriminate.
  assert (Lm : lookup m t = Some old) by (rewrite (fold_frame _ _ _ _ _ Hpre Fpre); exact Hl).
  destruct (update_lookup _ _ _ _ _ E Lm) as [new [Hnew Lnew]].
  exists new. split; [exact Hnew|]. rewrite (fold_frame _ _ _ _ _ Hrest Fpost). exact Lnew.
Qed.

(* the single-target case *)
Theorem target_holds_dispatch : forall is_root t doc rhs out old,
  is_none rhs = false ->
  merge_at lit cfg is_root [t] doc rhs = Ok out ->
  lookup doc t = Some old ->
  exists new, merge_target lit cfg is_root rhs old = Ok new /\ lookup out t = Some new.
Proof.
  intros is_root t doc rhs out old Hn H Hl.
  eapply (every_target_holds_dispatch is_root [] t []); eauto. constructor.
Qed.

(* what the dispatch yields is the RETURNED node of C05's per-target insert
   (Merge.insert_any), for every target that is not the right-hand document
   itself and not a Scalar receiving a Scalar *)
Lemma merge_target_is_returned : forall is_root rhs t,
  same_obj t rhs = false -> (is_leaf rhs && is_leaf t = false) ->
  merge_target lit cfg is_root rhs t = (do m <- insert_any lit cfg t rhs; Ok (ret m)).
Proof.
  intros is_root rhs t Hs Hl. unfold merge_target. rewrite Hs.
  destruct rhs, t; simpl in Hl; try discriminate; reflexivity.
Qed.

End Cfg.
