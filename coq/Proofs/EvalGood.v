(* C15: the evaluator's streams stop normally, with a YAML Path exception, or
   at a document mutation -- never with a Python crash and never out of fuel.
   Part 1: combinators, oracles, the non-recursive handlers. *)
From Coq Require Import List Ascii String ZArith NArith Bool Arith Lia.
From YP Require Import Outcome PyStr PyVal Doc Generated PathParser PathPrinter Searches Eval.
Import ListNotations.
Open Scope string_scope.
Open Scope nat_scope.

Definition okstop (s : stop) : Prop :=
  match s with
  | Done => True
  | Err (YPE _) => True
  | Mut _ _ => True
  | _ => False
  end.
Definition good {A} (g : gen A) : Prop := okstop (snd g).

Definition is_coords (v : rval) : bool := match v with RCoords _ _ _ _ _ => true | _ => false end.
Definition coords_or_list (v : rval) : bool := is_coords v || is_pylist v.
(* what a segment handler may yield / what the required driver yields *)
Definition segres (g : gen rval) : Prop := good g /\ Forall (fun x => coords_or_list x = true) (fst g).
Definition reqres (g : gen rval) : Prop := good g /\ Forall (fun x => is_coords x = true) (fst g).

Lemma reqres_segres g : reqres g -> segres g.
Proof.
  intros [H1 H2]; split; auto. eapply Forall_impl; [|exact H2].
  intros a Ha; unfold coords_or_list; rewrite Ha; reflexivity.
Qed.

Lemma good_gnil {A} : good (@gnil A). Proof. exact I. Qed.
Lemma good_gone {A} (x : A) : good (gone x). Proof. exact I. Qed.
Lemma good_gerr_ype {A} k : good (@gerr A (YPE k)). Proof. exact I. Qed.

Lemma segres_gnil : segres gnil. Proof. split; [exact I | constructor]. Qed.
Lemma reqres_gnil : reqres gnil. Proof. split; [exact I | constructor]. Qed.
Lemma segres_gerr_ype k : segres (gerr (YPE k)). Proof. split; [exact I | constructor]. Qed.
Lemma reqres_gerr_ype k : reqres (gerr (YPE k)). Proof. split; [exact I | constructor]. Qed.
Lemma reqres_gone x : is_coords x = true -> reqres (gone x).
Proof. intros H; split; [exact I | repeat constructor; exact H]. Qed.
Lemma segres_gone x : coords_or_list x = true -> segres (gone x).
Proof. intros H; split; [exact I | repeat constructor; exact H]. Qed.
Lemma reqres_coords nd p r t a : reqres (gone (ncoords nd p r t a)).
Proof. apply reqres_gone; reflexivity. Qed.
Lemma segres_coords nd p r t a : segres (gone (ncoords nd p r t a)).
Proof. apply segres_gone; reflexivity. Qed.

(* a generic "stream property": stop is fine and all items satisfy Q *)
Definition sres (Q : rval -> bool) (g : gen rval) : Prop :=
  good g /\ Forall (fun x => Q x = true) (fst g).

Lemma sres_gapp Q a b : sres Q a -> (forall u, sres Q (b u)) -> sres Q (gapp a b).
Proof.
  intros [Ha Fa] Hb. destruct a as [l s]; cbn in *.
  destruct s; cbn in *.
  - specialize (Hb tt). destruct (b tt) as [l2 s2]. destruct Hb as [Hb Fb]; cbn in *.
    split; cbn; auto. apply Forall_app; split; auto.
  - split; auto.
  - split; auto.
  - split; auto.
Qed.

Lemma sres_gfor {A} Q (l : list A) f : (forall x, In x l -> sres Q (f x)) -> sres Q (gfor l f).
Proof.
  induction l as [|x r IH]; intros H; cbn.
  - split; [exact I | constructor].
  - apply sres_gapp; [apply H; left; reflexivity|]. intros _. apply IH. intros y Hy; apply H; right; exact Hy.
Qed.

Lemma sres_gbind {A} Q (g : gen A) f :
  good g -> (forall x, In x (fst g) -> sres Q (f x)) -> sres Q (gbind g f).
Proof.
  intros Hg Hf. unfold gbind.
  pose proof (sres_gfor Q (fst g) f Hf) as [H1 H2].
  destruct (gfor (fst g) f) as [l2 s2]; cbn in *.
  destruct s2; cbn in *.
  - split; cbn; auto.
  - split; auto.
  - split; auto.
  - split; auto.
Qed.

Lemma sres_glift {A} Q (o : outcome A) k :
  ok_or_ype o -> (forall a, o = Ok a -> sres Q (k a)) -> sres Q (glift o k).
Proof.
  intros [[a ->]|[e ->]] H; cbn.
  - apply H; reflexivity.
  - split; [exact I | constructor].
Qed.

Lemma sres_gfirst {A} Q (g : gen A) k :
  good g -> (forall o, sres Q (k o)) -> sres Q (gfirst g k).
Proof.
  intros Hg Hk. destruct g as [[|x r] s]; cbn in *; auto.
  destruct s; cbn in *; auto; try contradiction; split; auto; constructor.
Qed.

Lemma sres_gfirst_in {A} Q (g : gen A) k :
  good g -> (forall x, In x (fst g) -> sres Q (k (Some x))) -> sres Q (k None) -> sres Q (gfirst g k).
Proof.
  intros Hg Hk Hn. destruct g as [[|x r] s]; cbn in *; auto.
  destruct s; cbn in *; auto; try contradiction; split; auto; constructor.
Qed.

Lemma sres_weaken (Q R : rval -> bool) g :
  (forall x, Q x = true -> R x = true) -> sres Q g -> sres R g.
Proof. intros H [H1 H2]; split; auto. eapply Forall_impl; [|exact H2]. exact H. Qed.

Lemma sres_coords Q nd p r t a : Q (ncoords nd p r t a) = true -> sres Q (gone (ncoords nd p r t a)).
Proof. intros H; split; [exact I | repeat constructor; exact H]. Qed.
Lemma sres_gone_q Q x : Q x = true -> sres Q (gone x).
Proof. intros H; split; [exact I | repeat constructor; exact H]. Qed.
Lemma sres_gnil Q : sres Q gnil. Proof. split; [exact I | constructor]. Qed.
Lemma sres_gerr_ype Q k : sres Q (gerr (YPE k)). Proof. split; [exact I | constructor]. Qed.

(* ---- Python indexing ---- *)
Lemma py_nth_ok {A} (l : list A) (i : Z) :
  (- Z.of_nat (List.length l) <= i < Z.of_nat (List.length l))%Z -> exists x, py_nth l i = Ok x.
Proof.
  intros H. unfold py_nth.
  set (n := Z.of_nat (List.length l)) in *.
  set (j := if (i <? 0)%Z then (i + n)%Z else i).
  assert (Hj : (0 <= j < n)%Z).
  { unfold j. destruct (i <? 0)%Z eqn:E; [apply Z.ltb_lt in E | apply Z.ltb_ge in E]; lia. }
  assert (E1 : (0 <=? j)%Z = true) by (apply Z.leb_le; lia).
  assert (E2 : (j <? n)%Z = true) by (apply Z.ltb_lt; lia).
  rewrite E1, E2. cbn.
  destruct (nth_error l (Z.to_nat j)) eqn:E; [eauto|].
  apply nth_error_None in E. unfold n in Hj. lia.
Qed.

Lemma range_from_in lo cnt x : In x (range_from lo cnt) -> lo <= x < lo + cnt.
Proof.
  revert lo; induction cnt as [|c IH]; intros lo H; cbn in *; [contradiction|].
  destruct H as [<-|H]; [lia|]. apply IH in H. lia.
Qed.
Lemma range_in lo hi x : In x (range lo hi) -> lo <= x < hi.
Proof. unfold range; intros H; apply range_from_in in H; lia. Qed.

Lemma slice_bounds_le a b n lo hi : slice_bounds a b n = (lo, hi) -> hi <= n.
Proof.
  unfold slice_bounds. intros H. inversion H; subst; clear H.
  destruct (b <? 0)%Z eqn:E; [apply Z.ltb_lt in E | apply Z.ltb_ge in E]; lia.
Qed.

Lemma mapM_ok_or_ype {A B} (f : A -> outcome B) l :
  (forall x, In x l -> ok_or_ype (f x)) -> ok_or_ype (mapM f l).
Proof.
  induction l as [|x r IH]; intros H; cbn; [left; eauto|].
  destruct (H x (or_introl eq_refl)) as [[y ->]|[k ->]]; cbn; [|right; eauto].
  destruct IH as [[ys ->]|[k ->]]; cbn; [intros; apply H; right; auto | left; eauto | right; eauto].
Qed.

(* ---- the search oracles ---- *)
Section Oracles.
Variable lit : string -> outcome litres.
Variable re_search : string -> string -> outcome reres.
(* the oracles answer; literal_eval raises nothing typed_value does not catch *)
Hypothesis lit_total : forall s, exists r, lit s = Ok r /\ (forall c, r <> LCrash c).
Hypothesis re_total : forall p s, exists r, re_search p s = Ok r.

Lemma typed_value_ok v : exists w, typed_value lit v = Ok w.
Proof.
  unfold typed_value. destruct v; eauto;
  repeat match goal with
         | |- context[if ?b then _ else _] => destruct b
         end; eauto;
  match goal with |- context[lit ?t] => destruct (lit_total t) as [r [-> Hr]] end; cbn;
  destruct r; eauto; exfalso; eapply Hr; reflexivity.
Qed.

Lemma typed_haystack_ok h : exists w, typed_haystack lit h = Ok w.
Proof.
  unfold typed_haystack. destruct (typed_value_ok (hay_pyval h)) as [w ->]. cbn. destruct h; eauto.
Qed.

Lemma py_lt_num a b : is_num_inst a = true -> is_num_inst b = true -> exists r, py_lt a b = Ok r.
Proof.
  unfold is_num_inst, py_lt. destruct a, b; cbn; intros; try discriminate; eauto.
Qed.
Lemma py_le_num a b : is_num_inst a = true -> is_num_inst b = true -> exists r, py_le a b = Ok r.
Proof.
  unfold is_num_inst, py_le. destruct a, b; cbn; intros; try discriminate; eauto.
Qed.

Lemma ordered_ok cmp strcmp th tn needle :
  (forall a b, is_num_inst a = true -> is_num_inst b = true -> exists r, cmp a b = Ok r) ->
  exists r, ordered cmp strcmp th tn needle = Ok r.
Proof.
  intros H. unfold ordered.
  destruct (is_int_inst th) eqn:E1.
  - destruct (is_num_inst tn) eqn:E2; eauto. apply H; auto. unfold is_num_inst; rewrite E1; reflexivity.
  - destruct (is_float_inst th) eqn:E3; eauto.
    destruct (is_num_inst tn) eqn:E2; eauto. apply H; auto. unfold is_num_inst; rewrite E3. apply orb_true_r.
Qed.

Lemma search_matches_ok m needle h : ok_or_ype (search_matches_h lit re_search m needle h).
Proof.
  unfold search_matches_h, search_matches_g.
  destruct (typed_haystack_ok h) as [th Hth].
  destruct (typed_value_ok (PStr needle)) as [tn Htn].
  rewrite Hth, Htn. unfold bind at 1 2. cbn [needle_text py_str bind].
  destruct m.
  - left; eauto.
  - left; eauto.
  - left. repeat match goal with |- context[if ?b then _ else _] => destruct b end; eauto.
  - left; eauto.
  - left. apply ordered_ok. intros a b Ha Hb. unfold py_gt. apply py_lt_num; auto.
  - left. apply ordered_ok. intros a b Ha Hb. apply py_lt_num; auto.
  - left. apply ordered_ok. intros a b Ha Hb. unfold py_ge. apply py_le_num; auto.
  - left. apply ordered_ok. intros a b Ha Hb. apply py_le_num; auto.
  - destruct (re_total needle (py_str th)) as [r ->]; cbn. destruct r; [left|right]; eauto.
Qed.

End Oracles.
