(* C01 -- "in document order, each once" for the sub-fragment in which `**`
   stands only last: the locations of the results of a required query (read off
   their ancestries, Spec/SpecC02.v [anc_loc]) are pairwise [loc_before]
   (Spec/SpecC01Order.v): each result comes before every later one in the
   document, no node is named twice, none together with a descendant.

   Invariant [gord d l g]: every result of the stream g lies at or below
   location l, and the results are pairwise [loc_before].  Loops over the
   children of a node yield below child 0, child 1, ... in turn
   ([gord_gfor_pos]); the driver's `for x in segment(...): yield from rest(x)`
   keeps the order because [loc_before] is decided where two ways part
   ([before_ext]).  Same induction and guards as Proofs/EvalPathAt.v, whose
   [ctx_at] supplies "the ancestry of the context spells l". *)
From Coq Require Import List Ascii String ZArith NArith Bool Arith Lia.
From YP Require Import Outcome PyStr PyVal Doc Generated PathParser PathPrinter Searches Eval SpecC01 SpecC15
  EvalSem EvalSemLib EvalSemSeg EvalSemPath EvalGood EvalHandlers EvalTotal RtInt EvalLocAll
  PathBuild ResolveEval C04spec SpecC02 SpecC01Order PyValOrder EvalPathAt EvalLocChild.
Import ListNotations.
Open Scope string_scope.
Open Scope nat_scope.
Open Scope list_scope.

(* ---- positions ---- *)
Lemma assoc_first_idx k : forall kvs c, assoc_key k kvs = Some c ->
  exists i, first_idx (fun kv => leaf_eq k (fst kv)) kvs = Some i.
Proof.
  induction kvs as [|[kn v] rest IH]; intros c H; [discriminate H|]. cbn [assoc_key first_idx fst] in *.
  destruct kn as [ik x| | |]; cbn [leaf_eq].
  - destruct (py_eq x k); [eexists; reflexivity|]. destruct (IH _ H) as [p Hp]. rewrite Hp. eexists; reflexivity.
  - destruct (IH _ H) as [p Hp]. rewrite Hp. eexists; reflexivity.
  - destruct (IH _ H) as [p Hp]. rewrite Hp. eexists; reflexivity.
  - destruct (IH _ H) as [p Hp]. rewrite Hp. eexists; reflexivity.
Qed.

Lemma member_first_idx k : forall els c, find_member k els = Some c -> exists i, first_idx (leaf_eq k) els = Some i.
Proof.
  induction els as [|e rest IH]; intros c H; [discriminate H|]. cbn [find_member first_idx] in *.
  destruct e as [ie x| | |]; cbn [leaf_eq].
  - destruct (py_eq x k); [eexists; reflexivity|]. destruct (IH _ H) as [p Hp]. rewrite Hp. eexists; reflexivity.
  - destruct (IH _ H) as [p Hp]. rewrite Hp. eexists; reflexivity.
  - destruct (IH _ H) as [p Hp]. rewrite Hp. eexists; reflexivity.
  - destruct (IH _ H) as [p Hp]. rewrite Hp. eexists; reflexivity.
Qed.

Lemma child_pos n r c : child n r = Some c -> exists i, ref_pos n r = Some i.
Proof.
  destruct n as [i v|i kvs|i els|i els]; destruct r as [k|j|k]; intros H; try discriminate H; cbn [child ref_pos] in *.
  - eapply assoc_first_idx; exact H.
  - assert (Hj : j < List.length els) by (apply nth_error_Some; rewrite H; discriminate).
    apply Nat.ltb_lt in Hj. rewrite Hj. eexists; reflexivity.
  - eapply member_first_idx; exact H.
Qed.

(* a pair / member met by a loop stands at its own position *)
Lemma pair_pos_uniq : forall kvs j kv,
  c02_keys_uniq (map fst kvs) = true -> nth_error kvs j = Some kv ->
  first_idx (fun kv' : node * node => leaf_eq (key_val (fst kv)) (fst kv')) kvs = Some j.
Proof.
  induction kvs as [|[k0 v0] rest IH]; intros j kv Hu Hn; [destruct j; discriminate Hn|].
  cbn [map fst] in Hu. destruct (keys_uniq_head _ _ Hu) as (Hl & Hd & Hr).
  destruct k0 as [i0 x0| | |]; try discriminate Hl. cbn [first_idx fst leaf_eq].
  destruct j as [|j]; cbn [nth_error] in Hn.
  - injection Hn as <-. cbn [fst key_val]. rewrite py_eq_refl. reflexivity.
  - assert (E : py_eq x0 (key_val (fst kv)) = false).
    { apply (Hd (fst kv)). apply in_map. eapply nth_error_In. exact Hn. }
    rewrite E. rewrite (IH j kv Hr Hn). reflexivity.
Qed.

Lemma member_pos_uniq : forall els j e,
  c02_keys_uniq els = true -> nth_error els j = Some e -> first_idx (leaf_eq (key_val e)) els = Some j.
Proof.
  induction els as [|e0 rest IH]; intros j e Hu Hn; [destruct j; discriminate Hn|].
  destruct (keys_uniq_head _ _ Hu) as (Hl & Hd & Hr).
  destruct e0 as [i0 x0| | |]; try discriminate Hl. cbn [first_idx leaf_eq].
  destruct j as [|j]; cbn [nth_error] in Hn.
  - injection Hn as <-. cbn [key_val]. rewrite py_eq_refl. reflexivity.
  - pose proof (Hd e (nth_error_In _ _ Hn)) as E. cbn [key_val] in E. rewrite E. rewrite (IH j e Hr Hn). reflexivity.
Qed.

(* references with the same position name the same child *)
Lemma same_pos_assoc : forall kvs k1 k2 i c c2,
  first_idx (fun kv : node * node => leaf_eq k1 (fst kv)) kvs = Some i ->
  first_idx (fun kv : node * node => leaf_eq k2 (fst kv)) kvs = Some i ->
  assoc_key k1 kvs = Some c -> assoc_key k2 kvs = Some c2 -> c2 = c.
Proof.
  induction kvs as [|[kn v] rest IH]; intros k1 k2 i c c2 H1 H2 A1 A2; [discriminate A1|].
  cbn [first_idx assoc_key fst] in *.
  destruct kn as [ik x| | |]; cbn [leaf_eq] in *.
  - destruct (py_eq x k1), (py_eq x k2).
    + injection A1 as <-. injection A2 as <-. reflexivity.
    + injection H1 as <-. destruct (first_idx _ rest); discriminate H2.
    + injection H2 as <-. destruct (first_idx _ rest); discriminate H1.
    + destruct (first_idx (fun kv : node * node => leaf_eq k1 (fst kv)) rest) as [a|] eqn:F1; [|discriminate H1].
      destruct (first_idx (fun kv : node * node => leaf_eq k2 (fst kv)) rest) as [b|] eqn:F2; [|discriminate H2].
      cbn in H1, H2. injection H1 as <-. injection H2 as E. subst b. exact (IH k1 k2 a c c2 F1 F2 A1 A2).
  - destruct (first_idx (fun kv : node * node => leaf_eq k1 (fst kv)) rest) as [a|] eqn:F1; [|discriminate H1].
    destruct (first_idx (fun kv : node * node => leaf_eq k2 (fst kv)) rest) as [b|] eqn:F2; [|discriminate H2].
    cbn in H1, H2. injection H1 as <-. injection H2 as E. subst b. exact (IH k1 k2 a c c2 F1 F2 A1 A2).
  - destruct (first_idx (fun kv : node * node => leaf_eq k1 (fst kv)) rest) as [a|] eqn:F1; [|discriminate H1].
    destruct (first_idx (fun kv : node * node => leaf_eq k2 (fst kv)) rest) as [b|] eqn:F2; [|discriminate H2].
    cbn in H1, H2. injection H1 as <-. injection H2 as E. subst b. exact (IH k1 k2 a c c2 F1 F2 A1 A2).
  - destruct (first_idx (fun kv : node * node => leaf_eq k1 (fst kv)) rest) as [a|] eqn:F1; [|discriminate H1].
    destruct (first_idx (fun kv : node * node => leaf_eq k2 (fst kv)) rest) as [b|] eqn:F2; [|discriminate H2].
    cbn in H1, H2. injection H1 as <-. injection H2 as E. subst b. exact (IH k1 k2 a c c2 F1 F2 A1 A2).
Qed.

Lemma same_pos_member : forall els k1 k2 i c c2,
  first_idx (leaf_eq k1) els = Some i -> first_idx (leaf_eq k2) els = Some i ->
  find_member k1 els = Some c -> find_member k2 els = Some c2 -> c2 = c.
Proof.
  induction els as [|e rest IH]; intros k1 k2 i c c2 H1 H2 A1 A2; [discriminate A1|].
  cbn [first_idx find_member] in *.
  destruct e as [ie x| | |]; cbn [leaf_eq] in *.
  - destruct (py_eq x k1), (py_eq x k2).
    + injection A1 as <-. injection A2 as <-. reflexivity.
    + injection H1 as <-. destruct (first_idx _ rest); discriminate H2.
    + injection H2 as <-. destruct (first_idx _ rest); discriminate H1.
    + destruct (first_idx (leaf_eq k1) rest) as [a|] eqn:F1; [|discriminate H1].
      destruct (first_idx (leaf_eq k2) rest) as [b|] eqn:F2; [|discriminate H2].
      cbn in H1, H2. injection H1 as <-. injection H2 as E. subst b. exact (IH k1 k2 a c c2 F1 F2 A1 A2).
  - destruct (first_idx (leaf_eq k1) rest) as [a|] eqn:F1; [|discriminate H1].
    destruct (first_idx (leaf_eq k2) rest) as [b|] eqn:F2; [|discriminate H2].
    cbn in H1, H2. injection H1 as <-. injection H2 as E. subst b. exact (IH k1 k2 a c c2 F1 F2 A1 A2).
  - destruct (first_idx (leaf_eq k1) rest) as [a|] eqn:F1; [|discriminate H1].
    destruct (first_idx (leaf_eq k2) rest) as [b|] eqn:F2; [|discriminate H2].
    cbn in H1, H2. injection H1 as <-. injection H2 as E. subst b. exact (IH k1 k2 a c c2 F1 F2 A1 A2).
  - destruct (first_idx (leaf_eq k1) rest) as [a|] eqn:F1; [|discriminate H1].
    destruct (first_idx (leaf_eq k2) rest) as [b|] eqn:F2; [|discriminate H2].
    cbn in H1, H2. injection H1 as <-. injection H2 as E. subst b. exact (IH k1 k2 a c c2 F1 F2 A1 A2).
Qed.

(* ---- the order ---- *)
Lemma before_same_head n r c t1 t2 : child n r = Some c -> loc_before n (r :: t1) (r :: t2) = loc_before c t1 t2.
Proof.
  intros H. destruct (child_pos n r c H) as [i Hi]. cbn [loc_before]. rewrite Hi, Nat.ltb_irrefl, Nat.eqb_refl, H. reflexivity.
Qed.

Lemma before_prefix : forall l d n, lookup d l = Some n -> forall a b, loc_before d (l ++ a) (l ++ b) = loc_before n a b.
Proof.
  induction l as [|r rest IH]; intros d n H a b; cbn [lookup app] in *; [injection H as <-; reflexivity|].
  destruct (child d r) as [c|] eqn:Ec; [|discriminate H].
  rewrite (before_same_head d r c _ _ Ec). apply IH. exact H.
Qed.

Lemma before_cross n r1 r2 i j s1 s2 :
  ref_pos n r1 = Some i -> ref_pos n r2 = Some j -> i < j -> loc_before n (r1 :: s1) (r2 :: s2) = true.
Proof. intros H1 H2 Hlt. cbn [loc_before]. rewrite H1, H2. apply Nat.ltb_lt in Hlt. rewrite Hlt. reflexivity. Qed.

Lemma before_ext : forall a n b s t, loc_before n a b = true -> loc_before n (a ++ s) (b ++ t) = true.
Proof.
  induction a as [|r1 t1 IH]; intros n b s t H; [discriminate H|].
  destruct b as [|r2 t2]; [discriminate H|]. cbn [app loc_before] in *.
  destruct (ref_pos n r1) as [i|]; [|discriminate H]. destruct (ref_pos n r2) as [j|]; [|discriminate H].
  destruct (i <? j); [reflexivity|]. destruct (i =? j); [|discriminate H].
  destruct (child n r1) as [c|]; [|discriminate H]. apply IH. exact H.
Qed.

(* [loc_before] is strict, and never relates a location with one below it:
   pairwise-before lists name every node once and no node with a descendant *)
Lemma before_not_below : forall a n s, loc_before n a (a ++ s) = false.
Proof.
  induction a as [|r t IH]; intros n s; [reflexivity|]. cbn [app loc_before].
  destruct (ref_pos n r) as [i|]; [|reflexivity]. rewrite Nat.ltb_irrefl, Nat.eqb_refl.
  destruct (child n r); [apply IH | reflexivity].
Qed.
Lemma before_not_above : forall a n s, loc_before n (a ++ s) a = false.
Proof.
  induction a as [|r t IH]; intros n s; [destruct s; reflexivity|]. cbn [app loc_before].
  destruct (ref_pos n r) as [i|]; [|reflexivity]. rewrite Nat.ltb_irrefl, Nat.eqb_refl.
  destruct (child n r); [apply IH | reflexivity].
Qed.
Lemma before_asym : forall a n b, loc_before n a b = true -> loc_before n b a = false.
Proof.
  induction a as [|r1 t1 IH]; intros n b H; [discriminate H|]. destruct b as [|r2 t2]; [reflexivity|].
  cbn [loc_before] in *.
  destruct (ref_pos n r1) as [i|] eqn:E1; [|discriminate H]. destruct (ref_pos n r2) as [j|] eqn:E2; [|discriminate H].
  destruct (i <? j) eqn:Eij.
  - apply Nat.ltb_lt in Eij. replace (j <? i) with false by (symmetry; apply Nat.ltb_ge; lia).
    replace (j =? i) with false by (symmetry; apply Nat.eqb_neq; lia). reflexivity.
  - destruct (i =? j) eqn:Eq; [|discriminate H]. apply Nat.eqb_eq in Eq. subst j.
    rewrite Nat.ltb_irrefl, Nat.eqb_refl.
    destruct (child n r1) as [c|] eqn:Ec; [|discriminate H].
    destruct (child n r2) as [c2|] eqn:Ec2; [|reflexivity].
    (* equal positions: both references name the same child *)
    destruct n as [ii v|ii kvs|ii els|ii els]; destruct r1 as [k1|j1|k1]; try discriminate Ec;
      destruct r2 as [k2|j2|k2]; try discriminate Ec2; cbn [child ref_pos] in *.
    + assert (c2 = c) by (exact (same_pos_assoc kvs k1 k2 i c c2 E1 E2 Ec Ec2)). subst c2. apply IH. exact H.
    + destruct (j1 <? List.length els); [|discriminate E1]. destruct (j2 <? List.length els); [|discriminate E2].
      injection E1 as <-. injection E2 as <-. rewrite Ec in Ec2. injection Ec2 as <-. apply IH. exact H.
    + assert (c2 = c) by (exact (same_pos_member els k1 k2 i c c2 E1 E2 Ec Ec2)). subst c2. apply IH. exact H.
Qed.

Definition lprefix (p q : loc) : Prop := exists s, q = p ++ s.
Lemma lprefix_refl p : lprefix p p.
Proof. exists []. rewrite app_nil_r. reflexivity. Qed.
Lemma lprefix_trans p q r : lprefix p q -> lprefix q r -> lprefix p r.
Proof. intros [s ->] [t ->]. exists (s ++ t). rewrite app_assoc. reflexivity. Qed.
Lemma lprefix_snoc p r : lprefix p (p ++ [r]).
Proof. exists [r]. reflexivity. Qed.

Lemma cross_before d l n r1 r2 i j a b :
  lookup d l = Some n -> ref_pos n r1 = Some i -> ref_pos n r2 = Some j -> i < j ->
  lprefix (l ++ [r1]) a -> lprefix (l ++ [r2]) b -> loc_before d a b = true.
Proof.
  intros Hl H1 H2 Hlt [s1 ->] [s2 ->]. rewrite <- !app_assoc. cbn [app].
  rewrite (before_prefix l d n Hl). eapply before_cross; eassumption.
Qed.

(* ---- ordered lists of results ---- *)
Definition rbefore (d : node) (x y : rval) : Prop := loc_before d (res_locn x) (res_locn y) = true.
Definition lord (d : node) (l : loc) (xs : list rval) : Prop :=
  Forall (fun x => lprefix l (res_locn x)) xs /\ ForallOrdPairs (rbefore d) xs.
Definition gord (d : node) (l : loc) (g : gen rval) : Prop := lord d l (fst g).

Lemma fop_app {A} (R : A -> A -> Prop) : forall l1 l2,
  ForallOrdPairs R l1 -> ForallOrdPairs R l2 -> (forall x y, In x l1 -> In y l2 -> R x y) -> ForallOrdPairs R (l1 ++ l2).
Proof.
  induction l1 as [|a r IH]; intros l2 H1 H2 Hc; [exact H2|]. cbn [app].
  inversion H1 as [|? ? Ha Hr]; subst. constructor.
  - apply Forall_app. split; [exact Ha|]. rewrite Forall_forall. intros y Hy. apply Hc; [left; reflexivity | exact Hy].
  - apply IH; [exact Hr | exact H2|]. intros x y Hx Hy. apply Hc; [right; exact Hx | exact Hy].
Qed.

Lemma lord_nil d l : lord d l [].
Proof. split; constructor. Qed.
Lemma lord_one d l x : lprefix l (res_locn x) -> lord d l [x].
Proof. intros H. split; repeat constructor. exact H. Qed.
Lemma lord_app d l a b :
  lord d l a -> lord d l b -> (forall x y, In x a -> In y b -> rbefore d x y) -> lord d l (a ++ b).
Proof. intros [A1 A2] [B1 B2] Hc. split; [apply Forall_app; auto | apply fop_app; auto]. Qed.
Lemma lord_weaken d l l' xs : lprefix l l' -> lord d l' xs -> lord d l xs.
Proof.
  intros Hp [H1 H2]. split; [|exact H2]. eapply Forall_impl; [|exact H1]. intros x Hx. eapply lprefix_trans; eassumption.
Qed.

Lemma gord_gnil d l : gord d l gnil. Proof. apply lord_nil. Qed.
Lemma gord_gerr d l e : gord d l (gerr e). Proof. apply lord_nil. Qed.
Lemma gord_gone d l x : lprefix l (res_locn x) -> gord d l (gone x). Proof. apply lord_one. Qed.
Lemma gord_glift {A} d l (o : outcome A) k : (forall a, gord d l (k a)) -> gord d l (glift o k).
Proof. intros H. destruct o; cbn; auto; apply lord_nil. Qed.
Lemma gord_gfirst {A} d l (g : gen A) k : (forall o, gord d l (k o)) -> gord d l (gfirst g k).
Proof. intros H. destruct g as [[|x r] s]; cbn; auto. destruct s; auto; apply lord_nil. Qed.

Lemma fst_gapp_done {A} (la : list A) b : fst (gapp (la, Done) b) = la ++ fst (b tt).
Proof. cbn. destruct (b tt). reflexivity. Qed.

(* a loop over the children of n: child at position k + j for the j-th item *)
Lemma gord_gfor_pos {A} d l n (rf : A -> ref) (f : A -> gen rval) :
  lookup d l = Some n ->
  forall xs k,
  (forall j x, nth_error xs j = Some x -> ref_pos n (rf x) = Some (k + j)) ->
  (forall x, In x xs -> gord d (l ++ [rf x]) (f x)) ->
  gord d l (gfor xs f) /\
  Forall (fun res => exists x j, nth_error xs j = Some x /\ lprefix (l ++ [rf x]) (res_locn res)) (fst (gfor xs f)).
Proof.
  intros Hl. induction xs as [|x r IH]; intros k Hpos Hf; [split; [apply lord_nil | constructor]|].
  cbn [gfor].
  assert (Hx : gord d (l ++ [rf x]) (f x)) by (apply Hf; left; reflexivity).
  destruct (IH (S k)) as [Hr Hrx].
  { intros j y Hn. rewrite (Hpos (S j) y Hn). f_equal. lia. }
  { intros y Hy. apply Hf. right. exact Hy. }
  assert (Hx0 : Forall (fun res => exists y j, nth_error (x :: r) j = Some y /\ lprefix (l ++ [rf y]) (res_locn res)) (fst (f x))).
  { destruct Hx as [Hx1 _]. eapply Forall_impl; [|exact Hx1]. intros res Hres. exists x, 0. split; [reflexivity | exact Hres]. }
  destruct (f x) as [lx sx]. cbn [fst] in *.
  destruct sx; try (split; [eapply lord_weaken; [apply lprefix_snoc | exact Hx] | exact Hx0]).
  unfold gord in *. rewrite fst_gapp_done. cbv beta. cbn [fst] in Hx. split.
  - apply lord_app; [eapply lord_weaken; [apply lprefix_snoc | exact Hx] | exact Hr |].
    intros a b Ha Hb. destruct Hx as [Hx1 _]. rewrite Forall_forall in Hx1, Hrx.
    destruct (Hrx b Hb) as (y & j & Hn & Hp). unfold rbefore.
    apply (cross_before d l n (rf x) (rf y) (k + 0) (k + S j) _ _ Hl (Hpos 0 x eq_refl) (Hpos (S j) y Hn)); [lia | apply Hx1; exact Ha | exact Hp].
  - apply Forall_app. split; [exact Hx0|]. eapply Forall_impl; [|exact Hrx].
    intros res (y & j & Hn & Hp). exists y, (S j). split; [exact Hn | exact Hp].
Qed.

(* `for x in g: yield from K x` *)
Lemma lord_gfor_bind d l K : forall xs,
  lord d l xs -> (forall x, In x xs -> gord d (res_locn x) (K x)) ->
  lord d l (fst (gfor xs K)) /\
  Forall (fun res => exists x, In x xs /\ lprefix (res_locn x) (res_locn res)) (fst (gfor xs K)).
Proof.
  induction xs as [|x r IH]; intros Hxs HK; [split; [apply lord_nil | constructor]|].
  destruct Hxs as [Hpf Ho]. inversion Hpf as [|? ? Hpx Hpr]; subst. inversion Ho as [|? ? Hox Hor]; subst.
  destruct (IH (conj Hpr Hor) (fun y Hy => HK y (or_intror Hy))) as [Hr Hrx].
  pose proof (HK x (or_introl eq_refl)) as Hx.
  assert (Hx0 : Forall (fun res => exists y, In y (x :: r) /\ lprefix (res_locn y) (res_locn res)) (fst (K x))).
  { destruct Hx as [Hx1 _]. eapply Forall_impl; [|exact Hx1]. intros res Hres. exists x. split; [left; reflexivity | exact Hres]. }
  cbn [gfor]. destruct (K x) as [lx sx]. cbn [fst] in *.
  destruct sx; try (split; [eapply lord_weaken; [exact Hpx | exact Hx] | exact Hx0]).
  unfold gord in *. rewrite fst_gapp_done. cbv beta. cbn [fst] in Hx. split.
  - apply lord_app; [eapply lord_weaken; [exact Hpx | exact Hx] | exact Hr |].
    intros a b Ha Hb. destruct Hx as [Hx1 _]. rewrite Forall_forall in Hx1, Hrx, Hox.
    destruct (Hrx b Hb) as (y & Hy & [t Et]). destruct (Hx1 a Ha) as [s Es]. unfold rbefore. rewrite Es, Et.
    apply before_ext. apply Hox. exact Hy.
  - apply Forall_app. split; [exact Hx0|]. eapply Forall_impl; [|exact Hrx].
    intros res (y & Hy & Hp). exists y. split; [right; exact Hy | exact Hp].
Qed.

Lemma gord_gbind d l g K :
  gord d l g -> (forall x, In x (fst g) -> gord d (res_locn x) (K x)) -> gord d l (gbind g K).
Proof.
  intros Hg HK. destruct (lord_gfor_bind d l K (fst g) Hg HK) as [H _].
  unfold gord, gbind. destruct (gfor (fst g) K) as [l2 []]; exact H.
Qed.

(* ---- locations of the yielded NodeCoords ---- *)
Lemma res_locn_step nd par rf path anc pr :
  res_locn (ncoords nd par rf path (anc ++ [pr])) = anc_loc anc ++ [anc_ref pr].
Proof. unfold res_locn, ncoords, anc_loc. rewrite map_app. reflexivity. Qed.

Lemma anc_ref_idx i els j : anc_ref (RNode (NSeq i els), PInt (Z.of_nat j)) = RIdx j.
Proof.
  cbn [anc_ref]. replace (Z.of_nat j <? 0)%Z with false by (symmetry; apply Z.ltb_ge; lia). rewrite Nat2Z.id. reflexivity.
Qed.

Lemma ctx_at_anc d l n c : ctx_at d l n c -> anc_loc (x_anc c) = l.
Proof.
  intros (Hl & _ & Hc). unfold ctx_core in Hc. injection Hc as _ _ _ ->.
  rewrite (walk_ctx_anc l root_ctx d n Hl). cbn [root_ctx x_anc app]. apply (wanc_loc l d n Hl).
Qed.

Lemma enum_from_nth (els : list node) : forall k j ie, nth_error (enumerate_from k (map RNode els)) j = Some ie ->
  exists e, ie = (k + j, RNode e) /\ nth_error els j = Some e.
Proof.
  induction els as [|e r IH]; intros k j ie H; [destruct j; discriminate H|].
  destruct j as [|j]; cbn [map enumerate_from nth_error] in H.
  - injection H as <-. exists e. rewrite Nat.add_0_r. auto.
  - destruct (IH (S k) j ie H) as [e' [-> Hn]]. exists e'. split; [f_equal; lia | exact Hn].
Qed.

(* the three loops *)
Lemma gord_map_loop d l i kvs c (f : node * node -> gen rval) :
  ctx_at d l (NMap i kvs) c ->
  (forall kv, In kv kvs -> gord d (l ++ [RKey (key_val (fst kv))]) (f kv)) -> gord d l (gfor kvs f).
Proof.
  intros Hc Hf. destruct Hc as (Hl & Hok & _). cbn [c02_doc_ok] in Hok. apply andb_prop in Hok. destruct Hok as [Hu _].
  apply (gord_gfor_pos d l (NMap i kvs) (fun kv => RKey (key_val (fst kv))) f Hl kvs 0); [|exact Hf].
  intros j kv Hn. cbn [ref_pos plus]. apply pair_pos_uniq; assumption.
Qed.

Lemma gord_set_loop d l i els c (f : node -> gen rval) :
  ctx_at d l (NSet i els) c ->
  (forall e, In e els -> gord d (l ++ [RMember (key_val e)]) (f e)) -> gord d l (gfor els f).
Proof.
  intros Hc Hf. destruct Hc as (Hl & Hok & _). cbn [c02_doc_ok] in Hok.
  apply (gord_gfor_pos d l (NSet i els) (fun e => RMember (key_val e)) f Hl els 0); [|exact Hf].
  intros j e Hn. cbn [ref_pos plus]. apply member_pos_uniq; assumption.
Qed.

Lemma gord_seq_loop d l i els c (f : nat * rval -> gen rval) :
  ctx_at d l (NSeq i els) c ->
  (forall j e, nth_error els j = Some e -> gord d (l ++ [RIdx j]) (f (j, RNode e))) ->
  gord d l (gfor (enumerate (map RNode els)) f).
Proof.
  intros Hc Hf. destruct Hc as (Hl & _ & _).
  apply (gord_gfor_pos d l (NSeq i els) (fun ie => RIdx (fst ie)) f Hl (enumerate (map RNode els)) 0).
  - intros j ie Hn. destruct (enum_from_nth els 0 j ie Hn) as [e [-> He]]. cbn [fst ref_pos plus].
    assert (Hj : j < List.length els) by (apply nth_error_Some; rewrite He; discriminate).
    apply Nat.ltb_lt in Hj. rewrite Hj. reflexivity.
  - intros ie Hin. apply In_nth_error in Hin. destruct Hin as [j Hn].
    destruct (enum_from_nth els 0 j ie Hn) as [e [-> He]]. cbn [fst plus]. apply Hf. exact He.
Qed.

Section Ord.
Variable lit : string -> outcome litres.
Variable re_search : string -> string -> outcome reres.
Variable nstr : node -> string.
Variable vstr : list rval -> string.
Variable kw_handler : bool -> keyword -> string -> rval -> ctx -> gen rval.
Variable creator : list pseg -> nat -> rval -> ctx -> gen rval.
Variable d : node.

Notation EV := (ev lit re_search nstr vstr kw_handler creator).

Ltac ostep :=
  match goal with
  | |- gord _ _ gnil => apply gord_gnil
  | |- gord _ _ (gerr _) => apply gord_gerr
  | |- gord _ _ (glift _ _) => apply gord_glift; intros
  | |- gord _ _ (gfirst _ _) => apply gord_gfirst; intros
  | |- gord _ _ (if ?b then _ else _) => destruct b eqn:?
  | |- gord _ _ (match ?x with _ => _ end) => destruct x eqn:?
  | |- gord _ _ (let '(_, _) := ?x in _) => destruct x eqn:?
  end.

(* a NodeCoords one link below the context, met at or below that very child *)
Ltac kid Hanc :=
  apply gord_gone; rewrite res_locn_step, Hanc; try rewrite anc_ref_idx;
  first [ apply lprefix_refl | apply lprefix_snoc ].

Lemma self_ord l n c : ctx_at d l n c -> gord d l (gone (ncoords (RNode n) (x_par c) (x_ref c) (x_tp c) (x_anc c))).
Proof. intros Hc. apply gord_gone. cbn [res_locn ncoords]. rewrite (ctx_at_anc d l n c Hc). apply lprefix_refl. Qed.

Lemma by_key_ord self k n c l :
  ctx_at d l n c ->
  (forall e c' l', ctx_at d l' e c' -> gord d l' (self (RNode e) c')) ->
  gord d l (by_key self (AStr k) (RNode n) c).
Proof.
  intros Hc Hself. pose proof (ctx_at_anc d l n c Hc) as Hanc. unfold by_key. cbn [attrs_str attr_val].
  destruct n as [i x|i kvs|i els|i els].
  - apply gord_gnil.
  - repeat ostep; kid Hanc.
  - cbn [elems]. destruct (py_int k) as [idx|].
    + repeat ostep; kid Hanc.
    + destruct (negb (x_tl c)); [apply gord_gnil|].
      apply (gord_seq_loop d l i els c _ Hc). intros j e He.
      apply (Hself e _ (l ++ [RIdx j])). apply (ctx_idx d l i els c j e _ Hc He).
  - repeat ostep; kid Hanc.
Qed.

Lemma by_index_ord a n c l : ctx_at d l n c -> gord d l (by_index a (RNode n) c).
Proof.
  intros Hc. pose proof (ctx_at_anc d l n c Hc) as Hanc. unfold by_index.
  destruct (str_in ":"%char (attrs_str a)).
  - destruct (split_colon (attrs_str a)) as [lo hi].
    destruct n as [i x|i kvs|i els|i els].
    + apply gord_gnil.
    + apply (gord_map_loop d l i kvs c _ Hc). intros kv Hkv. repeat ostep; kid Hanc.
    + cbn [elems]. repeat ostep; kid Hanc.
    + apply (gord_set_loop d l i els c _ Hc). intros e He. repeat ostep; kid Hanc.
  - destruct (py_int (attrs_str a)) as [idx|]; [|apply gord_gerr].
    destruct n as [i x|i kvs|i els|i els]; cbn [is_pylist]; try apply gord_gnil; try apply gord_gerr.
    cbn [elems]. repeat ostep; kid Hanc.
Qed.

Lemma match_all_unfiltered_ord n c l : ctx_at d l n c -> gord d l (match_all_unfiltered (RNode n) c).
Proof.
  intros Hc. pose proof (ctx_at_anc d l n c Hc) as Hanc. unfold match_all_unfiltered.
  destruct n as [i x|i kvs|i els|i els].
  - apply gord_gnil.
  - apply (gord_map_loop d l i kvs c _ Hc). intros kv Hkv. kid Hanc.
  - cbn [elems]. apply (gord_seq_loop d l i els c _ Hc). intros j e He. kid Hanc.
  - apply (gord_set_loop d l i els c _ Hc). intros e He. kid Hanc.
Qed.

Lemma match_all_filtered_ord sg n c l : ctx_at d l n c -> gord d l (match_all_filtered sg (RNode n) c).
Proof.
  intros Hc. pose proof (ctx_at_anc d l n c Hc) as Hanc. unfold match_all_filtered.
  destruct n as [i x|i kvs|i els|i els].
  - apply gord_gnil.
  - apply (gord_map_loop d l i kvs c _ Hc). intros kv Hkv. repeat ostep; kid Hanc.
  - cbn [elems]. apply (gord_seq_loop d l i els c _ Hc). intros j e He. repeat ostep; kid Hanc.
  - apply (gord_set_loop d l i els c _ Hc). intros e He. repeat ostep; kid Hanc.
Qed.

Lemma hash_desc_scan_ord l m term inv items st matches k :
  (forall b, gord d l (k b)) -> gord d l (hash_desc_scan lit re_search nstr vstr m term inv items st matches k).
Proof.
  intros Hk. revert matches. induction items as [|x r IH]; intros matches; cbn.
  - destruct st; auto; apply lord_nil.
  - repeat ostep; auto.
Qed.

Lemma by_search_ord rq inv m attr term n c l :
  ctx_at d l n c -> gord d l (by_search lit re_search nstr vstr rq inv m attr term (RNode n) c).
Proof.
  intros Hc. pose proof (ctx_at_anc d l n c Hc) as Hanc. pose proof (self_ord l n c Hc) as Hself. unfold by_search.
  destruct n as [i x|i kvs|i els|i els].
  - repeat ostep; auto.
  - destruct (String.eqb attr ".").
    + apply (gord_map_loop d l i kvs c _ Hc). intros kv Hkv. repeat ostep; kid Hanc.
    + destruct (assoc_key (PStr attr) kvs) eqn:E1.
      * repeat ostep; kid Hanc.
      * apply hash_desc_scan_ord. intros b. repeat ostep; auto.
  - destruct (negb (x_tl c)); [apply gord_gnil|]. cbn [elems].
    apply (gord_seq_loop d l i els c _ Hc). intros j e He. repeat ostep; kid Hanc.
  - apply (gord_set_loop d l i els c _ Hc). intros e He. repeat ostep; kid Hanc.
Qed.

(* `**` as the last segment *)
Lemma trav_last_ord sg : forall tf n c l, ctx_at d l n c -> gord d l (trav tf true sg (RNode n) c).
Proof.
  induction tf as [|tf IH]; intros n c l Hc; [apply lord_nil|].
  pose proof (ctx_at_anc d l n c Hc) as Hanc. cbn [trav].
  destruct n as [i x|i kvs|i els|i els].
  - apply (self_ord l _ c Hc).
  - apply (gord_map_loop d l i kvs c _ Hc). intros kv Hkv.
    apply (IH _ _ (l ++ [RKey (key_val (fst kv))])).
    apply (ctx_key d l i kvs c _ (snd kv) _ Hc).
    apply pair_assoc_uniq; [eapply ctx_at_map_ok; exact Hc | exact Hkv].
  - cbn [elems]. apply (gord_seq_loop d l i els c _ Hc). intros j e He.
    apply (IH _ _ (l ++ [RIdx j])). apply (ctx_idx d l i els c j e _ Hc He).
  - apply (gord_set_loop d l i els c _ Hc). intros e He. kid Hanc.
Qed.

Lemma trav_last_nth segs : forall i ps, trav_only_last segs = true -> nth_error segs i = Some ps ->
  is_trav ps = true -> (S i <? List.length segs) = false.
Proof.
  induction segs as [|a r IH]; intros i ps H Hn Ht; [destruct i; discriminate Hn|].
  destruct i as [|i]; cbn [nth_error] in Hn.
  - injection Hn as ->. destruct r as [|b r']; [reflexivity|].
    cbn [trav_only_last] in H. rewrite Ht in H. discriminate H.
  - destruct r as [|b r']; [destruct i; discriminate Hn|].
    cbn [trav_only_last] in H. apply andb_prop in H. destruct H as [_ H].
    specialize (IH i ps H Hn Ht). cbn [List.length] in *. exact IH.
Qed.

Lemma walk_ord sg rq segs i ps :
  nth_error segs i = Some ps ->
  c01_seg (seg_es ps) (seg_us ps) = true ->
  c02_seg_plain (seg_es ps) = true ->
  trav_only_last segs = true ->
  ((0 <? i) && is_ty TTraverse (fst (seg_es ps)) && is_ty TTraverse (seg_type_at segs (i - 1))) = false ->
  forall vf n c l, ctx_at d l n c ->
  gord d l (walk lit re_search nstr vstr kw_handler sg rq segs i vf (RNode n) c).
Proof.
  intros En Hok Hpl Htl Hrec. induction vf as [|vf IH]; intros n c l Hc; [apply lord_nil|].
  rewrite (walk_node lit re_search nstr vstr kw_handler _ _ _ _ _ _ _ _ En Hok Hrec).
  pose proof Hok as Hok'. unfold c01_seg in Hok'. apply andb_prop in Hok'. destruct Hok' as [Hty _].
  pose proof (trav_last_nth segs i ps Htl En) as Hlast. unfold is_trav in Hlast.
  destruct (seg_es ps) as [[[]|] a]; try discriminate.
  - apply (by_index_ord a n c l Hc).
  - destruct a; try discriminate. apply (by_key_ord _ s n c l Hc). intros e c' l' He. apply (IH e c' l' He).
  - destruct a; try discriminate. apply (by_search_ord _ _ _ _ _ n c l Hc).
  - rewrite (Hlast eq_refl). cbn [negb]. apply (trav_last_ord _ _ n c l Hc).
  - destruct (S i <? List.length segs); [apply (match_all_filtered_ord _ n c l Hc) | apply (match_all_unfiltered_ord n c l Hc)].
Qed.

Theorem ev_ord : forall pf segs i n c l,
  c01_segs c01_frag segs = true -> no_double_trav segs = true -> slices_last (skipn i segs) = true ->
  c02_path_plain segs = true -> trav_only_last segs = true ->
  ctx_at d l n c -> gord d l (EV pf MReq segs i (RNode n) c).
Proof.
  induction pf as [|pf IH]; intros segs i n c l Hfr Hnd Hsl Hpl Htl Hc; [apply lord_nil|].
  rewrite ev_req_unfold.
  destruct (nth_error segs i) as [ps|] eqn:En.
  2: { rewrite (nth_none_ltb _ _ En). apply (self_ord l n c Hc). }
  rewrite (nth_some_ltb _ _ _ En).
  destruct (c01_nth _ _ _ Hfr En) as [Hok _].
  pose proof (no_double_nth _ _ _ Hnd En) as Hrec.
  pose proof (plain_nth _ _ _ Hpl En) as Hp1.
  rewrite (skipn_nth_cons _ _ _ En) in Hsl.
  assert (Hc' : ctx_at d l n (set_tl true c)).
  { destruct Hc as (H1 & H2 & H3). split; [exact H1|]. split; [exact H2 | exact H3]. }
  pose proof (walk_at lit re_search nstr vstr kw_handler d (EV pf MSeg segs (S i)) (RQP lit re_search nstr vstr kw_handler creator pf)
                segs i ps En Hok Hp1 Hrec (S (vsize (RNode n))) n _ l Hc') as Hat.
  apply gord_gbind.
  - unfold WALK. apply (walk_ord _ _ segs i ps En Hok Hp1 Htl Hrec _ n _ l Hc').
  - intros x Hx. unfold gall, WALK in Hat. rewrite Forall_forall in Hat. specialize (Hat x Hx). unfold KREQ.
    destruct x as [m|lx|nd par rf path anc]; try contradiction.
    destruct nd as [m|lx|]; try contradiction; cbn [is_pylist].
    + assert (Hx' : res_at true d (RCoords (RNode m) par rf path anc)) by exact Hat.
      destruct (res_at_ctx d _ _ _ _ _ Hx') as [l' Hcm].
      pose proof (ctx_at_anc d l' m _ Hcm) as Ea. cbn [x_anc] in Ea. cbn [res_locn]. rewrite Ea.
      apply (IH segs (S i) m _ l'); auto.
      cbn [slices_last] in Hsl. destruct (skipn (S i) segs) eqn:Es; [reflexivity|].
      apply andb_prop in Hsl. apply Hsl.
    + cbn [res_at] in Hat. cbn [slices_last] in Hsl.
      destruct (skipn (S i) segs) eqn:Es.
      * destruct pf as [|pf']; [apply lord_nil|]. rewrite ev_req_unfold, has_next_last, Es. cbn [negb].
        apply gord_gone. apply lprefix_refl.
      * rewrite Hat in Hsl. discriminate.
Qed.

Theorem required_ordered segs :
  c02_doc_ok d = true ->
  c01_frag (PPath segs) = true -> slices_last segs = true -> c02_path_plain segs = true -> trav_only_last segs = true ->
  ForallOrdPairs (rbefore d) (fst (get_required lit re_search nstr vstr kw_handler creator (PPath segs) d)).
Proof.
  intros Hd Hfr Hsl Hpl Htl. rewrite c01_frag_ppath in Hfr. apply andb_prop in Hfr. destruct Hfr as [Hnd Hfr].
  assert (H : gord d [] (EV (fuel_for (PPath segs)) MReq segs 0 (RNode d) root_ctx)).
  { apply (ev_ord _ segs 0 d root_ctx []); auto. apply root_ctx_at. exact Hd. }
  unfold get_required. destruct H as [_ H].
  destruct (EV (fuel_for (PPath segs)) MReq segs 0 (RNode d) root_ctx) as [l s].
  assert (G : ForallOrdPairs (rbefore d) (fst (match (l, s) with ([], Done) => gerr (YPE Unmatched) | g => g end))).
  { destruct l as [|x l']; [destruct s; constructor | destruct s; exact H]. }
  destruct d as [i v|i kvs|i els|i els]; try exact G. destruct v; try exact G. constructor.
Qed.

End Ord.
