(* C02: "indexing the parent by the reference gives the very node returned" in
   the Doc.child form -- the corollary of C02_parentref (Proofs/EvalLocAll.v,
   [child_rel]) for documents whose mapping keys are pairwise unequal under
   Python == ([c02_doc_ok], true of every loaded document).  No guard on the
   query: anchors and indexes counted from the end are inside ([anc_ref]
   normalises a negative index against the parent's length). *)
From Coq Require Import List Ascii String ZArith NArith Bool Arith Lia.
From YP Require Import Outcome PyStr PyVal Doc Generated PathParser PathPrinter Searches Eval SpecC01
  EvalLocAll PathBuild ResolveEval SpecC02 PyValOrder EvalPathAt.
Import ListNotations.
Open Scope string_scope.
Open Scope nat_scope.

(* dict lookup does not tell == keys apart *)
Lemma assoc_key_resp a b : py_eq a b = true -> forall kvs, assoc_key a kvs = assoc_key b kvs.
Proof.
  intros E. induction kvs as [|[kn v] rest IH]; [reflexivity|]. cbn [assoc_key].
  destruct kn as [i x| | |]; try exact IH.
  destruct (py_eq x a) eqn:Ea.
  - rewrite (py_eq_trans _ _ _ Ea E). reflexivity.
  - destruct (py_eq x b) eqn:Eb; [|exact IH].
    rewrite py_eq_sym in E. rewrite (py_eq_trans _ _ _ Eb E) in Ea. discriminate.
Qed.

Lemma keys_uniq_leaf : forall els m, c02_keys_uniq els = true -> In m els -> is_leaf m = true.
Proof.
  induction els as [|e r IH]; intros m Hu Hin; [contradiction|].
  destruct (keys_uniq_head _ _ Hu) as (Hl & _ & Hr). destruct Hin as [<-|Hin]; [exact Hl | apply IH; assumption].
Qed.

Lemma sel_element_nth els z m :
  sel_element els z = [m] ->
  nth_error els (Z.to_nat (if (z <? 0)%Z then (z + Z.of_nat (List.length els))%Z else z)) = Some m.
Proof.
  unfold sel_element. destruct (_ && _)%bool; [|discriminate].
  destruct (nth_error els _) as [e|]; [|discriminate]. intros H. injection H as ->. reflexivity.
Qed.

(* [child_rel] in the Doc.child form *)
Lemma child_rel_child p r m :
  c02_doc_ok p = true -> child_rel p r m ->
  match p with
  | NSet _ els => In m els
  | _ => child p (anc_ref (RNode p, r)) = Some m
  end.
Proof.
  intros Hok H. destruct p as [i v|i kvs|i els|i els]; cbn [child_rel] in H.
  - contradiction.
  - destruct H as (kv & Hin & <- & Hk). cbn [anc_ref child].
    cbn [c02_doc_ok] in Hok. apply andb_prop in Hok. destruct Hok as [Hu _].
    pose proof (pair_assoc_uniq kvs kv Hu Hin) as Ha.
    destruct Hk as [<-|Hk]; [exact Ha|]. rewrite <- (assoc_key_resp _ _ Hk). exact Ha.
  - destruct H as (z & -> & Hs). cbn [anc_ref child]. apply sel_element_nth. exact Hs.
  - exact H.
Qed.

Lemma child_rel_ok p r m : c02_doc_ok p = true -> child_rel p r m -> c02_doc_ok m = true.
Proof.
  intros Hok H. destruct p as [i v|i kvs|i els|i els]; cbn [child_rel] in H.
  - contradiction.
  - destruct H as (kv & Hin & <- & _). cbn [c02_doc_ok] in Hok. apply andb_prop in Hok. destruct Hok as [_ Hok].
    rewrite forallb_forall in Hok. apply Hok. exact Hin.
  - destruct H as (z & -> & Hs). apply sel_element_nth in Hs. cbn [c02_doc_ok] in Hok. rewrite forallb_forall in Hok.
    apply Hok. eapply nth_error_In. exact Hs.
  - cbn [c02_doc_ok] in Hok. pose proof (keys_uniq_leaf _ _ Hok H) as Hl. destruct m; try discriminate Hl. reflexivity.
Qed.

Lemma walks_ok d : c02_doc_ok d = true -> forall anc n, walks d anc n -> c02_doc_ok n = true.
Proof. intros Hd anc n H. induction H as [|anc p r m Hw IH Hc]; [exact Hd | eapply child_rel_ok; eassumption]. Qed.

Section ChildForm.
Variable lit : string -> outcome litres.
Variable re_search : string -> string -> outcome reres.
Variable nstr : node -> string.
Variable vstr : list rval -> string.
Variable kw_handler : bool -> keyword -> string -> rval -> ctx -> gen rval.
Variable creator : list pseg -> nat -> rval -> ctx -> gen rval.

Theorem required_parentref_child segs d m par r path anc :
  c02_doc_ok d = true ->
  c01_frag (PPath segs) = true -> slices_last segs = true ->
  In (RCoords (RNode m) (Some par) (Some r) path anc)
     (fst (get_required lit re_search nstr vstr kw_handler creator (PPath segs) d)) ->
  exists p, par = RNode p /\
    match p with
    | NSet _ els => In m els
    | _ => child p (anc_ref (par, r)) = Some m
    end.
Proof.
  intros Hd Hfr Hsl Hin.
  pose proof (required_located lit re_search nstr vstr kw_handler creator d _ segs eq_refl Hfr Hsl) as H.
  rewrite Forall_forall in H. specialize (H _ Hin). cbn in H. destruct H as [Hw H].
  destruct par as [p| |]; try contradiction. destruct H as [Hc (anc' & r' & Ea)].
  exists p. split; [reflexivity|].
  assert (Hp : c02_doc_ok p = true).
  { subst anc. inversion Hw as [E|anc0 p0 r0 m0 Hw0 Hc0 E1 E2].
    - symmetry in E. apply app_eq_nil in E. destruct E as [_ E]. discriminate E.
    - apply app_inj_tail in E1. destruct E1 as [_ E1]. injection E1 as -> _. eapply walks_ok; eassumption. }
  apply (child_rel_child p r m Hp Hc).
Qed.

(* under the guard of the path theorem the set member is found by the
   reference as well (the reference of a member reached by a key segment is the
   key text, equal to the member) *)
Lemma anc_ref_val p rr m : child p rr = Some m -> anc_ref (RNode p, ref_val rr) = rr.
Proof.
  intros Ec. destruct p as [i v|i kvs|i els|i els]; destruct rr as [k|j|k]; try discriminate Ec; cbn [anc_ref ref_val].
  - reflexivity.
  - replace (Z.of_nat j <? 0)%Z with false by (symmetry; apply Z.ltb_ge; lia). rewrite Nat2Z.id. reflexivity.
  - reflexivity.
Qed.

Lemma lookup_snoc_inv : forall l0 d rr m, lookup d (l0 ++ [rr])%list = Some m ->
  exists p, lookup d l0 = Some p /\ child p rr = Some m.
Proof.
  induction l0 as [|x rest IH]; intros d rr m H; cbn [app lookup] in *.
  - exists d. split; [reflexivity|]. destruct (child d rr); [exact H | discriminate H].
  - destruct (child d x) as [c|]; [apply IH; exact H | discriminate H].
Qed.

Theorem required_parentref_child_plain segs d m par r path anc :
  c02_doc_ok d = true ->
  c01_frag (PPath segs) = true -> slices_last segs = true -> c02_path_plain segs = true ->
  In (RCoords (RNode m) (Some par) (Some r) path anc)
     (fst (get_required lit re_search nstr vstr kw_handler creator (PPath segs) d)) ->
  exists p, par = RNode p /\ child p (anc_ref (par, r)) = Some m.
Proof.
  intros Hd Hfr Hsl Hpl Hin.
  destruct (reported_path_is_built lit re_search nstr vstr kw_handler creator segs d m _ _ path anc Hd Hfr Hsl Hpl Hin)
    as (Hl & _ & Hx).
  destruct (exists_last (l := anc_loc anc)) as (l0 & rr & El).
  - intros E. rewrite E in Hx. discriminate Hx.
  - rewrite El in Hl, Hx. destruct (lookup_snoc_inv l0 d rr m Hl) as (p & Hl0 & Hc).
    destruct (pb_coords_located d l0 rr p m Hl0 Hc) as (path' & anc0 & E & _).
    rewrite E in Hx. injection Hx as -> -> _ _. exists p. split; [reflexivity|].
    rewrite (anc_ref_val p rr m Hc). exact Hc.
Qed.

End ChildForm.
