(* C07: process_yaml_file's de-duplication and print_results' paths-only mode
   (Model/PathsPrint.v): the printed lines are exactly the texts of the search
   results of the accepted expressions, each text once. *)
From Coq Require Import List Ascii String ZArith NArith Bool Arith Lia.
From YP Require Import Outcome PyStr PyVal Doc Generated PathParser PathPrinter Searches PathsSearch PathsPrint.
Import ListNotations.

Lemma append_nil_r (s : string) : (s ++ "")%string = s.
Proof. induction s; simpl; congruence. Qed.

Definition differ (a b : pentry) : Prop :=
  exists ta tb, hit_str (snd a) = Ok ta /\ hit_str (snd b) = Ok tb /\ ta <> tb.
Definition same_text (h : hit) (e : pentry) : Prop :=
  exists t, hit_str h = Ok t /\ hit_str (snd e) = Ok t.

Lemma is_dup_spec h acc b x :
  is_dup h acc = Ok b ->
  (b = false -> forall e, In e acc -> differ e (x, h)) /\
  (b = true -> exists e, In e acc /\ same_text h e).
Proof.
  revert b. induction acc as [|e acc IH]; intros b E; simpl in E.
  - inversion E; subst. split; [intros _ e []|discriminate].
  - destruct (hit_str h) as [t| |] eqn:Eh; simpl in E; try discriminate.
    destruct (hit_str (snd e)) as [te| |] eqn:Ee; simpl in E; try discriminate.
    destruct (String.eqb t te) eqn:Et.
    + inversion E; subst. apply String.eqb_eq in Et. subst te. split; [discriminate|].
      intros _. exists e. split; [left; auto|]. exists t. auto.
    + destruct (IH b E) as [I1 I2]. split.
      * intros Hb e' [<-|Hin]; auto. exists te, t. simpl. split; auto. split; auto.
        intros ->. rewrite String.eqb_refl in Et. discriminate.
      * intros Hb. destruct (I2 Hb) as [e' [Hin S]]. exists e'. split; [right; auto|auto].
Qed.

Lemma FOP_snoc {A} (R : A -> A -> Prop) l x :
  ForallOrdPairs R l -> (forall a, In a l -> R a x) -> ForallOrdPairs R (l ++ [x]).
Proof.
  induction 1 as [|a l Ha Hl IH]; intros H; simpl.
  - constructor; constructor.
  - constructor.
    + apply Forall_app. split; auto. constructor; auto. apply H. left; auto.
    + apply IH. intros b Hb. apply H. right; auto.
Qed.

Section Proofs.
Variable lit : string -> outcome litres.
Variable re_search : string -> string -> outcome reres.
Variable value_text : string -> outcome string.
Variable mt : mtable.
Variable sp : sep.
Variable o : opts.
Variable d : node.

(* h is a result of the accepted expression e of the list *)
Definition from (exprs : list string) (e : string) (h : hit) : Prop :=
  In e exprs /\ exists tm res, get_search_term e = Ok (Some tm) /\
                               search_doc lit re_search mt tm sp o d = Ok res /\ In h res.

Definition inv (P : string -> hit -> Prop) (acc : list pentry) : Prop :=
  ForallOrdPairs differ acc /\ (forall e, In e acc -> P (fst e) (snd e)).
Definition shown (h : hit) (acc : list pentry) : Prop :=
  exists e', In e' acc /\ (snd e' = h \/ same_text h e').

Lemma shown_incl h acc acc' : shown h acc -> incl acc acc' -> shown h acc'.
Proof. intros [e [H1 H2]] Hi. exists e. auto. Qed.

Lemma add_unique_inv P e acc h acc' :
  inv P acc -> P e h -> add_unique e acc h = Ok acc' ->
  inv P acc' /\ incl acc acc' /\ shown h acc'.
Proof.
  intros [HF HP] Hh E. unfold add_unique in E.
  destruct (is_dup h acc) as [b| |] eqn:Ed; simpl in E; try discriminate. inversion E; subst; clear E.
  destruct (is_dup_spec _ _ _ e Ed) as [I1 I2]. destruct b.
  - split. { split; auto. } split. { apply incl_refl. }
    destruct (I2 eq_refl) as [e' [Hin S]]. exists e'. auto.
  - split; [|split].
    + split.
      * apply FOP_snoc; auto.
      * intros e0 Hin. apply in_app_iff in Hin. destruct Hin as [Hin|[<-|[]]]; auto.
    + apply incl_appl, incl_refl.
    + exists (e, h). split; [apply in_or_app; right; left; auto|left; auto].
Qed.

Lemma fold_add_inv P e hs : forall acc acc',
  inv P acc -> (forall h, In h hs -> P e h) -> foldM (add_unique e) hs acc = Ok acc' ->
  inv P acc' /\ incl acc acc' /\ forall h, In h hs -> shown h acc'.
Proof.
  induction hs as [|h hs IH]; intros acc acc' Hi HP E; simpl in E.
  - inversion E; subst. split; auto. split; [apply incl_refl|intros h []].
  - destruct (add_unique e acc h) as [a1| |] eqn:Ea; simpl in E; try discriminate.
    destruct (add_unique_inv P e acc h a1 Hi (HP h (or_introl eq_refl)) Ea) as [I1 [Inc1 S1]].
    destruct (IH a1 acc' I1 (fun h0 H => HP h0 (or_intror H)) E) as [I2 [Inc2 S2]].
    split; auto. split; [eapply incl_tran; eauto|].
    intros h0 [<-|Hin]; auto. eapply shown_incl; eauto.
Qed.

Lemma collect_inv all : forall exprs acc bad r,
  incl exprs all -> inv (from all) acc ->
  collect lit re_search mt sp o d exprs acc bad = Ok r ->
  inv (from all) (fst r) /\ incl acc (fst r) /\
  forall e h, from exprs e h -> shown h (fst r).
Proof.
  induction exprs as [|e exprs IH]; intros acc bad r Hsub Hi E; simpl in E.
  - inversion E; subst; simpl. split; auto. split; [apply incl_refl|]. intros e h [[] _].
  - destruct (get_search_term e) as [[tm|]| |] eqn:Et; simpl in E; try discriminate.
    + destruct (search_doc lit re_search mt tm sp o d) as [hs| |] eqn:Es; simpl in E; try discriminate.
      destruct (foldM (add_unique e) hs acc) as [a1| |] eqn:Ef; simpl in E; try discriminate.
      destruct (fold_add_inv (from all) e hs acc a1 Hi) as [I1 [Inc1 S1]]; auto.
      { intros h Hin. split; [apply Hsub; left; auto|]. exists tm, hs. auto. }
      destruct (IH a1 bad r (fun x H => Hsub x (or_intror H)) I1 E) as [I2 [Inc2 S2]].
      split; auto. split; [eapply incl_tran; eauto|].
      intros e0 h [[<-|Hin] [tm0 [res [G [S Hh]]]]].
      * rewrite Et in G. inversion G; subst tm0. rewrite Es in S. inversion S; subst res.
        eapply shown_incl; eauto.
      * apply (S2 e0 h). split; auto. exists tm0, res. auto.
    + destruct (IH acc true r (fun x H => Hsub x (or_intror H)) Hi E) as [I2 [Inc2 S2]].
      split; auto. split; auto.
      intros e0 h [[<-|Hin] [tm0 [res [G [S Hh]]]]]; [rewrite Et in G; discriminate|].
      apply (S2 e0 h). split; auto. exists tm0, res. auto.
Qed.

Definition paths_only (fl : pflags) (nexprs : nat) : Prop :=
  pf_nofile fl = true /\ pf_noyamlpath fl = false /\ pf_values fl = false /\ pf_noescape fl = false /\
  (nexprs <= 1 \/ pf_noexpression fl = true).

Lemma print_line_paths_only fl n file idx e :
  paths_only fl n -> print_line value_text sp fl n file idx e = hit_str (snd e).
Proof.
  intros [H1 [H2 [H3 [H4 H5]]]]. unfold print_line. rewrite H1, H2, H3, H4. simpl.
  assert (Hx : (1 <? n) && negb (pf_noexpression fl) = false).
  { destruct H5 as [H5| ->]; [|apply andb_false_r]. destruct (1 <? n) eqn:E; auto. apply Nat.ltb_lt in E. lia. }
  rewrite Hx. simpl. destruct (hit_str (snd e)); simpl; auto. rewrite append_nil_r. reflexivity.
Qed.

Lemma mapM_Forall2 {A B} (f : A -> outcome B) l : forall r, mapM f l = Ok r -> Forall2 (fun a b => f a = Ok b) l r.
Proof.
  induction l as [|a l IH]; intros r E; simpl in E.
  - inversion E; constructor.
  - destruct (f a) as [b| |] eqn:Ea; simpl in E; try discriminate.
    destruct (mapM f l) as [bs| |] eqn:El; simpl in E; try discriminate. inversion E; subst. constructor; auto.
Qed.

Lemma Forall2_In_l {A B} (R : A -> B -> Prop) l r a : Forall2 R l r -> In a l -> exists b, In b r /\ R a b.
Proof. induction 1; intros []; subst; [eexists; split; [left; reflexivity|auto]|]. destruct (IHForall2 H1) as [b [H2 H3]]. exists b. split; [right; auto|auto]. Qed.
Lemma Forall2_In_r {A B} (R : A -> B -> Prop) l r b : Forall2 R l r -> In b r -> exists a, In a l /\ R a b.
Proof. induction 1; intros []; subst; [eexists; split; [left; reflexivity|auto]|]. destruct (IHForall2 H1) as [a [H2 H3]]. exists a. split; [right; auto|auto]. Qed.

Lemma FOP_NoDup acc lines :
  ForallOrdPairs differ acc -> Forall2 (fun e t => hit_str (snd e) = Ok t) acc lines -> NoDup lines.
Proof.
  intros HF H2. revert HF. induction H2 as [|e t acc lines He H2 IH]; intros HF; [constructor|].
  inversion HF; subst. constructor; auto.
  intros Hin. destruct (Forall2_In_r _ _ _ _ H2 Hin) as [e' [Hin' He']].
  rewrite Forall_forall in H1. destruct (H1 e' Hin') as [ta [tb [Ea [Eb Hne]]]]. congruence.
Qed.

(* paths-only mode: the printed lines are exactly the texts of the search
   results of the accepted expressions, each text once *)
Theorem print_exact fl exprs file idx lines bad :
  paths_only fl (List.length exprs) ->
  process_doc lit re_search value_text mt sp o d fl exprs file idx = Ok (lines, bad) ->
  (forall line, In line lines -> exists e h, from exprs e h /\ hit_str h = Ok line) /\
  (forall e h, from exprs e h -> exists line, In line lines /\ hit_str h = Ok line) /\
  NoDup lines.
Proof.
  intros Hp E. unfold process_doc in E.
  destruct (collect lit re_search mt sp o d exprs [] false) as [c| |] eqn:Ec; simpl in E; try discriminate.
  destruct (mapM (print_line value_text sp fl (List.length exprs) file idx) (fst c)) as [ls| |] eqn:Em; simpl in E; try discriminate.
  inversion E; subst; clear E.
  destruct (collect_inv exprs exprs [] false c (incl_refl _)) as [[HF HP] [_ HS]]; auto.
  { split; [constructor|intros e []]. }
  pose proof (mapM_Forall2 _ _ _ Em) as F2.
  assert (F2' : Forall2 (fun e t => hit_str (snd e) = Ok t) (fst c) lines).
  { clear -F2 Hp. induction F2; constructor; auto. rewrite print_line_paths_only in H; auto. }
  split; [|split].
  - intros line Hin. destruct (Forall2_In_r _ _ _ _ F2' Hin) as [e [He Ht]]. exists (fst e), (snd e). auto.
  - intros e h Hf. destruct (HS e h Hf) as [e' [Hin [<-|[t [E1 E2]]]]];
      destruct (Forall2_In_l _ _ _ _ F2' Hin) as [line [Hl Ht]]; exists line; split; auto. congruence.
  - eapply FOP_NoDup; eauto.
Qed.

End Proofs.
