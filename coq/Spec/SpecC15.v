(* C15 -- what "a query fails only with YAML Path errors" means for the
   evaluator's streams, and the fragment of prepared paths the full theorem is
   proved for. *)
From Coq Require Import List String Bool.
From YP Require Import Outcome PyStr PyVal Doc PathParser Eval.
Import ListNotations.

(* a stream that ends normally or with a YAMLPathException (family) *)
Definition clean_stop (s : stop) : Prop :=
  match s with Done => True | Err (YPE _) => True | _ => False end.
(* ... or at a change of the document reported by the [creator] parameter
   (optional queries on paths that do not exist yet) *)
Definition clean_or_mut (s : stop) : Prop :=
  match s with Done => True | Err (YPE _) => True | Mut _ _ => True | _ => False end.

(* segment types and attributes agree the way the parser pairs them; no
   collector segments *)
Definition seg_ok (es us : seg) : bool :=
  (match fst es with
   | Some TKey | Some TIndex | Some TMatchAll | Some TAnchor | Some TTraverse => true
   | Some TSearch => match snd es with ASearch _ _ _ _ => true | _ => false end
   | Some TKeywordSearch => match snd es with AKeyword _ _ _ => true | _ => false end
   | Some TCollector | None => false
   end)
  && negb (is_stype TCollector (fst us)).

Fixpoint frag_segs (in_frag : ppath -> bool) (l : list pseg) : bool :=
  match l with
  | [] => true
  | PSeg es us s s2 :: r => seg_ok es us && in_frag s && in_frag s2 && frag_segs in_frag r
  end.

(* the collector-free fragment: every (sub-)path parsed, or failed to parse
   with a YAMLPathException *)
Fixpoint in_fragment (p : ppath) : bool :=
  match p with
  | PFail (YPE _) => true
  | PFail _ => false
  | PPath segs =>
      (fix go (l : list pseg) : bool :=
         match l with
         | [] => true
         | PSeg es us s s2 :: r => seg_ok es us && in_fragment s && in_fragment s2 && go r
         end) segs
  end.
