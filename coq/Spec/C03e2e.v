(* C03 end to end - the declarative side of "set_value(path, value) changes
   exactly the nodes the path selects (and their aliases)" once the read side is
   the evaluator model and no longer an input.

   A LOCATION is a pair (identity of a container object of the document, child
   reference): what a NodeCoords carries as (parent, parentref).  [ce_holds d loc
   s]: the location holds the node the path semantics (Spec/SpecC01.v) selected.
   [ce_set_spec]: the document C03's specification describes after changing, one
   after the other, the children at a list of locations - per location the
   substitution of C03_set_exact (Spec/C03spec.v [subst (designated ..)] then
   [ksubst (kdesignated ..)]) with the one node make_new_node builds from the
   child found there.  No evaluator, no coordinates of the evaluator, no
   recurse() in here. *)
From Coq Require Import List String ZArith NArith Bool.
From YP Require Import Outcome PyStr PyVal Doc Searches Eval Mutate SpecC01 C03spec C04spec.
Import ListNotations.

(* ---- what every loaded document satisfies (harness/docenc.py encodes keys and
   set members as leaves; identities are small numbers; ruamel refuses duplicate
   keys; ruamel containers carry the anchor attribute; every container object
   sits at one place - aliased containers apart) ---- *)
Fixpoint ce_flat (d : node) : bool :=
  match d with
  | NLeaf _ _ => true
  | NMap _ kvs => forallb (fun kv => is_leaf (fst kv) && ce_flat (snd kv)) kvs
  | NSeq _ els => forallb ce_flat els
  | NSet _ els => forallb is_leaf els
  end.

(* the identities of the document's containers lie below the range Eval.v uses
   for the hashes the evaluator builds itself (Eval.copy_base) *)
Definition ce_small (d : node) : bool := forallb (fun o => N.ltb o copy_base) (coids d).

Definition ce_doc_ok (d : node) : bool :=
  wf_docb d && ce_flat d && ce_small d && mkeys_distinct d && wf_attr d.

(* every selected result is a node of the document (no virtual array-slice
   result, which designates no single node) *)
Definition ce_plain (l : list selres) : bool :=
  forallb (fun s => match s with SNode _ => true | _ => false end) l.

(* the location holds the selected node: indexing the container object that has
   identity o (Python style: key by ==, index from the end when negative) gives
   the very node object; the root has no parent; a set member is only said to be
   a member of that set *)
Definition ce_holds (d : node) (loc : option N * pyval) (s : selres) : Prop :=
  match s with
  | SNode m =>
      match fst loc with
      | None => m = d
      | Some o =>
          exists pn, find_obj o d = Some pn /\ node_oid pn = o /\
            match pn with
            | NSet _ els => In m els
            | _ => get_change pn (norm_ref pn (snd loc)) = ROk (Some m)
            end
      end
  | _ => False
  end.

(* the result's parent is a mapping or a sequence of the document (not the root, not a set) *)
Definition ce_elem_parent (x : rval) : bool :=
  match x with
  | RCoords _ (Some (RNode (NMap _ _))) _ _ _ | RCoords _ (Some (RNode (NSeq _ _))) _ _ _ => true
  | _ => false
  end.

Section SetSpec.
Variable lit : string -> outcome litres.
Variable fl : string -> outcome flres.

(* one location after the other; [None] = a location that names no child (then
   the specification says nothing) or a value the format cannot take *)
Fixpoint ce_set_spec (value : pyval) (fmt : vformat) (vo : N) (locs : list (option N * pyval)) (st : state)
  : option state :=
  match locs with
  | [] => Some st
  | (po, r) :: rest =>
      match po with
      | None => None
      | Some o =>
          match find_obj o (fst st) with
          | None => None
          | Some pn =>
              match get_change pn (norm_ref pn r) with
              | ROk (Some c) =>
                  match make_new_node lit fl (Some (node_info c)) value fmt (snd st) vo with
                  | ROk new =>
                      ce_set_spec value fmt vo rest
                        (ksubst (kdesignated (node_oid c)) new
                           (subst (designated o (norm_ref pn r) (node_oid c)) new (fst st)),
                         N.succ (snd st))
                  | RErr _ => None
                  end
              | _ => None
              end
          end
      end
  end.
End SetSpec.
