(* C19 -- the multi-file run of eyaml-rotate-keys, declaratively: what every
   command-line argument contributes when it is looked at ALONE, and the exit
   status as the fold over those contributions.  Nothing here mentions the
   loop `rotate_files`; the theorems of Properties/C19.v relate the two. *)
From Coq Require Import List Ascii String NArith Bool Arith.
From YP Require Import Outcome PyStr PyVal Doc Eyaml C19Spec C19DocSpec.
Import ListNotations.
Open Scope list_scope.
Import Ey.

(* `exit_state` is only ever ASSIGNED (2, 3), never reset: a file that is rotated
   without a failure (own status 0) leaves the carried value alone *)
Definition carry_exit (ex own : nat) : nat := match own with 0 => ex | _ => own end.

Definition with_exit (e : nat) (st : rstate) : rstate :=
  mkrs (r_doc st) (r_seen st) (r_changed st) e (r_next st) (r_folded st) (r_log st).

Section Files.
  Variable key : Type.
  Variables enc dec : key -> string -> option string.
  Variable layout : out_fmt -> string -> string.
  Variables oldk newk : key.

  Notation alone := (rotate_file key enc dec layout oldk newk).

  (* the status after one more argument, from the status before it and the
     rotation of that file on its own (fresh seen_anchors, file_changed, status 0) *)
  Definition status_step (ex : nat) (f : file_in) : nat :=
    match f with
    | FiNotFile => 2
    | FiUnloadable => 3
    | FiDoc d next folded =>
        match alone d next folded with
        | Ok st => carry_exit ex (r_exit st)
        | _ => ex
        end
    end.

  Definition status_from (ex : nat) (fs : list file_in) : nat := fold_left status_step fs ex.

  (* what the run holds for argument number j (0-based) of [fs] *)
  Definition file_alone (fs : list file_in) (j : nat) (f : file_in) (r : file_res) : Prop :=
    match f with
    | FiNotFile | FiUnloadable => r = FrSkipped
    | FiDoc d next folded =>
        exists st1, alone d next folded = Ok st1 /\
                    r = FrDone (with_exit (status_from 0 (firstn (S j) fs)) st1)
    end.

  (* the run ended inside argument number n: that file, on its own, ends the same way *)
  Definition stops_at (fs : list file_in) (n : nat) (e : outcome nat) : Prop :=
    exists d next folded, nth_error fs n = Some (FiDoc d next folded) /\
      match e with
      | Raise x => alone d next folded = Raise x
      | OutOfFuel => alone d next folded = OutOfFuel
      | Ok _ => False
      end.

  Definition run_spec (fs : list file_in) (o : run_out) : Prop :=
    List.length (ro_files o) <= List.length fs /\
    (forall j f r, nth_error fs j = Some f -> nth_error (ro_files o) j = Some r -> file_alone fs j f r) /\
    match ro_end o with
    | Ok e => List.length (ro_files o) = List.length fs /\ e = status_from 0 fs
    | e => stops_at fs (List.length (ro_files o)) e
    end.
  (* the F19a guard on a whole document: every secret of it has a plaintext that survives the protocol *)
  Definition secret_plain_ok (x : node) : bool :=
    match x with
    | NLeaf _ (PStr s) =>
        if is_eyaml_str s
        then match decrypt_eyaml key dec oldk (PStr s) with Ok (PStr p) => plain_ok p | _ => true end
        else true
    | _ => true
    end.
  Definition plain_guard (d : node) : bool := forallb secret_plain_ok (vnodes d).


  (* every entry of the log is one call of encrypt_eyaml under the new key that returned the value stored *)
  Definition log_ok (e : N * string * string) : Prop :=
    exists fmt, encrypt_eyaml key enc layout newk (snd (fst e)) fmt = Ok (snd e).

End Files.

(* the secrets of a document by position: what "once per anchored secret and once
   per unanchored secret position" counts *)
Definition secret_at (d : node) (l : loc) : bool :=
  match lookup d l with Some x => is_eyaml_node x | None => false end.

Definition anchor_at (d : node) (l : loc) : option string :=
  match lookup d l with Some x => anchor_name x | None => None end.

Definition secret_positions (d : node) : list loc := filter (secret_at d) (positions d).

Definition unanchored_secret_positions (d : node) : list loc :=
  filter (fun l => match anchor_at d l with None => true | Some _ => false end) (secret_positions d).

Fixpoint somes {A} (l : list (option A)) : list A :=
  match l with [] => [] | Some a :: r => a :: somes r | None :: r => somes r end.

Definition secret_anchor_names (d : node) : list string :=
  nodup string_dec (somes (map (anchor_at d) (secret_positions d))).

Definition expected_encryptions (d : node) : nat :=
  List.length (secret_anchor_names d) + List.length (unanchored_secret_positions d).
