(* C18 at the command line -- how main() of yaml-merge turns its arguments into the streams the
   multi-document drivers see, declaratively: every YAML_FILE in command-line order (then a
   waiting STDIN) is one stream - the documents it loads to, or [None] when it cannot be loaded;
   the first stream that yields documents supplies the left-hand documents, every later stream
   goes through MultiDoc.merge_docs (the model of C18); the FIRST non-zero exit state ends the
   run: 4 = the left-hand source did not load, 3 = a later source did not load (MultiDoc.merge_docs),
   11-14 / 31-32 / 41-42 = a failing step of the mode. *)
From Coq Require Import List String Bool Arith.
From YP Require Import Outcome PyStr Cli CliSpec CliMerge MergeConfig MultiDoc CliLibSpec CliMergeModes.
Import ListNotations.
Open Scope list_scope.

(* a source as a stream: the documents of the file, or None = not loadable *)
Definition src_stream (estr : nat) (s : source) : option (list nat) :=
  match get_doc_mergers estr s with MgOk ds => Some ds | _ => None end.

(* the loader either loads the source or reports a failure (no exception of an unforeseen class
   escapes Parsers.get_yaml_multidoc_data) *)
Definition src_clean (estr : nat) (s : source) : Prop :=
  forall c, get_doc_mergers estr s <> MgUncaught c.

Definition run_stream_step (merge2 : nat -> nat -> option ufam * nat) (mode : Cli.mdmode)
           (acc : list nat) (s : option (list nat)) : outcome (list nat * nat) :=
  match acc with
  | [] => match s with None => Ok ([], 4) | Some rs => Ok (rs, 0) end
  | _ => MultiDoc.merge_docs nat (lib_merge2 merge2) (Ok (lib_mode mode)) s acc
  end.

Fixpoint run_streams (merge2 : nat -> nat -> option ufam * nat) (mode : Cli.mdmode)
         (acc : list nat) (streams : list (option (list nat))) : outcome (list nat * nat) :=
  match streams with
  | [] => Ok (acc, 0)
  | s :: rest =>
      match run_stream_step merge2 mode acc s with
      | Ok (acc', 0) => run_streams merge2 mode acc' rest
      | other => other
      end
  end.

(* the streams of one invocation *)
Definition cli_streams (estr : nat) (a : merge_args) (tty : bool) (srcs : list source) (stdin_src : source)
  : list (option (list nat)) :=
  map (src_stream estr) srcs ++ (if stdin_waits_m a tty srcs then [src_stream estr stdin_src] else []).
