(* C15: what is left of the fragment once the parser's pairing guarantee
   (C14_segments_paired) is used: for a path PREPARED FROM A TEXT the demands
   "types and attributes agree" of in_fragment / in_fragment_kw follow from
   "no collector segment"; only that and the parse outcomes of the sub-paths
   remain. *)
From Coq Require Import List String Bool.
From YP Require Import Outcome PyStr PyVal Doc PathParser Eval SpecC15 Keywords EvalKw SpecC15kw.
Import ListNotations.

Definition seg_shape (es us : seg) : bool :=
  negb (is_stype TCollector (fst es)) && negb (is_stype TCollector (fst us)).

Definition seg_shape_kw (es us : seg) : bool := seg_shape es us.

Fixpoint shape_segs (sh : seg -> seg -> bool) (rec : ppath -> bool) (l : list pseg) : bool :=
  match l with
  | [] => true
  | PSeg es us s s2 :: r => sh es us && rec s && rec s2 && shape_segs sh rec r
  end.

(* collector-free: no COLLECTOR-typed segment in either parse, every
   (sub-)path parsed or failed to parse with a YAMLPathException *)
Fixpoint collector_free (p : ppath) : bool :=
  match p with
  | PFail (YPE _) => true
  | PFail _ => false
  | PPath segs =>
      (fix go (l : list pseg) : bool :=
         match l with
         | [] => true
         | PSeg es us s s2 :: r => seg_shape es us && collector_free s && collector_free s2 && go r
         end) segs
  end.

(* ... the same demand, stated with [seg_shape_kw] (which asked every keyword
   parameter text to split until finding F31 was repaired) *)
Fixpoint collector_free_kw (p : ppath) : bool :=
  match p with
  | PFail (YPE _) => true
  | PFail _ => false
  | PPath segs =>
      (fix go (l : list pseg) : bool :=
         match l with
         | [] => true
         | PSeg es us s s2 :: r => seg_shape_kw es us && collector_free_kw s && collector_free_kw s2 && go r
         end) segs
  end.
