(* C12, inversion clause: the candidate abstraction of Model/SearchCands.v
   extended from document nodes to EVERY data shape the evaluator hands to
   `_get_nodes_by_search` (Model/Eval.v [by_search]):

     RNode n             a node of the loaded document: [sc_cands_of] / [sc_items]
                         unchanged (the theorems about RNode are instances);
     RList l             a Python list the evaluator built (a slice `[0:2]`, the
                         result list of a Collector): `isinstance(data, list)`,
                         so the LIST loop runs over its elements -- which may be
                         document nodes, NodeCoords or nested lists;
     RCoords ..          a NodeCoords (not a list, dict or set): the last
                         branch, "check the passed data itself" -- one candidate,
                         compared through [haystack_of] (which reads the wrapped
                         node).

   and a reading of the candidates that does not stop at "a comparison raised":
   [sc_cmp] lists the outcome of the comparison of every candidate, [sc_scan]
   cuts that list at the first outcome that is not an answer (the loop stops
   there: candidates after it are never compared).

   Definitions only; proofs are in Proofs/SearchLinkData.v. *)
From Coq Require Import List Ascii String ZArith NArith Bool Arith.
From YP Require Import Outcome PyStr PyVal Doc Generated PathParser PathPrinter Searches SearchLoops Eval
  SearchCands.
Import ListNotations.
Open Scope string_scope.
Open Scope nat_scope.

Section CandsData.
Variable nstr : node -> string.
Variable vstr : list rval -> string.
Variable rq : rval -> ctx -> gen rval.

(* what one call of _get_nodes_by_search iterates over, for any data *)
Definition scd_cands_of (attr term : string) (v : rval) (c : ctx) : outcome sc_cands :=
  match v with
  | RNode n => sc_cands_of nstr vstr rq attr term n c
  | RCoords _ _ _ _ _ => Ok (SCSelf (sc_hay nstr vstr v))
  | RList l =>
      if negb (x_tl c) then Ok SCSkip
      else
        let is_aoh := forallb (fun e => is_pynone e || is_pydict e) l in
        do cs <- mapM (sc_list_cand nstr vstr rq v c is_aoh attr term) (enumerate l);
        Ok (SCList cs)
  end.

(* the NodeCoords under which candidate i is yielded *)
Definition scd_items (attr : string) (v : rval) (c : ctx) : list rval :=
  match v with
  | RNode n => sc_items attr n c
  | RCoords _ _ _ _ _ => [ncoords v (x_par c) (x_ref c) (x_tp c) (x_anc c)]
  | RList l =>
      if negb (x_tl c) then []
      else
        map (fun ie =>
               let zi := Z.of_nat (fst ie) in
               ncoords (snd ie) (Some v) (Some (PInt zi)) (tp_add (x_tp c) (idx_text zi))
                       (x_anc c ++ [(v, PInt zi)])%list)
            (enumerate l)
  end.

End CandsData.

Section Cmp.
Variable lit : string -> outcome litres.
Variable re_search : string -> string -> outcome reres.

(* the comparison of every candidate, in candidate order, whatever the
   inversion flag: an answer, or the exception it raises.  (A list element
   whose descendant search finds nothing answers "no match"; below a hash only
   the FIRST descendant node is listed: with the guard [sc_guard] there is at
   most one.) *)
Definition sc_cmp (m : smethod) (term : string) (cs : sc_cands) : list (outcome bool) :=
  match cs with
  | SCList l => map (list_elem_matches lit re_search true m term false) l
  | SCKeys l | SCSet l => map (sm lit re_search m term) l
  | SCAttr v | SCSelf v => [sm lit re_search m term v]
  | SCDesc [] => [Ok false]
  | SCDesc (d :: _) => [sm lit re_search m term d]
  | SCSkip => []
  end.

(* the answers before the first comparison that does not answer, and how the
   loop ends there *)
Fixpoint sc_scan (os : list (outcome bool)) : list bool * stop :=
  match os with
  | [] => ([], Done)
  | Ok b :: r => let '(bs, s) := sc_scan r in (b :: bs, s)
  | Raise e :: _ => ([], Err e)
  | OutOfFuel :: _ => ([], Fuel)
  end.

End Cmp.
