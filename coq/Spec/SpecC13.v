(* C13 -- what the search keywords select, by definition (multiset style,
   independent of the scanning order of the code).

   A collection is a list of members; a member carries an optional comparable
   value (None = nothing to compare: a null element, a record without the
   attribute or with a null attribute) and the coordinates under which it is
   yielded. *)
From Coq Require Import List String ZArith QArith Bool.
From YP Require Import Outcome PyStr PyVal Doc PathParser.
Import ListNotations.

(* ---- max / min: stated for any order [le] on comparable values ("w is at
   most v").  The orders used: numeric ([num_le key]: by numeric value) for
   collections of numbers, lexicographic on the text ([text_le]) for text. ---- *)
Section MembersBy.
Variable C : Type.                       (* coordinates *)
Definition member := (option pyval * C)%type.
Variable le : pyval -> pyval -> Prop.

(* v is greatest / least: no member's value exceeds / undercuts it *)
Definition is_max_by (v : pyval) (ms : list member) : Prop :=
  forall w c, In (Some w, c) ms -> le w v.
Definition is_min_by (v : pyval) (ms : list member) : Prop :=
  forall w c, In (Some w, c) ms -> le v w.

(* the members max / min return ... *)
Definition max_members_by (ms : list member) (c : C) : Prop :=
  exists v, In (Some v, c) ms /\ is_max_by v ms.
Definition min_members_by (ms : list member) (c : C) : Prop :=
  exists v, In (Some v, c) ms /\ is_min_by v ms.
(* ... and, inverted, exactly the others *)
Definition non_max_members_by (ms : list member) (c : C) : Prop :=
  exists ov, In (ov, c) ms /\ match ov with None => True | Some v => ~ is_max_by v ms end.
Definition non_min_members_by (ms : list member) (c : C) : Prop :=
  exists ov, In (ov, c) ms /\ match ov with None => True | Some v => ~ is_min_by v ms end.
End MembersBy.

(* numbers: by a numeric key *)
Definition num_le (key : pyval -> Q) (a b : pyval) : Prop := (key a <= key b)%Q.
(* text: lexicographic by code point *)
Definition text_le (a b : pyval) : Prop := str_leb (py_str a) (py_str b) = true.

Section Members.
Variable C : Type.
Variable key : pyval -> Q.
Definition is_max := is_max_by C (num_le key).
Definition is_min := is_min_by C (num_le key).
Definition max_members := max_members_by C (num_le key).
Definition min_members := min_members_by C (num_le key).
Definition non_max_members := non_max_members_by C (num_le key).
Definition non_min_members := non_min_members_by C (num_le key).
End Members.

(* unique / distinct: groups of equal values (Python ==: 1 == 1.0 == True;
   null == null).  A member is (value, coordinates); a record without the
   attribute is no member. *)
Section Groups.
Variable C : Type.
Definition vmember := (pyval * C)%type.
(* how many members carry a value equal to v *)
Definition occurrences (v : pyval) (ms : list vmember) : nat :=
  List.length (filter (fun m => py_eq (fst m) v) ms).
(* unique: the members whose value occurs once, in collection order *)
Definition once_members (ms : list vmember) : list C :=
  map snd (filter (fun m => Nat.eqb (occurrences (fst m) ms) 1) ms).
(* unique inverted: the members whose value occurs more than once *)
Definition repeated_member (ms : list vmember) (c : C) : Prop :=
  exists v, In (v, c) ms /\ 1 < occurrences v ms.
(* the members whose value equals v, in collection order *)
Definition group_of (v : pyval) (ms : list vmember) : list C :=
  map snd (filter (fun m => py_eq (fst m) v) ms).
(* first member of its group = no earlier member has an equal value; in
   order of first occurrence ([seen]: the values met so far) *)
Fixpoint first_members (seen : list pyval) (ms : list vmember) : list vmember :=
  match ms with
  | [] => []
  | (v, c) :: r =>
      if existsb (fun w => py_eq w v) seen then first_members seen r
      else (v, c) :: first_members (v :: seen) r
  end.
(* distinct *)
Definition firsts (seen : list pyval) (ms : list vmember) : list C := map snd (first_members seen ms).
(* unique inverted, in the order the members are yielded: group by group, the
   groups in order of first occurrence (as a set: [repeated_member]) *)
Definition repeated_grouped (ms : list vmember) : list C :=
  flat_map (fun m => if Nat.ltb 1 (occurrences (fst m) ms) then group_of (fst m) ms else [])
           (first_members [] ms).
End Groups.

(* has_child: the hashes having (inverted: lacking) the key *)
Definition has_key (n : node) (key : string) : bool :=
  match n with
  | NMap _ kvs => match assoc_key (PStr key) kvs with Some _ => true | None => false end
  | _ => false
  end.

(* the n-th ancestor of a location *)
Definition nth_ancestor (n : nat) (here : loc) : loc := firstn (List.length here - n) here.
