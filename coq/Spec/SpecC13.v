(* C13 -- what the search keywords select, by definition (multiset style,
   independent of the scanning order of the code).

   A collection is a list of members; a member carries an optional comparable
   value (None = nothing to compare: a null element, a record without the
   attribute or with a null attribute) and the coordinates under which it is
   yielded. *)
From Coq Require Import List String ZArith QArith Bool.
From YP Require Import Outcome PyStr PyVal Doc PathParser.
Import ListNotations.

Section Members.
Variable C : Type.                       (* coordinates *)
Definition member := (option pyval * C)%type.

(* numeric key of a comparable value *)
Variable key : pyval -> Q.

(* v is greatest / least: no member's value exceeds / undercuts it *)
Definition is_max (v : pyval) (ms : list member) : Prop :=
  forall w c, In (Some w, c) ms -> (key w <= key v)%Q.
Definition is_min (v : pyval) (ms : list member) : Prop :=
  forall w c, In (Some w, c) ms -> (key v <= key w)%Q.

(* the members max / min return ... *)
Definition max_members (ms : list member) (c : C) : Prop :=
  exists v, In (Some v, c) ms /\ is_max v ms.
Definition min_members (ms : list member) (c : C) : Prop :=
  exists v, In (Some v, c) ms /\ is_min v ms.
(* ... and, inverted, exactly the others *)
Definition non_max_members (ms : list member) (c : C) : Prop :=
  exists ov, In (ov, c) ms /\ match ov with None => True | Some v => ~ is_max v ms end.
Definition non_min_members (ms : list member) (c : C) : Prop :=
  exists ov, In (ov, c) ms /\ match ov with None => True | Some v => ~ is_min v ms end.
End Members.

(* unique / distinct: groups of equal values (Python ==: 1 == 1.0 == True) *)
Section Groups.
Variable C : Type.
Definition vmember := (pyval * C)%type.
Definition occurrences (v : pyval) (ms : list vmember) : nat :=
  List.length (filter (fun m => py_eq (fst m) v) ms).
(* first member of its group: no earlier member has an equal value *)
Fixpoint firsts (seen : list pyval) (ms : list vmember) : list C :=
  match ms with
  | [] => []
  | (v, c) :: r => if existsb (fun w => py_eq w v) seen then firsts seen r else c :: firsts (v :: seen) r
  end.
End Groups.

(* has_child: the hashes having (inverted: lacking) the key *)
Definition has_key (n : node) (key : string) : bool :=
  match n with
  | NMap _ kvs => match assoc_key (PStr key) kvs with Some _ => true | None => false end
  | _ => false
  end.

(* the n-th ancestor of a location *)
Definition nth_ancestor (n : nat) (here : loc) : loc := firstn (List.length here - n) here.
