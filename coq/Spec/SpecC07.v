(* C07 -- declarative specification of what yaml-paths must report.

   A document is walked by positions ([reach]); the reportable places are
   - value places: a scalar that is a mapping value or a sequence element,
   - key places:   a key of a mapping,
   - member places: a member of a set,
   each named by its location (Doc.loc).  A place satisfies the expression when
   Searches.search_matches says so, inverted or not ([satisfies]).  Nothing in
   this file mentions search_for_paths. *)
From Coq Require Import List Ascii String ZArith NArith Bool Arith.
From YP Require Import Outcome PyStr PyVal Doc Generated PathParser PathPrinter Searches PathsSearch.
Import ListNotations.

(* one step from a container to a child, by position *)
Inductive child_at : node -> ref -> node -> Prop :=
  | child_map : forall i kvs k v, In (k, v) kvs -> child_at (NMap i kvs) (key_ref k) v
  | child_seq : forall i els idx e, nth_error els idx = Some e -> child_at (NSeq i els) (RIdx idx) e.

(* walking a location down the tree *)
Inductive reach : node -> loc -> node -> Prop :=
  | reach_here : forall n, reach n [] n
  | reach_step : forall n r c l m, child_at n r c -> reach c l m -> reach n (r :: l) m.

(* a scalar that is a mapping value or a sequence element, at location l (the
   root itself is not a place: it has no parent to be reported in) *)
Definition value_place (d : node) (l : loc) (v : pyval) : Prop :=
  exists l0 p r i, l = (l0 ++ [r])%list /\ reach d l0 p /\ child_at p r (NLeaf i v).

Definition key_place (d : node) (l : loc) (k : pyval) : Prop :=
  exists l0 i kvs kn v,
    l = (l0 ++ [key_ref kn])%list /\ reach d l0 (NMap i kvs) /\ In (kn, v) kvs /\ key_val kn = k.

Definition member_place (d : node) (l : loc) (k : pyval) : Prop :=
  exists l0 i els m,
    l = (l0 ++ [member_ref m])%list /\ reach d l0 (NSet i els) /\ In m els /\ key_val m = k.

(* the leaf descendants of a node: the node itself when it is a scalar, the
   scalars reached through mappings and sequences, the members of sets so
   reached *)
Definition leaf_place (d : node) (l : loc) : Prop :=
  (exists i v, reach d l (NLeaf i v)) \/ (exists k, member_place d l k).

Definition prefix (p l : loc) : Prop := exists s, l = (p ++ s)%list.

(* no node of the document carries an anchor (hence no aliases either) *)
Fixpoint anchor_free (n : node) : bool :=
  match get_node_anchor n with
  | Some _ => false
  | None =>
      match n with
      | NLeaf _ _ => true
      | NMap _ kvs => forallb (fun kv => anchor_free (fst kv) && anchor_free (snd kv)) kvs
      | NSeq _ els => forallb anchor_free els
      | NSet _ els => forallb anchor_free els
      end
  end.

(* what the YAML loader guarantees: the keys of a mapping (members of a set)
   are pairwise different *)
Fixpoint nodup_keys (n : node) : Prop :=
  match n with
  | NLeaf _ _ => True
  | NMap _ kvs =>
      NoDup (map (fun kv => key_val (fst kv)) kvs) /\
      (fix all (l : list (node * node)) : Prop :=
         match l with [] => True | kv :: r => nodup_keys (snd kv) /\ all r end) kvs
  | NSeq _ els =>
      (fix all (l : list node) : Prop :=
         match l with [] => True | e :: r => nodup_keys e /\ all r end) els
  | NSet _ els => NoDup (map key_val els)
  end.

Section Spec.
Variable lit : string -> outcome litres.
Variable re_search : string -> string -> outcome reres.
Variable tm : terms.

(* the scalar satisfies the search expression *)
Definition satisfies (v : pyval) : Prop := term_matches lit re_search tm v = Ok true.

(* what a report may be for, under the key/value options *)
Definition justified (o : opts) (d : node) (h : hit) : Prop :=
  match h_kind h with
  | HValue => o_values o = true /\ exists v, value_place d (h_loc h) v /\ satisfies v
  | HKey => o_keys o = true /\ exists k, key_place d (h_loc h) k /\ satisfies k
  | HMember => exists k, member_place d (h_loc h) k /\ satisfies k
  | _ => False
  end.

(* a place that has to be reported *)
Definition wanted (o : opts) (d : node) (l : loc) : Prop :=
  (o_values o = true /\ exists v, value_place d l v /\ satisfies v)
  \/ (o_keys o = true /\ exists k, key_place d l k /\ satisfies k)
  \/ (exists k, member_place d l k /\ satisfies k).

End Spec.
