(* C07 -- declarative specification of what yaml-paths must report.

   A document is walked by positions ([reach]); the reportable places are
   - value places: a scalar that is a mapping value or a sequence element, or
                   the lone scalar a document consists of (at the root),
   - key places:   a key of a mapping,
   - member places: a member of a set,
   each named by its location (Doc.loc).  A place satisfies the expression when
   Searches.search_matches says so, inverted or not ([satisfies]).  Nothing in
   this file mentions search_for_paths. *)
From Coq Require Import List Ascii String ZArith NArith Bool Arith.
From YP Require Import Outcome PyStr PyVal Doc Generated PathParser PathPrinter Searches PathsSearch.
Import ListNotations.

(* one step from a container to a child, by position *)
Inductive child_at : node -> ref -> node -> Prop :=
  | child_map : forall i kvs k v, In (k, v) kvs -> child_at (NMap i kvs) (key_ref k) v
  | child_seq : forall i els idx e, nth_error els idx = Some e -> child_at (NSeq i els) (RIdx idx) e.

(* walking a location down the tree *)
Inductive reach : node -> loc -> node -> Prop :=
  | reach_here : forall n, reach n [] n
  | reach_step : forall n r c l m, child_at n r c -> reach c l m -> reach n (r :: l) m.

(* A null document is empty: it has no nodes (the library's Processor yields
   nothing for any path on it), hence no places. *)
Definition null_doc (d : node) : bool :=
  match d with NLeaf _ PNone => true | _ => false end.

(* the document itself when it is a lone scalar: the place at the root *)
Definition root_place (d : node) (l : loc) (s : node) : Prop :=
  l = [] /\ s = d /\ is_leaf d = true /\ null_doc d = false.

(* a scalar that is a mapping value or a sequence element, at location l, or
   the lone scalar a document consists of.  Places name the scalar NODE, not
   just its Python value: an anchored YAML boolean (ruamel's ScalarBoolean,
   Doc.is_sbool) has the Python value 1/0 but is searched as a Boolean
   (Searches.search_matches, C12). *)
Definition value_place (d : node) (l : loc) (s : node) : Prop :=
  (exists l0 p r, l = (l0 ++ [r])%list /\ reach d l0 p /\ child_at p r s /\ is_leaf s = true)
  \/ root_place d l s.

Definition key_place (d : node) (l : loc) (kn : node) : Prop :=
  exists l0 i kvs v,
    l = (l0 ++ [key_ref kn])%list /\ reach d l0 (NMap i kvs) /\ In (kn, v) kvs.

Definition member_place (d : node) (l : loc) (m : node) : Prop :=
  exists l0 i els,
    l = (l0 ++ [member_ref m])%list /\ reach d l0 (NSet i els) /\ In m els.

(* the leaf descendants of a node: the node itself when it is a scalar, the
   scalars reached through mappings and sequences, the members of sets so
   reached *)
Definition leaf_place (d : node) (l : loc) : Prop :=
  (exists i v, reach d l (NLeaf i v)) \/ (exists k, member_place d l k).

Definition prefix (p l : loc) : Prop := exists s, l = (p ++ s)%list.

(* no node of the document carries an anchor (hence no aliases either) *)
Fixpoint anchor_free (n : node) : bool :=
  match get_node_anchor n with
  | Some _ => false
  | None =>
      match n with
      | NLeaf _ _ => true
      | NMap _ kvs => forallb (fun kv => anchor_free (fst kv) && anchor_free (snd kv)) kvs
      | NSeq _ els => forallb anchor_free els
      | NSet _ els => forallb anchor_free els
      end
  end.

(* what the YAML loader guarantees: the keys of a mapping (members of a set)
   are pairwise different *)
Fixpoint nodup_keys (n : node) : Prop :=
  match n with
  | NLeaf _ _ => True
  | NMap _ kvs =>
      NoDup (map (fun kv => key_val (fst kv)) kvs) /\
      (fix all (l : list (node * node)) : Prop :=
         match l with [] => True | kv :: r => nodup_keys (snd kv) /\ all r end) kvs
  | NSeq _ els =>
      (fix all (l : list node) : Prop :=
         match l with [] => True | e :: r => nodup_keys e /\ all r end) els
  | NSet _ els => NoDup (map key_val els)
  end.

(* ---- alias-exclusion modes (documents WITH anchors) ----------------------

   An "aliased repeat of an anchored node" is an occurrence of an anchored node
   (key, value, element or set member) that is the SAME OBJECT (Doc.oid) as an
   occurrence earlier in document order.  [anc_occs n] lists, in document
   order (a key before its value, a node before its descendants), the
   anchored occurrences strictly inside n; [pre] always stands for the list of
   anchored occurrences that precede the point under consideration. *)
Definition self_occ (x : node) : list node :=
  match get_node_anchor x with Some _ => [x] | None => [] end.

Fixpoint anc_occs (n : node) : list node :=
  match n with
  | NLeaf _ _ => []
  | NSeq _ els => flat_map (fun e => self_occ e ++ anc_occs e)%list els
  | NMap _ kvs => flat_map (fun kv => self_occ (fst kv) ++ self_occ (snd kv) ++ anc_occs (snd kv))%list kvs
  | NSet _ els => flat_map self_occ els
  end.
Definition elem_occs (e : node) : list node := (self_occ e ++ anc_occs e)%list.
Definition entry_occs (kv : node * node) : list node :=
  (self_occ (fst kv) ++ self_occ (snd kv) ++ anc_occs (snd kv))%list.

Definition same_oid_in (pre : list node) (x : node) : bool :=
  existsb (fun y => N.eqb (node_oid y) (node_oid x)) pre.
Definition is_repeat (pre : list node) (x : node) : bool :=
  match get_node_anchor x with Some _ => same_oid_in pre x | None => false end.

(* anchor names and object identities go together: two anchored occurrences
   carry the same name exactly when they are the same object.  ("=>" fails when
   a document redefines an anchor name: known finding reused_anchor_name.) *)
Definition anchor_name_eqb (x y : node) : bool :=
  match get_node_anchor x, get_node_anchor y with
  | Some a, Some b => String.eqb a b
  | _, _ => false
  end.
Definition names_consistent (l : list node) : bool :=
  forallb (fun x => forallb (fun y => Bool.eqb (anchor_name_eqb x y) (N.eqb (node_oid x) (node_oid y))) l) l.

Section Visible.
Variable mt : mtable.
Variable o : opts.

(* the entry at position pos of the mapping object oi came through `<<:` and
   neither alias option is on *)
Definition merged_hidden (oi : N) (pos : nat) : Prop :=
  is_merged mt oi pos = true /\ o_kalias o = false /\ o_valias o = false.

Definition key_shown (pre : list node) (k : node) : Prop := o_kalias o = false -> is_repeat pre k = false.
Definition val_shown (pre : list node) (v : node) : Prop := o_valias o = false -> is_repeat pre v = false.

(* walking from n (preceded by pre) along l without passing a merged-in entry
   or an aliased repeat that the alias options exclude reaches m (preceded by pre') *)
Inductive vreach : list node -> node -> loc -> list node -> node -> Prop :=
  | vr_here : forall pre n, vreach pre n [] pre n
  | vr_elem : forall pre i els idx e l pre' m,
      nth_error els idx = Some e ->
      val_shown (pre ++ flat_map elem_occs (firstn idx els))%list e ->
      vreach ((pre ++ flat_map elem_occs (firstn idx els)) ++ self_occ e)%list e l pre' m ->
      vreach pre (NSeq i els) (RIdx idx :: l) pre' m
  | vr_entry : forall pre i kvs pos k v l pre' m,
      nth_error kvs pos = Some (k, v) ->
      ~ merged_hidden (oid i) pos ->
      key_shown (pre ++ flat_map entry_occs (firstn pos kvs))%list k ->
      val_shown ((pre ++ flat_map entry_occs (firstn pos kvs)) ++ self_occ k)%list v ->
      vreach (((pre ++ flat_map entry_occs (firstn pos kvs)) ++ self_occ k) ++ self_occ v)%list v l pre' m ->
      vreach pre (NMap i kvs) (key_ref k :: l) pre' m.

(* the last step: a scalar child s / a key kn / a set member of the container
   tgt (preceded by pre), itself not excluded *)
Definition vplace_val (pre : list node) (tgt : node) (r : ref) (s : node) : Prop :=
  (exists i els idx, tgt = NSeq i els /\ r = RIdx idx /\ nth_error els idx = Some s /\
                     val_shown (pre ++ flat_map elem_occs (firstn idx els))%list s)
  \/ (exists i kvs pos k, tgt = NMap i kvs /\ r = key_ref k /\ nth_error kvs pos = Some (k, s) /\
                          ~ merged_hidden (oid i) pos /\
                          key_shown (pre ++ flat_map entry_occs (firstn pos kvs))%list k /\
                          val_shown ((pre ++ flat_map entry_occs (firstn pos kvs)) ++ self_occ k)%list s).
Definition vplace_key (pre : list node) (tgt : node) (r : ref) (kn : node) : Prop :=
  exists i kvs pos v, tgt = NMap i kvs /\ r = key_ref kn /\ nth_error kvs pos = Some (kn, v) /\
                      ~ merged_hidden (oid i) pos /\
                      key_shown (pre ++ flat_map entry_occs (firstn pos kvs))%list kn.
Definition vplace_member (pre : list node) (tgt : node) (r : ref) (m : node) : Prop :=
  exists i els j, tgt = NSet i els /\ r = member_ref m /\ nth_error els j = Some m /\
                  key_shown (pre ++ flat_map self_occ (firstn j els))%list m.
End Visible.

(* a check along a container: item x at position pos, preceded by pre *)
Section AllAt.
  Context {A : Type}.
  Variable f : A -> list node.
  Variable chk : list node -> nat -> A -> bool.
  Fixpoint all_at (l : list A) (pos : nat) (pre : list node) : bool :=
    match l with
    | [] => true
    | x :: r => chk pre pos x && all_at r (S pos) (pre ++ f x)%list
    end.
End AllAt.

(* every occurrence in l is the same object as one in pre *)
Definition all_rep (pre : list node) (l : list node) : bool := forallb (same_oid_in pre) l.

Section Spec.
Variable lit : string -> outcome litres.
Variable re_search : string -> string -> outcome reres.
Variable tm : terms.

(* the scalar node satisfies the search expression: search_matches, inverted or
   not, on what the node is to Python (node_hay: a ScalarBoolean, or the value) *)
Definition satisfies (s : node) : Prop := term_matches lit re_search tm (node_hay s) = Ok true.

(* what a report may be for, under the key/value options *)
Definition justified (o : opts) (d : node) (h : hit) : Prop :=
  match h_kind h with
  | HValue => o_values o = true /\ exists v, value_place d (h_loc h) v /\ satisfies v
  | HKey => o_keys o = true /\ exists k, key_place d (h_loc h) k /\ satisfies k
  | HMember => exists k, member_place d (h_loc h) k /\ satisfies k
  | _ => False
  end.

(* a place that has to be reported *)
Definition wanted (o : opts) (d : node) (l : loc) : Prop :=
  (o_values o = true /\ exists v, value_place d l v /\ satisfies v)
  \/ (o_keys o = true /\ exists k, key_place d l k /\ satisfies k)
  \/ (exists k, member_place d l k /\ satisfies k).

Definition satisfiesb (s : node) : bool :=
  match term_matches lit re_search tm (node_hay s) with Ok true => true | _ => false end.

(* What the YAML loader guarantees about sharing (a well-formedness guard like
   nodup_keys, not a finding): an aliased repeat and a merged-in entry ARE the
   objects met before, so no anchored node occurs for the first time inside
   them.  It is asked only where the search relies on it: beneath an aliased
   value / element the options exclude.  (Inside a merged-in entry hidden by
   the options, beneath the value of an excluded aliased key, and beneath a
   matched key, the search records the anchors itself: record_anchors.) *)
Fixpoint shared_closed (mt : mtable) (o : opts) (n : node) (pre : list node) {struct n} : bool :=
  match n with
  | NSeq _ els =>
      all_at elem_occs
             (fun pre (_ : nat) e =>
                if negb (o_valias o) && is_repeat pre e then all_rep (pre ++ self_occ e) (anc_occs e)
                else shared_closed mt o e (pre ++ self_occ e)%list)
             els 0 pre
  | NMap i kvs =>
      all_at entry_occs
             (fun pre pos kv =>
                let pre2 := ((pre ++ self_occ (fst kv)) ++ self_occ (snd kv))%list in
                if skip_merged mt o (oid i) pos then true
                else if negb (o_kalias o) && is_repeat pre (fst kv) then true
                else if negb (o_valias o) && is_repeat (pre ++ self_occ (fst kv)) (snd kv)
                     then all_rep pre2 (anc_occs (snd kv))
                     else shared_closed mt o (snd kv) pre2)
             kvs 0 pre
  | _ => true
  end.

(* the same two notions restricted to what the alias options leave visible *)
Definition vplace (mt : mtable) (o : opts) (d : node) (l : loc)
           (what : list node -> node -> ref -> node -> Prop) (s : node) : Prop :=
  exists l0 r pre tgt, l = (l0 ++ [r])%list /\ vreach mt o [] d l0 pre tgt /\ what pre tgt r s.

Definition vjustified (mt : mtable) (o : opts) (d : node) (h : hit) : Prop :=
  match h_kind h with
  | HValue => o_values o = true /\
              exists s, (vplace mt o d (h_loc h) (vplace_val mt o) s \/ root_place d (h_loc h) s) /\
                        is_leaf s = true /\ satisfies s
  | HKey => o_keys o = true /\ exists k, vplace mt o d (h_loc h) (vplace_key mt o) k /\ satisfies k
  | HMember => exists m, vplace mt o d (h_loc h) (vplace_member o) m /\ satisfies m
  | _ => False
  end.

Definition vwanted (mt : mtable) (o : opts) (d : node) (l : loc) : Prop :=
  (o_values o = true /\ exists s, (vplace mt o d l (vplace_val mt o) s \/ root_place d l s) /\
                                  is_leaf s = true /\ satisfies s)
  \/ (o_keys o = true /\ exists k, vplace mt o d l (vplace_key mt o) k /\ satisfies k)
  \/ (exists m, vplace mt o d l (vplace_member o) m /\ satisfies m).

End Spec.

(* ==================================================================== *)
(* Document well-formedness from which [shared_closed] FOLLOWS (computable;
   evaluated by the harness on every encoded document, so it is tested on
   real loaded documents rather than assumed):
   - [same_oid_same_tree d]: two anchored occurrences that are one object
     (same oid) are the same tree - what "the loader shares the alias object"
     means for a rose tree that repeats a shared object at every place it is
     reachable;
   - [c07_keys_leaf d]: mapping keys and set members are scalars;
   Neither mentions the search options or the merge table: a merged-in entry
   hidden by the options is walked by record_anchors, so nothing is asked of
   it (the former third part [merged_closed], false for an inline merge
   source that first defines an anchor, is gone). *)
Definition opt_string_beq (a b : option string) : bool :=
  match a, b with
  | None, None => true
  | Some x, Some y => String.eqb x y
  | _, _ => false
  end.
Definition info_beq (i j : info) : bool :=
  N.eqb (oid i) (oid j) && opt_string_beq (anchor i) (anchor j) &&
  Bool.eqb (has_anchor_attr i) (has_anchor_attr j) && opt_string_beq (tag i) (tag j).
Definition pyval_beq (v w : pyval) : bool :=
  match v, w with
  | PNone, PNone => true
  | PBool a, PBool b => Bool.eqb a b
  | PInt a, PInt b => Z.eqb a b
  | PFloat (QArith_base.Qmake n d) r, PFloat (QArith_base.Qmake n' d') r' =>
      Z.eqb n n' && Pos.eqb d d' && String.eqb r r'
  | PStr a, PStr b => String.eqb a b
  | POther a, POther b => String.eqb a b
  | _, _ => false
  end.

Fixpoint node_beq (a b : node) {struct a} : bool :=
  match a, b with
  | NLeaf i v, NLeaf j w => info_beq i j && pyval_beq v w
  | NMap i kvs, NMap j kvs' =>
      info_beq i j &&
      (fix go (l l' : list (node * node)) {struct l} : bool :=
         match l, l' with
         | [], [] => true
         | kv :: r, kv' :: r' => node_beq (fst kv) (fst kv') && node_beq (snd kv) (snd kv') && go r r'
         | _, _ => false
         end) kvs kvs'
  | NSeq i els, NSeq j els' =>
      info_beq i j &&
      (fix go (l l' : list node) {struct l} : bool :=
         match l, l' with
         | [], [] => true
         | x :: r, y :: r' => node_beq x y && go r r'
         | _, _ => false
         end) els els'
  | NSet i els, NSet j els' =>
      info_beq i j &&
      (fix go (l l' : list node) {struct l} : bool :=
         match l, l' with
         | [], [] => true
         | x :: r, y :: r' => node_beq x y && go r r'
         | _, _ => false
         end) els els'
  | _, _ => false
  end.

Definition all_occs (d : node) : list node := (self_occ d ++ anc_occs d)%list.

Definition same_oid_same_tree (d : node) : bool :=
  let l := all_occs d in
  forallb (fun x => forallb (fun y => if N.eqb (node_oid x) (node_oid y) then node_beq x y else true) l) l.

Fixpoint c07_keys_leaf (n : node) : bool :=
  match n with
  | NLeaf _ _ => true
  | NMap _ kvs =>
      (fix go (l : list (node * node)) : bool :=
         match l with [] => true | kv :: r => is_leaf (fst kv) && c07_keys_leaf (snd kv) && go r end) kvs
  | NSeq _ els =>
      (fix go (l : list node) : bool := match l with [] => true | x :: r => c07_keys_leaf x && go r end) els
  | NSet _ els => forallb is_leaf els
  end.

Definition doc_wf (d : node) : bool :=
  same_oid_same_tree d && c07_keys_leaf d.
