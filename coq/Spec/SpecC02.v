(* C02 -- vocabulary of the "every reported path is the built path" theorems
   (Proofs/EvalPathAt.v, statements in Properties/C02.v).  No proofs here.

   [c02_doc_ok d]     what is true of every loaded document and the shared
                      document type does not enforce: in every mapping the keys
                      are scalars, pairwise unequal under Python ==; in every
                      set the members are scalars, pairwise unequal.
   [c02_path_plain]   the two situations in which a handler reports something
                      else than the text of the result's location, as a guard on
                      the QUERY: an [&anchor] segment (the handler reports the
                      anchor name: finding F27), an index counted from the end
                      ([-1] is reported as written, the location says [2]) -
                      and an integer-looking key that is not written the way
                      str(int) writes it ("01", "+1", " 1": the int() fallback of
                      _get_nodes_by_key finds the key 1 and reports the text as
                      written).
   [anc_loc anc]      the location of a result, read off its ancestry. *)
From Coq Require Import List Ascii String ZArith Bool.
From YP Require Import Outcome PyStr PyVal Doc PathParser Eval.
Import ListNotations.

Fixpoint c02_keys_uniq (ks : list node) : bool :=
  match ks with
  | [] => true
  | k :: r => is_leaf k && negb (existsb (fun k' => py_eq (key_val k) (key_val k')) r) && c02_keys_uniq r
  end.

Fixpoint c02_doc_ok (d : node) : bool :=
  match d with
  | NLeaf _ _ => true
  | NMap _ kvs => c02_keys_uniq (map fst kvs) && forallb (fun kv => c02_doc_ok (snd kv)) kvs
  | NSeq _ els => forallb c02_doc_ok els
  | NSet _ els => c02_keys_uniq els
  end.

Definition c02_seg_plain (es : seg) : bool :=
  match es with
  | (Some TAnchor, _) => false
  | (Some TIndex, AInt z) => (0 <=? z)%Z
  | (Some TKey, AStr k) =>
      match py_int k with
      | Some z => (0 <=? z)%Z && String.eqb k (str_of_Z z)
      | None => true
      end
  | _ => true
  end.

Definition c02_path_plain (segs : list pseg) : bool := forallb (fun ps => c02_seg_plain (seg_es ps)) segs.

(* the reference of one ancestry link (of a parent / parentref pair), by the
   type of the parent; an index counted from the end is normalised *)
Definition anc_ref (pr : rval * pyval) : ref :=
  match pr with
  | (RNode (NSeq _ els), PInt z) => RIdx (Z.to_nat (if (z <? 0)%Z then (z + Z.of_nat (List.length els))%Z else z))
  | (RNode (NSet _ _), r) => RMember r
  | (_, r) => RKey r
  end.
Definition anc_loc (anc : list (rval * pyval)) : loc := map anc_ref anc.
