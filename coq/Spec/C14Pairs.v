(* C14 / C15 -- the pairing of segment types and attributes that the parser
   guarantees for every text it accepts: no stored segment is untyped, a
   COLLECTOR-typed segment carries collector terms, a KEYWORD_SEARCH-typed one
   keyword terms, a SEARCH-typed one search terms.  (These are the segment
   shapes for which Processor._get_nodes_by_path_segment has a handler; any
   other shape ends in its `raise NotImplementedError`.) *)
From Coq Require Import List String Bool.
From YP Require Import Outcome PyStr PathParser.
Import ListNotations.

Definition seg_paired (sg : seg) : bool :=
  match sg with
  | (None, _) => false
  | (Some TCollector, ACollector _ _) => true
  | (Some TCollector, _) => false
  | (Some TKeywordSearch, AKeyword _ _ _) => true
  | (Some TKeywordSearch, _) => false
  | (Some TSearch, ASearch _ _ _ _) => true
  | (Some TSearch, _) => false
  | (Some _, _) => true
  end.

Definition segs_paired (l : list seg) : bool := forallb seg_paired l.
