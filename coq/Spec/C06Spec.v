(* C06 -- specification vocabulary: what it means for a diff to be truthful,
   complete, and to account for every element.  Independent of the Differ
   model: only the shared document vocabulary (Doc.lookup, PyVal.py_eq) and
   the entry record are used. *)
From Coq Require Import List Ascii String ZArith NArith Bool Arith Permutation.
From YP Require Import Outcome PyStr PyVal Doc Diff.
Import ListNotations.

(* which sides of the two documents an entry speaks about *)
Definition has_left (e : entry) : bool :=
  match e_action e with ASame | AChange | ADelete => true | AAdd => false end.
Definition has_right (e : entry) : bool :=
  match e_action e with ASame | AChange | AAdd => true | ADelete => false end.

(* ---- documents that are real loaded Python data: a dict / set has unique
   keys, keys / members are plain (untagged) scalars, and a set carries no
   explicit tag (ruamel builds a CommentedSet only from `!!set`, whose tag it
   does not record: CommentedSet.tag.value is None) ---- *)
Definition plain_leaf (n : node) : bool :=
  match n with NLeaf i _ => match tag i with None => true | Some _ => false end | _ => false end.
Definition leaf_value (n : node) : pyval := match n with NLeaf _ v => v | _ => PNone end.

Fixpoint nodup_vals (vs : list pyval) : bool :=
  match vs with
  | [] => true
  | v :: r => negb (existsb (py_eq v) r) && nodup_vals r
  end.

Fixpoint wf_doc (n : node) : bool :=
  match n with
  | NLeaf _ _ => true
  | NMap _ kvs =>
      forallb (fun kv => plain_leaf (fst kv)) kvs && nodup_vals (map (fun kv => leaf_value (fst kv)) kvs)
      && (fix go (l : list (node * node)) : bool :=
            match l with [] => true | kv :: r => wf_doc (snd kv) && go r end) kvs
  | NSeq _ els =>
      (fix go (l : list node) : bool := match l with [] => true | x :: r => wf_doc x && go r end) els
  | NSet i els =>
      match tag i with None => true | Some _ => false end &&
      (forallb plain_leaf els && nodup_vals (map leaf_value els))
  end.

(* ---- equal as data: mapping key order is not data, sequence order is;
   tags are data; object identity, anchors are not.  A mapping with unique
   keys equals another iff they have the same size and every item of the
   first is an item of the second. ---- *)
Definition tag_eqb (a b : option string) : bool :=
  match a, b with
  | None, None => true
  | Some x, Some y => String.eqb x y
  | _, _ => false
  end.

Fixpoint data_eq (a b : node) {struct a} : bool :=
  match a, b with
  | NLeaf i v, NLeaf j w => tag_eqb (tag i) (tag j) && py_eq v w
  | NMap i kvs, NMap j kvs' =>
      tag_eqb (tag i) (tag j) && Nat.eqb (List.length kvs) (List.length kvs') &&
      (fix go (l : list (node * node)) : bool :=
         match l with
         | [] => true
         | kv :: r =>
             existsb (fun kv' => py_eq (leaf_value (fst kv)) (leaf_value (fst kv')) && data_eq (snd kv) (snd kv')) kvs'
             && go r
         end) kvs
  | NSeq i els, NSeq j els' =>
      tag_eqb (tag i) (tag j) &&
      (fix go (l l' : list node) {struct l} : bool :=
         match l, l' with
         | [], [] => true
         | x :: r, y :: r' => data_eq x y && go r r'
         | _, _ => false
         end) els els'
  | NSet i els, NSet j els' =>
      tag_eqb (tag i) (tag j) && Nat.eqb (List.length els) (List.length els') &&
      forallb (fun x => existsb (fun y => py_eq (leaf_value x) (leaf_value y)) els') els
  | _, _ => false
  end.

(* ---- leaves: the scalar values of a document (mapping keys are not leaves;
   set members are) ---- *)
Fixpoint leaves (n : node) : list node :=
  match n with
  | NLeaf _ _ => [n]
  | NMap _ kvs => flat_map (fun kv => leaves (snd kv)) kvs
  | NSeq _ els => flat_map leaves els
  | NSet _ els => els
  end.

Definition left_leaves (es : list entry) : list node :=
  flat_map (fun e => if has_left e then leaves (e_lhs e) else []) es.
Definition right_leaves (es : list entry) : list node :=
  flat_map (fun e => if has_right e then leaves (e_rhs e) else []) es.

(* ---- truthfulness of one entry about the two documents ---- *)
Definition truthful (L R : node) (e : entry) : Prop :=
  (has_left e = true -> lookup L (e_loc e) = Some (e_lhs e)) /\
  (has_right e = true -> lookup R (e_loc e) = Some (e_rhs e)).

Definition same_ok (e : entry) : Prop :=
  e_action e = ASame -> data_eq (e_lhs e) (e_rhs e) = true.
Definition change_ok (e : entry) : Prop :=
  e_action e = AChange -> data_eq (e_lhs e) (e_rhs e) = false.

(* child references denote the same child: mapping keys / set members are
   compared as Python compares keys (1, 1.0 and True are one key) *)
Definition ref_same (a b : ref) : Prop :=
  match a, b with
  | RKey x, RKey y => py_eq x y = true
  | RIdx i, RIdx j => i = j
  | RMember x, RMember y => py_eq x y = true
  | _, _ => False
  end.

Fixpoint is_prefix (p l : loc) : Prop :=
  match p, l with
  | [], _ => True
  | a :: p', b :: l' => ref_same a b /\ is_prefix p' l'
  | _ :: _, [] => False
  end.

(* every leaf of the document is covered by an entry (speaking about that
   side) at its location or at an ancestor location *)
Definition covers_left (L : node) (es : list entry) : Prop :=
  forall l i v, lookup L l = Some (NLeaf i v) ->
    exists e, In e es /\ has_left e = true /\ is_prefix (e_loc e) l.
Definition covers_right (R : node) (es : list entry) : Prop :=
  forall l i v, lookup R l = Some (NLeaf i v) ->
    exists e, In e es /\ has_right e = true /\ is_prefix (e_loc e) l.

(* ---- the one place where the (repaired) code still reports nothing for a
   null: a null DOCUMENT (the root) against a container that has content.
   Deliberate: Python None at the root is how an empty document arrives
   ("document vs nothing" lists only the other side's children; pinned by the
   CLI tests test_simple_diff_*_from_nothing / _into_nothing).  A null that has
   a parent is data and is deleted / added like any other scalar.
   [root_guard]: the two ROOTS are not such a pair. ---- *)
Definition is_null_leaf (n : node) : bool := match n with NLeaf _ PNone => true | _ => false end.

Definition has_content (n : node) : bool :=
  match n with
  | NLeaf _ _ => false
  | NMap _ kvs => match kvs with [] => false | _ => true end
  | NSeq _ els => match els with [] => false | _ => true end
  | NSet _ els => match els with [] => false | _ => true end
  end.

Definition clash_ok (a b : node) : Prop := ~ (is_null_leaf a = true /\ has_content b = true).
Definition clash_b (a b : node) : bool := negb (is_null_leaf a && has_content b).
Definition root_guard (L R : node) : bool := clash_b L R && clash_b R L.

(* the diff shows a difference *)
Definition shows_difference (es : list entry) : bool :=
  existsb (fun e => match e_action e with ASame => false | _ => true end) es.

Definition children (n : node) : list node :=
  match n with
  | NLeaf _ _ => []
  | NMap _ kvs => map snd kvs
  | NSeq _ els => els
  | NSet _ els => els
  end.

(* ---- "differ as data, sequence order disregarded in the synchronised
   modes": the equivalence a uniform pair of options (--arrays am, --aoh hm)
   is documented to decide.  How one pair of sequences is read depends, as
   documented, on the first element of the right-hand list (a list that
   starts with a hash is an Array-of-Hashes):
     LPos true   element by element, each pair compared recursively
     LPos false  element by element, each pair compared whole (--aoh position)
     LValue      as bags of whole elements (order disregarded)
     LKey d      as bags of records named by an identity key (--aoh key | deep) ---- *)
Fixpoint forall2b {A} (f : A -> A -> bool) (l l' : list A) : bool :=
  match l, l' with
  | [], [] => true
  | x :: r, y :: r' => f x y && forall2b f r r'
  | _, _ => false
  end.

(* multiset equality of two lists for an equivalence [eq]: every element of
   the first list strikes out one equal element of the second, none is left *)
Fixpoint remove_first {A} (f : A -> bool) (l : list A) : option (list A) :=
  match l with
  | [] => None
  | y :: r => if f y then Some r
              else match remove_first f r with Some r' => Some (y :: r') | None => None end
  end.
Fixpoint bag_eqb {A} (eq : A -> A -> bool) (l l' : list A) : bool :=
  match l with
  | [] => match l' with [] => true | _ => false end
  | x :: r => match remove_first (fun y => eq y x) l' with
              | Some l'' => bag_eqb eq r l''
              | None => false
              end
  end.

Inductive lmode := LPos (deep : bool) | LValue | LKey (deep : bool).
Definition list_mode (am : arr_opt) (hm : aoh_opt) (rels : list node) : lmode :=
  let plain := match am with ArrPosition => LPos true | ArrValue => LValue end in
  match rels with
  | NMap _ _ :: _ =>
      match hm with
      | AohPosition => match am with ArrPosition => LPos false | ArrValue => LValue end
      | AohDpos => plain
      | AohValue => LValue
      | AohKey => LKey false
      | AohDeep => LKey true
      end
  | _ => plain
  end.
Definition unkeyed (hm : aoh_opt) : bool := match hm with AohKey | AohDeep => false | _ => true end.

(* identity-key modes: the identity key of a list pair is the first key of the
   first right-hand record; a record's identity value is the plain (untagged)
   scalar it holds under that key *)
Definition first_key (els : list node) : option pyval :=
  match els with NMap _ ((k, _) :: _) :: _ => Some (leaf_value k) | _ => None end.
Definition id_val (K : pyval) (x : node) : option pyval :=
  match x with
  | NMap _ kvs =>
      match assoc_key K kvs with
      | Some (NLeaf i v) => match tag i with None => Some v | Some _ => None end
      | _ => None
      end
  | _ => None
  end.
Definition id_or_none (K : pyval) (x : node) : pyval :=
  match id_val K x with Some v => v | None => PNone end.
Definition same_id (K : pyval) (x y : node) : bool :=
  match id_val K x, id_val K y with Some u, Some v => py_eq u v | _, _ => false end.

Fixpoint equiv (am : arr_opt) (hm : aoh_opt) (a b : node) {struct a} : bool :=
  match a, b with
  | NMap i kvs, NMap j kvs' =>
      tag_eqb (tag i) (tag j) && Nat.eqb (List.length kvs) (List.length kvs') &&
      (fix go (l : list (node * node)) : bool :=
         match l with
         | [] => true
         | kv :: r =>
             existsb (fun kv' => py_eq (leaf_value (fst kv)) (leaf_value (fst kv'))
                                 && equiv am hm (snd kv) (snd kv')) kvs'
             && go r
         end) kvs
  | NSeq i els, NSeq j els' =>
      tag_eqb (tag i) (tag j) &&
      match list_mode am hm els' with
      | LPos true =>
          (fix go (l l' : list node) {struct l} : bool :=
             match l, l' with
             | [], [] => true
             | x :: r, y :: r' => equiv am hm x y && go r r'
             | _, _ => false
             end) els els'
      | LPos false => forall2b data_eq els els'
      | LValue => bag_eqb data_eq els els'
      | LKey d =>
          (* as many records, and every left record has a right record of the same
             identity that is equal (key) / equivalent (deep) *)
          match first_key els' with
          | Some K =>
              Nat.eqb (List.length els) (List.length els') &&
              (fix go (l : list node) : bool :=
                 match l with
                 | [] => true
                 | x :: r =>
                     existsb (fun y => same_id K x y && (if d then equiv am hm x y else data_eq x y)) els'
                     && go r
                 end) els
          | None => false
          end
      end
  | _, _ => data_eq a b
  end.

(* ---- guard of finding F4 (identity-key modes): every sequence pair the
   comparison reads by identity key is well keyed -- all elements of both
   lists are records holding a scalar under the identity key, with pairwise
   different identity values -- checked along the pairing the modes define
   (mapping values by key, positional lists by position, value-synchronised
   lists by equal elements, keyed lists by identity) ---- *)
Definition keyed_list (K : pyval) (els : list node) : bool :=
  forallb (fun x => match id_val K x with Some _ => true | None => false end) els &&
  nodup_vals (map (id_or_none K) els).

Fixpoint kguard (am : arr_opt) (hm : aoh_opt) (a b : node) {struct a} : bool :=
  match a, b with
  | NMap _ kvs, NMap _ kvs' =>
      (fix go (l : list (node * node)) : bool :=
         match l with
         | [] => true
         | kv :: r =>
             match assoc_key (leaf_value (fst kv)) kvs' with
             | Some w => kguard am hm (snd kv) w
             | None => true
             end && go r
         end) kvs
  | NSeq _ els, NSeq _ els' =>
      match list_mode am hm els' with
      | LPos true =>
          (fix go (l l' : list node) {struct l} : bool :=
             match l, l' with
             | x :: r, y :: r' => kguard am hm x y && go r r'
             | _, _ => true
             end) els els'
      | LPos false => true
      | LValue =>
          (fix go (l : list node) : bool :=
             match l with
             | [] => true
             | x :: r => forallb (fun y => if data_eq x y then kguard am hm x y else true) els' && go r
             end) els
      | LKey d =>
          match first_key els' with
          | Some K =>
              keyed_list K els && keyed_list K els' &&
              (if d then
                 (fix go (l : list node) : bool :=
                    match l with
                    | [] => true
                    | x :: r => forallb (fun y => if same_id K x y then kguard am hm x y else true) els' && go r
                    end) els
               else true)
          | None => false
          end
      end
  | _, _ => true
  end.

(* the configuration selects the same pair of modes at every list *)
Definition uniform (cfg : dcfg) (am : arr_opt) (hm : aoh_opt) : Prop :=
  (forall nc, array_diff_mode cfg nc = Ok am) /\ (forall nc, aoh_diff_mode cfg nc = Ok hm).

(* ==================================================================== *)
(* ARBITRARY resolved configurations ([rules] choose the modes per list,
   [keys] the identity keys per list / per record).

   The reading of one pair of sequences is chosen by the configuration's own
   lookup at the coordinates of the RIGHT-hand list (node, parent, parentref) -
   the three things DifferConfig._get_config_for compares.  [par] / [pref] are
   those coordinates, threaded exactly as the comparison passes them down: the
   right-hand container and the key / element index of the right-hand child (for
   an element of a positionally compared list its position, since the repair
   of the stale `idx` that used to be passed after `idx += 1`).  A lookup that raises
   (a mode name from_str rejects) gives no reading: the comparison raises too. *)
Definition cfg_list_mode (cfg : dcfg) (nc : coords) (rels : list node) : option lmode :=
  let arr (d : bool) :=
    match array_diff_mode cfg nc with
    | Ok ArrPosition => Some (LPos d)
    | Ok ArrValue => Some LValue
    | _ => None
    end in
  match rels with
  | NMap _ _ :: _ =>
      match aoh_diff_mode cfg nc with
      | Ok AohPosition => arr false
      | Ok AohDpos => arr true
      | Ok AohValue => Some LValue
      | Ok AohKey => Some (LKey false)
      | Ok AohDeep => Some (LKey true)
      | _ => None
      end
  | _ => arr true
  end.

(* identity keys in force: the list's key (configured for the first right-hand
   record or for the list, else that record's first key) and, per right-hand
   record, a key configured for that very record *)
Definition list_key (cfg : dcfg) (r : node) (rels : list node) : node :=
  match rels with
  | (NMap _ _ as r0) :: _ => fst (aoh_diff_key cfg (r0, Some r, PInt 0))
  | _ => NLeaf (mkinfo 0 None false None) (PStr EmptyString)
  end.
Definition rec_key (cfg : dcfg) (r : node) (K0 : node) (ri : nat) (re : node) : node :=
  let '(alt, is_user) := aoh_diff_key cfg (re, Some r, PInt (Z.of_nat ri)) in
  if is_user && py_truthy (leaf_value alt) then alt else K0.

(* what a record holds under a key *)
Definition field (K : node) (x : node) : option node :=
  match x with NMap _ kvs => assoc_key (leaf_value K) kvs | _ => None end.
Definition has_field (K : node) (x : node) : bool :=
  match field K x with Some _ => true | None => false end.

(* left record [x] and right record [p] (index, record) carry the same identity:
   [x] holds the list's key, and both hold equal data under the key in force for
   the right-hand record *)
Definition id_match (cfg : dcfg) (r : node) (K0 : node) (x : node) (p : nat * node) : bool :=
  has_field K0 x &&
  let K := rec_key cfg r K0 (fst p) (snd p) in
  match field K (snd p), field K x with
  | Some v, Some u => data_eq v u
  | _, _ => false
  end.

Fixpoint equiv_c (cfg : dcfg) (a b : node) (par : option node) (pref : pyval) {struct a} : bool :=
  match a, b with
  | NMap i kvs, NMap j kvs' =>
      tag_eqb (tag i) (tag j) && Nat.eqb (List.length kvs) (List.length kvs') &&
      (fix go (l : list (node * node)) : bool :=
         match l with
         | [] => true
         | kv :: r =>
             existsb (fun kv' => py_eq (leaf_value (fst kv)) (leaf_value (fst kv'))
                                 && equiv_c cfg (snd kv) (snd kv') (Some b) (leaf_value (fst kv'))) kvs'
             && go r
         end) kvs
  | NSeq i els, NSeq j els' =>
      tag_eqb (tag i) (tag j) &&
      match cfg_list_mode cfg (b, par, pref) els' with
      | Some (LPos true) =>
          (fix go (n : nat) (l l' : list node) {struct l} : bool :=
             match l, l' with
             | [], [] => true
             | x :: r, y :: r' => equiv_c cfg x y (Some b) (PInt (Z.of_nat n)) && go (S n) r r'
             | _, _ => false
             end) 0 els els'
      | Some (LPos false) => forall2b data_eq els els'
      | Some LValue => bag_eqb data_eq els els'
      | Some (LKey d) =>
          let K0 := list_key cfg b els' in
          Nat.eqb (List.length els) (List.length els') &&
          (fix go (l : list node) : bool :=
             match l with
             | [] => true
             | x :: r =>
                 existsb (fun p => id_match cfg b K0 x p &&
                                   (if d then equiv_c cfg x (snd p) (Some b) (PInt (Z.of_nat (fst p)))
                                    else data_eq x (snd p))) (enumerate els')
                 && go r
             end) els
      | None => forall2b data_eq els els'   (* the lookup raises: so does the comparison *)
      end
  | _, _ => data_eq a b
  end.

(* ---- guard of finding F4 for an arbitrary configuration.  At every pair of
   sequences the comparison reads by identity key:
   (1) every right-hand record holds the list's key and the key in force for it;
   (2) identities pair the records one to one: no left record matches two
       right-hand records, no right-hand record is matched by two left records
       (identity VALUES may be anything - scalars, sequences, mappings - they are
       compared as data);
   checked along the pairing the comparison makes: mapping values by key,
   positional lists by position, value-synchronised lists along the greedy
   strike-out (each left element with the first unused equal right element),
   keyed lists (deep) by identity. ---- *)
Definition at_most_one {A} (f : A -> bool) (l : list A) : bool :=
  Nat.leb (List.length (filter f l)) 1.

Definition keyed_pair (cfg : dcfg) (r : node) (els els' : list node) : bool :=
  let K0 := list_key cfg r els' in
  forallb (fun p => has_field K0 (snd p) && has_field (rec_key cfg r K0 (fst p) (snd p)) (snd p)) (enumerate els')
  && forallb (fun x => at_most_one (id_match cfg r K0 x) (enumerate els')) els
  && forallb (fun p => at_most_one (fun lx => id_match cfg r K0 (snd lx) p) (enumerate els)) (enumerate els').

Fixpoint kguard_c (cfg : dcfg) (a b : node) (par : option node) (pref : pyval) {struct a} : bool :=
  match a, b with
  | NMap _ kvs, NMap _ kvs' =>
      (fix go (l : list (node * node)) : bool :=
         match l with
         | [] => true
         | kv :: r =>
             forallb (fun kv' => if py_eq (leaf_value (fst kv)) (leaf_value (fst kv'))
                                 then kguard_c cfg (snd kv) (snd kv') (Some b) (leaf_value (fst kv'))
                                 else true) kvs'
             && go r
         end) kvs
  | NSeq _ els, NSeq _ els' =>
      match cfg_list_mode cfg (b, par, pref) els' with
      | Some (LPos true) =>
          (fix go (n : nat) (l l' : list node) {struct l} : bool :=
             match l, l' with
             | x :: r, y :: r' => kguard_c cfg x y (Some b) (PInt (Z.of_nat n)) && go (S n) r r'
             | _, _ => true
             end) 0 els els'
      | Some (LPos false) => true
      | Some LValue =>
          (fix go (l : list node) (red : list (nat * node)) {struct l} : bool :=
             match l with
             | [] => true
             | x :: r =>
                 match extract_first (fun p => data_eq (snd p) x) red with
                 | Some (p, red') => kguard_c cfg x (snd p) (Some b) (PInt (Z.of_nat (fst p))) && go r red'
                 | None => go r red
                 end
             end) els (enumerate els')
      | Some (LKey d) =>
          keyed_pair cfg b els els' &&
          (if d then
             let K0 := list_key cfg b els' in
             (fix go (l : list node) : bool :=
                match l with
                | [] => true
                | x :: r =>
                    forallb (fun p => if id_match cfg b K0 x p
                                      then kguard_c cfg x (snd p) (Some b) (PInt (Z.of_nat (fst p)))
                                      else true) (enumerate els')
                    && go r
                end) els
           else true)
      | None => true
      end
  | _, _ => true
  end.

(* the configuration never selects an identity-key mode *)
Definition nokey_cfg (cfg : dcfg) : Prop :=
  forall nc, aoh_diff_mode cfg nc <> Ok AohKey /\ aoh_diff_mode cfg nc <> Ok AohDeep.
