(* C06 -- specification vocabulary: what it means for a diff to be truthful,
   complete, and to account for every element.  Independent of the Differ
   model: only the shared document vocabulary (Doc.lookup, PyVal.py_eq) and
   the entry record are used. *)
From Coq Require Import List Ascii String ZArith NArith Bool Arith Permutation.
From YP Require Import Outcome PyStr PyVal Doc Diff.
Import ListNotations.

(* which sides of the two documents an entry speaks about *)
Definition has_left (e : entry) : bool :=
  match e_action e with ASame | AChange | ADelete => true | AAdd => false end.
Definition has_right (e : entry) : bool :=
  match e_action e with ASame | AChange | AAdd => true | ADelete => false end.

(* ---- documents that are real Python data: a dict / set has unique keys,
   and keys / members are plain (untagged) scalars ---- *)
Definition plain_leaf (n : node) : bool :=
  match n with NLeaf i _ => match tag i with None => true | Some _ => false end | _ => false end.
Definition leaf_value (n : node) : pyval := match n with NLeaf _ v => v | _ => PNone end.

Fixpoint nodup_vals (vs : list pyval) : bool :=
  match vs with
  | [] => true
  | v :: r => negb (existsb (py_eq v) r) && nodup_vals r
  end.

Fixpoint wf_doc (n : node) : bool :=
  match n with
  | NLeaf _ _ => true
  | NMap _ kvs =>
      forallb (fun kv => plain_leaf (fst kv)) kvs && nodup_vals (map (fun kv => leaf_value (fst kv)) kvs)
      && (fix go (l : list (node * node)) : bool :=
            match l with [] => true | kv :: r => wf_doc (snd kv) && go r end) kvs
  | NSeq _ els =>
      (fix go (l : list node) : bool := match l with [] => true | x :: r => wf_doc x && go r end) els
  | NSet _ els => forallb plain_leaf els && nodup_vals (map leaf_value els)
  end.

(* ---- equal as data: mapping key order is not data, sequence order is;
   tags are data; object identity, anchors are not.  A mapping with unique
   keys equals another iff they have the same size and every item of the
   first is an item of the second. ---- *)
Definition tag_eqb (a b : option string) : bool :=
  match a, b with
  | None, None => true
  | Some x, Some y => String.eqb x y
  | _, _ => false
  end.

Fixpoint data_eq (a b : node) {struct a} : bool :=
  match a, b with
  | NLeaf i v, NLeaf j w => tag_eqb (tag i) (tag j) && py_eq v w
  | NMap i kvs, NMap j kvs' =>
      tag_eqb (tag i) (tag j) && Nat.eqb (List.length kvs) (List.length kvs') &&
      (fix go (l : list (node * node)) : bool :=
         match l with
         | [] => true
         | kv :: r =>
             existsb (fun kv' => py_eq (leaf_value (fst kv)) (leaf_value (fst kv')) && data_eq (snd kv) (snd kv')) kvs'
             && go r
         end) kvs
  | NSeq i els, NSeq j els' =>
      tag_eqb (tag i) (tag j) &&
      (fix go (l l' : list node) {struct l} : bool :=
         match l, l' with
         | [], [] => true
         | x :: r, y :: r' => data_eq x y && go r r'
         | _, _ => false
         end) els els'
  | NSet i els, NSet j els' =>
      tag_eqb (tag i) (tag j) && Nat.eqb (List.length els) (List.length els') &&
      forallb (fun x => existsb (fun y => py_eq (leaf_value x) (leaf_value y)) els') els
  | _, _ => false
  end.

(* no explicit YAML tag anywhere (keys included) *)
Fixpoint untagged (n : node) : bool :=
  match tag (node_info n) with
  | Some _ => false
  | None =>
      match n with
      | NLeaf _ _ => true
      | NMap _ kvs =>
          (fix go (l : list (node * node)) : bool :=
             match l with [] => true | kv :: r => untagged (fst kv) && untagged (snd kv) && go r end) kvs
      | NSeq _ els => (fix go (l : list node) : bool := match l with [] => true | x :: r => untagged x && go r end) els
      | NSet _ els => (fix go (l : list node) : bool := match l with [] => true | x :: r => untagged x && go r end) els
      end
  end.

(* ---- leaves: the scalar values of a document (mapping keys are not leaves;
   set members are) ---- *)
Fixpoint leaves (n : node) : list node :=
  match n with
  | NLeaf _ _ => [n]
  | NMap _ kvs => flat_map (fun kv => leaves (snd kv)) kvs
  | NSeq _ els => flat_map leaves els
  | NSet _ els => els
  end.

Definition left_leaves (es : list entry) : list node :=
  flat_map (fun e => if has_left e then leaves (e_lhs e) else []) es.
Definition right_leaves (es : list entry) : list node :=
  flat_map (fun e => if has_right e then leaves (e_rhs e) else []) es.

(* ---- truthfulness of one entry about the two documents ---- *)
Definition truthful (L R : node) (e : entry) : Prop :=
  (has_left e = true -> lookup L (e_loc e) = Some (e_lhs e)) /\
  (has_right e = true -> lookup R (e_loc e) = Some (e_rhs e)).

Definition same_ok (e : entry) : Prop :=
  e_action e = ASame -> data_eq (e_lhs e) (e_rhs e) = true.
Definition change_ok (e : entry) : Prop :=
  e_action e = AChange -> data_eq (e_lhs e) (e_rhs e) = false.

(* child references denote the same child: mapping keys / set members are
   compared as Python compares keys (1, 1.0 and True are one key) *)
Definition ref_same (a b : ref) : Prop :=
  match a, b with
  | RKey x, RKey y => py_eq x y = true
  | RIdx i, RIdx j => i = j
  | RMember x, RMember y => py_eq x y = true
  | _, _ => False
  end.

Fixpoint is_prefix (p l : loc) : Prop :=
  match p, l with
  | [], _ => True
  | a :: p', b :: l' => ref_same a b /\ is_prefix p' l'
  | _ :: _, [] => False
  end.

(* every leaf of the document is covered by an entry (speaking about that
   side) at its location or at an ancestor location *)
Definition covers_left (L : node) (es : list entry) : Prop :=
  forall l i v, lookup L l = Some (NLeaf i v) ->
    exists e, In e es /\ has_left e = true /\ is_prefix (e_loc e) l.
Definition covers_right (R : node) (es : list entry) : Prop :=
  forall l i v, lookup R l = Some (NLeaf i v) ->
    exists e, In e es /\ has_right e = true /\ is_prefix (e_loc e) l.

(* ---- the one place where the (repaired) code still loses a leaf: a null
   scalar facing a container that has content (known finding).
   [faces_ok]: at no location do the two documents hold such a pair.
   [null_safe]: a computable sufficient condition, inherited by every pair of
   sub-documents: the first document has no null leaf, or the second is not a
   container with content. ---- *)
Definition is_null_leaf (n : node) : bool := match n with NLeaf _ PNone => true | _ => false end.
Definition has_null_leaf (n : node) : bool := existsb is_null_leaf (leaves n).

Definition has_content (n : node) : bool :=
  match n with
  | NLeaf _ _ => false
  | NMap _ kvs => match kvs with [] => false | _ => true end
  | NSeq _ els => match els with [] => false | _ => true end
  | NSet _ els => match els with [] => false | _ => true end
  end.

Definition clash_ok (a b : node) : Prop := ~ (is_null_leaf a = true /\ has_content b = true).

Definition faces_ok (L R : node) : Prop :=
  forall l a b, lookup L l = Some a -> lookup R l = Some b -> clash_ok a b /\ clash_ok b a.

Definition null_safe (a b : node) : bool := negb (has_null_leaf a && has_content b).

(* the diff shows a difference *)
Definition shows_difference (es : list entry) : bool :=
  existsb (fun e => match e_action e with ASame => false | _ => true end) es.
