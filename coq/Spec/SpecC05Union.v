(* C05 -- "hashes combine per key": the declarative vocabulary of the Hash
   union under hashes=deep.  The value at a key both Hashes have is "the
   policy-defined merge of the two values": the policy in force for the
   right-hand value decides (keep left / take right / combine), and combining
   is the merge of the two values themselves (a compositional statement: the
   nested merge is Merge.merge_rec / merge_sets on the two values). *)
From Coq Require Import List Ascii String ZArith NArith Bool.
From YP Require Import Outcome PyStr PyVal Doc PathParser Searches MergeConfig Merge SpecC05.
Import ListNotations.
Open Scope string_scope.
Open Scope list_scope.

(* well-formed items of a Hash (computable): keys are Scalars ... *)
Definition mg_keys_leaf (kvs : list (node * node)) : bool := forallb (fun kv => is_leaf (fst kv)) kvs.

(* ... and no two keys are equal (Python ==), as in every dict *)
Fixpoint mg_distinct_from (seen : list pyval) (kvs : list (node * node)) : bool :=
  match kvs with
  | [] => true
  | kv :: r =>
      let k := match fst kv with NLeaf _ k => k | _ => PNone end in
      negb (named seen k) && mg_distinct_from (seen ++ [k]) r
  end.
Definition mg_distinct (kvs : list (node * node)) : bool := mg_distinct_from [] kvs.

(* the key objects of the items whose key is among [ks], in order *)
Definition named_keys (ks : list pyval) (kvs : list (node * node)) : list node :=
  filter (fun kn => named ks (match kn with NLeaf _ k => k | _ => PNone end)) (map fst kvs).

(* the value at a key both Hashes have: [lv] on the left, [rv] on the right,
   [ro] the right-hand Hash object, [k] the key *)
Definition mg_common_value (lit : string -> outcome litres) (cfg : mconfig)
           (ro : N) (k : pyval) (lv rv : node) : outcome node :=
  let nc := mkcoord (node_oid rv) (Some ro) (Some k) in
  do sc <- dict_shortcut cfg rv nc;
  match sc with
  | KeepLeft => Ok lv
  | TakeRight => Ok rv
  | GoOn =>
      match rv with
      | NLeaf _ _ => Ok rv                                         (* right-hand scalars override *)
      | NSet _ _ => do m <- merge_sets cfg lv rv nc; Ok (set_tag (ret m) (node_tag rv))
      | _ => do m <- merge_rec lit cfg rv nc lv; Ok (set_tag m (node_tag rv))
      end
  end.

(* ---- UNIQUE, declaratively ---- *)
(* "Only RHS Array elements not already in LHS Arrays are appended": the
   right-hand elements that are new, in order.  [seen] holds what is already
   there (for plain Arrays in the merger's tagless form: Nodes.tagless_elements
   of the left Array, then the tagless form of every appended element); an
   element equal (Python ==) to one of them is not new. *)
Fixpoint mg_new_tagless (seen : list node) (rels : list node) : list node :=
  match rels with
  | [] => []
  | e :: r => if in_list (tagless e) seen then mg_new_tagless seen r
              else e :: mg_new_tagless (seen ++ [tagless e]) r
  end.

(* Arrays-of-Hashes: "RHS Hashes which do not already exist IN FULL within LHS":
   compared as they are (Python == on the records), against everything present *)
Fixpoint mg_new_full (present : list node) (rels : list node) : list node :=
  match rels with
  | [] => []
  | e :: r => if in_list e present then mg_new_full present r
              else e :: mg_new_full (present ++ [e]) r
  end.

(* a plain Array element under UNIQUE: it stays, or is replaced -- possibly
   several times -- by a right-hand element that matches it under the merger's
   comparison (the code rebuilds the Array with the right-hand object) *)
Inductive mg_chain (rels : list node) : node -> node -> Prop :=
  | mg_chain_refl : forall e, mg_chain rels e e
  | mg_chain_step : forall e e' e'', mg_chain rels e e' -> In e'' rels ->
                      elem_matches e' (tagless e'') = true -> mg_chain rels e e''.

(* ---- round 4 ---- *)
(* sets=UNIQUE, "Only RHS Set elements not already in LHS Sets are appended": the right-hand
   members that are new, in order.  [tl] = the left members in the merger's tagless form (as
   they were before the merge); [present] = the members the Set holds so far (the left ones,
   then every member appended before).  A member equal (tagless ==) to an original left member,
   or equal (==) to a member present, is not new. *)
Fixpoint mg_new_members (tl present : list node) (rels : list node) : list node :=
  match rels with
  | [] => []
  | e :: r => if in_list (tagless e) tl || in_list e present then mg_new_members tl present r
              else e :: mg_new_members tl (present ++ [e]) r
  end.

(* documents without TaggedScalars whose hash keys are Scalars (computable): on them Python's ==
   does not look at object identity *)
Fixpoint mg_plain (n : node) : bool :=
  match n with
  | NLeaf _ _ => negb (is_tagged_scalar n)
  | NMap _ kvs => forallb (fun kv => is_leaf (fst kv) && mg_plain (fst kv) && mg_plain (snd kv)) kvs
  | NSeq _ els => forallb mg_plain els
  | NSet _ els => forallb mg_plain els
  end.

(* one equality instead of a chain: the element standing in the result is the original one or a
   right-hand element equal to it *)
Definition mg_same_or_equal (rels : list node) (e x : node) : Prop :=
  x = e \/ (In x rels /\ node_eq e x = true).
