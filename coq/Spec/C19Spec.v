(* C19 -- declarative notions for "EYAML key rotation re-keys every secret once
   and touches nothing else". *)
From Coq Require Import List Ascii String NArith Bool.
From YP Require Import Outcome PyStr PyVal Doc Eyaml.
Import ListNotations.
Open Scope string_scope.
Import Ey.

(* "ignoring whitespace and line breaks, it begins with the marker":
   the marker's characters occur in order, separated by blanks / line breaks only *)
Inductive begins_ignoring_blanks : string -> string -> Prop :=
  | bib_done : forall s, begins_ignoring_blanks EmptyString s
  | bib_skip : forall m c s, is_blank c = true -> begins_ignoring_blanks m s ->
                             begins_ignoring_blanks m (String c s)
  | bib_match : forall m c s, is_blank c = false -> begins_ignoring_blanks m s ->
                              begins_ignoring_blanks (String c m) (String c s).

Definition marker : string := "ENC[".

(* does the document hold an encrypted value (where the tool looks: through hash
   values and list elements) *)
Fixpoint has_secret (n : node) : bool :=
  match n with
  | NLeaf _ v => is_eyaml_value v
  | NMap _ kvs => existsb (fun kv : node * node => has_secret (snd kv)) kvs
  | NSeq _ els => existsb has_secret els
  | NSet _ _ => false
  end.

(* the frame: everything but identities and the text of encrypted values *)
Inductive frame :=
  | FSecret (anchor : option string)
  | FLeaf (anchor : option string) (tag : option string) (v : pyval)
  | FMap (anchor : option string) (tag : option string) (kvs : list (frame * frame))
  | FSeq (anchor : option string) (tag : option string) (els : list frame)
  | FSet (anchor : option string) (tag : option string) (els : list frame).

Fixpoint frame_of (n : node) : frame :=
  match n with
  | NLeaf i v => if is_eyaml_value v then FSecret (anchor_name n) else FLeaf (anchor_name n) (tag i) v
  | NMap i kvs => FMap (anchor_name n) (tag i) (map (fun kv : node * node => (frame_of (fst kv), frame_of (snd kv))) kvs)
  | NSeq i els => FSeq (anchor_name n) (tag i) (map frame_of els)
  | NSet i els => FSet (anchor_name n) (tag i) (map frame_of els)
  end.

(* a plaintext the command line protocol can carry unharmed (known finding F19a
   is its complement): non-empty, ASCII, no trailing white space, not itself
   carrying the marker *)
Definition plain_ok (p : string) : bool :=
  negb (str_is_empty p) && is_ascii_str p && String.eqb (rstrip_py p) p && negb (is_eyaml_str p).

(* a ciphertext as the cipher produces it: marker first, ASCII, no white space *)
Definition cipher_ok (c : string) : bool :=
  starts_with marker c && is_ascii_str c && String.eqb (clean c) c && String.eqb (rstrip_py c) c.
