(* C09 (purity half) -- a query leaves the document as it was.  In the model
   the document is an immutable value; a statement of the evaluator that writes
   to a loaded object ends the stream with [Mut o k].  On the read paths there
   is none left: the `del ...node[key]` of _collector_subtraction (finding F16)
   now works on a shallow copy of the hash (fix 30ffde4); the node-creating
   branches of _get_optional_nodes (the parameter [creator]) are not reached by
   a required query.  Purity = no stream of a read ends in [Mut]. *)
From Coq Require Import List String Bool.
From YP Require Import Outcome PyStr PyVal Doc PathParser Eval.
Import ListNotations.

Definition pure_stop (s : stop) : Prop := match s with Mut _ _ => False | _ => True end.

(* a path that contains a subtraction collector at some nesting level (only
   used to show that the theorems cover such paths: non-vacuity Examples) *)
Definition is_sub_seg (es : seg) : bool :=
  match es with (Some TCollector, ACollector CSub _) => true | _ => false end.

(* no subtraction collector anywhere in the path (sub-paths included) *)
Fixpoint no_sub (p : ppath) : bool :=
  match p with
  | PFail _ => true
  | PPath segs =>
      (fix go (l : list pseg) : bool :=
         match l with
         | [] => true
         | PSeg es us s s2 :: r => negb (is_sub_seg es) && no_sub s && no_sub s2 && go r
         end) segs
  end.
