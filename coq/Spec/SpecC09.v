(* C09 (purity half) -- a query leaves the document as it was.  In the model
   the document is an immutable value; the only statement of the evaluator that
   writes to a loaded object on a read path (`del ...node[key]` in
   _collector_subtraction, processor.py:1644-1645) ends the stream with
   [Mut o k].  Purity = no stream of a read ends in [Mut]. *)
From Coq Require Import List String Bool.
From YP Require Import Outcome PyStr PyVal Doc PathParser Eval.
Import ListNotations.

Definition pure_stop (s : stop) : Prop := match s with Mut _ _ => False | _ => True end.

Definition is_sub_seg (es : seg) : bool :=
  match es with (Some TCollector, ACollector CSub _) => true | _ => false end.

(* no subtraction collector anywhere in the path (sub-paths included) *)
Fixpoint no_sub (p : ppath) : bool :=
  match p with
  | PFail _ => true
  | PPath segs =>
      (fix go (l : list pseg) : bool :=
         match l with
         | [] => true
         | PSeg es us s s2 :: r => negb (is_sub_seg es) && no_sub s && no_sub s2 && go r
         end) segs
  end.

Fixpoint nosub_segs (l : list pseg) : bool :=
  match l with
  | [] => true
  | PSeg es us s s2 :: r => negb (is_sub_seg es) && no_sub s && no_sub s2 && nosub_segs r
  end.
