(* C04 - declarative statement of "a delete removes exactly the matched nodes".

   A node of the document is designated by (object identity of its parent
   container, its position among the parent's children in the ORIGINAL
   document).  [prune T d] is the document in which exactly the designated
   children are gone: nothing else is touched, and what remains keeps its
   relative order by construction. *)
From Coq Require Import List ZArith NArith Bool.
From YP Require Import Outcome PyStr PyVal Doc.
Import ListNotations.

(* keep the elements whose ORIGINAL position (counted from k) satisfies keep *)
Fixpoint filter_from {A} (keep : nat -> bool) (k : nat) (l : list A) : list A :=
  match l with
  | [] => []
  | x :: r => if keep k then x :: filter_from keep (S k) r else filter_from keep (S k) r
  end.

Fixpoint prune (T : N -> nat -> bool) (d : node) : node :=
  match d with
  | NLeaf _ _ => d
  | NMap i kvs =>
      NMap i (filter_from (fun k => negb (T (oid i) k)) 0 (map (fun kv => (fst kv, prune T (snd kv))) kvs))
  | NSeq i els => NSeq i (filter_from (fun k => negb (T (oid i) k)) 0 (map (prune T) els))
  | NSet i els => NSet i (filter_from (fun k => negb (T (oid i) k)) 0 els)
  end.

(* all container objects of the document that have identity o *)
Fixpoint objs (o : N) (d : node) : list node :=
  match d with
  | NLeaf _ _ => []
  | NMap i kvs => (if N.eqb (oid i) o then [d] else []) ++ flat_map (fun kv => objs o (snd kv)) kvs
  | NSeq i els => (if N.eqb (oid i) o then [d] else []) ++ flat_map (objs o) els
  | NSet i _ => if N.eqb (oid i) o then [d] else []
  end.

(* identities of all containers; a loaded document never holds one container
   inside itself, and (aliased containers apart) holds each once *)
Fixpoint coids (d : node) : list N :=
  match d with
  | NLeaf _ _ => []
  | NMap i kvs => oid i :: flat_map (fun kv => coids (snd kv)) kvs
  | NSeq i els => oid i :: flat_map coids els
  | NSet i _ => [oid i]
  end.
Definition wf_doc (d : node) : Prop := NoDup (coids d).

(* the child a (parent, parentref) pair designates, Python style: a key by ==,
   an index counted from the end when negative, a set member by == *)
Fixpoint first_idx {A} (P : A -> bool) (l : list A) : option nat :=
  match l with
  | [] => None
  | x :: r => if P x then Some O else option_map S (first_idx P r)
  end.

Definition leaf_eq (k : pyval) (n : node) : bool :=
  match n with NLeaf _ v => py_eq v k | _ => false end.

Definition child_index (r : pyval) (n : node) : option nat :=
  match n with
  | NLeaf _ _ => None
  | NMap _ kvs => first_idx (fun kv => leaf_eq r (fst kv)) kvs
  | NSeq _ els =>
      match r with
      | PInt z =>
          let len := Z.of_nat (length els) in
          if ((0 <=? z) && (z <? len))%Z then Some (Z.to_nat z)
          else if ((z <? 0) && (0 <=? z + len))%Z then Some (Z.to_nat (z + len))
          else None
      | _ => None
      end
  | NSet _ els => first_idx (leaf_eq r) els
  end.

Definition target := (N * nat)%type.
Definition inT (T : list target) (o : N) (k : nat) : bool :=
  existsb (fun t => N.eqb (fst t) o && Nat.eqb (snd t) k) T.

(* the designated child of one (parent identity, parentref) coordinate *)
Definition target_of (d : node) (po : option N) (r : pyval) : option target :=
  match po with
  | None => None
  | Some o => match objs o d with
              | n0 :: _ => option_map (fun i => (o, i)) (child_index r n0)
              | [] => None
              end
  end.

Fixpoint targets (d : node) (ps : list (option N * pyval)) : list target :=
  match ps with
  | [] => []
  | (po, r) :: rest =>
      match target_of d po r with
      | Some t => t :: targets d rest
      | None => targets d rest
      end
  end.

(* THE SPEC: the document with exactly the designated nodes removed *)
Definition delete_spec (d : node) (ps : list (option N * pyval)) : node :=
  prune (inT (targets d ps)) d.

(* ---- the guard of the known finding (DESIGN #15 and its relatives) ----
   The deletion loop is only right when, in the order in which it processes the
   coordinates, no node is named twice and the positions named in one sequence
   strictly decrease, a negative index coming first.  A single path without
   Collectors yields its matches in document order and the loop walks them in
   reverse, so this holds; `(a[0])+(a[0])` or `(a[2])+(a[0])` break it. *)
Definition is_neg (r : pyval) : bool := match r with PInt z => (z <? 0)%Z | _ => false end.

Definition step_ok (d : node) (T : list target) (po : option N) (r : pyval) : bool :=
  match po with
  | None => false
  | Some o =>
      match objs o d with
      | [] => true                                     (* object not in the document: nothing happens *)
      | [n0] =>
          match n0, child_index r n0 with
          | NSeq _ els, Some i =>
              forallb (fun k => negb (inT T o k)) (seq 0 (S i))
              && (negb (is_neg r) || forallb (fun k => negb (inT T o k)) (seq 0 (length els)))
          | NSeq _ els, None => match r with PInt z => (Z.of_nat (length els) <=? z)%Z | _ => false end
          | NMap _ _, Some i => negb (inT T o i)
          | NMap _ _, None => true
          | NSet _ _, Some i => negb (inT T o i)
          | NSet _ _, None => false
          | NLeaf _ _, _ => true
          end
      | _ => false
      end
  end.

Fixpoint ordered_from (d : node) (T : list target) (ps : list (option N * pyval)) : bool :=
  match ps with
  | [] => true
  | (po, r) :: rest =>
      step_ok d T po r &&
      ordered_from d (match target_of d po r with Some t => t :: T | None => T end) rest
  end.

Definition no_dup_no_disorder (d : node) (ps : list (option N * pyval)) : bool := ordered_from d [] ps.

(* computable form of wf_doc *)
Fixpoint nodupb (l : list N) : bool :=
  match l with [] => true | x :: r => negb (existsb (N.eqb x) r) && nodupb r end.
Definition wf_docb (d : node) : bool := nodupb (coids d).

(* ---- what the read side promises for a single path without Collectors ----
   In GATHER order (the loop walks it reversed) every coordinate locates a node
   of the document (a non-root parent object of the document and a parentref
   naming one of its children), and any two coordinates with the same parent
   name different children, the earlier one the earlier child ("document order
   within each parent, each node once"); a negative sequence index is only
   acceptable as the last coordinate of its parent (it is resolved against the
   length the sequence has when its turn comes).  Computable; the harness
   evaluates the same predicate on the real gathered NodeCoords. *)
Definition later_ok (d : node) (o : N) (i : nat) (neg : bool) (q : option N * pyval) : bool :=
  match target_of d (fst q) (snd q) with
  | Some (o', j) => negb (N.eqb o' o) || (Nat.ltb i j && negb neg)
  | None => false
  end.

Definition neg_index (d : node) (po : option N) (r : pyval) : bool :=
  is_neg r && match po with
              | Some o => match objs o d with NSeq _ _ :: _ => true | _ => false end
              | None => false
              end.

Fixpoint doc_ordered (d : node) (ps : list (option N * pyval)) : bool :=
  match ps with
  | [] => true
  | (po, r) :: rest =>
      match target_of d po r with
      | Some (o, i) => forallb (later_ok d o i (neg_index d po r)) rest && doc_ordered d rest
      | None => false
      end
  end.
