(* C04 - declarative statement of "a delete removes exactly the matched nodes".

   A node of the document is designated by (object identity of its parent
   container, its position among the parent's children in the ORIGINAL
   document).  [prune T d] is the document in which exactly the designated
   children are gone: nothing else is touched, and what remains keeps its
   relative order by construction. *)
From Coq Require Import List ZArith NArith Bool.
From YP Require Import Outcome PyStr PyVal Doc.
Import ListNotations.

(* keep the elements whose ORIGINAL position (counted from k) satisfies keep *)
Fixpoint filter_from {A} (keep : nat -> bool) (k : nat) (l : list A) : list A :=
  match l with
  | [] => []
  | x :: r => if keep k then x :: filter_from keep (S k) r else filter_from keep (S k) r
  end.

Fixpoint prune (T : N -> nat -> bool) (d : node) : node :=
  match d with
  | NLeaf _ _ => d
  | NMap i kvs =>
      NMap i (filter_from (fun k => negb (T (oid i) k)) 0 (map (fun kv => (fst kv, prune T (snd kv))) kvs))
  | NSeq i els => NSeq i (filter_from (fun k => negb (T (oid i) k)) 0 (map (prune T) els))
  | NSet i els => NSet i (filter_from (fun k => negb (T (oid i) k)) 0 els)
  end.

(* all container objects of the document that have identity o *)
Fixpoint objs (o : N) (d : node) : list node :=
  match d with
  | NLeaf _ _ => []
  | NMap i kvs => (if N.eqb (oid i) o then [d] else []) ++ flat_map (fun kv => objs o (snd kv)) kvs
  | NSeq i els => (if N.eqb (oid i) o then [d] else []) ++ flat_map (objs o) els
  | NSet i _ => if N.eqb (oid i) o then [d] else []
  end.

(* identities of all containers; a loaded document never holds one container
   inside itself, and (aliased containers apart) holds each once *)
Fixpoint coids (d : node) : list N :=
  match d with
  | NLeaf _ _ => []
  | NMap i kvs => oid i :: flat_map (fun kv => coids (snd kv)) kvs
  | NSeq i els => oid i :: flat_map coids els
  | NSet i _ => [oid i]
  end.
Definition wf_doc (d : node) : Prop := NoDup (coids d).

(* the child a (parent, parentref) pair designates, Python style: a key by ==,
   an index counted from the end when negative, a set member by == *)
Fixpoint first_idx {A} (P : A -> bool) (l : list A) : option nat :=
  match l with
  | [] => None
  | x :: r => if P x then Some O else option_map S (first_idx P r)
  end.

Definition leaf_eq (k : pyval) (n : node) : bool :=
  match n with NLeaf _ v => py_eq v k | _ => false end.

Definition child_index (r : pyval) (n : node) : option nat :=
  match n with
  | NLeaf _ _ => None
  | NMap _ kvs => first_idx (fun kv => leaf_eq r (fst kv)) kvs
  | NSeq _ els =>
      match r with
      | PInt z =>
          let len := Z.of_nat (length els) in
          if ((0 <=? z) && (z <? len))%Z then Some (Z.to_nat z)
          else if ((z <? 0) && (0 <=? z + len))%Z then Some (Z.to_nat (z + len))
          else None
      | _ => None
      end
  | NSet _ els => first_idx (leaf_eq r) els
  end.

Definition target := (N * nat)%type.
Definition inT (T : list target) (o : N) (k : nat) : bool :=
  existsb (fun t => N.eqb (fst t) o && Nat.eqb (snd t) k) T.

(* the designated child of one (parent identity, parentref) coordinate *)
Definition target_of (d : node) (po : option N) (r : pyval) : option target :=
  match po with
  | None => None
  | Some o => match objs o d with
              | n0 :: _ => option_map (fun i => (o, i)) (child_index r n0)
              | [] => None
              end
  end.

Fixpoint targets (d : node) (ps : list (option N * pyval)) : list target :=
  match ps with
  | [] => []
  | (po, r) :: rest =>
      match target_of d po r with
      | Some t => t :: targets d rest
      | None => targets d rest
      end
  end.

(* THE SPEC: the document with exactly the designated nodes removed *)
Definition delete_spec (d : node) (ps : list (option N * pyval)) : node :=
  prune (inT (targets d ps)) d.

(* ---- the only hypothesis on the gathered coordinates: each one LOCATES a
   node of the document (its parent is a container object of the document and
   its parentref names one of that container's children).  How often and in
   what order the nodes were gathered does not matter (fix 17f9ea8; formerly
   the guard no_dup_no_disorder of known finding F15). *)
Definition del_located (d : node) (q : option N * pyval) : bool :=
  match target_of d (fst q) (snd q) with Some _ => true | None => false end.
Definition del_all_located (d : node) (ps : list (option N * pyval)) : bool := forallb (del_located d) ps.

(* computable form of wf_doc *)
Fixpoint nodupb (l : list N) : bool :=
  match l with [] => true | x :: r => negb (existsb (N.eqb x) r) && nodupb r end.
Definition wf_docb (d : node) : bool := nodupb (coids d).

